(* StorageCached2Proofs.v — the twin with trees AND segments behind caches (Model/StorageCached2.v) returns exactly
   the outputs of the first twin (Model/StorageCached.v), hence (cached_storage_refines) outputs equivalent to st_run. *)
From Coq Require Import List Arith ZArith NArith Bool Lia.
From Pyro Require Import Model.Base Model.Tree Model.Lfu Model.Cache Proofs.CacheProofs.
From Pyro Require Import Model.Segment Model.SegCodec Model.MetaJson Model.Timeline Model.Storage.
From Pyro Require Import Model.StorageCached Model.StorageCached2.
From Pyro Require Import Proofs.BcmpProofs Proofs.StorageProofs Proofs.RetentionProofs Proofs.C02StorageReload.
From Pyro Require Import Proofs.StorageCachedProofs Proofs.CacheView.
Import ListNotations.

Notation sv := (gvget bytes_dec sc_dflt sc_dec).
Notation swf := (gcwf (K:=bytes) (V:=segment) (D:=bytes)).
Definition key (ks : sid * segment) : bytes := sid_key (fst ks).

(* ---------- the series table as a sorted list ---------- *)
Lemma sorted_key_inj : forall l a b, segs_sorted l -> In a l -> In b l -> key a = key b -> a = b.
Proof.
  induction l as [|x l IH]; intros a b H Ha Hb E; [destruct Ha|].
  cbn [segs_sorted] in H. destruct H as [H1 H2]. rewrite Forall_forall in H1.
  destruct Ha as [<-|Ha], Hb as [<-|Hb]; auto.
  - specialize (H1 b Hb). unfold key in E. rewrite E, bcmp_refl in H1. discriminate.
  - specialize (H1 a Ha). unfold key in E. rewrite <- E, bcmp_refl in H1. discriminate.
Qed.

Lemma seg_lookup_none : forall k l, seg_lookup k l = None -> forall ks, In ks l -> key ks <> sid_key k.
Proof.
  induction l as [|[k1 s1] l IH]; intros H ks Hi; [destruct Hi|]. cbn [seg_lookup] in H. unfold sid_eqb in H.
  destruct (beqb (sid_key k) (sid_key k1)) eqn:E; [discriminate|].
  destruct Hi as [<-|Hi]; [|apply IH; assumption]. unfold key. cbn [fst]. apply beqb_false in E. congruence.
Qed.

Lemma store_index : forall k s l, map fst (seg_store k s l) = idx_store k (map fst l).
Proof.
  induction l as [|[k1 s1] l IH]; cbn [seg_store idx_store map fst]; [reflexivity|].
  destruct (bcmp (sid_key k) (sid_key k1)); cbn [map fst]; [reflexivity | reflexivity | rewrite IH; reflexivity].
Qed.

Lemma store_has : forall k s l, In (k, s) (seg_store k s l).
Proof.
  induction l as [|[k1 s1] l IH]; cbn [seg_store]; [left; reflexivity|].
  destruct (bcmp (sid_key k) (sid_key k1)); [left; reflexivity | left; reflexivity | right; exact IH].
Qed.

Lemma store_keeps : forall k s l x, In x l -> key x <> sid_key k -> In x (seg_store k s l).
Proof.
  induction l as [|[k1 s1] l IH]; intros x Hi N; [destruct Hi|]. cbn [seg_store].
  destruct (bcmp (sid_key k) (sid_key k1)) eqn:E.
  - apply bcmp_eq in E. destruct Hi as [<-|Hi]; [unfold key in N; cbn [fst] in N; congruence | right; exact Hi].
  - right. exact Hi.
  - destruct Hi as [<-|Hi]; [left; reflexivity | right; apply IH; assumption].
Qed.

Lemma remove_index : forall k l, map fst (seg_remove k l) = idx_remove k (map fst l).
Proof.
  unfold seg_remove, idx_remove. induction l as [|[k1 s1] l IH]; [reflexivity|]. cbn [filter map fst].
  destruct (negb (sid_eqb k k1)); cbn [map fst]; rewrite IH; reflexivity.
Qed.

Lemma remove_in : forall k l x, In x (seg_remove k l) <-> In x l /\ key x <> sid_key k.
Proof.
  intros k l x. unfold seg_remove. rewrite filter_In. unfold sid_eqb, key.
  destruct (beqb (sid_key k) (sid_key (fst x))) eqn:E; cbn [negb].
  - apply beqb_true in E. split; [intros [_ H]; discriminate | intros [_ H]; congruence].
  - apply beqb_false in E. split; [intros [H _]; split; [exact H | congruence] | intros [H _]; auto].
Qed.

Lemma remove_sorted : forall k l, segs_sorted l -> segs_sorted (seg_remove k l).
Proof.
  unfold seg_remove. induction l as [|x l IH]; intros H; [exact I|]. cbn [segs_sorted] in H. destruct H as [H1 H2].
  cbn [filter]. destruct (negb (sid_eqb k (fst x))); [|apply IH, H2]. cbn [segs_sorted]. split; [|apply IH, H2].
  rewrite Forall_forall in *. intros y Hy. apply filter_In in Hy. apply H1. tauto.
Qed.

Lemma filter_index : forall (p : sid -> bool) (l : list (sid * segment)),
  map fst (filter (fun ks => p (fst ks)) l) = filter p (map fst l).
Proof.
  induction l as [|[k1 s1] l IH]; [reflexivity|]. cbn [filter map fst]. destruct (p k1); cbn [map fst]; rewrite IH; reflexivity.
Qed.

Lemma filter_sorted : forall (p : sid * segment -> bool) l, segs_sorted l -> segs_sorted (filter p l).
Proof.
  induction l as [|x l IH]; intros H; [exact I|]. cbn [segs_sorted] in H. destruct H as [H1 H2].
  cbn [filter]. destruct (p x); [|apply IH, H2]. cbn [segs_sorted]. split; [|apply IH, H2].
  rewrite Forall_forall in *. intros y Hy. apply filter_In in Hy. apply H1. tauto.
Qed.

Lemma rebuild : forall (g : bytes -> segment) (l : list (sid * segment)),
  (forall ks, In ks l -> g (key ks) = snd ks) ->
  combine (map fst l) (map g (map sid_key (map fst l))) = l.
Proof.
  induction l as [|[k1 s1] l IH]; intros H; [reflexivity|]. cbn [map fst combine].
  pose proof (H (k1, s1) (or_introl eq_refl)) as H1. unfold key in H1. cbn [fst snd] in H1. rewrite H1. f_equal. apply IH. intros ks Hi. apply H. right. exact Hi.
Qed.

(* ---------- the relation between the two twins ---------- *)
Record R2 (c2 : c2_state) (cst : cst_state) : Prop := mkR2 {
  r_trees : cs_trees cst = c2_trees c2;
  r_index : c2_index c2 = map fst (cs_segs cst);
  r_sorted : segs_sorted (cs_segs cst);
  r_wf : swf (c2_segs c2);
  r_in : forall ks, In ks (cs_segs cst) -> sv (c2_segs c2) (key ks) = snd ks;
  r_out : forall kb, (forall ks, In ks (cs_segs cst) -> key ks <> kb) -> sv (c2_segs c2) kb = Segment.s_empty
}.

Arguments r_trees {c2 cst}. Arguments r_index {c2 cst}. Arguments r_sorted {c2 cst}.
Arguments r_wf {c2 cst}. Arguments r_in {c2 cst}. Arguments r_out {c2 cst}.

Lemma R2_init : R2 c2_init cst_init.
Proof. constructor; cbn; auto; try tauto. apply gcwf_empty. Qed.

Lemma sread : forall k sc sc' s, swf sc -> s_read k sc = (sc', s) ->
  s = sv sc k /\ swf sc' /\ (forall k', sv sc' k' = sv sc k') /\ l_find bytes_dec k (c_lfu sc') <> None.
Proof.
  intros k sc sc' s W H. destruct (gread_spec bytes_dec sc_dflt sc_enc sc_dec k sc sc' s W H) as (A & B & C).
  split; [exact A|]. split; [exact B|]. split; [exact C|]. eapply gread_present; eauto.
Qed.

Lemma lookup_view : forall c2 cst k, R2 c2 cst ->
  match seg_lookup k (cs_segs cst) with Some s => s | None => Segment.s_empty end = sv (c2_segs c2) (sid_key k).
Proof.
  intros c2 cst k R. destruct (seg_lookup k (cs_segs cst)) as [s|] eqn:E.
  - destruct (seg_lookup_in _ _ _ E) as (ks & Hi & Hk & Hs). rewrite <- Hs, <- (r_in R ks Hi). unfold key. rewrite Hk. reflexivity.
  - symmetry. apply (r_out R). intros ks Hi. apply (seg_lookup_none _ _ E ks Hi).
Qed.

Lemma put_go_sim : forall pi c2 cst, R2 c2 cst ->
  R2 (fst (c2_put_go pi c2)) (fst (cst_put_go pi cst)) /\ snd (c2_put_go pi c2) = snd (cst_put_go pi cst).
Proof.
  intros pi c2 cst R. unfold c2_put_go, cst_put_go.
  destruct (s_read (sid_key (pi_sid pi)) (c2_segs c2)) as [sc1 seg] eqn:RD.
  destruct (sread _ _ _ _ (r_wf R) RD) as (-> & W1 & V1 & _).
  rewrite (lookup_view c2 cst (pi_sid pi) R).
  destruct (s_put_unix (pi_from pi) (pi_until pi) (t_total (pi_tree pi))
              (s_set_meta (pi_meta pi) (sv (c2_segs c2) (sid_key (pi_sid pi))))) as [seg' cbs].
  cbn [fst snd]. split; [|reflexivity].
  destruct (gput_spec bytes_dec sc_dflt sc_enc sc_dec (sid_key (pi_sid pi)) seg' sc1 W1) as [W2 V2].
  constructor; cbn [cs_trees cs_segs c2_trees c2_index c2_segs].
  - rewrite (r_trees R). reflexivity.
  - rewrite store_index, (r_index R). reflexivity.
  - apply seg_store_sorted, (r_sorted R).
  - exact W2.
  - intros ks Hi. unfold s_put. rewrite V2.
    destruct (bytes_dec (key ks) (sid_key (pi_sid pi))) as [E|N].
    + assert (ks = (pi_sid pi, seg')) as ->; [|reflexivity].
      apply (sorted_key_inj (seg_store (pi_sid pi) seg' (cs_segs cst))); auto.
      * apply seg_store_sorted, (r_sorted R).
      * apply store_has.
    + rewrite V1. apply seg_store_in in Hi. destruct Hi as [->|Hi]; [unfold key in N; cbn in N; congruence|].
      apply (r_in R). exact Hi.
  - intros kb H. unfold s_put. rewrite V2.
    destruct (bytes_dec kb (sid_key (pi_sid pi))) as [->|N].
    + exfalso. apply (H (pi_sid pi, seg')); [apply store_has | reflexivity].
    + rewrite V1. apply (r_out R). intros ks Hi E. apply (H ks); [|exact E].
      apply store_keeps; [exact Hi | congruence].
Qed.

Lemma put2_sim : forall rt pi c2 cst, R2 c2 cst ->
  R2 (fst (c2_put rt pi c2)) (fst (cst_put rt pi cst)) /\ snd (c2_put rt pi c2) = snd (cst_put rt pi cst).
Proof.
  intros rt pi c2 cst R. destruct rt as [thr|]; cbn [c2_put cst_put]; [|apply put_go_sim; exact R].
  destruct (pi_from pi <? thr)%Z; [cbn; auto | apply put_go_sim; exact R].
Qed.

Lemma get2_sim : forall sel from until c2 cst, R2 c2 cst ->
  R2 (fst (c2_get sel from until c2)) (fst (cst_get sel from until cst)) /\
  snd (c2_get sel from until c2) = snd (cst_get sel from until cst).
Proof.
  intros sel from until c2 cst R. unfold c2_get, cst_get.
  destruct (s_normalize_unix (from, until)) as [a b].
  set (M := filter (fun ks => sel_matches sel (fst ks)) (cs_segs cst)).
  assert (IDS : filter (sel_matches sel) (c2_index c2) = map fst M).
  { unfold M. rewrite (r_index R). symmetry. apply (filter_index (sel_matches sel)). }
  rewrite IDS.
  destruct (s_reads (map sid_key (map fst M)) (c2_segs c2)) as [sc' ss] eqn:RS.
  destruct (greads_spec bytes_dec sc_dflt sc_enc sc_dec _ _ _ _ (r_wf R) RS) as (-> & W' & V').
  assert (MM : combine (map fst M) (map (sv (c2_segs c2)) (map sid_key (map fst M))) = M).
  { apply rebuild. intros ks Hi. apply (r_in R). unfold M in Hi. apply filter_In in Hi. tauto. }
  rewrite MM. rewrite <- (r_trees R).
  destruct (c_reads (map item_key (get_items a b M)) (cs_trees cst)) as [c' vals]. cbn [fst snd].
  split; [|reflexivity].
  constructor; cbn [cs_trees cs_segs c2_trees c2_index c2_segs]; try apply R; auto.
  - intros ks Hi. rewrite V'. apply (r_in R). exact Hi.
  - intros kb H. rewrite V'. apply (r_out R). exact H.
Qed.

(* ---------- Delete and DeleteDataBefore: one series at a time ---------- *)
Lemma delete_one_sim : forall c2 cst ks, R2 c2 cst -> In ks (cs_segs cst) ->
  R2 (c2_delete_one c2 (fst ks)) (cst_delete_series cst ks).
Proof.
  intros c2 cst ks R Hi. unfold c2_delete_one, cst_delete_series.
  destruct (s_read (sid_key (fst ks)) (c2_segs c2)) as [sc1 seg] eqn:RD.
  destruct (sread _ _ _ _ (r_wf R) RD) as (-> & W1 & V1 & _).
  pose proof (r_in R ks Hi) as EQ0. unfold key in EQ0. rewrite EQ0.
  destruct (s_delete_before_unix max_time_unix (snd ks)) as [[seg' cbs] del].
  destruct (gdel_spec bytes_dec sc_dflt sc_enc sc_dec (sid_key (fst ks)) sc1 W1) as [W2 V2].
  constructor; cbn [cs_trees cs_segs c2_trees c2_index c2_segs].
  - rewrite (r_trees R). reflexivity.
  - rewrite remove_index, (r_index R). reflexivity.
  - apply remove_sorted, (r_sorted R).
  - exact W2.
  - intros x Hx. apply remove_in in Hx. destruct Hx as [Hx N]. unfold s_del. rewrite V2.
    destruct (bytes_dec (key x) (sid_key (fst ks))); [contradiction|]. rewrite V1. apply (r_in R). exact Hx.
  - intros kb H. unfold s_del. rewrite V2. destruct (bytes_dec kb (sid_key (fst ks))) as [->|N]; [reflexivity|].
    rewrite V1. apply (r_out R). intros x Hx E. apply (H x); [|exact E]. apply remove_in. split; [exact Hx | congruence].
Qed.

Lemma retention_one_sim : forall thr c2 cst ks, R2 c2 cst -> In ks (cs_segs cst) ->
  R2 (c2_retention_one thr c2 (fst ks)) (cst_retention_series thr cst ks).
Proof.
  intros thr c2 cst ks R Hi. unfold c2_retention_one, cst_retention_series.
  destruct (s_read (sid_key (fst ks)) (c2_segs c2)) as [sc1 seg] eqn:RD.
  destruct (sread _ _ _ _ (r_wf R) RD) as (-> & W1 & V1 & PR).
  pose proof (r_in R ks Hi) as EQ0. unfold key in EQ0. rewrite EQ0.
  destruct (s_delete_before_unix thr (snd ks)) as [[seg' cbs] del].
  destruct del.
  - destruct (gdel_spec bytes_dec sc_dflt sc_enc sc_dec (sid_key (fst ks)) sc1 W1) as [W2 V2].
    constructor; cbn [cs_trees cs_segs c2_trees c2_index c2_segs].
    + rewrite (r_trees R). reflexivity.
    + rewrite remove_index, (r_index R). reflexivity.
    + apply remove_sorted, (r_sorted R).
    + exact W2.
    + intros x Hx. apply remove_in in Hx. destruct Hx as [Hx N]. unfold s_del. rewrite V2.
      destruct (bytes_dec (key x) (sid_key (fst ks))); [contradiction|]. rewrite V1. apply (r_in R). exact Hx.
    + intros kb H. unfold s_del. rewrite V2. destruct (bytes_dec kb (sid_key (fst ks))) as [->|N]; [reflexivity|].
      rewrite V1. apply (r_out R). intros x Hx E. apply (H x); [|exact E]. apply remove_in. split; [exact Hx | congruence].
  - destruct (gpoke_spec bytes_dec sc_dflt sc_enc sc_dec (sid_key (fst ks)) (fun _ => seg') sc1 W1 PR) as [W2 V2].
    destruct (in_split _ _ Hi) as (Rp & l2 & ES).
    pose proof (r_sorted R) as SS. rewrite ES in SS.
    assert (ST : seg_store (fst ks) seg' (cs_segs cst) = Rp ++ (fst ks, seg') :: l2)
      by (rewrite ES; apply seg_store_mid; exact SS).
    destruct (sorted_app_inv Rp ks l2 SS) as [G1 G2]. rewrite Forall_forall in G1, G2.
    assert (OTHER : forall x, In x Rp \/ In x l2 -> key x <> sid_key (fst ks)).
    { intros x [Hx|Hx] E; [specialize (G1 x Hx) | specialize (G2 x Hx)]; unfold key in E;
        [rewrite E in G1 | rewrite E in G2]; rewrite bcmp_refl in *; discriminate. }
    constructor; cbn [cs_trees cs_segs c2_trees c2_index c2_segs].
    + rewrite (r_trees R). reflexivity.
    + rewrite ST, (r_index R), ES, !map_app. reflexivity.
    + rewrite ST. apply sorted_app_replace. exact SS.
    + exact W2.
    + intros x Hx. rewrite ST in Hx. unfold s_poke. rewrite V2.
      apply in_app_or in Hx. destruct Hx as [Hx|[<-|Hx]].
      * destruct (bytes_dec (key x) (sid_key (fst ks))) as [E|N]; [exfalso; apply (OTHER x); auto|].
        rewrite V1. apply (r_in R). rewrite ES. apply in_or_app. left. exact Hx.
      * unfold key. cbn [fst snd]. destruct (bytes_dec (sid_key (fst ks)) (sid_key (fst ks))); [reflexivity | congruence].
      * destruct (bytes_dec (key x) (sid_key (fst ks))) as [E|N]; [exfalso; apply (OTHER x); auto|].
        rewrite V1. apply (r_in R). rewrite ES. apply in_or_app. right. right. exact Hx.
    + intros kb H. unfold s_poke. rewrite V2.
      destruct (bytes_dec kb (sid_key (fst ks))) as [->|N].
      * exfalso. apply (H (fst ks, seg')); [rewrite ST; apply in_or_app; right; left; reflexivity | reflexivity].
      * rewrite V1. apply (r_out R). intros x Hx E. rewrite ES in Hx. apply in_app_or in Hx.
        destruct Hx as [Hx|[<-|Hx]].
        -- apply (H x); [rewrite ST; apply in_or_app; left; exact Hx | exact E].
        -- apply N. symmetry. exact E.
        -- apply (H x); [rewrite ST; apply in_or_app; right; right; exact Hx | exact E].
Qed.

(* a pass over a sorted sub-list of the table: every iteration touches only its own key *)
Lemma pass_sim : forall (f2 : c2_state -> sid -> c2_state) (f1 : cst_state -> sid * segment -> cst_state),
  (forall c2 cst ks, R2 c2 cst -> In ks (cs_segs cst) -> R2 (f2 c2 (fst ks)) (f1 cst ks)) ->
  (forall cst ks x, segs_sorted (cs_segs cst) -> In ks (cs_segs cst) -> In x (cs_segs cst) -> key x <> key ks ->
                    In x (cs_segs (f1 cst ks))) ->
  forall T c2 cst, R2 c2 cst -> segs_sorted T -> (forall ks, In ks T -> In ks (cs_segs cst)) ->
  R2 (fold_left f2 (map fst T) c2) (fold_left f1 T cst).
Proof.
  intros f2 f1 ONE KEEP. induction T as [|ks T IH]; intros c2 cst R ST IN; [exact R|].
  cbn [map fold_left]. cbn [segs_sorted] in ST. destruct ST as [S1 S2]. rewrite Forall_forall in S1.
  apply IH; [apply ONE; [exact R | apply IN; left; reflexivity] | exact S2 |].
  intros x Hx. apply KEEP; [apply (r_sorted R) | apply IN; left; reflexivity | apply IN; right; exact Hx |].
  intros E. specialize (S1 x Hx). unfold key in E. rewrite E, bcmp_refl in S1. discriminate.
Qed.

Lemma delete_keep : forall cst ks x, segs_sorted (cs_segs cst) -> In ks (cs_segs cst) -> In x (cs_segs cst) ->
  key x <> key ks -> In x (cs_segs (cst_delete_series cst ks)).
Proof.
  intros cst ks x _ _ Hx N. unfold cst_delete_series.
  destruct (s_delete_before_unix max_time_unix (snd ks)) as [[seg' cbs] del]. cbn [cs_segs].
  apply remove_in. split; [exact Hx | exact N].
Qed.

Lemma retention_keep : forall thr cst ks x, segs_sorted (cs_segs cst) -> In ks (cs_segs cst) -> In x (cs_segs cst) ->
  key x <> key ks -> In x (cs_segs (cst_retention_series thr cst ks)).
Proof.
  intros thr cst ks x _ _ Hx N. unfold cst_retention_series.
  destruct (s_delete_before_unix thr (snd ks)) as [[seg' cbs] del]. destruct del; cbn [cs_segs].
  - apply remove_in. split; [exact Hx | exact N].
  - apply store_keeps; [exact Hx | exact N].
Qed.

Lemma delete2_sim : forall sel c2 cst, R2 c2 cst -> R2 (c2_delete sel c2) (cst_delete sel cst).
Proof.
  intros sel c2 cst R. unfold c2_delete, cst_delete.
  rewrite (r_index R), <- (filter_index (sel_matches sel)).
  apply (pass_sim c2_delete_one cst_delete_series).
  - intros; apply delete_one_sim; assumption.
  - apply delete_keep.
  - exact R.
  - apply filter_sorted, (r_sorted R).
  - intros ks Hi. apply filter_In in Hi. tauto.
Qed.

Lemma retention2_sim : forall thr c2 cst, R2 c2 cst -> R2 (c2_retention thr c2) (cst_retention thr cst).
Proof.
  intros thr c2 cst R. unfold c2_retention, cst_retention. rewrite (r_index R).
  apply (pass_sim (c2_retention_one thr) (cst_retention_series thr)).
  - intros; apply retention_one_sim; assumption.
  - apply retention_keep.
  - exact R.
  - apply (r_sorted R).
  - auto.
Qed.

Theorem step2_commutes : forall rt o c2 cst, R2 c2 cst ->
  R2 (fst (c2_step rt c2 o)) (fst (cst_step rt cst o)) /\ snd (c2_step rt c2 o) = snd (cst_step rt cst o).
Proof.
  intros rt o c2 cst R. destruct o as [pi|sel f u|sel|thr]; cbn [c2_step cst_step].
  - destruct (put2_sim rt pi c2 cst R) as [R' E].
    destruct (c2_put rt pi c2) as [c2' ok]. destruct (cst_put rt pi cst) as [cst' ok']. cbn in *. subst. auto.
  - destruct (get2_sim sel f u c2 cst R) as [R' E].
    destruct (c2_get sel f u c2) as [c2' r]. destruct (cst_get sel f u cst) as [cst' r']. cbn in *. subst. auto.
  - split; [apply delete2_sim; exact R | reflexivity].
  - split; [apply retention2_sim; exact R | reflexivity].
Qed.

(* ---------- maintenance ---------- *)
(* a segment round-trips through the codec (Bytes then FromBytes gives the same object) *)
Definition rt_ok (s : segment) : Prop := sc_dec [] (sc_enc [] s) = s.

Lemma rt_empty : rt_ok Segment.s_empty.
Proof. vm_compute. reflexivity. Qed.

Definition segs_rt (cst : cst_state) : Prop := forall ks, In ks (cs_segs cst) -> rt_ok (snd ks).

Lemma maint2_sim : forall m c2 cst, R2 c2 cst ->
  match m with
  | M2Trees mt => R2 (c2_maint m c2) (cst_maint mt cst)
  | _ => segs_rt cst -> R2 (c2_maint m c2) cst
  end.
Proof.
  intros m c2 cst R.
  assert (SEG : forall cm, is_maint_cop cm -> segs_rt cst ->
            R2 {| c2_index := c2_index c2; c2_segs := g_maint bytes_dec sc_dflt sc_enc sc_dec cm (c2_segs c2);
                  c2_trees := c2_trees c2 |} cst).
  { intros cm Hcm RT. destruct (gmaint_spec bytes_dec sc_dflt sc_enc sc_dec cm (c2_segs c2) Hcm (r_wf R)) as [W' [sel V']].
    constructor; cbn [c2_trees c2_index c2_segs]; try apply R; auto.
    - intros ks Hi. rewrite V'. rewrite (r_in R ks Hi). destruct (sel (key ks)); [apply (RT ks Hi) | reflexivity].
    - intros kb H. rewrite V'. rewrite (r_out R kb H). destruct (sel kb); [apply rt_empty | reflexivity]. }
  destruct m as [mt|num den order|].
  - unfold c2_maint, cst_maint. cbn [cs_trees cs_segs].
    constructor; cbn [cs_trees cs_segs c2_trees c2_index c2_segs]; try apply R.
    rewrite (r_trees R). reflexivity.
  - intros RT. apply (SEG (CEvict num den order) I RT).
  - intros RT. apply (SEG CFlushReopen I RT).
Qed.

(* the side condition: whenever the segments store is evicted or flushed, every segment of the table round-trips *)
Fixpoint segs_rt_at_maint (rt : option Z) (h : list chop2) (cst : cst_state) : Prop :=
  match h with
  | [] => True
  | C2O o :: r => segs_rt_at_maint rt r (fst (cst_step rt cst o))
  | C2M (M2Trees m) :: r => segs_rt_at_maint rt r (cst_maint m cst)
  | C2M _ :: r => segs_rt cst /\ segs_rt_at_maint rt r cst
  end.

Lemma c2_run_sim : forall rt h c2 cst, R2 c2 cst -> segs_rt_at_maint rt h cst ->
  snd (c2_run rt h c2) = snd (c_run rt (c2map h) cst).
Proof.
  induction h as [|x h IH]; intros c2 cst R OK; [reflexivity|].
  destruct x as [o|m].
  - destruct (step2_commutes rt o c2 cst R) as [R' E]. cbn [segs_rt_at_maint] in OK.
    change (c2map (C2O o :: h)) with (CO o :: c2map h). cbn [c2_run c_run].
    specialize (IH _ _ R' OK).
    destruct (c2_step rt c2 o) as [c21 out]. destruct (cst_step rt cst o) as [cst1 out']. cbn [fst snd] in *. subst out'.
    destruct (c2_run rt h c21) as [c22 outs]. destruct (c_run rt (c2map h) cst1) as [cst2 outs']. cbn [snd] in *. congruence.
  - pose proof (maint2_sim m c2 cst R) as MS. destruct m as [mt|num den order|].
    + change (c2map (C2M (M2Trees mt) :: h)) with (CM mt :: c2map h). cbn [c2_run c_run segs_rt_at_maint] in *.
      apply IH; assumption.
    + change (c2map (C2M (M2SegEvict num den order) :: h)) with (c2map h). cbn [c2_run segs_rt_at_maint] in *.
      destruct OK as [RT OK]. apply IH; [apply MS; exact RT | exact OK].
    + change (c2map (C2M M2SegFlushReopen :: h)) with (c2map h). cbn [c2_run segs_rt_at_maint] in *.
      destruct OK as [RT OK]. apply IH; [apply MS; exact RT | exact OK].
Qed.

(* C02_refines with both stores cached *)
Theorem cached2_storage_refines : forall rt h,
  segs_rt_at_maint rt h cst_init ->
  snd (c2_run rt h c2_init) = snd (c_run rt (c2map h) cst_init) /\
  (Forall ok_op (cstrip (c2map h)) ->
   Forall2 out_equiv (snd (c2_run rt h c2_init)) (snd (st_run rt (cstrip (c2map h)) st_init))).
Proof.
  intros rt h OK. pose proof (c2_run_sim rt h c2_init cst_init R2_init OK) as E.
  split; [exact E|]. intros H. rewrite E. apply cached_storage_refines. exact H.
Qed.

(* ---------- when does a segment round-trip: seg's C14 theorem ---------- *)
From Pyro Require Import Proofs.SegStruct Proofs.SegCodecProofs Proofs.SegCodecJson.

Lemma rt_ok_reachable : forall Kb s, reachable Kb s -> seg_bounded s -> s_root s <> None -> meta_ok (s_meta s) -> rt_ok s.
Proof.
  intros Kb s Hr Hb Hn Hm. unfold rt_ok, sc_dec, sc_enc.
  rewrite (codec_roundtrip_json_reachable Kb s Hr Hb Hn Hm). reflexivity.
Qed.

(* ---------- non-vacuity: both stores are flushed and reopened in the middle of a history ---------- *)
Definition ex2_hist : list chop2 :=
  [ C2O (OpPut (ex_up 1600000000 1600000020 [([97;59;98]%N, 3%N); ([97;59;99]%N, 5%N)]));
    C2M M2SegFlushReopen;
    C2M (M2Trees MFlushReopen);
    C2O (OpPut (ex_up 1600000010 1600000020 [([97;59;98]%N, 1%N)]));
    C2M (M2SegEvict 1 1 [ex_key]);
    C2O (OpGet ex_sid 1600000000 1600000020) ].

Example cached2_storage_refines_nonvacuous :
  segs_rt_at_maint None ex2_hist cst_init /\
  (* after the second maintenance step nothing is in memory in either store *)
  (let c2 := fst (c2_run None (firstn 3 ex2_hist) c2_init) in c_lfu (c2_segs c2) = [] /\ c_lfu (c2_trees c2) = []) /\
  (* the segment eviction before the query is a possible one and empties the segments store again *)
  c_lfu (c2_segs (fst (c2_run None (firstn 5 ex2_hist) c2_init))) = [] /\
  match snd (c2_run None ex2_hist c2_init) with
  | [OutPut true; OutPut true; OutGet (Some a)] =>
      go_tree a = TNode [] 0 7 [TNode [97%N] 0 7 [TNode [98%N] 3 3 []; TNode [99%N] 4 4 []]]
  | _ => False
  end.
Proof.
  split; [|split; [vm_compute; auto | split; vm_compute; reflexivity]].
  cbn [ex2_hist segs_rt_at_maint]. split; [|split; [|exact I]].
  - intros ks Hi. vm_compute in Hi. destruct Hi as [<-|[]]. vm_compute. reflexivity.
  - intros ks Hi. vm_compute in Hi. destruct Hi as [<-|[]]. vm_compute. reflexivity.
Qed.
