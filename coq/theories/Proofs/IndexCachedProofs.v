(* IndexCachedProofs.v — the index with its dimension objects behind a cache (Model/IndexCached.v) answers every
   selector lookup exactly like the plain index of Model/Index.v, with evictions / flush+reopen of the dimensions store
   inserted anywhere; with keys' bridge theorem (Proofs/C07StorageBridge.v) the lookups are the matching entries of
   Storage.v's series table — the justification of the "exact index" of the cached storage twins. *)
From Coq Require Import List Arith ZArith NArith Bool Lia.
From Pyro Require Import Model.Base Model.Key Model.Dimension Model.Labels Model.Index Model.DimCodec.
From Pyro Require Import Model.Lfu Model.Cache Model.StorageCached2 Model.IndexCached.
From Pyro Require Import Proofs.BcmpProofs Proofs.CacheProofs Proofs.CacheView Proofs.IndexProofs Proofs.DimCodecProofs.
Import ListNotations.

Notation bdec := StorageCached2.bytes_dec.
Notation dv := (gvget bdec dx_dflt dx_dec).
Notation dwf := (gcwf (K:=bytes) (V:=dim) (D:=bytes)).

Definition dagree (c : dxcache) (m : dims_t) : Prop := forall n, dv c n = dm_get n m.

Lemma bdec_beqb : forall {A} (a b : bytes) (x y : A), (if bdec a b then x else y) = if beqb a b then x else y.
Proof.
  intros A a b x y. destruct (bdec a b) as [->|N]; [rewrite beqb_refl; reflexivity|].
  destruct (beqb a b) eqn:E; [apply beqb_true in E; contradiction | reflexivity].
Qed.

Lemma upd1_spec : forall f c m kv, dwf c -> dagree c m ->
  dwf (cx_upd1 f c kv) /\
  dagree (cx_upd1 f c kv) (dm_set (dim_name (fst kv) (snd kv)) (f (dm_get (dim_name (fst kv) (snd kv)) m)) m).
Proof.
  intros f c m kv W A. unfold cx_upd1. set (n := dim_name (fst kv) (snd kv)).
  destruct (dx_read n c) as [c1 d] eqn:R.
  destruct (gread_spec bdec dx_dflt dx_enc dx_dec n c c1 d W R) as (_ & W1 & V1).
  pose proof (gread_present bdec dx_dflt dx_enc dx_dec n c c1 d R) as P1.
  destruct (gpoke_spec bdec dx_dflt dx_enc dx_dec n f c1 W1 P1) as [W2 V2].
  split; [exact W2|]. intros n'. unfold dx_poke. rewrite V2, dm_get_set, !V1, bdec_beqb, (A n), (A n'). reflexivity.
Qed.

Lemma upd_dims_sim : forall f K c m, dwf c -> dagree c m ->
  dwf (cx_upd_dims f K c) /\ dagree (cx_upd_dims f K c) (upd_dims f K m).
Proof.
  unfold cx_upd_dims, upd_dims. induction K as [|kv K IH]; intros c m W A; cbn [fold_left]; [auto|].
  destruct (upd1_spec f c m kv W A) as [W1 A1]. apply IH; assumption.
Qed.

Record RX (cx : cindex) (ist : Index.index) : Prop := mkRX {
  rx_labels : cx_labels cx = ix_labels ist;
  rx_segs : cx_segs cx = ix_segs ist;
  rx_wf : dwf (cx_dims cx);
  rx_dims : dagree (cx_dims cx) (ix_dims ist)
}.
Arguments rx_labels {cx ist}. Arguments rx_segs {cx ist}. Arguments rx_wf {cx ist}. Arguments rx_dims {cx ist}.

Lemma RX_init : RX cx_empty ix_empty.
Proof. constructor; cbn; auto. apply gcwf_empty. intros n. reflexivity. Qed.

Lemma put_x : forall K s c cx ist, RX cx ist -> RX (cx_put K s c cx) (ix_put K s c ist).
Proof.
  intros K s c cx ist R. unfold cx_put, ix_put.
  destruct (upd_dims_sim (d_insert (normalized K)) K _ _ (rx_wf R) (rx_dims R)) as [W A].
  constructor; cbn [cx_labels cx_segs cx_dims ix_labels ix_segs ix_dims]; auto.
  - rewrite (rx_labels R). reflexivity.
  - rewrite (rx_segs R). reflexivity.
Qed.

Lemma select_x : forall Q cx ist, RX cx ist ->
  RX (fst (cx_select Q cx)) ist /\ snd (cx_select Q cx) = ix_select Q ist.
Proof.
  intros Q cx ist R. unfold cx_select, ix_select.
  destruct (dx_reads (map (fun kv => dim_name (fst kv) (snd kv)) Q) (cx_dims cx)) as [c' ds] eqn:RS.
  destruct (greads_spec bdec dx_dflt dx_enc dx_dec _ _ _ _ (rx_wf R) RS) as (-> & W' & V'). cbn [fst snd]. split.
  - constructor; cbn [cx_labels cx_segs cx_dims]; try apply R; auto. intros n. rewrite V'. apply (rx_dims R).
  - rewrite map_map. f_equal. apply map_ext. intros kv. apply (rx_dims R).
Qed.

Lemma select_series_x : forall Q cx ist, RX cx ist ->
  RX (fst (cx_select_series Q cx)) ist /\ snd (cx_select_series Q cx) = ix_select_series Q ist.
Proof.
  intros Q cx ist R. unfold cx_select_series, ix_select_series.
  destruct (select_x Q cx ist R) as [R' E]. destruct (cx_select Q cx) as [st' r]. cbn [fst snd] in *. subst r.
  split; [exact R'|]. rewrite (rx_segs R). reflexivity.
Qed.

Lemma delete_series_x : forall K cx ist, RX cx ist -> RX (cx_delete_series K cx) (delete_series K ist).
Proof.
  intros K cx ist R. unfold cx_delete_series, delete_series.
  destruct (upd_dims_sim (d_delete (normalized K)) K _ _ (rx_wf R) (rx_dims R)) as [W A].
  constructor; cbn [cx_labels cx_segs cx_dims ix_labels ix_segs ix_dims]; auto.
  - apply (rx_labels R).
  - rewrite (rx_segs R). reflexivity.
Qed.

Lemma delete_x : forall Q cx ist, RX cx ist -> RX (cx_delete Q cx) (ix_delete Q ist).
Proof.
  intros Q cx ist R. unfold cx_delete, ix_delete.
  destruct (select_x Q cx ist R) as [R' E]. destruct (cx_select Q cx) as [st1 r]. cbn [fst snd] in *. subst r.
  destruct (ix_select Q ist) as [sks|]; [|exact R'].
  clear R. revert st1 ist R'. induction sks as [|sk sks IH]; intros st1 ist R'; cbn [fold_left]; [exact R'|].
  apply IH. apply delete_series_x. exact R'.
Qed.

Lemma step_x : forall o cx ist, RX cx ist -> RX (cx_step cx o) (ix_step ist o).
Proof.
  intros o cx ist R. destruct o; cbn [cx_step ix_step]; [apply put_x | apply delete_x | apply delete_series_x]; exact R.
Qed.

(* every dimension of the index round-trips through Bytes/FromBytes *)
Definition dims_rt (ist : Index.index) : Prop := forall n, dx_dec n (dx_enc n (dm_get n (ix_dims ist))) = dm_get n (ix_dims ist).

Lemma dims_rt_small : forall ist, (forall n, keys_small (dm_get n (ix_dims ist))) -> dims_rt ist.
Proof. intros ist H n. unfold dx_dec, dx_enc. rewrite dim_roundtrip by apply H. reflexivity. Qed.

Lemma maint_x : forall m cx ist, is_maint_cop m -> RX cx ist -> dims_rt ist -> RX (cx_maint m cx) ist.
Proof.
  intros m cx ist Hm R RT. destruct (gmaint_spec bdec dx_dflt dx_enc dx_dec m (cx_dims cx) Hm (rx_wf R)) as [W' [sel V']].
  constructor; cbn [cx_labels cx_segs cx_dims]; try apply R; auto.
  intros n. rewrite V', (rx_dims R n). destruct (sel n); [apply RT | reflexivity].
Qed.

(* the side condition: whenever the dimensions store is evicted or flushed, every dimension round-trips *)
Fixpoint dims_rt_at_maint (h : list xhop) (ist : Index.index) : Prop :=
  match h with
  | [] => True
  | XO o :: r => dims_rt_at_maint r (ix_step ist o)
  | XSel _ :: r => dims_rt_at_maint r ist
  | _ :: r => dims_rt ist /\ dims_rt_at_maint r ist
  end.

Theorem cx_run_sim : forall h cx ist, RX cx ist -> dims_rt_at_maint h ist ->
  snd (cx_run h cx) = snd (px_run h ist).
Proof.
  induction h as [|x h IH]; intros cx ist R OK; [reflexivity|]. destruct x as [o|Q|n d order|]; cbn [cx_run px_run dims_rt_at_maint] in *.
  - apply IH; [apply step_x; exact R | exact OK].
  - destruct (select_series_x Q cx ist R) as [R' E]. destruct (cx_select_series Q cx) as [st1 out]. cbn [fst snd] in *. subst out.
    specialize (IH _ _ R' OK). destruct (cx_run h st1) as [st2 outs]. destruct (px_run h ist) as [i2 outs']. cbn [snd] in *. congruence.
  - destruct OK as [RT OK]. apply IH; [apply maint_x; [exact I | exact R | exact RT] | exact OK].
  - destruct OK as [RT OK]. apply IH; [apply maint_x; [exact I | exact R | exact RT] | exact OK].
Qed.

Theorem cached_index_refines : forall h,
  dims_rt_at_maint h ix_empty -> snd (cx_run h cx_empty) = snd (px_run h ix_empty).
Proof. intros h OK. apply cx_run_sim; [apply RX_init | exact OK]. Qed.

(* ---------- with keys' bridge: the cached index answers with the matching entries of Storage.v's series table ---------- *)
From Pyro Require Import Model.Segment Model.Timeline Model.Storage Proofs.C07StorageBridge.

Definition xops (h : list xhop) : list iop := flat_map (fun x => match x with XO o => [o] | _ => [] end) h.

Fixpoint all_iops (rthr : option Z) (ops : list st_op) (st : st_state) : list iop :=
  match ops with
  | [] => []
  | o :: r => iops_of rthr st o ++ all_iops rthr r (fst (st_step rthr st o))
  end.

Lemma bridge_index : forall rthr ops st ist,
  snd (bridge_run rthr ops st ist) = fold_left ix_step (all_iops rthr ops st) ist.
Proof.
  induction ops as [|o ops IH]; intros st ist; cbn [bridge_run all_iops]; [reflexivity|].
  rewrite IH, fold_left_app. reflexivity.
Qed.

Lemma px_run_snoc : forall h Q ist,
  snd (px_run (h ++ [XSel Q]) ist) = snd (px_run h ist) ++ [ix_select_series Q (fold_left ix_step (xops h) ist)].
Proof.
  induction h as [|x h IH]; intros Q ist; [reflexivity|]. destruct x as [o|Q'|n d order|]; cbn [app px_run xops flat_map fold_left].
  - apply IH.
  - specialize (IH Q ist). destruct (px_run (h ++ [XSel Q]) ist) as [i2 outs]. destruct (px_run h ist) as [i3 outs'].
    cbn [snd] in *. rewrite IH. reflexivity.
  - apply IH.
  - apply IH.
Qed.

Theorem cached_index_is_table_filter : forall rthr ops Q h,
  Forall op_parsed ops -> key_ok Q ->
  xops h = all_iops rthr ops st_init ->
  dims_rt_at_maint (h ++ [XSel Q]) ix_empty ->
  last (snd (cx_run (h ++ [XSel Q]) cx_empty)) None =
  Some (map (fun ks => sid_key (fst ks))
            (filter (fun ks => sel_matches (sid_of Q) (fst ks)) (st_segs (fst (st_run rthr ops st_init))))).
Proof.
  intros rthr ops Q h Hops HQ HX OK.
  rewrite (cached_index_refines _ OK), px_run_snoc, last_last, HX, <- bridge_index.
  apply (index_lookup_is_filter rthr ops Q Hops HQ).
Qed.

(* ---------- non-vacuity: the dimensions store is flushed and evicted between index operations ---------- *)
Definition exx_K1 : labels := [(name_key, [97]%N); ([116]%N, [49]%N)].          (* a{t=1} *)
Definition exx_K2 : labels := [(name_key, [97]%N); ([116]%N, [50]%N)].          (* a{t=2} *)
Definition exx_hist : list xhop :=
  [ XO (IPut exx_K1 [] 0%N); XFlushReopen; XO (IPut exx_K2 [] 0%N);
    XEvict 1 1 [dim_name name_key [97]%N; dim_name [116]%N [50]%N];
    XSel [(name_key, [97]%N)]; XO (IDelete [([116]%N, [49]%N)]); XFlushReopen; XSel [(name_key, [97]%N)] ].

Example cached_index_refines_nonvacuous :
  dims_rt_at_maint exx_hist ix_empty /\
  (* the eviction is a possible one and empties the store: the first lookup reloads the dimension from its bytes *)
  c_lfu (cx_dims (fst (cx_run (firstn 4 exx_hist) cx_empty))) = [] /\
  snd (cx_run exx_hist cx_empty) = [Some [normalized exx_K1; normalized exx_K2]; Some [normalized exx_K2]].
Proof.
  split; [|split; vm_compute; reflexivity].
  assert (SM : forall ist, (forall n d, In (n, d) (ix_dims ist) -> keys_small d) -> dims_rt ist).
  { intros ist H. apply dims_rt_small. intros n. induction (ix_dims ist) as [|[n1 d1] m IH]; cbn [dm_get].
    - intros k [].
    - destruct (beqb n n1); [apply (H n1 d1); left; reflexivity | apply IH; intros n0 d0 Hi; apply (H n0 d0); right; exact Hi]. }
  cbn [exx_hist dims_rt_at_maint]. repeat split; apply SM; intros n d Hi; vm_compute in Hi;
    repeat (destruct Hi as [Hi|Hi]; [inversion Hi; subst; intros k Hk; vm_compute in Hk;
                                    repeat (destruct Hk as [<-|Hk]; [vm_compute; reflexivity|]); destruct Hk|]); destruct Hi.
Qed.
