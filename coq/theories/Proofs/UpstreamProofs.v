(* UpstreamProofs.v — lemmas about Model/Upstream.v (C20: uploads never block). *)
From Pyro Require Import Model.Base Model.Upstream.
From Coq Require Import Permutation Lia.

Local Open Scope nat_scope.

(* ---- set_nth / busy_jobs ----------------------------------------------------------------------- *)
Lemma set_nth_length : forall A (l : list A) n x, length (set_nth n x l) = length l.
Proof. induction l as [|y l IH]; intros [|n] x; cbn; auto. Qed.

Lemma nth_error_set_nth_same : forall A (l : list A) n x y,
  nth_error l n = Some y -> nth_error (set_nth n x l) n = Some x.
Proof.
  induction l as [|z l IH]; intros [|n] x y H; cbn in *; try discriminate; auto.
  eapply IH; eauto.
Qed.

Lemma nth_error_set_nth_other : forall A (l : list A) n m x,
  n <> m -> nth_error (set_nth n x l) m = nth_error l m.
Proof.
  induction l as [|z l IH]; intros [|n] [|m] x H; cbn; auto; try congruence.
Qed.

Lemma busy_set_busy : forall ws w j,
  nth_error ws w = Some WIdle ->
  Permutation (busy_jobs (set_nth w (WBusy j) ws)) (j :: busy_jobs ws).
Proof.
  induction ws as [|x ws IH]; intros [|w] j H; cbn in *; try discriminate.
  - inversion H; subst. cbn. apply Permutation_refl.
  - destruct x; cbn.
    + apply IH; auto.
    + eapply perm_trans. apply perm_skip. apply IH; auto. apply perm_swap.
    + apply IH; auto.
Qed.

Lemma busy_set_idle : forall ws w j,
  nth_error ws w = Some (WBusy j) ->
  Permutation (busy_jobs ws) (j :: busy_jobs (set_nth w WIdle ws)).
Proof.
  induction ws as [|x ws IH]; intros [|w] j H; cbn in *; try discriminate.
  - inversion H; subst. cbn. apply Permutation_refl.
  - destruct x; cbn.
    + apply IH; auto.
    + eapply perm_trans. apply perm_skip. apply IH; eauto. apply perm_swap.
    + apply IH; auto.
Qed.

Lemma busy_set_exited : forall ws w,
  nth_error ws w = Some WIdle -> busy_jobs (set_nth w WExited ws) = busy_jobs ws.
Proof.
  induction ws as [|x ws IH]; intros [|w] H; cbn in *; try discriminate.
  - inversion H; subst. reflexivity.
  - rewrite IH; auto.
Qed.

Lemma busy_repeat_idle : forall n, busy_jobs (repeat WIdle n) = [].
Proof. induction n; cbn; auto. Qed.

Lemma forall_alive_set : forall ws w x,
  forallb alive ws = true -> alive x = true -> forallb alive (set_nth w x ws) = true.
Proof.
  induction ws as [|y ws IH]; intros [|w] x H Hx; cbn in *; auto.
  - apply andb_true_iff in H as [_ H]. rewrite Hx, H. reflexivity.
  - apply andb_true_iff in H as [H1 H]. rewrite H1. cbn. apply IH; auto.
Qed.

Lemma forall_alive_repeat : forall n, forallb alive (repeat WIdle n) = true.
Proof. induction n; cbn; auto. Qed.

(* ---- Upload is one total, always enabled step that only touches queue / drop log ---------------- *)
Lemma upload_enabled : forall cfg s j ps, enabled cfg (EUpload j ps) s = true.
Proof. reflexivity. Qed.

(* the three possible results of Upload, decided by the state alone (and Go's random pick) *)
Lemma upload_cases : forall cfg s j ps,
  let s' := u_step cfg s (EUpload j ps) in
  (upload_branch_of cfg s ps = BSend /\ length (u_queue s) < c_cap cfg /\
     s' = with_queue s (u_queue s ++ [j])) \/
  (upload_branch_of cfg s ps = BDefault /\ c_cap cfg <= length (u_queue s) /\
     s' = with_drop s j) \/
  (upload_branch_of cfg s ps = BStop /\ c_mode cfg = MDirect /\ u_stopped s = true /\
     s' = with_lost s j).
Proof.
  intros cfg s j ps. cbn. unfold upload, upload_branch_of, queue_full, is_direct.
  destruct (Nat.leb (c_cap cfg) (length (u_queue s))) eqn:Hfull; cbn.
  - apply Nat.leb_le in Hfull.
    destruct (c_mode cfg) eqn:Hm; cbn.
    + right; left. auto.
    + destruct (u_stopped s) eqn:Hs; cbn.
      * right; right. auto.
      * right; left. auto.
  - apply Nat.leb_gt in Hfull.
    destruct (c_mode cfg) eqn:Hm; cbn.
    + left. auto.
    + destruct (u_stopped s) eqn:Hs; cbn.
      * destruct ps; cbn.
        -- right; right. auto.
        -- left. auto.
      * left. auto.
Qed.

Lemma upload_frame : forall cfg s j ps,
  let s' := u_step cfg s (EUpload j ps) in
  u_workers s' = u_workers s /\ u_stopped s' = u_stopped s /\ u_attempts s' = u_attempts s /\
  u_finished s' = u_finished s /\ u_errlog s' = u_errlog s.
Proof.
  intros cfg s j ps. cbn. unfold upload.
  destruct (upload_branch_of cfg s ps); cbn; auto.
Qed.

(* full queue => dropped and reported (one more log line, queue untouched); never waited for *)
Lemma full_queue_dropped : forall cfg s j ps,
  c_cap cfg <= length (u_queue s) ->
  (c_mode cfg = MRemote \/ u_stopped s = false) ->
  u_step cfg s (EUpload j ps) = with_drop s j.
Proof.
  intros cfg s j ps Hfull Hm. cbn. unfold upload, upload_branch_of, queue_full, is_direct.
  apply Nat.leb_le in Hfull. rewrite Hfull. cbn.
  destruct Hm as [Hm | Hm]; rewrite Hm; cbn; auto.
  destruct (c_mode cfg); cbn; auto.
Qed.

Lemma room_enqueued : forall cfg s j,
  length (u_queue s) < c_cap cfg ->
  u_step cfg s (EUpload j false) = with_queue s (u_queue s ++ [j]).
Proof.
  intros cfg s j Hroom. cbn. unfold upload, upload_branch_of, queue_full.
  apply Nat.leb_gt in Hroom. rewrite Hroom. cbn. rewrite andb_false_r. reflexivity.
Qed.

(* ---- the invariant of every reachable state ---------------------------------------------------- *)
Definition count_bad (l : list (nat * job * outcome)) : N :=
  fold_right (fun a n => if outcome_is_ok (snd a) then n else (n + 1)%N) 0%N l.

Record inv (cfg : ucfg) (evs : list uevent) (s : ustate) : Prop := {
  inv_bound : length (u_queue s) <= c_cap cfg;
  inv_nworkers : length (u_workers s) = c_workers cfg;
  inv_conserve : Permutation (uploaded evs)
                   (u_queue s ++ busy_jobs (u_workers s) ++ finished_jobs s ++ u_drops s ++ u_lost s);
  inv_attempts : Permutation (attempt_jobs s) (busy_jobs (u_workers s) ++ finished_jobs s);
  inv_attempt_shape : Forall (fun a => fst (fst a) < c_workers cfg /\ snd a = build_request cfg (snd (fst a)))
                        (u_attempts s);
  inv_finished_workers : Forall (fun a => fst (fst a) < c_workers cfg) (u_finished s);
  inv_nil_panics : Forall (fun a => j_trie (snd (fst a)) = None -> snd a = OPanic) (u_finished s);
  inv_remote_nolost : c_mode cfg = MRemote -> u_lost s = [];
  inv_alive : u_stopped s = false -> forallb alive (u_workers s) = true;
  inv_stopped : u_stopped s = has_stop evs;
  inv_errlog : u_errlog s = count_bad (u_finished s)
}.

Lemma inv_init : forall cfg, inv cfg [] (u_init cfg).
Proof.
  intro cfg. constructor; cbn; auto.
  - lia.
  - apply repeat_length.
  - rewrite busy_repeat_idle. cbn. apply Permutation_refl.
  - rewrite busy_repeat_idle. cbn. apply Permutation_refl.
  - intros _. apply forall_alive_repeat.
Qed.

Lemma uploaded_app : forall a b, uploaded (a ++ b) = uploaded a ++ uploaded b.
Proof. intros. unfold uploaded. apply flat_map_app. Qed.

Lemma has_stop_app : forall a b, has_stop (a ++ b) = has_stop a || has_stop b.
Proof. intros. unfold has_stop. apply existsb_app. Qed.

Lemma nth_error_lt : forall A (l : list A) n x, nth_error l n = Some x -> n < length l.
Proof. intros. apply nth_error_Some. congruence. Qed.

Ltac prep :=
  rewrite ?uploaded_app, ?has_stop_app;
  change (uploaded [EStop]) with (@nil job);
  change (has_stop [EStop]) with true;
  repeat match goal with
  | |- context [uploaded [EUpload ?j ?ps]] => change (uploaded [EUpload j ps]) with [j]
  | |- context [has_stop [EUpload ?j ?ps]] => change (has_stop [EUpload j ps]) with false
  | |- context [uploaded [ETake ?w]] => change (uploaded [ETake w]) with (@nil job)
  | |- context [has_stop [ETake ?w]] => change (has_stop [ETake w]) with false
  | |- context [uploaded [EFinish ?w ?o]] => change (uploaded [EFinish w o]) with (@nil job)
  | |- context [has_stop [EFinish ?w ?o]] => change (has_stop [EFinish w o]) with false
  | |- context [uploaded [EExit ?w]] => change (uploaded [EExit w]) with (@nil job)
  | |- context [has_stop [EExit ?w]] => change (has_stop [EExit w]) with false
  end;
  rewrite ?app_nil_r, ?orb_false_r, ?orb_true_r;
  unfold finished_jobs, attempt_jobs in *;
  cbn [u_queue u_workers u_stopped u_drops u_lost u_attempts u_finished u_errlog
       with_queue with_drop with_lost map fst snd].

Lemma inv_unchanged : forall cfg evs s e,
  uploaded [e] = [] -> has_stop [e] = false -> inv cfg evs s -> inv cfg (evs ++ [e]) s.
Proof.
  intros cfg evs s e HU HS I. destruct I.
  constructor; rewrite ?uploaded_app, ?has_stop_app, ?HU, ?HS, ?app_nil_r, ?orb_false_r; auto.
Qed.

(* a small solver for permutation goals between right-nested appends of the same atoms *)
Ltac perm_rot :=
  match goal with
  | |- Permutation _ (_ :: _) => eapply perm_trans; [ | apply Permutation_sym; apply Permutation_cons_append ]
  | |- Permutation _ (_ ++ _) => eapply perm_trans; [ | apply Permutation_app_comm ]
  end; rewrite <- ?app_assoc; cbn [app].
Ltac perm_go n :=
  first [ apply Permutation_refl
        | match goal with
          | |- Permutation (?x :: _) (?x :: _) => apply perm_skip; perm_go n
          | |- Permutation (?a ++ _) (?a ++ _) => apply Permutation_app_head; perm_go n
          | _ => match n with S ?m => perm_rot; perm_go m end
          end ].
Ltac perm := rewrite <- ?app_assoc; cbn [app]; perm_go 40.

Lemma inv_step : forall cfg evs s e, inv cfg evs s -> inv cfg (evs ++ [e]) (u_step cfg s e).
Proof.
  intros cfg evs s e I.
  destruct e as [j ps | w | w o | w | ].
  - (* Upload *)
    destruct I.
    pose proof (upload_cases cfg s j ps) as C. cbn zeta in C.
    destruct C as [[_ [Hlt E]] | [[_ [Hge E]] | [_ [Hm [Hs E]]]]]; rewrite E; clear E;
      constructor; prep; auto.
    + rewrite app_length. cbn. lia.
    + rewrite inv_conserve0. perm.
    + rewrite inv_conserve0. perm.
    + rewrite inv_conserve0. perm.
    + intro Hr. congruence.
  - (* Take *)
    cbn. destruct (nth_error (u_workers s) w) as [[| |]|] eqn:Hw;
      try (apply inv_unchanged; auto; fail).
    destruct (u_queue s) as [|j q] eqn:Hq; try (apply inv_unchanged; auto; fail).
    destruct I. rewrite Hq in *.
    pose proof (busy_set_busy _ _ j Hw) as PB.
    constructor; prep; auto.
    + cbn in inv_bound0. lia.
    + rewrite set_nth_length. auto.
    + rewrite PB, inv_conserve0. perm.
    + rewrite PB, inv_attempts0. perm.
    + constructor; auto. cbn. split; auto.
      apply nth_error_lt in Hw. lia.
    + intro Hs. apply forall_alive_set; auto.
  - (* Finish *)
    cbn. destruct (nth_error (u_workers s) w) as [[|j|]|] eqn:Hw;
      try (apply inv_unchanged; auto; fail).
    destruct I.
    pose proof (busy_set_idle _ _ j Hw) as PB.
    constructor; prep; auto.
    + rewrite set_nth_length. auto.
    + rewrite inv_conserve0, PB. perm.
    + rewrite inv_attempts0, PB. perm.
    + constructor; auto. cbn. apply nth_error_lt in Hw. lia.
    + constructor; auto. cbn. intro Hn. rewrite Hn. reflexivity.
    + intro Hs. apply forall_alive_set; auto.
    + rewrite inv_errlog0. cbn. destruct (outcome_is_ok _); reflexivity.
  - (* Exit *)
    cbn. destruct (nth_error (u_workers s) w) as [[| |]|] eqn:Hw;
      try (apply inv_unchanged; auto; fail).
    destruct (u_stopped s) eqn:Hs; try (apply inv_unchanged; auto; fail).
    destruct I.
    constructor; prep; auto.
    + rewrite set_nth_length. auto.
    + rewrite busy_set_exited; auto.
    + rewrite busy_set_exited; auto.
    + intro. discriminate.
    + rewrite <- inv_stopped0. auto.
  - (* Stop *)
    destruct I.
    constructor; prep; auto. intro. discriminate.
Qed.

Lemma u_run_app : forall cfg a b s, u_run cfg (a ++ b) s = u_run cfg b (u_run cfg a s).
Proof. intros. unfold u_run. apply fold_left_app. Qed.

Lemma inv_run_from : forall cfg evs0 s evs,
  inv cfg evs0 s -> inv cfg (evs0 ++ evs) (u_run cfg evs s).
Proof.
  intros cfg evs0 s evs. revert evs0 s.
  induction evs as [|e evs IH]; intros evs0 s I.
  - rewrite app_nil_r. exact I.
  - cbn. replace (evs0 ++ e :: evs) with ((evs0 ++ [e]) ++ evs) by (rewrite <- app_assoc; reflexivity).
    apply IH. apply inv_step. exact I.
Qed.

Lemma inv_reachable : forall cfg evs, inv cfg evs (u_run cfg evs (u_init cfg)).
Proof. intros. apply (inv_run_from cfg [] (u_init cfg) evs). apply inv_init. Qed.

(* ---- headline consequences ---------------------------------------------------------------------- *)
Definition job_ids (l : list job) : list N := map j_id l.

(* Upload never blocks: in every reachable state Upload is enabled, it is one step, and afterwards the job
   sits in exactly one of: queue tail, drop log, (Direct after Stop) silently returned; nothing else moved *)
Theorem upload_never_blocks : forall cfg evs j ps,
  let s := u_run cfg evs (u_init cfg) in
  let s' := u_step cfg s (EUpload j ps) in
  enabled cfg (EUpload j ps) s = true /\
  (s' = with_queue s (u_queue s ++ [j]) \/ s' = with_drop s j \/
   (c_mode cfg = MDirect /\ u_stopped s = true /\ s' = with_lost s j)) /\
  u_workers s' = u_workers s /\ u_attempts s' = u_attempts s /\ u_finished s' = u_finished s /\
  u_stopped s' = u_stopped s /\ u_errlog s' = u_errlog s /\
  length (u_queue s') <= c_cap cfg.
Proof.
  intros cfg evs j ps s s'.
  pose proof (upload_frame cfg s j ps) as F. cbn zeta in F.
  destruct F as [F1 [F2 [F3 [F4 F5]]]].
  pose proof (inv_step cfg evs s (EUpload j ps) (inv_reachable cfg evs)) as I.
  pose proof (upload_cases cfg s j ps) as C. cbn zeta in C.
  split; [reflexivity|]. split.
  - destruct C as [[_ [_ E]] | [[_ [_ E]] | [_ [Hm [Hs E]]]]]; auto.
  - repeat split; auto. apply (inv_bound _ _ _ I).
Qed.

(* a full queue means: dropped, reported, not waited for, queue unchanged *)
Theorem full_queue_drops_and_reports : forall cfg evs j ps,
  let s := u_run cfg evs (u_init cfg) in
  length (u_queue s) = c_cap cfg ->
  (c_mode cfg = MRemote \/ u_stopped s = false) ->
  let s' := u_step cfg s (EUpload j ps) in
  u_queue s' = u_queue s /\ u_drops s' = j :: u_drops s /\ u_lost s' = u_lost s.
Proof.
  intros cfg evs j ps s Hfull Hm s'.
  unfold s'. rewrite full_queue_dropped; auto. lia.
Qed.

(* accounting: every uploaded job is in exactly one place *)
Theorem jobs_conserved : forall cfg evs,
  let s := u_run cfg evs (u_init cfg) in
  Permutation (uploaded evs)
    (u_queue s ++ busy_jobs (u_workers s) ++ finished_jobs s ++ u_drops s ++ u_lost s).
Proof. intros. apply (inv_conserve _ _ _ (inv_reachable cfg evs)). Qed.

Theorem remote_accepted_plus_dropped : forall cfg evs,
  c_mode cfg = MRemote ->
  let s := u_run cfg evs (u_init cfg) in
  length (uploaded evs) =
  length (u_queue s) + length (busy_jobs (u_workers s)) + length (finished_jobs s) + length (u_drops s).
Proof.
  intros cfg evs Hm s.
  pose proof (inv_reachable cfg evs) as I. fold s in I.
  pose proof (Permutation_length (inv_conserve _ _ _ I)) as L.
  rewrite (inv_remote_nolost _ _ _ I Hm) in L.
  rewrite !app_length in L. cbn in L. lia.
Qed.

Lemma perm_nodup_map : forall (l l' : list job), Permutation l l' -> NoDup (job_ids l) -> NoDup (job_ids l').
Proof.
  intros l l' P H. eapply Permutation_NoDup; [|exact H]. unfold job_ids. apply Permutation_map. exact P.
Qed.

Lemma nodup_app_l : forall A (a b : list A), NoDup (a ++ b) -> NoDup a.
Proof.
  induction a as [|x a IH]; intros b H; [constructor|].
  cbn in H. inversion H; subst. constructor.
  - intro Hin. apply H2. apply in_or_app. auto.
  - eapply IH; eauto.
Qed.
Lemma nodup_app_r : forall A (a b : list A), NoDup (a ++ b) -> NoDup b.
Proof.
  induction a as [|x a IH]; intros b H; [exact H|].
  cbn in H. inversion H; subst. auto.
Qed.

Lemma nodup_app_disjoint : forall A (a b : list A), NoDup (a ++ b) -> forall x, In x a -> ~ In x b.
Proof.
  induction a as [|y a IH]; intros b H x Hx Hb; [inversion Hx|].
  cbn in H. inversion H; subst. destruct Hx as [-> | Hx].
  - apply H2. apply in_or_app. auto.
  - eapply IH; eauto.
Qed.

(* every accepted job is attempted at most once, only by one of the k workers, never after being dropped *)
Theorem attempted_at_most_once : forall cfg evs,
  NoDup (job_ids (uploaded evs)) ->
  let s := u_run cfg evs (u_init cfg) in
  NoDup (job_ids (attempt_jobs s)) /\
  (forall j, In j (attempt_jobs s) -> In j (uploaded evs)) /\
  (forall j, In j (attempt_jobs s) -> ~ In (j_id j) (job_ids (u_drops s)) /\ ~ In (j_id j) (job_ids (u_queue s))) /\
  Forall (fun a => fst (fst a) < c_workers cfg) (u_attempts s).
Proof.
  intros cfg evs ND s.
  pose proof (inv_reachable cfg evs) as I. fold s in I.
  pose proof (inv_conserve _ _ _ I) as PC.
  pose proof (inv_attempts _ _ _ I) as PA.
  pose proof (perm_nodup_map _ _ PC ND) as ND2.
  (* regroup: queue ++ (busy ++ finished) ++ drops ++ lost *)
  assert (PA' : Permutation (u_queue s ++ busy_jobs (u_workers s) ++ finished_jobs s ++ u_drops s ++ u_lost s)
                            (attempt_jobs s ++ u_queue s ++ u_drops s ++ u_lost s)).
  { rewrite PA. perm. }
  pose proof (perm_nodup_map _ _ PA' ND2) as ND3.
  unfold job_ids in ND3. rewrite !map_app in ND3.
  split; [|split; [|split]].
  - eapply nodup_app_l. exact ND3.
  - intros j Hj. eapply Permutation_in. apply Permutation_sym. eapply perm_trans. apply PC. apply PA'.
    apply in_or_app. auto.
  - intros j Hj.
    assert (Hid : In (j_id j) (map j_id (attempt_jobs s))) by (apply in_map; auto).
    split; intro Hbad.
    + eapply nodup_app_disjoint; [exact ND3 | exact Hid |].
      apply in_or_app. right. apply in_or_app. left. exact Hbad.
    + eapply nodup_app_disjoint; [exact ND3 | exact Hid |].
      apply in_or_app. left. exact Hbad.
  - apply Forall_impl with (2 := inv_attempt_shape _ _ _ I). intros a [H _]. exact H.
Qed.

(* ---- a panic inside one attempt does not stop later uploads ------------------------------------- *)
(* one step: a busy worker whose attempt panics is idle again (not exited), the panic is logged, and if the
   queue holds a job the same worker may take it *)
Theorem panic_keeps_worker : forall cfg evs w j,
  let s := u_run cfg evs (u_init cfg) in
  nth_error (u_workers s) w = Some (WBusy j) ->
  let s' := u_step cfg s (EFinish w OPanic) in
  nth_error (u_workers s') w = Some WIdle /\
  u_errlog s' = (u_errlog s + 1)%N /\
  u_queue s' = u_queue s /\
  (u_queue s <> [] -> enabled cfg (ETake w) s' = true).
Proof.
  intros cfg evs w j s Hw s'. clearbody s. unfold s', u_step, enabled. rewrite Hw.
  cbn [u_workers u_queue u_errlog].
  rewrite (nth_error_set_nth_same _ _ _ _ _ Hw).
  repeat split.
  - destruct (j_trie j); reflexivity.
  - intro Hq. destruct (u_queue s); [congruence | reflexivity].
Qed.

(* whatever the outcomes (any number of panics), no worker ever leaves its loop before Stop *)
Theorem workers_survive_without_stop : forall cfg evs,
  has_stop evs = false ->
  let s := u_run cfg evs (u_init cfg) in
  length (u_workers s) = c_workers cfg /\ forallb alive (u_workers s) = true.
Proof.
  intros cfg evs Hs s.
  pose proof (inv_reachable cfg evs) as I. fold s in I.
  split. apply (inv_nworkers _ _ _ I).
  apply (inv_alive _ _ _ I). rewrite (inv_stopped _ _ _ I). exact Hs.
Qed.

(* progress: from every reachable, not stopped state with at least one worker, worker 0 can end what it holds
   and then attempt every queued job in order — whatever the outcomes; the schedule below lets EVERY attempt
   panic, the worst case for "a panic does not stop later uploads" *)
Fixpoint drain_sched (n : nat) : list uevent :=
  match n with O => [] | S n' => ETake 0 :: EFinish 0 OPanic :: drain_sched n' end.

Lemma drain_sched_empties : forall cfg n s,
  nth_error (u_workers s) 0 = Some WIdle -> length (u_queue s) = n ->
  let s' := u_run cfg (drain_sched n) s in
  u_queue s' = [] /\ nth_error (u_workers s') 0 = Some WIdle /\
  finished_jobs s' = rev (u_queue s) ++ finished_jobs s.
Proof.
  intros cfg n. induction n as [|n IH]; intros s H0 Hq; cbn zeta.
  - cbn. destruct (u_queue s); [auto | discriminate].
  - cbn [drain_sched u_run fold_left].
    destruct (u_queue s) as [|j q] eqn:Eq; [discriminate|].
    set (s1 := u_step cfg s (ETake 0)).
    assert (H1 : nth_error (u_workers s1) 0 = Some (WBusy j) /\ u_queue s1 = q /\ u_finished s1 = u_finished s).
    { unfold s1, u_step. rewrite H0, Eq. cbn [u_workers u_queue u_finished]. rewrite (nth_error_set_nth_same _ _ _ _ _ H0). auto. }
    destruct H1 as [H1 [Q1 F1]].
    set (s2 := u_step cfg s1 (EFinish 0 OPanic)).
    assert (H2 : nth_error (u_workers s2) 0 = Some WIdle /\ u_queue s2 = q /\
                 finished_jobs s2 = j :: finished_jobs s).
    { unfold s2, finished_jobs, u_step. rewrite H1. cbn [u_workers u_queue u_finished map fst snd].
      rewrite (nth_error_set_nth_same _ _ _ _ _ H1). rewrite Q1, F1. auto. }
    destruct H2 as [H2 [Q2 F2]].
    specialize (IH s2 H2). cbn zeta in IH. fold (u_run cfg (drain_sched n) s2) in IH.
    destruct IH as [A [B C]].
    { rewrite Q2. cbn in Hq. lia. }
    fold (u_run cfg (drain_sched n) s2).
    repeat split; auto. rewrite C, F2, Q2. cbn. rewrite <- app_assoc. reflexivity.
Qed.

Theorem queue_can_always_drain : forall cfg evs,
  has_stop evs = false -> 0 < c_workers cfg ->
  let s := u_run cfg evs (u_init cfg) in
  exists sched, let s' := u_run cfg sched s in
    u_queue s' = [] /\ (forall j, In j (u_queue s) -> In j (finished_jobs s')).
Proof.
  intros cfg evs Hs Hk s.
  pose proof (workers_survive_without_stop cfg evs Hs) as [Lw Aw]. fold s in Lw, Aw.
  set (s1 := u_step cfg s (EFinish 0 OPanic)).
  assert (H0 : nth_error (u_workers s1) 0 = Some WIdle /\ u_queue s1 = u_queue s).
  { unfold s1, u_step. destruct (nth_error (u_workers s) 0) as [[|j|]|] eqn:E; cbn [u_workers u_queue]; auto.
    - rewrite (nth_error_set_nth_same _ _ _ _ _ E). auto.
    - exfalso. assert (Hin : In WExited (u_workers s)) by (eapply nth_error_In; eauto).
      rewrite forallb_forall in Aw. apply Aw in Hin. discriminate.
    - exfalso. apply nth_error_None in E. lia. }
  destruct H0 as [H0 Q1].
  exists (EFinish 0 OPanic :: drain_sched (length (u_queue s1))). cbn zeta.
  cbn [u_run fold_left]. fold s1. fold (u_run cfg (drain_sched (length (u_queue s1))) s1).
  pose proof (drain_sched_empties cfg (length (u_queue s1)) s1 H0 eq_refl) as D. cbn zeta in D.
  destruct D as [D1 [_ D3]]. split; auto.
  intros j Hj. rewrite D3. apply in_or_app. left. rewrite <- in_rev. rewrite Q1. exact Hj.
Qed.

(* ---- the request: bearer token attached iff configured ------------------------------------------ *)
Theorem auth_iff_token : forall cfg j r,
  build_request cfg j = Some r ->
  (rq_auth r = None <-> c_token cfg = []) /\
  (c_token cfg <> [] -> rq_auth r = Some (ascii_bearer ++ c_token cfg)) /\
  rq_name r = j_name j /\ rq_from r = j_from j /\ rq_until r = j_until j /\ rq_spy r = j_spy j /\
  rq_rate r = j_rate j /\ rq_units r = j_units j /\ rq_agg r = j_agg j /\ rq_ctype r = ascii_ctype.
Proof.
  intros cfg j r H. unfold build_request in H. destruct (j_trie j); [|discriminate].
  inversion H; subst; clear H. cbn. unfold auth_header.
  destruct (c_token cfg) as [|tb tt]; cbn; repeat split; auto; try congruence; try discriminate.
Qed.

(* every attempt of every reachable state carries exactly that request, and is made by a worker *)
Theorem attempts_carry_built_request : forall cfg evs,
  let s := u_run cfg evs (u_init cfg) in
  Forall (fun a => fst (fst a) < c_workers cfg /\ snd a = build_request cfg (snd (fst a))) (u_attempts s).
Proof. intros. apply (inv_attempt_shape _ _ _ (inv_reachable cfg evs)). Qed.

(* errors are reported: one error line per attempt that did not end with 200 *)
Theorem failures_are_logged : forall cfg evs,
  let s := u_run cfg evs (u_init cfg) in u_errlog s = count_bad (u_finished s).
Proof. intros. apply (inv_errlog _ _ _ (inv_reachable cfg evs)). Qed.

(* ---- non-vacuity ---------------------------------------------------------------------------------- *)
Local Open Scope N_scope.
Definition ex_job (i : N) (nil_trie : bool) : job :=
  {| j_id := i; j_name := [97]; j_from := 10%Z; j_until := 20%Z; j_spy := [103]; j_rate := 100%N;
     j_units := [115]; j_agg := [115]; j_trie := if nil_trie then None else Some [0;0;0] |}.

Definition ex_cfg := {| c_mode := MRemote; c_cap := 2%nat; c_workers := 2%nat; c_token := [116]; c_path := [] |}.

(* two workers, capacity 2: five uploads while both workers hang on jobs 1 and 2 => job 5 dropped;
   job 1 is a nil trie and panics; worker 0 then takes job 3 *)
Definition ex_evs : list uevent :=
  [EUpload (ex_job 1 true) false; EUpload (ex_job 2 false) false; ETake 0%nat; ETake 1%nat;
   EUpload (ex_job 3 false) false; EUpload (ex_job 4 false) false; EUpload (ex_job 5 false) false;
   EFinish 0%nat OOk; ETake 0%nat].

Example ex_upstream_nonvacuous :
  let s := u_run ex_cfg ex_evs (u_init ex_cfg) in
  NoDup (job_ids (uploaded ex_evs)) /\ has_stop ex_evs = false /\
  job_ids (u_drops s) = [5%N] /\ job_ids (u_queue s) = [4%N] /\
  map (fun a => (fst (fst a), j_id (snd (fst a)), snd a)) (u_finished s) = [(0%nat, 1%N, OPanic)] /\
  nth_error (u_workers s) 0%nat = Some (WBusy (ex_job 3 false)) /\
  u_errlog s = 1%N.
Proof.
  cbn. repeat split; auto.
  repeat constructor; cbn; intuition discriminate.
Qed.
