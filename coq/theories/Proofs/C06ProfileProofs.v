(* C06ProfileProofs.v — the profile tree built from a list of (stack, count) depends only on the counts per stack:
   two lists with positive counts and the same total per stack build the same tree; the three modelled wire
   formats (collapsed text, one stack per line, transport trie) store the multiset itself (used by C06). *)
From Pyro Require Import Model.Base Model.Tree Model.Varint Model.TTrie Model.TextFormats Model.Ingest.
From Pyro Require Import Proofs.TreeProofs.
From Pyro Require Proofs.TTrieProofs.
From Coq Require Import ZifyN ZifyNat ZifyBool Permutation.

Local Open Scope N_scope.

Definition path := list bytes.
Definition path_dec : forall a b : path, {a = b} + {a <> b} := list_eq_dec (list_eq_dec N.eq_dec).
Definition key_dec : forall a b : bytes, {a = b} + {a <> b} := list_eq_dec N.eq_dec.

Fixpoint prefixb (p q : path) : bool :=
  match p, q with
  | [], _ => true
  | _ :: _, [] => false
  | x :: p', y :: q' => beqb x y && prefixb p' q'
  end.

Definition hit (p q : path) (v : N) : N := if path_dec p q then v else 0.

(* effect of one insertion on the (self, total) found at path p *)
Definition bump (p q : path) (v : N) (o : option (N * N)) : option (N * N) :=
  if prefixb p q
  then Some (match o with
             | Some (s, t) => (s + hit p q v, t + v)
             | None => (hit p q v, v)
             end)
  else o.

Lemma hit_cons l p q v : hit (l :: p) (l :: q) v = hit p q v.
Proof. unfold hit. destruct (path_dec p q), (path_dec (l :: p) (l :: q)); congruence. Qed.

Lemma t_at_cons l p t : t_at (l :: p) t = match t_find l (t_ch t) with None => None | Some c => t_at p c end.
Proof. reflexivity. Qed.

Lemma find_or_new_wfb m ch : Forall (fun c => t_wfb c = true) ch -> t_wfb (find_or_new m ch) = true.
Proof.
  intros H. unfold find_or_new. destruct (t_find m ch) eqn:E; [eapply t_find_wfb; eauto|apply t_new_wfb].
Qed.

Lemma t_at_find_or_new l p ch :
  t_at p (find_or_new l ch) =
  match t_find l ch with Some c => t_at p c | None => match p with [] => Some (0, 0) | _ => None end end.
Proof. unfold find_or_new. destruct (t_find l ch); [reflexivity|apply t_at_new]. Qed.

Lemma t_at_insert_path : forall p q v t, t_wfb t = true ->
  t_at p (t_insert_path q v t) = bump p q v (t_at p t).
Proof.
  induction p as [|l p IH]; intros q v [n s tot ch] Hwf.
  - unfold bump. cbn [prefixb]. rewrite !t_at_nil. destruct q as [|m q]; cbn [t_insert_path t_self t_total].
    + unfold hit. destruct (path_dec [] []); [reflexivity|congruence].
    + unfold hit. destruct (path_dec [] (m :: q)); [discriminate|]. f_equal. f_equal. lia.
  - destruct q as [|m q].
    + cbn [t_insert_path]. unfold bump. cbn [prefixb]. reflexivity.
    + cbn [t_insert_path]. rewrite !t_at_cons. cbn [t_ch].
      apply t_wfb_iff in Hwf. cbn [t_ch] in Hwf. destruct Hwf as [Hs Hall].
      rewrite t_find_upd; [|intros c; apply t_insert_path_name|exact Hs].
      unfold bump. cbn [prefixb]. rewrite (TreeProofs.beqb_sym l m).
      destruct (beqb m l) eqn:E.
      * apply beqb_true in E. subst m. cbn [andb]. rewrite hit_cons.
        rewrite IH by (apply find_or_new_wfb; exact Hall).
        rewrite t_at_find_or_new. unfold bump.
        destruct (t_find l ch) as [c|]; [reflexivity|].
        destruct p as [|l' p']; [|reflexivity].
        cbn [prefixb]. reflexivity.
      * reflexivity.
Qed.

Definition bump_all (p : path) (ms : list (bytes * N)) (o : option (N * N)) : option (N * N) :=
  fold_left (fun o kv => bump p (bsplit 59 (fst kv)) (snd kv) o) ms o.

Lemma t_at_fold_insert p ms : forall t, t_wfb t = true ->
  t_at p (fold_left (fun t kv => t_insert (fst kv) (snd kv) t) ms t) = bump_all p ms (t_at p t).
Proof.
  induction ms as [|[k v] ms IH]; intros t Hwf; [reflexivity|].
  cbn [fold_left bump_all fst snd]. rewrite IH by (apply t_insert_wfb, Hwf).
  unfold t_insert. rewrite t_at_insert_path by exact Hwf. reflexivity.
Qed.

(* sums of the counts of the keys selected by a predicate *)
Definition psum (P : bytes -> bool) (ms : list (bytes * N)) : N :=
  sumN (map snd (filter (fun kv => P (fst kv)) ms)).

Lemma psum_cons P kv ms : psum P (kv :: ms) = (if P (fst kv) then snd kv else 0) + psum P ms.
Proof. unfold psum. cbn [filter]. destruct (P (fst kv)); reflexivity. Qed.

Definition sel_eq (p : path) (k : bytes) : bool := if path_dec p (bsplit 59 k) then true else false.
Definition sel_pre (p : path) (k : bytes) : bool := prefixb p (bsplit 59 k).

Lemma bump_all_closed p ms : forall o,
  bump_all p ms o =
  match o with
  | Some (s, t) => Some (s + psum (sel_eq p) ms, t + psum (sel_pre p) ms)
  | None => if existsb (fun kv => sel_pre p (fst kv)) ms
            then Some (psum (sel_eq p) ms, psum (sel_pre p) ms) else None
  end.
Proof.
  induction ms as [|[k v] ms IH]; intros o.
  - destruct o as [[s t]|]; cbn; [|reflexivity]. unfold psum. cbn. f_equal. f_equal; lia.
  - change (bump_all p ((k, v) :: ms) o) with (bump_all p ms (bump p (bsplit 59 k) v o)).
    rewrite IH. rewrite !psum_cons. cbn [existsb fst snd].
    unfold bump, sel_pre, sel_eq, hit.
    destruct (prefixb p (bsplit 59 k)) eqn:Epre.
    + destruct (path_dec p (bsplit 59 k)); destruct o as [[s t]|]; cbn [orb]; f_equal; f_equal; lia.
    + destruct (path_dec p (bsplit 59 k)) as [Heq|]; [|destruct o as [[s t]|]; cbn [orb]; [f_equal; f_equal; lia|reflexivity]].
      exfalso. rewrite <- Heq in Epre. clear -Epre. induction p; cbn in Epre; [discriminate|].
      rewrite beqb_refl in Epre. auto.
Qed.

Lemma existsb_psum P ms : Forall (fun kv => 0 < snd kv) ms ->
  existsb (fun kv => P (fst kv)) ms = (0 <? psum P ms).
Proof.
  induction 1 as [|kv ms Hpos _ IH]; [reflexivity|]. cbn [existsb]. rewrite psum_cons, IH.
  destruct (P (fst kv)); cbn [orb]; lia.
Qed.

(* psum over a duplicate-free universe of keys *)
Lemma sum_single (U : list bytes) k (g : bytes -> N) : NoDup U -> In k U ->
  sumN (map (fun u => if beqb k u then g u else 0) U) = g k.
Proof.
  induction 1 as [|u U Hnin Hnd IH]; intros Hin; [destruct Hin|]. cbn [map]. unfold sumN in *. cbn [fold_right].
  destruct Hin as [->|Hin].
  - rewrite beqb_refl. replace (fold_right N.add 0 _) with 0; [lia|].
    clear IH. induction U as [|x U IHU]; [reflexivity|]. cbn.
    destruct (beqb k x) eqn:E; [apply beqb_true in E; subst; exfalso; apply Hnin; now left|].
    rewrite <- IHU; [reflexivity|intros H; apply Hnin; now right|now inversion Hnd].
  - destruct (beqb k u) eqn:E; [apply beqb_true in E; subst; contradiction|]. rewrite IH by exact Hin. lia.
Qed.

Lemma sumN_map_add {A} (f g : A -> N) l : sumN (map (fun x => f x + g x) l) = sumN (map f l) + sumN (map g l).
Proof. induction l as [|x l IH]; [reflexivity|]. cbn. unfold sumN in *. rewrite IH. lia. Qed.

Lemma psum_universe P ms (U : list bytes) : NoDup U -> (forall kv, In kv ms -> In (fst kv) U) ->
  psum P ms = sumN (map (fun u => if P u then TTrieProofs.ms_count ms u else 0) U).
Proof.
  intros Hnd. induction ms as [|[k v] ms IH]; intros Hin.
  - unfold psum. cbn. induction U; [reflexivity|]. cbn. destruct (P a); cbn; apply IHU; now inversion Hnd.
  - rewrite psum_cons, IH by (intros kv H; apply Hin; now right). cbn [fst snd].
    rewrite <- (sum_single U k (fun u => if P u then v else 0) Hnd) by (apply (Hin (k, v)); now left).
    rewrite <- sumN_map_add. f_equal. apply map_ext. intros u.
    rewrite TTrieProofs.ms_count_cons. cbn [fst snd]. destruct (beqb k u), (P u); lia.
Qed.

Definition ms_equiv (a b : list (bytes * N)) : Prop :=
  forall k, TTrieProofs.ms_count a k = TTrieProofs.ms_count b k.

Lemma psum_equiv P a b : ms_equiv a b -> psum P a = psum P b.
Proof.
  intros H. set (U := nodup key_dec (map fst a ++ map fst b)).
  assert (Hnd : NoDup U) by apply NoDup_nodup.
  rewrite (psum_universe P a U Hnd), (psum_universe P b U Hnd).
  - f_equal. apply map_ext. intros u. now rewrite H.
  - intros kv Hin. apply nodup_In, in_or_app. right. now apply in_map.
  - intros kv Hin. apply nodup_In, in_or_app. left. now apply in_map.
Qed.

(* the profile tree is a function of the positive counts per stack *)
Theorem profile_of_equiv a b :
  Forall (fun kv => 0 < snd kv) a -> Forall (fun kv => 0 < snd kv) b -> ms_equiv a b ->
  profile_of a = profile_of b.
Proof.
  intros Ha Hb Heq. unfold profile_of.
  destruct (t_build_ok a) as (Wa & _ & Na). destruct (t_build_ok b) as (Wb & _ & Nb). cbn zeta in *.
  apply t_ext; [exact Wa|exact Wb|congruence|]. intros p.
  rewrite !t_at_fold_insert by reflexivity. rewrite !bump_all_closed.
  rewrite (existsb_psum _ a Ha), (existsb_psum _ b Hb).
  rewrite (psum_equiv (sel_eq p) a b Heq), (psum_equiv (sel_pre p) a b Heq). reflexivity.
Qed.

(* ---------------------------------------------------------------------------------------------- *)
(* the agent's binary trie stores the profile itself *)
Theorem trie_path_agrees ms :
  Forall (fun kv => 0 < snd kv) ms -> tt_fitsb 1 1 (tt_of_multiset ms) = true ->
  tree_via_trie (trie_body ms) = Some (profile_of ms).
Proof.
  intros Hpos Hfit. destruct (TTrieProofs.tt_of_multiset_spec ms) as (Hwf & Hroot & Hden).
  destruct (TTrieProofs.ttrie_roundtrip _ Hwf Hroot Hfit) as (t' & Hd & Hw' & Hr' & Hden' & _).
  unfold tree_via_trie, trie_body. rewrite Hd. f_equal. apply profile_of_equiv.
  - apply Forall_forall. intros [K v] Hin. cbn [snd]. eapply TTrieProofs.tt_iterate_pos; eauto.
  - exact Hpos.
  - intros k. rewrite (TTrieProofs.ms_count_iterate t' k Hr'), Hden', Hden. reflexivity.
Qed.

(* ---------------------------------------------------------------------------------------------- *)
(* one stack per line: a stack with count v is written v times *)
From Pyro Require Import Proofs.TextFormatsProofs.
Import TTrieProofs.

Definition line_ok (kv : bytes * N) : Prop :=
  fst kv <> [] /\ no_byte 10 (fst kv) /\ (forall s c, fst kv = s ++ [c] -> c <> 13) /\ line_fits (fst kv).

Definition lines_of (ms : list (bytes * N)) : list bytes :=
  flat_map (fun kv => repeat (fst kv) (N.to_nat (snd kv))) ms.

Lemma repeat_line_eq n l : repeat_line n l = flat_map (fun x => x ++ [10]) (repeat l n).
Proof. induction n as [|n IH]; [reflexivity|]. cbn [repeat_line repeat flat_map]. rewrite IH, <- app_assoc. reflexivity. Qed.

Lemma render_lines_eq ms : render_lines ms = flat_map (fun l => l ++ [10]) (lines_of ms).
Proof.
  unfold render_lines, lines_of. induction ms as [|kv ms IH]; [reflexivity|]. cbn [flat_map].
  rewrite IH, repeat_line_eq, flat_map_app. reflexivity.
Qed.

Lemma lines_of_Forall (P : bytes -> Prop) ms : Forall (fun kv => P (fst kv)) ms -> Forall P (lines_of ms).
Proof.
  induction 1 as [|kv ms H _ IH]; [constructor|]. unfold lines_of. cbn [flat_map]. apply Forall_app. split; [|exact IH].
  apply Forall_forall. intros x Hx. apply repeat_spec in Hx. now subst.
Qed.

Lemma scan_lines_render ms : Forall line_ok ms -> scan_lines (render_lines ms) = (lines_of ms, true).
Proof.
  intros H. unfold scan_lines. rewrite render_lines_eq, raw_lines_lines.
  - apply scan_tokens_keep.
    + apply lines_of_Forall. eapply Forall_impl; [|exact H]. intros kv (_ & _ & _ & F). exact F.
    + apply (lines_of_Forall (fun l => drop_cr l = l)). eapply Forall_impl; [|exact H].
      intros kv (_ & _ & C & _). now apply drop_cr_keep.
  - apply lines_of_Forall. eapply Forall_impl; [|exact H]. intros kv (_ & N & _). exact N.
Qed.

(* counting lines *)
Lemma ms_count_count_add k m K :
  ms_count (count_add k m) K = ms_count m K + (if beqb k K then 1 else 0).
Proof.
  induction m as [|[q w] m IH]; cbn [count_add].
  - rewrite ms_count_cons. cbn [fst snd]. unfold ms_count. cbn. lia.
  - destruct (beqb q k) eqn:E.
    + apply beqb_true_iff in E. subst q. rewrite !ms_count_cons. cbn [fst snd]. destruct (beqb k K); lia.
    + rewrite !ms_count_cons, IH. lia.
Qed.

Lemma count_add_pos k m : Forall (fun kv => 0 < snd kv) m -> Forall (fun kv => 0 < snd kv) (count_add k m).
Proof.
  induction 1 as [|[q w] m Hq Hm IH]; cbn [count_add]; [constructor; [cbn; lia|constructor]|].
  destruct (beqb q k); constructor; try assumption; cbn [snd] in *; lia.
Qed.

Lemma count_add_keys k m : k <> [] -> Forall (fun kv => fst kv <> []) m -> Forall (fun kv => fst kv <> []) (count_add k m).
Proof.
  intros Hk. induction 1 as [|[q w] m Hq Hm IH]; cbn [count_add]; [constructor; [exact Hk|constructor]|].
  destruct (beqb q k); constructor; assumption.
Qed.

Definition occ (K : bytes) (ts : list bytes) : N := sumN (map (fun k => if beqb k K then 1 else 0) ts).

Lemma count_lines_spec ts : forall m,
  Forall (fun kv => 0 < snd kv) m -> Forall (fun kv => fst kv <> []) m -> Forall (fun k => k <> []) ts ->
  let r := fold_left (fun m k => count_add k m) ts m in
  Forall (fun kv => 0 < snd kv) r /\ Forall (fun kv => fst kv <> []) r /\
  forall K, ms_count r K = ms_count m K + occ K ts.
Proof.
  induction ts as [|k ts IH]; intros m Hp Hk Hts; cbn [fold_left].
  - repeat split; try assumption. intros K. unfold occ. cbn. lia.
  - inversion Hts as [|? ? Hk0 Hts']; subst.
    destruct (IH (count_add k m) (count_add_pos k m Hp) (count_add_keys k m Hk0 Hk) Hts') as (A & B & C).
    repeat split; try assumption. intros K. rewrite C, ms_count_count_add. unfold occ. cbn [map]. unfold sumN. cbn [fold_right]. lia.
Qed.

Lemma occ_app K a b : occ K (a ++ b) = occ K a + occ K b.
Proof. unfold occ. rewrite map_app. induction (map _ a) as [|x l IH]; cbn; [reflexivity|]. unfold sumN in *. lia. Qed.

Lemma occ_repeat K k n : occ K (repeat k n) = if beqb k K then N.of_nat n else 0.
Proof.
  induction n as [|n IH]; [destruct (beqb k K); reflexivity|]. cbn [repeat]. unfold occ in *. cbn [map]. unfold sumN in *.
  cbn [fold_right]. rewrite IH. destruct (beqb k K); lia.
Qed.

Lemma occ_lines_of K ms : occ K (lines_of ms) = ms_count ms K.
Proof.
  induction ms as [|[k v] ms IH]; [reflexivity|]. unfold lines_of. cbn [flat_map fst snd].
  rewrite occ_app, occ_repeat, ms_count_cons. cbn [fst snd]. fold (lines_of ms). rewrite IH.
  destruct (beqb k K); lia.
Qed.

Lemma filter_all {A} (f : A -> bool) l : Forall (fun x => f x = true) l -> filter f l = l.
Proof. induction 1 as [|x l Hx _ IH]; [reflexivity|]. cbn. now rewrite Hx, IH. Qed.

Theorem lines_path_agrees ms :
  Forall line_ok ms -> Forall (fun kv => 0 < snd kv) ms ->
  tree_via_lines (render_lines ms) = Some (profile_of ms).
Proof.
  intros Hok Hpos. unfold tree_via_lines, parse_lines. rewrite scan_lines_render by exact Hok.
  assert (Hne : Forall (fun k => k <> []) (lines_of ms)).
  { apply lines_of_Forall. eapply Forall_impl; [|exact Hok]. intros kv (H & _). exact H. }
  destruct (count_lines_spec (lines_of ms) [] (Forall_nil _) (Forall_nil _) Hne) as (A & B & C).
  fold (count_lines (lines_of ms)) in A, B, C.
  rewrite filter_all.
  - f_equal. apply profile_of_equiv; [exact A|exact Hpos|].
    intros K. rewrite C, occ_lines_of. unfold ms_count at 1. cbn. reflexivity.
  - eapply Forall_impl; [|exact B]. intros [k v] H. cbn [fst] in *. destruct k; [congruence|reflexivity].
Qed.

(* ---------------------------------------------------------------------------------------------- *)
(* all three modelled wire formats store the multiset itself *)
Definition entry_ok (kv : bytes * N) : Prop :=
  fst kv <> [] /\ no_byte 10 (fst kv) /\ (forall s c, fst kv = s ++ [c] -> c <> 13) /\
  0 < snd kv /\ snd kv < 2 ^ 63 /\ line_fits (group_line kv).

Lemma line_fits_group kv : line_fits (group_line kv) -> line_fits (fst kv).
Proof. unfold line_fits, group_line. rewrite app_length. lia. Qed.

Theorem formats_agree : forall ms, Forall entry_ok ms -> tt_fitsb 1 1 (tt_of_multiset ms) = true ->
  tree_via_groups (render_groups ms) = Some (profile_of ms) /\
  tree_via_lines (render_lines ms) = Some (profile_of ms) /\
  tree_via_trie (trie_body ms) = Some (profile_of ms).
Proof.
  intros ms H Hfit. split; [|split].
  - apply groups_path_agrees. eapply Forall_impl; [|exact H]. intros kv (A & B & C & D & E & F). repeat split; assumption.
  - apply lines_path_agrees.
    + eapply Forall_impl; [|exact H]. intros kv (A & B & C & D & E & F). repeat split; try assumption. now apply line_fits_group.
    + eapply Forall_impl; [|exact H]. intros kv (A & B & C & D & E & F). exact D.
  - apply trie_path_agrees; [|exact Hfit]. eapply Forall_impl; [|exact H]. intros kv (A & B & C & D & E & F). exact D.
Qed.

(* ---------------------------------------------------------------------------------------------- *)
(* the binary tree format (tree.SerializeNoDict / DeserializeNoDict, model and round trip by builder tree-b) *)
From Pyro Require Import Model.TreeCodec Proofs.TreeCodecProofs.

Definition kids_pos (t : tnode) : Prop := Forall (fun c => t_posb c = true) (t_ch t).

Lemma t_posb_kids t : t_posb t = true -> kids_pos t.
Proof.
  destruct t as [n s tot ch]. cbn [t_posb]. rewrite andb_true_iff, forallb_forall. intros [_ H].
  unfold kids_pos. cbn [t_ch]. now apply Forall_forall.
Qed.

Lemma t_upd_posb m f ch :
  Forall (fun c => t_posb c = true) ch -> (forall c, kids_pos c -> t_posb (f c) = true) ->
  Forall (fun c => t_posb c = true) (t_upd m f ch).
Proof.
  intros H Hf. induction H as [|c ch Hc Hall IH]; cbn [t_upd].
  - constructor; [|constructor]. apply Hf. constructor.
  - destruct (bcmp (t_name c) m).
    + constructor; [apply Hf, t_posb_kids, Hc|exact Hall].
    + constructor; assumption.
    + constructor; [apply Hf; constructor|]. constructor; assumption.
Qed.

Lemma t_insert_path_posb : forall p v t, 0 < v -> kids_pos t -> t_posb (t_insert_path p v t) = true.
Proof.
  induction p as [|l p IH]; intros v [n s tot ch] Hv Hk; unfold kids_pos in Hk; cbn [t_ch] in Hk; cbn [t_insert_path t_posb].
  - apply andb_true_iff. split; [lia|]. apply forallb_forall. now apply Forall_forall.
  - apply andb_true_iff. split; [lia|]. apply forallb_forall. apply Forall_forall.
    apply t_upd_posb; [exact Hk|]. intros c Hc. now apply IH.
Qed.

Lemma fold_insert_posb ms : forall t, Forall (fun kv => 0 < snd kv) ms -> kids_pos t -> ms <> [] ->
  t_posb (fold_left (fun t kv => t_insert (fst kv) (snd kv) t) ms t) = true.
Proof.
  induction ms as [|kv ms IH]; intros t Hpos Hk Hne; [congruence|].
  inversion Hpos as [|? ? Hv Hpos']; subst. cbn [fold_left].
  pose proof (t_insert_path_posb (bsplit 59 (fst kv)) (snd kv) t Hv Hk) as H1. fold (t_insert (fst kv) (snd kv) t) in H1.
  destruct ms as [|kv' ms']; [exact H1|].
  apply IH; [exact Hpos'|apply t_posb_kids, H1|discriminate].
Qed.

Lemma profile_prune0 ms : Forall (fun kv => 0 < snd kv) ms -> t_prune 0 (profile_of ms) = profile_of ms.
Proof.
  intros Hpos. destruct ms as [|kv ms]; [reflexivity|].
  apply prune0_pos. unfold profile_of. apply fold_insert_posb; [exact Hpos|constructor|discriminate].
Qed.

Theorem tree_path_agrees cap ms :
  Forall (fun kv => 0 < snd kv) ms -> t_fitsb (profile_of ms) = true -> (t_size (profile_of ms) <= cap)%nat ->
  tree_via_tree (tree_body cap ms) = Some (profile_of ms).
Proof.
  intros Hpos Hfit Hsz. unfold tree_via_tree, tree_body.
  destruct (t_build_ok ms) as (Hwf & Hex & _). cbn zeta in *. fold (profile_of ms) in Hwf, Hex.
  destruct (nodict_lossless cap (profile_of ms) Hwf Hex Hfit Hsz) as [H _].
  rewrite H, profile_prune0 by exact Hpos. reflexivity.
Qed.

(* all four wire formats store the multiset itself *)
Theorem formats_agree4 : forall cap ms, Forall entry_ok ms ->
  tt_fitsb 1 1 (tt_of_multiset ms) = true -> t_fitsb (profile_of ms) = true -> (t_size (profile_of ms) <= cap)%nat ->
  tree_via_groups (render_groups ms) = Some (profile_of ms) /\
  tree_via_lines (render_lines ms) = Some (profile_of ms) /\
  tree_via_trie (trie_body ms) = Some (profile_of ms) /\
  tree_via_tree (tree_body cap ms) = Some (profile_of ms).
Proof.
  intros cap ms H Hfit Hfit2 Hsz. destruct (formats_agree ms H Hfit) as (A & B & C).
  repeat split; try assumption. apply tree_path_agrees; try assumption.
  eapply Forall_impl; [|exact H]. intros kv (_ & _ & _ & D & _). exact D.
Qed.
