(* BcmpProofs.v — bytes.Compare (Base.bcmp) is a strict total order on lists of N. *)
From Pyro Require Import Model.Base.

Lemma bcmp_refl : forall a, bcmp a a = Eq.
Proof. induction a as [|x a IH]; cbn; auto. rewrite N.compare_refl. exact IH. Qed.

Lemma bcmp_eq : forall a b, bcmp a b = Eq -> a = b.
Proof.
  induction a as [|x a IH]; intros [|y b] H; cbn in H; try discriminate; auto.
  destruct (N.compare x y) eqn:E; try discriminate.
  apply N.compare_eq in E. subst. f_equal. auto.
Qed.

Lemma bcmp_antisym : forall a b, bcmp b a = CompOpp (bcmp a b).
Proof.
  induction a as [|x a IH]; intros [|y b]; cbn; auto.
  rewrite (N.compare_antisym x y). destruct (N.compare x y); cbn; auto.
Qed.

Lemma bcmp_lt_gt : forall a b, bcmp a b = Lt <-> bcmp b a = Gt.
Proof. intros. rewrite (bcmp_antisym a b). destruct (bcmp a b); cbn; split; congruence. Qed.

Lemma bcmp_trans : forall a b c, bcmp a b = Lt -> bcmp b c = Lt -> bcmp a c = Lt.
Proof.
  induction a as [|x a IH]; intros [|y b] [|z c] H1 H2; cbn in *; try discriminate; auto.
  destruct (N.compare x y) eqn:E1; try discriminate.
  - apply N.compare_eq in E1. subst. destruct (N.compare y z) eqn:E2; try discriminate; eauto.
  - destruct (N.compare y z) eqn:E2; try discriminate.
    + apply N.compare_eq in E2. subst. rewrite E1. reflexivity.
    + rewrite N.compare_lt_iff in *. assert (x < z) by lia. rewrite <- N.compare_lt_iff in H. rewrite H. reflexivity.
Qed.

Lemma beqb_true : forall a b, beqb a b = true <-> a = b.
Proof.
  unfold beqb. intros. split.
  - destruct (bcmp a b) eqn:E; try discriminate. intros _. apply bcmp_eq; auto.
  - intros ->. rewrite bcmp_refl. reflexivity.
Qed.

Lemma beqb_false : forall a b, beqb a b = false <-> a <> b.
Proof.
  intros. split.
  - intros H E. apply beqb_true in E. congruence.
  - intros H. destruct (beqb a b) eqn:E; auto. apply beqb_true in E. contradiction.
Qed.

Lemma beqb_refl : forall a, beqb a a = true.
Proof. intros. apply beqb_true. reflexivity. Qed.

Lemma beqb_sym : forall a b, beqb a b = beqb b a.
Proof.
  intros. destruct (beqb a b) eqn:E.
  - apply beqb_true in E. subst. symmetry. apply beqb_refl.
  - symmetry. apply beqb_false. apply beqb_false in E. congruence.
Qed.

Lemma bltb_true : forall a b, bltb a b = true <-> bcmp a b = Lt.
Proof. unfold bltb. intros. destruct (bcmp a b); split; congruence. Qed.

(* strictly increasing lists *)
Inductive ssorted : list bytes -> Prop :=
| ss_nil : ssorted []
| ss_one : forall a, ssorted [a]
| ss_cons : forall a b l, bcmp a b = Lt -> ssorted (b :: l) -> ssorted (a :: b :: l).

Lemma ssorted_tail : forall a l, ssorted (a :: l) -> ssorted l.
Proof. intros a l H. inversion H; subst; auto. constructor. Qed.

Lemma ssorted_head_lt : forall a l, ssorted (a :: l) -> forall x, In x l -> bcmp a x = Lt.
Proof.
  intros a l. revert a. induction l as [|b l IH]; intros a H x Hx; [destruct Hx|].
  inversion H; subst. destruct Hx as [->|Hx]; auto.
  eapply bcmp_trans; eauto.
Qed.

Lemma ssorted_cons_intro : forall a l, ssorted l -> (forall x, In x l -> bcmp a x = Lt) -> ssorted (a :: l).
Proof.
  intros a [|b l] Hs Hl; constructor; auto. apply Hl. left. reflexivity.
Qed.

Lemma ssorted_NoDup : forall l, ssorted l -> NoDup l.
Proof.
  induction l as [|a l IH]; intros H; constructor.
  - intros Hin. pose proof (ssorted_head_lt _ _ H _ Hin) as E. rewrite bcmp_refl in E. discriminate.
  - apply IH. eapply ssorted_tail; eauto.
Qed.

(* two strictly increasing lists with the same members are equal *)
Lemma ssorted_ext : forall l1 l2, ssorted l1 -> ssorted l2 -> (forall x, In x l1 <-> In x l2) -> l1 = l2.
Proof.
  induction l1 as [|a l1 IH]; intros [|b l2] H1 H2 Hext; auto.
  - exfalso. apply (Hext b). left. reflexivity.
  - exfalso. apply (Hext a). left. reflexivity.
  - assert (a = b) as ->.
    { destruct (proj1 (Hext a) (or_introl eq_refl)) as [->|Ha]; auto.
      destruct (proj2 (Hext b) (or_introl eq_refl)) as [->|Hb]; auto.
      pose proof (ssorted_head_lt _ _ H1 _ Hb) as E1.
      pose proof (ssorted_head_lt _ _ H2 _ Ha) as E2.
      apply bcmp_lt_gt in E1. congruence. }
    f_equal. apply IH.
    + eapply ssorted_tail; eauto.
    + eapply ssorted_tail; eauto.
    + intros x. split; intros Hx.
      * destruct (proj1 (Hext x) (or_intror Hx)) as [->|]; auto.
        pose proof (ssorted_head_lt _ _ H1 _ Hx) as E. rewrite bcmp_refl in E. discriminate.
      * destruct (proj2 (Hext x) (or_intror Hx)) as [->|]; auto.
        pose proof (ssorted_head_lt _ _ H2 _ Hx) as E. rewrite bcmp_refl in E. discriminate.
Qed.
