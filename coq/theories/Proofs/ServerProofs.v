(* ServerProofs.v — lemmas about Model/Server.v. *)
From Pyro Require Import Model.Base Model.TimeParse Model.Server Proofs.TimeParseProofs.
Local Open Scope Z_scope.

Lemma floor10_le : forall t, floor10 t <= t < floor10 t + ten_s.
Proof.
  intros t. unfold floor10, ten_s. pose proof (Z_div_mod_eq_full t 10000000000).
  pose proof (Z.mod_pos_bound t 10000000000 eq_refl). lia.
Qed.

Lemma floor10_mono : forall a b, a <= b -> floor10 a <= floor10 b.
Proof.
  intros a b H. unfold floor10, ten_s. apply Z.mul_le_mono_nonneg_r; [lia|]. apply Z.div_le_mono; lia.
Qed.

(* a window that does not end before it starts normalises to at least one 10 s slot starting at floor10 from *)
Lemma normalize_window : forall f u w0 w1, f <= u -> normalize f u = (w0, w1) ->
  w0 = floor10 f /\ w0 + ten_s <= w1 /\ u <= w1 /\ w1 <= floor10 u + ten_s.
Proof.
  intros f u w0 w1 Hfu H. unfold normalize in H.
  pose proof (floor10_le f). pose proof (floor10_le u). pose proof (floor10_mono f u Hfu).
  assert (Hstep : forall a b, floor10 a < floor10 b -> floor10 a + ten_s <= floor10 b).
  { intros a b Hab. unfold floor10, ten_s in *. nia. }
  destruct ((floor10 u =? u) && negb (floor10 f =? floor10 u)) eqn:E; injection H as Hw0 Hw1; subst w0 w1.
  - apply andb_true_iff in E as [E1 E2]. apply Z.eqb_eq in E1. apply negb_true_iff in E2. apply Z.eqb_neq in E2.
    assert (Hlt : floor10 f < floor10 u) by lia. specialize (Hstep f u Hlt). unfold ten_s in *. lia.
  - unfold ten_s in *. lia.
Qed.

(* which of format parameter and Content-Type header wins *)
Lemma select_format_ct_tree : forall fmt, select_format fmt ct_tree = FTree.
Proof. intros. unfold select_format. destruct (beqb fmt v_tree); reflexivity. Qed.

Lemma select_format_ct_trie : forall fmt, beqb fmt v_tree = false -> select_format fmt ct_trie = FTrie.
Proof. intros fmt H. unfold select_format. rewrite H. destruct (beqb fmt v_trie); reflexivity. Qed.

Lemma select_format_param_tree : forall ct, select_format v_tree ct = FTree.
Proof. intros. reflexivity. Qed.

Lemma select_format_text : forall fmt ct, beqb fmt v_tree = false -> beqb fmt v_trie = false ->
  beqb ct ct_tree = false -> beqb ct ct_trie = false ->
  select_format fmt ct = if beqb fmt v_lines then FLines else FGroups.
Proof. intros fmt ct H1 H2 H3 H4. unfold select_format. rewrite H1, H2, H3, H4. reflexivity. Qed.

Section HandlerProofs.
  Variables (tree key meta state : Type).
  Variable parse_key : bytes -> key.
  Variable meta_of : query -> meta.
  Variables parse_tree parse_trie parse_lines parse_groups : bytes -> option tree.
  Variable put : key -> Z -> Z -> tree -> meta -> state -> state.

  Notation ingest := (ingest tree key meta state parse_key meta_of parse_tree parse_trie parse_lines parse_groups put).
  Notation ingest_params_of := (ingest_params_of key meta parse_key meta_of).
  Notation parser_of := (parser_of tree parse_tree parse_trie parse_lines parse_groups).
  Notation run := (run tree key meta state parse_key meta_of parse_tree parse_trie parse_lines parse_groups put).
  Notation acknowledged := (acknowledged tree key meta state parse_key meta_of parse_tree parse_trie parse_lines parse_groups put).

  Lemma time_param_total : forall now v, exists t, time_param now v = Some t.
  Proof. intros now [|c v]; simpl; [eexists; reflexivity|]. apply attime_total_lemma. Qed.

  Lemma ingest_params_total : forall rq e, exists ip, ingest_params_of rq e = Some ip.
  Proof.
    intros rq e. unfold Server.ingest_params_of.
    destruct (time_param_total (e_now_from e) (q_get k_from (rq_query rq))) as [f ->].
    destruct (time_param_total (e_now_until e) (q_get k_until (rq_query rq))) as [u ->]. eexists; reflexivity.
  Qed.

  (* 200 => the whole parsed body was put under the requested key, in a window of >= 1 slot starting at floor10(from) *)
  Lemma ingest_ack : forall rq e st st', ingest rq e st = (Status 200, st') ->
    exists ip t w0 w1,
      ingest_params_of rq e = Some ip /\
      parser_of (ip_format _ _ ip) (rq_body rq) = Some t /\
      w0 = floor10 (ip_from _ _ ip) /\ w0 + ten_s <= w1 /\
      e_space_ok e = true /\
      (forall thr, e_retention_thr e = Some thr -> thr <= ip_from _ _ ip) /\
      st' = put (ip_key _ _ ip) w0 w1 t (ip_meta _ _ ip) st.
  Proof.
    intros rq e st st' H. unfold Server.ingest in H.
    destruct (ingest_params_of rq e) as [ip|] eqn:Eip; [|inversion H].
    destruct (parser_of (ip_format _ _ ip) (rq_body rq)) as [t|] eqn:Ep; [|inversion H].
    destruct (e_space_ok e) eqn:Es; simpl negb in H; cbv iota in H; [|inversion H].
    set (from := ip_from _ _ ip) in *.
    set (until := if ip_until _ _ ip <? from then from else ip_until _ _ ip) in *.
    assert (Hfu : from <= until) by (unfold until; destruct (Z.ltb_spec (ip_until _ _ ip) from); lia).
    destruct (match e_retention_thr e with Some thr => from <? thr | None => false end) eqn:Er; [inversion H|].
    destruct (normalize from until) as [w0 w1] eqn:En.
    destruct (normalize_window from until w0 w1 Hfu En) as (Hw0 & Hw1 & _ & _).
    destruct (w1 <=? w0) eqn:Ew; [inversion H|]. inversion H; subst st'.
    exists ip, t, w0, w1. repeat split; auto.
    intros thr Hthr. rewrite Hthr in Er. apply Z.ltb_ge in Er. exact Er.
  Qed.

  (* any other outcome => the state is unchanged *)
  Lemma ingest_reject : forall rq e st o st', ingest rq e st = (o, st') -> o <> Status 200 -> st' = st.
  Proof.
    intros rq e st o st' H Ho. unfold Server.ingest in H.
    destruct (ingest_params_of rq e) as [ip|]; [|inversion H; reflexivity].
    destruct (parser_of (ip_format _ _ ip) (rq_body rq)) as [t|]; [|inversion H; reflexivity].
    destruct (negb (e_space_ok e)); [inversion H; reflexivity|].
    destruct (match e_retention_thr e with Some thr => _ | None => false end); [inversion H; reflexivity|].
    destruct (normalize _ _) as [w0 w1]. destruct (w1 <=? w0); inversion H; subst; [reflexivity|congruence].
  Qed.

  (* the handler never takes a panic branch *)
  Lemma ingest_total : forall rq e st, exists code, fst (ingest rq e st) = Status code.
  Proof.
    intros rq e st. unfold Server.ingest. destruct (ingest_params_total rq e) as [ip ->].
    destruct (parser_of (ip_format _ _ ip) (rq_body rq)) as [t|]; [|eexists; reflexivity].
    destruct (negb (e_space_ok e)); [eexists; reflexivity|].
    destruct (match e_retention_thr e with Some thr => _ | None => false end); [eexists; reflexivity|].
    set (from := ip_from _ _ ip). set (until := if ip_until _ _ ip <? from then from else ip_until _ _ ip).
    assert (Hfu : from <= until) by (unfold until; destruct (Z.ltb_spec (ip_until _ _ ip) from); lia).
    destruct (normalize from until) as [w0 w1] eqn:En.
    destruct (normalize_window from until w0 w1 Hfu En) as (Hw0 & Hw1 & _ & _).
    replace (w1 <=? w0) with false by (unfold ten_s in *; lia). eexists; reflexivity.
  Qed.

  Lemma render_total : forall q n1 n2, exists code, render q n1 n2 = Status code.
  Proof.
    intros q n1 n2. unfold render.
    destruct (attime_total_lemma n1 (q_get k_from q)) as [f ->]. destruct (attime_total_lemma n2 (q_get k_until q)) as [u ->].
    destruct (Z.ltb_spec u f); [eexists; reflexivity|].
    destruct (normalize f u) as [w0 w1] eqn:En.
    destruct (normalize_window f u w0 w1 H En) as (Hw0 & Hw1 & _ & _).
    replace (w1 <? w0) with false by (unfold ten_s in *; lia).
    destruct (beqb (q_get k_format q) v_json); eexists; reflexivity.
  Qed.

  (* histories: rejected requests can be erased from the history without changing the final state,
     i.e. they never change the answer to any later query (queries are functions of the state) *)
  Fixpoint run_acked (l : list (request * env)) (st : state) : state :=
    match l with
    | [] => st
    | (rq, e) :: l' => if acknowledged rq e st then run_acked l' (snd (ingest rq e st)) else run_acked l' st
    end.

  Lemma run_state : forall l st, snd (run l st) = run_acked l st.
  Proof.
    induction l as [|[rq e] l IH]; intros st; [reflexivity|]. cbn [Server.run run_acked].
    destruct (ingest rq e st) as [o st'] eqn:E. specialize (IH st').
    destruct (run l st') as [os st''] eqn:Er. simpl in *. unfold Server.acknowledged. rewrite E. simpl.
    destruct o as [code|w].
    - destruct (Z.eqb_spec code 200) as [->|Hne]; [exact IH|].
      assert (st' = st) by (eapply ingest_reject; [exact E|congruence]). subst st'. exact IH.
    - assert (st' = st) by (eapply ingest_reject; [exact E|congruence]). subst st'. exact IH.
  Qed.

  Lemma run_total : forall l st, Forall (fun o => exists code, o = Status code) (fst (run l st)).
  Proof.
    induction l as [|[rq e] l IH]; intros st; [constructor|]. cbn [Server.run].
    destruct (ingest_total rq e st) as [code Hc]. destruct (ingest rq e st) as [o st'] eqn:E. simpl in Hc. subst o.
    specialize (IH st'). destruct (run l st') as [os st'']. simpl in *. constructor; [eexists; reflexivity|exact IH].
  Qed.
End HandlerProofs.
