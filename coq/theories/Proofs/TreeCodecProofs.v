(* TreeCodecProofs.v — lemmas about Model/TreeCodec.v (profile codec) and the capped array. *)
From Pyro Require Import Model.Base Model.Varint Model.Tree Model.Cappedarr Model.Dict Model.TreeCodec
  Proofs.VarintProofs Proofs.TreeProofs Proofs.DictProofs.
From Coq Require Import ZifyN ZifyNat ZifyBool.
Ltac Zify.zify_post_hook ::= Z.div_mod_to_equations.

(* totals of a re-totalled tree are consistent *)
Lemma t_retotal_exact : forall t, t_exactb (t_retotal t) = true.
Proof.
  induction t as [n s tot ch IH] using tnode_ind'. cbn [t_retotal t_exactb].
  rewrite N.eqb_refl. cbn [andb]. rewrite forallb_forall. intros x Hx. apply in_map_iff in Hx.
  destruct Hx as [c [<- Hc]]. rewrite Forall_forall in IH. auto.
Qed.

(* ---- sorted insertion of a name greater than all present is an append ---- *)
Definition all_lt (acc : list tnode) (x : bytes) : Prop := Forall (fun c => bcmp (t_name c) x = Lt) acc.

Lemma t_upd_all_lt : forall acc x f, all_lt acc x -> t_upd x f acc = acc ++ [f (t_new x)].
Proof. induction 1 as [|c acc H _ IH]; cbn; [reflexivity|]. rewrite H, IH. reflexivity. Qed.

Lemma t_find_all_lt : forall acc x, all_lt acc x -> t_find x acc = None.
Proof. induction 1 as [|c acc H _ IH]; cbn; [reflexivity|]. rewrite (beqb_false_lt _ _ H). exact IH. Qed.

(* ---- the reader, unfolded ---- *)
Definition parse_kids (nm : bytes -> option bytes) (f : nat) : nat -> bytes -> tnode -> option (tnode * bytes) :=
  fix kids (n : nat) (bs : bytes) (c : tnode) : option (tnode * bytes) :=
    match n with
    | O => Some (c, bs)
    | S n' => match parse_tn nm f bs c with
              | None => None
              | Some (c', r) => kids n' r c'
              end
    end.

Lemma parse_tn_S : forall nm f bs parent,
  parse_tn nm (S f) bs parent =
  match uvarint_dec bs with None => None | Some (ll, r1) =>
  match read_bytes ll r1 with None => None | Some (key, r2) =>
  match nm key with None => None | Some name =>
  match uvarint_dec r2 with None => None | Some (self, r3) =>
  match uvarint_dec r3 with None => None | Some (cl, r4) =>
    if Nlen r4 <? cl then None else
    let old := match t_find name (t_ch parent) with Some e => t_ch e | None => [] end in
    match parse_kids nm f (N.to_nat cl) r4 (TNode name self self old) with
    | None => None
    | Some (cf, r5) =>
        match parent with
        | TNode pn ps ptot pch => Some (TNode pn ps (ptot + t_total cf) (t_upd name (fun _ => cf) pch), r5)
        end
    end
  end end end end end.
Proof. reflexivity. Qed.

Lemma read_bytes_app : forall k rest, Nlen k <= max_int64 -> read_bytes (Nlen k) (k ++ rest) = Some (k, rest).
Proof.
  intros k rest H. unfold read_bytes.
  destruct (N.eqb_spec (Nlen k) 0) as [Hz|Hz].
  - destruct k; [reflexivity|]. unfold Nlen in Hz. cbn in Hz. lia.
  - replace (max_int64 <? Nlen k) with false by lia.
    replace (Nlen (k ++ rest) <? Nlen k) with false by (unfold Nlen; rewrite app_length; lia).
    unfold Nlen. rewrite Nat2N.id. apply take_bytes_app.
Qed.

(* ---- sizes ---- *)
Fixpoint t_height (t : tnode) : nat :=
  match t with TNode _ _ _ ch => S (fold_right (fun c n => Nat.max (t_height c) n) 0%nat ch) end.

(* every length, count and self value that is written fits a uvarint; key lengths fit ReadBytes *)
Fixpoint t_fitsb (t : tnode) : bool :=
  match t with
  | TNode n s _ ch => (Nlen n <=? max_int64) && (s <? 2 ^ 64) && (Nlen ch <? 2 ^ 64) && forallb t_fitsb ch
  end.

Lemma ser_nd_len : forall th t, (3 <= length (ser_nd th t))%nat.
Proof.
  intros th [n s tot ch]. cbn [ser_nd]. rewrite !app_length.
  pose proof (uvarint_enc_len (Nlen n)). pose proof (uvarint_enc_len s).
  destruct (th <? tot); [rewrite app_length; pose proof (uvarint_enc_len (Nlen ch))|pose proof (uvarint_enc_len 0)]; lia.
Qed.

Lemma flat_ser_nd_len : forall th ch, (length ch <= length (flat_map (ser_nd th) ch))%nat.
Proof.
  induction ch as [|c ch IH]; cbn [flat_map length]; [lia|]. rewrite app_length.
  pose proof (ser_nd_len th c). lia.
Qed.

(* ---- keyed trees: the tree the writer sees, with names replaced by what is written as label ---- *)
Inductive krel (nm : bytes -> option bytes) (th : N) : tnode -> tnode -> Prop :=
| krel_node : forall kn n s tot kch ch,
    nm kn = Some n ->
    (th <? tot = true -> Forall2 (krel nm th) kch ch) ->
    krel nm th (TNode kn s tot kch) (TNode n s tot ch).

Definition R (th : N) (t : tnode) : tnode := t_retotal (t_prune th t).

Lemma R_name : forall th t, t_name (R th t) = t_name t.
Proof. intros th [n s tot ch]. reflexivity. Qed.

Lemma R_eq : forall th n s tot ch,
  R th (TNode n s tot ch) =
  if th <? tot then TNode n s (s + ch_total (map (R th) ch)) (map (R th) ch) else TNode n s s [].
Proof.
  intros. unfold R. cbn [t_prune t_retotal]. destruct (th <? tot).
  - rewrite map_map. reflexivity.
  - cbn. rewrite N.add_0_r. reflexivity.
Qed.

Definition parse_ok (nm : bytes -> option bytes) (th : N) (t : tnode) : Prop :=
  forall kt, krel nm th kt t -> t_wfb t = true -> t_fitsb kt = true ->
  forall f rest pn ps ptot pch,
    (t_height (t_prune th t) <= f)%nat -> all_lt pch (t_name t) ->
    parse_tn nm f (ser_nd th kt ++ rest) (TNode pn ps ptot pch) =
    Some (TNode pn ps (ptot + t_total (R th t)) (pch ++ [R th t]), rest).

Lemma kids_ok : forall nm th f kch ch,
  Forall2 (krel nm th) kch ch -> Forall (parse_ok nm th) ch ->
  forall acc name self acctot rest,
    sorted_names ch = true -> Forall (fun c => t_wfb c = true) ch -> forallb t_fitsb kch = true ->
    Forall (fun c => (t_height (t_prune th c) <= f)%nat) ch ->
    Forall (fun c => all_lt acc (t_name c)) ch ->
    parse_kids nm f (length kch) (flat_map (ser_nd th) kch ++ rest) (TNode name self acctot acc) =
    Some (TNode name self (acctot + ch_total (map (R th) ch)) (acc ++ map (R th) ch), rest).
Proof.
  intros nm th f kch ch F. induction F as [|kc c kch ch Hk F IH]; intros HP acc name self acctot rest Hs Hwf Hfit Hh Hlt.
  - cbn. rewrite N.add_0_r, app_nil_r. reflexivity.
  - inversion HP as [|? ? HPc HPr]; subst. inversion Hwf as [|? ? Hwc Hwr]; subst.
    inversion Hh as [|? ? Hhc Hhr]; subst. inversion Hlt as [|? ? Hlc Hlr]; subst.
    cbn [forallb] in Hfit. apply andb_true_iff in Hfit. destruct Hfit as [Hfc Hfr].
    apply sorted_names_cons in Hs. destruct Hs as [Hgt Hs].
    cbn [length flat_map parse_kids]. rewrite <- app_assoc.
    rewrite (HPc kc Hk Hwc Hfc f _ name self acctot acc Hhc Hlc). fold (parse_kids nm f).
    rewrite (IH HPr (acc ++ [R th c]) name self (acctot + t_total (R th c)) rest Hs Hwr Hfr Hhr).
    + cbn [map]. rewrite ch_total_cons, <- app_assoc. cbn [app]. f_equal. f_equal. f_equal. lia.
    + clear -Hgt Hlr. unfold all_gt in Hgt. rewrite Forall_forall in *. intros x Hx.
      apply Forall_app. split; [apply Hlr; exact Hx|]. constructor; [|constructor]. rewrite R_name. apply Hgt. exact Hx.
Qed.

Lemma parse_ser_ok : forall nm th t, parse_ok nm th t.
Proof.
  intros nm th. induction t as [n s tot ch IH] using tnode_ind'.
  intros kt Hk Hwf Hfit f rest pn ps ptot pch Hh Hlt.
  inversion Hk as [kn n' s' tot' kch ch' Hnm Hkch]; subst.
  destruct f as [|f]; [cbn in Hh; lia|].
  cbn [t_fitsb] in Hfit. repeat (apply andb_true_iff in Hfit; destruct Hfit as [Hfit ?]).
  rewrite parse_tn_S. cbn [ser_nd]. rewrite <- !app_assoc.
  rewrite uvarint_roundtrip by (unfold max_int64 in *; lia).
  rewrite read_bytes_app by lia. rewrite Hnm.
  rewrite uvarint_roundtrip by lia.
  cbn [t_name t_ch] in *. rewrite (t_find_all_lt _ _ Hlt).
  rewrite R_eq.
  apply t_wfb_iff in Hwf. cbn [t_ch] in Hwf. destruct Hwf as [Hs Hwc].
  destruct (th <? tot) eqn:Hth.
  - rewrite <- app_assoc. rewrite uvarint_roundtrip by lia.
    replace (Nlen (flat_map (ser_nd th) kch ++ rest) <? Nlen kch) with false
      by (unfold Nlen; rewrite app_length; pose proof (flat_ser_nd_len th kch); lia).
    unfold Nlen at 1. rewrite Nat2N.id.
    rewrite (kids_ok nm th f kch ch (Hkch eq_refl) IH [] n s s rest Hs Hwc); [rewrite (t_upd_all_lt _ _ _ Hlt); reflexivity|assumption| |].
    + cbn [t_prune t_height] in Hh. rewrite Hth in Hh. apply le_S_n in Hh.
      clear -Hh. induction ch as [|c ch IHc]; constructor; cbn [map fold_right] in Hh; [lia|apply IHc; lia].
    + clear. induction ch; constructor; [constructor|assumption].
  - rewrite uvarint_roundtrip by lia.
    replace (Nlen rest <? 0) with false by lia. cbn [N.to_nat parse_kids]. rewrite (t_upd_all_lt _ _ _ Hlt). reflexivity.
Qed.

Lemma height_prune_le_ser : forall nm th t kt, krel nm th kt t -> (t_height (t_prune th t) <= length (ser_nd th kt))%nat.
Proof.
  intros nm th. induction t as [n s tot ch IH] using tnode_ind'. intros kt Hk.
  inversion Hk as [kn n' s' tot' kch ch' Hnm Hkch]; subst.
  cbn [t_prune t_height ser_nd]. rewrite !app_length.
  pose proof (uvarint_enc_len (Nlen kn)). pose proof (uvarint_enc_len s).
  destruct (th <? tot) eqn:Hth.
  - rewrite app_length. pose proof (uvarint_enc_len (Nlen kch)).
    assert ((fold_right (fun c n => Nat.max (t_height c) n) 0 (map (t_prune th) ch) <= length (flat_map (ser_nd th) kch))%nat).
    { specialize (Hkch eq_refl). clear -Hkch IH. induction Hkch as [|kc c kch ch Hk F IHF]; cbn [map fold_right flat_map length]; [lia|].
      inversion IH; subst. rewrite app_length. apply Nat.max_lub; [|specialize (IHF H2); lia].
      specialize (H1 kc Hk). lia. }
    lia.
  - cbn. lia.
Qed.

Lemma parse_root_ser : forall nm th t kt,
  krel nm th kt t -> t_wfb t = true -> t_fitsb kt = true -> parse_root nm (ser_nd th kt) = Some (R th t).
Proof.
  intros nm th t kt Hk Hwf Hfit. unfold parse_root, t_empty, t_new.
  rewrite <- (app_nil_r (ser_nd th kt)) at 2.
  rewrite (parse_ser_ok nm th t kt Hk Hwf Hfit).
  - reflexivity.
  - pose proof (height_prune_le_ser nm th t kt Hk). lia.
  - constructor.
Qed.

Lemma krel_refl : forall th t, krel (fun k => Some k) th t t.
Proof.
  intros th. induction t as [n s tot ch IH] using tnode_ind'. constructor; [reflexivity|]. intros _.
  induction IH; constructor; auto.
Qed.

(* SerializeNoDict / DeserializeNoDict: the decoded tree is the pruned tree with totals recomputed *)
Theorem nodict_roundtrip : forall cap t, t_wfb t = true -> t_fitsb t = true ->
  tc_deserialize_nodict (tc_serialize_nodict cap t) = Some (R (t_minval cap t) t).
Proof. intros. apply parse_root_ser; auto using krel_refl. Qed.

(* ---- what R is, relative to the original ---- *)
Lemma den_R_incl : forall th t prefix x, In x (t_den_aux prefix (R th t)) -> In x (t_den_aux prefix t).
Proof.
  intros th. induction t as [n s tot ch IH] using tnode_ind'. intros prefix x Hx.
  rewrite R_eq in Hx. destruct (th <? tot).
  - cbn [t_den_aux] in *. destruct Hx as [Hx|Hx]; [left; exact Hx|right].
    apply in_flat_map in Hx. destruct Hx as [c' [Hc' Hx]]. apply in_map_iff in Hc'. destruct Hc' as [c [<- Hc]].
    apply in_flat_map. exists c. split; [exact Hc|]. rewrite Forall_forall in IH. rewrite R_name in Hx. auto.
  - cbn in *. destruct Hx as [Hx|[]]. left. exact Hx.
Qed.

Lemma R_total_exact : forall t, t_exactb t = true -> R 0 t = t_prune 0 t.
Proof.
  induction t as [n s tot ch IH] using tnode_ind'. intros He.
  cbn [t_exactb] in He. apply andb_true_iff in He. destruct He as [He Hc]. apply N.eqb_eq in He.
  rewrite R_eq. cbn [t_prune]. destruct (N.ltb_spec 0 tot) as [Hp|Hz].
  - assert (Hm : map (R 0) ch = map (t_prune 0) ch).
    { rewrite forallb_forall in Hc. rewrite Forall_forall in IH. apply map_ext_in. intros c Hin. auto. }
    rewrite Hm. f_equal. rewrite He. f_equal. unfold ch_total. rewrite map_map. f_equal. apply map_ext.
    intros [? ? ? ?]. reflexivity.
  - f_equal. lia.
Qed.

Lemma ch_total_zero : forall ch, ch_total ch = 0 -> Forall (fun c => t_total c = 0) ch.
Proof.
  induction ch as [|c ch IH]; intros H; constructor; rewrite ch_total_cons in H; [lia|apply IH; lia].
Qed.

Definition strip_go : list tnode -> list tnode :=
  fix go (ch : list tnode) : list tnode :=
    match ch with
    | [] => []
    | c :: r => if t_total c =? 0 then go r else t_strip0 c :: go r
    end.
Lemma t_strip0_eq : forall n s tot ch, t_strip0 (TNode n s tot ch) = TNode n s tot (strip_go ch).
Proof. reflexivity. Qed.

Lemma prune_total : forall th t, t_total (t_prune th t) = t_total t.
Proof. intros th [? ? ? ?]. reflexivity. Qed.

Lemma strip_prune0 : forall t, t_exactb t = true -> t_strip0 (t_prune 0 t) = t_strip0 t.
Proof.
  induction t as [n s tot ch IH] using tnode_ind'. intros He.
  cbn [t_exactb] in He. apply andb_true_iff in He. destruct He as [He Hc]. apply N.eqb_eq in He.
  cbn [t_prune]. rewrite !t_strip0_eq. f_equal. destruct (N.ltb_spec 0 tot) as [Hp|Hz].
  - clear He. induction ch as [|c ch IHc]; [reflexivity|].
    cbn [map strip_go forallb] in *. apply andb_true_iff in Hc. destruct Hc as [Hc1 Hc2].
    inversion IH; subst. rewrite prune_total. destruct (t_total c =? 0); [auto|]. f_equal; auto.
  - assert (Hz' : ch_total ch = 0) by lia. apply ch_total_zero in Hz'. clear -Hz'.
    induction Hz' as [|c ch H _ IHc]; [reflexivity|]. cbn [strip_go]. rewrite H. cbn. exact IHc.
Qed.

(* no zero-total node below a kept node: nothing at all is dropped *)
Fixpoint t_posb (t : tnode) : bool :=
  match t with TNode _ _ tot ch => (0 <? tot) && forallb t_posb ch end.
Lemma prune0_pos : forall t, t_posb t = true -> t_prune 0 t = t.
Proof.
  induction t as [n s tot ch IH] using tnode_ind'. intros Hp. cbn [t_posb] in Hp.
  apply andb_true_iff in Hp. destruct Hp as [Hp Hc]. cbn [t_prune]. rewrite Hp. f_equal.
  rewrite forallb_forall in Hc. rewrite Forall_forall in IH. rewrite <- (map_id ch) at 2. apply map_ext_in. auto.
Qed.

(* ---- the pruned walk of minValue visits at most all nodes ---- *)
Lemma mv_visit_count : forall t c k, (snd (mv_visit t (c, k)) <= k + t_size t)%nat.
Proof.
  induction t as [n s tot ch IH] using tnode_ind'. intros c k.
  cbn [mv_visit fst snd t_size]. destruct (ca_push tot c) as [ok c'].
  destruct ok; [|cbn [snd]; lia].
  set (go := fix go (ch : list tnode) (st : capped * nat) {struct ch} : capped * nat :=
               match ch with [] => st | c :: rest => go rest (mv_visit c st) end).
  assert (Hgo : forall ch st, Forall (fun t => forall c k, (snd (mv_visit t (c, k)) <= k + t_size t)%nat) ch ->
                (snd (go ch st) <= snd st + fold_right (fun c n => (t_size c + n)%nat) 0%nat ch)%nat).
  { clear. induction ch as [|c ch IHc]; intros st HF; cbn [go fold_right]; [lia|].
    inversion HF; subst. specialize (IHc (mv_visit c st) H2). destruct st as [c0 k0].
    specialize (H1 c0 k0). cbn [snd] in *. lia. }
  specialize (Hgo ch (c', S k) IH). cbn [snd] in Hgo. lia.
Qed.

Lemma t_minval_fits : forall cap t, (t_size t <= cap)%nat -> t_minval cap t = 0.
Proof.
  intros cap t H. unfold t_minval. pose proof (mv_visit_count t (ca_new cap) 0%nat) as Hc.
  destruct (Nat.leb_spec (snd (mv_visit t (ca_new cap, 0%nat))) cap); [reflexivity|lia].
Qed.

Theorem nodict_lossless : forall cap t, t_wfb t = true -> t_exactb t = true -> t_fitsb t = true ->
  (t_size t <= cap)%nat ->
  tc_deserialize_nodict (tc_serialize_nodict cap t) = Some (t_prune 0 t) /\ t_strip0 (t_prune 0 t) = t_strip0 t.
Proof.
  intros cap t Hwf He Hfit Hsz. split; [|apply strip_prune0; exact He].
  rewrite nodict_roundtrip by assumption. rewrite t_minval_fits by exact Hsz. rewrite R_total_exact by exact He. reflexivity.
Qed.

(* ---- Serialize with the dictionary: same stream format over the keyed tree; uses C12 ---- *)
Definition dext (d d' : trie) : Prop := forall k n, valid_key d k n -> valid_key d' k n.
Definition two55 : N := 36028797018963968.

(* bytes of names (plus 2 per name) that Serialize puts into the dictionary *)
Fixpoint names_weight (th : N) (t : tnode) : N :=
  match t with
  | TNode n _ tot ch => Nlen n + 2 + (if th <? tot then fold_right (fun c a => names_weight th c + a) 0 ch else 0)
  end.
Definition ch_names_weight (th : N) (ch : list tnode) : N := fold_right (fun c a => names_weight th c + a) 0 ch.

Definition ser_go (th : N) : list tnode -> trie -> bytes * trie :=
  fix go (ch : list tnode) (d : trie) {struct ch} : bytes * trie :=
    match ch with
    | [] => ([], d)
    | c :: rest => let '(b1, d') := ser_t th c d in
                   let '(b2, d'') := go rest d' in (b1 ++ b2, d'')
    end.

Lemma ser_t_eq : forall th n s tot ch d,
  ser_t th (TNode n s tot ch) d =
  let '(k, d1) := d_put n d in
  let hd := uvarint_enc (Nlen k) ++ k ++ uvarint_enc s in
  if th <? tot then let '(body, d2) := ser_go th ch d1 in (hd ++ uvarint_enc (Nlen ch) ++ body, d2)
  else (hd ++ uvarint_enc 0, d1).
Proof. reflexivity. Qed.

Definition ser_ok (th : N) (t : tnode) : Prop :=
  forall d, t_fitsb t = true -> tr_weight d + names_weight th t < two55 ->
  exists kt d', ser_t th t d = (ser_nd th kt, d') /\ dext d d' /\
                tr_weight d' <= tr_weight d + names_weight th t /\ t_fitsb kt = true /\
                (forall d'', dext d' d'' -> krel (fun k => d_get k d'') th kt t).

Lemma ser_go_ok : forall th ch, Forall (ser_ok th) ch ->
  forall d, forallb t_fitsb ch = true -> tr_weight d + ch_names_weight th ch < two55 ->
  exists kch d', ser_go th ch d = (flat_map (ser_nd th) kch, d') /\ dext d d' /\
                 tr_weight d' <= tr_weight d + ch_names_weight th ch /\ forallb t_fitsb kch = true /\
                 length kch = length ch /\
                 (forall d'', dext d' d'' -> Forall2 (krel (fun k => d_get k d'') th) kch ch).
Proof.
  intros th ch HF. induction HF as [|c ch Hc _ IH]; intros d Hfit Hb.
  - exists [], d. cbn. repeat split; try lia; auto. intros k n H; exact H.
  - cbn [forallb] in Hfit. apply andb_true_iff in Hfit. destruct Hfit as [Hfc Hfr].
    cbn [ch_names_weight fold_right] in Hb. fold (ch_names_weight th ch) in Hb.
    destruct (Hc d Hfc) as [kc [d1 [Hs1 [He1 [Hw1 [Hf1 Hk1]]]]]]; [lia|].
    destruct (IH d1 Hfr) as [kch [d2 [Hs2 [He2 [Hw2 [Hf2 [Hl2 Hk2]]]]]]]; [lia|].
    exists (kc :: kch), d2. cbn [ser_go]. rewrite Hs1. fold (ser_go th). rewrite Hs2.
    split; [reflexivity|]. split; [intros k n H; auto|].
    split; [cbn [ch_names_weight fold_right]; fold (ch_names_weight th ch); lia|].
    split; [cbn [forallb]; rewrite Hf1, Hf2; reflexivity|].
    split; [cbn [length]; lia|].
    intros d'' He. constructor; [|apply Hk2; exact He].
    apply Hk1. intros k n H. apply He, He2, H.
Qed.

Lemma ser_t_ok : forall th t, ser_ok th t.
Proof.
  intros th. induction t as [n s tot ch IH] using tnode_ind'. intros d Hfit Hb.
  cbn [t_fitsb] in Hfit. apply andb_true_iff in Hfit. destruct Hfit as [Hfit Hfch].
  apply andb_true_iff in Hfit. destruct Hfit as [Hfit Hfcl]. apply andb_true_iff in Hfit. destruct Hfit as [Hfn Hfs].
  cbn [names_weight] in Hb. fold (ch_names_weight th ch) in Hb.
  rewrite ser_t_eq. destruct (d_put n d) as [k d1] eqn:Hp.
  assert (Hb1 : tr_weight d + Nlen n < two63) by (unfold two55, two63 in *; lia).
  destruct (d_put_spec n d k d1 Hb1 Hp) as [Hv [He1 Hw1]].
  pose proof (d_put_key_len n d k d1 Hb1 Hp) as Hkl.
  assert (Hkfit : (Nlen k <=? max_int64) = true) by (unfold two55, max_int64 in *; lia).
  destruct (th <? tot) eqn:Hth.
  - destruct (ser_go_ok th ch IH d1) as [kch [d2 [Hs2 [He2 [Hw2 [Hf2 [Hl2 Hk2]]]]]]]; [assumption|lia|].
    rewrite Hs2. exists (TNode k s tot kch), d2.
    split.
    { cbn [ser_nd]. rewrite Hth. unfold Nlen at 4. rewrite Hl2. fold (Nlen ch). rewrite <- !app_assoc. reflexivity. }
    split; [intros k0 n0 Hk0; auto|].
    split; [cbn [names_weight]; rewrite Hth; fold (ch_names_weight th ch); lia|].
    split.
    { cbn [t_fitsb]. rewrite Hkfit, Hf2. unfold Nlen at 1. rewrite Hl2. fold (Nlen ch).
      rewrite Hfs, Hfcl. reflexivity. }
    intros d'' He. constructor.
    + apply valid_key_get. apply He, He2, Hv.
    + intros _. apply Hk2. exact He.
  - exists (TNode k s tot []), d1.
    split; [cbn [ser_nd]; rewrite Hth, <- !app_assoc; reflexivity|].
    split; [exact He1|].
    split; [cbn [names_weight]; rewrite Hth; lia|].
    split; [cbn [t_fitsb forallb]; rewrite Hkfit, Hfs; reflexivity|].
    intros d'' He. constructor; [apply valid_key_get, He, Hv|congruence].
Qed.

(* Serialize into dictionary d, then Deserialize with that dictionary after ANY later history of puts
   and save/reload events: the decoded tree is the pruned tree with totals recomputed *)
Theorem dict_roundtrip : forall cap t d bs d' ops,
  t_wfb t = true -> t_fitsb t = true ->
  tr_weight d + names_weight (t_minval cap t) t + ops_weight ops < two55 ->
  tc_serialize cap t d = (bs, d') ->
  tc_deserialize (fold_left d_step ops d') bs = Some (R (t_minval cap t) t).
Proof.
  intros cap t d bs d' ops Hwf Hfit Hb Hs. unfold tc_serialize in Hs.
  destruct (ser_t_ok (t_minval cap t) t d Hfit) as [kt [d1 [Hs1 [He1 [Hw1 [Hf1 Hk1]]]]]]; [lia|].
  rewrite Hs1 in Hs. injection Hs as <- <-.
  unfold tc_deserialize. change (1 mod 128 :: ser_nd (t_minval cap t) kt) with (uvarint_enc 1 ++ ser_nd (t_minval cap t) kt).
  rewrite uvarint_roundtrip by (cbn; lia).
  apply parse_root_ser; [|exact Hwf|exact Hf1].
  apply Hk1. intros k n Hv.
  apply (proj1 (d_steps_inv ops d1 ltac:(unfold two55, two63 in *; lia))). exact Hv.
Qed.

(* ---- headline statements, assembled ---- *)
Theorem C04_prune_full : forall cap t d bs d' ops,
  (1 <= cap)%nat -> t_wfb t = true -> t_fitsb t = true ->
  tr_weight d + names_weight (t_minval cap t) t + ops_weight ops < two55 ->
  tc_serialize cap t d = (bs, d') ->
  let dec := t_retotal (t_prune (t_minval cap t) t) in
  tc_deserialize (fold_left d_step ops d') bs = Some dec /\
  tc_deserialize_nodict (tc_serialize_nodict cap t) = Some dec /\
  (forall x, In x (t_den dec) -> In x (t_den t)) /\
  t_exactb dec = true.
Proof.
  intros cap t d bs d' ops _ Hwf Hfit Hb Hs dec.
  split; [eapply dict_roundtrip; eauto|].
  split; [apply nodict_roundtrip; assumption|].
  split; [intros x; apply den_R_incl|apply t_retotal_exact].
Qed.

Theorem C04_lossless_full : forall cap t d bs d' ops,
  (1 <= cap)%nat -> t_wfb t = true -> t_exactb t = true -> t_fitsb t = true ->
  tr_weight d + names_weight 0 t + ops_weight ops < two55 ->
  (t_size t <= cap)%nat ->
  tc_serialize cap t d = (bs, d') ->
  tc_deserialize (fold_left d_step ops d') bs = Some (t_prune 0 t) /\
  tc_deserialize_nodict (tc_serialize_nodict cap t) = Some (t_prune 0 t) /\
  t_strip0 (t_prune 0 t) = t_strip0 t /\
  (t_posb t = true -> t_prune 0 t = t).
Proof.
  intros cap t d bs d' ops _ Hwf He Hfit Hb Hsz Hs.
  pose proof (t_minval_fits cap t Hsz) as Hm.
  split.
  { rewrite <- (R_total_exact t He), <- Hm. eapply dict_roundtrip; eauto. rewrite Hm. exact Hb. }
  split; [apply nodict_lossless; assumption|].
  split; [apply strip_prune0; exact He|apply prune0_pos].
Qed.

(* ============================================================================================ *)
(* The capped array keeps the N largest pushed values                                            *)
From Coq Require Import Sorting.Sorted Permutation.

Definition isort (vs : list N) : list N := fold_left (fun l v => ca_insert v l) vs [].
Definition topn (n : nat) (l : list N) : list N := skipn (length l - n) l.
Definition push_all (vs : list N) (c : capped) : capped := fold_left (fun c v => snd (ca_push v c)) vs c.

Lemma ca_insert_perm : forall v l, Permutation (ca_insert v l) (v :: l).
Proof.
  induction l as [|x l IH]; cbn; [reflexivity|]. destruct (x <? v); [|reflexivity].
  rewrite IH. apply perm_swap.
Qed.

Lemma ca_insert_length : forall v l, length (ca_insert v l) = S (length l).
Proof. intros. apply (Permutation_length (ca_insert_perm v l)). Qed.

Lemma ca_insert_sorted : forall v l, StronglySorted N.le l -> StronglySorted N.le (ca_insert v l).
Proof.
  induction l as [|x l IH]; intros Hs; cbn.
  - constructor; constructor.
  - inversion Hs as [|? ? Hs' Hall]; subst. destruct (N.ltb_spec x v).
    + constructor; [auto|]. eapply Permutation_Forall; [symmetry; apply ca_insert_perm|].
      constructor; [lia|exact Hall].
    + constructor; [exact Hs|]. constructor; [exact H|]. eapply Forall_impl; [|exact Hall]. cbn. intros; lia.
Qed.

Lemma ca_insert_zero : forall l, ca_insert 0 l = 0 :: l.
Proof. intros [|x l]; cbn; [reflexivity|]. replace (x <? 0) with false by lia. reflexivity. Qed.

Lemma isort_snoc : forall vs v, isort (vs ++ [v]) = ca_insert v (isort vs).
Proof. intros. unfold isort. rewrite fold_left_app. reflexivity. Qed.

Lemma isort_sorted_perm : forall vs, StronglySorted N.le (isort vs) /\ Permutation (isort vs) vs.
Proof.
  induction vs as [|v vs IH] using rev_ind; [split; [constructor|reflexivity]|].
  destruct IH as [Hs Hp]. rewrite isort_snoc. split; [apply ca_insert_sorted; exact Hs|].
  rewrite ca_insert_perm, Hp. apply Permutation_cons_append.
Qed.

Lemma skipn_incl : forall {A} m (l : list A) x, In x (skipn m l) -> In x l.
Proof. induction m as [|m IH]; intros [|y l] x H; cbn in *; auto. Qed.

(* dropping one more element after an insertion: the window either stays or takes v and loses its head *)
Lemma skipn_insert : forall v m L, StronglySorted N.le L -> (m < length L)%nat ->
  skipn (S m) (ca_insert v L) =
  match skipn m L with
  | w0 :: _ => if v <=? w0 then skipn m L else tl (ca_insert v (skipn m L))
  | [] => []
  end.
Proof.
  induction m as [|m IH]; intros L Hs Hm.
  - destruct L as [|x L]; [cbn in Hm; lia|]. cbn [skipn]. cbn [ca_insert].
    destruct (N.leb_spec v x); [replace (x <? v) with false by lia|replace (x <? v) with true by lia]; reflexivity.
  - destruct L as [|x L]; [cbn in Hm; lia|]. cbn [length] in Hm. inversion Hs as [|? ? Hs' Hall]; subst.
    cbn [ca_insert]. destruct (N.ltb_spec x v) as [Hlt|Hge].
    + change (skipn (S (S m)) (x :: ca_insert v L)) with (skipn (S m) (ca_insert v L)).
      change (skipn (S m) (x :: L)) with (skipn m L). apply IH; [exact Hs'|lia].
    + change (skipn (S (S m)) (v :: x :: L)) with (skipn m L).
      change (skipn (S m) (x :: L)) with (skipn m L).
      destruct (skipn m L) as [|w0 W] eqn:EW; [reflexivity|].
      assert (Hin : In w0 L). { apply (skipn_incl m L). rewrite EW. left. reflexivity. }
      rewrite Forall_forall in Hall. specialize (Hall w0 Hin). replace (v <=? w0) with true by lia. reflexivity.
Qed.

Definition ca_inv (cap : nat) (c : capped) (L : list N) : Prop :=
  ca_max c = cap /\ StronglySorted N.le L /\ ca_vals c = topn cap L.

Lemma topn_length : forall n l, length (topn n l) = Nat.min (length l) n.
Proof. intros. unfold topn. rewrite skipn_length. lia. Qed.

Lemma ca_push_inv : forall cap v c L, (1 <= cap)%nat -> ca_inv cap c L ->
  ca_inv cap (snd (ca_push v c)) (ca_insert v L).
Proof.
  intros cap v c L Hcap [Hmax [Hs Hv]]. unfold ca_push. rewrite Hmax.
  pose proof (topn_length cap L) as Hlen. rewrite <- Hv in Hlen.
  destruct (Nat.ltb_spec (length (ca_vals c)) cap) as [Hnf|Hfull].
  - assert (HL : (length L < cap)%nat) by lia.
    assert (HvL : ca_vals c = L). { rewrite Hv. unfold topn. replace (length L - cap)%nat with 0%nat by lia. reflexivity. }
    assert (Ht : topn cap (ca_insert v L) = ca_insert v L).
    { unfold topn. rewrite ca_insert_length. replace (S (length L) - cap)%nat with 0%nat by lia. reflexivity. }
    destruct (N.eqb_spec v 0) as [->|Hnz]; cbn [snd]; (split; [reflexivity|]; split; [apply ca_insert_sorted; exact Hs|]); cbn [ca_vals].
    + rewrite Ht, HvL, ca_insert_zero. reflexivity.
    + rewrite Ht, HvL. reflexivity.
  - assert (HL : (cap <= length L)%nat) by lia.
    assert (Ht : topn cap (ca_insert v L) = skipn (S (length L - cap)) (ca_insert v L)).
    { unfold topn. rewrite ca_insert_length. f_equal. lia. }
    rewrite (skipn_insert v (length L - cap) L Hs) in Ht by lia. fold (topn cap L) in Ht. rewrite <- Hv in Ht.
    destruct (ca_vals c) as [|w0 W] eqn:EW; [cbn in Hlen; lia|].
    destruct (v <=? w0); cbn [snd]; (split; [cbn [ca_max]; try exact Hmax; reflexivity|]; split; [apply ca_insert_sorted; exact Hs|]); cbn [ca_vals].
    + rewrite Ht. exact EW.
    + rewrite Ht. reflexivity.
Qed.

(* Part 1 of cappedarr_topN: after pushing ANY sequence of values (accepted or not) the window is exactly the
   [cap] largest of them in ascending order, so MinValue is the cap-th largest once cap values were pushed *)
Theorem cappedarr_window : forall cap vs, (1 <= cap)%nat ->
  ca_vals (push_all vs (ca_new cap)) = topn cap (isort vs) /\
  StronglySorted N.le (isort vs) /\ Permutation (isort vs) vs.
Proof.
  intros cap vs Hcap. split; [|apply isort_sorted_perm].
  assert (H : ca_inv cap (push_all vs (ca_new cap)) (isort vs)).
  { induction vs as [|v vs IH] using rev_ind.
    - split; [reflexivity|]. split; [constructor|reflexivity].
    - unfold push_all. rewrite fold_left_app. cbn [fold_left]. rewrite isort_snoc. apply ca_push_inv; assumption. }
  apply H.
Qed.

(* ---- Part 2: on a tree, the pruned walk of minValue pushes enough ---- *)
Fixpoint all_totals (t : tnode) : list N :=
  match t with TNode _ _ tot ch => tot :: flat_map all_totals ch end.

Definition count_ge (m : N) (l : list N) : nat := length (filter (fun x => m <=? x) l).
Definition count_gt (m : N) (l : list N) : nat := length (filter (fun x => m <? x) l).

Lemma mv_visit_eq : forall n s tot ch st,
  mv_visit (TNode n s tot ch) st =
  let (ok, c') := ca_push tot (fst st) in
  let st' := (c', S (snd st)) in
  if ok then mv_children ch st' else st'.
Proof.
  intros. cbn [mv_visit]. destruct (ca_push tot (fst st)) as [ok c']. destruct ok; [|reflexivity].
  unfold mv_children. generalize (c', S (snd st)). induction ch as [|c ch IH]; intros st0; cbn [fold_left]; [reflexivity|apply IH].
Qed.

Definition ca_full (c : capped) : Prop := (ca_max c <= length (ca_vals c))%nat.
Definition good_skip (c : capped) (x : N) : Prop := x = 0 \/ (ca_full c /\ x <= ca_min c).

Lemma skipn_sorted : forall m (l : list N), StronglySorted N.le l -> StronglySorted N.le (skipn m l).
Proof.
  induction m as [|m IH]; intros [|x l] Hs; cbn; auto. inversion Hs; subst. auto.
Qed.

Lemma ca_inv_sorted : forall cap c L, ca_inv cap c L -> StronglySorted N.le (ca_vals c).
Proof. intros cap c L [_ [Hs ->]]. apply skipn_sorted. exact Hs. Qed.

Lemma ca_push_refused : forall v c, (1 <= ca_max c)%nat -> fst (ca_push v c) = false ->
  v = 0 \/ (ca_full c /\ v <= ca_min c).
Proof.
  intros v c Hcap. unfold ca_push, ca_full, ca_min.
  destruct (Nat.ltb_spec (length (ca_vals c)) (ca_max c)) as [Hnf|Hf].
  - destruct (N.eqb_spec v 0); [auto|discriminate].
  - destruct (ca_vals c) as [|w0 W]; [cbn in Hf; lia|].
    destruct (N.leb_spec v w0); [intros _; right; split; [exact Hf|assumption]|discriminate].
Qed.

Lemma ca_push_mono : forall cap v c L x, (1 <= cap)%nat -> ca_inv cap c L ->
  good_skip c x -> good_skip (snd (ca_push v c)) x.
Proof.
  intros cap v c L x Hcap Hinv [Hz|[Hfull Hle]]; [left; exact Hz|].
  pose proof (ca_inv_sorted _ _ _ Hinv) as Hs. destruct Hinv as [Hmax _].
  destruct c as [mx vals]. unfold ca_full, ca_min in Hfull, Hle. cbn [ca_max ca_vals] in *.
  unfold ca_push. cbn [ca_max ca_vals].
  destruct (Nat.ltb_spec (length vals) mx) as [Hnf|Hf]; [lia|].
  destruct vals as [|w0 W]; [right; split; assumption|].
  destruct (N.leb_spec v w0) as [Hvw|Hvw]; cbn [snd]; [right; split; assumption|].
  right. unfold ca_full, ca_min. cbn [ca_max ca_vals ca_insert]. replace (w0 <? v) with true by lia. cbn [tl].
  split; [rewrite ca_insert_length; cbn [length] in Hfull; lia|].
  inversion Hs as [|? ? HsW Hall]; subst.
  destruct W as [|w1 W']; cbn [ca_insert]; [lia|].
  destruct (w1 <? v); [inversion Hall; subst; lia|lia].
Qed.

Lemma all_totals_le : forall t, t_subb t = true -> Forall (fun x => x <= t_total t) (all_totals t).
Proof.
  induction t as [n s tot ch IH] using tnode_ind'. intros Hsub. cbn [t_subb] in Hsub.
  apply andb_true_iff in Hsub. destruct Hsub as [Hle Hc]. apply N.leb_le in Hle.
  cbn [all_totals t_total]. constructor; [lia|].
  assert (Hct : ch_total ch <= tot) by lia. clear Hle.
  revert Hct. induction IH as [|c ch Hc1 _ IHc]; intros Hct; cbn [flat_map]; [constructor|].
  cbn [forallb] in Hc. apply andb_true_iff in Hc. destruct Hc as [Hcc Hcr]. rewrite ch_total_cons in Hct.
  apply Forall_app. split; [|apply IHc; [exact Hcr|lia]].
  eapply Forall_impl; [|apply Hc1; exact Hcc]. cbn. intros; lia.
Qed.

(* the walk: everything it sees is either pushed (L') or skipped for a good reason (X) *)
Definition walk_ok (cap : nat) (t : tnode) : Prop :=
  forall c k L, ca_inv cap c L -> t_subb t = true ->
  exists L' X, ca_inv cap (fst (mv_visit t (c, k))) L' /\
               Permutation (L' ++ X) (all_totals t ++ L) /\
               Forall (good_skip (fst (mv_visit t (c, k)))) X /\
               (forall x, good_skip c x -> good_skip (fst (mv_visit t (c, k))) x) /\
               (snd (mv_visit t (c, k)) + length L = k + length L')%nat.

Lemma walk_children : forall cap ch, (1 <= cap)%nat -> Forall (walk_ok cap) ch ->
  forall c k L, ca_inv cap c L -> forallb t_subb ch = true ->
  exists L' X, ca_inv cap (fst (mv_children ch (c, k))) L' /\
               Permutation (L' ++ X) (flat_map all_totals ch ++ L) /\
               Forall (good_skip (fst (mv_children ch (c, k)))) X /\
               (forall x, good_skip c x -> good_skip (fst (mv_children ch (c, k))) x) /\
               (snd (mv_children ch (c, k)) + length L = k + length L')%nat.
Proof.
  intros cap ch Hcap HF. induction HF as [|t ch Ht _ IH]; intros c k L Hinv Hsub.
  - exists L, []. cbn [mv_children fold_left fst snd flat_map app]. rewrite app_nil_r.
    split; [exact Hinv|]. split; [reflexivity|]. split; [constructor|]. split; [auto|lia].
  - cbn [forallb] in Hsub. apply andb_true_iff in Hsub. destruct Hsub as [Hs1 Hs2].
    unfold mv_children. cbn [fold_left]. fold (mv_children ch (mv_visit t (c, k))).
    destruct (Ht c k L Hinv Hs1) as [L1 [X1 [Hi1 [Hp1 [Hg1 [Hm1 Hk1]]]]]].
    destruct (mv_visit t (c, k)) as [c1 k1] eqn:E1. cbn [fst snd] in *.
    destruct (IH c1 k1 L1 Hi1 Hs2) as [L2 [X2 [Hi2 [Hp2 [Hg2 [Hm2 Hk2]]]]]].
    exists L2, (X2 ++ X1). split; [exact Hi2|]. split; [|split; [|split]].
    + rewrite app_assoc, Hp2, <- app_assoc, Hp1. cbn [flat_map]. rewrite (app_assoc _ _ L).
      apply Permutation_app_tail. apply Permutation_app_comm.
    + apply Forall_app. split; [exact Hg2|]. eapply Forall_impl; [|exact Hg1]. exact Hm2.
    + intros x Hx. apply Hm2, Hm1, Hx.
    + lia.
Qed.

Lemma walk_ok_all : forall cap t, (1 <= cap)%nat -> walk_ok cap t.
Proof.
  intros cap t Hcap. induction t as [n s tot ch IH] using tnode_ind'. intros c k L Hinv Hsub.
  rewrite mv_visit_eq. cbn [fst snd].
  pose proof (ca_push_inv cap tot c L Hcap Hinv) as Hinv1.
  pose proof (fun x => ca_push_mono cap tot c L x Hcap Hinv) as Hmono1.
  assert (Hmax : (1 <= ca_max c)%nat) by (destruct Hinv as [-> _]; exact Hcap).
  pose proof (ca_push_refused tot c Hmax) as Href.
  destruct (ca_push tot c) as [ok c1]. cbn [fst snd] in *.
  pose proof (all_totals_le _ Hsub) as Hle. cbn [all_totals t_total] in Hle. inversion Hle as [|? ? _ Hle']; subst.
  cbn [t_subb] in Hsub. apply andb_true_iff in Hsub. destruct Hsub as [_ Hsubc].
  destruct ok.
  - destruct (walk_children cap ch Hcap IH c1 (S k) (ca_insert tot L) Hinv1 Hsubc) as [L2 [X2 [Hi2 [Hp2 [Hg2 [Hm2 Hk2]]]]]].
    exists L2, X2. split; [exact Hi2|]. split; [|split; [exact Hg2|split]].
    + rewrite Hp2. cbn [all_totals]. rewrite ca_insert_perm. cbn [app]. symmetry. apply Permutation_middle.
    + intros x Hx. apply Hm2, Hmono1, Hx.
    + rewrite ca_insert_length in Hk2. lia.
  - exists (ca_insert tot L), (flat_map all_totals ch). cbn [fst snd]. split; [exact Hinv1|].
    split; [|split; [|split]].
    + rewrite ca_insert_perm. cbn [all_totals app]. constructor. apply Permutation_app_comm.
    + specialize (Href eq_refl). assert (Hgs : good_skip c1 tot) by (apply Hmono1; exact Href).
      eapply Forall_impl; [|exact Hle']. cbn. intros x Hx.
      destruct Hgs as [Hz|[Hf Hm]]; [left; lia|right; split; [exact Hf|lia]].
    + exact Hmono1.
    + rewrite ca_insert_length. lia.
Qed.

(* counting *)
Lemma filter_perm_length : forall (p : N -> bool) l l', Permutation l l' -> length (filter p l) = length (filter p l').
Proof.
  intros p l l' H. induction H; cbn; auto.
  - destruct (p x); cbn; auto.
  - destruct (p x), (p y); reflexivity.
  - lia.
Qed.
Lemma filter_app_length : forall (p : N -> bool) a b, length (filter p (a ++ b)) = (length (filter p a) + length (filter p b))%nat.
Proof. intros. rewrite filter_app, app_length. reflexivity. Qed.
Lemma filter_all : forall (p : N -> bool) l, Forall (fun x => p x = true) l -> length (filter p l) = length l.
Proof. induction 1 as [|x l H _ IH]; cbn; [reflexivity|]. rewrite H. cbn. lia. Qed.
Lemma filter_none : forall (p : N -> bool) l, Forall (fun x => p x = false) l -> length (filter p l) = 0%nat.
Proof. induction 1 as [|x l H _ IH]; cbn; [reflexivity|]. rewrite H. exact IH. Qed.
Lemma filter_le_length : forall (p : N -> bool) l, (length (filter p l) <= length l)%nat.
Proof. induction l as [|x l IH]; cbn; [lia|]. destruct (p x); cbn; lia. Qed.

Lemma sorted_app_le : forall a b, StronglySorted N.le (a ++ b) -> forall x y, In x a -> In y b -> x <= y.
Proof.
  induction a as [|z a IH]; intros b Hs x y Hx Hy; [destruct Hx|].
  cbn [app] in Hs. inversion Hs as [|? ? Hs' Hall]; subst. destruct Hx as [->|Hx].
  - rewrite Forall_forall in Hall. apply Hall. apply in_or_app. right. exact Hy.
  - eapply IH; eauto.
Qed.

(* Part 2 of cappedarr_topN: when the walk visited more than cap nodes (the only case in which minValue uses
   the array), MinValue is the cap-th largest node total of the WHOLE tree: fewer than cap totals are greater,
   at least cap totals are greater or equal — although the walk never pushed the descendants of refused nodes *)
Theorem cappedarr_tree_topN : forall cap t, (1 <= cap)%nat -> t_subb t = true ->
  let st := mv_visit t (ca_new cap, 0%nat) in
  (cap < snd st)%nat ->
  let m := ca_min (fst st) in
  t_minval cap t = m /\
  (count_gt m (all_totals t) < cap)%nat /\ (cap <= count_ge m (all_totals t))%nat.
Proof.
  intros cap t Hcap Hsub st Hvis m.
  split. { unfold t_minval. fold st. destruct (Nat.leb_spec (snd st) cap); [lia|reflexivity]. }
  assert (Hinv0 : ca_inv cap (ca_new cap) []).
  { split; [reflexivity|]. split; [constructor|reflexivity]. }
  destruct (walk_ok_all cap t Hcap (ca_new cap) 0%nat [] Hinv0 Hsub) as [L' [X [Hinv [Hperm [Hgs [_ Hk]]]]]].
  fold st in Hinv, Hgs, Hk. rewrite app_nil_r in Hperm. cbn [length] in Hk.
  destruct Hinv as [Hmax [Hs Hv]].
  assert (HL : (cap < length L')%nat) by lia.
  set (m0 := (length L' - cap)%nat) in *.
  assert (Hsplit : L' = firstn m0 L' ++ skipn m0 L') by (symmetry; apply firstn_skipn).
  unfold topn in Hv. fold m0 in Hv.
  assert (Hwl : length (skipn m0 L') = cap) by (rewrite skipn_length; lia).
  destruct (skipn m0 L') as [|w0 W] eqn:EW; [cbn in Hwl; lia|].
  assert (Hm : m = w0) by (unfold m, ca_min; rewrite Hv; reflexivity).
  pose proof (skipn_sorted m0 L' Hs) as HsW. rewrite EW in HsW. inversion HsW as [|? ? _ HallW]; subst w0.
  assert (Hpre : Forall (fun x => x <= m) (firstn m0 L')).
  { rewrite Forall_forall. intros x Hx. rewrite Hsplit in Hs. eapply sorted_app_le; eauto. left. reflexivity. }
  assert (HX : Forall (fun x => x <= m) X).
  { eapply Forall_impl; [|exact Hgs]. cbn. intros x [Hz|[_ Hle]]; [lia|exact Hle]. }
  unfold count_gt, count_ge.
  rewrite <- (filter_perm_length _ _ _ Hperm), <- (filter_perm_length _ _ _ Hperm).
  assert (HcL : forall p : N -> bool, length (filter p L') = (length (filter p (firstn m0 L')) + length (filter p (m :: W)))%nat).
  { intros p. rewrite <- EW, <- filter_app_length, firstn_skipn. reflexivity. }
  rewrite !filter_app_length, !HcL.
  split.
  - rewrite (filter_none _ (firstn m0 L')) by (eapply Forall_impl; [|exact Hpre]; cbn; intros; lia).
    rewrite (filter_none _ X) by (eapply Forall_impl; [|exact HX]; cbn; intros; lia).
    cbn [filter]. replace (m <? m) with false by lia.
    pose proof (filter_le_length (fun x => m <? x) W). cbn [length] in Hwl. lia.
  - assert (Hall : length (filter (fun x => m <=? x) (m :: W)) = length (m :: W)).
    { apply filter_all. constructor; [lia|]. eapply Forall_impl; [|exact HallW]. cbn. intros; lia. }
    rewrite Hall, Hwl. lia.
Qed.

(* ---- the hypotheses of the codec theorems hold for every tree the system builds, and for decoded trees ---- *)
Lemma sorted_names_map : forall f ch, (forall c, t_name (f c) = t_name c) -> sorted_names (map f ch) = sorted_names ch.
Proof.
  intros f ch Hf. induction ch as [|c ch IH]; [reflexivity|].
  destruct ch as [|c' ch']; [reflexivity|].
  change (sorted_names (map f (c :: c' :: ch'))) with (bltb (t_name (f c)) (t_name (f c')) && sorted_names (map f (c' :: ch'))).
  rewrite IH, !Hf. reflexivity.
Qed.

Lemma R_wf : forall th t, t_wfb t = true -> t_wfb (R th t) = true.
Proof.
  intros th. induction t as [n s tot ch IH] using tnode_ind'. intros Hwf.
  apply t_wfb_iff in Hwf. cbn [t_ch] in Hwf. destruct Hwf as [Hs Hc].
  rewrite R_eq. destruct (th <? tot); [|reflexivity].
  apply t_wfb_iff. cbn [t_ch]. split.
  - rewrite sorted_names_map; [exact Hs|apply R_name].
  - rewrite Forall_map. rewrite Forall_forall in *. auto.
Qed.

Lemma built_wf_exact : forall ss : list (bytes * N),
  let t := fold_left (fun t kv => t_insert (fst kv) (snd kv) t) ss t_empty in
  t_wfb t = true /\ t_exactb t = true.
Proof.
  intros ss. cbv zeta. assert (H : t_wfb t_empty = true /\ t_exactb t_empty = true) by (split; reflexivity).
  revert H. generalize t_empty. induction ss as [|[k v] ss IH]; intros t [Hw He]; [split; assumption|].
  cbn [fold_left fst snd]. apply IH. split; [apply t_insert_wfb; exact Hw|apply t_insert_exact; exact He].
Qed.

(* ============================================================================================ *)
(* Inexact trees (total >= self + children, as Clone's independent flooring produces): what the  *)
(* codec preserves and what it does not (known finding scaled-totals-reloaded)                   *)

Lemma strip_prune0_sub : forall t, t_subb t = true -> t_strip0 (t_prune 0 t) = t_strip0 t.
Proof.
  induction t as [n s tot ch IH] using tnode_ind'. intros He.
  cbn [t_subb] in He. apply andb_true_iff in He. destruct He as [He Hc]. apply N.leb_le in He.
  cbn [t_prune]. rewrite !t_strip0_eq. f_equal. destruct (N.ltb_spec 0 tot) as [Hp|Hz].
  - clear He. induction ch as [|c ch IHc]; [reflexivity|].
    cbn [map strip_go forallb] in *. apply andb_true_iff in Hc. destruct Hc as [Hc1 Hc2].
    inversion IH; subst. rewrite prune_total. destruct (t_total c =? 0); [auto|]. f_equal; auto.
  - assert (Hz' : ch_total ch = 0) by lia. apply ch_total_zero in Hz'. clear -Hz'.
    induction Hz' as [|c ch H _ IHc]; [reflexivity|]. cbn [strip_go]. rewrite H. cbn. exact IHc.
Qed.

(* the shape with names and self values: totals erased *)
Fixpoint t_untotal (t : tnode) : tnode :=
  match t with TNode n s _ ch => TNode n s 0 (map t_untotal ch) end.

Lemma untotal_retotal : forall t, t_untotal (t_retotal t) = t_untotal t.
Proof.
  induction t as [n s tot ch IH] using tnode_ind'. cbn [t_retotal t_untotal]. f_equal.
  rewrite map_map. apply map_ext_in. rewrite Forall_forall in IH. auto.
Qed.

(* under t_sub every self value in a subtree is bounded by the subtree's total *)
Lemma den_le_total : forall t, t_subb t = true -> forall prefix x, In x (t_den_aux prefix t) -> snd x <= t_total t.
Proof.
  induction t as [n s tot ch IH] using tnode_ind'. intros Hsub prefix x Hx.
  cbn [t_subb] in Hsub. apply andb_true_iff in Hsub. destruct Hsub as [Hle Hc]. apply N.leb_le in Hle.
  cbn [t_den_aux t_total] in *. destruct Hx as [<-|Hx]; [cbn; lia|].
  apply in_flat_map in Hx. destruct Hx as [c [Hc1 Hx]].
  rewrite Forall_forall in IH. rewrite forallb_forall in Hc.
  specialize (IH c Hc1 (Hc c Hc1) _ x Hx).
  assert (t_total c <= ch_total ch).
  { clear -Hc1. induction ch as [|c0 ch IHc]; [destruct Hc1|]. rewrite ch_total_cons. destruct Hc1 as [->|H]; [lia|specialize (IHc H); lia]. }
  lia.
Qed.

(* every stack that carries samples survives the codec below the cap, with its self value *)
Lemma den_nonzero_kept : forall t, t_subb t = true -> forall prefix x,
  In x (t_den_aux prefix t) -> snd x <> 0 -> In x (t_den_aux prefix (R 0 t)).
Proof.
  induction t as [n s tot ch IH] using tnode_ind'. intros Hsub prefix x Hx Hnz.
  pose proof (den_le_total _ Hsub prefix x Hx) as Hle. cbn [t_total] in Hle.
  cbn [t_subb] in Hsub. apply andb_true_iff in Hsub. destruct Hsub as [_ Hc].
  rewrite R_eq. replace (0 <? tot) with true by lia.
  cbn [t_den_aux] in *. destruct Hx as [Hx|Hx]; [left; exact Hx|right].
  apply in_flat_map in Hx. destruct Hx as [c [Hc1 Hx]].
  apply in_flat_map. exists (R 0 c). split; [apply in_map; exact Hc1|].
  rewrite R_name. rewrite Forall_forall in IH. rewrite forallb_forall in Hc. apply IH; auto.
Qed.

Theorem inexact_preserved : forall cap t d bs d' ops,
  (1 <= cap)%nat -> t_wfb t = true -> t_subb t = true -> t_fitsb t = true ->
  tr_weight d + names_weight 0 t + ops_weight ops < two55 ->
  (t_size t <= cap)%nat ->
  tc_serialize cap t d = (bs, d') ->
  let dec := t_retotal (t_prune 0 t) in
  tc_deserialize (fold_left d_step ops d') bs = Some dec /\
  tc_deserialize_nodict (tc_serialize_nodict cap t) = Some dec /\
  t_untotal dec = t_untotal (t_prune 0 t) /\
  t_strip0 (t_prune 0 t) = t_strip0 t /\
  (forall x, In x (t_den t) -> snd x <> 0 -> In x (t_den dec)) /\
  (forall x, In x (t_den dec) -> In x (t_den t)) /\
  t_exactb dec = true.
Proof.
  intros cap t d bs d' ops _ Hwf Hsub Hfit Hb Hsz Hs dec.
  pose proof (t_minval_fits cap t Hsz) as Hm.
  split. { unfold dec. change (t_retotal (t_prune 0 t)) with (R 0 t). rewrite <- Hm. eapply dict_roundtrip; eauto. rewrite Hm. exact Hb. }
  split. { rewrite nodict_roundtrip by assumption. rewrite Hm. reflexivity. }
  split; [apply untotal_retotal|].
  split; [apply strip_prune0_sub; exact Hsub|].
  split; [intros x; apply den_nonzero_kept; exact Hsub|].
  split; [intros x; apply den_R_incl|apply t_retotal_exact].
Qed.

(* the full statement of C04_lossless without t_exactb is false of the model (and of the code) *)
Theorem lossless_inexact_refuted :
  exists cap t, (1 <= cap)%nat /\ t_wfb t = true /\ t_subb t = true /\ t_fitsb t = true /\ (t_size t < cap)%nat /\
    ~ (exists t', tc_deserialize_nodict (tc_serialize_nodict cap t) = Some t' /\ t_strip0 t' = t_strip0 t).
Proof.
  exists 1024%nat, (TNode [] 0 3 [TNode [97] 1 1 []; TNode [109; 97; 105; 110] 0 1 [TNode [109; 97; 105; 110] 1 1 []]]).
  repeat split; try (vm_compute; reflexivity); try (vm_compute; lia).
  intros [t' [H1 H2]]. vm_compute in H1. injection H1 as <-. vm_compute in H2. discriminate.
Qed.

(* ---- standalone export for C02: the dictionary side of a reload ---- *)
(* a tree serialized against dictionary d (which becomes d1) and deserialized against ANY later state of the same
   dictionary (more puts, save/reload events) decodes to the same tree as against d1 itself *)
Lemma tree_codec_dict_stable : forall cap t d bs d1 ops,
  t_wfb t = true -> t_fitsb t = true ->
  tr_weight d + names_weight (t_minval cap t) t + ops_weight ops < two55 ->
  tc_serialize cap t d = (bs, d1) ->
  tc_deserialize (fold_left d_step ops d1) bs = tc_deserialize d1 bs /\
  tc_deserialize d1 bs = Some (t_retotal (t_prune (t_minval cap t) t)).
Proof.
  intros cap t d bs d1 ops Hwf Hfit Hb Hs.
  pose proof (dict_roundtrip cap t d bs d1 ops Hwf Hfit Hb Hs) as H1.
  assert (Hb0 : tr_weight d + names_weight (t_minval cap t) t + ops_weight [] < two55) by (cbn [ops_weight fold_right]; lia).
  pose proof (dict_roundtrip cap t d bs d1 [] Hwf Hfit Hb0 Hs) as H0. cbn [fold_left] in H0.
  split; [rewrite H1, H0; reflexivity|exact H0].
Qed.

(* below the cap, what a save + load of a stored tree yields (any t_wfb tree; t_prune 0 t itself when exact) *)
Lemma tree_reload_below_cap : forall cap t d bs d1 ops,
  t_wfb t = true -> t_fitsb t = true -> (t_size t <= cap)%nat ->
  tr_weight d + names_weight 0 t + ops_weight ops < two55 ->
  tc_serialize cap t d = (bs, d1) ->
  tc_deserialize (fold_left d_step ops d1) bs = Some (t_retotal (t_prune 0 t)).
Proof.
  intros cap t d bs d1 ops Hwf Hfit Hsz Hb Hs. pose proof (t_minval_fits cap t Hsz) as Hm.
  rewrite <- Hm. eapply dict_roundtrip; eauto. rewrite Hm. exact Hb.
Qed.

(* ---- stable decoding: the form in which the dictionary coupling is used by the cached-storage twin ---- *)
Definition decodes_stably (d : trie) (bs : bytes) (v : tnode) : Prop :=
  forall d'', dext d d'' -> tc_deserialize d'' bs = Some v.

Lemma dext_refl : forall d, dext d d. Proof. intros d k n H. exact H. Qed.
Lemma dext_trans : forall a b c, dext a b -> dext b c -> dext a c. Proof. intros a b c H1 H2 k n H. auto. Qed.

Lemma decodes_stably_mono : forall d d' bs v, dext d d' -> decodes_stably d bs v -> decodes_stably d' bs v.
Proof. intros d d' bs v H S d'' H'. apply S. eapply dext_trans; eauto. Qed.

Lemma decodes_stably_now : forall d bs v, decodes_stably d bs v -> tc_deserialize d bs = Some v.
Proof. intros d bs v S. apply S, dext_refl. Qed.

(* what Serialize leaves behind: a bigger dictionary and bytes that decode to retotal (prune th t) against that
   dictionary and against every extension of it *)
Lemma serialize_stable : forall cap t d bs d1,
  t_wfb t = true -> t_fitsb t = true ->
  tr_weight d + names_weight (t_minval cap t) t < two55 ->
  tc_serialize cap t d = (bs, d1) ->
  dext d d1 /\ tr_weight d1 <= tr_weight d + names_weight (t_minval cap t) t /\
  decodes_stably d1 bs (t_retotal (t_prune (t_minval cap t) t)).
Proof.
  intros cap t d bs d1 Hwf Hfit Hb Hs. unfold tc_serialize in Hs.
  destruct (ser_t_ok (t_minval cap t) t d Hfit Hb) as [kt [d' [Hs1 [He1 [Hw1 [Hf1 Hk1]]]]]].
  rewrite Hs1 in Hs. injection Hs as <- <-.
  split; [exact He1|]. split; [exact Hw1|].
  intros d'' He. unfold tc_deserialize.
  change (1 mod 128 :: ser_nd (t_minval cap t) kt) with (uvarint_enc 1 ++ ser_nd (t_minval cap t) kt).
  rewrite uvarint_roundtrip by (cbn; lia).
  apply parse_root_ser; [apply Hk1; exact He|exact Hwf|exact Hf1].
Qed.

Lemma d_put_dext : forall name t k t', tr_weight t + Nlen name < two63 -> d_put name t = (k, t') -> dext t t'.
Proof. intros name t k t' Hb Hp. destruct (d_put_spec name t k t' Hb Hp) as [_ [H _]]. exact H. Qed.
