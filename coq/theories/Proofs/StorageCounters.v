(* StorageCounters.v — consequences, at storage level, of the counters invariant of the segment tree
   (writes / samples counters of the nodes; builder "seg", Proofs/SegCount.v): the 'average' divisor for
   single-slot uploads (C01) and the entries of a 10 s timeline (C13).  The segment-level facts enter as
   named statements ([cover_writes_stmt], [leaves_stmt]) that are premises of the theorems here. *)
From Pyro Require Import Model.Base Model.Tree Model.Float53 Model.Segment Model.Timeline Model.Storage
  Proofs.TreeProofs Proofs.SegmentProofs Proofs.SegStruct Proofs.SegGet Proofs.SegStore Proofs.SegInv Proofs.SegRead Proofs.SegCanon Proofs.SegCount
  Proofs.Float53Proofs Proofs.StorageProofs Proofs.TimelineProofs.
From Coq Require Import ZifyN ZifyNat ZifyBool Lia.
Local Open Scope Z_scope.

Definition single_slot (ws : list write) : Prop := Forall (fun w => w_b w = w_a w + 1) ws.
Definition in_range (a b : Z) (x : Z) : bool := (a <=? x) && (x <? b).
Definition writes_in (a b : Z) (ws : list write) : N := N.of_nat (length (filter (fun w => in_range a b (w_a w)) ws)).

(* I_writes at the level of a read: for a history of single-slot writes the write counters of the buckets a
   read of [a,b) assembles add up to the number of writes that fall into [a,b) *)
Definition cover_writes_stmt : Prop :=
  forall K ws a b, Forall (valid_write K) ws -> single_slot ws -> a < b ->
    sumN (map gc_writes (s_get a b (fst (run_writes ws)))) = writes_in a b ws.

Definition single_put (K : Z) (pi : put_input) : Prop := exact_put K pi /\ snd (pi_ab pi) = fst (pi_ab pi) + 1.

Lemma sumN_app' l1 l2 : sumN (l1 ++ l2) = (sumN l1 + sumN l2)%N.
Proof. induction l1 as [|x l1 IH]; [reflexivity|]. cbn [app]. change (sumN (x :: ?l)) with (x + sumN l)%N. rewrite IH. lia. Qed.

Lemma cover_writes_sum a b m :
  cover_writes a b m = sumN (map (fun ks => sumN (map gc_writes (s_get a b (snd ks)))) m).
Proof.
  unfold cover_writes. induction m as [|ks m IH]; [reflexivity|]. cbn [flat_map map].
  rewrite sumN_app', IH. reflexivity.
Qed.

Lemma length_filter_map {A B} (f : B -> bool) (g : A -> B) l : length (filter f (map g l)) = length (filter (fun x => f (g x)) l).
Proof. induction l as [|x l IH]; [reflexivity|]. cbn [map filter]. destruct (f (g x)); cbn [length]; rewrite IH; reflexivity. Qed.

Lemma sum_indicator {A} (q : A -> bool) l : sumZ (map (fun x => if q x then 1 else 0) l) = Z.of_nat (length (filter q l)).
Proof.
  induction l as [|x l IH]; [reflexivity|]. cbn [map filter]. change (sumZ (?y :: ?r)) with (y + sumZ r). rewrite IH.
  destruct (q x); cbn [length]; lia.
Qed.

Lemma ws_valid K kb p pis : Forall (exact_put K) pis -> Forall (valid_write K) (ws kb p pis).
Proof.
  intros Hp. unfold ws. apply Forall_forall. intros w Hw. apply in_map_iff in Hw. destruct Hw as (pi & <- & Hpi).
  apply filter_In in Hpi. destruct Hpi as [Hpi _]. rewrite Forall_forall in Hp. destruct (Hp pi Hpi) as ((Hlt & _) & Hv & _).
  split; [exact Hv|]. cbn [pi_w w_beta]. apply Z.div_pos; lia.
Qed.

Lemma ws_single K kb p pis : Forall (single_put K) pis -> single_slot (ws kb p pis).
Proof.
  intros Hp. unfold ws, single_slot. apply Forall_forall. intros w Hw. apply in_map_iff in Hw. destruct Hw as (pi & <- & Hpi).
  apply filter_In in Hpi. destruct Hpi as [Hpi _]. rewrite Forall_forall in Hp. destruct (Hp pi Hpi) as [_ H]. exact H.
Qed.

Definition pi_in (a b : Z) (pi : put_input) : bool := in_range a b (fst (pi_ab pi)).

(* the divisor used for 'average' series = the number of uploads into matching series that fall into the range *)
Lemma cover_writes_uploads : cover_writes_stmt -> forall K pis sel a b,
  Forall (single_put K) pis -> key_consistent pis -> a < b ->
  Z.of_N (cover_writes a b (st_matching sel (st_after pis))) =
  Z.of_nat (length (filter (fun pi => sel_matches sel (pi_sid pi) && pi_in a b pi) pis)).
Proof.
  intros HW K pis sel a b Hp Hc Hab.
  assert (Hex : Forall (exact_put K) pis) by (eapply Forall_impl; [|exact Hp]; intros pi H; apply H).
  assert (Hgood : Forall good_put pis) by (eapply Forall_impl; [|exact Hex]; intros pi H; apply H).
  destruct (Inv_after [] pis Hgood) as (HR & _ & _). destruct (Inv2_after pis) as [HS _].
  rewrite cover_writes_sum, Z_of_sumN, map_map.
  transitivity (sumZ (map (fun ks => sumZ (map (fun pi => if pi_in a b pi then 1 else 0) (series_puts (sid_key (fst ks)) pis)))
                          (st_matching sel (st_after pis)))).
  - f_equal. apply map_ext_in. intros ks Hks. apply filter_In in Hks. destruct Hks as [Hks _].
    rewrite (s_get_root a b (snd ks) (fst (run_writes (ws (sid_key (fst ks)) [] pis)))).
    + rewrite (HW K) by (try apply ws_valid; try apply (ws_single K); assumption).
      unfold writes_in, ws. rewrite length_filter_map, sum_indicator, nat_N_Z. reflexivity.
    + rewrite <- HR. unfold root_of. rewrite (sorted_lookup _ HS ks Hks). reflexivity.
  - rewrite (regroup_puts (fun pi => if pi_in a b pi then 1 else 0) pis sel Hc), sum_indicator.
    f_equal. f_equal. clear. induction pis as [|pi pis IH]; [reflexivity|]. cbn [filter].
    destruct (sel_matches sel (pi_sid pi)); cbn [filter andb]; [destruct (pi_in a b pi); cbn [length]; rewrite IH; reflexivity|exact IH].
Qed.

(* C01_average_single_slot *)
Lemma average_single_slot : cover_writes_stmt -> forall K pis sel from until p,
  Forall (single_put K) pis -> key_consistent pis ->
  let ab := s_normalize_unix (from, until) in
  fst ab < snd ab ->
  has_average (st_matching sel (st_after pis)) = true ->
  let S := sumZ (map (contrib p (fst ab) (snd ab)) (filter (fun pi => sel_matches sel (pi_sid pi)) pis)) in
  let U := Z.of_nat (length (filter (fun pi => sel_matches sel (pi_sid pi) && pi_in (fst ab) (snd ab) pi) pis)) in
  match st_get sel from until (st_after pis) with
  | Some out => Z.of_N (t_self_at p (go_tree out)) = if 0 <? U then S / U else S
  | None => S = 0
  end.
Proof.
  intros HW K pis sel from until p Hp Hc ab Hab Havg S U.
  assert (Hex : Forall (exact_put K) pis) by (eapply Forall_impl; [|exact Hp]; intros pi H; apply H).
  assert (Hgood : Forall good_put pis) by (eapply Forall_impl; [|exact Hex]; intros pi H; apply H).
  pose proof (get_sum_avg p pis sel from until Hgood) as H. cbv zeta in H. fold ab in H.
  replace (sumZ (map (fun ks => series_read p pis (fst ab) (snd ab) (sid_key (fst ks))) (st_matching sel (st_after pis))))
    with S in H.
  2:{ unfold S. rewrite <- (regroup_puts (contrib p (fst ab) (snd ab)) pis sel Hc). f_equal.
      apply map_ext. intros ks. symmetry. apply (series_read_closed' K); assumption. }
  pose proof (cover_writes_uploads HW K pis sel (fst ab) (snd ab) Hp Hc Hab) as HU. fold U in HU.
  destruct (st_get sel from until (st_after pis)) as [out|]; [|exact H].
  rewrite H, Havg, andb_true_r, HU.
  replace (0 <? cover_writes (fst ab) (snd ab) (st_matching sel (st_after pis)))%N with (0 <? U) by lia. reflexivity.
Qed.

(* ------------------------------------------------------------------------------------------ *)
(* C13: entries of a 10 s timeline                                                              *)

Definition bump1 (x s : N) : N := ((if (x =? 0)%N then 1 else x) + s)%N.

Fixpoint leaf_at (t : Z) (L : list (Z * N)) : option N :=
  match L with
  | [] => None
  | (t', s) :: L' => if t' =? t then Some s else leaf_at t L'
  end.

(* the 10 s nodes of a well-formed tree, left to right, have strictly increasing slots inside the root bucket *)
Fixpoint chainL (lo hi : Z) (L : list (Z * N)) : Prop :=
  match L with
  | [] => lo <= hi
  | ts :: L' => lo <= fst ts /\ chainL (fst ts + 1) hi L'
  end.

Lemma chainL_le L : forall lo hi, chainL lo hi L -> lo <= hi.
Proof. induction L as [|ts L IH]; intros lo hi; cbn [chainL]; [auto|]. intros [H1 H2]. apply IH in H2. lia. Qed.

Lemma chainL_app L1 : forall lo mid hi L2, chainL lo mid L1 -> chainL mid hi L2 -> chainL lo hi (L1 ++ L2).
Proof.
  induction L1 as [|ts L1 IH]; intros lo mid hi L2 H1 H2; cbn [app chainL] in *.
  - destruct L2 as [|ts2 L2]; cbn [chainL] in *; [lia|]. destruct H2. split; [lia|assumption].
  - destruct H1 as [G1 G2]. split; [exact G1|]. eapply IH; eauto.
Qed.

Lemma chainL_weaken L : forall lo hi lo' hi', lo' <= lo -> hi <= hi' -> chainL lo hi L -> chainL lo' hi' L.
Proof.
  induction L as [|ts L IH]; intros lo hi lo' hi' H1 H2; cbn [chainL]; [lia|]. intros [G1 G2]. split; [lia|].
  eapply IH; [| |exact G2]; lia.
Qed.

Lemma leaves_chain : forall lvl n, wf lvl n -> chainL (sn_time n) (sn_time n + pow10 lvl) (leaves lvl n).
Proof.
  induction lvl as [|l IH]; intros [t p s w ch] Hwf; cbn [leaves sn_time sn_samples sn_ch].
  - cbn [chainL fst]. rewrite pow10_0. lia.
  - cbn [wf] in Hwf. destruct Hwf as (_ & Hlen & Hslots). rewrite pow10_S. pose proof (pow10_pos l) as Hp.
    replace (t + 10 * pow10 l) with (t + Z.of_nat (length ch) * pow10 l) by (rewrite Hlen; lia). clear Hlen.
    revert t Hslots. induction ch as [|o ch IHch]; intros t0 Hs; [cbn; lia|]. cbn [flat_map length]. cbn [slots] in Hs. destruct Hs as [Ho Hr].
    apply chainL_app with (mid := t0 + pow10 l).
    + destruct o as [c|]; [|cbn; lia]. destruct Ho as [Ht Hw]. rewrite <- Ht. apply IH, Hw.
    + replace (t0 + Z.of_nat (S (length ch)) * pow10 l) with (t0 + pow10 l + Z.of_nat (length ch) * pow10 l) by lia. apply IHch, Hr.
Qed.

Lemma chainL_leaf_none L : forall lo hi t, chainL lo hi L -> t < lo -> leaf_at t L = None.
Proof.
  induction L as [|[t' s] L IH]; intros lo hi t H Ht; [reflexivity|]. cbn [chainL fst] in H. destruct H as [H1 H2]. cbn [leaf_at].
  destruct (Z.eqb_spec t' t); [lia|]. eapply IH; [exact H2|lia].
Qed.

(* entry k after bumping with the leaves L: touched exactly when a leaf sits at slot a + k *)
Lemma fold_bump_nth a b : forall L lo hi buf k, chainL lo hi L -> (k < length buf)%nat -> a + Z.of_nat (length buf) <= b ->
  nth k (fold_left (bump_leaf a b) L buf) 0%N =
  match leaf_at (a + Z.of_nat k) L with Some s => bump1 (nth k buf 0%N) s | None => nth k buf 0%N end.
Proof.
  induction L as [|[t s] L IH]; intros lo hi buf k Hc Hk Hb; [reflexivity|]. cbn [chainL fst] in Hc. destruct Hc as [Hc1 Hc2].
  cbn [fold_left leaf_at]. unfold bump_leaf at 2. cbn [fst snd].
  destruct (Z.eqb_spec t (a + Z.of_nat k)) as [E|E].
  - replace ((a <=? t) && (t <? b)) with true by lia.
    rewrite (IH _ _ _ _ Hc2) by (rewrite ?bump_range_length; assumption).
    rewrite (chainL_leaf_none L _ _ _ Hc2) by lia.
    rewrite bump_range_nth by exact Hk. replace (0 + Z.of_nat k =? t - a) with true by lia. reflexivity.
  - destruct ((a <=? t) && (t <? b)).
    + rewrite (IH _ _ _ _ Hc2) by (rewrite ?bump_range_length; assumption).
      rewrite bump_range_nth by exact Hk. replace (0 + Z.of_nat k =? t - a) with false by lia. reflexivity.
    + apply (IH _ _ _ _ Hc2); assumption.
Qed.

(* ------------------------------------------------------------------------------------------ *)
(* closing [cover_writes_stmt] from the counters invariant (SegCount.winv) and the completeness of
   children (SegCanon.cinv)                                                                      *)

Definition ind (q : bool) : Z := if q then 1 else 0.
Definition cntZ (H : list write) (lo hi : Z) : Z := sumZ (map (fun w => ind (in_range lo hi (w_a w))) H).

Lemma cntZ_cons w H lo hi : cntZ (w :: H) lo hi = ind (in_range lo hi (w_a w)) + cntZ H lo hi.
Proof. reflexivity. Qed.

Lemma cntZ_nonneg H lo hi : 0 <= cntZ H lo hi.
Proof. induction H as [|w H IH]; [cbn; lia|]. rewrite cntZ_cons. unfold ind. destruct (in_range _ _ _); lia. Qed.

Lemma cntZ_mono H lo hi lo' hi' : lo' <= lo -> hi <= hi' -> cntZ H lo hi <= cntZ H lo' hi'.
Proof.
  intros H1 H2. induction H as [|w H IH]; [cbn; lia|]. rewrite !cntZ_cons. unfold ind, in_range.
  destruct ((lo <=? w_a w) && (w_a w <? hi)) eqn:E1, ((lo' <=? w_a w) && (w_a w <? hi')) eqn:E2; lia.
Qed.

Lemma cntZ_join H t0 m T a b : t0 <= m -> m <= T ->
  cntZ H (Z.max t0 a) (Z.min m b) + cntZ H (Z.max m a) (Z.min T b) = cntZ H (Z.max t0 a) (Z.min T b).
Proof.
  intros H1 H2. induction H as [|w H IH]; [reflexivity|]. rewrite !cntZ_cons, <- IH. unfold ind, in_range.
  destruct ((Z.max t0 a <=? w_a w) && (w_a w <? Z.min m b)) eqn:E1, ((Z.max m a <=? w_a w) && (w_a w <? Z.min T b)) eqn:E2,
           ((Z.max t0 a <=? w_a w) && (w_a w <? Z.min T b)) eqn:E3; lia.
Qed.

Lemma cntZ_empty H lo hi : hi <= lo -> cntZ H lo hi = 0.
Proof.
  intros Hle. induction H as [|w H IH]; [reflexivity|]. rewrite cntZ_cons, IH. unfold ind, in_range.
  destruct ((lo <=? w_a w) && (w_a w <? hi)) eqn:E; lia.
Qed.

Lemma nmeet_cntZ H lvl t : single_slot H -> Z.of_N (nmeet H lvl t) = cntZ H t (t + pow10 lvl).
Proof.
  intros Hs. unfold nmeet. rewrite nat_N_Z, <- sum_indicator. unfold cntZ. f_equal.
  apply map_ext_in. intros w Hw. unfold single_slot in Hs. rewrite Forall_forall in Hs. specialize (Hs w Hw).
  unfold ind, meets, in_range. rewrite Hs.
  destruct ((w_a w <? t + pow10 lvl) && (t <? w_a w + 1)) eqn:E1, ((t <=? w_a w) && (w_a w <? t + pow10 lvl)) eqn:E2; lia.
Qed.

Lemma nohit_cntZ H t0 t1 : single_slot H -> ~ hit H t0 t1 -> cntZ H t0 t1 = 0.
Proof.
  intros Hs Hn. unfold cntZ. apply sumZ_map_zero. intros w Hw. unfold ind, in_range.
  destruct ((t0 <=? w_a w) && (w_a w <? t1)) eqn:E; [|reflexivity]. exfalso. apply Hn. exists w. split; [exact Hw|].
  unfold single_slot in Hs. rewrite Forall_forall in Hs. specialize (Hs w Hw). lia.
Qed.

Lemma cntZ_clip_zero H t0 t1 a b : cntZ H t0 t1 = 0 -> cntZ H (Z.max t0 a) (Z.min t1 b) = 0.
Proof.
  intros Hz. pose proof (cntZ_mono H (Z.max t0 a) (Z.min t1 b) t0 t1 ltac:(lia) ltac:(lia)).
  pose proof (cntZ_nonneg H (Z.max t0 a) (Z.min t1 b)). lia.
Qed.

Lemma get_writes_cnt H a b : a < b -> single_slot H -> forall lvl n, wf lvl n -> cinv H lvl n -> winv H lvl n ->
  Z.of_N (sumN (map gc_writes (s_get_node lvl a b n))) = cntZ H (Z.max (sn_time n) a) (Z.min (sn_time n + pow10 lvl) b).
Proof.
  intros Hab Hs. induction lvl as [|l IH]; intros [t p s w ch] Hwf Hc Hw; rewrite get_node_unfold; cbv zeta; cbn [sn_time];
    destruct (winv_fields _ _ _ _ _ _ _ Hw) as [Ew _].
  - pose proof (rel_unit t a b Hab) as Hu. rewrite pow10_0 in *.
    pose proof (rel_spec t (t + 1) a b ltac:(lia) Hab) as Hr.
    cbn [wf] in Hwf. destruct Hwf as [_ ->]. cbn [length Nat.eqb]. rewrite andb_true_r.
    pose proof (nmeet_cntZ H 0 t Hs) as Hn. rewrite pow10_0 in Hn.
    destruct (relationship t (t + 1) a b) eqn:Er; cbn [covers is_outside]; try contradiction.
    + (* Match *) destruct p; cbn [andb map sumN fold_right gc_writes].
      * rewrite N.add_0_r, Ew, Hn. f_equal; lia.
      * cbn [cinv] in Hc. change (Z.of_N 0) with 0. symmetry. apply cntZ_clip_zero, nohit_cntZ; [exact Hs|].
        intros Hh. specialize (Hc Hh). discriminate.
    + (* Outside *) rewrite andb_false_r. cbn [map sumN fold_right]. symmetry. apply cntZ_empty. lia.
    + (* Contain *) destruct p; cbn [andb map sumN fold_right gc_writes].
      * rewrite N.add_0_r, Ew, Hn. f_equal; lia.
      * cbn [cinv] in Hc. change (Z.of_N 0) with 0. symmetry. apply cntZ_clip_zero, nohit_cntZ; [exact Hs|].
        intros Hh. specialize (Hc Hh). discriminate.
  - pose proof (pow10_pos (S l)) as HpS. pose proof (pow10_pos l) as Hp.
    pose proof (rel_spec t (t + pow10 (S l)) a b ltac:(lia) Hab) as Hr.
    cbn [wf] in Hwf. destruct Hwf as (_ & Hlen & Hslots). rewrite Hlen. cbn [Nat.eqb]. rewrite andb_false_r.
    cbn [cinv] in Hc. cbn [winv] in Hw. destruct Hw as (_ & _ & Hwch).
    assert (Hch : Z.of_N (sumN (map gc_writes (flat_map (get_child l a b) ch))) =
                  cntZ H (Z.max t a) (Z.min (t + Z.of_nat (length ch) * pow10 l) b)).
    { clear Hlen Hr Ew. revert t Hslots Hc. induction ch as [|o ch IHch]; intros t0 Hsl Hq.
      - cbn [flat_map map sumN fold_right length]. symmetry. apply cntZ_empty. lia.
      - cbn [flat_map length]. rewrite map_app, sumN_app', N2Z.inj_add. cbn [slots qslots] in Hsl, Hq.
        destruct Hsl as [Ho Hsr]. destruct Hq as [Hqo Hqr]. inversion Hwch as [|? ? Hwo Hwr]; subst.
        rewrite (IHch Hwr (t0 + pow10 l) Hsr Hqr).
        replace (t0 + pow10 l + Z.of_nat (length ch) * pow10 l) with (t0 + Z.of_nat (S (length ch)) * pow10 l) by lia.
        rewrite <- (cntZ_join H t0 (t0 + pow10 l) (t0 + Z.of_nat (S (length ch)) * pow10 l) a b) by lia. f_equal.
        destruct o as [c|]; cbn [get_child].
        + destruct Ho as [Ht Hwc]. rewrite (IH c Hwc Hqo Hwo), Ht. reflexivity.
        + cbn [map sumN fold_right]. symmetry. apply cntZ_clip_zero, nohit_cntZ; assumption. }
    rewrite Hlen in Hch. replace (t + Z.of_nat 10 * pow10 l) with (t + pow10 (S l)) in Hch by (rewrite pow10_S; lia).
    destruct (relationship t (t + pow10 (S l)) a b) eqn:Er; cbn [covers is_outside]; rewrite ?andb_false_r; try exact Hch.
    + destruct p; cbn [andb]; [|exact Hch]. cbn [map sumN fold_right gc_writes]. rewrite N.add_0_r, Ew, (nmeet_cntZ H (S l) t Hs). f_equal; lia.
    + cbn [map sumN fold_right]. symmetry. apply cntZ_empty. lia.
    + destruct p; cbn [andb]; [|exact Hch]. cbn [map sumN fold_right gc_writes]. rewrite N.add_0_r, Ew, (nmeet_cntZ H (S l) t Hs). f_equal; lia.
Qed.

Lemma single_short ws : single_slot ws -> Forall (fun w => w_b w - w_a w < 10) ws.
Proof. intros H. eapply Forall_impl; [|exact H]. cbn. intros w E. lia. Qed.

Lemma cntZ_rev H lo hi : cntZ (rev H) lo hi = cntZ H lo hi.
Proof. unfold cntZ. rewrite map_rev. apply sumZ_rev. Qed.

(* the invariants of the reached tree, for the history in application order reversed (as SegInv has it) *)
Lemma run_invs K ws : Forall (valid_write K) ws -> single_slot ws ->
  match s_root (fst (run_writes ws)) with
  | None => ws = []
  | Some (lvl, n) => wf lvl n /\ cinv (rev ws) lvl n /\ winv (rev ws) lvl n /\ hist_in lvl (sn_time n) (rev ws)
  end.
Proof.
  intros Hv Hs. pose proof (single_short ws Hs) as Hsh.
  pose proof (run_root K ws Hv) as HR.
  assert (Hs0 : sinv K s_empty store0 []) by (unfold sinv; cbn; split; reflexivity).
  pose proof (run_cinv K ws s_empty store0 [] Hv Hsh Hs0 I) as HC. rewrite app_nil_r in HC. fold (run_writes ws) in HC.
  destruct (seg_counters_exact K ws Hv Hsh) as [HW _].
  unfold root_cinv, root_winv in *. destruct (s_root (fst (run_writes ws))) as [[lvl n]|]; [|exact HR].
  destruct HR as (Hwf & _ & _ & Hh). split; [exact Hwf|]. split; [exact HC|]. split; [|exact Hh].
  apply winv_rev. rewrite rev_involutive. exact HW.
Qed.

Theorem cover_writes_holds : cover_writes_stmt.
Proof.
  intros K ws a b Hv Hs Hab. pose proof (run_invs K ws Hv Hs) as HI. unfold s_get.
  destruct (s_root (fst (run_writes ws))) as [[lvl n]|]; [|subst ws; reflexivity].
  destruct HI as (Hwf & Hc & Hw & Hh).
  assert (Hs' : single_slot (rev ws)) by (apply Forall_rev, Hs).
  apply N2Z.inj. rewrite (get_writes_cnt (rev ws) a b Hab Hs' lvl n Hwf Hc Hw).
  transitivity (cntZ (rev ws) a b).
  - unfold cntZ. f_equal.
    apply map_ext_in. intros w Hin. unfold hist_in in Hh. rewrite Forall_forall in Hh. destruct (Hh w Hin) as ((G1 & _) & G2 & G3).
    unfold single_slot in Hs'. rewrite Forall_forall in Hs'. specialize (Hs' w Hin). unfold ind, in_range.
    destruct ((Z.max (sn_time n) a <=? w_a w) && (w_a w <? Z.min (sn_time n + pow10 lvl) b)) eqn:E1, ((a <=? w_a w) && (w_a w <? b)) eqn:E2; lia.
  - rewrite cntZ_rev. unfold writes_in. rewrite nat_N_Z, <- sum_indicator. reflexivity.
Qed.

(* C01_average_single_slot, closed *)
Lemma average_single_slot_closed K pis sel from until p :
  Forall (single_put K) pis -> key_consistent pis ->
  let ab := s_normalize_unix (from, until) in
  fst ab < snd ab ->
  has_average (st_matching sel (st_after pis)) = true ->
  let S := sumZ (map (contrib p (fst ab) (snd ab)) (filter (fun pi => sel_matches sel (pi_sid pi)) pis)) in
  let U := Z.of_nat (length (filter (fun pi => sel_matches sel (pi_sid pi) && pi_in (fst ab) (snd ab) pi) pis)) in
  match st_get sel from until (st_after pis) with
  | Some out => Z.of_N (t_self_at p (go_tree out)) = if 0 <? U then S / U else S
  | None => S = 0
  end.
Proof. exact (average_single_slot cover_writes_holds K pis sel from until p). Qed.

(* ------------------------------------------------------------------------------------------ *)
(* every node of a tree reached by single-slot writes was met by at least one write              *)

Fixpoint posw (lvl : nat) (n : snode) {struct lvl} : Prop :=
  match n with
  | SNode _ _ _ w ch => (1 <= w)%N /\ match lvl with O => True | S l => oall (posw l) ch end
  end.

Definition fresh_met (a b : Z) (lvl : nat) (n : snode) : Prop :=
  n = new_node (sn_time n) lvl /\ is_outside (relationship (sn_time n) (sn_time n + pow10 lvl) a b) = false.

Lemma fill_children_cases l base a b : forall ch i c, In (Some c) (fill_children l base a b i ch) ->
  In (Some c) ch \/ fresh_met a b l c.
Proof.
  induction ch as [|o ch IH]; intros i c H; [destruct H|]. cbn [fill_children] in H. destruct H as [H|H].
  - destruct o as [c0|]; [left; left; exact H|].
    destruct (is_outside (relationship (base + i * pow10 l) (base + i * pow10 l + pow10 l) a b)) eqn:E; [discriminate|].
    injection H as <-. right. split; [reflexivity|]. cbn [new_node sn_time]. exact E.
  - destruct (IH _ _ H); [left; right; assumption|right; assumption].
Qed.

Lemma put_node_posw a b smp : forall lvl n, posw lvl n \/ fresh_met a b lvl n -> posw lvl (fst (s_put_node lvl a b smp n)).
Proof.
  induction lvl as [|l IH]; intros [t p s w ch] HQ.
  - rewrite put_node_unfold_0. cbv zeta. destruct (is_outside _) eqn:E; cbn [fst].
    + destruct HQ as [H|[_ H]]; [exact H|]. cbn [sn_time] in H. congruence.
    + cbn [posw]. split; [lia|exact I].
  - rewrite put_node_unfold_S. cbv zeta. destruct (is_outside _) eqn:E; cbn [fst].
    + destruct HQ as [H|[_ H]]; [exact H|]. cbn [sn_time] in H. congruence.
    + cbn [posw]. split; [lia|].
      assert (Hch : forall c, In (Some c) ch -> posw l c).
      { intros c Hc. destruct HQ as [[_ H]|[H _]]; [exact (oall_In _ _ _ H Hc)|].
        cbn [sn_time new_node] in H. inversion H; subst. cbn [In] in Hc. repeat (destruct Hc as [Hc|Hc]; [discriminate|]). destruct Hc. }
      apply oall_put_children_in. intros c Hc. apply IH.
      destruct (creates _); [|left; apply Hch, Hc].
      destruct (fill_children_cases _ _ _ _ _ _ _ Hc) as [H|H]; [left; apply Hch, H|right; exact H].
Qed.

Lemma grow_loop_posw a b : forall fuel lvl n, posw lvl n ->
  posw (fst (s_grow_loop fuel a b lvl n)) (snd (s_grow_loop fuel a b lvl n)).
Proof.
  induction fuel as [|f IH]; intros lvl n H; cbn [s_grow_loop].
  - destruct (relationship _ _ a b); exact H.
  - destruct (relationship _ _ a b); try exact H;
      (destruct (sn_replace lvl _ n) as [root1|] eqn:E; [|exact H]; apply IH;
       unfold sn_replace in E; destruct (replace_idx _ _ _ <? 0); [discriminate|];
       destruct (list_set _ (Some n) (repeat None 10)) as [ch'|] eqn:El; [|discriminate]; injection E as <-;
       cbn [posw]; split; [destruct n as [t0 p0 s0 w0 ch0]; cbn [sn_writes]; destruct lvl; cbn [posw] in H; apply H
                          |eapply list_set_oall; [exact H|exact El]]).
Qed.

Definition root_posw (s : segment) : Prop := match s_root s with Some (lvl, n) => posw lvl n | None => True end.

Lemma s_put_posw a smp s : root_posw s -> root_posw (fst (s_put a (a + 1) smp s)).
Proof.
  intros H. unfold s_put, root_posw in *.
  assert (G : match s_root (s_grow a (a + 1) s) with
              | Some (lvl, n) => posw lvl n \/ fresh_met a (a + 1) lvl n | None => True end).
  { unfold s_grow. destruct (s_root s) as [[lvl n]|]; cbn [s_root].
    - pose proof (grow_loop_posw (Z.min a (sn_time n)) (Z.max (a + 1) (sn_time n + pow10 lvl)) (max_level - lvl) lvl n H) as G.
      destruct (s_grow_loop _ _ _ lvl n). left. exact G.
    - (* empty segment: the fresh level-0 node matches the single-slot write, the loop stops at once *)
      unfold max_level. cbn [s_grow_loop new_node sn_time]. rewrite pow10_0.
      assert (E : relationship a (a + 1) a (a + 1) = Match) by (unfold relationship; rewrite !Z.eqb_refl; reflexivity).
      rewrite E. right. split; [reflexivity|]. cbn [new_node sn_time]. rewrite pow10_0, E. reflexivity. }
  destruct (s_root (s_grow a (a + 1) s)) as [[lvl n]|] eqn:E; [|cbn [fst]; rewrite E; exact I].
  pose proof (put_node_posw a (a + 1) smp lvl n G) as P. destruct (s_put_node lvl a (a + 1) smp n). exact P.
Qed.

Lemma run_posw ws : single_slot ws -> root_posw (fst (run_writes ws)).
Proof.
  intros Hs. induction ws as [|w ws IH] using rev_ind; [exact I|].
  apply Forall_app in Hs. destruct Hs as [H1 H2]. inversion H2 as [|? ? Hw _]; subst.
  rewrite run_writes_snoc, put_step_eq. cbn [fst]. rewrite Hw. apply s_put_posw, IH, H1.
Qed.

(* ------------------------------------------------------------------------------------------ *)
(* the 10 s nodes of the reached tree: one per slot that some upload covers, counter = sum of samples *)

Lemma cinv_rev' : forall lvl n H, cinv (rev H) lvl n -> cinv H lvl n.
Proof.
  induction lvl as [|l IH]; intros [t p s w ch] H; cbn [cinv].
  - intros Hc Hh. apply Hc, hit_rev, Hh.
  - generalize t. induction ch as [|o ch IHch]; intros t0; cbn [qslots]; [auto|]. intros [Ho Hr]. split; [|apply IHch, Hr].
    destruct o as [c|]; [apply IH, Ho|]. intros Hh. apply Ho, hit_rev, Hh.
Qed.

Lemma leaf_in_counters H : forall lvl n, winv H lvl n -> posw lvl n -> forall t s, In (t, s) (leaves lvl n) ->
  s = ssum H 0 t /\ (1 <= nmeet H 0 t)%N.
Proof.
  induction lvl as [|l IH]; intros [t0 p s0 w ch] Hw Hp t s Hin; cbn [leaves sn_time sn_samples sn_ch] in Hin.
  - destruct Hin as [E|[]]. injection E as <- <-. destruct (winv_fields _ _ _ _ _ _ _ Hw) as [E1 E2]. cbn [posw] in Hp. split; [exact E2|lia].
  - apply in_flat_map in Hin. destruct Hin as ([c|] & Hc & Hin); [|destruct Hin].
    cbn [winv] in Hw. destruct Hw as (_ & _ & Hw). cbn [posw] in Hp. destruct Hp as [_ Hp].
    exact (IH c (oall_In _ _ _ Hw Hc) (oall_In _ _ _ Hp Hc) t s Hin).
Qed.

Lemma leaf_at_in t L s : leaf_at t L = Some s -> In (t, s) L.
Proof.
  induction L as [|[t' s'] L IH]; cbn [leaf_at]; [discriminate|]. destruct (Z.eqb_spec t' t) as [->|].
  - intros [= ->]. left. reflexivity.
  - intros H. right. apply IH, H.
Qed.

Lemma leaf_at_app_l t L1 L2 : leaf_at t L1 <> None -> leaf_at t (L1 ++ L2) <> None.
Proof.
  induction L1 as [|[t' s'] L1 IH]; cbn [leaf_at app]; [congruence|]. destruct (t' =? t); [discriminate|exact IH].
Qed.

Lemma leaf_at_app_r t L1 L2 : Forall (fun ts => fst ts <> t) L1 -> leaf_at t (L1 ++ L2) = leaf_at t L2.
Proof.
  induction 1 as [|[t' s'] L1 Hx _ IH]; [reflexivity|]. cbn [app leaf_at]. cbn [fst] in Hx.
  destruct (Z.eqb_spec t' t); [contradiction|exact IH].
Qed.

Lemma leaf_at_hit H : forall lvl n t, wf lvl n -> cinv H lvl n -> sn_time n <= t < sn_time n + pow10 lvl ->
  hit H t (t + 1) -> leaf_at t (leaves lvl n) <> None.
Proof.
  induction lvl as [|l IH]; intros [t0 p s w ch] t Hwf Hc Ht Hh; cbn [sn_time] in Ht; cbn [leaves sn_time sn_samples sn_ch].
  - rewrite pow10_0 in Ht. cbn [leaf_at]. replace (t0 =? t) with true by lia. discriminate.
  - cbn [wf] in Hwf. destruct Hwf as (_ & Hlen & Hslots). cbn [cinv] in Hc. pose proof (pow10_pos l) as Hp.
    rewrite pow10_S in Ht. replace (10 * pow10 l) with (Z.of_nat (length ch) * pow10 l) in Ht by (rewrite Hlen; lia). clear Hlen.
    revert t0 Ht Hslots Hc. induction ch as [|o ch IHch]; intros t0 Ht Hsl Hq; [cbn [length] in Ht; lia|].
    cbn [flat_map slots qslots length] in *. destruct Hsl as [Ho Hsr]. destruct Hq as [Hqo Hqr].
    destruct (Z.lt_ge_cases t (t0 + pow10 l)) as [Hin|Hout].
    + destruct o as [c|].
      * destruct Ho as [Htc Hwc]. apply leaf_at_app_l. apply IH; [exact Hwc|exact Hqo|rewrite Htc; lia|exact Hh].
      * exfalso. apply Hqo. eapply hit_mono; [| |exact Hh]; lia.
    + rewrite leaf_at_app_r.
      * apply (IHch (t0 + pow10 l)); [lia|exact Hsr|exact Hqr].
      * destruct o as [c|]; [|constructor]. destruct Ho as [Htc Hwc].
        pose proof (leaves_bounds l c Hwc) as B. eapply Forall_impl; [|exact B]. cbn. intros ts G. rewrite Htc in G. lia.
Qed.

Definition at_slot (t : Z) (ws : list write) : list write := filter (fun w => w_a w =? t) ws.
Definition smp_sum (l : list write) : N := sumN (map w_smp l).

Lemma sumN'_sumN l : sumN' l = sumN l.
Proof. reflexivity. Qed.

Lemma meets0_slot ws t : single_slot ws -> filter (meets 0 t) ws = at_slot t ws.
Proof.
  intros Hs. unfold at_slot. induction Hs as [|w ws Hw _ IH]; [reflexivity|]. cbn [filter]. rewrite IH.
  replace (meets 0 t w) with (w_a w =? t); [reflexivity|]. unfold meets. rewrite pow10_0, Hw. lia.
Qed.

Definition acc_entry (x : N) (l : list write) : N := match l with [] => x | _ => bump1 x (smp_sum l) end.

(* one series bumps entry k of a 10 s timeline by the samples of its uploads at slot a + k *)
Lemma entries_series_gen K ws tl : Forall (valid_write K) ws -> single_slot ws ->
  Forall (fun w => (w_smp w < 2 ^ 53)%N) ws -> tl_st tl < tl_et tl -> tl_lvl tl = O ->
  tl_st tl + Z.of_nat (length (tl_samples tl)) <= tl_et tl ->
  forall k, (k < length (tl_samples tl))%nat ->
  nth k (tl_samples (tl_populate (fst (run_writes ws)) tl)) 0%N =
  acc_entry (nth k (tl_samples tl) 0%N) (at_slot (tl_st tl + Z.of_nat k) ws).
Proof.
  intros Hv Hs Hsmp Hab Hlvl Hlen k Hk. set (a := tl_st tl) in *. set (b := tl_et tl) in *.
  pose proof (run_invs K ws Hv Hs) as HI. pose proof (run_posw ws Hs) as HP.
  destruct (seg_counters_exact K ws Hv (single_short ws Hs)) as [HW _].
  unfold tl_populate, root_posw, root_winv in *.
  destruct (s_root (fst (run_writes ws))) as [[lvl n]|].
  - destruct HI as (Hwf & Hc & _ & Hh). apply cinv_rev' in Hc. cbn [tl_samples]. rewrite Hlvl. fold a b.
    rewrite (populate_leaves lvl a b n _ Hab Hwf).
    rewrite (fold_bump_nth a b _ _ _ _ k (leaves_chain lvl n Hwf) Hk Hlen).
    set (t := a + Z.of_nat k).
    destruct (leaf_at t (leaves lvl n)) as [s|] eqn:El.
    + apply leaf_at_in in El. destruct (leaf_in_counters ws lvl n HW HP t s El) as [Es En].
      unfold nmeet in En. unfold ssum in Es. rewrite (meets0_slot ws t Hs) in En, Es.
      destruct (at_slot t ws) as [|w0 l0] eqn:Ea; [cbn in En; lia|]. unfold acc_entry. f_equal. rewrite Es.
      rewrite sumN'_sumN. unfold smp_sum. f_equal. apply map_ext_in. intros w Hw.
      assert (Hin : In w ws /\ w_a w = t).
      { rewrite <- Ea in Hw. unfold at_slot in Hw. apply filter_In in Hw. destruct Hw as [G1 G2]. split; [exact G1|lia]. }
      destruct Hin as [Hin Et]. rewrite Forall_forall in Hsmp. unfold single_slot in Hs. rewrite Forall_forall in Hs.
      apply wincr_single_slot; [apply Hs, Hin|apply Hsmp, Hin|]. unfold meets. rewrite pow10_0, (Hs w Hin). lia.
    + destruct (at_slot t ws) as [|w0 l0] eqn:Ea; [reflexivity|]. exfalso.
      assert (Hin : In w0 ws /\ w_a w0 = t).
      { assert (G : In w0 (at_slot t ws)) by (rewrite Ea; left; reflexivity). unfold at_slot in G. apply filter_In in G. destruct G as [G1 G2]. split; [exact G1|lia]. }
      destruct Hin as [Hin Et]. unfold single_slot in Hs. rewrite Forall_forall in Hs. pose proof (Hs w0 Hin) as Hb.
      unfold hist_in in Hh. rewrite Forall_forall in Hh. destruct (Hh w0 (proj1 (in_rev ws w0) Hin)) as (_ & G2 & G3).
      apply (leaf_at_hit ws lvl n t Hwf Hc); [lia| |exact El]. exists w0. split; [exact Hin|lia].
  - subst ws. reflexivity.
Qed.

(* C13_entries for one series and 10 s buckets, from the empty timeline *)
Lemma entries_single_series K ws a b : Forall (valid_write K) ws -> single_slot ws ->
  Forall (fun w => (w_smp w < 2 ^ 53)%N) ws -> a < b -> tl_lvl (tl_generate a b) = O ->
  forall k, (k < Z.to_nat (b - a))%nat ->
  nth k (tl_samples (tl_populate (fst (run_writes ws)) (tl_generate a b))) 0%N =
  match at_slot (a + Z.of_nat k) ws with
  | [] => 0%N
  | l => (1 + smp_sum l)%N
  end.
Proof.
  intros Hv Hs Hsmp Hab Hlvl k Hk.
  assert (Hlen : length (tl_samples (tl_generate a b)) = Z.to_nat (b - a)).
  { rewrite tl_generate_length, Hlvl, pow10_0, Z.quot_1_r. reflexivity. }
  assert (Hz : forall j, nth j (tl_samples (tl_generate a b)) 0%N = 0%N).
  { intros j. unfold tl_generate. cbn [tl_samples]. generalize (Z.to_nat (Z.quot (b - a) (pow10 (pick_level [0; 1; 2; 3; 4; 5; 6; 7; 8]%nat (Z.quot ((b - a) * ns_per_slot) 1024) 0)))).
    intros m. revert j. induction m as [|m IHm]; intros [|j]; cbn [repeat nth]; auto. }
  rewrite (entries_series_gen K ws (tl_generate a b) Hv Hs Hsmp) by (cbn [tl_generate tl_st tl_et]; try assumption; rewrite ?Hlen; lia).
  rewrite Hz. change (tl_st (tl_generate a b)) with a. unfold acc_entry, bump1. destruct (at_slot _ ws); reflexivity.
Qed.

(* ------------------------------------------------------------------------------------------ *)
(* C13_entries at storage level: several matching series                                        *)

Lemma smp_sum_app l1 l2 : smp_sum (l1 ++ l2) = (smp_sum l1 + smp_sum l2)%N.
Proof. unfold smp_sum. rewrite map_app. apply sumN_app'. Qed.

Definition entry_of (l : list write) : N := match l with [] => 0%N | _ => (1 + smp_sum l)%N end.

Lemma acc_fold Ls : forall pre, fold_left acc_entry Ls (entry_of pre) = entry_of (pre ++ concat Ls).
Proof.
  induction Ls as [|L Ls IH]; intros pre; cbn [fold_left concat]; [rewrite app_nil_r; reflexivity|].
  rewrite app_assoc, <- IH. f_equal. destruct L as [|w L]; [rewrite app_nil_r; reflexivity|].
  unfold acc_entry, bump1. destruct pre as [|w0 pre].
  - cbn [entry_of app N.eqb]. reflexivity.
  - change (entry_of ((w0 :: pre) ++ w :: L)) with (1 + smp_sum ((w0 :: pre) ++ (w :: L)))%N. rewrite smp_sum_app.
    cbn [entry_of]. replace ((1 + smp_sum (w0 :: pre) =? 0)%N) with false by lia. lia.
Qed.

Lemma tl_populate_root s1 s2 tl : s_root s1 = s_root s2 -> tl_populate s1 tl = tl_populate s2 tl.
Proof. unfold tl_populate. intros ->. reflexivity. Qed.

Lemma entries_fold K (W : sid * segment -> list write) m : forall tl,
  (forall ks, In ks m -> s_root (snd ks) = s_root (fst (run_writes (W ks))) /\ Forall (valid_write K) (W ks) /\
                         single_slot (W ks) /\ Forall (fun w => (w_smp w < 2 ^ 53)%N) (W ks)) ->
  tl_st tl < tl_et tl -> tl_lvl tl = O -> tl_st tl + Z.of_nat (length (tl_samples tl)) <= tl_et tl ->
  forall k, (k < length (tl_samples tl))%nat ->
  nth k (tl_samples (fold_left (fun tl ks => tl_populate (snd ks) tl) m tl)) 0%N =
  fold_left acc_entry (map (fun ks => at_slot (tl_st tl + Z.of_nat k) (W ks)) m) (nth k (tl_samples tl) 0%N).
Proof.
  induction m as [|ks m IH]; intros tl HW Hab Hlvl Hlen k Hk; [reflexivity|]. cbn [fold_left map].
  destruct (HW ks (or_introl eq_refl)) as (Hr & Hv & Hs & Hsmp).
  rewrite (tl_populate_root _ _ tl Hr).
  destruct (tl_populate_shape (fst (run_writes (W ks))) tl) as (G1 & G2 & G3).
  pose proof (tl_populate_length (fst (run_writes (W ks))) tl) as G4.
  rewrite IH; rewrite ?G1, ?G2, ?G3, ?G4; try assumption.
  - rewrite (entries_series_gen K (W ks) tl Hv Hs Hsmp Hab Hlvl Hlen k Hk). reflexivity.
  - intros x Hx. apply HW. right. exact Hx.
Qed.

Definition small_total (pi : put_input) : Prop := (t_total (pi_tree pi) < 2 ^ 53)%N.

Lemma timeline_entries K pis sel from until out :
  Forall (single_put K) pis -> Forall small_total pis ->
  let ab := s_normalize_unix (from, until) in
  fst ab < snd ab -> tl_lvl (tl_generate (fst ab) (snd ab)) = O ->
  st_get sel from until (st_after pis) = Some out ->
  tl_st (go_timeline out) = fst ab /\ length (tl_samples (go_timeline out)) = Z.to_nat (snd ab - fst ab) /\
  forall k, (k < Z.to_nat (snd ab - fst ab))%nat ->
    nth k (tl_samples (go_timeline out)) 0%N =
    entry_of (concat (map (fun ks => at_slot (fst ab + Z.of_nat k) (ws (sid_key (fst ks)) [] pis)) (st_matching sel (st_after pis)))).
Proof.
  intros Hp Hsm ab Hab Hlvl Hget.
  assert (Hex : Forall (exact_put K) pis) by (eapply Forall_impl; [|exact Hp]; intros pi H; apply H).
  assert (Hgood : Forall good_put pis) by (eapply Forall_impl; [|exact Hex]; intros pi H; apply H).
  destruct (Inv_after [] pis Hgood) as (HR & _ & _). destruct (Inv2_after pis) as [HS _].
  rewrite st_get_eq in Hget. cbv zeta in Hget. fold ab in Hget. destruct (merge_serial _); [|discriminate].
  injection Hget as <-. cbn [go_timeline].
  set (m := st_matching sel (st_after pis)). set (tl0 := tl_generate (fst ab) (snd ab)).
  assert (Hlen : length (tl_samples tl0) = Z.to_nat (snd ab - fst ab)).
  { unfold tl0. rewrite tl_generate_length, Hlvl, pow10_0, Z.quot_1_r. reflexivity. }
  destruct (tl_populate_all_shape (map snd m) tl0) as (S1 & _ & _ & S4). cbn zeta in S1, S4.
  assert (Efold : forall tl, fold_left (fun tl s => tl_populate s tl) (map snd m) tl = fold_left (fun tl ks => tl_populate (snd ks) tl) m tl).
  { clear. induction m as [|ks m IH]; intros tl; [reflexivity|]. cbn [map fold_left]. apply IH. }
  rewrite Efold in S1, S4. split; [exact S1|]. split; [rewrite S4; exact Hlen|]. intros k Hk.
  rewrite (entries_fold K (fun ks => ws (sid_key (fst ks)) [] pis) m tl0); try (unfold tl0; cbn [tl_generate tl_st tl_et]; assumption);
    try (rewrite Hlen; unfold tl0; cbn [tl_generate tl_st tl_et]; lia).
  - assert (Hz : nth k (tl_samples tl0) 0%N = entry_of []).
    { unfold tl0, tl_generate. cbn [tl_samples entry_of]. generalize (Z.to_nat (Z.quot (snd ab - fst ab) (pow10 (pick_level [0; 1; 2; 3; 4; 5; 6; 7; 8]%nat (Z.quot ((snd ab - fst ab) * ns_per_slot) 1024) 0)))).
      intros n. revert k Hk. induction n as [|n IHn]; intros [|j] Hj; cbn [repeat nth]; auto. apply IHn. lia. }
    rewrite Hz, acc_fold. reflexivity.
  - intros ks Hks. unfold m, st_matching in Hks. apply filter_In in Hks. destruct Hks as [Hks _]. split; [|split; [|split]].
    + rewrite <- HR. unfold root_of. rewrite (sorted_lookup _ HS ks Hks). reflexivity.
    + apply ws_valid, Hex.
    + apply (ws_single K), Hp.
    + unfold ws. apply Forall_forall. intros w Hw. apply in_map_iff in Hw. destruct Hw as (pi & <- & Hpi).
      apply filter_In in Hpi. destruct Hpi as [Hpi _]. rewrite Forall_forall in Hsm. exact (Hsm pi Hpi).
Qed.

(* ------------------------------------------------------------------------------------------ *)
(* posw for arbitrary non-empty writes (not only single-slot ones)                              *)

(* either already met by some write, or met by the write [a,b) being applied, children likewise *)
Fixpoint prew (a b : Z) (lvl : nat) (n : snode) {struct lvl} : Prop :=
  posw lvl n \/
  (is_outside (relationship (sn_time n) (sn_time n + pow10 lvl) a b) = false /\
   match lvl with O => True | S l => oall (prew a b l) (sn_ch n) end).

Lemma prew_posw a b lvl n : posw lvl n -> prew a b lvl n.
Proof. destruct lvl; left; assumption. Qed.

Lemma prew_fresh a b lvl n : fresh_met a b lvl n -> prew a b lvl n.
Proof.
  intros [E Ho]. destruct lvl as [|l]; right; (split; [exact Ho|]); [exact I|].
  rewrite E. cbn [new_node sn_ch]. apply oall_repeat_None.
Qed.

Lemma put_node_prew a b smp : forall lvl n, prew a b lvl n -> posw lvl (fst (s_put_node lvl a b smp n)).
Proof.
  induction lvl as [|l IH]; intros [t p s w ch] HQ.
  - rewrite put_node_unfold_0. cbv zeta. destruct (is_outside _) eqn:E; cbn [fst].
    + destruct HQ as [H|[H _]]; [exact H|]. cbn [sn_time] in H. congruence.
    + cbn [posw]. split; [lia|exact I].
  - rewrite put_node_unfold_S. cbv zeta. destruct (is_outside _) eqn:E; cbn [fst].
    + cbn [prew] in HQ. destruct HQ as [H|[H _]]; [exact H|]. cbn [sn_time] in H. congruence.
    + cbn [posw]. split; [lia|].
      assert (Hch : forall c, In (Some c) ch -> prew a b l c).
      { intros c Hc. cbn [prew] in HQ. destruct HQ as [[_ H]|[_ H]]; cbn [sn_ch] in *.
        - apply prew_posw. exact (oall_In _ _ _ H Hc).
        - exact (oall_In _ _ _ H Hc). }
      apply oall_put_children_in. intros c Hc. apply IH.
      destruct (creates _); [|apply Hch, Hc].
      destruct (fill_children_cases _ _ _ _ _ _ _ Hc) as [H|H]; [apply Hch, H|apply prew_fresh, H].
Qed.

(* growing the tree above a node that the write meets *)
Lemma grow_loop_prew a b a' b' : a < b -> a' <= a -> b <= b' -> forall fuel lvl n, prew a b lvl n ->
  sn_time n < b -> a < sn_time n + pow10 lvl -> wf lvl n ->
  prew a b (fst (s_grow_loop fuel a' b' lvl n)) (snd (s_grow_loop fuel a' b' lvl n)).
Proof.
  intros Hab Ha Hb. induction fuel as [|f IH]; intros lvl n H Hlt Hgt Hwf; cbn [s_grow_loop].
  - destruct (relationship _ _ a' b'); exact H.
  - pose proof (wf_time_mod _ _ Hwf) as Hm. pose proof (replace_idx_grid lvl (sn_time n) Hm) as Hidx. cbv zeta in Hidx.
    destruct (relationship _ _ a' b'); try exact H;
      (destruct (sn_replace lvl _ n) as [root1|] eqn:E; [|exact H];
       unfold sn_replace in E; set (T := trunc_to (S lvl) (sn_time n)) in *; set (i := replace_idx lvl T (sn_time n)) in *;
       destruct Hidx as [Hi Ht]; replace (i <? 0) with false in E by lia;
       destruct (list_set (Z.to_nat i) (Some n) (repeat None 10)) as [ch'|] eqn:El; [|discriminate]; injection E as <-;
       pose proof (pow10_pos lvl) as Hp; pose proof (pow10_S lvl) as HS;
       apply IH;
       [ right; cbn [sn_time sn_ch]; split;
         [ pose proof (rel_spec T (T + pow10 (S lvl)) a b ltac:(lia) Hab) as Hr;
           destruct (relationship T (T + pow10 (S lvl)) a b); cbn [is_outside]; try reflexivity; nia
         | eapply list_set_oall; [exact H|exact El] ]
       | cbn [sn_time]; nia | cbn [sn_time]; nia
       | cbn [wf]; split; [apply trunc_to_mod|]; split;
         [rewrite (list_set_length _ _ _ _ El); apply repeat_length
         |eapply list_set_repeat_slots; [exact Hwf|exact El|]; rewrite Z2Nat.id by lia; exact Ht] ]).
Qed.

Lemma s_put_posw_gen a b smp s : a < b -> root_posw s -> root_posw (fst (s_put a b smp s)).
Proof.
  intros Hab H. unfold s_put, root_posw in *.
  assert (G : match s_root (s_grow a b s) with Some (lvl, n) => prew a b lvl n | None => True end).
  { unfold s_grow. destruct (s_root s) as [[lvl n]|]; cbn [s_root].
    - pose proof (grow_loop_posw (Z.min a (sn_time n)) (Z.max b (sn_time n + pow10 lvl)) (max_level - lvl) lvl n H) as G.
      destruct (s_grow_loop _ _ _ lvl n). apply prew_posw. exact G.
    - assert (Hf : fresh_met a b 0 (new_node a 0)).
      { split; [reflexivity|]. cbn [new_node sn_time]. rewrite pow10_0.
        pose proof (rel_spec a (a + 1) a b ltac:(lia) Hab) as Hr. destruct (relationship a (a + 1) a b); cbn [is_outside]; try reflexivity; lia. }
      pose proof (grow_loop_prew a b a b Hab ltac:(lia) ltac:(lia) max_level 0 (new_node a 0) (prew_fresh _ _ _ _ Hf)) as G.
      cbn [new_node sn_time] in G. rewrite pow10_0 in G.
      specialize (G ltac:(lia) ltac:(lia) (wf_new_node 0 a ltac:(rewrite pow10_0; apply Z.mod_1_r))).
      destruct (s_grow_loop max_level a b 0 (new_node a 0)). exact G. }
  destruct (s_root (s_grow a b s)) as [[lvl n]|] eqn:E; [|cbn [fst]; rewrite E; exact I].
  pose proof (put_node_prew a b smp lvl n G) as P. destruct (s_put_node lvl a b smp n). exact P.
Qed.

Lemma run_posw_gen ws : Forall (fun w => w_a w < w_b w) ws -> root_posw (fst (run_writes ws)).
Proof.
  intros Hs. induction ws as [|w ws IH] using rev_ind; [exact I|].
  apply Forall_app in Hs. destruct Hs as [H1 H2]. inversion H2 as [|? ? Hw _]; subst.
  rewrite run_writes_snoc, put_step_eq. cbn [fst]. apply s_put_posw_gen; [exact Hw|apply IH, H1].
Qed.
