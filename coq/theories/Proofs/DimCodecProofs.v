(* DimCodecProofs.v — the dimension codec round trip (one of the four per-codec hypotheses of C02). *)
From Pyro Require Import Model.Base Model.Varint Model.DimCodec Proofs.VarintProofs.

Lemma uvarint_enc_nonempty : forall n rest, n < 2 ^ 64 -> uvarint_enc n ++ rest <> [].
Proof.
  intros n rest Hn E. pose proof (uvarint_roundtrip n rest Hn) as R. rewrite E in R. cbn in R. discriminate R.
Qed.

Lemma uvarint_enc_len : forall n, n < 2 ^ 64 -> (1 <= length (uvarint_enc n))%nat.
Proof.
  intros n Hn. destruct (uvarint_enc n) eqn:E; [|cbn; lia].
  exfalso. apply (uvarint_enc_nonempty n [] Hn). rewrite E. reflexivity.
Qed.

Definition keys_small (d : dim) : Prop := forall k, In k d -> Nlen k < 2 ^ 64.

Lemma dec_keys_enc : forall d fuel, keys_small d -> (length d < fuel)%nat ->
  dim_dec_keys fuel (dim_enc_keys d) = Some d.
Proof.
  induction d as [|k ks IH]; intros fuel Hs Hf.
  - destruct fuel; [lia|]. reflexivity.
  - destruct fuel as [|f]; [cbn in Hf; lia|].
    assert (Hk : Nlen k < 2 ^ 64) by (apply Hs; left; reflexivity).
    unfold dim_enc_keys. cbn [flat_map]. fold (dim_enc_keys ks). rewrite <- app_assoc.
    pose proof (uvarint_roundtrip (Nlen k) (k ++ dim_enc_keys ks) Hk) as R.
    cbn [dim_dec_keys].
    destruct (uvarint_enc (Nlen k) ++ k ++ dim_enc_keys ks) as [|b bs] eqn:E.
    + exfalso. exact (uvarint_enc_nonempty _ _ Hk E).
    + rewrite R.
      assert (L : N.to_nat (Nlen k) = length k) by (unfold Nlen; apply Nat2N.id).
      rewrite L, take_bytes_app.
      rewrite IH; [reflexivity | intros k' Hi; apply Hs; right; exact Hi | cbn in Hf; lia].
Qed.

Lemma enc_keys_len : forall d, keys_small d -> (length d <= length (dim_enc_keys d))%nat.
Proof.
  induction d as [|k ks IH]; intros Hs; [cbn; lia|].
  unfold dim_enc_keys. cbn [flat_map]. fold (dim_enc_keys ks). rewrite !app_length.
  assert (Hk : Nlen k < 2 ^ 64) by (apply Hs; left; reflexivity).
  pose proof (uvarint_enc_len _ Hk).
  assert (length ks <= length (dim_enc_keys ks))%nat by (apply IH; intros k' Hi; apply Hs; right; exact Hi).
  cbn [length]. lia.
Qed.

(* FromBytes(Bytes(d)) = d for every dimension whose keys are shorter than 2^64 bytes *)
Theorem dim_roundtrip : forall d, keys_small d -> dim_dec (dim_enc d) = Some d.
Proof.
  intros d Hs. unfold dim_dec, dim_enc.
  rewrite (uvarint_roundtrip 1 (dim_enc_keys d)) by (cbv; reflexivity).
  apply dec_keys_enc; [exact Hs|]. pose proof (enc_keys_len d Hs). lia.
Qed.

Example dim_roundtrip_nonvacuous :
  keys_small [[97; 112; 112; 123; 125]; []; [255; 0]] /\
  dim_dec (dim_enc [[97; 112; 112; 123; 125]; []; [255; 0]]) = Some [[97; 112; 112; 123; 125]; []; [255; 0]].
Proof.
  split; [|vm_compute; reflexivity].
  intros k [<-|[<-|[<-|[]]]]; cbv; reflexivity.
Qed.

(* ---- the lifting lemma of C02 instantiated for the dimensions cache: no hypothesis about the codec is left ---- *)
From Pyro Require Import Model.Lfu Model.Cache Proofs.CacheProofs Proofs.C02Lift.

Definition dm_dflt (k : bytes) : dim := [].                       (* dimension.New() *)
Definition dm_enc (k : bytes) (d : dim) : bytes := dim_enc d.     (* Dimension.Bytes *)
Definition dm_dec (k : bytes) (bs : bytes) : dim :=               (* dimension.FromBytes (an error is not a dimension) *)
  match dim_dec bs with Some d => d | None => [] end.

Definition bytes_eq_dec : forall a b : bytes, {a = b} + {a <> b} := list_eq_dec N.eq_dec.

(* objects put into the cache have keys shorter than 2^64 bytes, and so do the results of the functions applied to
   them (Dimension.Insert / Delete of such a key) *)
Definition dim_op (o : op (K:=bytes) (V:=dim)) : Prop :=
  match o with
  | OPut _ d => keys_small d
  | OMutate _ f => forall d, keys_small d -> keys_small (f d)
  | _ => True
  end.

Theorem dims_transparent : forall cops,
  forallb (is_sync (K:=bytes) (V:=dim)) cops = true ->
  Forall dim_op (lower cops) ->
  rets (fst (run bytes_eq_dec dm_dflt dm_enc dm_dec c_empty (lower cops))) =
  rets (fst (run bytes_eq_dec dm_dflt dm_enc dm_dec c_empty (lower (filter (fun o => negb (is_maint o)) cops)))).
Proof.
  intros cops S H.
  assert (F : Forall2 eq (rets (fst (run bytes_eq_dec dm_dflt dm_enc dm_dec c_empty (lower cops))))
                         (rets (fst (run bytes_eq_dec dm_dflt dm_enc dm_dec c_empty (lower (filter (fun o => negb (is_maint o)) cops)))))).
  { apply (cache_transparent_valid bytes_eq_dec dm_dflt dm_enc dm_dec (Pv := keys_small) (Req := eq)); auto.
    - intros k x [].
    - intros k v Hv. unfold dm_dec, dm_enc. rewrite dim_roundtrip by exact Hv. exact Hv.
    - intros k v Hv. unfold dm_dec, dm_enc. rewrite dim_roundtrip by exact Hv. reflexivity.
    - eapply Forall_impl; [|exact H]. intros o Ho. destruct o; cbn in *; auto.
      split; [exact Ho | intros; congruence]. }
  induction F; congruence.
Qed.
