(* KeyProofs.v — lemmas about Model/Key.v (series names). *)
From Pyro Require Import Model.Base Model.Key Proofs.BcmpProofs.
From Coq Require Import Permutation.

(* ================= white space ================= *)

Definition all_space (s : runes) : Prop := Forall (fun c => is_space c = true) s.

Lemma trim_left_idem : forall s, trim_left (trim_left s) = trim_left s.
Proof.
  induction s as [|c s IH]; cbn; auto.
  destruct (is_space c) eqn:E; auto. cbn. rewrite E. reflexivity.
Qed.

Lemma trim_left_head : forall s c t, trim_left s = c :: t -> is_space c = false.
Proof.
  induction s as [|x s IH]; cbn; intros c t H; try discriminate.
  destruct (is_space x) eqn:E; eauto. inversion H; subst. exact E.
Qed.

Lemma trim_left_ns : forall c s, is_space c = false -> trim_left (c :: s) = c :: s.
Proof. intros. cbn. rewrite H. reflexivity. Qed.

Lemma trim_left_app_ns : forall a c, is_space c = false -> trim_left (a ++ [c]) = trim_left a ++ [c].
Proof.
  induction a as [|x a IH]; intros c H; cbn.
  - rewrite H. reflexivity.
  - destruct (is_space x); auto.
Qed.

Lemma trim_left_all_space : forall a s, all_space a -> trim_left (a ++ s) = trim_left s.
Proof.
  induction a as [|x a IH]; intros s H; cbn; auto.
  inversion H; subst. rewrite H2. auto.
Qed.

Lemma trim_left_all_space_nil : forall a, all_space a -> trim_left a = [].
Proof. intros. rewrite <- (app_nil_r a). rewrite trim_left_all_space; auto. Qed.

Lemma trim_left_nil_all_space : forall a, trim_left a = [] -> all_space a.
Proof.
  induction a as [|x a IH]; cbn; intros H; [constructor|].
  destruct (is_space x) eqn:E; try discriminate. constructor; [exact E|apply IH; exact H].
Qed.

Lemma trim_left_app_nonnil : forall s b, trim_left s <> [] -> trim_left (s ++ b) = trim_left s ++ b.
Proof.
  induction s as [|x s IH]; intros b H; cbn in *; [congruence|].
  destruct (is_space x); auto.
Qed.

Lemma all_space_rev : forall a, all_space a -> all_space (rev a).
Proof. unfold all_space. intros. apply Forall_rev. auto. Qed.

Lemma trim_right_cons_ns : forall c t, is_space c = false ->
  trim_right (c :: t) = c :: rev (trim_left (rev t)).
Proof.
  intros. unfold trim_right. cbn [rev]. rewrite trim_left_app_ns by auto.
  rewrite rev_app_distr. reflexivity.
Qed.

Lemma trim_idem : forall s, trim (trim s) = trim s.
Proof.
  intros s. unfold trim. destruct (trim_left s) as [|c t] eqn:E.
  - reflexivity.
  - pose proof (trim_left_head _ _ _ E) as Hc.
    rewrite (trim_right_cons_ns c t Hc).
    rewrite (trim_left_ns c _ Hc).
    rewrite (trim_right_cons_ns c _ Hc).
    rewrite rev_involutive, trim_left_idem. reflexivity.
Qed.

Lemma trim_right_all_space : forall s b, all_space b -> trim_right (s ++ b) = trim_right s.
Proof.
  intros. unfold trim_right. rewrite rev_app_distr.
  rewrite trim_left_all_space; auto using all_space_rev.
Qed.

(* adding white space around a string does not change its trimmed form *)
Lemma trim_pad : forall a s b, all_space a -> all_space b -> trim (a ++ s ++ b) = trim s.
Proof.
  intros a s b Ha Hb. unfold trim. rewrite trim_left_all_space by auto.
  destruct (trim_left s) as [|c t] eqn:E.
  - apply trim_left_nil_all_space in E.
    rewrite trim_left_all_space by auto. rewrite trim_left_all_space_nil by auto. reflexivity.
  - rewrite trim_left_app_nonnil by congruence. rewrite E.
    apply trim_right_all_space; auto.
Qed.

Lemma In_trim_left : forall s c, In c (trim_left s) -> In c s.
Proof.
  induction s as [|x s IH]; cbn; intros c H; auto.
  destruct (is_space x); auto.
Qed.

Lemma In_trim : forall s c, In c (trim s) -> In c s.
Proof.
  intros s c H. unfold trim, trim_right in H.
  apply In_trim_left. apply in_rev. apply In_trim_left. apply in_rev in H. exact H.
Qed.

Lemma has_true : forall c s, has c s = true <-> In c s.
Proof.
  unfold has. intros. rewrite existsb_exists. split.
  - intros [x [Hx E]]. apply N.eqb_eq in E. subst. auto.
  - intros H. exists c. split; auto. apply N.eqb_refl.
Qed.

Lemma has_false : forall c s, has c s = false <-> ~ In c s.
Proof.
  intros. rewrite <- has_true. destruct (has c s); split; congruence.
Qed.

Lemma has_trim_false : forall c s, has c s = false -> has c (trim s) = false.
Proof. intros c s H. apply has_false. apply has_false in H. intros X. apply H. apply In_trim. auto. Qed.

(* ================= the labels map ================= *)

Definition lsorted (m : labels) : Prop := ssorted (map fst m).

Lemma lget_lput : forall k v m k', lget k' (lput k v m) = if beqb k' k then Some v else lget k' m.
Proof.
  induction m as [|[k0 v0] m IH]; intros k'; cbn.
  - reflexivity.
  - destruct (bcmp k k0) eqn:E; cbn.
    + apply bcmp_eq in E. subst. destruct (beqb k' k0); reflexivity.
    + reflexivity.
    + rewrite IH. destruct (beqb k' k0) eqn:E1; auto.
      destruct (beqb k' k) eqn:E2; auto.
      apply beqb_true in E1. apply beqb_true in E2. subst. rewrite bcmp_refl in E. discriminate.
Qed.

Lemma lput_keys_in : forall k v m x, In x (map fst (lput k v m)) -> x = k \/ In x (map fst m).
Proof.
  induction m as [|[k0 v0] m IH]; intros x H; cbn in *.
  - destruct H; auto.
  - destruct (bcmp k k0) eqn:E; cbn in *.
    + destruct H; auto.
    + destruct H as [H|[H|H]]; auto.
    + destruct H as [H|H]; auto. apply IH in H. destruct H; auto.
Qed.

Lemma lput_sorted : forall k v m, lsorted m -> lsorted (lput k v m).
Proof.
  unfold lsorted. induction m as [|[k0 v0] m IH]; intros H; cbn.
  - constructor.
  - destruct (bcmp k k0) eqn:E; cbn.
    + apply bcmp_eq in E. subst. exact H.
    + constructor; auto.
    + apply ssorted_cons_intro.
      * apply IH. eapply ssorted_tail; eauto.
      * intros x Hx. apply lput_keys_in in Hx. destruct Hx as [->|Hx].
        -- apply bcmp_lt_gt. exact E.
        -- eapply ssorted_head_lt; eauto.
Qed.

Lemma lget_In : forall k v m, lget k m = Some v -> In (k, v) m.
Proof.
  induction m as [|[k0 v0] m IH]; cbn; intros H; try discriminate.
  destruct (beqb k k0) eqn:E.
  - apply beqb_true in E. inversion H; subst. auto.
  - auto.
Qed.

Lemma lget_None : forall k m, lget k m = None <-> ~ In k (map fst m).
Proof.
  induction m as [|[k0 v0] m IH]; cbn.
  - split; auto.
  - destruct (beqb k k0) eqn:E.
    + apply beqb_true in E. subst. split; [discriminate|]. intros H. exfalso. auto.
    + apply beqb_false in E. rewrite IH. split; intros H; [intros [X|X]; auto|auto].
Qed.

Lemma In_lget : forall k v m, NoDup (map fst m) -> In (k, v) m -> lget k m = Some v.
Proof.
  induction m as [|[k0 v0] m IH]; cbn; intros Hnd H; [destruct H|].
  inversion Hnd; subst. destruct H as [H|H].
  - inversion H; subst. rewrite beqb_refl. reflexivity.
  - destruct (beqb k k0) eqn:E.
    + apply beqb_true in E. subst. exfalso. apply H2. apply (in_map fst) in H. exact H.
    + auto.
Qed.

(* sorted maps are determined by their lookup function *)
Lemma lsorted_ext : forall m1 m2, lsorted m1 -> lsorted m2 ->
  (forall k, lget k m1 = lget k m2) -> m1 = m2.
Proof.
  intros m1 m2 H1 H2 Hext.
  assert (K : map fst m1 = map fst m2).
  { apply ssorted_ext; auto. intros x.
    pose proof (lget_None x m1) as A. pose proof (lget_None x m2) as B. rewrite (Hext x) in A.
    destruct (lget x m2); split; intros H.
    - destruct (in_dec (list_eq_dec N.eq_dec) x (map fst m2)); auto.
      apply B in n. discriminate.
    - destruct (in_dec (list_eq_dec N.eq_dec) x (map fst m1)); auto.
      apply A in n. discriminate.
    - exfalso. apply (proj1 A); auto.
    - exfalso. apply (proj1 B); auto. }
  apply ssorted_NoDup in H1. unfold lsorted in H2. apply ssorted_NoDup in H2.
  revert m2 K H2 Hext. induction m1 as [|[k v] m1 IH]; intros [|[k2 v2] m2] K Hnd2 Hext; cbn in K; try discriminate; auto.
  injection K as Kk Kt. subst k2.
  apply NoDup_cons_iff in H1. destruct H1 as [Hk1 Hn1].
  cbn in Hnd2. apply NoDup_cons_iff in Hnd2. destruct Hnd2 as [Hk2 Hn2].
  pose proof (Hext k) as E. cbn in E. rewrite beqb_refl in E. injection E as E. subst v2.
  f_equal. apply IH; auto.
  intros k'. pose proof (Hext k') as E2. cbn in E2.
  destruct (beqb k' k) eqn:Ek; auto.
  apply beqb_true in Ek. subst k'.
  assert (lget k m1 = None) as -> by (apply lget_None; auto).
  symmetry. apply lget_None. auto.
Qed.

(* folding puts: the tags of a name, trimmed, put in the order written *)
Definition put_all (l : labels) (m : labels) : labels :=
  fold_left (fun m kv => lput (fst kv) (snd kv) m) l m.

Definition trim_tags (l : labels) : labels := map (fun kv => (trim (fst kv), trim (snd kv))) l.

Lemma put_all_sorted : forall l m, lsorted m -> lsorted (put_all l m).
Proof.
  induction l as [|[k v] l IH]; intros m H; cbn; auto.
  apply IH. apply lput_sorted. auto.
Qed.

Lemma lget_put_all : forall l m k, NoDup (map fst l) ->
  lget k (put_all l m) = match lget k l with Some v => Some v | None => lget k m end.
Proof.
  induction l as [|[k0 v0] l IH]; intros m k Hnd; cbn; auto.
  inversion Hnd; subst. unfold put_all in IH. rewrite IH by auto. cbn.
  rewrite lget_lput. destruct (beqb k k0) eqn:E.
  - apply beqb_true in E. subst.
    assert (lget k0 l = None) as -> by (apply lget_None; auto). reflexivity.
  - reflexivity.
Qed.

Lemma lget_perm : forall l l' k, NoDup (map fst l) -> Permutation l l' -> lget k l = lget k l'.
Proof.
  intros l l' k Hnd Hp.
  assert (Hnd' : NoDup (map fst l')).
  { eapply Permutation_NoDup; [apply Permutation_map; exact Hp|auto]. }
  destruct (lget k l) eqn:E.
  - apply lget_In in E. symmetry. apply In_lget; auto. eapply Permutation_in; eauto.
  - symmetry. apply lget_None. apply lget_None in E. intros X. apply E.
    eapply Permutation_in; [apply Permutation_sym; apply Permutation_map; exact Hp|auto].
Qed.

Lemma put_all_perm : forall l l' m, lsorted m -> NoDup (map fst l) -> Permutation l l' ->
  put_all l m = put_all l' m.
Proof.
  intros l l' m Hm Hnd Hp.
  assert (Hnd' : NoDup (map fst l')).
  { eapply Permutation_NoDup; [apply Permutation_map; exact Hp|auto]. }
  apply lsorted_ext; auto using put_all_sorted.
  intros k. rewrite !lget_put_all by auto. rewrite (lget_perm l l' k) by auto. reflexivity.
Qed.

(* ================= running the parser over a well-formed text ================= *)

Definition name_ok (n : runes) : Prop := has c_lbrace n = false.
Definition key_ok (k : runes) : Prop := has c_eq k = false /\ has c_rbrace k = false.
Definition val_ok (v : runes) : Prop := has c_comma v = false /\ has c_rbrace v = false.
Definition tag_ok (kv : runes * runes) : Prop := key_ok (fst kv) /\ val_ok (snd kv).

Lemma has_cons_false : forall c x s, has c (x :: s) = false -> (x =? c) = false /\ has c s = false.
Proof.
  unfold has. cbn. intros c x s H. apply orb_false_iff in H. destruct H as [H1 H2].
  rewrite N.eqb_sym. auto.
Qed.

Lemma has_app_false : forall c a b, has c (a ++ b) = false <-> has c a = false /\ has c b = false.
Proof. unfold has. intros. rewrite existsb_app. apply orb_false_iff. Qed.

Lemma run_name : forall n p, p_st p = SName -> name_ok n ->
  fold_left step n p = {| p_st := SName; p_key := p_key p; p_val := p_val p ++ n; p_labels := p_labels p |}.
Proof.
  unfold name_ok. induction n as [|r n IH]; intros [st k v m] Hst Hn; cbn [p_st] in Hst; subst st.
  - cbn. rewrite app_nil_r. reflexivity.
  - apply has_cons_false in Hn. destruct Hn as [Hr Hn].
    cbn [fold_left]. unfold step at 2. cbn [p_st p_key p_val p_labels]. rewrite Hr.
    rewrite IH by auto. cbn. rewrite <- app_assoc. reflexivity.
Qed.

Lemma run_key : forall k p, p_st p = SKey -> key_ok k ->
  fold_left step k p = {| p_st := SKey; p_key := p_key p ++ k; p_val := p_val p; p_labels := p_labels p |}.
Proof.
  unfold key_ok. induction k as [|r k IH]; intros [st k0 v m] Hst [H1 H2]; cbn [p_st] in Hst; subst st.
  - cbn. rewrite app_nil_r. reflexivity.
  - apply has_cons_false in H1. destruct H1 as [Hr1 H1].
    apply has_cons_false in H2. destruct H2 as [Hr2 H2].
    cbn [fold_left]. unfold step at 2. cbn [p_st p_key p_val p_labels]. rewrite Hr1, Hr2.
    rewrite IH by auto. cbn. rewrite <- app_assoc. reflexivity.
Qed.

Lemma run_val : forall v p, p_st p = SVal -> val_ok v ->
  fold_left step v p = {| p_st := SVal; p_key := p_key p; p_val := p_val p ++ v; p_labels := p_labels p |}.
Proof.
  unfold val_ok. induction v as [|r v IH]; intros [st k0 v0 m] Hst [H1 H2]; cbn [p_st] in Hst; subst st.
  - cbn. rewrite app_nil_r. reflexivity.
  - apply has_cons_false in H1. destruct H1 as [Hr1 H1].
    apply has_cons_false in H2. destruct H2 as [Hr2 H2].
    cbn [fold_left]. unfold step at 2. cbn [p_st p_key p_val p_labels]. rewrite Hr1, Hr2. cbn [orb].
    rewrite IH by auto. cbn. rewrite <- app_assoc. reflexivity.
Qed.

(* one tag k=v followed by ',' or '}' *)
Lemma run_tag : forall k v sep val0 m, key_ok k -> val_ok v -> (sep = c_comma \/ sep = c_rbrace) ->
  fold_left step (k ++ c_eq :: v ++ [sep]) {| p_st := SKey; p_key := []; p_val := val0; p_labels := m |}
  = {| p_st := SKey; p_key := []; p_val := v; p_labels := lput (trim k) (trim v) m |}.
Proof.
  intros k v sep val0 m Hk Hv Hsep.
  rewrite fold_left_app. rewrite (run_key k) by (try reflexivity; auto). cbn [p_key p_val p_labels app].
  cbn [fold_left]. unfold step at 2. cbn [p_st p_key p_val p_labels].
  replace (c_eq =? c_rbrace) with false by reflexivity. rewrite N.eqb_refl.
  rewrite fold_left_app. rewrite (run_val v) by (try reflexivity; auto). cbn [p_key p_val p_labels app fold_left].
  unfold step. cbn [p_st p_key p_val p_labels].
  destruct Hsep as [-> | ->]; reflexivity.
Qed.

Lemma run_tags : forall l, l <> [] -> Forall tag_ok l -> forall val0 m rest, exists val1,
  fold_left step (join_tags l ++ c_rbrace :: rest) {| p_st := SKey; p_key := []; p_val := val0; p_labels := m |}
  = fold_left step rest {| p_st := SKey; p_key := []; p_val := val1; p_labels := put_all (trim_tags l) m |}.
Proof.
  induction l as [|[k v] l IH]; intros Hne Hok val0 m rest; [congruence|].
  inversion Hok as [|x y [Hk Hv] Hok']; subst. cbn [fst snd] in *.
  destruct l as [|[k2 v2] l'].
  - exists v. cbn [join_tags].
    replace ((k ++ c_eq :: v) ++ c_rbrace :: rest) with ((k ++ c_eq :: v ++ [c_rbrace]) ++ rest)
      by (rewrite <- !app_assoc; cbn; rewrite <- app_assoc; reflexivity).
    rewrite fold_left_app. rewrite run_tag by auto. reflexivity.
  - destruct (IH ltac:(congruence) Hok' v (lput (trim k) (trim v) m) rest) as [val1 E].
    exists val1.
    change (join_tags ((k, v) :: (k2, v2) :: l')) with (k ++ c_eq :: v ++ c_comma :: join_tags ((k2, v2) :: l')).
    replace ((k ++ c_eq :: v ++ c_comma :: join_tags ((k2, v2) :: l')) ++ c_rbrace :: rest)
      with ((k ++ c_eq :: v ++ [c_comma]) ++ (join_tags ((k2, v2) :: l') ++ c_rbrace :: rest))
      by (rewrite <- !app_assoc; cbn; rewrite <- !app_assoc; reflexivity).
    rewrite fold_left_app. rewrite run_tag by auto. rewrite E. reflexivity.
Qed.

(* the parse of a well-formed text name{k1=v1,...,kn=vn} *)
Lemma parse_render : forall n l, name_ok n -> Forall tag_ok l ->
  parse (render n l) = put_all (trim_tags l) [(name_key, trim n)].
Proof.
  intros n l Hn Hl. unfold parse, run_parser, render.
  rewrite <- app_assoc. rewrite fold_left_app. rewrite (run_name n) by (try reflexivity; auto).
  cbn [p_key p_val p_labels p_init app].
  cbn [fold_left]. unfold step at 2. cbn [p_st p_key p_val p_labels]. rewrite N.eqb_refl.
  cbn [lput].
  destruct l as [|kv l].
  - cbn. reflexivity.
  - rewrite <- app_assoc.
    destruct (run_tags (kv :: l) ltac:(congruence) Hl n [(name_key, trim n)] [c_lbrace]) as [val1 E].
    cbn [app]. cbn [app] in E. rewrite E. cbn. reflexivity.
Qed.

(* ================= order of tags and white space do not matter ================= *)

Lemma lsorted_single : forall k v, lsorted [(k, v)].
Proof. intros. unfold lsorted. cbn. constructor. Qed.

Theorem order_ws_parse : forall n n' l l',
  name_ok n -> name_ok n' -> Forall tag_ok l -> Forall tag_ok l' ->
  trim n = trim n' ->
  NoDup (map fst (trim_tags l)) ->
  Permutation (trim_tags l) (trim_tags l') ->
  parse (render n l) = parse (render n' l').
Proof.
  intros n n' l l' Hn Hn' Hl Hl' Et Hnd Hp.
  rewrite !parse_render by auto. rewrite Et.
  apply put_all_perm; auto using lsorted_single.
Qed.

(* padding every part with white space *)
Definition pad_ok (a s' s b : runes) : Prop := all_space a /\ all_space b /\ s' = a ++ s ++ b.

Lemma trim_tags_padded : forall l l',
  Forall2 (fun kv kv' => trim (fst kv') = trim (fst kv) /\ trim (snd kv') = trim (snd kv)) l l' ->
  trim_tags l' = trim_tags l.
Proof.
  unfold trim_tags. induction 1 as [|[k v] [k' v'] l l' [E1 E2] H IH]; cbn; auto.
  cbn in E1, E2. rewrite E1, E2, IH. reflexivity.
Qed.

(* ================= what ParseKey can produce ================= *)

Definition trimmed (s : runes) : Prop := trim s = s.

Definition entry_ok (kv : runes * runes) : Prop :=
  trimmed (fst kv) /\ trimmed (snd kv) /\ (fst kv = name_key \/ (key_ok (fst kv) /\ val_ok (snd kv))).

Definition labels_ok (m : labels) : Prop := lsorted m /\ Forall entry_ok m.

Lemma lput_Forall : forall (P : runes * runes -> Prop) k v m, P (k, v) -> Forall P m -> Forall P (lput k v m).
Proof.
  induction m as [|[k0 v0] m IH]; intros Hkv Hm; cbn.
  - constructor; auto.
  - inversion Hm; subst. destruct (bcmp k k0); constructor; auto.
Qed.

Definition pinv (p : parser) : Prop :=
  labels_ok (p_labels p) /\
  match p_st p with
  | SName => p_key p = []
  | SKey => key_ok (p_key p) /\ lget name_key (p_labels p) <> None
  | SVal => key_ok (p_key p) /\ val_ok (p_val p) /\ lget name_key (p_labels p) <> None
  | SDone => lget name_key (p_labels p) <> None
  end.

Lemma key_ok_trim : forall k, key_ok k -> key_ok (trim k).
Proof. intros k [A B]. split; apply has_trim_false; auto. Qed.
Lemma val_ok_trim : forall k, val_ok k -> val_ok (trim k).
Proof. intros k [A B]. split; apply has_trim_false; auto. Qed.

Lemma has_snoc_false : forall c s r, has c s = false -> (r =? c) = false -> has c (s ++ [r]) = false.
Proof.
  intros c s r H H0. apply has_app_false. split; auto. unfold has. cbn. rewrite N.eqb_sym, H0. reflexivity.
Qed.

Lemma lget_lput_not_none : forall k v k' m, lget k' m <> None -> lget k' (lput k v m) <> None.
Proof. intros. rewrite lget_lput. destruct (beqb k' k); congruence. Qed.

Lemma key_ok_nil : key_ok [].
Proof. split; reflexivity. Qed.
Lemma val_ok_nil : val_ok [].
Proof. split; reflexivity. Qed.

Lemma step_pinv : forall p r, pinv p -> pinv (step p r).
Proof.
  intros [st k v m] r [[Hs Hf] Hst]. unfold step. cbn [p_st p_key p_val p_labels] in *.
  destruct st.
  - (* name *) subst k.
    destruct (r =? c_lbrace) eqn:E; unfold pinv, labels_ok; cbn [p_st p_key p_val p_labels].
    + split; [split|split].
      * apply lput_sorted; auto.
      * apply lput_Forall; auto. split; [reflexivity|split; [apply trim_idem|left; reflexivity]].
      * apply key_ok_nil.
      * rewrite lget_lput, beqb_refl. discriminate.
    + split; [split|]; auto.
  - (* tag key *) destruct Hst as [[K1 K2] Hn].
    destruct (r =? c_rbrace) eqn:E1; [|destruct (r =? c_eq) eqn:E2];
      unfold pinv, labels_ok; cbn [p_st p_key p_val p_labels].
    + split; [split|]; auto.
    + split; [split|split; [|split]]; auto. split; auto. apply val_ok_nil.
    + split; [split|split]; auto. split; apply has_snoc_false; auto.
  - (* tag value *) destruct Hst as [Hk [[V1 V2] Hn]].
    destruct ((r =? c_comma) || (r =? c_rbrace)) eqn:E; unfold pinv, labels_ok; cbn [p_st p_key p_val p_labels].
    + split; [split|split].
      * apply lput_sorted; auto.
      * apply lput_Forall; auto. split; [apply trim_idem|split; [apply trim_idem|]].
        cbn [fst snd]. right. split; [apply key_ok_trim; auto|apply val_ok_trim; split; auto].
      * apply key_ok_nil.
      * apply lget_lput_not_none; auto.
    + apply orb_false_iff in E. destruct E as [E1 E2].
      split; [split|split; [|split]]; auto. split; apply has_snoc_false; auto.
  - (* done *) unfold pinv, labels_ok; cbn [p_st p_key p_val p_labels]. auto.
Qed.

Lemma run_pinv : forall s p, pinv p -> pinv (fold_left step s p).
Proof. induction s as [|r s IH]; intros p H; cbn; auto using step_pinv. Qed.

Lemma p_init_pinv : pinv p_init.
Proof. split; [split; [constructor|constructor]|reflexivity]. Qed.

Lemma step_st_not_name : forall p r, p_st p <> SName -> p_st (step p r) <> SName.
Proof.
  intros [st k v m] r H. unfold step. cbn [p_st p_key p_val p_labels] in *.
  destruct st; try congruence.
  - destruct (r =? c_rbrace); [|destruct (r =? c_eq)]; cbn; congruence.
  - destruct ((r =? c_comma) || (r =? c_rbrace)); cbn; congruence.
  - cbn; congruence.
Qed.

Lemma run_st_not_name : forall s p, p_st p <> SName -> p_st (fold_left step s p) <> SName.
Proof. induction s as [|r s IH]; intros p H; cbn; auto using step_st_not_name. Qed.

Lemma step_lbrace_not_name : forall p, p_st (step p c_lbrace) <> SName.
Proof.
  intros [st k v m]. unfold step. cbn [p_st p_key p_val p_labels]. destruct st; cbn; congruence.
Qed.

(* every ParseKey result is a sorted map with trimmed, delimiter-free entries and a __name__ entry *)
Lemma parse_ok : forall s, labels_ok (parse s) /\ lget name_key (parse s) <> None.
Proof.
  intros s. unfold parse, run_parser. rewrite fold_left_app. cbn [fold_left].
  set (p := fold_left step s p_init).
  assert (Hp : pinv (step p c_lbrace)) by (apply step_pinv; apply run_pinv; apply p_init_pinv).
  pose proof (step_lbrace_not_name p) as Hst.
  destruct Hp as [Hl Hm]. split; auto.
  destruct (p_st (step p c_lbrace)); try congruence; tauto.
Qed.

(* ================= the canonical text parses back to the same name ================= *)

Lemma normalized_render : forall m, normalized m = render (app_name m) (tags m).
Proof. reflexivity. Qed.

Lemma lget_tags : forall m k, lget k (tags m) = if beqb k name_key then None else lget k m.
Proof.
  unfold tags. induction m as [|[k0 v0] m IH]; intros k; cbn.
  - destruct (beqb k name_key); reflexivity.
  - destruct (beqb k0 name_key) eqn:E0; cbn.
    + rewrite IH. apply beqb_true in E0. subst k0. destruct (beqb k name_key); reflexivity.
    + rewrite IH. destruct (beqb k k0) eqn:E1; auto.
      apply beqb_true in E1. subst k0. rewrite E0. reflexivity.
Qed.

Lemma tags_keys_incl : forall m x, In x (map fst (tags m)) -> In x (map fst m).
Proof.
  intros m x H. apply in_map_iff in H. destruct H as [kv [E H]]. unfold tags in H.
  apply filter_In in H. destruct H as [H _]. apply in_map_iff. eauto.
Qed.

Lemma tags_NoDup : forall m, NoDup (map fst m) -> NoDup (map fst (tags m)).
Proof.
  induction m as [|[k0 v0] m IH]; intros H; cbn; [constructor|].
  inversion H; subst. destruct (beqb k0 name_key); cbn; auto.
  constructor; auto. intros X. apply H2. apply tags_keys_incl. exact X.
Qed.

Lemma tags_Forall : forall (P : runes * runes -> Prop) m, Forall P m -> Forall P (tags m).
Proof.
  intros P m H. apply Forall_forall. intros x Hx. unfold tags in Hx. apply filter_In in Hx.
  destruct Hx as [Hx _]. rewrite Forall_forall in H. auto.
Qed.

Lemma tags_not_name : forall m kv, In kv (tags m) -> fst kv <> name_key.
Proof.
  intros m kv H. unfold tags in H. apply filter_In in H. destruct H as [_ H].
  apply negb_true_iff in H. apply beqb_false in H. exact H.
Qed.

Lemma trim_tags_id : forall l, Forall (fun kv => trimmed (fst kv) /\ trimmed (snd kv)) l -> trim_tags l = l.
Proof.
  unfold trim_tags, trimmed. induction 1 as [|[k v] l [E1 E2] H IH]; cbn in *; auto.
  rewrite E1, E2, IH. reflexivity.
Qed.

Theorem fixpoint_labels : forall m,
  labels_ok m -> lget name_key m <> None -> name_ok (app_name m) ->
  parse (normalized m) = m.
Proof.
  intros m [Hs Hf] Hn Hb.
  assert (Hnd : NoDup (map fst m)) by (apply ssorted_NoDup; exact Hs).
  rewrite normalized_render. rewrite parse_render; auto.
  - rewrite trim_tags_id.
    2:{ apply tags_Forall. eapply Forall_impl; [|exact Hf]. intros kv [A [B _]]. auto. }
    unfold app_name in *. destruct (lget name_key m) as [n|] eqn:En; [|congruence].
    assert (trim n = n) as ->.
    { apply lget_In in En. rewrite Forall_forall in Hf. destruct (Hf _ En) as [_ [B _]]. exact B. }
    apply lsorted_ext; auto.
    + apply put_all_sorted. apply lsorted_single.
    + intros k. rewrite lget_put_all by (apply tags_NoDup; auto).
      rewrite lget_tags. cbn [lget]. destruct (beqb k name_key) eqn:E.
      * apply beqb_true in E. subst k. symmetry. exact En.
      * destruct (lget k m); reflexivity.
  - apply Forall_forall. intros kv Hkv.
    pose proof (tags_not_name _ _ Hkv) as Hne.
    pose proof (tags_Forall _ _ Hf) as Hf'. rewrite Forall_forall in Hf'.
    destruct (Hf' _ Hkv) as [_ [_ [X|X]]]; [contradiction|exact X].
Qed.

(* C15_fixpoint, partial: for every string whose __name__ value carries no '{' *)
Theorem fixpoint_partial : forall s,
  has c_lbrace (app_name (parse s)) = false ->
  parse (normalized (parse s)) = parse s.
Proof.
  intros s H. destruct (parse_ok s) as [Hok Hn]. apply fixpoint_labels; auto.
Qed.

Corollary normalized_idem_partial : forall s,
  has c_lbrace (app_name (parse s)) = false ->
  normalized (parse (normalized (parse s))) = normalized (parse s).
Proof. intros. rewrite fixpoint_partial; auto. Qed.

(* D15: the statement without the hypothesis is false *)
Definition d15_witness : runes :=
  [97; 112; 112; 123; 95; 95; 110; 97; 109; 101; 95; 95; 61; 120; 123; 121; 125].  (* app{__name__=x{y} *)

Theorem fixpoint_refuted : exists s, parse (normalized (parse s)) <> parse s.
Proof. exists d15_witness. vm_compute. discriminate. Qed.

(* a name that does not mention the reserved tag at all gets its __name__ from the name position: no '{' *)

(* ================= tree keys split back ================= *)

Definition is_digit (c : N) : Prop := 48 <= c /\ c <= 57.

Lemma digits_aux_spec : forall fuel n acc, Forall is_digit acc -> (fuel <> O \/ acc <> []) ->
  Forall is_digit (digits_aux fuel n acc) /\ digits_aux fuel n acc <> [].
Proof.
  induction fuel as [|f IH]; intros n acc Hacc Hne; cbn [digits_aux].
  - split; auto. destruct Hne; congruence.
  - destruct (n <? 10) eqn:E.
    + apply N.ltb_lt in E. split; [|discriminate]. constructor; auto. unfold is_digit. lia.
    + apply IH.
      * constructor; auto. unfold is_digit. assert (n mod 10 < 10) by (apply N.mod_upper_bound; discriminate). remember (n mod 10) as q. lia.
      * right. discriminate.
Qed.

Lemma digits_spec : forall n, Forall is_digit (digits n) /\ digits n <> [].
Proof. intros. unfold digits. apply digits_aux_spec; auto. Qed.

Lemma digit_not : forall c l, Forall is_digit l -> (c < 48 \/ 57 < c) -> ~ In c l.
Proof.
  intros c l H Hc Hin. rewrite Forall_forall in H. apply H in Hin. unfold is_digit in Hin. lia.
Qed.

Lemma itoa_no_colon : forall z, ~ In c_colon (itoa z).
Proof.
  intros z. unfold itoa. destruct z.
  - apply digit_not; [apply digits_spec|unfold c_colon; lia].
  - apply digit_not; [apply digits_spec|unfold c_colon; lia].
  - intros [H|H]; [discriminate|]. revert H. apply digit_not; [apply digits_spec|unfold c_colon; lia].
Qed.

Lemma itoa_nat_digits : forall d : nat, Forall is_digit (itoa (Z.of_nat d)) /\ itoa (Z.of_nat d) <> [].
Proof.
  intros d. unfold itoa. destruct (Z.of_nat d) eqn:E; try apply digits_spec. lia.
Qed.

Lemma last_index_notin : forall c s, ~ In c s -> last_index c s = None.
Proof.
  induction s as [|x s IH]; cbn; intros H; auto.
  rewrite IH by tauto. destruct (x =? c) eqn:E; auto. apply N.eqb_eq in E. subst. tauto.
Qed.

Lemma last_index_app : forall c a b, ~ In c b -> last_index c (a ++ c :: b) = Some (length a).
Proof.
  induction a as [|x a IH]; intros b H; cbn.
  - rewrite last_index_notin by auto. rewrite N.eqb_refl. reflexivity.
  - rewrite IH by auto. reflexivity.
Qed.

Lemma index_of_app : forall c a b, ~ In c a -> index_of c (a ++ c :: b) = Some (length a).
Proof.
  induction a as [|x a IH]; intros b H; cbn.
  - rewrite N.eqb_refl. reflexivity.
  - destruct (x =? c) eqn:E.
    + apply N.eqb_eq in E. subst. exfalso. apply H. left. reflexivity.
    + rewrite IH; auto. intros X. apply H. right. exact X.
Qed.

Lemma firstn_app_exact : forall (a b : runes), firstn (length a) (a ++ b) = a.
Proof.
  intros. rewrite firstn_app, Nat.sub_diag, firstn_all. cbn. apply app_nil_r.
Qed.

(* FromTreeToMainKey(TreeKey) = the series key: every name, every level, every time *)
Theorem split_main : forall m (depth : nat) (unix : Z),
  from_tree_to_main_key (tree_key m depth unix) = Some (normalized m).
Proof.
  intros m depth unix. unfold from_tree_to_main_key, tree_key.
  destruct (itoa_nat_digits depth) as [Hd Hne].
  destruct (exists_last Hne) as [D' [d E]]. rewrite E in *.
  set (nm := normalized m).
  replace (nm ++ c_colon :: (D' ++ [d]) ++ c_colon :: itoa unix)
    with (((nm ++ c_colon :: D') ++ [d]) ++ c_colon :: itoa unix)
    by (repeat rewrite <- app_assoc; cbn [app]; repeat rewrite <- app_assoc; reflexivity).
  rewrite last_index_app by apply itoa_no_colon.
  rewrite app_length. cbn [length]. rewrite Nat.add_1_r.
  rewrite <- (app_assoc (nm ++ c_colon :: D') [d]).
  rewrite firstn_app_exact.
  rewrite last_index_app.
  2:{ apply digit_not; [|unfold c_colon; lia]. apply Forall_app in Hd. tauto. }
  rewrite <- !app_assoc. rewrite firstn_app_exact. reflexivity.
Qed.

(* FromTreeToDictKey(TreeKey) = the application name, when that has no '{' *)
Theorem split_dict : forall m (depth : nat) (unix : Z),
  has c_lbrace (app_name m) = false ->
  from_tree_to_dict_key (tree_key m depth unix) = Some (app_name m).
Proof.
  intros m depth unix H. unfold from_tree_to_dict_key, tree_key, normalized.
  rewrite <- app_assoc. cbn [app].
  rewrite index_of_app by (apply has_false; exact H).
  rewrite firstn_app_exact. reflexivity.
Qed.

Theorem split_dict_refuted : exists s depth unix,
  from_tree_to_dict_key (tree_key (parse s) depth unix) <> Some (app_name (parse s)).
Proof. exists d15_witness, O, 0%Z. vm_compute. discriminate. Qed.

(* ================= explicit white-space padding ================= *)

Definition padded (s s' : runes) : Prop := exists a b, all_space a /\ all_space b /\ s' = a ++ s ++ b.

Lemma padded_trim : forall s s', padded s s' -> trim s' = trim s.
Proof. intros s s' [a [b [Ha [Hb ->]]]]. apply trim_pad; auto. Qed.

Lemma all_space_has : forall c a, is_space c = false -> all_space a -> has c a = false.
Proof.
  intros c a Hc Ha. apply has_false. intros Hin. unfold all_space in Ha. rewrite Forall_forall in Ha.
  apply Ha in Hin. congruence.
Qed.

Lemma padded_has : forall c s s', is_space c = false -> padded s s' -> has c s = false -> has c s' = false.
Proof.
  intros c s s' Hc [a [b [Ha [Hb ->]]]] H.
  apply has_app_false. split; [apply all_space_has; auto|].
  apply has_app_false. split; [auto|apply all_space_has; auto].
Qed.

Definition padded_tag (kv kv' : runes * runes) : Prop := padded (fst kv) (fst kv') /\ padded (snd kv) (snd kv').

Lemma padded_tags_ok : forall l l', Forall2 padded_tag l l' -> Forall tag_ok l -> Forall tag_ok l'.
Proof.
  induction 1 as [|kv kv' l l' [Pk Pv] H IH]; intros Hl; [constructor|].
  inversion Hl as [|x y [[K1 K2] [V1 V2]] Hl']; subst. constructor; auto.
  split; split; eapply padded_has; eauto; reflexivity.
Qed.

(* white space around the name, the tag keys and the tag values does not change the parsed name *)
Theorem ws_parse : forall n n' l l',
  name_ok n -> Forall tag_ok l -> padded n n' -> Forall2 padded_tag l l' ->
  parse (render n' l') = parse (render n l).
Proof.
  intros n n' l l' Hn Hl Pn Pl.
  assert (Hn' : name_ok n') by (eapply padded_has; eauto; reflexivity).
  assert (Hl' : Forall tag_ok l') by (eapply padded_tags_ok; eauto).
  rewrite !parse_render by auto. rewrite (padded_trim _ _ Pn). f_equal.
  apply trim_tags_padded. clear -Pl. induction Pl as [|kv kv' l l' [A B] H IH]; constructor; auto.
  split; apply padded_trim; auto.
Qed.

(* a bare name is the same as name{} *)
Lemma parse_bare : forall n, name_ok n -> parse n = parse (render n []).
Proof.
  intros n Hn. rewrite parse_render by auto. unfold parse, run_parser.
  rewrite fold_left_app. rewrite (run_name n) by (try reflexivity; auto). reflexivity.
Qed.

Theorem order_ws_both : forall n n' l l',
  name_ok n -> name_ok n' -> Forall tag_ok l -> Forall tag_ok l' ->
  trim n = trim n' ->
  NoDup (map fst (trim_tags l)) ->
  Permutation (trim_tags l) (trim_tags l') ->
  parse (render n l) = parse (render n' l') /\
  normalized (parse (render n l)) = normalized (parse (render n' l')).
Proof.
  intros n n' l l' H1 H2 H3 H4 H5 H6 H7.
  pose proof (order_ws_parse n n' l l' H1 H2 H3 H4 H5 H6 H7) as E. rewrite E. auto.
Qed.

(* ================= names that do not use the reserved tag ================= *)

Lemma lget_put_all_other : forall l m k, (forall kv, In kv l -> fst kv <> k) ->
  lget k (put_all l m) = lget k m.
Proof.
  induction l as [|[k0 v0] l IH]; intros m k H; cbn; auto.
  unfold put_all in IH. rewrite IH by (intros kv Hkv; apply H; right; exact Hkv).
  rewrite lget_lput. destruct (beqb k k0) eqn:E; auto.
  apply beqb_true in E. subst. exfalso. apply (H (k0, v0)); [left; reflexivity|reflexivity].
Qed.

(* a name that does not use the reserved tag gets its application name from the name position: no '{' in it *)
Theorem app_name_render : forall n l, name_ok n -> Forall tag_ok l ->
  (forall kv, In kv l -> trim (fst kv) <> name_key) ->
  app_name (parse (render n l)) = trim n /\ has c_lbrace (app_name (parse (render n l))) = false.
Proof.
  intros n l Hn Hl Hres.
  assert (E : app_name (parse (render n l)) = trim n).
  { rewrite parse_render by auto. unfold app_name. rewrite lget_put_all_other.
    - cbn. reflexivity.
    - intros kv Hkv. unfold trim_tags in Hkv. apply in_map_iff in Hkv. destruct Hkv as [[k v] [<- Hkv]].
      cbn. apply (Hres _ Hkv). }
  split; [exact E|]. rewrite E. apply has_trim_false. exact Hn.
Qed.

Corollary fixpoint_no_reserved : forall n l, name_ok n -> Forall tag_ok l ->
  (forall kv, In kv l -> trim (fst kv) <> name_key) ->
  parse (normalized (parse (render n l))) = parse (render n l).
Proof. intros n l Hn Hl Hres. apply fixpoint_partial. apply app_name_render; auto. Qed.
