(* C07StorageBridge.v — Model/Storage.v abstracts the inverted index by its specification (a filter over the
   sorted table of live series) and assumes that equal key texts mean equal series.  Both are discharged
   here from the models of the index (Model/Index.v) and of series names (Model/Key.v). *)
From Pyro Require Import Model.Base Model.Key Model.Dimension Model.Labels Model.Index Model.Segment Model.Storage.
From Pyro Require Import Proofs.BcmpProofs Proofs.KeyProofs Proofs.DimensionProofs Proofs.IndexProofs Proofs.IndexSumProofs.
Require Pyro.Proofs.StorageProofs.
From Coq Require Import Permutation.

(* the series identifier Storage.v uses for a parsed name *)
Definition sid_of (K : labels) : sid :=
  {| sid_key := normalized K; sid_app := app_name K; sid_tags := tags K |}.

(* ================= (1) key_consistent ================= *)

Theorem key_consistent_from_parse : forall s s',
  has c_lbrace (app_name (parse s)) = false -> has c_lbrace (app_name (parse s')) = false ->
  sid_key (sid_of (parse s)) = sid_key (sid_of (parse s')) ->
  sid_of (parse s) = sid_of (parse s') /\
  sid_app (sid_of (parse s)) = sid_app (sid_of (parse s')) /\
  sid_tags (sid_of (parse s)) = sid_tags (sid_of (parse s')).
Proof.
  intros s s' H H' E. cbn [sid_of sid_key] in E.
  assert (P : parse s = parse s').
  { rewrite <- (fixpoint_partial s H), <- (fixpoint_partial s' H'), E. reflexivity. }
  rewrite P. auto.
Qed.

Definition sid_parsed (x : sid) : Prop :=
  exists s, has c_lbrace (app_name (parse s)) = false /\ x = sid_of (parse s).

Theorem key_consistent_parsed : forall pis,
  (forall pi, In pi pis -> sid_parsed (pi_sid pi)) -> StorageProofs.key_consistent pis.
Proof.
  intros pis H pi pi' Hpi Hpi' E.
  destruct (H _ Hpi) as [s [Hs Es]]. destruct (H _ Hpi') as [s' [Hs' Es']].
  rewrite Es, Es' in *. apply key_consistent_from_parse; auto.
Qed.

(* ================= selector matching = sub_labels ================= *)

Lemma existsb_kv_In : forall kv (l : list (bytes * bytes)), existsb (kv_eqb kv) l = true <-> In kv l.
Proof.
  intros [k v] l. rewrite existsb_exists. split.
  - intros [[k' v'] [Hin E]]. unfold kv_eqb in E. cbn in E. apply andb_true_iff in E. destruct E as [E1 E2].
    apply beqb_true in E1. apply beqb_true in E2. subst. exact Hin.
  - intros H. exists (k, v). split; auto. unfold kv_eqb. cbn. rewrite !beqb_refl. reflexivity.
Qed.

Lemma In_tags : forall K kv, In kv (tags K) <-> In kv K /\ fst kv <> name_key.
Proof.
  intros K kv. unfold tags. rewrite filter_In, negb_true_iff. split; intros [A B]; split; auto.
  - apply beqb_false. exact B.
  - apply beqb_false. exact B.
Qed.

Lemma key_ok_name_entry : forall K, key_ok K -> In (name_key, app_name K) K.
Proof.
  intros K [_ [Hn _]]. unfold app_name. destruct (lget name_key K) eqn:E; [|congruence].
  apply lget_In. exact E.
Qed.

Lemma key_ok_name_unique : forall K v, key_ok K -> In (name_key, v) K -> v = app_name K.
Proof.
  intros K v HK H. pose proof (In_lget _ _ _ (key_ok_nodup K HK) H) as E.
  unfold app_name. rewrite E. reflexivity.
Qed.

Lemma sel_matches_sub : forall Q K, key_ok Q -> key_ok K ->
  sel_matches (sid_of Q) (sid_of K) = sub_labels Q K.
Proof.
  intros Q K HQ HK.
  pose proof (sub_labels_spec Q K (key_ok_nodup K HK)) as S.
  destruct (sub_labels Q K) eqn:Es.
  - pose proof (proj1 S eq_refl) as Hsub. unfold sel_matches. cbn [sid_of sid_app sid_tags].
    apply andb_true_iff. split.
    + apply beqb_true. apply (key_ok_name_unique K _ HK). apply Hsub. apply key_ok_name_entry. exact HQ.
    + apply forallb_forall. intros kv Hkv. apply existsb_kv_In. apply In_tags. apply In_tags in Hkv.
      destruct Hkv as [A B]. split; auto.
  - apply Bool.not_true_iff_false. intros Hm. unfold sel_matches in Hm. cbn [sid_of sid_app sid_tags] in Hm.
    apply andb_true_iff in Hm. destruct Hm as [Ha Ht]. apply beqb_true in Ha. rewrite forallb_forall in Ht.
    assert (X : false = true); [|discriminate].
    apply S. intros [k v] Hkv. destruct (beqb k name_key) eqn:Ek.
    + apply beqb_true in Ek. subst k. rewrite (key_ok_name_unique Q v HQ Hkv), Ha. apply key_ok_name_entry. exact HK.
    + apply beqb_false in Ek. assert (Hin : In (k, v) (tags Q)) by (apply In_tags; auto).
      apply Ht in Hin. apply existsb_kv_In in Hin. apply In_tags in Hin. tauto.
Qed.

(* ================= the table of live series ================= *)

Definition tbl := list (sid * segment).
Definition kf (ks : sid * segment) : bytes := sid_key (fst ks).
Definition tkeys (l : tbl) : list bytes := map kf l.

Lemma sid_eqb_true : forall x y, sid_eqb x y = true <-> sid_key x = sid_key y.
Proof. intros. unfold sid_eqb. apply beqb_true. Qed.

Lemma seg_store_keys_in : forall k s (l : tbl) y, In y (tkeys (seg_store k s l)) -> y = sid_key k \/ In y (tkeys l).
Proof.
  unfold tkeys. induction l as [|[k' s'] l IH]; intros y H; cbn in *.
  - destruct H; auto.
  - destruct (bcmp (sid_key k) (sid_key k')) eqn:E; cbn in *.
    + destruct H; auto.
    + destruct H as [H|[H|H]]; auto.
    + destruct H as [H|H]; auto. apply IH in H. destruct H; auto.
Qed.

Lemma seg_store_sorted : forall k s (l : tbl), ssorted (tkeys l) -> ssorted (tkeys (seg_store k s l)).
Proof.
  unfold tkeys. induction l as [|[k' s'] l IH]; intros H; cbn.
  - constructor.
  - destruct (bcmp (sid_key k) (sid_key k')) eqn:E; cbn.
    + apply bcmp_eq in E. unfold kf at 1. cbn [fst]. rewrite E. exact H.
    + constructor; auto.
    + apply ssorted_cons_intro.
      * apply IH. eapply ssorted_tail; eauto.
      * intros x Hx. apply seg_store_keys_in in Hx. destruct Hx as [->|Hx].
        -- apply bcmp_lt_gt. exact E.
        -- eapply ssorted_head_lt; eauto.
Qed.

Lemma seg_store_sids : forall k s (l : tbl), ssorted (tkeys l) ->
  (forall y, In y (map fst l) -> sid_key y = sid_key k -> y = k) ->
  forall x, In x (map fst (seg_store k s l)) <-> x = k \/ In x (map fst l).
Proof.
  induction l as [|[k' s'] l IH]; intros Hs Hu x; cbn.
  - intuition.
  - destruct (bcmp (sid_key k) (sid_key k')) eqn:E; cbn.
    + apply bcmp_eq in E. assert (k' = k) by (apply Hu; cbn; auto). subst k'. intuition.
    + intuition.
    + rewrite IH; [tauto|eapply ssorted_tail; eauto|intros y Hy; apply Hu; cbn; auto].
Qed.

Lemma seg_remove_sids : forall k (l : tbl), map fst (seg_remove k l) = filter (fun x => negb (sid_eqb k x)) (map fst l).
Proof.
  unfold seg_remove. induction l as [|[k' s'] l IH]; cbn; auto.
  destruct (sid_eqb k k'); cbn; rewrite IH; reflexivity.
Qed.

Lemma filter_sorted_keys : forall (f : sid * segment -> bool) (l : tbl), ssorted (tkeys l) -> ssorted (tkeys (filter f l)).
Proof.
  unfold tkeys. induction l as [|e l IH]; intros H; cbn; [constructor|].
  pose proof (ssorted_tail _ _ H) as Ht. destruct (f e); cbn; auto.
  apply ssorted_cons_intro; auto. intros x Hx. apply in_map_iff in Hx. destruct Hx as [e' [<- He']].
  apply filter_In in He'. eapply ssorted_head_lt; eauto. apply in_map. tauto.
Qed.

Lemma filter_filter_and : forall A (f g : A -> bool) l, filter f (filter g l) = filter (fun x => g x && f x) l.
Proof.
  induction l as [|x l IH]; cbn; auto. destruct (g x); cbn; [destruct (f x)|]; rewrite IH; reflexivity.
Qed.

(* entries of a table sorted strictly by key are determined by their key *)
Lemma sorted_same_key : forall (l : tbl) e e', ssorted (tkeys l) -> In e l -> In e' l -> kf e = kf e' -> e = e'.
Proof.
  unfold tkeys. induction l as [|a l IH]; intros e e' Hs He He' E; [destruct He|].
  pose proof (ssorted_tail _ _ Hs) as Ht. pose proof (ssorted_head_lt _ _ Hs) as Hh.
  destruct He as [->|He]; destruct He' as [->|He']; auto.
  - exfalso. assert (X : bcmp (kf e) (kf e') = Lt) by (apply Hh; apply in_map; exact He').
    rewrite E, bcmp_refl in X. discriminate.
  - exfalso. assert (X : bcmp (kf e') (kf e) = Lt) by (apply Hh; apply in_map; exact He).
    rewrite E, bcmp_refl in X. discriminate.
Qed.

(* ---- what Delete and the retention pass do to the table ---- *)

Lemma delete_fold_tbl : forall l st,
  st_segs (fold_left st_delete_series l st) = fold_left (fun s ks => seg_remove (fst ks) s) l (st_segs st).
Proof.
  induction l as [|ks l IH]; intros st; cbn [fold_left]; auto. rewrite IH. f_equal.
  unfold st_delete_series. destruct (s_delete_before_unix max_time_unix (snd ks)) as [[a b] c]. reflexivity.
Qed.

Lemma remove_fold_filter : forall (l : tbl) (s : tbl),
  fold_left (fun s ks => seg_remove (fst ks) s) l s
  = filter (fun e => negb (existsb (fun ks => sid_eqb (fst ks) (fst e)) l)) s.
Proof.
  induction l as [|ks l IH]; intros s; cbn [fold_left existsb].
  - cbn. clear. induction s as [|e s IH]; cbn; auto. rewrite <- IH. reflexivity.
  - rewrite IH. unfold seg_remove. rewrite filter_filter_and. apply filter_ext. intros e.
    rewrite negb_orb. reflexivity.
Qed.

Definition root_deleted (thr : Z) (seg : segment) : bool := snd (s_delete_before_unix thr seg).

Definition ret_step (thr : Z) (s : tbl) (ks : sid * segment) : tbl :=
  if root_deleted thr (snd ks) then seg_remove (fst ks) s
  else seg_store (fst ks) (fst (fst (s_delete_before_unix thr (snd ks)))) s.

Lemma retention_fold_tbl : forall thr l st,
  st_segs (fold_left (st_retention_series thr) l st) = fold_left (ret_step thr) l (st_segs st).
Proof.
  induction l as [|ks l IH]; intros st; cbn [fold_left]; auto. rewrite IH. f_equal.
  unfold st_retention_series, ret_step, root_deleted.
  destruct (s_delete_before_unix thr (snd ks)) as [[a b] c]. cbn [fst snd]. destruct c; reflexivity.
Qed.

Lemma seg_store_same_sids : forall k s (l : tbl), ssorted (tkeys l) -> In k (map fst l) ->
  map fst (seg_store k s l) = map fst l.
Proof.
  induction l as [|[k' s'] l IH]; intros Hs Hin; [destruct Hin|]. cbn in *.
  pose proof (ssorted_tail _ _ Hs) as Ht. pose proof (ssorted_head_lt _ _ Hs) as Hh.
  destruct (bcmp (sid_key k) (sid_key k')) eqn:E; cbn.
  - destruct Hin as [->|Hin]; auto. exfalso. apply bcmp_eq in E.
    apply in_map_iff in Hin. destruct Hin as [e [<- He]].
    assert (X : bcmp (kf (k', s')) (kf e) = Lt) by (apply Hh; apply in_map; exact He).
    unfold kf in X. cbn [fst] in X. rewrite E, bcmp_refl in X. discriminate.
  - exfalso. destruct Hin as [->|Hin]; [rewrite bcmp_refl in E; discriminate|].
    apply in_map_iff in Hin. destruct Hin as [e [<- He]].
    assert (X : bcmp (kf (k', s')) (kf e) = Lt) by (apply Hh; apply in_map; exact He).
    unfold kf in X. cbn [fst] in X. apply bcmp_lt_gt in E. apply bcmp_lt_gt in E.
    assert (Y : bcmp (sid_key (fst e)) (sid_key (fst e)) = Lt) by (eapply bcmp_trans; eauto).
    rewrite bcmp_refl in Y. discriminate.
  - f_equal. apply IH; auto. destruct Hin as [->|Hin]; auto. rewrite bcmp_refl in E. discriminate.
Qed.

Lemma sids_sorted_transfer : forall (l l' : tbl), map fst l = map fst l' -> ssorted (tkeys l) -> ssorted (tkeys l').
Proof.
  intros l l' E H. unfold tkeys, kf in *. rewrite <- (map_map fst sid_key) in *. rewrite <- E. exact H.
Qed.

Lemma filter_all_true : forall A (f : A -> bool) l, (forall x, f x = true) -> filter f l = l.
Proof. induction l as [|x l IH]; intros H; cbn; auto. rewrite H, IH; auto. Qed.

(* the sids left by a retention pass over the entries l (all present, pairwise different keys) *)
Lemma retention_sids : forall thr (l : tbl) (s : tbl),
  ssorted (tkeys s) -> NoDup (tkeys l) -> (forall e, In e l -> In (fst e) (map fst s)) ->
  ssorted (tkeys (fold_left (ret_step thr) l s)) /\
  map fst (fold_left (ret_step thr) l s)
  = filter (fun x => negb (existsb (fun e => sid_eqb (fst e) x && root_deleted thr (snd e)) l)) (map fst s).
Proof.
  induction l as [|e l IH]; intros s Hs Hnd Hin; cbn [fold_left existsb].
  - split; auto. symmetry. apply filter_all_true. intros x. reflexivity.
  - cbn [tkeys map] in Hnd. apply NoDup_cons_iff in Hnd. destruct Hnd as [Hne Hnd].
    unfold ret_step at 2 4. destruct (root_deleted thr (snd e)) eqn:Er.
    + assert (Hs1 : ssorted (tkeys (seg_remove (fst e) s))) by (apply filter_sorted_keys; exact Hs).
      assert (Hin1 : forall e', In e' l -> In (fst e') (map fst (seg_remove (fst e) s))).
      { intros e' He'. rewrite seg_remove_sids. apply filter_In. split; [apply Hin; right; exact He'|].
        apply negb_true_iff. apply Bool.not_true_iff_false. intros X. apply sid_eqb_true in X.
        apply Hne. unfold tkeys. apply in_map_iff. exists e'. split; [unfold kf; congruence|exact He']. }
      destruct (IH _ Hs1 Hnd Hin1) as [A B]. split; auto.
      rewrite B, seg_remove_sids, filter_filter_and. apply filter_ext. intros x.
      rewrite andb_true_r, negb_orb. reflexivity.
    + set (s1 := seg_store (fst e) (fst (fst (s_delete_before_unix thr (snd e)))) s).
      assert (E1 : map fst s1 = map fst s) by (apply seg_store_same_sids; auto; apply Hin; left; reflexivity).
      assert (Hs1 : ssorted (tkeys s1)) by (eapply sids_sorted_transfer; [symmetry; exact E1|exact Hs]).
      assert (Hin1 : forall e', In e' l -> In (fst e') (map fst s1)) by (intros e' He'; rewrite E1; apply Hin; right; exact He').
      destruct (IH _ Hs1 Hnd Hin1) as [A B]. split; auto.
      rewrite B, E1. apply filter_ext. intros x. rewrite andb_false_r. reflexivity.
Qed.

(* ================= (2) the index in lock-step with Storage.v ================= *)

Definition lbl_of (x : sid) : labels := parse (sid_key x).

(* what the index (Model/Index.v) sees of one storage operation: an accepted Put registers the series; Delete
   runs the selector; a retention pass drops exactly the series whose segment root it deletes *)
Definition iops_of (rthr : option Z) (st : st_state) (o : st_op) : list iop :=
  match o with
  | OpPut pi => if snd (st_put rthr pi st) then [IPut (lbl_of (pi_sid pi)) [] 0%N] else []
  | OpGet _ _ _ => []
  | OpDelete sel => [IDelete (lbl_of sel)]
  | OpRetention thr =>
      map (fun ks => IDrop (lbl_of (fst ks))) (filter (fun ks => root_deleted thr (snd ks)) (st_segs st))
  end.

Fixpoint bridge_run (rthr : option Z) (ops : list st_op) (st : st_state) (ist : Index.index) : st_state * Index.index :=
  match ops with
  | [] => (st, ist)
  | o :: ops' => bridge_run rthr ops' (fst (st_step rthr st o)) (fold_left ix_step (iops_of rthr st o) ist)
  end.

Lemma bridge_run_storage : forall rthr ops st ist,
  fst (bridge_run rthr ops st ist) = fst (st_run rthr ops st).
Proof.
  induction ops as [|o ops IH]; intros st ist; cbn [bridge_run st_run]; auto.
  rewrite IH. destruct (st_step rthr st o) as [st1 out]. cbn [fst].
  destruct (st_run rthr ops st1) as [st2 outs]. reflexivity.
Qed.

(* every series identifier in the history comes from a name admitted by the index theorems *)
Definition sid_ok (x : sid) : Prop := exists K, key_ok K /\ x = sid_of K.
Definition op_parsed (o : st_op) : Prop :=
  match o with
  | OpPut pi => sid_ok (pi_sid pi)
  | OpDelete sel => sid_ok sel
  | _ => True
  end.

Lemma lbl_of_sid_of : forall K, key_ok K -> lbl_of (sid_of K) = K.
Proof. intros K HK. unfold lbl_of. cbn. apply key_ok_fix. exact HK. Qed.

Record J (st : st_state) (ist : Index.index) (L : list labels) : Prop := {
  j_inv : Inv ist L;
  j_sorted : ssorted (tkeys (st_segs st));
  j_sids : forall x, In x (map fst (st_segs st)) <-> exists K, In K L /\ x = sid_of K
}.

Lemma J_init : J st_init ix_empty [].
Proof.
  constructor; [apply Inv_empty|constructor|]. intros x. cbn. split; [intros []|intros [K [[] _]]].
Qed.

Lemma st_put_tbl : forall rthr pi st,
  (snd (st_put rthr pi st) = true /\
   exists seg', st_segs (fst (st_put rthr pi st)) = seg_store (pi_sid pi) seg' (st_segs st)) \/
  (snd (st_put rthr pi st) = false /\ fst (st_put rthr pi st) = st).
Proof.
  intros rthr pi st. unfold st_put. destruct rthr as [thr|].
  - destruct (Z.ltb (pi_from pi) thr); [right; auto|].
    destruct (s_put_unix _ _ _ _) as [seg' cbs]. left. cbn. eauto.
  - destruct (s_put_unix _ _ _ _) as [seg' cbs]. left. cbn. eauto.
Qed.

Lemma drops_inv : forall Ks ist L, Forall key_ok Ks -> Inv ist L ->
  Inv (fold_left ix_step (map IDrop Ks) ist) (fold_left live_step (map IDrop Ks) L) /\
  (forall K', In K' (fold_left live_step (map IDrop Ks) L) <-> In K' L /\ ~ In K' Ks).
Proof.
  induction Ks as [|K Ks IH]; intros ist L Hok HI; cbn [map fold_left].
  - split; auto. intros K'. cbn. tauto.
  - inversion Hok; subst. cbn [ix_step live_step].
    destruct (IH _ _ H2 (delete_series_inv ist L K HI H1)) as [A B]. split; auto.
    intros K'. rewrite B, filter_In, negb_true_iff. cbn [In]. split.
    + intros [[H3 H4] H5]. split; auto. intros [->|X]; auto.
      rewrite (proj2 (labels_eqb_true K' K') eq_refl) in H4. discriminate.
    + intros [H3 H4]. split; [split; auto|tauto].
      destruct (labels_eqb K' K) eqn:E; auto. apply labels_eqb_true in E. subst. exfalso. auto.
Qed.

Lemma filter_all_true_in : forall A (f : A -> bool) l, (forall x, In x l -> f x = true) -> filter f l = l.
Proof.
  induction l as [|x l IH]; intros H; cbn; auto. rewrite (H x (or_introl eq_refl)), IH; auto.
  intros y Hy. apply H. right. exact Hy.
Qed.

Lemma step_J : forall rthr st ist L o, J st ist L -> op_parsed o ->
  J (fst (st_step rthr st o)) (fold_left ix_step (iops_of rthr st o) ist)
    (fold_left live_step (iops_of rthr st o) L).
Proof.
  intros rthr st ist L o [HI HS HM] Ho.
  pose proof (inv_ok _ _ HI) as A. rewrite Forall_forall in A.
  assert (Huniq : forall K y, key_ok K -> In y (map fst (st_segs st)) -> sid_key y = sid_key (sid_of K) -> y = sid_of K).
  { intros K y HK Hy E. apply HM in Hy. destruct Hy as [K' [HK' ->]]. cbn in E.
    apply norm_inj in E; auto. subst. reflexivity. }
  destruct o as [pi|sel f u|sel|thr]; cbn [st_step iops_of op_parsed] in *.
  - (* Put *)
    destruct Ho as [K [HK Epi]].
    destruct (st_put rthr pi st) as [st' ok] eqn:Eput. cbn [fst snd].
    destruct (st_put_tbl rthr pi st) as [[Hok [seg' Etbl]]|[Hok Est]]; rewrite Eput in *; cbn [fst snd] in *; subst ok.
    + rewrite Epi, lbl_of_sid_of by auto. cbn [fold_left ix_step]. rewrite Epi in Etbl. constructor.
      * apply put_inv; auto.
      * rewrite Etbl. apply seg_store_sorted. exact HS.
      * intros x. rewrite Etbl. rewrite (seg_store_sids (sid_of K) seg' (st_segs st) HS (fun y Hy E => Huniq K y HK Hy E)).
        rewrite HM. split.
        -- intros [->|[K' [H1 ->]]]; [exists K|exists K']; split; auto; apply live_put_In; auto.
        -- intros [K' [H1 ->]]. apply live_put_In in H1. destruct H1 as [H1| ->]; [right; exists K'|left]; auto.
    + subst st'. cbn [fold_left]. constructor; auto.
  - (* Get *) cbn [fold_left fst]. constructor; auto.
  - (* Delete *)
    destruct Ho as [Q [HQ ->]]. rewrite lbl_of_sid_of by auto. cbn [fold_left ix_step live_step fst].
    unfold st_delete. set (m := filter (fun ks => sel_matches (sid_of Q) (fst ks)) (st_segs st)).
    assert (Etbl : st_segs (fold_left st_delete_series m st)
                   = filter (fun e => negb (sel_matches (sid_of Q) (fst e))) (st_segs st)).
    { rewrite delete_fold_tbl, remove_fold_filter. apply filter_ext_in. intros e He. f_equal.
      destruct (sel_matches (sid_of Q) (fst e)) eqn:Em.
      - apply existsb_exists. exists e. split; [apply filter_In; auto|apply sid_eqb_true; reflexivity].
      - apply Bool.not_true_iff_false. intros X. apply existsb_exists in X. destruct X as [e' [He' E']].
        apply filter_In in He'. destruct He' as [He' Hm']. apply sid_eqb_true in E'.
        assert (e' = e) by (eapply sorted_same_key; eauto). subst. congruence. }
    constructor.
    + apply delete_inv; auto.
    + rewrite Etbl. apply filter_sorted_keys. exact HS.
    + intros x. rewrite Etbl. split.
      * intros Hx. apply in_map_iff in Hx. destruct Hx as [e [<- He]]. apply filter_In in He. destruct He as [He Hn].
        assert (Hin : In (fst e) (map fst (st_segs st))) by (apply in_map; exact He).
        apply HM in Hin. destruct Hin as [K [HK EK]]. exists K. split; auto. apply filter_In. split; auto.
        rewrite EK in Hn. rewrite sel_matches_sub in Hn; auto.
      * intros [K [HK ->]]. apply filter_In in HK. destruct HK as [HK Hn].
        assert (Hin : In (sid_of K) (map fst (st_segs st))) by (apply HM; exists K; auto).
        apply in_map_iff in Hin. destruct Hin as [e [Ee He]]. apply in_map_iff. exists e. split; auto.
        apply filter_In. split; auto. rewrite Ee, sel_matches_sub; auto.
  - (* Retention *)
    cbn [fst]. unfold st_retention. set (segs := st_segs st) in *.
    set (dropped := filter (fun ks => root_deleted thr (snd ks)) segs).
    rewrite <- (map_map (fun ks => lbl_of (fst ks)) IDrop).
    set (Ks := map (fun ks => lbl_of (fst ks)) dropped).
    assert (HKs : forall K', In K' Ks <-> exists e, In e segs /\ root_deleted thr (snd e) = true /\ fst e = sid_of K' /\ In K' L).
    { intros K'. unfold Ks. rewrite in_map_iff. split.
      - intros [e [Ee He]]. apply filter_In in He. destruct He as [He Hr].
        assert (Hin : In (fst e) (map fst segs)) by (apply in_map; exact He).
        apply HM in Hin. destruct Hin as [K [HK EK]]. rewrite EK, lbl_of_sid_of in Ee by auto. subst K'.
        exists e. auto.
      - intros [e [He [Hr [Ee HK']]]]. exists e. split; [rewrite Ee; apply lbl_of_sid_of; auto|].
        apply filter_In. auto. }
    assert (HKok : Forall key_ok Ks).
    { apply Forall_forall. intros K' HK'. apply HKs in HK'. destruct HK' as [e [_ [_ [_ HL]]]]. auto. }
    destruct (drops_inv Ks ist L HKok HI) as [HI' HL'].
    destruct (retention_sids thr segs segs HS (ssorted_NoDup _ HS) (fun e He => in_map fst _ _ He)) as [S' M'].
    constructor; auto.
    + rewrite retention_fold_tbl. exact S'.
    + intros x. rewrite retention_fold_tbl. fold segs. rewrite M', filter_In. split.
      * intros [Hx Hn]. apply HM in Hx. destruct Hx as [K [HK ->]]. exists K. split; auto. apply HL'. split; auto.
        intros HKK. apply HKs in HKK. destruct HKK as [e [He [Hr [Ee _]]]].
        apply negb_true_iff in Hn. rewrite <- Bool.not_true_iff_false in Hn. apply Hn.
        apply existsb_exists. exists e. split; auto. rewrite Hr, andb_true_r. apply sid_eqb_true. rewrite Ee. reflexivity.
      * intros [K [HKL ->]]. apply HL' in HKL. destruct HKL as [HK Hn]. split; [apply HM; exists K; auto|].
        apply negb_true_iff. apply Bool.not_true_iff_false. intros X. apply existsb_exists in X.
        destruct X as [e [He E]]. apply andb_true_iff in E. destruct E as [E1 E2]. apply sid_eqb_true in E1.
        apply Hn. apply HKs. exists e. repeat split; auto.
        apply Huniq; auto. apply in_map. exact He.
Qed.

Lemma run_J : forall rthr ops st ist L, J st ist L -> Forall op_parsed ops ->
  exists L', J (fst (bridge_run rthr ops st ist)) (snd (bridge_run rthr ops st ist)) L'.
Proof.
  induction ops as [|o ops IH]; intros st ist L HJ Hok; cbn [bridge_run].
  - exists L. exact HJ.
  - inversion Hok; subst. eapply IH; eauto. apply step_J; eauto.
Qed.

Lemma J_lookup : forall st ist L Q, J st ist L -> key_ok Q ->
  ix_select_series Q ist
  = Some (map (fun ks => sid_key (fst ks)) (filter (fun ks => sel_matches (sid_of Q) (fst ks)) (st_segs st))).
Proof.
  intros st ist L Q [HI HS HM] HQ.
  pose proof (inv_ok _ _ HI) as A. rewrite Forall_forall in A.
  destruct (select_spec ist L Q HI HQ) as [r [E [S M]]].
  unfold ix_select_series. rewrite E. f_equal.
  assert (Hid : map (fun sk => normalized (parse sk)) r = r).
  { rewrite <- (map_id r) at 2. apply map_ext_in. intros x Hx. apply M in Hx.
    destruct Hx as [K [HK [-> _]]]. rewrite key_ok_fix; auto. }
  rewrite Hid. rewrite filter_all_true_in.
  2:{ intros x Hx. apply M in Hx. destruct Hx as [K [HK [-> _]]]. apply (inv_segs _ _ HI). exists K. auto. }
  apply ssorted_ext; auto.
  - apply (filter_sorted_keys (fun ks => sel_matches (sid_of Q) (fst ks))). exact HS.
  - intros x. rewrite M, in_map_iff. split.
    + intros [K [HK [-> Hs]]].
      assert (Hin : In (sid_of K) (map fst (st_segs st))) by (apply HM; exists K; auto).
      apply in_map_iff in Hin. destruct Hin as [e [Ee He]]. exists e. rewrite Ee. split; [reflexivity|].
      apply filter_In. split; auto. rewrite Ee, sel_matches_sub; auto.
    + intros [e [<- He]]. apply filter_In in He. destruct He as [He Hm].
      assert (Hin : In (fst e) (map fst (st_segs st))) by (apply in_map; exact He).
      apply HM in Hin. destruct Hin as [K [HK EK]]. exists K. rewrite EK in *. split; auto. split; [reflexivity|].
      rewrite sel_matches_sub in Hm; auto.
Qed.

(* index_lookup_is_filter: over any history of Put / Get / Delete / retention passes whose series identifiers
   come from admitted names, the keys the inverted index returns for a selector are exactly the keys of the
   entries of Storage.v's series table that the selector matches — same set, same order (sorted by key bytes) *)
Theorem index_lookup_is_filter : forall rthr ops Q, Forall op_parsed ops -> key_ok Q ->
  let st := fst (st_run rthr ops st_init) in
  let ist := snd (bridge_run rthr ops st_init ix_empty) in
  ix_select_series Q ist
  = Some (map (fun ks => sid_key (fst ks)) (filter (fun ks => sel_matches (sid_of Q) (fst ks)) (st_segs st))).
Proof.
  intros rthr ops Q Hops HQ. cbv zeta.
  destruct (run_J rthr ops st_init ix_empty [] J_init Hops) as [L HJ].
  rewrite <- (bridge_run_storage rthr ops st_init ix_empty).
  eapply J_lookup; eauto.
Qed.

(* and the selector's result does not depend on the stack/count the bridge registers puts with: it is the
   index of Model/Index.v driven by IPut/IDelete/IDrop only *)
Theorem storage_table_sids : forall rthr ops, Forall op_parsed ops ->
  exists L, Forall key_ok L /\ ssorted (tkeys (st_segs (fst (st_run rthr ops st_init)))) /\
            forall x, In x (map fst (st_segs (fst (st_run rthr ops st_init)))) <-> exists K, In K L /\ x = sid_of K.
Proof.
  intros rthr ops Hops. destruct (run_J rthr ops st_init ix_empty [] J_init Hops) as [L [HI HS HM]].
  rewrite (bridge_run_storage rthr ops st_init ix_empty) in *. exists L. split; [apply (inv_ok _ _ HI)|auto].
Qed.

(* which identifiers are admitted: any parsed name without '{' in the __name__ value and ':' in a tag name *)
Lemma sid_ok_parse : forall s,
  has c_lbrace (app_name (parse s)) = false ->
  forallb (fun kv => negb (has c_colon (fst kv))) (parse s) = true ->
  sid_ok (sid_of (parse s)).
Proof. intros s H1 H2. exists (parse s). split; [apply parse_key_ok; auto|reflexivity]. Qed.

(* app{a=1} at 0 s, app{a=2} at 1000000 s, retention at 500000 s (drops the first), re-ingest app{a=1}, query app *)
Example index_lookup_is_filter_nonvacuous :
  let n1 := [97;112;112;123;97;61;49;125] in let n2 := [97;112;112;123;97;61;50;125] in
  let q := [97;112;112] in
  let prof := TNode [] 0 3 [TNode [115] 3 3 []] in
  let put n t := OpPut {| pi_sid := sid_of (parse n); pi_from := t; pi_until := t + 10; pi_tree := prof; pi_meta := meta0 |} in
  let ops := [put n1 0%Z; put n2 1000000%Z; OpRetention 500000%Z] in
  let ops2 := (ops ++ [put n1 20%Z])%list in
  Forall op_parsed ops2 /\ key_ok (parse q) /\
  map (fun ks => sid_key (fst ks)) (st_segs (fst (st_run None ops st_init))) = [normalized (parse n2)] /\
  ix_select_series (parse q) (snd (bridge_run None ops2 st_init ix_empty)) = Some [normalized (parse n1); normalized (parse n2)].
Proof.
  cbv zeta. split; [|split; [|split]].
  - repeat constructor; apply sid_ok_parse; vm_compute; reflexivity.
  - apply parse_key_ok; vm_compute; reflexivity.
  - vm_compute. reflexivity.
  - vm_compute. reflexivity.
Qed.
