(* TreeReloadProofs.v — replacing a stored profile tree by its reloaded form decode(encode t) never changes what
   later storage operations (Merge, Clone) return, per stack.  For property C02 (cache transparency).

   P        := t_prune 0            (children of zero-total frames dropped: what the codec returns for an EXACT tree
                                     below the node cap, C04_lossless)
   t_reload := t_retotal (t_prune 0) (what the codec returns for ANY tree below the cap, C04_inexact_preserved;
                                     equals P on exact trees)
   a ~ b    := teq a b: for every path p the self value and the total at p agree (absent path = 0)
   a ~s b   := seq a b: for every path p the self value at p agrees. *)
From Pyro Require Import Model.Base Model.Varint Model.Tree Model.Cappedarr Model.Dict Model.TreeCodec
  Proofs.TreeProofs Proofs.TreeCodecProofs.
From Coq Require Import ZifyN ZifyNat ZifyBool.
Ltac Zify.zify_post_hook ::= Z.div_mod_to_equations.

Definition P (t : tnode) : tnode := t_prune 0 t.
Definition t_reload (t : tnode) : tnode := t_retotal (t_prune 0 t).

Definition teq (a b : tnode) : Prop :=
  forall p, t_self_at p a = t_self_at p b /\ t_total_at p a = t_total_at p b.
Definition seq (a b : tnode) : Prop := forall p, t_self_at p a = t_self_at p b.

Lemma teq_refl a : teq a a. Proof. intros p. auto. Qed.
Lemma teq_sym a b : teq a b -> teq b a. Proof. intros H p. destruct (H p). auto. Qed.
Lemma teq_trans a b c : teq a b -> teq b c -> teq a c.
Proof. intros H1 H2 p. destruct (H1 p), (H2 p). split; congruence. Qed.
Lemma teq_seq a b : teq a b -> seq a b. Proof. intros H p. apply H. Qed.
Lemma seq_refl a : seq a a. Proof. intros p. reflexivity. Qed.
Lemma seq_sym a b : seq a b -> seq b a. Proof. intros H p. symmetry. apply H. Qed.
Lemma seq_trans a b c : seq a b -> seq b c -> seq a c. Proof. intros H1 H2 p. rewrite H1. apply H2. Qed.

(* ---- lookups through name-preserving maps ---- *)
Lemma t_find_map : forall (f : tnode -> tnode) l ch, (forall c, t_name (f c) = t_name c) ->
  t_find l (map f ch) = option_map f (t_find l ch).
Proof.
  intros f l ch Hf. induction ch as [|c ch IH]; cbn [map t_find]; [reflexivity|].
  rewrite Hf. destruct (beqb (t_name c) l); [reflexivity|exact IH].
Qed.

Lemma prune_name th t : t_name (t_prune th t) = t_name t. Proof. destruct t; reflexivity. Qed.
Lemma retotal_name t : t_name (t_retotal t) = t_name t. Proof. destruct t; reflexivity. Qed.

Lemma prune_wf : forall th t, t_wfb t = true -> t_wfb (t_prune th t) = true.
Proof.
  intros th. induction t as [n s tot ch IH] using tnode_ind'. intros Hwf.
  apply t_wfb_iff in Hwf. cbn [t_ch] in Hwf. destruct Hwf as [Hs Hc].
  cbn [t_prune]. destruct (th <? tot); [|reflexivity].
  apply t_wfb_iff. cbn [t_ch]. split.
  - rewrite sorted_names_map; [exact Hs|apply prune_name].
  - rewrite Forall_map. rewrite Forall_forall in *. auto.
Qed.

Lemma reload_wf : forall t, t_wfb t = true -> t_wfb (t_reload t) = true.
Proof. intros t H. exact (R_wf 0 t H). Qed.

Lemma P_wf t : t_wfb t = true -> t_wfb (P t) = true. Proof. apply prune_wf. Qed.

Lemma find_total_le : forall l ch c, t_find l ch = Some c -> t_total c <= ch_total ch.
Proof.
  induction ch as [|c0 ch IH]; intros c H; cbn [t_find] in H; [discriminate|]. rewrite ch_total_cons.
  destruct (beqb (t_name c0) l); [injection H as <-; lia|specialize (IH c H); lia].
Qed.

(* under t_sub, self <= total <= total of every ancestor *)
Lemma at_le_total : forall p t s tt, t_subb t = true -> t_at p t = Some (s, tt) -> s <= tt /\ tt <= t_total t.
Proof.
  induction p as [|l p IH]; intros [n s0 tot ch] s tt Hsub H;
    cbn [t_subb] in Hsub; apply andb_true_iff in Hsub; destruct Hsub as [Hle Hc]; apply N.leb_le in Hle.
  - cbn in H. injection H as <- <-. cbn. lia.
  - cbn [t_at t_ch] in H. destruct (t_find l ch) as [c|] eqn:Hf; [|discriminate].
    pose proof (find_total_le _ _ _ Hf). rewrite forallb_forall in Hc.
    destruct (IH c s tt (Hc c (t_find_in _ _ _ Hf)) H). cbn [t_total]. lia.
Qed.

(* P a ~ a *)
Lemma P_teq : forall a, t_subb a = true -> teq (P a) a.
Proof.
  intros a Hsub p. revert a Hsub. induction p as [|l p IH]; intros [n s tot ch] Hsub.
  - split; reflexivity.
  - unfold t_self_at, t_total_at, P in *. cbn [t_prune t_at t_ch].
    pose proof Hsub as Hsub0.
    cbn [t_subb] in Hsub. apply andb_true_iff in Hsub. destruct Hsub as [Hle Hc]. apply N.leb_le in Hle.
    destruct (N.ltb_spec 0 tot) as [Hpos|Hz].
    + rewrite t_find_map by (apply prune_name). destruct (t_find l ch) as [c|] eqn:Hf; cbn [option_map]; [|auto].
      rewrite forallb_forall in Hc. apply IH. apply Hc. eapply t_find_in; eauto.
    + cbn [t_find]. destruct (t_find l ch) as [c|] eqn:Hf; [|auto].
      destruct (t_at p c) as [[s1 t1]|] eqn:Hat; [|auto].
      assert (Hat' : t_at (l :: p) (TNode n s tot ch) = Some (s1, t1)) by (cbn [t_at t_ch]; rewrite Hf; exact Hat).
      destruct (at_le_total _ _ _ _ Hsub0 Hat'). cbn [t_total] in *. split; lia.
Qed.

Lemma retotal_self_at : forall p t, t_self_at p (t_retotal t) = t_self_at p t.
Proof.
  unfold t_self_at. induction p as [|l p IH]; intros [n s tot ch]; [reflexivity|].
  cbn [t_retotal t_at t_ch]. rewrite t_find_map by (apply retotal_name).
  destruct (t_find l ch) as [c|]; cbn [option_map]; [apply IH|reflexivity].
Qed.

(* the reloaded form of ANY stored tree has the same per-stack self values *)
Lemma reload_seq : forall a, t_subb a = true -> seq (t_reload a) a.
Proof. intros a Hsub p. unfold t_reload. rewrite retotal_self_at. apply (P_teq a Hsub p). Qed.

Lemma reload_exact : forall a, t_exactb a = true -> t_reload a = P a.
Proof. intros a H. exact (R_total_exact a H). Qed.

(* ... and of an exact tree also the same totals *)
Lemma reload_teq : forall a, t_exactb a = true -> teq (t_reload a) a.
Proof. intros a H. rewrite reload_exact by exact H. apply P_teq, t_exact_sub, H. Qed.

(* ---- ~ and ~s are congruences for Merge and Clone ---- *)
Lemma merge_teq : forall a a' b b', t_wfb a = true -> t_wfb a' = true -> t_wfb b = true -> t_wfb b' = true ->
  teq a a' -> teq b b' -> teq (t_merge a b) (t_merge a' b').
Proof.
  intros a a' b b' Ha Ha' Hb Hb' H1 H2 p. rewrite !t_merge_self_at, !t_merge_total_at by assumption.
  destruct (H1 p), (H2 p). split; congruence.
Qed.

Lemma merge_seq : forall a a' b b', t_wfb a = true -> t_wfb a' = true -> t_wfb b = true -> t_wfb b' = true ->
  seq a a' -> seq b b' -> seq (t_merge a b) (t_merge a' b').
Proof.
  intros a a' b b' Ha Ha' Hb Hb' H1 H2 p. rewrite !t_merge_self_at by assumption. rewrite (H1 p), (H2 p). reflexivity.
Qed.

Lemma clone_self_at m d p t : t_self_at p (t_clone m d t) = t_self_at p t * m / d.
Proof. unfold t_self_at. rewrite t_clone_at. destruct (t_at p t) as [[s tt]|]; reflexivity. Qed.
Lemma clone_total_at m d p t : t_total_at p (t_clone m d t) = t_total_at p t * m / d.
Proof. unfold t_total_at. rewrite t_clone_at. destruct (t_at p t) as [[s tt]|]; reflexivity. Qed.

Lemma clone_teq : forall m d a a', teq a a' -> teq (t_clone m d a) (t_clone m d a').
Proof. intros m d a a' H p. rewrite !clone_self_at, !clone_total_at. destruct (H p) as [-> ->]. auto. Qed.
Lemma clone_seq : forall m d a a', seq a a' -> seq (t_clone m d a) (t_clone m d a').
Proof. intros m d a a' H p. rewrite !clone_self_at, (H p). reflexivity. Qed.

(* ---- the forms asked for by C02 ---- *)
Lemma merge_P_left_self : forall a b p, t_wfb a = true -> t_wfb b = true -> t_subb a = true ->
  t_self_at p (t_merge (P a) b) = t_self_at p (t_merge a b).
Proof. intros a b p Ha Hb Hs. apply (merge_teq (P a) a b b); auto using P_wf, P_teq, teq_refl. Qed.
Lemma merge_P_left_total : forall a b p, t_wfb a = true -> t_wfb b = true -> t_subb a = true ->
  t_total_at p (t_merge (P a) b) = t_total_at p (t_merge a b).
Proof. intros a b p Ha Hb Hs. apply (merge_teq (P a) a b b); auto using P_wf, P_teq, teq_refl. Qed.
Lemma merge_P_right_self : forall a b p, t_wfb a = true -> t_wfb b = true -> t_subb b = true ->
  t_self_at p (t_merge a (P b)) = t_self_at p (t_merge a b).
Proof. intros a b p Ha Hb Hs. apply (merge_teq a a (P b) b); auto using P_wf, P_teq, teq_refl. Qed.
Lemma merge_P_right_total : forall a b p, t_wfb a = true -> t_wfb b = true -> t_subb b = true ->
  t_total_at p (t_merge a (P b)) = t_total_at p (t_merge a b).
Proof. intros a b p Ha Hb Hs. apply (merge_teq a a (P b) b); auto using P_wf, P_teq, teq_refl. Qed.
Lemma merge_reload_self : forall a b p, t_wfb a = true -> t_wfb b = true -> t_subb a = true -> t_subb b = true ->
  t_self_at p (t_merge (t_reload a) (t_reload b)) = t_self_at p (t_merge a b).
Proof. intros a b p Ha Hb Hsa Hsb. apply (merge_seq (t_reload a) a (t_reload b) b); auto using reload_wf, reload_seq. Qed.

(* Clone commutes with P up to P — structurally *)
Lemma P_clone_P : forall m d a, P (t_clone m d (P a)) = P (t_clone m d a).
Proof.
  intros m d. induction a as [n s tot ch IH] using tnode_ind'. unfold P in *. cbn [t_prune t_clone].
  f_equal. destruct (N.ltb_spec 0 (tot * m / d)) as [Hpos|Hz]; [|reflexivity].
  assert (Htot : 0 < tot) by (destruct (N.eq_dec tot 0) as [->|]; [cbn in Hpos; lia|lia]).
  replace (0 <? tot) with true by lia. rewrite !map_map. apply map_ext_in.
  rewrite Forall_forall in IH. exact IH.
Qed.

(* ---- structural statements: with P the merge equation is FALSE; with zero-total frames stripped it holds ---- *)
(* P (merge (P a) (P b)) = P (merge a b) fails: a zero-total frame of a that sits below a frame which is zero in a
   but positive in b survives (as a zero-total leaf) in P (merge a b) and not in merge (P a) (P b). *)
Example P_merge_P_refuted :
  let a := TNode [] 0 0 [TNode [120] 0 0 [TNode [121] 0 0 []]] in
  let b := TNode [] 0 5 [TNode [120] 5 5 []] in
  t_wfb a = true /\ t_exactb a = true /\ t_wfb b = true /\ t_exactb b = true /\
  P (t_merge (P a) (P b)) <> P (t_merge a b) /\
  t_strip0 (t_merge (P a) (P b)) = t_strip0 (t_merge a b).
Proof. vm_compute. repeat split; discriminate. Qed.

Lemma strip0_name t : t_name (t_strip0 t) = t_name t. Proof. destruct t; reflexivity. Qed.

Lemma all_gt_strip_go : forall x ch, all_gt x ch -> all_gt x (strip_go ch).
Proof.
  intros x ch H. induction H as [|c ch Hc _ IH]; cbn [strip_go]; [constructor|].
  destruct (t_total c =? 0); [exact IH|]. constructor; [rewrite strip0_name; exact Hc|exact IH].
Qed.

Lemma strip0_wf : forall t, t_wfb t = true -> t_wfb (t_strip0 t) = true.
Proof.
  induction t as [n s tot ch IH] using tnode_ind'. intros Hwf.
  apply t_wfb_iff in Hwf. cbn [t_ch] in Hwf. destruct Hwf as [Hs Hc].
  rewrite t_strip0_eq. apply t_wfb_iff. cbn [t_ch].
  induction ch as [|c ch IHc]; [split; [reflexivity|constructor]|].
  inversion IH; subst. inversion Hc; subst. apply sorted_names_cons in Hs. destruct Hs as [Hgt Hs].
  destruct (IHc H2 Hs H4) as [Hs' Hc']. cbn [strip_go]. destruct (t_total c =? 0); [split; assumption|].
  split; [|constructor; auto].
  apply sorted_names_cons. rewrite strip0_name. split; [apply all_gt_strip_go; exact Hgt|exact Hs'].
Qed.

Lemma find_strip_go : forall l ch, sorted_names ch = true ->
  t_find l (strip_go ch) =
  match t_find l ch with
  | Some c => if t_total c =? 0 then None else Some (t_strip0 c)
  | None => None
  end.
Proof.
  intros l. induction ch as [|c ch IH]; intros Hs; [reflexivity|].
  apply sorted_names_cons in Hs. destruct Hs as [Hgt Hs]. specialize (IH Hs).
  cbn [strip_go t_find]. destruct (t_total c =? 0) eqn:Hz.
  - rewrite IH. destruct (beqb (t_name c) l) eqn:Hb; [|reflexivity].
    apply beqb_true in Hb. subst l. rewrite (all_gt_find _ _ Hgt), Hz. reflexivity.
  - cbn [t_find]. rewrite strip0_name. destruct (beqb (t_name c) l); [rewrite Hz; reflexivity|exact IH].
Qed.

(* lookups in the stripped tree, in terms of lookups in the tree *)
Lemma at_strip0 : forall p t, t_wfb t = true -> t_subb t = true ->
  t_at p (t_strip0 t) =
  match p with
  | [] => Some (t_self t, t_total t)
  | _ :: _ => match t_at p t with
              | Some (s, t1) => if t1 =? 0 then None else Some (s, t1)
              | None => None
              end
  end.
Proof.
  induction p as [|l p IH]; intros [n s tot ch] Hwf Hsub; [reflexivity|].
  apply t_wfb_iff in Hwf. cbn [t_ch] in Hwf. destruct Hwf as [Hs Hc].
  cbn [t_subb] in Hsub. apply andb_true_iff in Hsub. destruct Hsub as [_ Hsc]. rewrite forallb_forall in Hsc.
  rewrite t_strip0_eq. cbn [t_at t_ch]. rewrite (find_strip_go l ch Hs).
  destruct (t_find l ch) as [c|] eqn:Hf; [|reflexivity].
  pose proof (t_find_in _ _ _ Hf) as Hin. rewrite Forall_forall in Hc.
  destruct (N.eqb_spec (t_total c) 0) as [Hz|Hnz].
  - destruct (t_at p c) as [[s1 t1]|] eqn:Hat; [|reflexivity].
    destruct (at_le_total _ _ _ _ (Hsc c Hin) Hat). replace (t1 =? 0) with true by lia. reflexivity.
  - rewrite (IH c (Hc c Hin) (Hsc c Hin)). destruct p as [|l' p']; [|reflexivity].
    cbn [t_at]. replace (t_total c =? 0) with false by lia. reflexivity.
Qed.

(* trees that agree per stack have the same stripped form *)
Lemma strip0_ext : forall a b, t_wfb a = true -> t_wfb b = true -> t_subb a = true -> t_subb b = true ->
  t_name a = t_name b -> teq a b -> t_strip0 a = t_strip0 b.
Proof.
  intros a b Ha Hb Hsa Hsb Hn H. apply t_ext; [apply strip0_wf; exact Ha|apply strip0_wf; exact Hb|rewrite !strip0_name; exact Hn|].
  intros p. rewrite !at_strip0 by assumption. destruct p as [|l p].
  - destruct (H []) as [H1 H2]. unfold t_self_at, t_total_at in *. cbn in H1, H2. congruence.
  - destruct (H (l :: p)) as [H1 H2]. unfold t_self_at, t_total_at in *.
    destruct (t_at (l :: p) a) as [[s1 t1]|], (t_at (l :: p) b) as [[s2 t2]|]; subst; reflexivity.
Qed.

Lemma P_sub : forall t, t_subb t = true -> t_subb (P t) = true.
Proof.
  induction t as [n s tot ch IH] using tnode_ind'. intros Hsub. pose proof Hsub as Hsub0.
  cbn [t_subb] in Hsub. apply andb_true_iff in Hsub. destruct Hsub as [Hle Hc]. apply N.leb_le in Hle.
  unfold P in *. cbn [t_prune]. destruct (N.ltb_spec 0 tot).
  - cbn [t_subb]. apply andb_true_iff. split.
    + apply N.leb_le. replace (ch_total (map (t_prune 0) ch)) with (ch_total ch); [exact Hle|].
      unfold ch_total. rewrite map_map. f_equal. apply map_ext. intros c. symmetry. apply prune_total.
    + rewrite forallb_map'. rewrite forallb_forall in *. rewrite Forall_forall in IH. auto.
  - cbn. apply andb_true_iff. split; [apply N.leb_le; cbn; lia|reflexivity].
Qed.

Theorem strip0_merge_P : forall a b, t_wfb a = true -> t_wfb b = true -> t_subb a = true -> t_subb b = true ->
  t_strip0 (t_merge (P a) (P b)) = t_strip0 (t_merge a b).
Proof.
  intros a b Ha Hb Hsa Hsb. apply strip0_ext.
  - apply t_merge_wfb; apply P_wf; assumption.
  - apply t_merge_wfb; assumption.
  - apply t_merge_sub; apply P_sub; assumption.
  - apply t_merge_sub; assumption.
  - rewrite !t_merge_name. apply prune_name.
  - apply merge_teq; auto using P_wf, P_teq.
Qed.

Theorem strip0_clone_P : forall m d a, d <> 0 -> t_subb a = true ->
  t_strip0 (t_clone m d (P a)) = t_strip0 (t_clone m d a).
Proof.
  intros m d a Hd Hs.
  rewrite <- (strip_prune0_sub (t_clone m d (P a))) by (apply t_clone_sub; [exact Hd|apply P_sub; exact Hs]).
  rewrite <- (strip_prune0_sub (t_clone m d a)) by (apply t_clone_sub; assumption).
  fold (P (t_clone m d (P a))) (P (t_clone m d a)). rewrite P_clone_P. reflexivity.
Qed.

(* ---- any expression built from stored trees with Merge and Clone ---- *)
Inductive texp := ELeaf (i : nat) | EMerge (a b : texp) | EClone (m d : N) (a : texp).

Fixpoint t_eval (env : list tnode) (e : texp) : tnode :=
  match e with
  | ELeaf i => nth i env t_empty
  | EMerge a b => t_merge (t_eval env a) (t_eval env b)
  | EClone m d a => t_clone m d (t_eval env a)
  end.

Lemma Forall2_nth_rel : forall (Rl : tnode -> tnode -> Prop) env env' i,
  Forall2 Rl env env' -> Rl t_empty t_empty -> Rl (nth i env t_empty) (nth i env' t_empty).
Proof.
  intros Rl env env' i F H0. revert i. induction F; intros [|i]; cbn; auto.
Qed.

(* ~ is a congruence for every such expression *)
Theorem eval_teq : forall env env',
  Forall2 (fun a a' => t_wfb a = true /\ t_wfb a' = true /\ teq a a') env env' ->
  forall e, t_wfb (t_eval env e) = true /\ t_wfb (t_eval env' e) = true /\ teq (t_eval env e) (t_eval env' e).
Proof.
  intros env env' F. induction e as [i|a IHa b IHb|m d a IHa]; cbn [t_eval].
  - apply (Forall2_nth_rel _ env env' i F). repeat split; reflexivity.
  - destruct IHa as [Ha [Ha' Hea]]. destruct IHb as [Hb [Hb' Heb]].
    split; [apply t_merge_wfb; assumption|]. split; [apply t_merge_wfb; assumption|]. apply merge_teq; assumption.
  - destruct IHa as [Ha [Ha' Hea]]. rewrite !t_clone_wfb. split; [exact Ha|]. split; [exact Ha'|]. apply clone_teq; exact Hea.
Qed.

Theorem eval_seq : forall env env',
  Forall2 (fun a a' => t_wfb a = true /\ t_wfb a' = true /\ seq a a') env env' ->
  forall e, t_wfb (t_eval env e) = true /\ t_wfb (t_eval env' e) = true /\ seq (t_eval env e) (t_eval env' e).
Proof.
  intros env env' F. induction e as [i|a IHa b IHb|m d a IHa]; cbn [t_eval].
  - apply (Forall2_nth_rel _ env env' i F). repeat split; reflexivity.
  - destruct IHa as [Ha [Ha' Hea]]. destruct IHb as [Hb [Hb' Heb]].
    split; [apply t_merge_wfb; assumption|]. split; [apply t_merge_wfb; assumption|]. apply merge_seq; assumption.
  - destruct IHa as [Ha [Ha' Hea]]. rewrite !t_clone_wfb. split; [exact Ha|]. split; [exact Ha'|]. apply clone_seq; exact Hea.
Qed.

(* replacing ANY subset of the stored trees by their reloaded form (env' is env with some entries reloaded) *)
Definition some_reloaded (env env' : list tnode) : Prop :=
  Forall2 (fun a a' => a' = a \/ a' = t_reload a) env env'.

(* exact stored trees: self values and totals of every result are unchanged, per stack *)
Theorem reload_transparent_exact : forall env env' e p,
  Forall (fun a => t_wfb a = true /\ t_exactb a = true) env -> some_reloaded env env' ->
  t_self_at p (t_eval env' e) = t_self_at p (t_eval env e) /\
  t_total_at p (t_eval env' e) = t_total_at p (t_eval env e).
Proof.
  intros env env' e p Hall F.
  assert (F' : Forall2 (fun a a' => t_wfb a = true /\ t_wfb a' = true /\ teq a a') env env').
  { induction F as [|a a' env env' Hr F IH]; [constructor|]. inversion Hall as [|? ? [Hw He] Hall']; subst.
    constructor; [|apply IH; exact Hall']. destruct Hr as [Hr|Hr]; rewrite Hr.
    - repeat split; auto.
    - split; [exact Hw|]. split; [apply reload_wf; exact Hw|]. apply teq_sym, reload_teq, He. }
  destruct (eval_teq env env' F' e) as [_ [_ H]]. destruct (H p). auto.
Qed.

(* all stored trees (total >= self + children, e.g. floor-scaled copies): self values of every result are
   unchanged per stack; totals are not (known finding scaled-totals-reloaded) *)
Theorem reload_transparent_self : forall env env' e p,
  Forall (fun a => t_wfb a = true /\ t_subb a = true) env -> some_reloaded env env' ->
  t_self_at p (t_eval env' e) = t_self_at p (t_eval env e).
Proof.
  intros env env' e p Hall F.
  assert (F' : Forall2 (fun a a' => t_wfb a = true /\ t_wfb a' = true /\ seq a a') env env').
  { induction F as [|a a' env env' Hr F IH]; [constructor|]. inversion Hall as [|? ? [Hw He] Hall']; subst.
    constructor; [|apply IH; exact Hall']. destruct Hr as [Hr|Hr]; rewrite Hr.
    - repeat split; auto.
    - split; [exact Hw|]. split; [apply reload_wf; exact Hw|]. apply seq_sym, reload_seq, He. }
  destruct (eval_seq env env' F' e) as [_ [_ H]]. symmetry. apply H.
Qed.

Example reload_transparent_nonvacuous :
  let a := t_insert [97; 59; 98] 5 (t_insert [99; 59; 100] 0 t_empty) in
  let b := t_clone 7 8 (t_insert [97] 2 (t_insert [109; 59; 109] 2 t_empty)) in
  let e := EMerge (EClone 1 2 (ELeaf 0)) (EMerge (ELeaf 1) (ELeaf 0)) in
  t_wfb a = true /\ t_exactb a = true /\ t_reload a <> a /\
  t_wfb b = true /\ t_subb b = true /\ t_exactb b = false /\
  some_reloaded [a; b] [t_reload a; t_reload b] /\
  t_total_at [] (t_eval [t_reload a; t_reload b] e) <> t_total_at [] (t_eval [a; b] e) /\
  t_total_at [] (t_eval [t_reload a; b] e) = t_total_at [] (t_eval [a; b] e).
Proof.
  cbv zeta. repeat split; try (vm_compute; reflexivity); try (vm_compute; discriminate).
  constructor; [right; reflexivity|]. constructor; [right; reflexivity|constructor].
Qed.

(* the codec, below the cap, IS t_reload: save t against dictionary d, load it against any later state of that
   dictionary (more puts, save/reload events) *)
Theorem tree_reload_codec : forall cap t d ops,
  t_wfb t = true -> t_fitsb t = true -> (t_size t <= cap)%nat ->
  tr_weight d + names_weight 0 t + Proofs.DictProofs.ops_weight ops < two55 ->
  tc_deserialize (fold_left d_step ops (snd (tc_serialize cap t d))) (fst (tc_serialize cap t d)) = Some (t_reload t).
Proof.
  intros cap t d ops Hwf Hfit Hsz Hb. destruct (tc_serialize cap t d) as [bs d1] eqn:Hs. cbn [fst snd].
  exact (tree_reload_below_cap cap t d bs d1 ops Hwf Hfit Hsz Hb Hs).
Qed.
