(* SegGet.v — soundness of get on well-formed trees: the cover is ordered (hence pairwise disjoint),
   inside the range, made of present nodes, with ratio 1/1; and maximality. *)
From Pyro Require Import Model.Base Model.Float53 Model.Segment Proofs.SegmentProofs Proofs.SegStruct.
From Coq Require Import ZifyBool ZifyNat.
Local Open Scope Z_scope.

Definition gc_key (c : get_cb) : skey := (gc_lvl c, gc_t c).
Definition gc_end (c : get_cb) : Z := gc_t c + pow10 (gc_lvl c).

(* keys of the present nodes of a subtree *)
Fixpoint pkeys (lvl : nat) (n : snode) {struct lvl} : list skey :=
  match n with
  | SNode t p _ _ ch =>
      (if p then [(lvl, t)] else []) ++
      match lvl with
      | O => []
      | S l => flat_map (fun o => match o with Some c => pkeys l c | None => [] end) ch
      end
  end.

(* the buckets of l follow each other from lo to hi without overlapping *)
Fixpoint chain (lo hi : Z) (l : list get_cb) : Prop :=
  match l with
  | [] => lo <= hi
  | c :: l' => lo <= gc_t c /\ chain (gc_end c) hi l'
  end.

Lemma chain_le lo hi l : chain lo hi l -> lo <= hi.
Proof.
  revert lo. induction l as [|c l IH]; intros lo H; cbn in H; [exact H|].
  destruct H as [H1 H2]. apply IH in H2. unfold gc_end in H2. pose proof (pow10_pos (gc_lvl c)). lia.
Qed.

Lemma chain_app lo mid hi l1 l2 : chain lo mid l1 -> chain mid hi l2 -> chain lo hi (l1 ++ l2).
Proof.
  revert lo. induction l1 as [|c l1 IH]; intros lo H1 H2; cbn in *.
  - destruct l2 as [|c2 l2]; cbn in *; [lia|]. destruct H2; split; [lia|assumption].
  - destruct H1 as [Ha Hb]. split; [exact Ha|]. apply IH; assumption.
Qed.

Lemma chain_weaken lo lo' hi hi' l : lo' <= lo -> hi <= hi' -> chain lo hi l -> chain lo' hi' l.
Proof.
  revert lo lo'. induction l as [|c l IH]; intros lo lo' H1 H2 H; cbn in *; [lia|].
  destruct H as [Ha Hb]. split; [lia|]. eapply IH; [apply Z.le_refl|exact H2|exact Hb].
Qed.

Lemma chain_lower lo hi l : chain lo hi l -> Forall (fun c => lo <= gc_t c /\ gc_end c <= hi) l.
Proof.
  revert lo. induction l as [|c l IH]; intros lo H; cbn in H; constructor.
  - destruct H as [H1 H2]. split; [exact H1|]. apply chain_le in H2. exact H2.
  - destruct H as [H1 H2]. specialize (IH _ H2).
    eapply Forall_impl; [|exact IH]. cbn. intros c' [Hc1 Hc2]. unfold gc_end in *.
    pose proof (pow10_pos (gc_lvl c)). lia.
Qed.

(* pairwise disjointness, as a statement about any two positions of the list *)
Lemma chain_disjoint lo hi l : chain lo hi l ->
  ForallOrdPairs (fun x y => gc_end x <= gc_t y) l.
Proof.
  revert lo. induction l as [|c l IH]; intros lo H; [constructor|].
  cbn in H. destruct H as [H1 H2]. constructor; [|eapply IH; exact H2].
  apply chain_lower in H2. eapply Forall_impl; [|exact H2]. cbn. intros; tauto.
Qed.

Definition get_child (l : nat) (a b : Z) (o : option snode) : list get_cb :=
  match o with Some c => s_get_node l a b c | None => [] end.

Lemma get_node_unfold lvl a b t p s w ch :
  s_get_node lvl a b (SNode t p s w ch) =
  let r := relationship t (t + pow10 lvl) a b in
  if p && covers r
  then [{| gc_lvl := lvl; gc_t := t; gc_samples := s; gc_writes := w; gc_m := 1; gc_d := 1 |}]
  else if is_outside r then []
  else if p && (length ch =? 0)%nat
  then [{| gc_lvl := lvl; gc_t := t; gc_samples := s; gc_writes := w;
           gc_m := ov t (t + pow10 lvl) a b; gc_d := pow10 lvl |}]
  else match lvl with
       | O => []
       | S l => flat_map (get_child l a b) ch
       end.
Proof. destruct lvl; reflexivity. Qed.

(* a unit bucket and an integer range are never properly cut *)
Lemma rel_unit t a b : a < b ->
  match relationship t (t + 1) a b with Inside | Overlap => False | _ => True end.
Proof.
  intros Hab. pose proof (rel_spec t (t + 1) a b ltac:(lia) Hab) as H.
  destruct (relationship t (t + 1) a b); auto; lia.
Qed.

Definition cb_sound (lvl : nat) (n : snode) (a b : Z) (c : get_cb) : Prop :=
  a <= gc_t c /\ gc_end c <= b /\ gc_m c = 1 /\ gc_d c = 1 /\ In (gc_key c) (pkeys lvl n).

Lemma get_node_sound : forall lvl a b n, a < b -> wf lvl n ->
  chain (sn_time n) (sn_time n + pow10 lvl) (s_get_node lvl a b n) /\
  Forall (cb_sound lvl n a b) (s_get_node lvl a b n).
Proof.
  induction lvl as [|l IH]; intros a b [t p s w ch] Hab Hwf; rewrite get_node_unfold; cbv zeta;
    cbn [sn_time].
  - change (pow10 0) with 1 in *. pose proof (rel_unit t a b Hab) as Hu.
    pose proof (rel_spec t (t + 1) a b ltac:(lia) Hab) as Hr.
    destruct Hwf as [_ Hch]. subst ch. cbn [length Nat.eqb].
    destruct p; cbn [andb]; destruct (relationship t (t + 1) a b); cbn [covers is_outside];
      try contradiction;
      (split; [cbn; unfold gc_end; cbn; change (pow10 0) with 1; lia|]);
      try constructor; try constructor; unfold cb_sound, gc_end, gc_key; cbn;
      change (pow10 0) with 1; repeat split; try lia; auto.
  - pose proof (pow10_pos (S l)) as Hp. pose proof (pow10_pos l) as Hpl.
    pose proof (rel_spec t (t + pow10 (S l)) a b ltac:(lia) Hab) as Hr.
    destruct Hwf as [Hm [Hlen Hs]].
    assert (Hkids : forall ch0 t0, slots (wf l) (pow10 l) t0 ch0 ->
              chain t0 (t0 + Z.of_nat (length ch0) * pow10 l) (flat_map (get_child l a b) ch0) /\
              Forall (fun c => a <= gc_t c /\ gc_end c <= b /\ gc_m c = 1 /\ gc_d c = 1 /\
                               In (gc_key c) (flat_map (fun o => match o with Some c => pkeys l c | None => [] end) ch0))
                     (flat_map (get_child l a b) ch0)).
    { induction ch0 as [|o ch0 IHc]; intros t0 Hsl.
      - cbn. split; [lia|constructor].
      - cbn [slots] in Hsl. destruct Hsl as [Ho Hrest]. specialize (IHc _ Hrest).
        destruct IHc as [IC1 IC2]. cbn [flat_map length].
        replace (t0 + Z.of_nat (S (length ch0)) * pow10 l)
          with (t0 + pow10 l + Z.of_nat (length ch0) * pow10 l) by lia.
        destruct o as [c|]; cbn [get_child].
        + destruct Ho as [Hct Hcw]. destruct (IH a b c Hab Hcw) as [I1 I2]. rewrite Hct in I1.
          split.
          * eapply chain_app; [exact I1|exact IC1].
          * apply Forall_app. split.
            -- eapply Forall_impl; [|exact I2]. intros x (X1 & X2 & X3 & X4 & X5).
               repeat split; auto. apply in_or_app. left. exact X5.
            -- eapply Forall_impl; [|exact IC2]. intros x (X1 & X2 & X3 & X4 & X5).
               repeat split; auto. apply in_or_app. right. exact X5.
        + split.
          * cbn [app]. eapply chain_weaken; [| |exact IC1]; lia.
          * cbn [app]. exact IC2. }
    specialize (Hkids ch t Hs). rewrite Hlen in Hkids.
    replace (t + Z.of_nat 10 * pow10 l) with (t + pow10 (S l)) in Hkids by (rewrite pow10_S; lia).
    assert (Hlen0 : (length ch =? 0)%nat = false) by (rewrite Hlen; reflexivity).
    rewrite Hlen0, andb_false_r.
    destruct (p && covers _) eqn:E1.
    + apply andb_prop in E1. destruct E1 as [Ep Ec]. subst p.
      split; [cbn; unfold gc_end; cbn; lia|].
      constructor; [|constructor]. unfold cb_sound, gc_end, gc_key. cbn [gc_t gc_lvl gc_m gc_d].
      destruct (relationship t (t + pow10 (S l)) a b); cbn in Ec; try discriminate;
        (repeat split; try lia; cbn [pkeys]; left; reflexivity).
    + destruct (is_outside _).
      * split; [cbn; lia|constructor].
      * destruct Hkids as [K1 K2]. split; [exact K1|].
        eapply Forall_impl; [|exact K2]. intros x (X1 & X2 & X3 & X4 & X5).
        unfold cb_sound. repeat split; auto. cbn [pkeys]. apply in_or_app. right. exact X5.
Qed.

(* ---------- every present bucket was named by a put callback ---------- *)
Definition pc_key (c : put_cb) : skey := (pc_lvl c, pc_t c).
Definition okeys (l : nat) (ch : list (option snode)) : list skey :=
  flat_map (fun o => match o with Some c => pkeys l c | None => [] end) ch.

Lemma pkeys_new_node lvl t : pkeys lvl (new_node t lvl) = [].
Proof.
  destruct lvl; cbn; [reflexivity|]. reflexivity.
Qed.

Lemma okeys_fill l base a b : forall ch i k, In k (okeys l (fill_children l base a b i ch)) -> In k (okeys l ch).
Proof.
  induction ch as [|o ch IH]; intros i k H; cbn in *; [exact H|].
  apply in_app_or in H. apply in_or_app. destruct H as [H|H].
  - destruct o; [left; exact H|]. destruct (is_outside _); [destruct H|].
    rewrite pkeys_new_node in H. destruct H.
  - right. eapply IH. exact H.
Qed.

Lemma put_node_pkeys : forall lvl a b smp n k,
  In k (pkeys lvl (fst (s_put_node lvl a b smp n))) ->
  In k (pkeys lvl n) \/ In k (map pc_key (snd (s_put_node lvl a b smp n))).
Proof.
  induction lvl as [|l IH]; intros a b smp [t p s w ch] k.
  - rewrite put_node_unfold_0. cbv zeta. destruct (is_outside _); cbn [fst snd]; [auto|].
    cbn [pkeys]. rewrite !app_nil_r.
    destruct p; cbn [orb]; [rewrite orb_true_r; auto|].
    rewrite orb_false_r. destruct (covers _ || _); cbn; auto.
  - rewrite put_node_unfold_S. cbv zeta. destruct (is_outside _); cbn [fst snd]; [auto|].
    set (ch1 := if creates _ then _ else ch).
    cbn [pkeys]. intros H. apply in_app_or in H. destruct H as [H|H].
    + destruct p; cbn [orb] in *; [rewrite orb_true_r in *; left; apply in_or_app; left; exact H|].
      rewrite orb_false_r in *. destruct (covers _ || _); cbn in H; [|destruct H].
      right. cbn. left. destruct H as [H|[]]. exact H.
    + fold (okeys l (map fst (map (put_child l a b smp) ch1))) in H.
      assert (G : In k (okeys l ch1) \/ In k (map pc_key (concat (map snd (map (put_child l a b smp) ch1))))).
      { clear -IH H. induction ch1 as [|o ch1 IHc]; cbn in *; [destruct H|].
        apply in_app_or in H. rewrite map_app, in_app_iff, in_app_iff. destruct H as [H|H].
        - destruct o as [c|]; cbn in *; [|destruct H].
          specialize (IH a b smp c k). destruct (s_put_node l a b smp c) as [c' cbs]. cbn in *.
          destruct (IH H); auto.
        - destruct (IHc H); auto. }
      destruct G as [G|G].
      * left. apply in_or_app. right. fold (okeys l ch). unfold ch1 in G.
        destruct (creates _); [eapply okeys_fill; exact G|exact G].
      * right. rewrite map_app. apply in_or_app. right. exact G.
Qed.

Lemma okeys_repeat_None l n : okeys l (repeat None n) = [].
Proof. induction n; cbn; auto. Qed.

Lemma list_set_okeys l c : forall n i l', list_set i (Some c) (repeat None n) = Some l' -> okeys l l' = pkeys l c.
Proof.
  induction n as [|n IH]; intros i l' H; cbn in H; [discriminate|].
  destruct i.
  - inversion H; subst. cbn. fold (okeys l (repeat None n)). rewrite okeys_repeat_None. apply app_nil_r.
  - destruct (list_set i (Some c) (repeat None n)) eqn:E; [|discriminate].
    inversion H; subst. cbn. eapply IH; eauto.
Qed.

Lemma grow_loop_pkeys a b : forall fuel lvl n,
  let '(lvl', n') := s_grow_loop fuel a b lvl n in pkeys lvl' n' = pkeys lvl n.
Proof.
  induction fuel as [|f IH]; intros lvl n; cbn [s_grow_loop].
  - destruct (relationship _ _ a b); reflexivity.
  - destruct (relationship _ _ a b); try reflexivity;
      (unfold sn_replace; destruct (_ <? 0); [reflexivity|];
       destruct (list_set _ _ _) as [ch'|] eqn:E; [|reflexivity];
       specialize (IH (S lvl) (SNode (trunc_to (S lvl) (sn_time n)) false (sn_samples n) (sn_writes n) ch'));
       destruct (s_grow_loop f a b (S lvl) _) as [lvl' n']; rewrite IH;
       cbn [pkeys app]; fold (okeys lvl ch'); eapply list_set_okeys; exact E).
Qed.

Definition s_pkeys (s : segment) : list skey :=
  match s_root s with Some (lvl, n) => pkeys lvl n | None => [] end.

Lemma s_put_pkeys a b smp s k : In k (s_pkeys (fst (s_put a b smp s))) ->
  In k (s_pkeys s) \/ In k (map pc_key (snd (s_put a b smp s))).
Proof.
  unfold s_put.
  assert (G : s_pkeys (s_grow a b s) = s_pkeys s).
  { unfold s_grow, s_pkeys. destruct (s_root s) as [[lvl n]|]; cbn [s_root].
    - pose proof (grow_loop_pkeys (Z.min a (sn_time n)) (Z.max b (sn_time n + pow10 lvl)) (max_level - lvl) lvl n) as G.
      destruct (s_grow_loop _ _ _ lvl n). exact G.
    - pose proof (grow_loop_pkeys a b max_level 0%nat (new_node a 0)) as G.
      destruct (s_grow_loop _ _ _ _ _). rewrite G. reflexivity. }
  destruct (s_root (s_grow a b s)) as [[lvl n]|] eqn:Er; cbn [fst snd].
  - pose proof (put_node_pkeys lvl a b smp n k) as P.
    destruct (s_put_node lvl a b smp n) as [n' cbs]. cbn [fst snd] in *.
    rewrite <- G. unfold s_pkeys at 1 2. cbn [s_root]. rewrite Er. exact P.
  - rewrite <- G. auto.
Qed.

(* all callbacks made while applying a history *)
Fixpoint hist_cbs (ws : list write) (s : segment) : list put_cb :=
  match ws with
  | [] => []
  | w :: ws' => snd (s_put (w_a w) (w_b w) (w_smp w) s) ++ hist_cbs ws' (fst (s_put (w_a w) (w_b w) (w_smp w) s))
  end.
Definition seg_after (ws : list write) (s : segment) : segment :=
  fold_left (fun s w => fst (s_put (w_a w) (w_b w) (w_smp w) s)) ws s.

Lemma run_fst ws : forall sE, fst (fold_left put_step ws sE) = seg_after ws (fst sE).
Proof.
  induction ws as [|w ws IH]; intros sE; cbn; [reflexivity|].
  rewrite IH, put_step_fst. reflexivity.
Qed.

Lemma hist_pkeys ws : forall s k, In k (s_pkeys (seg_after ws s)) ->
  In k (s_pkeys s) \/ In k (map pc_key (hist_cbs ws s)).
Proof.
  induction ws as [|w ws IH]; intros s k H; cbn in *; [auto|].
  apply IH in H. rewrite map_app, in_app_iff. destruct H as [H|H]; [|auto].
  apply s_put_pkeys in H. tauto.
Qed.

(* ---------- get on reachable segments ---------- *)
Theorem get_sound K ws a b : Forall (valid_write K) ws -> a < b ->
  let s := fst (run_writes ws) in
  let g := s_get a b s in
  ForallOrdPairs (fun x y => gc_end x <= gc_t y) g /\
  Forall (fun c => a <= gc_t c /\ gc_end c <= b /\ gc_m c = 1 /\ gc_d c = 1 /\
                   In (gc_key c) (s_pkeys s) /\
                   In (gc_key c) (map pc_key (hist_cbs ws s_empty))) g.
Proof.
  intros Hv Hab. cbv zeta. pose proof (run_writes_ok K ws Hv) as Hok.
  unfold run_writes in *. rewrite run_fst in *. cbn [fst] in *.
  unfold s_get, seg_ok, s_pkeys in *.
  pose proof (hist_pkeys ws s_empty) as HP. unfold s_pkeys in HP.
  destruct (s_root (seg_after ws s_empty)) as [[lvl n]|]; [|split; constructor].
  destruct Hok as (_ & Hwf & _). destruct (get_node_sound lvl a b n Hab Hwf) as [G1 G2].
  split; [eapply chain_disjoint; exact G1|].
  eapply Forall_impl; [|exact G2]. intros c (X1 & X2 & X3 & X4 & X5).
  repeat split; auto. destruct (HP _ X5) as [F|F]; [destruct F|exact F].
Qed.
