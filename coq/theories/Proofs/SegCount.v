(* SegCount.v — the writes and samples counters of the nodes (I_writes / I_samples) for histories of
   short writes (spans < 10 slots): a node counts exactly the writes that meet its bucket, and its
   samples counter is the sum of their binary64 shares. *)
From Pyro Require Import Model.Base Model.Float53 Model.Segment
  Proofs.SegmentProofs Proofs.SegStruct Proofs.SegGet Proofs.SegStore Proofs.SegInv Proofs.SegRead Proofs.SegCanon.
From Coq Require Import ZifyBool ZifyNat ZifyN.
Local Open Scope Z_scope.

Definition meets (lvl : nat) (t : Z) (w : write) : bool := (w_a w <? t + pow10 lvl) && (t <? w_b w).
Definition nmeet (H : list write) (lvl : nat) (t : Z) : N := N.of_nat (length (filter (meets lvl t) H)).
Definition wincr (lvl : nat) (t : Z) (w : write) : N :=
  samples_incr (w_smp w) (ov t (t + pow10 lvl) (w_a w) (w_b w)) (w_b w - w_a w).
Definition sumN' (l : list N) : N := fold_right N.add 0%N l.
Definition ssum (H : list write) (lvl : nat) (t : Z) : N := sumN' (map (wincr lvl t) (filter (meets lvl t) H)).

Fixpoint winv (H : list write) (lvl : nat) (n : snode) {struct lvl} : Prop :=
  match n with
  | SNode t _ s w ch =>
      w = nmeet H lvl t /\ s = ssum H lvl t /\
      match lvl with
      | O => True
      | S l => oall (winv H l) ch
      end
  end.

Lemma no_hit_no_meet H lvl t : ~ hit H t (t + pow10 lvl) -> filter (meets lvl t) H = [].
Proof.
  intros Hn. induction H as [|w H IH]; [reflexivity|]. cbn [filter].
  destruct (meets lvl t w) eqn:Em.
  - exfalso. apply Hn. exists w. split; [left; reflexivity|]. unfold meets in Em. lia.
  - apply IH. intros [w0 [Hin Hc]]. apply Hn. exists w0. split; [right; exact Hin|exact Hc].
Qed.

Lemma winv_new_node H lvl t : ~ hit H t (t + pow10 lvl) -> winv H lvl (new_node t lvl).
Proof.
  intros Hn. pose proof (no_hit_no_meet H lvl t Hn) as Hf.
  destruct lvl; cbn [new_node winv]; unfold nmeet, ssum; rewrite Hf; (split; [reflexivity|]; split; [reflexivity|]).
  - exact I.
  - apply oall_repeat_None.
Qed.

Lemma filter_cons_false w H lvl t : meets lvl t w = false -> filter (meets lvl t) (w :: H) = filter (meets lvl t) H.
Proof. intros E. cbn [filter]. rewrite E. reflexivity. Qed.

(* a write that misses the bucket *)
Lemma winv_outside H w : forall lvl n, wf lvl n ->
  (sn_time n + pow10 lvl <= w_a w \/ w_b w <= sn_time n) -> winv H lvl n -> winv (w :: H) lvl n.
Proof.
  induction lvl as [|l IH]; intros [t p s w0 ch] Hwf Hout Hw; cbn [sn_time winv] in *.
  - destruct Hw as (W1 & W2 & _). unfold nmeet, ssum in *. rewrite filter_cons_false by (unfold meets; lia). auto.
  - destruct Hw as (W1 & W2 & W3). unfold nmeet, ssum in *. rewrite filter_cons_false by (unfold meets; lia).
    split; [exact W1|]. split; [exact W2|].
    destruct Hwf as [_ [Hlen Hs]]. unfold oall in *. rewrite Forall_forall in *. intros o Ho. specialize (W3 o Ho).
    destruct o as [c|]; [|exact I].
    pose proof (slots_In _ _ _ _ _ Hs Ho) as Hwc.
    pose proof (slots_bounds _ _ (pow10_pos l) _ _ _ Hs Ho) as [Hb1 Hb2]. rewrite Hlen in Hb2.
    apply IH; [exact Hwc| |exact W3]. rewrite pow10_S in Hout. lia.
Qed.

Lemma oall_put_children_in (R : snode -> Prop) l a b smp : forall ch,
  (forall c, In (Some c) ch -> R (fst (s_put_node l a b smp c))) ->
  oall R (map fst (map (put_child l a b smp) ch)).
Proof.
  induction ch as [|o ch IH]; intros HR; cbn [map]; [constructor|]. constructor.
  - destruct o as [c|]; cbn [put_child]; [|exact I]. specialize (HR c (or_introl eq_refl)).
    destruct (s_put_node l a b smp c). exact HR.
  - apply IH. intros c Hc. apply HR. right. exact Hc.
Qed.

Section PutWinv.
  Variables (a b : Z) (smp : N) (beta : Z) (H : list write).
  Hypothesis Hab : a < b.
  Hypothesis Hshort : b - a < 10.
  Let wnew : write := mk_write a b smp beta.

  Lemma fill_winv l base : forall ch i,
    qslots (cinv H l) (fun t1 => ~ hit H t1 (t1 + pow10 l)) (pow10 l) (base + i * pow10 l) ch ->
    oall (winv H l) ch -> oall (winv H l) (fill_children l base a b i ch).
  Proof.
    induction ch as [|o ch IH]; intros i Hq Hw; [constructor|]. cbn [fill_children qslots] in *.
    destruct Hq as [Ho Hr]. inversion Hw; subst. constructor.
    - destruct o as [c|]; [assumption|]. destruct (is_outside _); [exact I|]. apply winv_new_node. exact Ho.
    - replace (base + i * pow10 l + pow10 l) with (base + (i + 1) * pow10 l) in * by lia. apply IH; assumption.
  Qed.

  Lemma meets_not_outside lvl t : is_outside (relationship t (t + pow10 lvl) a b) = false -> meets lvl t wnew = true.
  Proof.
    intros Eo. pose proof (pow10_pos lvl). pose proof (rel_spec t (t + pow10 lvl) a b ltac:(lia) Hab) as Hr.
    unfold meets. cbn [w_a w_b wnew mk_write]. destruct (relationship t (t + pow10 lvl) a b); cbn in Eo; try discriminate; lia.
  Qed.

  Lemma counters_step lvl t s w : is_outside (relationship t (t + pow10 lvl) a b) = false ->
    w = nmeet H lvl t -> s = ssum H lvl t ->
    (w + 1)%N = nmeet (wnew :: H) lvl t /\
    (s + samples_incr smp (ov t (t + pow10 lvl) a b) (b - a))%N = ssum (wnew :: H) lvl t.
  Proof.
    intros Eo -> ->. unfold nmeet, ssum. cbn [filter]. rewrite (meets_not_outside lvl t Eo). cbn [length map].
    split; [rewrite Nat2N.inj_succ; lia|].
    unfold sumN'. cbn [fold_right]. unfold wincr at 2. unfold wnew, mk_write. cbn [w_a w_b w_smp]. apply N.add_comm.
  Qed.

  Lemma put_winv : forall lvl n, wf lvl n -> cinv H lvl n -> winv H lvl n ->
    winv (wnew :: H) lvl (fst (s_put_node lvl a b smp n)).
  Proof.
    induction lvl as [|l IH]; intros [t p s w ch] Hwf Hc Hw.
    - rewrite put_node_unfold_0. cbv zeta.
      destruct (is_outside (relationship t (t + pow10 0) a b)) eqn:Eo; cbn [fst].
      + apply winv_outside; [exact Hwf| |exact Hw]. cbn [sn_time w_a w_b wnew mk_write].
        pose proof (rel_spec t (t + pow10 0) a b ltac:(change (pow10 0) with 1; lia) Hab) as Hr.
        destruct (relationship t (t + pow10 0) a b); cbn in Eo; try discriminate. lia.
      + destruct Hw as (W1 & W2 & _). cbn [winv].
        destruct (counters_step 0 t s w Eo W1 W2) as [C1 C2]. auto.
    - rewrite put_node_S. cbv zeta. pose proof (pow10_pos (S l)) as HpS. pose proof (pow10_pos l) as Hp.
      pose proof (rel_spec t (t + pow10 (S l)) a b ltac:(lia) Hab) as Hr.
      destruct (is_outside (relationship t (t + pow10 (S l)) a b)) eqn:Eo; cbn [fst].
      + apply winv_outside; [exact Hwf| |exact Hw]. cbn [sn_time w_a w_b wnew mk_write].
        destruct (relationship t (t + pow10 (S l)) a b); cbn in Eo; try discriminate. lia.
      + destruct Hw as (W1 & W2 & W3). cbn [winv cinv] in *.
        destruct (counters_step (S l) t s w Eo W1 W2) as [C1 C2].
        split; [exact C1|]. split; [exact C2|].
        assert (Hcr : creates (relationship t (t + pow10 (S l)) a b) = true).
        { rewrite pow10_S in *. destruct (relationship t (t + 10 * pow10 l) a b); cbn in Eo |- *; try discriminate; try reflexivity; lia. }
        destruct Hwf as [Hm [Hlen Hs]].
        destruct (ch1_slots l t a b ch Hm Hs) as [Hs1 _].
        unfold ch1_of in *. rewrite Hcr in *. rewrite (trunc_to_aligned _ _ Hm) in *.
        pose proof (fill_cinv a b H l t ch 0) as Hfc. pose proof (fill_winv l t ch 0) as Hfw.
        replace (t + 0 * pow10 l) with t in Hfc, Hfw by lia. specialize (Hfc Hc). specialize (Hfw Hc W3).
        set (ch1 := fill_children l t a b 0 ch) in *.
        apply oall_put_children_in. intros c Hin. apply IH.
        * exact (slots_In _ _ _ _ _ Hs1 Hin).
        * exact (qslots_In _ _ _ _ _ _ Hfc Hin).
        * exact (oall_In _ _ _ Hfw Hin).
  Qed.
End PutWinv.
