(* SegCount.v — the writes and samples counters of the nodes (I_writes / I_samples) for histories of
   short writes (spans < 10 slots): a node counts exactly the writes that meet its bucket, and its
   samples counter is the sum of their binary64 shares. *)
From Pyro Require Import Model.Base Model.Float53 Model.Segment
  Proofs.SegmentProofs Proofs.SegStruct Proofs.SegGet Proofs.SegStore Proofs.SegInv Proofs.SegRead Proofs.SegCanon
  Proofs.Float53Proofs.
From Coq Require Import ZifyBool ZifyNat ZifyN.
Local Open Scope Z_scope.

Definition meets (lvl : nat) (t : Z) (w : write) : bool := (w_a w <? t + pow10 lvl) && (t <? w_b w).
Definition nmeet (H : list write) (lvl : nat) (t : Z) : N := N.of_nat (length (filter (meets lvl t) H)).
Definition wincr (lvl : nat) (t : Z) (w : write) : N :=
  samples_incr (w_smp w) (ov t (t + pow10 lvl) (w_a w) (w_b w)) (w_b w - w_a w).
Definition sumN' (l : list N) : N := fold_right N.add 0%N l.
Definition ssum (H : list write) (lvl : nat) (t : Z) : N := sumN' (map (wincr lvl t) (filter (meets lvl t) H)).

Fixpoint winv (H : list write) (lvl : nat) (n : snode) {struct lvl} : Prop :=
  match n with
  | SNode t _ s w ch =>
      w = nmeet H lvl t /\ s = ssum H lvl t /\
      match lvl with
      | O => True
      | S l => oall (winv H l) ch
      end
  end.

Lemma no_hit_no_meet H lvl t : ~ hit H t (t + pow10 lvl) -> filter (meets lvl t) H = [].
Proof.
  intros Hn. induction H as [|w H IH]; [reflexivity|]. cbn [filter].
  destruct (meets lvl t w) eqn:Em.
  - exfalso. apply Hn. exists w. split; [left; reflexivity|]. unfold meets in Em. lia.
  - apply IH. intros [w0 [Hin Hc]]. apply Hn. exists w0. split; [right; exact Hin|exact Hc].
Qed.

Lemma winv_new_node H lvl t : ~ hit H t (t + pow10 lvl) -> winv H lvl (new_node t lvl).
Proof.
  intros Hn. pose proof (no_hit_no_meet H lvl t Hn) as Hf.
  destruct lvl; cbn [new_node winv]; unfold nmeet, ssum; rewrite Hf; (split; [reflexivity|]; split; [reflexivity|]).
  - exact I.
  - apply oall_repeat_None.
Qed.

Lemma filter_cons_false w H lvl t : meets lvl t w = false -> filter (meets lvl t) (w :: H) = filter (meets lvl t) H.
Proof. intros E. cbn [filter]. rewrite E. reflexivity. Qed.

(* a write that misses the bucket *)
Lemma winv_outside H w : forall lvl n, wf lvl n ->
  (sn_time n + pow10 lvl <= w_a w \/ w_b w <= sn_time n) -> winv H lvl n -> winv (w :: H) lvl n.
Proof.
  induction lvl as [|l IH]; intros [t p s w0 ch] Hwf Hout Hw; cbn [sn_time winv] in *.
  - destruct Hw as (W1 & W2 & _). unfold nmeet, ssum in *. rewrite filter_cons_false by (unfold meets; lia). auto.
  - destruct Hw as (W1 & W2 & W3). unfold nmeet, ssum in *. rewrite filter_cons_false by (unfold meets; lia).
    split; [exact W1|]. split; [exact W2|].
    destruct Hwf as [_ [Hlen Hs]]. unfold oall in *. rewrite Forall_forall in *. intros o Ho. specialize (W3 o Ho).
    destruct o as [c|]; [|exact I].
    pose proof (slots_In _ _ _ _ _ Hs Ho) as Hwc.
    pose proof (slots_bounds _ _ (pow10_pos l) _ _ _ Hs Ho) as [Hb1 Hb2]. rewrite Hlen in Hb2.
    apply IH; [exact Hwc| |exact W3]. rewrite pow10_S in Hout. lia.
Qed.

Lemma oall_put_children_in (R : snode -> Prop) l a b smp : forall ch,
  (forall c, In (Some c) ch -> R (fst (s_put_node l a b smp c))) ->
  oall R (map fst (map (put_child l a b smp) ch)).
Proof.
  induction ch as [|o ch IH]; intros HR; cbn [map]; [constructor|]. constructor.
  - destruct o as [c|]; cbn [put_child]; [|exact I]. specialize (HR c (or_introl eq_refl)).
    destruct (s_put_node l a b smp c). exact HR.
  - apply IH. intros c Hc. apply HR. right. exact Hc.
Qed.

Section PutWinv.
  Variables (a b : Z) (smp : N) (beta : Z) (H : list write).
  Hypothesis Hab : a < b.
  Hypothesis Hshort : b - a < 10.
  Let wnew : write := mk_write a b smp beta.

  Lemma fill_winv l base : forall ch i,
    qslots (cinv H l) (fun t1 => ~ hit H t1 (t1 + pow10 l)) (pow10 l) (base + i * pow10 l) ch ->
    oall (winv H l) ch -> oall (winv H l) (fill_children l base a b i ch).
  Proof.
    induction ch as [|o ch IH]; intros i Hq Hw; [constructor|]. cbn [fill_children qslots] in *.
    destruct Hq as [Ho Hr]. inversion Hw; subst. constructor.
    - destruct o as [c|]; [assumption|]. destruct (is_outside _); [exact I|]. apply winv_new_node. exact Ho.
    - replace (base + i * pow10 l + pow10 l) with (base + (i + 1) * pow10 l) in * by lia. apply IH; assumption.
  Qed.

  Lemma meets_not_outside lvl t : is_outside (relationship t (t + pow10 lvl) a b) = false -> meets lvl t wnew = true.
  Proof.
    intros Eo. pose proof (pow10_pos lvl). pose proof (rel_spec t (t + pow10 lvl) a b ltac:(lia) Hab) as Hr.
    unfold meets. cbn [w_a w_b wnew mk_write]. destruct (relationship t (t + pow10 lvl) a b); cbn in Eo; try discriminate; lia.
  Qed.

  Lemma counters_step lvl t s w : is_outside (relationship t (t + pow10 lvl) a b) = false ->
    w = nmeet H lvl t -> s = ssum H lvl t ->
    (w + 1)%N = nmeet (wnew :: H) lvl t /\
    (s + samples_incr smp (ov t (t + pow10 lvl) a b) (b - a))%N = ssum (wnew :: H) lvl t.
  Proof.
    intros Eo -> ->. unfold nmeet, ssum. cbn [filter]. rewrite (meets_not_outside lvl t Eo). cbn [length map].
    split; [rewrite Nat2N.inj_succ; lia|].
    unfold sumN'. cbn [fold_right]. unfold wincr at 2. unfold wnew, mk_write. cbn [w_a w_b w_smp]. apply N.add_comm.
  Qed.

  Lemma put_winv : forall lvl n, wf lvl n -> cinv H lvl n -> winv H lvl n ->
    winv (wnew :: H) lvl (fst (s_put_node lvl a b smp n)).
  Proof.
    induction lvl as [|l IH]; intros [t p s w ch] Hwf Hc Hw.
    - rewrite put_node_unfold_0. cbv zeta.
      destruct (is_outside (relationship t (t + pow10 0) a b)) eqn:Eo; cbn [fst].
      + apply winv_outside; [exact Hwf| |exact Hw]. cbn [sn_time w_a w_b wnew mk_write].
        pose proof (rel_spec t (t + pow10 0) a b ltac:(change (pow10 0) with 1; lia) Hab) as Hr.
        destruct (relationship t (t + pow10 0) a b); cbn in Eo; try discriminate. lia.
      + destruct Hw as (W1 & W2 & _). cbn [winv].
        destruct (counters_step 0 t s w Eo W1 W2) as [C1 C2]. auto.
    - rewrite put_node_S. cbv zeta. pose proof (pow10_pos (S l)) as HpS. pose proof (pow10_pos l) as Hp.
      pose proof (rel_spec t (t + pow10 (S l)) a b ltac:(lia) Hab) as Hr.
      destruct (is_outside (relationship t (t + pow10 (S l)) a b)) eqn:Eo; cbn [fst].
      + apply winv_outside; [exact Hwf| |exact Hw]. cbn [sn_time w_a w_b wnew mk_write].
        destruct (relationship t (t + pow10 (S l)) a b); cbn in Eo; try discriminate. lia.
      + destruct Hw as (W1 & W2 & W3). cbn [winv cinv] in *.
        destruct (counters_step (S l) t s w Eo W1 W2) as [C1 C2].
        split; [exact C1|]. split; [exact C2|].
        assert (Hcr : creates (relationship t (t + pow10 (S l)) a b) = true).
        { rewrite pow10_S in *. destruct (relationship t (t + 10 * pow10 l) a b); cbn in Eo |- *; try discriminate; try reflexivity; lia. }
        destruct Hwf as [Hm [Hlen Hs]].
        destruct (ch1_slots l t a b ch Hm Hs) as [Hs1 _].
        unfold ch1_of in *. rewrite Hcr in *. rewrite (trunc_to_aligned _ _ Hm) in *.
        pose proof (fill_cinv a b H l t ch 0) as Hfc. pose proof (fill_winv l t ch 0) as Hfw.
        replace (t + 0 * pow10 l) with t in Hfc, Hfw by lia. specialize (Hfc Hc). specialize (Hfw Hc W3).
        set (ch1 := fill_children l t a b 0 ch) in *.
        apply oall_put_children_in. intros c Hin. apply IH.
        * exact (slots_In _ _ _ _ _ Hs1 Hin).
        * exact (qslots_In _ _ _ _ _ _ Hfc Hin).
        * exact (oall_In _ _ _ Hfw Hin).
  Qed.
End PutWinv.

(* ---------- the statement (published for Props/C01.v and Props/C13.v) ---------- *)
Definition root_winv (s : segment) (H : list write) : Prop :=
  match s_root s with None => True | Some (lvl, n) => winv H lvl n end.

(* For every history of short writes inside one epoch block:
   (1) every node (l,t) of the reached tree has writes = number of writes meeting [t, t+10^l) and
       samples = sum over those writes of uint64(float64(n_w) * RN(ov/span))   ([winv], recursively);
   (2) in particular every get callback carries those two counters. *)
Definition seg_counters_exact_stmt : Prop :=
  forall K ws, Forall (valid_write K) ws -> Forall (fun w => w_b w - w_a w < 10) ws ->
    root_winv (fst (run_writes ws)) ws /\
    forall qa qb, qa < qb ->
      Forall (fun c => gc_writes c = nmeet ws (gc_lvl c) (gc_t c) /\ gc_samples c = ssum ws (gc_lvl c) (gc_t c))
             (s_get qa qb (fst (run_writes ws))).

(* ---------- growTree ---------- *)
Lemma winv_fields H lvl t p s w ch : winv H lvl (SNode t p s w ch) -> w = nmeet H lvl t /\ s = ssum H lvl t.
Proof. destruct lvl; cbn [winv]; tauto. Qed.
Lemma winv_S_intro H l t p s w ch :
  w = nmeet H (S l) t /\ s = ssum H (S l) t /\ oall (winv H l) ch -> winv H (S l) (SNode t p s w ch).
Proof. intros G. exact G. Qed.

Lemma filter_all_meet H lvl t : Forall (fun w => w_a w < w_b w /\ w_a w < t + pow10 lvl /\ t < w_b w) H ->
  filter (meets lvl t) H = H.
Proof.
  induction 1 as [|w H (G1 & G2 & G3) _ IH]; [reflexivity|]. cbn [filter].
  replace (meets lvl t w) with true by (unfold meets; lia). rewrite IH. reflexivity.
Qed.

Lemma grow_step_winv K H lvl n root1 : node_ok K lvl n -> hist_in lvl (sn_time n) H -> winv H lvl n ->
  sn_replace lvl (SNode (trunc_to (S lvl) (sn_time n)) false (sn_samples n) (sn_writes n) (repeat None 10)) n = Some root1 ->
  winv H (S lvl) root1.
Proof.
  intros (Hl & Hwf & Htwo & Hblk) Hh Hw Er.
  pose proof (wf_time_mod _ _ Hwf) as Hm.
  pose proof (replace_idx_grid lvl (sn_time n) Hm) as Hidx. cbv zeta in Hidx.
  unfold sn_replace in Er. set (T := trunc_to (S lvl) (sn_time n)) in *.
  set (i := replace_idx lvl T (sn_time n)) in *. destruct Hidx as [Hi Ht].
  replace (i <? 0) with false in Er by lia.
  destruct (list_set (Z.to_nat i) (Some n) (repeat None 10)) as [ch'|] eqn:El; [|discriminate].
  inversion Er; subst root1. pose proof (pow10_pos lvl) as Hp. pose proof (pow10_S lvl) as HS.
  assert (F1 : filter (meets lvl (sn_time n)) H = H).
  { apply filter_all_meet. eapply Forall_impl; [|exact Hh]. intros w ((G1 & _) & G2 & G3). lia. }
  assert (F2 : filter (meets (S lvl) T) H = H).
  { apply filter_all_meet. eapply Forall_impl; [|exact Hh]. intros w ((G1 & _) & G2 & G3). nia. }
  destruct n as [t p s w ch]. cbn [sn_time sn_samples sn_writes] in *.
  destruct (winv_fields H lvl t p s w ch Hw) as [W1 W2].
  apply winv_S_intro. unfold nmeet, ssum in W1, W2 |- *. rewrite F1 in W1, W2. rewrite F2.
  split; [exact W1|]. split.
  - rewrite W2. f_equal. apply map_ext_Forall. eapply Forall_impl; [|exact Hh].
    intros w0 ((G1 & _) & G2 & G3). unfold wincr. f_equal. unfold ov. nia.
  - eapply list_set_oall; [exact Hw|exact El].
Qed.

Lemma grow_loop_winv K E H a b : forall fuel lvl n, node_ok K lvl n -> store_ok E H lvl n -> winv H lvl n ->
  fuel = (8 - lvl)%nat ->
  let '(lvl', n') := s_grow_loop fuel a b lvl n in winv H lvl' n'.
Proof.
  induction fuel as [|f IH]; intros lvl n Hok Hst Hw Hf; cbn [s_grow_loop].
  - destruct (relationship _ _ a b); exact Hw.
  - destruct (relationship _ _ a b); try exact Hw;
      (destruct (sn_replace lvl _ n) as [root1|] eqn:Er; [|exact Hw];
       pose proof (grow_step_store K E H lvl n root1 Hok Hst Er) as Hst1;
       pose proof (grow_step_node_ok K lvl n root1 Hok ltac:(lia) Er) as Hok1;
       pose proof (grow_step_winv K H lvl n root1 Hok (proj2 (proj2 (proj2 (proj2 Hst)))) Hw Er) as Hw1;
       specialize (IH (S lvl) root1 Hok1 Hst1 Hw1 ltac:(lia));
       destruct (s_grow_loop f a b (S lvl) root1); exact IH).
Qed.

Lemma s_put_winv K a b smp beta s E H : valid_range K a b -> b - a < 10 -> sinv K s E H ->
  root_cinv s H -> root_winv s H ->
  root_winv (fst (s_put a b smp s)) (mk_write a b smp beta :: H).
Proof.
  intros Hv Hshort Hs Hc Hw. pose proof Hv as (Hab & Ha & Hb).
  assert (G : match s_root (s_grow a b s) with
              | Some (lvl, n) => wf lvl n /\ cinv H lvl n /\ winv H lvl n
              | None => False
              end).
  { pose proof (s_grow_store K a b s E H Hv Hs) as GS.
    unfold s_grow, sinv, root_cinv, root_winv in *. destruct (s_root s) as [[lvl n]|]; cbn [s_root] in *.
    - destruct Hs as [Hok Hst]. pose proof (pow10_pos lvl).
      pose proof (grow_loop_cinv K E H (Z.min a (sn_time n)) (Z.max b (sn_time n + pow10 lvl))
                    (max_level - lvl)%nat lvl n Hok Hst Hc eq_refl) as GC.
      pose proof (grow_loop_winv K E H (Z.min a (sn_time n)) (Z.max b (sn_time n + pow10 lvl))
                    (max_level - lvl)%nat lvl n Hok Hst Hw eq_refl) as GW.
      destruct (s_grow_loop _ _ _ lvl n) as [lvl' n']. destruct GS as ((_ & Hwf & _) & _). auto.
    - destruct Hs as [HH HE]. subst H.
      assert (Hn : node_ok K 0 (new_node a 0)).
      { split; [unfold max_level; lia|]. split; [apply wf_new_node; change (pow10 0) with 1; apply Z.mod_1_r|].
        split; [apply two_new_node|]. unfold in_blk. cbn [new_node sn_time]. change (pow10 0) with 1. lia. }
      assert (Hst : store_ok E [] 0 (new_node a 0)).
      { split; [apply quiet_new_node; intros k _; apply HE|].
        split; [apply ninv_new_node; constructor|].
        split; [intros k _; apply HE|]. split; [rewrite content_new_node; reflexivity|constructor]. }
      assert (Hc0 : cinv [] 0 (new_node a 0)) by (cbn; intros [w [[] _]]).
      assert (Hw0 : winv [] 0 (new_node a 0)) by (cbn; auto).
      pose proof (grow_loop_cinv K E [] a b max_level 0%nat (new_node a 0) Hn Hst Hc0 eq_refl) as GC.
      pose proof (grow_loop_winv K E [] a b max_level 0%nat (new_node a 0) Hn Hst Hw0 eq_refl) as GW.
      destruct (s_grow_loop _ _ _ _ _) as [lvl' n']. destruct GS as ((_ & Hwf & _) & _). auto. }
  unfold s_put. destruct (s_root (s_grow a b s)) as [[lvl n]|]; [|contradiction].
  destruct G as (Hwf & Hcn & Hwn). pose proof (put_winv a b smp beta H Hab Hshort lvl n Hwf Hcn Hwn) as P.
  destruct (s_put_node lvl a b smp n) as [n' cbs]. cbn [fst] in *. unfold root_winv. cbn [s_root]. exact P.
Qed.

Lemma run_winv K : forall ws s E H, Forall (valid_write K) ws -> Forall (fun w => w_b w - w_a w < 10) ws ->
  sinv K s E H -> root_cinv s H -> root_winv s H ->
  root_winv (fst (fold_left put_step ws (s, E))) (rev ws ++ H).
Proof.
  induction ws as [|w ws IH]; intros s E H Hv Hsh Hs Hc Hw; cbn [fold_left rev app]; [exact Hw|].
  inversion Hv as [|w0 ws0 [Hw1 Hw2] Hvs]; subst. inversion Hsh as [|w1 ws1 Hs1 Hss]; subst.
  pose proof (s_put_store K (w_a w) (w_b w) (w_smp w) (w_beta w) s E H Hw1 Hw2 Hs) as Hstep.
  pose proof (s_put_cinv K (w_a w) (w_b w) (w_smp w) (w_beta w) s E H Hw1 Hs1 Hs Hc) as Hcstep.
  pose proof (s_put_winv K (w_a w) (w_b w) (w_smp w) (w_beta w) s E H Hw1 Hs1 Hs Hc Hw) as Hwstep.
  assert (Heq : put_step (s, E) w = (fst (s_put (w_a w) (w_b w) (w_smp w) s),
                                     apply_cbs (w_beta w) E (snd (s_put (w_a w) (w_b w) (w_smp w) s)))).
  { unfold put_step. cbn [fst snd]. destruct (s_put (w_a w) (w_b w) (w_smp w) s). reflexivity. }
  rewrite Heq. specialize (IH _ _ _ Hvs Hss Hstep Hcstep Hwstep).
  rewrite <- app_assoc. cbn [app].
  replace (mk_write (w_a w) (w_b w) (w_smp w) (w_beta w)) with w in IH by (destruct w; reflexivity).
  exact IH.
Qed.

(* the counters do not depend on the order of the history *)
Lemma sumN'_app l1 l2 : sumN' (l1 ++ l2) = (sumN' l1 + sumN' l2)%N.
Proof. unfold sumN'. induction l1 as [|x l1 IH]; cbn [app fold_right]; lia. Qed.
Lemma sumN'_rev l : sumN' (rev l) = sumN' l.
Proof. induction l as [|x l IH]; [reflexivity|]. cbn [rev]. rewrite sumN'_app, IH. unfold sumN'. cbn [fold_right]. lia. Qed.
Lemma filter_rev {A} (f : A -> bool) l : filter f (rev l) = rev (filter f l).
Proof.
  induction l as [|x l IH]; [reflexivity|]. cbn [rev filter]. rewrite filter_app, IH. cbn [filter].
  destruct (f x); cbn [rev]; [reflexivity|rewrite app_nil_r; reflexivity].
Qed.
Lemma nmeet_rev H lvl t : nmeet (rev H) lvl t = nmeet H lvl t.
Proof. unfold nmeet. rewrite filter_rev, rev_length. reflexivity. Qed.
Lemma ssum_rev H lvl t : ssum (rev H) lvl t = ssum H lvl t.
Proof. unfold ssum. rewrite filter_rev, map_rev. apply sumN'_rev. Qed.

Lemma winv_rev H : forall lvl n, winv (rev H) lvl n -> winv H lvl n.
Proof.
  induction lvl as [|l IH]; intros [t p s w ch]; cbn [winv]; rewrite nmeet_rev, ssum_rev; [tauto|].
  intros (W1 & W2 & W3). split; [exact W1|]. split; [exact W2|].
  unfold oall in *. eapply Forall_impl; [|exact W3]. intros o Ho. destruct o; [apply IH; exact Ho|exact I].
Qed.

(* get hands out the counters of the nodes it names *)
Lemma get_counters H : forall lvl a b n, winv H lvl n ->
  Forall (fun c => gc_writes c = nmeet H (gc_lvl c) (gc_t c) /\ gc_samples c = ssum H (gc_lvl c) (gc_t c))
         (s_get_node lvl a b n).
Proof.
  induction lvl as [|l IH]; intros a b [t p s w ch] Hw; rewrite get_node_unfold; cbv zeta.
  - destruct Hw as (W1 & W2 & _).
    destruct (p && covers _); [repeat constructor; cbn; auto|].
    destruct (is_outside _); [constructor|].
    destruct (p && _); [repeat constructor; cbn; auto|constructor].
  - destruct Hw as (W1 & W2 & W3).
    destruct (p && covers _); [repeat constructor; cbn; auto|].
    destruct (is_outside _); [constructor|].
    destruct (p && _); [repeat constructor; cbn; auto|].
    apply Forall_forall. intros c Hc. apply in_flat_map in Hc. destruct Hc as [o [Ho Hc]].
    destruct o as [x|]; [|destruct Hc]. cbn [get_child] in Hc.
    pose proof (oall_In _ _ _ W3 Ho) as Hx. specialize (IH a b x Hx). rewrite Forall_forall in IH. exact (IH c Hc).
Qed.

Theorem seg_counters_exact : seg_counters_exact_stmt.
Proof.
  intros K ws Hv Hsh.
  assert (Hs0 : sinv K s_empty store0 []) by (unfold sinv; cbn; split; reflexivity).
  pose proof (run_winv K ws s_empty store0 [] Hv Hsh Hs0 I I) as G. rewrite app_nil_r in G. fold (run_writes ws) in G.
  assert (G' : root_winv (fst (run_writes ws)) ws).
  { unfold root_winv in *. destruct (s_root (fst (run_writes ws))) as [[lvl n]|]; [apply winv_rev; exact G|exact I]. }
  split; [exact G'|]. intros qa qb Hq. unfold s_get, root_winv in *.
  destruct (s_root (fst (run_writes ws))) as [[lvl n]|]; [apply get_counters; exact G'|constructor].
Qed.

(* ---------- single-slot writes (what the agent sends): the share is 1/1, the counter adds n exactly ---------- *)
Lemma wincr_single_slot lvl t w : w_b w = w_a w + 1 -> (w_smp w < 2 ^ 53)%N -> meets lvl t w = true ->
  wincr lvl t w = w_smp w.
Proof.
  intros Hb Hn Hm. unfold wincr. unfold meets in Hm. pose proof (pow10_pos lvl).
  replace (ov t (t + pow10 lvl) (w_a w) (w_b w)) with 1 by (unfold ov; lia).
  replace (w_b w - w_a w) with 1 by lia. apply samples_incr_one. exact Hn.
Qed.

Lemma ssum_single_slot H lvl t : Forall (fun w => w_b w = w_a w + 1 /\ (w_smp w < 2 ^ 53)%N) H ->
  ssum H lvl t = sumN' (map w_smp (filter (meets lvl t) H)).
Proof.
  intros HH. unfold ssum. f_equal. induction HH as [|w H [H1 H2] _ IH]; [reflexivity|].
  cbn [filter]. destruct (meets lvl t w) eqn:Em; [|exact IH]. cbn [map]. rewrite IH.
  rewrite (wincr_single_slot lvl t w H1 H2 Em). reflexivity.
Qed.

(* for histories of single-slot writes with counts below 2^53: every node, and every get callback,
   holds the number of writes into its bucket and the plain sum of their sample counts *)
Theorem seg_counters_single_slot K ws : Forall (valid_write K) ws ->
  Forall (fun w => w_b w = w_a w + 1 /\ (w_smp w < 2 ^ 53)%N) ws ->
  root_winv (fst (run_writes ws)) ws /\
  forall qa qb, qa < qb ->
    Forall (fun c => gc_writes c = nmeet ws (gc_lvl c) (gc_t c) /\
                     gc_samples c = sumN' (map w_smp (filter (meets (gc_lvl c) (gc_t c)) ws)))
           (s_get qa qb (fst (run_writes ws))).
Proof.
  intros Hv H1.
  assert (Hsh : Forall (fun w => w_b w - w_a w < 10) ws).
  { eapply Forall_impl; [|exact H1]. intros w [Hb _]. lia. }
  destruct (seg_counters_exact K ws Hv Hsh) as [G1 G2]. split; [exact G1|].
  intros qa qb Hq. eapply Forall_impl; [|exact (G2 qa qb Hq)].
  intros c [C1 C2]. split; [exact C1|]. rewrite C2. apply ssum_single_slot. exact H1.
Qed.
