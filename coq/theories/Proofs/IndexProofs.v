(* IndexProofs.v — the label listings and the inverted index of Model/Index.v over any history. *)
From Pyro Require Import Model.Base Model.Key Model.Dimension Model.Labels Model.Index.
From Pyro Require Import Proofs.BcmpProofs Proofs.KeyProofs Proofs.DimensionProofs.
From Coq Require Import Permutation.

(* ================= label listings ================= *)

Lemma strip_prefix_app : forall p v, strip_prefix p (p ++ v) = Some v.
Proof. induction p as [|a p IH]; intros v; cbn; [destruct v; reflexivity|]. rewrite N.eqb_refl. apply IH. Qed.

Lemma strip_prefix_some : forall p e v, strip_prefix p e = Some v -> e = p ++ v.
Proof.
  induction p as [|a p IH]; intros e v H; cbn in H.
  - inversion H. reflexivity.
  - destruct e as [|b e]; [discriminate|]. destruct (a =? b) eqn:E; [|discriminate].
    apply N.eqb_eq in E. subst. cbn. f_equal. apply IH. exact H.
Qed.

Lemma scan_In : forall p s v, In v (scan p s) <-> In (p ++ v) s.
Proof.
  intros p s v. unfold scan. rewrite in_flat_map. split.
  - intros [e [He Hv]]. destruct (strip_prefix p e) as [r|] eqn:E; [|destruct Hv].
    destruct Hv as [->|[]]. apply strip_prefix_some in E. subst. exact He.
  - intros H. exists (p ++ v). split; auto. rewrite strip_prefix_app. left. reflexivity.
Qed.

Lemma labels_put_In : forall k v s e, In e (labels_put k v s) <-> e = vkey k v \/ e = lkey k \/ In e s.
Proof. intros. unfold labels_put. rewrite !d_insert_In. tauto. Qed.

Lemma put_labels_mono : forall K s e, In e s ->
  In e (fold_left (fun s kv => labels_put (fst kv) (snd kv) s) K s).
Proof.
  induction K as [|[k v] K IH]; intros s e H; cbn; auto.
  apply IH. apply labels_put_In. auto.
Qed.

Lemma put_labels_has : forall K s k v, In (k, v) K ->
  let s' := fold_left (fun s kv => labels_put (fst kv) (snd kv) s) K s in
  In (lkey k) s' /\ In (vkey k v) s'.
Proof.
  induction K as [|[k0 v0] K IH]; intros s k v H; cbn; [destruct H|].
  destruct H as [H|H].
  - inversion H; subst. split; apply put_labels_mono; apply labels_put_In; auto.
  - apply IH. exact H.
Qed.

Lemma delete_fold_labels : forall sks st,
  ix_labels (fold_left (fun st sk => delete_series (parse sk) st) sks st) = ix_labels st.
Proof. induction sks as [|x sks IH]; intros st; cbn; auto. rewrite IH. reflexivity. Qed.

Lemma step_labels_mono : forall st o e, In e (ix_labels st) -> In e (ix_labels (ix_step st o)).
Proof.
  intros st [K s c|Q|K] e H; cbn.
  - apply put_labels_mono. exact H.
  - unfold ix_delete. destruct (ix_select Q st); auto. rewrite delete_fold_labels. exact H.
  - exact H.
Qed.

Lemma run_labels_mono : forall ops st e, In e (ix_labels st) -> In e (ix_labels (fold_left ix_step ops st)).
Proof. induction ops as [|o ops IH]; intros st e H; cbn; auto. apply IH. apply step_labels_mono. exact H. Qed.

Lemma run_labels_has : forall ops st K s c k v, In (IPut K s c) ops -> In (k, v) K ->
  In (lkey k) (ix_labels (fold_left ix_step ops st)) /\ In (vkey k v) (ix_labels (fold_left ix_step ops st)).
Proof.
  induction ops as [|o ops IH]; intros st K s c k v Hop Hkv; [destruct Hop|]. cbn.
  destruct Hop as [->|Hop].
  - cbn [ix_step]. destruct (put_labels_has K (ix_labels st) k v Hkv) as [A B].
    split; apply run_labels_mono; cbn; auto.
  - eapply IH; eauto.
Qed.

(* C07_labels_verbatim: every tag name and every tag value of every ingested series is listed verbatim,
   whatever bytes they contain and whatever happened afterwards (deletes do not remove labels) *)
Theorem labels_verbatim : forall ops K s c k v, In (IPut K s c) ops -> In (k, v) K ->
  In k (get_keys (ix_labels (ix_run ops))) /\ In v (get_values k (ix_labels (ix_run ops))).
Proof.
  intros ops K s c k v Hop Hkv. unfold ix_run, get_keys, get_values.
  destruct (run_labels_has ops ix_empty K s c k v Hop Hkv) as [A B].
  split; apply scan_In; [exact A|exact B].
Qed.

(* the application listing: GetValues("__name__") contains the application name of every ingested series *)
Theorem apps_listed : forall ops K s c, In (IPut K s c) ops -> lget name_key K <> None ->
  In (app_name K) (get_values name_key (ix_labels (ix_run ops))).
Proof.
  intros ops K s c Hop Hn. unfold app_name. destruct (lget name_key K) as [n|] eqn:E; [|congruence].
  apply lget_In in E. eapply labels_verbatim; eauto.
Qed.

(* no invented values when tag names carry no ':' : a listed value was ingested under that name *)
Lemma colon_split : forall k k' v v', has c_colon k = false -> has c_colon k' = false ->
  k ++ c_colon :: v = k' ++ c_colon :: v' -> k = k' /\ v = v'.
Proof.
  induction k as [|a k IH]; intros [|b k'] v v' Hk Hk' E; cbn in E.
  - inversion E. auto.
  - inversion E; subst. apply has_cons_false in Hk'. destruct Hk' as [X _]. rewrite N.eqb_refl in X. discriminate.
  - inversion E; subst. apply has_cons_false in Hk. destruct Hk as [X _]. rewrite N.eqb_refl in X. discriminate.
  - inversion E; subst. apply has_cons_false in Hk. apply has_cons_false in Hk'.
    destruct (IH k' v v' (proj2 Hk) (proj2 Hk') H1) as [-> ->]. auto.
Qed.

(* ================= series names admitted by the index theorems ================= *)

(* what ParseKey produces (labels_ok, a __name__ entry), with no '{' in the __name__ value
   (C15 finding reserved-name-brace) and no ':' in tag names (the dimension key is k + ":" + v) *)
Definition key_ok (K : labels) : Prop :=
  labels_ok K /\ lget name_key K <> None /\ name_ok (app_name K) /\
  Forall (fun kv => has c_colon (fst kv) = false) K.

Definition names (K : labels) : list bytes := map (fun kv => dim_name (fst kv) (snd kv)) K.

Lemma key_ok_fix : forall K, key_ok K -> parse (normalized K) = K.
Proof. intros K [A [B [C _]]]. apply fixpoint_labels; auto. Qed.

Lemma norm_inj : forall K1 K2, key_ok K1 -> key_ok K2 -> normalized K1 = normalized K2 -> K1 = K2.
Proof. intros K1 K2 H1 H2 E. rewrite <- (key_ok_fix K1 H1), <- (key_ok_fix K2 H2), E. reflexivity. Qed.

Lemma key_ok_nodup : forall K, key_ok K -> NoDup (map fst K).
Proof. intros K [[A _] _]. apply ssorted_NoDup. exact A. Qed.

Lemma key_ok_nonempty : forall K, key_ok K -> K <> [].
Proof. intros K [_ [B _]] ->. apply B. reflexivity. Qed.

Lemma names_In : forall K1 K2 k v, key_ok K1 -> key_ok K2 -> In (k, v) K1 ->
  (In (dim_name k v) (names K2) <-> In (k, v) K2).
Proof.
  intros K1 K2 k v H1 H2 Hkv. unfold names. rewrite in_map_iff. split.
  - intros [[k' v'] [E H]]. cbn in E.
    destruct H1 as [_ [_ [_ C1]]]. destruct H2 as [_ [_ [_ C2]]]. rewrite Forall_forall in C1, C2.
    apply C1 in Hkv. pose proof (C2 _ H) as Hc. cbn in Hkv, Hc.
    unfold dim_name in E. destruct (colon_split _ _ _ _ Hc Hkv E) as [-> ->]. exact H.
  - intros H. exists (k, v). auto.
Qed.

Lemma labels_eqb_true : forall a b, labels_eqb a b = true <-> a = b.
Proof.
  unfold labels_eqb. induction a as [|[k v] a IH]; intros [|[k' v'] b]; cbn; split; intros H; try discriminate; auto.
  - apply andb_true_iff in H. destruct H as [H1 H2]. apply andb_true_iff in H1. destruct H1 as [H1 H3].
    apply beqb_true in H1. apply beqb_true in H3. apply IH in H2. subst. reflexivity.
  - inversion H; subst. rewrite !beqb_refl. cbn. apply IH. reflexivity.
Qed.

Lemma sub_labels_spec : forall Q K, NoDup (map fst K) ->
  (sub_labels Q K = true <-> forall kv, In kv Q -> In kv K).
Proof.
  intros Q K Hnd. unfold sub_labels. rewrite forallb_forall. split.
  - intros H [k v] Hkv. specialize (H _ Hkv). cbn in H. destruct (lget k K) as [v'|] eqn:E; [|discriminate].
    apply beqb_true in H. subst. apply lget_In. exact E.
  - intros H [k v] Hkv. cbn. rewrite (In_lget k v K Hnd (H _ Hkv)). apply beqb_refl.
Qed.

(* ================= the caches ================= *)

Lemma dm_get_set : forall n n' d m, dm_get n (dm_set n' d m) = if beqb n n' then d else dm_get n m.
Proof.
  induction m as [|[n0 d0] m IH]; cbn.
  - destruct (beqb n n'); reflexivity.
  - destruct (beqb n' n0) eqn:E; cbn.
    + apply beqb_true in E. subst. destruct (beqb n n0); reflexivity.
    + rewrite IH. destruct (beqb n n0) eqn:E1; auto.
      destruct (beqb n n') eqn:E2; auto. apply beqb_true in E1. apply beqb_true in E2. subst.
      rewrite beqb_refl in E. discriminate.
Qed.

Lemma seg_mem_set : forall x k p m, seg_mem x (seg_set k p m) = true <-> x = k \/ seg_mem x m = true.
Proof.
  unfold seg_mem. induction m as [|[k0 p0] m IH]; cbn.
  - rewrite orb_false_r, beqb_true. intuition discriminate.
  - destruct (beqb k k0) eqn:E; cbn.
    + apply beqb_true in E. subst. rewrite !orb_true_iff, beqb_true. tauto.
    + rewrite !orb_true_iff, IH. tauto.
Qed.

Lemma seg_mem_del : forall x k m, seg_mem x (seg_del k m) = true <-> x <> k /\ seg_mem x m = true.
Proof.
  unfold seg_mem. induction m as [|[k0 p0] m IH]; cbn.
  - intuition discriminate.
  - destruct (beqb k k0) eqn:E; cbn.
    + apply beqb_true in E. subst. rewrite IH, orb_true_iff, beqb_true. intuition congruence.
    + apply beqb_false in E. rewrite !orb_true_iff, IH, beqb_true. intuition congruence.
Qed.

(* applying f to the dimension of every pair of K, at the level of membership *)
Section Upd.
  Variable f : dim -> dim.
  Variable M : dkey -> Prop -> Prop.
  Hypothesis f_sorted : forall d, ssorted d -> ssorted (f d).
  Hypothesis f_mem : forall d x, ssorted d -> (In x (f d) <-> M x (In x d)).
  Hypothesis M_idem : forall x P, M x (M x P) <-> M x P.
  Hypothesis M_congr : forall x P Q, (P <-> Q) -> (M x P <-> M x Q).

  Lemma upd_dims_spec : forall K m, (forall n, ssorted (dm_get n m)) ->
    (forall n, ssorted (dm_get n (upd_dims f K m))) /\
    (forall n x, (In n (names K) -> (In x (dm_get n (upd_dims f K m)) <-> M x (In x (dm_get n m)))) /\
                 (~ In n (names K) -> (In x (dm_get n (upd_dims f K m)) <-> In x (dm_get n m)))).
  Proof.
    unfold upd_dims. induction K as [|[k v] K IH]; intros m Hs; cbn [fold_left names map].
    - split; auto. intros n x. split; [intros []|tauto].
    - cbn [fst snd]. set (n1 := dim_name k v). set (m1 := dm_set n1 (f (dm_get n1 m)) m).
      assert (Hs1 : forall n, ssorted (dm_get n m1)).
      { intros n. unfold m1. rewrite dm_get_set. destruct (beqb n n1); auto. }
      destruct (IH m1 Hs1) as [A B]. split; auto.
      intros n x. destruct (B n x) as [B1 B2].
      assert (Hn1 : forall y, beqb n n1 = true -> (In y (dm_get n m1) <-> M y (In y (dm_get n m)))).
      { intros y E. unfold m1. rewrite dm_get_set, E. apply beqb_true in E. subst n. apply f_mem. auto. }
      assert (Hn2 : beqb n n1 = false -> dm_get n m1 = dm_get n m).
      { intros E. unfold m1. rewrite dm_get_set, E. reflexivity. }
      destruct (in_dec (list_eq_dec N.eq_dec) n (names K)) as [Hin|Hnin].
      + split; [|intros X; exfalso; apply X; right; exact Hin].
        intros _. rewrite (B1 Hin). destruct (beqb n n1) eqn:E.
        * rewrite (M_congr x _ _ (Hn1 x eq_refl)). apply M_idem.
        * rewrite (Hn2 eq_refl). tauto.
      + rewrite (B2 Hnin). destruct (beqb n n1) eqn:E.
        * split; [intros _; apply Hn1; reflexivity|].
          intros X. exfalso. apply X. left. apply beqb_true in E. auto.
        * rewrite (Hn2 eq_refl). apply beqb_false in E. split; [|tauto].
          intros [X|X]; [congruence|contradiction].
  Qed.
End Upd.

(* ================= the invariant ================= *)

Record Inv (st : index) (L : list labels) : Prop := {
  inv_ok : Forall key_ok L;
  inv_sorted : forall n, ssorted (dm_get n (ix_dims st));
  inv_dims : forall n x, In x (dm_get n (ix_dims st)) <->
                         exists K, In K L /\ x = normalized K /\ In n (names K);
  inv_segs : forall x, seg_mem x (ix_segs st) = true <-> exists K, In K L /\ x = normalized K
}.

Lemma Inv_ext : forall st L L', (forall K, In K L <-> In K L') -> Inv st L -> Inv st L'.
Proof.
  intros st L L' Hext [A B C D]. constructor; auto.
  - apply Forall_forall. intros K HK. rewrite Forall_forall in A. apply A. apply Hext. exact HK.
  - intros n x. rewrite C. split; intros [K [H1 H2]]; exists K; split; auto; apply Hext; auto.
  - intros x. rewrite D. split; intros [K [H1 H2]]; exists K; split; auto; apply Hext; auto.
Qed.

Lemma Inv_empty : Inv ix_empty [].
Proof.
  constructor; cbn.
  - constructor.
  - intros. constructor.
  - intros n x. split; [intros []|intros [K [[] _]]].
  - intros x. split; [discriminate|intros [K [[] _]]].
Qed.

Lemma put_inv : forall st L K s c, Inv st L -> key_ok K ->
  Inv (ix_put K s c st) (live_step L (IPut K s c)).
Proof.
  intros st L K s c [A B C D] HK.
  assert (HL : forall K', In K' (live_step L (IPut K s c)) <-> In K' L \/ K' = K).
  { intros K'. cbn. destruct (existsb (labels_eqb K) L) eqn:E.
    - apply existsb_exists in E. destruct E as [K0 [H0 E0]]. apply labels_eqb_true in E0. subst K0.
      split; [auto|]. intros [H | ->]; auto.
    - rewrite in_app_iff. cbn. intuition. }
  destruct (upd_dims_spec (d_insert (normalized K)) (fun x P => x = normalized K \/ P)
              (d_insert_sorted _) ltac:(intros; apply d_insert_In) ltac:(intros; tauto) ltac:(intros; tauto)
              K (ix_dims st) B) as [S1 S2].
  constructor; cbn [ix_put ix_dims ix_segs].
  - apply Forall_forall. intros K' H. apply HL in H. destruct H as [H| ->]; auto.
    rewrite Forall_forall in A. auto.
  - exact S1.
  - intros n x. destruct (S2 n x) as [P1 P2].
    destruct (in_dec (list_eq_dec N.eq_dec) n (names K)) as [Hin|Hnin].
    + rewrite (P1 Hin), C. split.
      * intros [->|[K' [H1 [H2 H3]]]]; [exists K|exists K']; rewrite HL; auto.
      * intros [K' [H1 [H2 H3]]]. apply HL in H1. destruct H1 as [H1| ->]; [right; exists K'|left]; auto.
    + rewrite (P2 Hnin), C. split.
      * intros [K' [H1 [H2 H3]]]. exists K'. rewrite HL. auto.
      * intros [K' [H1 [H2 H3]]]. apply HL in H1. destruct H1 as [H1| ->]; [exists K'; auto|contradiction].
  - intros x. rewrite seg_mem_set, D. split.
    + intros [->|[K' [H1 H2]]]; [exists K|exists K']; rewrite HL; auto.
    + intros [K' [H1 H2]]. apply HL in H1. destruct H1 as [H1| ->]; [right; exists K'|left]; auto.
Qed.

Lemma delete_series_inv : forall st L K, Inv st L -> key_ok K ->
  Inv (delete_series K st) (filter (fun K' => negb (labels_eqb K' K)) L).
Proof.
  intros st L K [A B C D] HK.
  assert (HL : forall K', In K' (filter (fun K' => negb (labels_eqb K' K)) L) <-> In K' L /\ K' <> K).
  { intros K'. rewrite filter_In, negb_true_iff. split; intros [H1 H2]; split; auto.
    - intros ->. rewrite (proj2 (labels_eqb_true K K) eq_refl) in H2. discriminate.
    - destruct (labels_eqb K' K) eqn:E; auto. apply labels_eqb_true in E. contradiction. }
  assert (Hinj : forall K', In K' L -> (normalized K' = normalized K <-> K' = K)).
  { intros K' H. rewrite Forall_forall in A. split; [apply norm_inj; auto|intros ->; reflexivity]. }
  destruct (upd_dims_spec (d_delete (normalized K)) (fun x P => P /\ x <> normalized K)
              (d_delete_sorted _) ltac:(intros; apply d_delete_In; auto) ltac:(intros; tauto) ltac:(intros; tauto)
              K (ix_dims st) B) as [S1 S2].
  constructor; cbn [delete_series ix_dims ix_segs].
  - apply Forall_forall. intros K' H. apply HL in H. rewrite Forall_forall in A. apply A. tauto.
  - exact S1.
  - intros n x. destruct (S2 n x) as [P1 P2].
    destruct (in_dec (list_eq_dec N.eq_dec) n (names K)) as [Hin|Hnin].
    + rewrite (P1 Hin), C. split.
      * intros [[K' [H1 [H2 H3]]] Hne]. exists K'. rewrite HL. repeat split; auto.
        intros ->. contradiction.
      * intros [K' [H1 [H2 H3]]]. apply HL in H1. destruct H1 as [H1 Hne]. split; [exists K'; auto|].
        subst x. intros E. apply Hinj in E; auto.
    + rewrite (P2 Hnin), C. split.
      * intros [K' [H1 [H2 H3]]]. exists K'. rewrite HL. repeat split; auto. intros ->. contradiction.
      * intros [K' [H1 [H2 H3]]]. apply HL in H1. exists K'. tauto.
  - intros x. rewrite seg_mem_del, D. split.
    + intros [Hne [K' [H1 H2]]]. exists K'. rewrite HL. repeat split; auto. intros ->. contradiction.
    + intros [K' [H1 H2]]. apply HL in H1. destruct H1 as [H1 Hne]. split; [|exists K'; auto].
      subst x. intros E. apply Hinj in E; auto.
Qed.

(* ================= selectors ================= *)

Lemma select_spec : forall st L Q, Inv st L -> key_ok Q ->
  exists r, ix_select Q st = Some r /\ ssorted r /\
            (forall x, In x r <-> exists K, In K L /\ x = normalized K /\ sub_labels Q K = true).
Proof.
  intros st L Q [A B C D] HQ. unfold ix_select.
  set (g := fun kv : runes * runes => dm_get (dim_name (fst kv) (snd kv)) (ix_dims st)).
  assert (Hs : Forall ssorted (map g Q)).
  { apply Forall_map. apply Forall_forall. intros kv _. apply B. }
  destruct (intersection_spec _ Hs) as [r [E [S M]]]. exists r. split; [exact E|split; [exact S|]].
  pose proof (key_ok_nonempty _ HQ) as Hne.
  assert (Hne' : map g Q <> []) by (destruct Q; [congruence|discriminate]).
  rewrite Forall_forall in A.
  intros x. rewrite (M Hne' x), Forall_map, Forall_forall. split.
  - intros H. destruct Q as [|kv0 Q']; [congruence|].
    pose proof (H kv0 (or_introl eq_refl)) as H0. unfold g in H0. apply C in H0.
    destruct H0 as [K0 [HK0 [Hx _]]]. exists K0. split; auto. split; auto.
    apply sub_labels_spec; [apply key_ok_nodup; auto|].
    intros [k v] Hkv. pose proof (H _ Hkv) as H1. unfold g in H1. apply C in H1. cbn [fst snd] in H1.
    destruct H1 as [K [HK [Hx' Hn]]].
    assert (K = K0) as -> by (apply norm_inj; auto; congruence).
    apply (names_In (kv0 :: Q') K0 k v HQ (A _ HK0) Hkv). exact Hn.
  - intros [K [HK [Hx Hsub]]] [k v] Hkv. unfold g. apply C. exists K. split; auto. split; auto.
    pose proof (proj1 (sub_labels_spec Q K (key_ok_nodup _ (A _ HK))) Hsub) as Hsub'.
    unfold names. apply in_map_iff. exists (k, v). split; auto.
Qed.

Lemma fold_delete_inv : forall r st L, Inv st L -> (forall x, In x r -> key_ok (parse x)) ->
  Inv (fold_left (fun st sk => delete_series (parse sk) st) r st)
      (filter (fun K' => negb (existsb (fun x => labels_eqb K' (parse x)) r)) L).
Proof.
  induction r as [|x r IH]; intros st L HI Hok; cbn [fold_left].
  - eapply Inv_ext; [|exact HI]. intros K. rewrite filter_In. cbn. tauto.
  - pose proof (delete_series_inv st L (parse x) HI (Hok x (or_introl eq_refl))) as H1.
    pose proof (IH _ _ H1 (fun y Hy => Hok y (or_intror Hy))) as H2.
    eapply Inv_ext; [|exact H2]. intros K. rewrite !filter_In. cbn [existsb].
    rewrite negb_orb, andb_true_iff. tauto.
Qed.

Lemma delete_inv : forall st L Q, Inv st L -> key_ok Q ->
  Inv (ix_delete Q st) (live_step L (IDelete Q)).
Proof.
  intros st L Q HI HQ. unfold ix_delete.
  destruct (select_spec st L Q HI HQ) as [r [E [S M]]]. rewrite E.
  pose proof (inv_ok _ _ HI) as A. rewrite Forall_forall in A.
  assert (Hpar : forall x, In x r -> exists K, In K L /\ parse x = K /\ sub_labels Q K = true /\ x = normalized K).
  { intros x Hx. apply M in Hx. destruct Hx as [K [HK [-> Hs]]]. exists K. repeat split; auto.
    apply key_ok_fix. auto. }
  assert (Hok : forall x, In x r -> key_ok (parse x)).
  { intros x Hx. destruct (Hpar x Hx) as [K [HK [-> _]]]. auto. }
  eapply Inv_ext; [|apply (fold_delete_inv r st L HI Hok)].
  intros K. cbn [live_step]. rewrite !filter_In. split; intros [HK Hb]; split; auto.
  - (* not re-parsed from the snapshot -> not matched by the selector *)
    apply negb_true_iff. destruct (sub_labels Q K) eqn:Es; auto. exfalso.
    apply negb_true_iff in Hb. rewrite <- Bool.not_true_iff_false in Hb. apply Hb.
    apply existsb_exists. exists (normalized K). split.
    + apply M. exists K. auto.
    + apply labels_eqb_true. symmetry. apply key_ok_fix. auto.
  - apply negb_true_iff. apply Bool.not_true_iff_false. intros Hex.
    apply existsb_exists in Hex. destruct Hex as [x [Hx Ex]]. apply labels_eqb_true in Ex.
    destruct (Hpar x Hx) as [K0 [_ [Hp [Hs _]]]]. rewrite Hp in Ex. subst K0.
    rewrite Hs in Hb. discriminate.
Qed.

Definition op_ok (o : iop) : Prop :=
  match o with IPut K _ _ => key_ok K | IDelete Q => key_ok Q | IDrop K => key_ok K end.

Lemma step_inv : forall st L o, Inv st L -> op_ok o -> Inv (ix_step st o) (live_step L o).
Proof.
  intros st L [K s c|Q|K] HI Ho; cbn [ix_step live_step];
    [apply put_inv|apply delete_inv|apply delete_series_inv]; auto.
Qed.

Lemma run_inv_gen : forall ops st L, Inv st L -> Forall op_ok ops ->
  Inv (fold_left ix_step ops st) (fold_left live_step ops L).
Proof.
  induction ops as [|o ops IH]; intros st L HI Hok; cbn; auto.
  inversion Hok; subst. apply IH; auto. apply step_inv; auto.
Qed.

(* dimension_inv: in every reachable state every dimension is the sorted set of the canonical keys of the
   live series carrying that pair, and the segments are those of the live series *)
Theorem dimension_inv : forall ops, Forall op_ok ops -> Inv (ix_run ops) (live ops).
Proof. intros. apply run_inv_gen; auto. apply Inv_empty. Qed.

(* C07_selector_exact: the series a query aggregates *)
Theorem selector_exact : forall ops Q, Forall op_ok ops -> key_ok Q ->
  exists r, ix_select_series Q (ix_run ops) = Some r /\ NoDup r /\
            (forall x, In x r <-> exists K, In K (live ops) /\ sub_labels Q K = true /\ x = normalized K).
Proof.
  intros ops Q Hops HQ. pose proof (dimension_inv ops Hops) as HI.
  destruct (select_spec _ _ Q HI HQ) as [r [E [S M]]].
  unfold ix_select_series. rewrite E.
  pose proof (inv_ok _ _ HI) as A. rewrite Forall_forall in A.
  assert (Hid : map (fun sk => normalized (parse sk)) r = r).
  { rewrite <- (map_id r) at 2. apply map_ext_in. intros x Hx. apply M in Hx.
    destruct Hx as [K [HK [-> _]]]. rewrite key_ok_fix; auto. }
  rewrite Hid. eexists. split; [reflexivity|]. split.
  - apply NoDup_filter. apply ssorted_NoDup. exact S.
  - intros x. rewrite filter_In, M. split.
    + intros [[K [HK [Hx Hs]]] _]. exists K. auto.
    + intros [K [HK [Hs Hx]]]. split; [exists K; auto|].
      apply (inv_segs _ _ HI). exists K. auto.
Qed.

(* every live series is one that was ingested and whose tags are not matched by a later delete *)
Lemma live_step_In : forall L o K, In K (live_step L o) ->
  In K L \/ exists s c, o = IPut K s c.
Proof.
  intros L [K0 s c|Q|K0] K H; cbn in H.
  - destruct (existsb (labels_eqb K0) L); auto. apply in_app_iff in H. destruct H as [H|[<-|[]]]; eauto.
  - apply filter_In in H. tauto.
  - apply filter_In in H. tauto.
Qed.

(* ================= which names satisfy key_ok ================= *)

Lemma parse_key_ok : forall s,
  has c_lbrace (app_name (parse s)) = false ->
  forallb (fun kv => negb (has c_colon (fst kv))) (parse s) = true ->
  key_ok (parse s).
Proof.
  intros s Hb Hc. destruct (parse_ok s) as [A B]. split; [exact A|split; [exact B|split; [exact Hb|]]].
  apply Forall_forall. intros kv Hkv. rewrite forallb_forall in Hc. apply Hc in Hkv.
  apply negb_true_iff in Hkv. exact Hkv.
Qed.

(* the hypothesis "no ':' in tag names" is needed: a:b=c and a=b:c share the dimension "a:b:c" *)
Definition colon_K1 : labels := parse [97; 112; 112; 123; 97; 58; 98; 61; 99; 125].   (* app{a:b=c} *)
Definition colon_K2 : labels := parse [97; 112; 112; 123; 97; 61; 98; 58; 99; 125].   (* app{a=b:c} *)

Theorem selector_colon_refuted :
  let ops := [IPut colon_K1 [115; 48] 1; IPut colon_K2 [115; 49] 2] in
  sub_labels colon_K2 colon_K1 = false /\
  exists r, ix_select_series colon_K2 (ix_run ops) = Some r /\ In (normalized colon_K1) r.
Proof.
  cbv zeta. split; [vm_compute; reflexivity|].
  eexists. split; [vm_compute; reflexivity|]. vm_compute. auto.
Qed.

(* ================= tag order in the selector text ================= *)

(* the texts of a selector that differ in tag order / surrounding white space parse to the same label map
   (KeyProofs.order_ws_parse), hence select the same series *)
Theorem selector_text_order : forall n n' l l' st,
  name_ok n -> name_ok n' -> Forall tag_ok l -> Forall tag_ok l' ->
  trim n = trim n' -> NoDup (map fst (trim_tags l)) -> Permutation (trim_tags l) (trim_tags l') ->
  ix_select_series (parse (render n l)) st = ix_select_series (parse (render n' l')) st /\
  ix_get (parse (render n l)) st = ix_get (parse (render n' l')) st.
Proof.
  intros n n' l l' st H1 H2 H3 H4 H5 H6 H7.
  rewrite (order_ws_parse n n' l l' H1 H2 H3 H4 H5 H6 H7). auto.
Qed.

(* whatever order Go's map iteration hands the selector's dimensions to Intersection in *)
Theorem select_any_order : forall st L Q Q', Inv st L -> Permutation Q Q' ->
  intersection (map (fun kv => dm_get (dim_name (fst kv) (snd kv)) (ix_dims st)) Q') = ix_select Q st.
Proof.
  intros st L Q Q' HI Hp. unfold ix_select. symmetry. apply intersection_perm.
  - apply Forall_map. apply Forall_forall. intros kv _. apply (inv_sorted _ _ HI).
  - apply Permutation_map. exact Hp.
Qed.

(* ================= no invented label values ================= *)

Lemma put_labels_only : forall K s e,
  In e (fold_left (fun s kv => labels_put (fst kv) (snd kv) s) K s) ->
  In e s \/ exists k v, In (k, v) K /\ (e = lkey k \/ e = vkey k v).
Proof.
  induction K as [|[k0 v0] K IH]; intros s e H; cbn in H; auto.
  apply IH in H. destruct H as [H|[k [v [Hkv He]]]].
  - apply labels_put_In in H. destruct H as [H|[H|H]]; auto; right; exists k0, v0; cbn; auto.
  - right. exists k, v. cbn. auto.
Qed.

Lemma run_labels_only : forall ops st e, In e (ix_labels (fold_left ix_step ops st)) ->
  In e (ix_labels st) \/ exists K s c k v, In (IPut K s c) ops /\ In (k, v) K /\ (e = lkey k \/ e = vkey k v).
Proof.
  induction ops as [|o ops IH]; intros st e H; cbn in H; auto.
  apply IH in H. destruct H as [H|[K [s [c [k [v [H1 H2]]]]]]].
  - destruct o as [K s c|Q|K]; cbn in H.
    + apply put_labels_only in H. destruct H as [H|[k [v [Hkv He]]]]; auto.
      right. exists K, s, c, k, v. cbn. auto.
    + unfold ix_delete in H. destruct (ix_select Q st); auto. rewrite delete_fold_labels in H. auto.
    + auto.
  - right. exists K, s, c, k, v. cbn. auto.
Qed.

(* a value listed under a ':'-free name was ingested under that name, when no ingested tag name has ':' *)
Theorem labels_exact : forall ops k v,
  (forall K s c, In (IPut K s c) ops -> Forall (fun kv => has c_colon (fst kv) = false) K) ->
  has c_colon k = false ->
  (In v (get_values k (ix_labels (ix_run ops))) <-> exists K s c, In (IPut K s c) ops /\ In (k, v) K).
Proof.
  intros ops k v Hc Hk. split.
  - intros H. unfold get_values in H. apply scan_In in H. unfold ix_run in H.
    apply run_labels_only in H. destruct H as [[]|[K [s [c [k' [v' [Hop [Hkv He]]]]]]]].
    exists K, s, c. split; auto.
    pose proof (Hc _ _ _ Hop) as HK. rewrite Forall_forall in HK. apply HK in Hkv as Hk'. cbn in Hk'.
    destruct He as [He|He].
    + unfold vprefix, lkey in He. cbn in He. inversion He.
    + unfold vprefix, vkey in He. cbn in He. inversion He as [E].
      rewrite <- !app_assoc in E. cbn in E.
      destruct (colon_split _ _ _ _ Hk Hk' E) as [-> ->]. exact Hkv.
  - intros [K [s [c [Hop Hkv]]]]. eapply labels_verbatim; eauto.
Qed.
