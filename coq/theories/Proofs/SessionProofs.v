(* SessionProofs.v — lemmas about Model/Session.v (C19: agent session). *)
From Pyro Require Import Model.Base Model.Session.
From Coq Require Import Lia ZArith.
Open Scope Z_scope.

(* ---- bytes equality ------------------------------------------------------------------------------ *)
Lemma bcmp_eq : forall a b, bcmp a b = Eq -> a = b.
Proof.
  induction a as [|x a IH]; intros [|y b] H; cbn in H; try discriminate; auto.
  destruct (N.compare x y) eqn:E; try discriminate.
  apply N.compare_eq in E. subst. f_equal. apply IH. exact H.
Qed.
Lemma bcmp_refl : forall a, bcmp a a = Eq.
Proof. induction a as [|x a IH]; cbn; auto. rewrite N.compare_refl. exact IH. Qed.
Lemma beqb_true : forall a b, beqb a b = true <-> a = b.
Proof.
  intros a b. unfold beqb. split.
  - destruct (bcmp a b) eqn:E; try discriminate. intros _. apply bcmp_eq. exact E.
  - intros ->. rewrite bcmp_refl. reflexivity.
Qed.
Lemma beqb_refl : forall a, beqb a a = true.
Proof. intro. apply beqb_true. reflexivity. Qed.
Lemma beqb_false : forall a b, beqb a b = false <-> a <> b.
Proof.
  intros a b. split.
  - intros H E. apply beqb_true in E. congruence.
  - intro H. destruct (beqb a b) eqn:E; auto. apply beqb_true in E. contradiction.
Qed.

(* ---- multisets ------------------------------------------------------------------------------------ *)
Lemma ms_get_add : forall k k' v m,
  ms_get k (ms_add k' v m) = (if beqb k k' then v + ms_get k m else ms_get k m)%N.
Proof. reflexivity. Qed.

Lemma ms_get_map_keys : forall (f : bytes -> N) (keys : list bytes) k,
  NoDup keys ->
  ms_get k (map (fun k' => (k', f k')) keys) = if existsb (beqb k) keys then f k else 0%N.
Proof.
  intros f keys k. induction keys as [|x keys IH]; intro ND; cbn; auto.
  inversion ND as [|? ? Hnin ND']; subst.
  destruct (beqb k x) eqn:E; cbn.
  - apply beqb_true in E. subst x. rewrite IH by auto.
    destruct (existsb (beqb k) keys) eqn:Ex.
    + exfalso. apply existsb_exists in Ex as [y [Hy Ey]]. apply beqb_true in Ey. subst y. contradiction.
    + lia.
  - apply IH. auto.
Qed.

Lemma ms_keys_spec : forall m seen,
  NoDup (ms_keys m seen) /\
  (forall k, In k (ms_keys m seen) -> ~ In k seen) /\
  (forall k, ms_get k m <> 0%N -> In k seen \/ In k (ms_keys m seen)).
Proof.
  induction m as [|[k0 v0] m IH]; intro seen; cbn.
  - repeat split; [constructor | intros k [] | intros k H; congruence].
  - destruct (existsb (beqb k0) seen) eqn:Ex.
    + destruct (IH seen) as [A [B C]]. repeat split; auto.
      intros k H. destruct (beqb k k0) eqn:E.
      * apply beqb_true in E. subst k0. left.
        apply existsb_exists in Ex as [y [Hy Ey]]. apply beqb_true in Ey. subst y. exact Hy.
      * apply C. exact H.
    + destruct (IH (k0 :: seen)) as [A [B C]].
      assert (Hns : ~ In k0 seen).
      { intro Hin. assert (existsb (beqb k0) seen = true).
        { apply existsb_exists. exists k0. split; auto. apply beqb_refl. }
        congruence. }
      repeat split.
      * constructor; auto. intro Hin. apply B in Hin. apply Hin. left. reflexivity.
      * intros k [<- | Hin]; auto. intro Hs. apply B in Hin. apply Hin. right. exact Hs.
      * intros k H. destruct (beqb k k0) eqn:E.
        -- apply beqb_true in E. subst k0. right. left. reflexivity.
        -- destruct (C k H) as [[<- | Hs] | Hin]; auto.
           ++ rewrite beqb_refl in E. discriminate.
           ++ right. right. exact Hin.
Qed.

(* Diff is the clipped difference per stack (the statement C18_diff proves about the byte-level trie) *)
Lemma ms_get_diff : forall cur prev k, ms_get k (ms_diff cur prev) = (ms_get k cur - ms_get k prev)%N.
Proof.
  intros cur prev k. unfold ms_diff.
  destruct (ms_keys_spec cur []) as [ND [_ C]].
  rewrite (ms_get_map_keys (fun k' => (ms_get k' cur - ms_get k' prev)%N)) by exact ND.
  destruct (existsb (beqb k) (ms_keys cur [])) eqn:Ex; auto.
  destruct (N.eq_dec (ms_get k cur) 0) as [Hz | Hnz].
  - rewrite Hz. reflexivity.
  - destruct (C k Hnz) as [[] | Hin].
    assert (existsb (beqb k) (ms_keys cur []) = true).
    { apply existsb_exists. exists k. split; auto. apply beqb_refl. }
    congruence.
Qed.

(* ---- truncation ------------------------------------------------------------------------------------- *)
Lemma trunc_le : forall d t, 0 < d -> trunc d t <= t.
Proof. intros d t Hd. unfold trunc. pose proof (Z.mod_pos_bound t d Hd). lia. Qed.

Lemma trunc_multiple : forall d t, 0 < d -> (trunc d t) mod d = 0.
Proof.
  intros d t Hd. unfold trunc.
  rewrite Zminus_mod_idemp_r. rewrite Z.sub_diag. apply Z.mod_0_l. lia.
Qed.

Lemma trunc_eq : forall d t, 0 < d -> trunc d t = d * (t / d).
Proof. intros d t Hd. unfold trunc. pose proof (Z.div_mod t d). lia. Qed.

(* a reading less than two intervals after the start of the bucket of s truncates to at most one interval
   after s *)
Lemma trunc_window : forall d s now, 0 < d -> now < trunc d s + 2 * d -> trunc d now - s <= d.
Proof.
  intros d s now Hd H.
  pose proof (trunc_le d s Hd) as Hs.
  rewrite (trunc_eq d now Hd). rewrite (trunc_eq d s Hd) in *.
  assert (Hq : now / d < s / d + 2).
  { apply Z.div_lt_upper_bound; auto. lia. }
  assert (d * (now / d) <= d * (s / d + 1)) by (apply Z.mul_le_mono_nonneg_l; lia).
  lia.
Qed.

(* ---- state invariant --------------------------------------------------------------------------------- *)
Definition is_some {A} (o : option A) : bool := match o with Some _ => true | None => false end.

Record started (s : sstate) : Prop := {
  st_tries : forallb is_some (ss_tries s) = true;
  st_len : length (ss_prev s) = length (ss_tries s)
}.

Definition cur (k : bytes) (i : nat) (s : sstate) : N :=
  match nth_error (ss_tries s) i with Some (Some m) => ms_get k m | _ => 0%N end.

(* samples accepted into slot i for stack k by one event *)
Definition reported1 (c : scfg) (k : bytes) (i : nat) (e : sevent) : N :=
  match e with
  | SSample spy k' v =>
      match k' with
      | [] => 0%N
      | _ => if Nat.eqb (slot_of c spy) i && beqb k k' then v else 0%N
      end
  | _ => 0%N
  end.
Definition reported (c : scfg) (k : bytes) (i : nat) (evs : list sevent) : N :=
  fold_right (fun e n => (reported1 c k i e + n)%N) 0%N evs.

Lemma reported_app : forall c k i a b, reported c k i (a ++ b) = (reported c k i a + reported c k i b)%N.
Proof.
  intros. induction a as [|e a IH]; [reflexivity|].
  change (reported c k i ((e :: a) ++ b)) with (reported1 c k i e + reported c k i (a ++ b))%N.
  rewrite IH. change (reported c k i (e :: a)) with (reported1 c k i e + reported c k i a)%N. lia.
Qed.

(* ---- upload_slots ------------------------------------------------------------------------------------ *)
Lemma upload_slot_slot : forall c start now i p t pv j,
  In j (fst (upload_slot c start now i p t pv)) -> uj_slot j = i.
Proof.
  intros c start now i p t pv j H. unfold upload_slot in H.
  destruct t as [m|]; cbn in H; [|contradiction].
  destruct (pt_cumulative p); [destruct pv as [q|]|]; cbn in H; try contradiction;
    destruct H as [<- | []]; reflexivity.
Qed.

Lemma upload_slots_length : forall c start now ts pvs i js pvs',
  upload_slots c start now i ts pvs = (js, pvs') -> length pvs' = length pvs.
Proof.
  intros c start now. induction ts as [|t ts IH]; intros pvs i js pvs' H; cbn in H.
  - inversion H; subst. reflexivity.
  - destruct pvs as [|pv pvs]; [inversion H; subst; reflexivity|].
    destruct (upload_slot c start now i (type_of c i) t pv) as [j1 pv1] eqn:E1.
    destruct (upload_slots c start now (S i) ts pvs) as [j2 pvs2] eqn:E2.
    inversion H; subst. cbn. f_equal. eapply IH. exact E2.
Qed.

Lemma upload_slots_range : forall c start now ts pvs i js pvs',
  upload_slots c start now i ts pvs = (js, pvs') ->
  forall j, In j js -> (i <= uj_slot j)%nat.
Proof.
  intros c start now. induction ts as [|t ts IH]; intros pvs i js pvs' H j Hj; cbn in H.
  - inversion H; subst. contradiction.
  - destruct pvs as [|pv pvs]; [inversion H; subst; contradiction|].
    destruct (upload_slot c start now i (type_of c i) t pv) as [j1 pv1] eqn:E1.
    destruct (upload_slots c start now (S i) ts pvs) as [j2 pvs2] eqn:E2.
    inversion H; subst. apply in_app_or in Hj as [Hj | Hj].
    + pose proof (upload_slot_slot c start now i (type_of c i) t pv j) as S1. rewrite E1 in S1.
      rewrite (S1 Hj). lia.
    + pose proof (IH _ _ _ _ E2 j Hj). lia.
Qed.

Lemma filter_none : forall A (f : A -> bool) l, (forall x, In x l -> f x = false) -> filter f l = [].
Proof.
  induction l as [|x l IH]; intro H; cbn; auto.
  rewrite (H x) by (left; reflexivity). apply IH. intros y Hy. apply H. right. exact Hy.
Qed.
Lemma filter_all : forall A (f : A -> bool) l, (forall x, In x l -> f x = true) -> filter f l = l.
Proof.
  induction l as [|x l IH]; intro H; cbn; auto.
  rewrite (H x) by (left; reflexivity). f_equal. apply IH. intros y Hy. apply H. right. exact Hy.
Qed.

(* the jobs of slot i produced by uploadTries are exactly those of the i-th loop iteration *)
Lemma upload_slots_slot : forall c start now ts pvs i0 js pvs' d,
  upload_slots c start now i0 ts pvs = (js, pvs') ->
  length pvs = length ts ->
  jobs_of_slot (i0 + d) js =
    match nth_error ts d, nth_error pvs d with
    | Some t, Some pv => fst (upload_slot c start now (i0 + d) (type_of c (i0 + d)) t pv)
    | _, _ => []
    end /\
  nth_error pvs' d =
    match nth_error ts d, nth_error pvs d with
    | Some t, Some pv => Some (snd (upload_slot c start now (i0 + d) (type_of c (i0 + d)) t pv))
    | _, _ => None
    end.
Proof.
  intros c start now. induction ts as [|t ts IH]; intros pvs i0 js pvs' d H L; cbn in H.
  - destruct pvs; [|discriminate]. inversion H; subst. destruct d; cbn; auto.
  - destruct pvs as [|pv pvs]; [discriminate|].
    destruct (upload_slot c start now i0 (type_of c i0) t pv) as [j1 pv1] eqn:E1.
    destruct (upload_slots c start now (S i0) ts pvs) as [j2 pvs2] eqn:E2.
    inversion H; subst; clear H. cbn in L.
    unfold jobs_of_slot. rewrite filter_app.
    destruct d as [|d]; cbn [nth_error].
    + rewrite Nat.add_0_r. rewrite E1. cbn [fst snd]. split; auto.
      rewrite (filter_all _ _ j1).
      * rewrite (filter_none _ _ j2). apply app_nil_r.
        intros x Hx. pose proof (upload_slots_range _ _ _ _ _ _ _ _ E2 x Hx). apply Nat.eqb_neq. lia.
      * intros x Hx. pose proof (upload_slot_slot c start now i0 (type_of c i0) t pv x) as S1.
        rewrite E1 in S1. apply Nat.eqb_eq. auto.
    + rewrite (filter_none _ _ j1).
      * cbn [app]. replace (i0 + S d)%nat with (S i0 + d)%nat by lia.
        apply (IH pvs (S i0) j2 pvs2 d E2). lia.
      * intros x Hx. pose proof (upload_slot_slot c start now i0 (type_of c i0) t pv x) as S1.
        rewrite E1 in S1. apply Nat.eqb_neq. rewrite (S1 Hx). lia.
Qed.

Lemma map_some_forall : forall (l : list (option mset)), forallb is_some (map (fun _ => Some (@nil (bytes * N))) l) = true.
Proof. induction l; cbn; auto. Qed.

Lemma nth_error_map_const : forall A B (l : list A) (b : B) i,
  nth_error (map (fun _ => b) l) i = match nth_error l i with Some _ => Some b | None => None end.
Proof. induction l as [|x l IH]; intros b [|i]; cbn; auto. Qed.

Lemma forallb_nth : forall A (f : A -> bool) l i x, forallb f l = true -> nth_error l i = Some x -> f x = true.
Proof.
  intros A f l i x H Hn. rewrite forallb_forall in H. apply H. eapply nth_error_In. exact Hn.
Qed.

(* ---- uploadTries: what it does to one slot ------------------------------------------------------------ *)
Lemma upload_tries_started : forall c now s js s',
  started s -> upload_tries c now s = (js, s') -> started s' /\ ss_start s' = ss_start s.
Proof.
  intros c now s js s' [T L] H. unfold upload_tries in H.
  destruct (upload_slots c (ss_start s) now 0 (ss_tries s) (ss_prev s)) as [js0 pvs] eqn:E.
  inversion H; subst; clear H. split; auto.
  constructor; cbn.
  - apply map_some_forall.
  - rewrite map_length. rewrite (upload_slots_length _ _ _ _ _ _ _ _ E). exact L.
Qed.

Lemma upload_tries_slot : forall c now s js s' i m,
  started s -> upload_tries c now s = (js, s') ->
  nth_error (ss_tries s) i = Some (Some m) ->
  exists pv, nth_error (ss_prev s) i = Some pv /\
    jobs_of_slot i js = fst (upload_slot c (ss_start s) now i (type_of c i) (Some m) pv) /\
    nth_error (ss_prev s') i = Some (snd (upload_slot c (ss_start s) now i (type_of c i) (Some m) pv)) /\
    nth_error (ss_tries s') i = Some (Some []).
Proof.
  intros c now s js s' i m [T L] H Hn. unfold upload_tries in H.
  destruct (upload_slots c (ss_start s) now 0 (ss_tries s) (ss_prev s)) as [js0 pvs] eqn:E.
  inversion H; subst; clear H.
  destruct (nth_error (ss_prev s) i) as [pv|] eqn:Hp.
  2:{ exfalso. apply nth_error_None in Hp. assert (i < length (ss_tries s))%nat by (apply nth_error_Some; congruence). lia. }
  exists pv. split; auto.
  destruct (upload_slots_slot c (ss_start s) now _ _ 0%nat _ _ i E L) as [A B].
  cbn [Nat.add] in A, B. rewrite Hn, Hp in A, B.
  repeat split; auto. cbn. rewrite nth_error_map_const, Hn. reflexivity.
Qed.

(* ---- one step preserves [started]; quiet events produce no job ----------------------------------------- *)
Lemma upd_nth_length : forall A n (f : A -> A) l, length (upd_nth n f l) = length l.
Proof. induction n; intros f [|x l]; cbn; auto. Qed.

Lemma nth_error_upd_nth : forall A n (f : A -> A) l i,
  nth_error (upd_nth n f l) i =
  if Nat.eqb n i then match nth_error l i with Some x => Some (f x) | None => None end else nth_error l i.
Proof.
  induction n as [|n IH]; intros f [|x l] [|i]; cbn; auto.
  destruct (Nat.eqb n i); reflexivity.
Qed.

Lemma upd_nth_forallb : forall (l : list (option mset)) n k v,
  forallb is_some l = true ->
  forallb is_some (upd_nth n (fun t => match t with Some m => Some (ms_add k v m) | None => None end) l) = true.
Proof.
  induction l as [|x l IH]; intros [|n] k v H; cbn in *; auto.
  - apply andb_true_iff in H as [H1 H2]. destruct x; [|discriminate]. cbn. exact H2.
  - apply andb_true_iff in H as [H1 H2]. rewrite H1. cbn. apply IH. exact H2.
Qed.

Lemma do_reset_started : forall c now s js s', started s -> do_reset c now s = (js, s') -> started s'.
Proof.
  intros c now s js s' St H. unfold do_reset in H. destruct (ss_stopped s).
  - inversion H; subst. exact St.
  - destruct (upload_tries c now s) as [j0 s0] eqn:E. inversion H; subst.
    destruct (upload_tries_started _ _ _ _ _ St E) as [[T L] _]. constructor; auto.
Qed.

Lemma step_started : forall c s e js s', started s -> s_step c s e = (js, s') -> started s'.
Proof.
  intros c s e js s' St H. destruct e as [now | t1 | spy k v | t2 | ts]; cbn in H.
  - eapply do_reset_started; eauto.
  - inversion H; subst. destruct St. constructor; auto.
  - inversion H; subst. destruct St as [T L]. unfold insert_sample. destruct k; [constructor; auto|].
    constructor; cbn.
    + apply upd_nth_forallb. exact T.
    + rewrite upd_nth_length. exact L.
  - destruct (ss_due s).
    + destruct (do_reset c t2 s) as [j0 s0] eqn:E. inversion H; subst.
      pose proof (do_reset_started _ _ _ _ _ St E) as [T L]. constructor; auto.
    + inversion H; subst. exact St.
  - destruct (ss_stopped s).
    + inversion H; subst. exact St.
    + assert (St' : started (with_stopped s)) by (destruct St; constructor; auto).
      apply (upload_tries_started _ _ _ _ _ St' H).
Qed.

(* ---- conservation for a non-cumulative slot ------------------------------------------------------------ *)
Lemma sum_data_app : forall k a b, sum_data k (a ++ b) = (sum_data k a + sum_data k b)%N.
Proof.
  intros. induction a as [|j a IH]; [reflexivity|].
  change (sum_data k ((j :: a) ++ b)) with (ms_get k (uj_data j) + sum_data k (a ++ b))%N.
  rewrite IH. change (sum_data k (j :: a)) with (ms_get k (uj_data j) + sum_data k a)%N. lia.
Qed.

Lemma jobs_of_slot_app : forall i a b, jobs_of_slot i (a ++ b) = jobs_of_slot i a ++ jobs_of_slot i b.
Proof. intros. unfold jobs_of_slot. apply filter_app. Qed.

Lemma cur_some : forall k i s, started s -> (i < length (ss_tries s))%nat ->
  exists m, nth_error (ss_tries s) i = Some (Some m) /\ cur k i s = ms_get k m.
Proof.
  intros k i s [T _] Hi. unfold cur.
  destruct (nth_error (ss_tries s) i) as [[m|]|] eqn:E.
  - exists m. auto.
  - pose proof (forallb_nth _ _ _ _ _ T E). discriminate.
  - apply nth_error_None in E. lia.
Qed.

(* uploadTries moves the whole current trie of a non-cumulative slot into exactly one job *)
Lemma upload_tries_conserve : forall c now s js s' i k,
  started s -> (i < length (ss_tries s))%nat -> pt_cumulative (type_of c i) = false ->
  upload_tries c now s = (js, s') ->
  sum_data k (jobs_of_slot i js) = cur k i s /\ cur k i s' = 0%N /\
  length (jobs_of_slot i js) = 1%nat /\ length (ss_tries s') = length (ss_tries s).
Proof.
  intros c now s js s' i k St Hi Hc H.
  destruct (cur_some k i s St Hi) as [m [Hn Hcur]].
  destruct (upload_tries_slot c now s js s' i m St H Hn) as [pv [Hp [Hj [Hp' Ht']]]].
  unfold upload_slot in Hj. rewrite Hc in Hj. cbn in Hj.
  rewrite Hj. cbn. repeat split.
  - rewrite Hcur. lia.
  - unfold cur. rewrite Ht'. reflexivity.
  - unfold upload_tries in H.
    destruct (upload_slots c (ss_start s) now 0 (ss_tries s) (ss_prev s)). inversion H; subst. cbn.
    apply map_length.
Qed.

Lemma do_reset_conserve : forall c now s js s' i k,
  started s -> (i < length (ss_tries s))%nat -> pt_cumulative (type_of c i) = false ->
  do_reset c now s = (js, s') ->
  (sum_data k (jobs_of_slot i js) + cur k i s' = cur k i s)%N /\
  length (ss_tries s') = length (ss_tries s).
Proof.
  intros c now s js s' i k St Hi Hc H. unfold do_reset in H. destruct (ss_stopped s).
  - inversion H; subst. cbn. split; auto.
  - destruct (upload_tries c now s) as [j0 s0] eqn:E. inversion H; subst.
    destruct (upload_tries_conserve c now s _ _ i k St Hi Hc E) as [A [B [_ L]]].
    rewrite A. unfold cur in *. cbn. split; [|exact L]. rewrite B. lia.
Qed.

Lemma step_conserve : forall c s e js s' i k,
  started s -> (i < length (ss_tries s))%nat -> pt_cumulative (type_of c i) = false ->
  s_step c s e = (js, s') ->
  (sum_data k (jobs_of_slot i js) + cur k i s' = cur k i s + reported1 c k i e)%N /\
  length (ss_tries s') = length (ss_tries s).
Proof.
  intros c s e js s' i k St Hi Hc H.
  destruct e as [now | t1 | spy k' v | t2 | ts]; cbn in H.
  - destruct (do_reset_conserve c now s js s' i k St Hi Hc H) as [A L]. cbn [reported1]. split; [lia | exact L].
  - inversion H; subst. cbn. unfold cur. cbn. split; auto. lia.
  - inversion H; subst. cbn [jobs_of_slot filter sum_data fold_right reported1].
    unfold insert_sample. destruct k' as [|b k']; [split; auto; lia|].
    split; [|cbn; apply upd_nth_length].
    destruct (cur_some k i s St Hi) as [m [Hm Hcur]].
    unfold cur. cbn [ss_tries]. rewrite nth_error_upd_nth, Hm.
    destruct (Nat.eqb (slot_of c spy) i) eqn:Es; cbn [andb].
    + rewrite ms_get_add. destruct (beqb k (b :: k')); lia.
    + lia.
  - destruct (ss_due s).
    + destruct (do_reset c t2 s) as [j0 s0] eqn:E. inversion H; subst.
      destruct (do_reset_conserve c t2 s _ _ i k St Hi Hc E) as [A L]. cbn [reported1].
      unfold cur in *. cbn. split; [lia | exact L].
    + inversion H; subst. cbn. split; auto. lia.
  - destruct (ss_stopped s).
    + inversion H; subst. cbn. split; auto. lia.
    + assert (St' : started (with_stopped s)) by (destruct St; constructor; auto).
      destruct (upload_tries_conserve c ts (with_stopped s) js s' i k St' Hi Hc H) as [A [B [_ L]]].
      cbn [reported1]. rewrite A, B. unfold cur. cbn. split; [lia | exact L].
Qed.

(* ---- runs ------------------------------------------------------------------------------------------------ *)
Lemma run_conserve : forall c evs s js s' i k,
  started s -> (i < length (ss_tries s))%nat -> pt_cumulative (type_of c i) = false ->
  s_run c evs s = (js, s') ->
  (sum_data k (jobs_of_slot i js) + cur k i s' = cur k i s + reported c k i evs)%N /\
  started s' /\ length (ss_tries s') = length (ss_tries s).
Proof.
  intros c evs. induction evs as [|e evs IH]; intros s js s' i k St Hi Hc H; cbn [s_run] in H.
  - inversion H; subst. cbn. split; [lia | split; auto].
  - destruct (s_step c s e) as [j1 s1] eqn:E1.
    destruct (s_run c evs s1) as [j2 s2] eqn:E2.
    inversion H; subst; clear H.
    destruct (step_conserve c s e j1 s1 i k St Hi Hc E1) as [A L1].
    pose proof (step_started c s e j1 s1 St E1) as St1.
    assert (Hi1 : (i < length (ss_tries s1))%nat) by lia.
    destruct (IH s1 j2 s' i k St1 Hi1 Hc E2) as [B [St2 L2]].
    rewrite jobs_of_slot_app, sum_data_app.
    change (reported c k i (e :: evs)) with (reported1 c k i e + reported c k i evs)%N.
    split; [lia | split; [auto | lia]].
Qed.

(* Start(): the first reset uploads nothing and creates the tries *)
Lemma upload_slots_none : forall c start now n i pvs,
  length pvs = n ->
  upload_slots c start now i (repeat None n) pvs = ([], pvs).
Proof.
  intros c start now n. induction n as [|n IH]; intros i pvs L; cbn.
  - destruct pvs; [reflexivity | discriminate].
  - destruct pvs as [|pv pvs]; [discriminate|]. cbn. rewrite IH by (cbn in L; lia). reflexivity.
Qed.

Lemma start_step : forall c t0,
  exists s1, s_step c (s_init c) (SStart t0) = ([], s1) /\ started s1 /\
    length (ss_tries s1) = nslots c /\ ss_stopped s1 = false /\ ss_start s1 = t0 /\
    ss_prev s1 = repeat None (nslots c) /\
    forall k i, cur k i s1 = 0%N.
Proof.
  intros c t0. cbn. unfold do_reset, upload_tries. cbn.
  rewrite upload_slots_none by apply repeat_length. cbn.
  eexists. split; [reflexivity|]. repeat split; cbn.
  - apply map_some_forall.
  - rewrite map_length, !repeat_length. reflexivity.
  - rewrite map_length, repeat_length. reflexivity.
  - intros k i. unfold cur. cbn. rewrite nth_error_map_const.
    destruct (nth_error (repeat None (nslots c)) i); reflexivity.
Qed.

(* conservation: at every moment, for every stack, what has been uploaded for a (non-cumulative) profile type
   plus what sits in the current trie is exactly what the spies reported *)
Theorem session_conservation : forall c t0 evs i k,
  (i < nslots c)%nat -> pt_cumulative (type_of c i) = false ->
  forall js s', s_run c (SStart t0 :: evs) (s_init c) = (js, s') ->
  (sum_data k (jobs_of_slot i js) + cur k i s' = reported c k i evs)%N.
Proof.
  intros c t0 evs i k Hi Hc js s' H.
  destruct (start_step c t0) as [s1 [E1 [St1 [L1 [_ [_ [_ C1]]]]]]].
  cbn [s_run] in H. rewrite E1 in H.
  destruct (s_run c evs s1) as [j2 s2] eqn:E2. inversion H; subst; clear H. cbn [app].
  destruct (run_conserve c evs s1 _ _ i k St1 ltac:(lia) Hc E2) as [A _].
  rewrite C1 in A. lia.
Qed.

(* once stopped, nothing is uploaded any more *)
Lemma stopped_no_jobs : forall c evs s js s',
  ss_stopped s = true -> s_run c evs s = (js, s') -> js = [] /\ ss_stopped s' = true.
Proof.
  intros c evs. induction evs as [|e evs IH]; intros s js s' Hs H; cbn [s_run] in H.
  - inversion H; subst. auto.
  - destruct (s_step c s e) as [j1 s1] eqn:E1.
    destruct (s_run c evs s1) as [j2 s2] eqn:E2. inversion H; subst; clear H.
    assert (j1 = [] /\ ss_stopped s1 = true).
    { destruct e as [now | t1 | spy k v | t2 | ts]; cbn in E1; unfold do_reset in E1; rewrite ?Hs in E1.
      - inversion E1; subst. auto.
      - inversion E1; subst. auto.
      - inversion E1; subst. unfold insert_sample. destruct k; auto.
      - destruct (ss_due s); inversion E1; subst; auto.
      - inversion E1; subst. auto. }
    destruct H as [-> Hs1]. destruct (IH s1 _ _ Hs1 E2) as [-> Hs2]. auto.
Qed.

Definition no_stop (evs : list sevent) : bool :=
  forallb (fun e => match e with SStop _ => false | _ => true end) evs.

Lemma no_stop_not_stopped : forall c evs s js s',
  no_stop evs = true -> ss_stopped s = false -> s_run c evs s = (js, s') -> ss_stopped s' = false.
Proof.
  intros c evs. induction evs as [|e evs IH]; intros s js s' Hn Hs H; cbn [s_run] in H.
  - inversion H; subst. auto.
  - cbn in Hn. apply andb_true_iff in Hn as [He Hn].
    destruct (s_step c s e) as [j1 s1] eqn:E1.
    destruct (s_run c evs s1) as [j2 s2] eqn:E2. inversion H; subst; clear H.
    assert (Hs1 : ss_stopped s1 = false).
    { destruct e as [now | t1 | spy k v | t2 | ts]; cbn in E1; unfold do_reset in E1; rewrite ?Hs in E1; try discriminate.
      + unfold upload_tries in E1. destruct (upload_slots _ _ _ _ _ _). inversion E1; subst; cbn; auto.
      + inversion E1; subst; cbn; auto.
      + inversion E1; subst. unfold insert_sample. destruct k; cbn; auto.
      + destruct (ss_due s).
        * unfold upload_tries in E1. destruct (upload_slots _ _ _ _ _ _). inversion E1; subst; cbn; auto.
        * inversion E1; subst; cbn; auto. }
    eapply IH; eauto.
Qed.

Lemma s_run_app : forall c a b s,
  s_run c (a ++ b) s =
  let '(j1, s1) := s_run c a s in let '(j2, s2) := s_run c b s1 in ((j1 ++ j2)%list, s2).
Proof.
  intros c a. induction a as [|e a IH]; intros b s; cbn [app s_run].
  - destruct (s_run c b s). reflexivity.
  - destruct (s_step c s e) as [j0 s0]. rewrite IH.
    destruct (s_run c a s0) as [j1 s1]. destruct (s_run c b s1) as [j2 s2]. rewrite app_assoc. reflexivity.
Qed.

(* exactly once: every sample reported before Stop is in the uploads exactly once (as a multiset: for every
   stack, the uploaded count equals the reported count), whatever happens after Stop; samples reported after
   Stop are uploaded at most once — in fact never (their tries are never uploaded) *)
Theorem exactly_once_before_stop : forall c t0 pre ts post i k,
  (i < nslots c)%nat -> pt_cumulative (type_of c i) = false -> no_stop pre = true ->
  forall js s', s_run c (SStart t0 :: pre ++ SStop ts :: post) (s_init c) = (js, s') ->
  sum_data k (jobs_of_slot i js) = reported c k i pre.
Proof.
  intros c t0 pre ts post i k Hi Hc Hn js s' H.
  destruct (start_step c t0) as [s1 [E1 [St1 [L1 [Hs1 [_ [_ C1]]]]]]].
  cbn [s_run] in H. rewrite E1 in H. cbn [app] in H.
  rewrite s_run_app in H.
  destruct (s_run c pre s1) as [j1 s2] eqn:E2.
  cbn [s_run] in H.
  destruct (s_step c s2 (SStop ts)) as [j3 s3] eqn:E3.
  destruct (s_run c post s3) as [j4 s4] eqn:E4.
  inversion H; subst; clear H.
  destruct (run_conserve c pre s1 _ _ i k St1 ltac:(lia) Hc E2) as [A [St2 L2]].
  pose proof (no_stop_not_stopped c pre s1 _ _ Hn Hs1 E2) as Hs2.
  destruct (step_conserve c s2 (SStop ts) _ _ i k St2 ltac:(lia) Hc E3) as [B _].
  cbn in E3. rewrite Hs2 in E3.
  assert (St2' : started (with_stopped s2)) by (destruct St2; constructor; auto).
  destruct (upload_tries_conserve c ts (with_stopped s2) _ _ i k St2' ltac:(cbn; lia) Hc E3) as [_ [Z3 _]].
  assert (Hs3 : ss_stopped s3 = true).
  { unfold upload_tries in E3. destruct (upload_slots _ _ _ _ _ _). inversion E3; subst. reflexivity. }
  destruct (stopped_no_jobs c post s3 _ _ Hs3 E4) as [-> _].
  rewrite !jobs_of_slot_app, !sum_data_app. cbn [jobs_of_slot filter sum_data fold_right].
  rewrite C1 in A. cbn [reported1] in B. lia.
Qed.

(* never more than reported, at any time, for any event sequence: nothing is uploaded twice *)
Theorem never_more_than_reported : forall c t0 evs i k,
  (i < nslots c)%nat -> pt_cumulative (type_of c i) = false ->
  forall js s', s_run c (SStart t0 :: evs) (s_init c) = (js, s') ->
  (sum_data k (jobs_of_slot i js) <= reported c k i evs)%N.
Proof.
  intros c t0 evs i k Hi Hc js s' H.
  pose proof (session_conservation c t0 evs i k Hi Hc js s' H). lia.
Qed.

(* ---- names, metadata, window ends --------------------------------------------------------------------------- *)
Definition job_ok (c : scfg) (j : ujob) : Prop :=
  uj_name j = job_name c (type_of c (uj_slot j)) /\ uj_spy j = sc_spy c /\ uj_rate j = sc_rate c /\
  uj_units j = pt_units (type_of c (uj_slot j)) /\ uj_agg j = pt_agg (type_of c (uj_slot j)) /\
  (uj_end j) mod (sc_interval c) = 0.

Lemma upload_slot_ok : forall c start now i t pv,
  0 < sc_interval c -> Forall (job_ok c) (fst (upload_slot c start now i (type_of c i) t pv)).
Proof.
  intros c start now i t pv HI. unfold upload_slot.
  destruct t as [m|]; cbn; [|constructor].
  destruct (pt_cumulative (type_of c i)); [destruct pv as [q|]|]; cbn; constructor; try constructor;
    unfold job_ok; cbn; repeat split; auto; apply trunc_multiple; auto.
Qed.

Lemma upload_slots_ok : forall c start now ts pvs i js pvs',
  0 < sc_interval c -> upload_slots c start now i ts pvs = (js, pvs') -> Forall (job_ok c) js.
Proof.
  intros c start now. induction ts as [|t ts IH]; intros pvs i js pvs' HI H; cbn in H.
  - inversion H; subst. constructor.
  - destruct pvs as [|pv pvs]; [inversion H; subst; constructor|].
    destruct (upload_slot c start now i (type_of c i) t pv) as [j1 pv1] eqn:E1.
    destruct (upload_slots c start now (S i) ts pvs) as [j2 pvs2] eqn:E2.
    inversion H; subst. apply Forall_app. split.
    + pose proof (upload_slot_ok c start now i t pv HI) as A. rewrite E1 in A. exact A.
    + eapply IH; eauto.
Qed.

Lemma step_ok : forall c s e js s', 0 < sc_interval c -> s_step c s e = (js, s') -> Forall (job_ok c) js.
Proof.
  intros c s e js s' HI H.
  assert (U : forall now s0 j0 s1, upload_tries c now s0 = (j0, s1) -> Forall (job_ok c) j0).
  { intros now s0 j0 s1 E. unfold upload_tries in E.
    destruct (upload_slots c (ss_start s0) now 0 (ss_tries s0) (ss_prev s0)) as [jj pp] eqn:E0.
    inversion E; subst. eapply upload_slots_ok; eauto. }
  assert (R : forall now s0 j0 s1, do_reset c now s0 = (j0, s1) -> Forall (job_ok c) j0).
  { intros now s0 j0 s1 E. unfold do_reset in E. destruct (ss_stopped s0).
    - inversion E; subst. constructor.
    - destruct (upload_tries c now s0) as [jj ss] eqn:E0. inversion E; subst. eapply U; eauto. }
  destruct e as [now | t1 | spy k v | t2 | ts]; cbn in H.
  - eapply R; eauto.
  - inversion H; subst. constructor.
  - inversion H; subst. constructor.
  - destruct (ss_due s).
    + destruct (do_reset c t2 s) as [jj ss] eqn:E0. inversion H; subst. eapply R; eauto.
    + inversion H; subst. constructor.
  - destruct (ss_stopped s).
    + inversion H; subst. constructor.
    + eapply U; eauto.
Qed.

(* every job of every run: named <app>.<type>, carries the session's spy name, sample rate, and the type's
   units and aggregation; its window ends on a multiple of the upload interval *)
Theorem jobs_named_and_aligned : forall c evs s js s',
  0 < sc_interval c -> s_run c evs s = (js, s') -> Forall (job_ok c) js.
Proof.
  intros c evs. induction evs as [|e evs IH]; intros s js s' HI H; cbn [s_run] in H.
  - inversion H; subst. constructor.
  - destruct (s_step c s e) as [j1 s1] eqn:E1.
    destruct (s_run c evs s1) as [j2 s2] eqn:E2. inversion H; subst; clear H.
    apply Forall_app. split; [eapply step_ok; eauto | eapply IH; eauto].
Qed.

(* ---- window order ---------------------------------------------------------------------------------------------- *)
Fixpoint ordered_from (lb : option Z) (js : list ujob) : Prop :=
  match js with
  | [] => True
  | j :: r => match lb with Some l => l <= uj_start j | None => True end /\ ordered_from (Some (uj_end j)) r
  end.

Definition last_end (lb : option Z) (js : list ujob) : option Z :=
  match rev js with [] => lb | j :: _ => Some (uj_end j) end.

Lemma ordered_from_app : forall a lb b,
  ordered_from lb a -> ordered_from (last_end lb a) b -> ordered_from lb (a ++ b).
Proof.
  induction a as [|j a IH]; intros lb b Ha Hb; cbn in *.
  - exact Hb.
  - destruct Ha as [H1 H2]. split; auto. apply IH; auto.
    unfold last_end in *. cbn in Hb.
    destruct (rev a) as [|x r] eqn:E; cbn in Hb; auto.
Qed.

(* will the next uploadTries produce a job for slot i? *)
Definition will_produce (c : scfg) (s : sstate) (i : nat) : Prop :=
  pt_cumulative (type_of c i) = true -> exists q, nth_error (ss_prev s) i = Some (Some q).

Definition order_inv (c : scfg) (s : sstate) (i : nat) (lb : option Z) : Prop :=
  ss_stopped s = true \/
  match lb with None => True | Some l => l <= ss_start s /\ will_produce c s i end.

(* what one uploadTries does for slot i, as far as windows are concerned *)
Lemma upload_tries_window : forall c now s js s' i,
  started s -> (i < length (ss_tries s))%nat -> 0 < sc_interval c ->
  upload_tries c now s = (js, s') ->
  (jobs_of_slot i js = [] \/
   exists j, jobs_of_slot i js = [j] /\ uj_start j = ss_start s /\ uj_end j = trunc (sc_interval c) now) /\
  (will_produce c s i -> jobs_of_slot i js <> []) /\
  will_produce c s' i.
Proof.
  intros c now s js s' i St Hi HI H.
  destruct (cur_some [] i s St Hi) as [m [Hn _]].
  destruct (upload_tries_slot c now s js s' i m St H Hn) as [pv [Hp [Hj [Hp' _]]]].
  unfold upload_slot in Hj, Hp'.
  destruct (pt_cumulative (type_of c i)) eqn:Ec.
  - destruct pv as [q|]; cbn in Hj, Hp'.
    + repeat split.
      * right. eexists. split; [exact Hj|]. cbn. auto.
      * intros _. rewrite Hj. discriminate.
      * intros _. eexists. exact Hp'.
    + repeat split.
      * left. exact Hj.
      * intros W. destruct (W Ec) as [q Hq]. congruence.
      * intros _. eexists. exact Hp'.
  - cbn in Hj, Hp'. repeat split.
    + right. eexists. split; [exact Hj|]. cbn. auto.
    + intros _. rewrite Hj. discriminate.
    + intro Hcum. congruence.
Qed.

Lemma step_order : forall c s e js s' i lb,
  started s -> (i < length (ss_tries s))%nat -> 0 < sc_interval c ->
  order_inv c s i lb -> s_step c s e = (js, s') ->
  ordered_from lb (jobs_of_slot i js) /\ order_inv c s' i (last_end lb (jobs_of_slot i js)).
Proof.
  intros c s e js s' i lb St Hi HI Inv H.
  (* events that upload nothing and keep start / prev / stopped *)
  assert (Quiet : forall s1, js = [] -> ss_stopped s1 = ss_stopped s -> ss_start s1 = ss_start s ->
                             ss_prev s1 = ss_prev s -> s' = s1 ->
            ordered_from lb (jobs_of_slot i js) /\ order_inv c s' i (last_end lb (jobs_of_slot i js))).
  { intros s1 -> E1 E2 E3 ->. cbn. split; auto. unfold last_end. cbn.
    destruct Inv as [Hs | Hl]; [left; congruence|]. right.
    destruct lb as [l|]; auto. destruct Hl as [A B]. split; [lia|].
    unfold will_produce in *. rewrite E3. exact B. }
  (* a reset from a live session *)
  assert (Reset : forall now jj ss, ss_stopped s = false -> upload_tries c now s = (jj, ss) ->
            ordered_from lb (jobs_of_slot i jj) /\
            order_inv c (with_start ss now) i (last_end lb (jobs_of_slot i jj))).
  { intros now jj ss Hs E.
    destruct (upload_tries_window c now s jj ss i St Hi HI E) as [Shape [Prod W']].
    destruct Inv as [Hst | Hl]; [congruence|].
    destruct Shape as [Hnil | [j [Hj [Hstart Hend]]]].
    - rewrite Hnil. cbn. split; auto. right. unfold last_end. cbn.
      destruct lb as [l|]; auto. destruct Hl as [_ B]. exfalso. apply (Prod B). exact Hnil.
    - rewrite Hj. cbn. split.
      + split; auto. destruct lb as [l|]; auto. destruct Hl as [A _]. lia.
      + right. unfold last_end. cbn. rewrite Hend. split.
        * apply trunc_le. exact HI.
        * unfold will_produce in *. cbn. exact W'. }
  destruct e as [now | t1 | spy k v | t2 | ts]; cbn in H.
  - unfold do_reset in H. destruct (ss_stopped s) eqn:Hs.
    + inversion H; subst. apply (Quiet s'); auto.
    + destruct (upload_tries c now s) as [jj ss] eqn:E. inversion H; subst. apply Reset; auto.
  - inversion H; subst. apply (Quiet (with_due s (is_due c s t1))); auto.
  - inversion H; subst. apply (Quiet (insert_sample c spy k v s)); auto; unfold insert_sample; destruct k; auto.
  - destruct (ss_due s).
    + unfold do_reset in H. destruct (ss_stopped s) eqn:Hs.
      * inversion H; subst. apply (Quiet (with_due s false)); auto.
      * destruct (upload_tries c t2 s) as [jj ss] eqn:E. inversion H; subst.
        destruct (Reset t2 _ _ eq_refl E) as [A B]. split; auto.
    + inversion H; subst. apply (Quiet s'); auto.
  - destruct (ss_stopped s) eqn:Hs.
    + inversion H; subst. apply (Quiet s'); auto.
    + assert (St' : started (with_stopped s)) by (destruct St; constructor; auto).
      destruct (upload_tries_window c ts (with_stopped s) js s' i St' Hi HI H) as [Shape [Prod _]].
      assert (Hs' : ss_stopped s' = true).
      { unfold upload_tries in H. destruct (upload_slots _ _ _ _ _ _). inversion H; subst. reflexivity. }
      split; [|left; exact Hs'].
      destruct Inv as [Hst | Hl]; [congruence|].
      destruct Shape as [Hnil | [j [Hj [Hstart Hend]]]].
      * rewrite Hnil. cbn. auto.
      * rewrite Hj. cbn. split; auto. destruct lb as [l|]; auto. destruct Hl as [A _]. cbn in Hstart. lia.
Qed.

Lemma run_order : forall c evs s js s' i lb,
  started s -> (i < length (ss_tries s))%nat -> 0 < sc_interval c ->
  order_inv c s i lb -> s_run c evs s = (js, s') ->
  ordered_from lb (jobs_of_slot i js).
Proof.
  intros c evs. induction evs as [|e evs IH]; intros s js s' i lb St Hi HI Inv H; cbn [s_run] in H.
  - inversion H; subst. cbn. auto.
  - destruct (s_step c s e) as [j1 s1] eqn:E1.
    destruct (s_run c evs s1) as [j2 s2] eqn:E2. inversion H; subst; clear H.
    destruct (step_order c s e j1 s1 i lb St Hi HI Inv E1) as [A B].
    pose proof (step_started c s e j1 s1 St E1) as St1.
    assert (L1 : length (ss_tries s1) = length (ss_tries s)).
    { destruct e as [now | t1 | spy k v | t2 | ts]; cbn in E1; unfold do_reset, upload_tries in E1.
      - destruct (ss_stopped s); [inversion E1; subst; auto|].
        destruct (upload_slots _ _ _ _ _ _). inversion E1; subst. cbn. apply map_length.
      - inversion E1; subst. reflexivity.
      - inversion E1; subst. unfold insert_sample. destruct k; cbn; auto. apply upd_nth_length.
      - destruct (ss_due s); [|inversion E1; subst; auto].
        destruct (ss_stopped s); [inversion E1; subst; auto|].
        destruct (upload_slots _ _ _ _ _ _). inversion E1; subst. cbn. apply map_length.
      - destruct (ss_stopped s); [inversion E1; subst; auto|].
        cbn in E1. destruct (upload_slots _ _ _ _ _ _). inversion E1; subst. cbn. apply map_length. }
    rewrite jobs_of_slot_app. apply ordered_from_app; auto.
    eapply IH; eauto. lia.
Qed.

(* windows of one profile type never overlap and are in order: each starts no earlier than the previous one
   ended — for ALL event sequences, including ticks that overlap or follow Stop *)
Theorem windows_ordered : forall c t0 evs i,
  (i < nslots c)%nat -> 0 < sc_interval c ->
  forall js s', s_run c (SStart t0 :: evs) (s_init c) = (js, s') ->
  ordered_from None (jobs_of_slot i js).
Proof.
  intros c t0 evs i Hi HI js s' H.
  destruct (start_step c t0) as [s1 [E1 [St1 [L1 _]]]].
  cbn [s_run] in H. rewrite E1 in H.
  destruct (s_run c evs s1) as [j2 s2] eqn:E2. inversion H; subst; clear H. cbn [app].
  eapply run_order; eauto; try lia. right. exact I.
Qed.

(* ---- window length ------------------------------------------------------------------------------------------------ *)
(* stated hypothesis ("tick gaps are shorter than the interval"): every clock reading at which a window is cut
   falls before the end of the interval that follows the one in which the window started *)
Fixpoint timely (c : scfg) (evs : list sevent) (s : sstate) : Prop :=
  match evs with
  | [] => True
  | e :: evs' =>
      (match e with
       | SStart now | SReset now | SStop now =>
           fst (s_step c s e) = [] \/ now < trunc (sc_interval c) (ss_start s) + 2 * sc_interval c
       | _ => True
       end) /\ timely c evs' (snd (s_step c s e))
  end.

Lemma step_job_window : forall c s e js s' j,
  s_step c s e = (js, s') -> In j js ->
  uj_start j = ss_start s /\
  exists now, uj_end j = trunc (sc_interval c) now /\ (e = SStart now \/ e = SReset now \/ e = SStop now).
Proof.
  intros c s e js s' j H Hj.
  assert (U : forall now s0 j0 s1, upload_tries c now s0 = (j0, s1) -> In j j0 ->
              uj_start j = ss_start s0 /\ uj_end j = trunc (sc_interval c) now).
  { intros now s0 j0 s1 E Hin. unfold upload_tries in E.
    destruct (upload_slots c (ss_start s0) now 0 (ss_tries s0) (ss_prev s0)) as [jj pp] eqn:E0.
    assert (Ej : j0 = jj) by congruence. subst j0. clear E.
    revert Hin E0. generalize (ss_prev s0) 0%nat jj pp. generalize (ss_tries s0).
    induction l as [|t ts IH]; intros pvs i0 jj0 pp0 Hin E0; cbn in E0.
    - inversion E0; subst. contradiction.
    - destruct pvs as [|pv pvs]; [inversion E0; subst; contradiction|].
      destruct (upload_slot c (ss_start s0) now i0 (type_of c i0) t pv) as [j1 pv1] eqn:E1.
      destruct (upload_slots c (ss_start s0) now (S i0) ts pvs) as [j2 pvs2] eqn:E2.
      inversion E0; subst. apply in_app_or in Hin as [Hin | Hin].
      + unfold upload_slot in E1. destruct t as [m|]; [|inversion E1; subst; contradiction].
        destruct (pt_cumulative (type_of c i0)); [destruct pv as [q|]|]; inversion E1; subst; cbn in Hin;
          try contradiction; destruct Hin as [<- | []]; cbn; auto.
      + eapply IH; eauto. }
  destruct e as [now | t1 | spy k v | t2 | ts]; cbn in H.
  - unfold do_reset in H. destruct (ss_stopped s); [inversion H; subst; contradiction|].
    destruct (upload_tries c now s) as [jj ss] eqn:E. inversion H; subst.
    destruct (U _ _ _ _ E Hj). split; auto. exists now. auto.
  - inversion H; subst. contradiction.
  - inversion H; subst. contradiction.
  - destruct (ss_due s); [|inversion H; subst; contradiction].
    unfold do_reset in H. destruct (ss_stopped s); [inversion H; subst; contradiction|].
    destruct (upload_tries c t2 s) as [jj ss] eqn:E. inversion H; subst.
    destruct (U _ _ _ _ E Hj). split; auto. exists t2. auto.
  - destruct (ss_stopped s); [inversion H; subst; contradiction|].
    destruct (U _ _ _ _ H Hj) as [A B]. split; auto. exists ts. auto.
Qed.

Theorem windows_at_most_one_interval : forall c evs s js s',
  0 < sc_interval c -> timely c evs s -> s_run c evs s = (js, s') ->
  Forall (fun j => uj_end j - uj_start j <= sc_interval c) js.
Proof.
  intros c evs. induction evs as [|e evs IH]; intros s js s' HI T H; cbn [s_run] in H.
  - inversion H; subst. constructor.
  - destruct (s_step c s e) as [j1 s1] eqn:E1.
    destruct (s_run c evs s1) as [j2 s2] eqn:E2. inversion H; subst; clear H.
    cbn [timely] in T. rewrite E1 in T. cbn [fst snd] in T. destruct T as [T1 T2].
    apply Forall_app. split; [|eapply IH; eauto].
    apply Forall_forall. intros j Hj.
    destruct (step_job_window c s e j1 s1 j E1 Hj) as [Hs [now [He Hev]]].
    rewrite Hs, He. apply trunc_window; auto.
    destruct Hev as [-> | [-> | ->]]; (destruct T1 as [T1 | T1]; [rewrite T1 in Hj; contradiction | exact T1]).
Qed.

(* ---- cumulative profile types: every uploaded job is the clipped difference of two consecutive snapshots ------- *)
Theorem cumulative_jobs_are_clipped_diffs : forall c evs s js s' i,
  started s -> (i < length (ss_tries s))%nat -> pt_cumulative (type_of c i) = true ->
  s_run c evs s = (js, s') ->
  Forall (fun j => exists m q, uj_data j = ms_diff m q /\
                   forall k, ms_get k (uj_data j) = (ms_get k m - ms_get k q)%N) (jobs_of_slot i js).
Proof.
  intros c evs. induction evs as [|e evs IH]; intros s js s' i St Hi Hc H; cbn [s_run] in H.
  - inversion H; subst. constructor.
  - destruct (s_step c s e) as [j1 s1] eqn:E1.
    destruct (s_run c evs s1) as [j2 s2] eqn:E2. inversion H; subst; clear H.
    pose proof (step_started c s e j1 s1 St E1) as St1.
    assert (U : forall now s0 j0 s3, started s0 -> (i < length (ss_tries s0))%nat -> upload_tries c now s0 = (j0, s3) ->
              Forall (fun j => exists m q, uj_data j = ms_diff m q /\
                   forall k, ms_get k (uj_data j) = (ms_get k m - ms_get k q)%N) (jobs_of_slot i j0) /\
              length (ss_tries s3) = length (ss_tries s0)).
    { intros now s0 j0 s3 St0 Hi0 E.
      destruct (cur_some [] i s0 St0 Hi0) as [m [Hn _]].
      destruct (upload_tries_slot c now s0 j0 s3 i m St0 E Hn) as [pv [Hp [Hj _]]].
      split.
      - rewrite Hj. unfold upload_slot. rewrite Hc. destruct pv as [q|]; cbn; constructor; [|constructor].
        exists m, q. cbn. split; auto. intro k. apply ms_get_diff.
      - unfold upload_tries in E. destruct (upload_slots _ _ _ _ _ _). inversion E; subst. cbn. apply map_length. }
    assert (A : Forall (fun j => exists m q, uj_data j = ms_diff m q /\
                   forall k, ms_get k (uj_data j) = (ms_get k m - ms_get k q)%N) (jobs_of_slot i j1) /\
                length (ss_tries s1) = length (ss_tries s)).
    { destruct e as [now | t1 | spy k v | t2 | ts]; cbn in E1; unfold do_reset in E1.
      - destruct (ss_stopped s); [inversion E1; subst; split; [constructor | auto]|].
        destruct (upload_tries c now s) as [jj ss] eqn:E. inversion E1; subst.
        destruct (U _ _ _ _ St Hi E). split; auto.
      - inversion E1; subst. split; [constructor | auto].
      - inversion E1; subst. split; [constructor|]. unfold insert_sample. destruct k; cbn; auto. apply upd_nth_length.
      - destruct (ss_due s); [|inversion E1; subst; split; [constructor | auto]].
        destruct (ss_stopped s); [inversion E1; subst; split; [constructor | auto]|].
        destruct (upload_tries c t2 s) as [jj ss] eqn:E. inversion E1; subst.
        destruct (U _ _ _ _ St Hi E). split; auto.
      - destruct (ss_stopped s); [inversion E1; subst; split; [constructor | auto]|].
        assert (St' : started (with_stopped s)) by (destruct St; constructor; auto).
        destruct (U _ _ _ _ St' Hi E1). split; auto. }
    destruct A as [A L1].
    rewrite jobs_of_slot_app. apply Forall_app. split; auto.
    eapply IH; eauto. lia.
Qed.

(* the first upload of a cumulative type is skipped *)
Lemma cumulative_first_upload_skipped : forall c start now i m,
  pt_cumulative (type_of c i) = true ->
  upload_slot c start now i (type_of c i) (Some m) None = ([], Some m).
Proof. intros. unfold upload_slot. rewrite H. reflexivity. Qed.

(* ---- examples -------------------------------------------------------------------------------------------------------- *)
Definition ex_scfg : scfg :=
  {| sc_app := [97%N]; sc_spy := [120%N]; sc_gospy := false; sc_rate := 100%N; sc_interval := 10; sc_types := [PCpu] |}.

(* Start at 3, two samples, a due tick at 12/13 with a third sample, Stop at 27 overlapping a due tick whose
   callback (stack 100) was blocked on the mutex: two jobs [3,10] and [13,20]; stack 100 is never uploaded *)
Definition ex_sevs : list sevent :=
  [SSample 0 [97%N] 2%N; SSample 0 [98%N] 1%N; SDecide 12; SSample 0 [97%N] 1%N; SReset 13;
   SSample 0 [99%N] 5%N; SDecide 26; SStop 27; SSample 0 [100%N] 7%N; SReset 28].

Example ex_session_nonvacuous :
  let '(js, s') := s_run ex_scfg (SStart 3 :: ex_sevs) (s_init ex_scfg) in
  map (fun j => (uj_start j, uj_end j, uj_data j)) js =
    [(3, 10, [([97%N], 1%N); ([98%N], 1%N); ([97%N], 2%N)]); (13, 20, [([99%N], 5%N)])] /\
  timely ex_scfg (SStart 3 :: ex_sevs) (s_init ex_scfg) /\
  cur [100%N] 0 s' = 7%N.
Proof. cbn. repeat split; auto; try lia. Qed.

(* NOT a violation (the property bounds the length from above), recorded: when the session stops in the
   interval of its last reset, the Stop window ends BEFORE it starts *)
Example stop_window_reversed :
  let '(js, _) := s_run ex_scfg [SStart 3; SSample 0 [97%N] 1%N; SStop 7] (s_init ex_scfg) in
  map (fun j => (uj_start j, uj_end j)) js = [(3, 0)].
Proof. reflexivity. Qed.

(* ---- regular ticks are timely ---------------------------------------------------------------------------------------- *)
(* "tick gaps shorter than the interval": each tick's reset reading t2 comes less than one interval after the
   PREVIOUS tick's decision reading (the first tick: after Start), and Stop less than one interval after the last
   tick's decision reading *)
Fixpoint regular (I prev : Z) (ticks : list (Z * Z * list (nat * bytes * N))) (ts : Z) : Prop :=
  match ticks with
  | [] => ts < prev + I
  | (t1, t2, _) :: r => t1 <= t2 /\ t2 < prev + I /\ regular I t1 r ts
  end.

Definition ticks_events (ticks : list (Z * Z * list (nat * bytes * N))) : list sevent :=
  flat_map (fun x => tick (fst (fst x)) (snd (fst x)) (snd x)) ticks.

Lemma trunc_lt_next : forall d t, 0 < d -> t < trunc d t + d.
Proof. intros d t Hd. unfold trunc. pose proof (Z.mod_pos_bound t d Hd). lia. Qed.

Lemma samples_keep : forall c (samples : list (nat * bytes * N)) s,
  let s' := snd (s_run c (map (fun x => SSample (fst (fst x)) (snd (fst x)) (snd x)) samples) s) in
  ss_start s' = ss_start s /\ ss_due s' = ss_due s /\ ss_stopped s' = ss_stopped s.
Proof.
  intros c samples. induction samples as [|x samples IH]; intro s; cbn [map s_run].
  - cbn. auto.
  - cbn [s_step]. specialize (IH (insert_sample c (fst (fst x)) (snd (fst x)) (snd x) s)).
    destruct (s_run c (map _ samples) (insert_sample c (fst (fst x)) (snd (fst x)) (snd x) s)) as [js s2] eqn:E.
    cbn [snd] in *. destruct IH as [A [B C]].
    unfold insert_sample in A, B, C. destruct (snd (fst x)); cbn in *; auto.
Qed.

Lemma timely_samples : forall c (samples : list (nat * bytes * N)) rest s,
  timely c rest (snd (s_run c (map (fun x => SSample (fst (fst x)) (snd (fst x)) (snd x)) samples) s)) ->
  timely c (map (fun x => SSample (fst (fst x)) (snd (fst x)) (snd x)) samples ++ rest) s.
Proof.
  intros c samples rest. induction samples as [|x samples IH]; intros s H; cbn [map app].
  - cbn in H. exact H.
  - cbn [timely s_step snd]. split; auto. apply IH.
    cbn [map s_run s_step] in H.
    destruct (s_run c (map _ samples) (insert_sample c (fst (fst x)) (snd (fst x)) (snd x) s)) as [js s2] eqn:E.
    cbn [snd] in *. exact H.
Qed.

Theorem regular_ticks_timely : forall c ticks ts prev s,
  0 < sc_interval c -> regular (sc_interval c) prev ticks ts ->
  ss_stopped s = false -> prev < trunc (sc_interval c) (ss_start s) + sc_interval c ->
  timely c (ticks_events ticks ++ [SStop ts]) s.
Proof.
  intros c ticks. induction ticks as [|[[t1 t2] samples] r IH]; intros ts prev s HI R Hs J.
  - cbn [regular] in R. unfold ticks_events. cbn [flat_map app timely]. split; auto. right. lia.
  - cbn [regular] in R. destruct R as [R1 [R2 R3]].
    unfold ticks_events. cbn [flat_map fst snd]. fold (ticks_events r).
    unfold tick. cbn [app]. cbn [timely s_step snd]. split; auto.
    rewrite <- !app_assoc.
    apply timely_samples.
    pose proof (samples_keep c samples (with_due s (is_due c s t1))) as K. cbn zeta in K.
    set (s2 := snd (s_run c (map (fun x => SSample (fst (fst x)) (snd (fst x)) (snd x)) samples)
                          (with_due s (is_due c s t1)))) in *.
    destruct K as [K1 [K2 K3]]. cbn in K1, K2, K3.
    cbn [app timely]. cbn [s_step]. rewrite K2.
    destruct (is_due c s t1) eqn:D.
    + (* due: reset at t2 *)
      unfold do_reset. rewrite K3, Hs.
      destruct (upload_tries c t2 s2) as [jj ss] eqn:E. cbn [fst snd].
      split.
      * right. rewrite K1. lia.
      * assert (Hss : ss_stopped ss = false /\ ss_start ss = ss_start s2).
        { unfold upload_tries in E. destruct (upload_slots _ _ _ _ _ _). inversion E; subst. cbn. rewrite K3. auto. }
        apply (IH ts t1); auto.
        -- cbn. tauto.
        -- cbn. pose proof (trunc_lt_next (sc_interval c) t2 HI). lia.
    + (* not due *)
      cbn [fst snd]. split; [left; reflexivity|].
      apply (IH ts t1); auto.
      * rewrite K3. exact Hs.
      * rewrite K1. unfold is_due in D. apply negb_false_iff in D. apply Z.eqb_eq in D.
        rewrite <- D. apply trunc_lt_next. exact HI.
Qed.

(* a whole session with regular ticks: all windows are at most one interval long *)
Theorem regular_session_windows : forall c t0 ticks ts js s',
  0 < sc_interval c -> regular (sc_interval c) t0 ticks ts ->
  s_run c (SStart t0 :: ticks_events ticks ++ [SStop ts]) (s_init c) = (js, s') ->
  Forall (fun j => uj_end j - uj_start j <= sc_interval c) js.
Proof.
  intros c t0 ticks ts js s' HI R H.
  eapply windows_at_most_one_interval; eauto.
  destruct (start_step c t0) as [s1 [E1 [St1 [L1 [Hs1 [Hst1 _]]]]]].
  cbn [timely]. rewrite E1. cbn [fst snd]. split; [left; reflexivity|].
  eapply regular_ticks_timely; eauto.
  rewrite Hst1. apply trunc_lt_next. exact HI.
Qed.
