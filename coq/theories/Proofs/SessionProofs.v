(* SessionProofs.v — lemmas about Model/Session.v (C19: agent session). *)
From Pyro Require Import Model.Base Model.Session.
From Coq Require Import Lia ZArith.
Open Scope Z_scope.

(* ---- bytes equality ------------------------------------------------------------------------------ *)
Lemma bcmp_eq : forall a b, bcmp a b = Eq -> a = b.
Proof.
  induction a as [|x a IH]; intros [|y b] H; cbn in H; try discriminate; auto.
  destruct (N.compare x y) eqn:E; try discriminate.
  apply N.compare_eq in E. subst. f_equal. apply IH. exact H.
Qed.
Lemma bcmp_refl : forall a, bcmp a a = Eq.
Proof. induction a as [|x a IH]; cbn; auto. rewrite N.compare_refl. exact IH. Qed.
Lemma beqb_true : forall a b, beqb a b = true <-> a = b.
Proof.
  intros a b. unfold beqb. split.
  - destruct (bcmp a b) eqn:E; try discriminate. intros _. apply bcmp_eq. exact E.
  - intros ->. rewrite bcmp_refl. reflexivity.
Qed.
Lemma beqb_refl : forall a, beqb a a = true.
Proof. intro. apply beqb_true. reflexivity. Qed.
Lemma beqb_false : forall a b, beqb a b = false <-> a <> b.
Proof.
  intros a b. split.
  - intros H E. apply beqb_true in E. congruence.
  - intro H. destruct (beqb a b) eqn:E; auto. apply beqb_true in E. contradiction.
Qed.

(* ---- multisets ------------------------------------------------------------------------------------ *)
Lemma ms_get_add : forall k k' v m,
  ms_get k (ms_add k' v m) = (if beqb k k' then v + ms_get k m else ms_get k m)%N.
Proof. reflexivity. Qed.

Lemma ms_get_map_keys : forall (f : bytes -> N) (keys : list bytes) k,
  NoDup keys ->
  ms_get k (map (fun k' => (k', f k')) keys) = if existsb (beqb k) keys then f k else 0%N.
Proof.
  intros f keys k. induction keys as [|x keys IH]; intro ND; cbn; auto.
  inversion ND as [|? ? Hnin ND']; subst.
  destruct (beqb k x) eqn:E; cbn.
  - apply beqb_true in E. subst x. rewrite IH by auto.
    destruct (existsb (beqb k) keys) eqn:Ex.
    + exfalso. apply existsb_exists in Ex as [y [Hy Ey]]. apply beqb_true in Ey. subst y. contradiction.
    + lia.
  - apply IH. auto.
Qed.

Lemma ms_keys_spec : forall m seen,
  NoDup (ms_keys m seen) /\
  (forall k, In k (ms_keys m seen) -> ~ In k seen) /\
  (forall k, ms_get k m <> 0%N -> In k seen \/ In k (ms_keys m seen)).
Proof.
  induction m as [|[k0 v0] m IH]; intro seen; cbn.
  - repeat split; [constructor | intros k [] | intros k H; congruence].
  - destruct (existsb (beqb k0) seen) eqn:Ex.
    + destruct (IH seen) as [A [B C]]. repeat split; auto.
      intros k H. destruct (beqb k k0) eqn:E.
      * apply beqb_true in E. subst k0. left.
        apply existsb_exists in Ex as [y [Hy Ey]]. apply beqb_true in Ey. subst y. exact Hy.
      * apply C. exact H.
    + destruct (IH (k0 :: seen)) as [A [B C]].
      assert (Hns : ~ In k0 seen).
      { intro Hin. assert (existsb (beqb k0) seen = true).
        { apply existsb_exists. exists k0. split; auto. apply beqb_refl. }
        congruence. }
      repeat split.
      * constructor; auto. intro Hin. apply B in Hin. apply Hin. left. reflexivity.
      * intros k [<- | Hin]; auto. intro Hs. apply B in Hin. apply Hin. right. exact Hs.
      * intros k H. destruct (beqb k k0) eqn:E.
        -- apply beqb_true in E. subst k0. right. left. reflexivity.
        -- destruct (C k H) as [[<- | Hs] | Hin]; auto.
           ++ rewrite beqb_refl in E. discriminate.
           ++ right. right. exact Hin.
Qed.

(* Diff is the clipped difference per stack (the statement C18_diff proves about the byte-level trie) *)
Lemma ms_get_diff : forall cur prev k, ms_get k (ms_diff cur prev) = (ms_get k cur - ms_get k prev)%N.
Proof.
  intros cur prev k. unfold ms_diff.
  destruct (ms_keys_spec cur []) as [ND [_ C]].
  rewrite (ms_get_map_keys (fun k' => (ms_get k' cur - ms_get k' prev)%N)) by exact ND.
  destruct (existsb (beqb k) (ms_keys cur [])) eqn:Ex; auto.
  destruct (N.eq_dec (ms_get k cur) 0) as [Hz | Hnz].
  - rewrite Hz. reflexivity.
  - destruct (C k Hnz) as [[] | Hin].
    assert (existsb (beqb k) (ms_keys cur []) = true).
    { apply existsb_exists. exists k. split; auto. apply beqb_refl. }
    congruence.
Qed.

(* ---- truncation ------------------------------------------------------------------------------------- *)
Lemma trunc_le : forall d t, 0 < d -> trunc d t <= t.
Proof. intros d t Hd. unfold trunc. pose proof (Z.mod_pos_bound t d Hd). lia. Qed.

Lemma trunc_multiple : forall d t, 0 < d -> (trunc d t) mod d = 0.
Proof.
  intros d t Hd. unfold trunc.
  rewrite Zminus_mod_idemp_r. rewrite Z.sub_diag. apply Z.mod_0_l. lia.
Qed.

Lemma trunc_eq : forall d t, 0 < d -> trunc d t = d * (t / d).
Proof. intros d t Hd. unfold trunc. pose proof (Z.div_mod t d). lia. Qed.

(* a reading less than two intervals after the start of the bucket of s truncates to at most one interval
   after s *)
Lemma trunc_window : forall d s now, 0 < d -> now < trunc d s + 2 * d -> trunc d now - s <= d.
Proof.
  intros d s now Hd H.
  pose proof (trunc_le d s Hd) as Hs.
  rewrite (trunc_eq d now Hd). rewrite (trunc_eq d s Hd) in *.
  assert (Hq : now / d < s / d + 2).
  { apply Z.div_lt_upper_bound; auto. lia. }
  assert (d * (now / d) <= d * (s / d + 1)) by (apply Z.mul_le_mono_nonneg_l; lia).
  lia.
Qed.

(* ---- state invariant --------------------------------------------------------------------------------- *)
Definition is_some {A} (o : option A) : bool := match o with Some _ => true | None => false end.

Record started (s : sstate) : Prop := {
  st_tries : forallb is_some (ss_tries s) = true;
  st_len : length (ss_prev s) = length (ss_tries s)
}.

Definition cur (k : bytes) (i : nat) (s : sstate) : N :=
  match nth_error (ss_tries s) i with Some (Some m) => ms_get k m | _ => 0%N end.

(* samples accepted into slot i for stack k by one event *)
Definition reported1 (c : scfg) (k : bytes) (i : nat) (e : sevent) : N :=
  match e with
  | SSample spy k' v =>
      match k' with
      | [] => 0%N
      | _ => if Nat.eqb (slot_of c spy) i && beqb k k' then v else 0%N
      end
  | _ => 0%N
  end.
Definition reported (c : scfg) (k : bytes) (i : nat) (evs : list sevent) : N :=
  fold_right (fun e n => (reported1 c k i e + n)%N) 0%N evs.

Lemma reported_app : forall c k i a b, reported c k i (a ++ b) = (reported c k i a + reported c k i b)%N.
Proof. intros. induction a as [|e a IH]; cbn; auto. rewrite IH. lia. Qed.

(* ---- upload_slots ------------------------------------------------------------------------------------ *)
Lemma upload_slot_slot : forall c start now i p t pv j,
  In j (fst (upload_slot c start now i p t pv)) -> uj_slot j = i.
Proof.
  intros c start now i p t pv j H. unfold upload_slot in H.
  destruct t as [m|]; cbn in H; [|contradiction].
  destruct (pt_cumulative p); [destruct pv as [q|]|]; cbn in H; try contradiction;
    destruct H as [<- | []]; reflexivity.
Qed.

Lemma upload_slots_length : forall c start now ts pvs i js pvs',
  upload_slots c start now i ts pvs = (js, pvs') -> length pvs' = length pvs.
Proof.
  intros c start now. induction ts as [|t ts IH]; intros pvs i js pvs' H; cbn in H.
  - inversion H; subst. reflexivity.
  - destruct pvs as [|pv pvs]; [inversion H; subst; reflexivity|].
    destruct (upload_slot c start now i (type_of c i) t pv) as [j1 pv1] eqn:E1.
    destruct (upload_slots c start now (S i) ts pvs) as [j2 pvs2] eqn:E2.
    inversion H; subst. cbn. f_equal. eapply IH. exact E2.
Qed.

Lemma upload_slots_range : forall c start now ts pvs i js pvs',
  upload_slots c start now i ts pvs = (js, pvs') ->
  forall j, In j js -> (i <= uj_slot j)%nat.
Proof.
  intros c start now. induction ts as [|t ts IH]; intros pvs i js pvs' H j Hj; cbn in H.
  - inversion H; subst. contradiction.
  - destruct pvs as [|pv pvs]; [inversion H; subst; contradiction|].
    destruct (upload_slot c start now i (type_of c i) t pv) as [j1 pv1] eqn:E1.
    destruct (upload_slots c start now (S i) ts pvs) as [j2 pvs2] eqn:E2.
    inversion H; subst. apply in_app_or in Hj as [Hj | Hj].
    + pose proof (upload_slot_slot c start now i (type_of c i) t pv j) as S1. rewrite E1 in S1.
      rewrite (S1 Hj). lia.
    + pose proof (IH _ _ _ _ E2 j Hj). lia.
Qed.

Lemma filter_none : forall A (f : A -> bool) l, (forall x, In x l -> f x = false) -> filter f l = [].
Proof.
  induction l as [|x l IH]; intro H; cbn; auto.
  rewrite (H x) by (left; reflexivity). apply IH. intros y Hy. apply H. right. exact Hy.
Qed.
Lemma filter_all : forall A (f : A -> bool) l, (forall x, In x l -> f x = true) -> filter f l = l.
Proof.
  induction l as [|x l IH]; intro H; cbn; auto.
  rewrite (H x) by (left; reflexivity). f_equal. apply IH. intros y Hy. apply H. right. exact Hy.
Qed.

(* the jobs of slot i produced by uploadTries are exactly those of the i-th loop iteration *)
Lemma upload_slots_slot : forall c start now ts pvs i0 js pvs' d,
  upload_slots c start now i0 ts pvs = (js, pvs') ->
  length pvs = length ts ->
  jobs_of_slot (i0 + d) js =
    match nth_error ts d, nth_error pvs d with
    | Some t, Some pv => fst (upload_slot c start now (i0 + d) (type_of c (i0 + d)) t pv)
    | _, _ => []
    end /\
  nth_error pvs' d =
    match nth_error ts d, nth_error pvs d with
    | Some t, Some pv => Some (snd (upload_slot c start now (i0 + d) (type_of c (i0 + d)) t pv))
    | _, _ => None
    end.
Proof.
  intros c start now. induction ts as [|t ts IH]; intros pvs i0 js pvs' d H L; cbn in H.
  - destruct pvs; [|discriminate]. inversion H; subst. destruct d; cbn; auto.
  - destruct pvs as [|pv pvs]; [discriminate|].
    destruct (upload_slot c start now i0 (type_of c i0) t pv) as [j1 pv1] eqn:E1.
    destruct (upload_slots c start now (S i0) ts pvs) as [j2 pvs2] eqn:E2.
    inversion H; subst; clear H. cbn in L.
    unfold jobs_of_slot. rewrite filter_app.
    destruct d as [|d]; cbn [nth_error].
    + rewrite Nat.add_0_r. rewrite E1. cbn [fst snd]. split; auto.
      rewrite (filter_all _ _ j1).
      * rewrite (filter_none _ _ j2). apply app_nil_r.
        intros x Hx. pose proof (upload_slots_range _ _ _ _ _ _ _ _ E2 x Hx). apply Nat.eqb_neq. lia.
      * intros x Hx. pose proof (upload_slot_slot c start now i0 (type_of c i0) t pv x) as S1.
        rewrite E1 in S1. apply Nat.eqb_eq. auto.
    + rewrite (filter_none _ _ j1).
      * cbn [app]. replace (i0 + S d)%nat with (S i0 + d)%nat by lia.
        apply (IH pvs (S i0) j2 pvs2 d E2). lia.
      * intros x Hx. pose proof (upload_slot_slot c start now i0 (type_of c i0) t pv x) as S1.
        rewrite E1 in S1. apply Nat.eqb_neq. rewrite (S1 Hx). lia.
Qed.

Lemma map_some_forall : forall (l : list (option mset)), forallb is_some (map (fun _ => Some (@nil (bytes * N))) l) = true.
Proof. induction l; cbn; auto. Qed.

Lemma nth_error_map_const : forall A B (l : list A) (b : B) i,
  nth_error (map (fun _ => b) l) i = match nth_error l i with Some _ => Some b | None => None end.
Proof. induction l as [|x l IH]; intros b [|i]; cbn; auto. Qed.

Lemma forallb_nth : forall A (f : A -> bool) l i x, forallb f l = true -> nth_error l i = Some x -> f x = true.
Proof.
  intros A f l i x H Hn. rewrite forallb_forall in H. apply H. eapply nth_error_In. exact Hn.
Qed.

(* ---- uploadTries: what it does to one slot ------------------------------------------------------------ *)
Lemma upload_tries_started : forall c now s js s',
  started s -> upload_tries c now s = (js, s') -> started s' /\ ss_start s' = ss_start s.
Proof.
  intros c now s js s' [T L] H. unfold upload_tries in H.
  destruct (upload_slots c (ss_start s) now 0 (ss_tries s) (ss_prev s)) as [js0 pvs] eqn:E.
  inversion H; subst; clear H. split; auto.
  constructor; cbn.
  - apply map_some_forall.
  - rewrite map_length. rewrite (upload_slots_length _ _ _ _ _ _ _ _ E). exact L.
Qed.

Lemma upload_tries_slot : forall c now s js s' i m,
  started s -> upload_tries c now s = (js, s') ->
  nth_error (ss_tries s) i = Some (Some m) ->
  exists pv, nth_error (ss_prev s) i = Some pv /\
    jobs_of_slot i js = fst (upload_slot c (ss_start s) now i (type_of c i) (Some m) pv) /\
    nth_error (ss_prev s') i = Some (snd (upload_slot c (ss_start s) now i (type_of c i) (Some m) pv)) /\
    nth_error (ss_tries s') i = Some (Some []).
Proof.
  intros c now s js s' i m [T L] H Hn. unfold upload_tries in H.
  destruct (upload_slots c (ss_start s) now 0 (ss_tries s) (ss_prev s)) as [js0 pvs] eqn:E.
  inversion H; subst; clear H.
  destruct (nth_error (ss_prev s) i) as [pv|] eqn:Hp.
  2:{ exfalso. apply nth_error_None in Hp. assert (i < length (ss_tries s))%nat by (apply nth_error_Some; congruence). lia. }
  exists pv. split; auto.
  destruct (upload_slots_slot c (ss_start s) now _ _ 0%nat _ _ i E L) as [A B].
  cbn [Nat.add] in A, B. rewrite Hn, Hp in A, B.
  repeat split; auto. cbn. rewrite nth_error_map_const, Hn. reflexivity.
Qed.

(* ---- one step preserves [started]; quiet events produce no job ----------------------------------------- *)
Lemma upd_nth_length : forall A n (f : A -> A) l, length (upd_nth n f l) = length l.
Proof. induction n; intros f [|x l]; cbn; auto. Qed.

Lemma nth_error_upd_nth : forall A n (f : A -> A) l i,
  nth_error (upd_nth n f l) i =
  if Nat.eqb n i then match nth_error l i with Some x => Some (f x) | None => None end else nth_error l i.
Proof.
  induction n as [|n IH]; intros f [|x l] [|i]; cbn; auto.
  - destruct (Nat.eqb n i); reflexivity.
  - apply IH.
Qed.

Lemma upd_nth_forallb : forall (l : list (option mset)) n k v,
  forallb is_some l = true ->
  forallb is_some (upd_nth n (fun t => match t with Some m => Some (ms_add k v m) | None => None end) l) = true.
Proof.
  induction l as [|x l IH]; intros [|n] k v H; cbn in *; auto.
  - apply andb_true_iff in H as [H1 H2]. destruct x; [|discriminate]. cbn. exact H2.
  - apply andb_true_iff in H as [H1 H2]. rewrite H1. cbn. apply IH. exact H2.
Qed.

Lemma step_started : forall c s e js s', started s -> s_step c s e = (js, s') -> started s'.
Proof.
  intros c s e js s' St H. destruct e as [now | t1 | spy k v | t2 | ts]; cbn in H.
  - unfold do_reset in H. destruct (upload_tries c now s) as [j0 s0] eqn:E. inversion H; subst.
    destruct (upload_tries_started _ _ _ _ _ St E) as [[T L] _]. constructor; auto.
  - inversion H; subst. destruct St. constructor; auto.
  - inversion H; subst. destruct St as [T L]. unfold insert_sample. destruct k; [constructor; auto|].
    constructor; cbn.
    + apply upd_nth_forallb. exact T.
    + rewrite upd_nth_length. exact L.
  - destruct (ss_due s).
    + unfold do_reset in H. destruct (upload_tries c t2 s) as [j0 s0] eqn:E. inversion H; subst.
      destruct (upload_tries_started _ _ _ _ _ St E) as [[T L] _]. constructor; auto.
    + inversion H; subst. exact St.
  - assert (St' : started (with_stopped s)) by (destruct St; constructor; auto).
    apply (upload_tries_started _ _ _ _ _ St' H).
Qed.

(* ---- conservation for a non-cumulative slot ------------------------------------------------------------ *)
Lemma sum_data_app : forall k a b, sum_data k (a ++ b) = (sum_data k a + sum_data k b)%N.
Proof. intros. induction a as [|j a IH]; cbn; auto. rewrite IH. lia. Qed.

Lemma jobs_of_slot_app : forall i a b, jobs_of_slot i (a ++ b) = jobs_of_slot i a ++ jobs_of_slot i b.
Proof. intros. unfold jobs_of_slot. apply filter_app. Qed.

Lemma cur_some : forall k i s, started s -> (i < length (ss_tries s))%nat ->
  exists m, nth_error (ss_tries s) i = Some (Some m) /\ cur k i s = ms_get k m.
Proof.
  intros k i s [T _] Hi. unfold cur.
  destruct (nth_error (ss_tries s) i) as [[m|]|] eqn:E.
  - exists m. auto.
  - pose proof (forallb_nth _ _ _ _ _ T E). discriminate.
  - apply nth_error_None in E. lia.
Qed.

(* uploadTries moves the whole current trie of a non-cumulative slot into exactly one job *)
Lemma upload_tries_conserve : forall c now s js s' i k,
  started s -> (i < length (ss_tries s))%nat -> pt_cumulative (type_of c i) = false ->
  upload_tries c now s = (js, s') ->
  sum_data k (jobs_of_slot i js) = cur k i s /\ cur k i s' = 0%N /\
  length (jobs_of_slot i js) = 1%nat /\ length (ss_tries s') = length (ss_tries s).
Proof.
  intros c now s js s' i k St Hi Hc H.
  destruct (cur_some k i s St Hi) as [m [Hn Hcur]].
  destruct (upload_tries_slot c now s js s' i m St H Hn) as [pv [Hp [Hj [Hp' Ht']]]].
  unfold upload_slot in Hj. rewrite Hc in Hj. cbn in Hj.
  rewrite Hj. cbn. repeat split.
  - rewrite Hcur. lia.
  - unfold cur. rewrite Ht'. reflexivity.
  - unfold upload_tries in H.
    destruct (upload_slots c (ss_start s) now 0 (ss_tries s) (ss_prev s)). inversion H; subst. cbn.
    apply map_length.
Qed.

Lemma step_conserve : forall c s e js s' i k,
  started s -> (i < length (ss_tries s))%nat -> pt_cumulative (type_of c i) = false ->
  s_step c s e = (js, s') ->
  (sum_data k (jobs_of_slot i js) + cur k i s' = cur k i s + reported1 c k i e)%N /\
  length (ss_tries s') = length (ss_tries s).
Proof.
  intros c s e js s' i k St Hi Hc H.
  destruct e as [now | t1 | spy k' v | t2 | ts]; cbn in H.
  - unfold do_reset in H. destruct (upload_tries c now s) as [j0 s0] eqn:E. inversion H; subst.
    destruct (upload_tries_conserve c now s j0 s0 i k St Hi Hc E) as [A [B [_ L]]].
    cbn [reported1]. unfold cur in *. cbn. rewrite A. unfold cur. split; [|exact L].
    unfold cur in B. rewrite B. lia.
  - inversion H; subst. cbn. unfold cur. cbn. split; auto. lia.
  - inversion H; subst. cbn [jobs_of_slot filter sum_data fold_right reported1].
    unfold insert_sample. destruct k' as [|b k']; [split; auto; lia|].
    split; [|cbn; apply upd_nth_length].
    unfold cur. cbn [ss_tries]. rewrite nth_error_upd_nth.
    destruct (Nat.eqb (slot_of c spy) i) eqn:Es.
    + destruct (nth_error (ss_tries s) i) as [[m|]|]; cbn [andb].
      * rewrite ms_get_add. destruct (beqb k (b :: k')); lia.
      * destruct (beqb k (b :: k')); [|lia].
        (* a nil trie: excluded by [started] *)
        exfalso. destruct St as [T _]. destruct (cur_some k i s (Build_started _ T (eq_refl _)) Hi) as [m [Hm _]] .
        all: fail.
      * destruct (beqb k (b :: k')); [|lia]. exfalso.
        destruct (cur_some k i s St Hi) as [m [Hm _]]. all: fail.
    + cbn [andb]. lia.
  - destruct (ss_due s).
    + unfold do_reset in H. destruct (upload_tries c t2 s) as [j0 s0] eqn:E. inversion H; subst.
      destruct (upload_tries_conserve c t2 s j0 s0 i k St Hi Hc E) as [A [B [_ L]]].
      cbn [reported1]. rewrite A. unfold cur in *. cbn. split; [|exact L]. rewrite B. lia.
    + inversion H; subst. cbn. split; auto. lia.
  - assert (St' : started (with_stopped s)) by (destruct St; constructor; auto).
    destruct (upload_tries_conserve c ts (with_stopped s) js s' i k St' Hi Hc H) as [A [B [_ L]]].
    cbn [reported1]. rewrite A, B. unfold cur. cbn. split; [lia | exact L].
Qed.
