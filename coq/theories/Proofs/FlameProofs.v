(* FlameProofs.v — lemmas about Model/Flame.v and Model/Cappedarr.v (flamebearer). *)
From Pyro Require Import Model.Base Model.Tree Model.Cappedarr Model.Flame Proofs.TreeProofs.
From Coq Require Import Permutation ZifyN ZifyNat ZifyBool.
Local Ltac Zify.zify_post_hook ::= Z.div_mod_to_equations.

(* ------------------------------------------------------------------------------------------ *)
(* A. delta encoding: decode (encode bars) = bars                                              *)

Lemma delta_dec_enc : forall bars prev, delta_dec prev (delta_enc prev bars) = Some (map zbar_of bars).
Proof.
  induction bars as [|[[[x tot] s] i] bars IH]; intros prev; [reflexivity|].
  cbn [delta_enc delta_dec map zbar_of].
  replace (prev + (Z.of_N x - prev) + Z.of_N tot)%Z with (Z.of_N x + Z.of_N tot)%Z by lia.
  rewrite IH. replace (prev + (Z.of_N x - prev))%Z with (Z.of_N x) by lia. reflexivity.
Qed.

Lemma decode_levels_enc : forall ls, decode_levels (map (delta_enc 0%Z) ls) = Some (map (map zbar_of) ls).
Proof.
  induction ls as [|l ls IH]; [reflexivity|].
  cbn [map decode_levels]. rewrite delta_dec_enc, IH. reflexivity.
Qed.

(* ------------------------------------------------------------------------------------------ *)
(* B. the loop body folded over the visit sequence                                             *)

Definition at_lvl (l : nat) (V : list vbar) : list vbar := filter (fun v => Nat.eqb (vb_lvl v) l) V.

Lemma at_lvl_app l A B : at_lvl l (A ++ B) = at_lvl l A ++ at_lvl l B.
Proof. apply filter_app. Qed.

Definition idx_in (keys : list bytes) (n : bytes) : nat :=
  match index_of n keys with Some i => i | None => O end.

Definition bar_of (keys : list bytes) (v : vbar) : bar := (vb_x v, vb_total v, vb_self v, idx_in keys (vb_name v)).

(* a visit sequence never descends more than one level below the levels created so far *)
Fixpoint staged (n : nat) (V : list vbar) : Prop :=
  match V with
  | [] => True
  | v :: r => (vb_lvl v <= n)%nat /\ staged (Nat.max n (S (vb_lvl v))) r
  end.

Lemma staged_mono V : forall n m, (n <= m)%nat -> staged n V -> staged m V.
Proof.
  induction V as [|v V IH]; intros n m Hnm; [trivial|]. cbn [staged]. intros [H1 H2]. split; [lia|].
  eapply IH; [|exact H2]. lia.
Qed.

Lemma staged_app A : forall n B, staged n A -> staged n B -> staged n (A ++ B).
Proof.
  induction A as [|v A IH]; intros n B HA HB; [exact HB|]. cbn [app staged] in *. destruct HA as [H1 H2].
  split; [exact H1|]. apply IH; [exact H2|]. eapply staged_mono; [|exact HB]. lia.
Qed.

Lemma add_bar_length lvl b : forall L, (lvl <= length L)%nat -> length (add_bar lvl b L) = Nat.max (length L) (S lvl).
Proof.
  induction lvl as [|lvl IH]; intros [|l L] H; cbn [add_bar length] in *; try lia.
  rewrite IH by lia. lia.
Qed.

Lemma add_bar_nth lvl b : forall L l, (lvl <= length L)%nat ->
  nth l (add_bar lvl b L) [] = if Nat.eqb l lvl then b :: nth l L [] else nth l L [].
Proof.
  induction lvl as [|lvl IH]; intros [|x L] l H; cbn [add_bar length] in *; try lia.
  - destruct l as [|[|l]]; reflexivity.
  - destruct l; reflexivity.
  - destruct l as [|l]; [reflexivity|]. cbn [nth]. rewrite IH by lia. reflexivity.
Qed.

Lemma index_of_app n keys more i : index_of n keys = Some i -> index_of n (keys ++ more) = Some i.
Proof.
  revert i. induction keys as [|k keys IH]; intros i; cbn [index_of app]; [discriminate|].
  destruct (beqb k n); [auto|]. destruct (index_of n keys) as [j|]; [|discriminate].
  intros [= <-]. rewrite (IH j eq_refl). reflexivity.
Qed.

Lemma index_of_lt n keys i : index_of n keys = Some i -> (i < length keys)%nat.
Proof.
  revert i. induction keys as [|k keys IH]; intros i; cbn [index_of length]; [discriminate|].
  destruct (beqb k n); [intros [= <-]; lia|]. destruct (index_of n keys) as [j|]; [|discriminate].
  intros [= <-]. specialize (IH j eq_refl). lia.
Qed.

Lemma index_of_nth n keys i : index_of n keys = Some i -> nth i keys [] = n.
Proof.
  revert i. induction keys as [|k keys IH]; intros i; cbn [index_of]; [discriminate|].
  destruct (beqb k n) eqn:E; [intros [= <-]; apply beqb_true, E|].
  destruct (index_of n keys) as [j|]; [|discriminate]. intros [= <-]. cbn. apply IH. reflexivity.
Qed.

Lemma index_of_new n keys : index_of n keys = None -> index_of n (keys ++ [n]) = Some (length keys).
Proof.
  induction keys as [|k keys IH]; cbn [index_of app length].
  - intros _. rewrite beqb_refl. reflexivity.
  - destruct (beqb k n); [discriminate|]. destruct (index_of n keys); [discriminate|].
    intros _. rewrite IH by reflexivity. reflexivity.
Qed.

(* the index a step assigns to the visited name, and the keys after the step *)
Lemma fb_step_keys st v :
  exists more, fs_keys (fb_step st v) = fs_keys st ++ more /\
               index_of (vb_name v) (fs_keys (fb_step st v)) <> None.
Proof.
  unfold fb_step. destruct (index_of (vb_name v) (fs_keys st)) as [i|] eqn:E; cbn [fs_keys].
  - exists []. rewrite app_nil_r. split; [reflexivity|congruence].
  - exists [vb_name v]. split; [reflexivity|]. rewrite index_of_new by exact E. discriminate.
Qed.

Lemma fb_step_levels st v :
  fs_levels (fb_step st v) = add_bar (vb_lvl v) (bar_of (fs_keys (fb_step st v)) v) (fs_levels st).
Proof.
  unfold fb_step, bar_of, idx_in. destruct (index_of (vb_name v) (fs_keys st)) as [i|] eqn:E; cbn [fs_keys fs_levels].
  - rewrite E. reflexivity.
  - rewrite index_of_new by exact E. reflexivity.
Qed.

Lemma fold_keys_ext V : forall st, exists more, fs_keys (fold_left fb_step V st) = fs_keys st ++ more.
Proof.
  induction V as [|v V IH]; intros st; [exists []; rewrite app_nil_r; reflexivity|].
  cbn [fold_left]. destruct (IH (fb_step st v)) as [m1 H1]. destruct (fb_step_keys st v) as [m2 [H2 _]].
  exists (m2 ++ m1). rewrite H1, H2, app_assoc. reflexivity.
Qed.

Lemma bar_of_ext keys more v : index_of (vb_name v) keys <> None -> bar_of (keys ++ more) v = bar_of keys v.
Proof.
  intros H. unfold bar_of, idx_in. destruct (index_of (vb_name v) keys) as [i|] eqn:E; [|congruence].
  rewrite (index_of_app _ _ more _ E). reflexivity.
Qed.

(* levels after the loop = the visited bars grouped by level, each level in reverse visiting order *)
Lemma fold_levels V : forall st, staged (length (fs_levels st)) V ->
  let st' := fold_left fb_step V st in
  (forall l, nth l (fs_levels st') [] = rev (map (bar_of (fs_keys st')) (at_lvl l V)) ++ nth l (fs_levels st) []) /\
  (length (fs_levels st) <= length (fs_levels st'))%nat.
Proof.
  induction V as [|v V IH]; intros st Hs; cbn zeta.
  - cbn [fold_left]. split; [intros l; reflexivity|lia].
  - cbn [staged] in Hs. destruct Hs as [Hl Hs]. cbn [fold_left].
    assert (Hlen : length (fs_levels (fb_step st v)) = Nat.max (length (fs_levels st)) (S (vb_lvl v))).
    { rewrite fb_step_levels. apply add_bar_length, Hl. }
    destruct (IH (fb_step st v)) as [IH1 IH2]; [rewrite Hlen; exact Hs|]. cbn zeta in IH1, IH2.
    split; [|lia].
    intros l. rewrite IH1. rewrite fb_step_levels at 1. rewrite add_bar_nth by exact Hl.
    unfold at_lvl at 2. cbn [filter]. fold (at_lvl l V).
    destruct (fold_keys_ext V (fb_step st v)) as [more Hmore].
    destruct (fb_step_keys st v) as [_ [_ Hidx]].
    rewrite Nat.eqb_sym. destruct (Nat.eqb (vb_lvl v) l); [|reflexivity].
    cbn [map rev]. rewrite <- app_assoc. cbn [app]. rewrite Hmore, bar_of_ext by exact Hidx. reflexivity.
Qed.

Definition sum_selfs (bs : list bar) : N := sumN (map (fun b => match b with (_, _, s, _) => s end) bs).
Definition vsum_self (V : list vbar) : N := sumN (map vb_self V).

Lemma sumN_cons x l : sumN (x :: l) = x + sumN l.
Proof. reflexivity. Qed.

Lemma sumN_app a b : sumN (a ++ b) = sumN a + sumN b.
Proof. induction a as [|x a IH]; [reflexivity|]. cbn [app]. rewrite !sumN_cons, IH. lia. Qed.

Lemma vsum_self_app A B : vsum_self (A ++ B) = vsum_self A + vsum_self B.
Proof. unfold vsum_self. rewrite map_app. apply sumN_app. Qed.

Lemma sum_selfs_app a b : sum_selfs (a ++ b) = sum_selfs a + sum_selfs b.
Proof. unfold sum_selfs. rewrite map_app. apply sumN_app. Qed.

Lemma add_bar_sum lvl b : forall L, (lvl <= length L)%nat ->
  sum_selfs (concat (add_bar lvl b L)) = sum_selfs [b] + sum_selfs (concat L).
Proof.
  assert (Hnil : sum_selfs [] = 0) by reflexivity.
  induction lvl as [|lvl IH]; intros [|l L] H; cbn [add_bar length concat] in *; try lia.
  - rewrite sum_selfs_app, Hnil. lia.
  - rewrite !sum_selfs_app. change (b :: l) with ([b] ++ l). rewrite sum_selfs_app. lia.
  - rewrite !sum_selfs_app, IH by lia. lia.
Qed.

Lemma vsum_self_cons v V : vsum_self (v :: V) = vb_self v + vsum_self V.
Proof. reflexivity. Qed.

Lemma sum_selfs_bar_of keys v : sum_selfs [bar_of keys v] = vb_self v.
Proof. unfold sum_selfs, bar_of. cbn [map]. rewrite sumN_cons. change (sumN []) with 0. lia. Qed.

Lemma fold_sum V : forall st, staged (length (fs_levels st)) V ->
  sum_selfs (concat (fs_levels (fold_left fb_step V st))) = vsum_self V + sum_selfs (concat (fs_levels st)).
Proof.
  induction V as [|v V IH]; intros st Hs; [reflexivity|].
  cbn [staged] in Hs. destruct Hs as [Hl Hs]. cbn [fold_left].
  rewrite IH.
  - rewrite fb_step_levels, add_bar_sum by exact Hl. rewrite sum_selfs_bar_of, vsum_self_cons. lia.
  - rewrite fb_step_levels, add_bar_length by exact Hl. exact Hs.
Qed.

(* name indices *)
Definition idx_ok (n : nat) (L : list (list bar)) : Prop :=
  Forall (Forall (fun b => match b with (_, _, _, i) => (i < n)%nat end)) L.

Lemma add_bar_Forall (P : bar -> Prop) lvl b : forall L, P b -> Forall (Forall P) L -> Forall (Forall P) (add_bar lvl b L).
Proof.
  induction lvl as [|lvl IH]; intros [|l L] Hb HL; cbn [add_bar]; try inversion HL; subst; repeat constructor; auto.
Qed.

Lemma idx_ok_mono n m L : (n <= m)%nat -> idx_ok n L -> idx_ok m L.
Proof.
  intros Hnm. unfold idx_ok. apply Forall_impl. intros l. apply Forall_impl. intros [[[? ?] ?] i]. lia.
Qed.

Lemma fb_step_idx st v : idx_ok (length (fs_keys st)) (fs_levels st) ->
  idx_ok (length (fs_keys (fb_step st v))) (fs_levels (fb_step st v)).
Proof.
  intros H. unfold fb_step. destruct (index_of (vb_name v) (fs_keys st)) as [i|] eqn:E; cbn [fs_keys fs_levels].
  - apply add_bar_Forall; [|exact H]. apply index_of_lt in E. exact E.
  - apply add_bar_Forall; [rewrite app_length; cbn; lia|].
    eapply idx_ok_mono; [|exact H]. rewrite app_length. lia.
Qed.

Lemma fold_idx V : forall st, idx_ok (length (fs_keys st)) (fs_levels st) ->
  idx_ok (length (fs_keys (fold_left fb_step V st))) (fs_levels (fold_left fb_step V st)).
Proof.
  induction V as [|v V IH]; intros st H; [exact H|]. cbn [fold_left]. apply IH, fb_step_idx, H.
Qed.

(* ------------------------------------------------------------------------------------------ *)
(* C. the visit sequence, by induction on the tree                                             *)

Definition node_bar (t : tnode) (x : N) (lvl : nat) : vbar :=
  {| vb_lvl := lvl; vb_x := x; vb_total := t_total t; vb_self := t_self t; vb_name := t_name t |}.
Definition other_bar (lvl : nat) (xo ot : N) : vbar :=
  {| vb_lvl := S lvl; vb_x := xo; vb_total := ot; vb_self := ot; vb_name := other_name |}.

Definition root_shown (th : N) (t : tnode) : bool := N.leb th (t_total t) || beqb (t_name t) other_name.

Lemma fb_visit_eq th t x lvl :
  fb_visit th t x lvl =
    if root_shown th t then node_bar t x lvl :: fb_children th lvl (t_ch t) (x + t_self t) 0 else [].
Proof.
  destruct t as [n s tot ch]. unfold root_shown. cbn [fb_visit t_total t_name t_ch t_self].
  destruct (N.leb th tot || beqb n other_name); [|reflexivity]. unfold node_bar. cbn [t_total t_self t_name]. f_equal.
  match goal with |- ?f ch (x + s) 0 = _ =>
    assert (H : forall l xo ot, f l xo ot = fb_children th lvl l xo ot) end.
  { induction l as [|c l IH]; intros xo ot; [reflexivity|].
    cbn [fb_children]. destruct (N.leb th (t_total c)); rewrite IH; reflexivity. }
  apply H.
Qed.

Lemma fb_children_nil th lvl xo ot :
  fb_children th lvl [] xo ot = if N.eqb ot 0 then [] else [other_bar lvl xo ot].
Proof. reflexivity. Qed.

Lemma fb_children_cons th lvl c rest xo ot :
  fb_children th lvl (c :: rest) xo ot =
    if N.leb th (t_total c)
    then fb_children th lvl rest (xo + t_total c) ot ++ fb_visit th c xo (S lvl)
    else fb_children th lvl rest xo (ot + t_total c).
Proof. reflexivity. Qed.

(* levels *)
Lemma fb_visit_lvl th : forall t x lvl, Forall (fun v => (lvl <= vb_lvl v)%nat) (fb_visit th t x lvl).
Proof.
  induction t as [n s tot ch IH] using tnode_ind'. intros x lvl. rewrite fb_visit_eq.
  destruct (root_shown th (TNode n s tot ch)); [|constructor]. constructor; [cbn; lia|].
  cbn [t_ch t_self]. generalize (x + s) as xo. generalize 0 as ot.
  induction IH as [|c ch Hc _ IHch]; intros ot xo.
  - rewrite fb_children_nil. destruct (N.eqb ot 0); repeat constructor.
  - rewrite fb_children_cons. destruct (N.leb th (t_total c)); [|apply IHch].
    apply Forall_app. split; [apply IHch|]. eapply Forall_impl; [|apply Hc]. cbn. intros; lia.
Qed.

Lemma fb_children_lvl th lvl l : forall xo ot, Forall (fun v => (S lvl <= vb_lvl v)%nat) (fb_children th lvl l xo ot).
Proof.
  induction l as [|c l IH]; intros xo ot.
  - rewrite fb_children_nil. destruct (N.eqb ot 0); repeat constructor.
  - rewrite fb_children_cons. destruct (N.leb th (t_total c)); [|apply IH].
    apply Forall_app. split; [apply IH|apply fb_visit_lvl].
Qed.

Lemma at_lvl_none l V : Forall (fun v => (l < vb_lvl v)%nat) V -> at_lvl l V = [].
Proof.
  induction 1 as [|v V H _ IH]; [reflexivity|]. unfold at_lvl. cbn [filter].
  replace (Nat.eqb (vb_lvl v) l) with false by (symmetry; apply Nat.eqb_neq; lia). exact IH.
Qed.

(* staged *)
Lemma fb_visit_staged th : forall t x lvl n, (lvl <= n)%nat -> staged n (fb_visit th t x lvl).
Proof.
  induction t as [nm s tot ch IH] using tnode_ind'. intros x lvl n Hn. rewrite fb_visit_eq.
  destruct (root_shown th (TNode nm s tot ch)); [|exact I]. cbn [staged node_bar vb_lvl]. split; [exact Hn|].
  cbn [t_ch t_self]. assert (Hm : (S lvl <= Nat.max n (S lvl))%nat) by lia. revert Hm. generalize (Nat.max n (S lvl)) as m.
  generalize (x + s) as xo. generalize 0 as ot.
  induction IH as [|c ch Hc _ IHch]; intros ot xo m Hm.
  - rewrite fb_children_nil. destruct (N.eqb ot 0); cbn [staged other_bar vb_lvl]; auto.
  - rewrite fb_children_cons. destruct (N.leb th (t_total c)); [|apply IHch, Hm].
    apply staged_app; [apply IHch, Hm|apply Hc, Hm].
Qed.

(* geometry: bars of one level, in visiting order, are descending, disjoint and inside [lo, hi) *)
Fixpoint desc_in (lo hi : N) (bs : list vbar) : Prop :=
  match bs with
  | [] => lo <= hi
  | b :: r => vb_x b + vb_total b <= hi /\ desc_in lo (vb_x b) r
  end.

Lemma desc_in_le bs : forall lo hi, desc_in lo hi bs -> lo <= hi.
Proof.
  induction bs as [|b bs IH]; intros lo hi; cbn [desc_in]; [auto|]. intros [H1 H2]. apply IH in H2. lia.
Qed.

Lemma desc_in_app A : forall lo mid hi B, desc_in mid hi A -> desc_in lo mid B -> desc_in lo hi (A ++ B).
Proof.
  induction A as [|a A IH]; intros lo mid hi B HA HB; cbn [app desc_in] in *.
  - destruct B as [|b B]; cbn [desc_in] in *; [lia|]. destruct HB. split; [lia|assumption].
  - destruct HA as [H1 H2]. split; [exact H1|]. eapply IH; eauto.
Qed.

Lemma desc_in_weaken bs : forall lo hi lo' hi', lo' <= lo -> hi <= hi' -> desc_in lo hi bs -> desc_in lo' hi' bs.
Proof.
  induction bs as [|b bs IH]; intros lo hi lo' hi' H1 H2; cbn [desc_in]; [lia|].
  intros [H3 H4]. split; [lia|]. eapply IH; [exact H1| |exact H4]. lia.
Qed.

Lemma desc_in_bounds bs : forall lo hi b, desc_in lo hi bs -> In b bs -> lo <= vb_x b /\ vb_x b + vb_total b <= hi.
Proof.
  induction bs as [|a bs IH]; intros lo hi b; cbn [desc_in In]; [tauto|].
  intros [H1 H2] [<-|Hin].
  - apply desc_in_le in H2. lia.
  - destruct (IH _ _ _ H2 Hin). lia.
Qed.

Lemma t_subb_iff t : t_subb t = true <->
  t_self t + ch_total (t_ch t) <= t_total t /\ Forall (fun c => t_subb c = true) (t_ch t).
Proof. destruct t. cbn [t_subb t_self t_total t_ch]. rewrite andb_true_iff, forallb_forall, Forall_forall, N.leb_le. reflexivity. Qed.

Lemma fb_visit_desc th : forall t, t_subb t = true -> forall x lvl l,
  desc_in x (x + t_total t) (at_lvl l (fb_visit th t x lvl)).
Proof.
  induction t as [nm s tot ch IH] using tnode_ind'. intros Hsub x lvl l. rewrite fb_visit_eq.
  apply t_subb_iff in Hsub. cbn [t_self t_total t_ch] in *. destruct Hsub as [Hle Hch].
  destruct (root_shown th (TNode nm s tot ch)); [|cbn; lia].
  assert (Hc : forall xo ot, desc_in xo (xo + ch_total ch + ot) (at_lvl l (fb_children th lvl ch xo ot))).
  { clear Hle. induction IH as [|c ch Hc _ IHch]; intros xo ot.
    - rewrite fb_children_nil. change (ch_total []) with 0.
      destruct (N.eqb ot 0); [cbn; lia|]. unfold at_lvl. cbn [filter other_bar vb_lvl].
      destruct (Nat.eqb (S lvl) l); cbn [desc_in other_bar vb_x vb_total]; lia.
    - inversion Hch as [|? ? Hsc Hch']; subst. rewrite fb_children_cons, ch_total_cons.
      destruct (N.leb th (t_total c)).
      + rewrite at_lvl_app. apply desc_in_app with (mid := xo + t_total c).
        * eapply desc_in_weaken; [| |apply (IHch Hch' (xo + t_total c) ot)]; lia.
        * apply Hc, Hsc.
      + eapply desc_in_weaken; [| |apply (IHch Hch' xo (ot + t_total c))]; lia. }
  unfold at_lvl. cbn [filter node_bar vb_lvl]. fold (at_lvl l (fb_children th lvl ch (x + s) 0)).
  destruct (Nat.eqb lvl l) eqn:E.
  - apply Nat.eqb_eq in E. subst l. rewrite at_lvl_none.
    + cbn [desc_in vb_x vb_total node_bar t_total]. lia.
    + eapply Forall_impl; [|apply fb_children_lvl]. cbn. intros; lia.
  - eapply desc_in_weaken; [| |apply (Hc (x + s) 0)]; lia.
Qed.

Lemma fb_children_desc th lvl ch : Forall (fun c => t_subb c = true) ch -> forall xo ot l,
  desc_in xo (xo + ch_total ch + ot) (at_lvl l (fb_children th lvl ch xo ot)).
Proof.
  induction 1 as [|c ch Hsc _ IHch]; intros xo ot l.
  - rewrite fb_children_nil. change (ch_total []) with 0.
    destruct (N.eqb ot 0); [cbn; lia|]. unfold at_lvl. cbn [filter other_bar vb_lvl].
    destruct (Nat.eqb (S lvl) l); cbn [desc_in other_bar vb_x vb_total]; lia.
  - rewrite fb_children_cons, ch_total_cons. destruct (N.leb th (t_total c)).
    + rewrite at_lvl_app. apply desc_in_app with (mid := xo + t_total c).
      * eapply desc_in_weaken; [| |apply (IHch (xo + t_total c) ot)]; lia.
      * apply fb_visit_desc, Hsc.
    + eapply desc_in_weaken; [| |apply (IHch xo (ot + t_total c))]; lia.
Qed.

Lemma in_at_lvl v V : In v V -> In v (at_lvl (vb_lvl v) V).
Proof. intros H. apply filter_In. split; [exact H|apply Nat.eqb_refl]. Qed.

(* nesting *)
Definition vinside (p b : vbar) : Prop :=
  vb_x p + vb_self p <= vb_x b /\ vb_x b + vb_total b <= vb_x p + vb_total p.

Definition has_parent (V : list vbar) (b : vbar) : Prop :=
  exists p, In p V /\ S (vb_lvl p) = vb_lvl b /\ vinside p b.

Lemma fb_visit_nested th : forall t, t_subb t = true -> forall x lvl b,
  In b (fb_visit th t x lvl) -> (lvl < vb_lvl b)%nat -> has_parent (fb_visit th t x lvl) b.
Proof.
  induction t as [nm s tot ch IH] using tnode_ind'. intros Hsub x lvl b. rewrite fb_visit_eq.
  apply t_subb_iff in Hsub. cbn [t_self t_total t_ch] in *. destruct Hsub as [Hle Hch].
  destruct (root_shown th (TNode nm s tot ch)); [|intros []].
  intros [<-|Hin] Hlvl; [cbn in Hlvl; lia|].
  destruct (Nat.eq_dec (vb_lvl b) (S lvl)) as [E|E].
  - (* a bar directly below: its parent is this node's bar *)
    exists (node_bar (TNode nm s tot ch) x lvl). split; [left; reflexivity|]. split; [cbn; lia|].
    pose proof (fb_children_desc th lvl ch Hch (x + s) 0 (vb_lvl b)) as Hd.
    destruct (desc_in_bounds _ _ _ b Hd (in_at_lvl _ _ Hin)) as [H1 H2].
    unfold vinside. cbn [node_bar vb_x vb_self vb_total t_self t_total]. lia.
  - assert (Hdeep : (S lvl < vb_lvl b)%nat).
    { pose proof (fb_children_lvl th lvl ch (x + s) 0) as HL. rewrite Forall_forall in HL. specialize (HL b Hin). lia. }
    assert (Hc : forall xo ot, In b (fb_children th lvl ch xo ot) -> has_parent (fb_children th lvl ch xo ot) b).
    { clear Hin Hle. induction IH as [|c ch Hc _ IHch]; intros xo ot.
      - rewrite fb_children_nil. destruct (N.eqb ot 0); [intros []|]. intros [<-|[]]. cbn in Hdeep. lia.
      - inversion Hch as [|? ? Hsc Hch']; subst. rewrite fb_children_cons.
        destruct (N.leb th (t_total c)); [|apply IHch, Hch'].
        intros Hin. apply in_app_or in Hin. destruct Hin as [Hin|Hin].
        + destruct (IHch Hch' _ _ Hin) as (p & Hp & Hpl & Hpi). exists p. split; [apply in_or_app; left; exact Hp|auto].
        + destruct (Hc Hsc _ _ _ Hin Hdeep) as (p & Hp & Hpl & Hpi). exists p. split; [apply in_or_app; right; exact Hp|auto]. }
    destruct (Hc _ _ Hin) as (p & Hp & Hpl & Hpi). exists p. split; [right; exact Hp|auto].
Qed.

(* conservation *)
Section Sum.
  Variable R : N -> N -> bool.
  Hypothesis R_refl : forall v, R v v = true.
  Hypothesis R_add : forall x y x' y', R x y = true -> R x' y' = true -> R (x + x') (y + y') = true.
  Hypothesis R_trans : forall x y z, R x y = true -> R y z = true -> R x z = true.

  Lemma fb_visit_sum th : forall t, t_relb R t = true -> root_shown th t = true -> forall x lvl,
    R (t_total t) (vsum_self (fb_visit th t x lvl)) = true.
  Proof.
    induction t as [nm s tot ch IH] using tnode_ind'. intros Hrel Hshown x lvl. rewrite fb_visit_eq, Hshown.
    apply (t_relb_iff R) in Hrel. cbn [t_self t_total t_ch] in *. destruct Hrel as [Hr Hch].
    assert (Hc : forall xo ot, R (ch_total ch + ot) (vsum_self (fb_children th lvl ch xo ot)) = true).
    { clear Hr Hshown. induction IH as [|c ch Hc _ IHch]; intros xo ot.
      - rewrite fb_children_nil. change (ch_total []) with 0. destruct (N.eqb_spec ot 0) as [->|Hne].
        + apply R_refl.
        + rewrite vsum_self_cons. change (vsum_self []) with 0. cbn [other_bar vb_self].
          replace (0 + ot) with ot by lia. replace (ot + 0) with ot by lia. apply R_refl.
      - inversion Hch as [|? ? Hrc Hch']; subst. rewrite fb_children_cons, ch_total_cons.
        destruct (N.leb th (t_total c)) eqn:Hs.
        + rewrite vsum_self_app. replace (t_total c + ch_total ch + ot) with ((ch_total ch + ot) + t_total c) by lia.
          apply R_add; [apply IHch, Hch'|]. apply Hc; [exact Hrc|]. unfold root_shown. rewrite Hs. reflexivity.
        + replace (t_total c + ch_total ch + ot) with (ch_total ch + (ot + t_total c)) by lia. apply IHch, Hch'. }
    rewrite vsum_self_cons. cbn [node_bar vb_self t_self]. eapply R_trans; [exact Hr|].
    apply R_add; [apply R_refl|]. specialize (Hc (x + s) 0). replace (ch_total ch + 0) with (ch_total ch) in Hc by lia. exact Hc.
  Qed.
End Sum.

Lemma eqb_trans x y z : N.eqb x y = true -> N.eqb y z = true -> N.eqb x z = true.
Proof. rewrite !N.eqb_eq. congruence. Qed.
Lemma geb_trans x y z : geb x y = true -> geb y z = true -> geb x z = true.
Proof. unfold geb. rewrite !N.leb_le. lia. Qed.

Lemma fb_visit_sum_exact th t x lvl : t_exactb t = true -> root_shown th t = true ->
  vsum_self (fb_visit th t x lvl) = t_total t.
Proof.
  intros He Hs. rewrite t_exactb_rel in He. symmetry. apply N.eqb_eq.
  apply (fb_visit_sum N.eqb eqb_refl' eqb_add eqb_trans th t He Hs).
Qed.

Lemma fb_visit_sum_sub th t x lvl : t_subb t = true -> vsum_self (fb_visit th t x lvl) <= t_total t.
Proof.
  intros He. destruct (root_shown th t) eqn:Hs.
  - rewrite t_subb_rel in He. apply N.leb_le.
    apply (fb_visit_sum geb geb_refl geb_add geb_trans th t He Hs).
  - rewrite fb_visit_eq, Hs. cbn. lia.
Qed.

(* ------------------------------------------------------------------------------------------ *)
(* D. the threshold never exceeds the root total of a tree with total >= self + children        *)

Fixpoint t_all_leb (B : N) (t : tnode) : bool :=
  match t with TNode _ _ tot ch => N.leb tot B && forallb (t_all_leb B) ch end.

Lemma t_all_leb_mono B B' : B <= B' -> forall t, t_all_leb B t = true -> t_all_leb B' t = true.
Proof.
  intros HB. induction t as [n s tot ch IH] using tnode_ind'. cbn [t_all_leb].
  rewrite !andb_true_iff, !forallb_forall, !N.leb_le. intros [H1 H2]. split; [lia|].
  rewrite Forall_forall in IH. intros c Hc. apply IH; auto.
Qed.

Lemma ch_total_in c ch : In c ch -> t_total c <= ch_total ch.
Proof.
  induction ch as [|x ch IH]; intros []; rewrite ch_total_cons.
  - subst. lia.
  - specialize (IH H). lia.
Qed.

Lemma t_subb_all_le : forall t, t_subb t = true -> t_all_leb (t_total t) t = true.
Proof.
  induction t as [n s tot ch IH] using tnode_ind'. intros Hs. apply t_subb_iff in Hs.
  cbn [t_self t_total t_ch] in Hs. destruct Hs as [Hle Hch]. cbn [t_all_leb t_total].
  rewrite andb_true_iff, forallb_forall, N.leb_le. split; [lia|].
  rewrite Forall_forall in IH, Hch. intros c Hc.
  apply (t_all_leb_mono (t_total c)); [|apply IH; auto]. pose proof (ch_total_in _ _ Hc). lia.
Qed.

Lemma ca_insert_Forall (P : N -> Prop) v l : P v -> Forall P l -> Forall P (ca_insert v l).
Proof.
  intros Hv. induction 1 as [|x l Hx Hl IH]; cbn [ca_insert]; [repeat constructor; exact Hv|].
  destruct (N.ltb x v); constructor; auto.
Qed.

Lemma ca_push_Forall (P : N -> Prop) v c : P v -> P 0 -> Forall P (ca_vals c) -> Forall P (ca_vals (snd (ca_push v c))).
Proof.
  intros Hv H0 Hc. unfold ca_push. destruct (Nat.ltb (length (ca_vals c)) (ca_max c)).
  - destruct (N.eqb v 0); cbn [snd ca_vals]; [constructor; assumption|apply ca_insert_Forall; assumption].
  - destruct (ca_vals c) as [|w0 r] eqn:E; [cbn; rewrite E; constructor|].
    destruct (N.leb v w0); cbn [snd ca_vals]; [rewrite E; exact Hc|].
    pose proof (ca_insert_Forall P v (w0 :: r) Hv Hc) as H. destruct (ca_insert v (w0 :: r)); [constructor|].
    inversion H; assumption.
Qed.

Lemma mv_visit_eq t st :
  mv_visit t st =
    let (ok, c') := ca_push (t_total t) (fst st) in
    let st' := (c', S (snd st)) in
    if ok then mv_children (t_ch t) st' else st'.
Proof. destruct t as [n s tot ch]. reflexivity. Qed.

Lemma mv_visit_le B : forall t st, t_all_leb B t = true ->
  Forall (fun v => v <= B) (ca_vals (fst st)) -> Forall (fun v => v <= B) (ca_vals (fst (mv_visit t st))).
Proof.
  induction t as [n s tot ch IH] using tnode_ind'. intros st Ht Hst. rewrite mv_visit_eq.
  cbn [t_all_leb] in Ht. apply andb_true_iff in Ht. destruct Ht as [Htot Hch]. apply N.leb_le in Htot.
  rewrite forallb_forall in Hch. cbn [t_total t_ch].
  pose proof (ca_push_Forall (fun v => v <= B) tot (fst st) Htot (N.le_0_l B) Hst) as Hp.
  destruct (ca_push tot (fst st)) as [ok c']. cbn [snd] in Hp.
  destruct ok; [|exact Hp].
  assert (H : forall st', Forall (fun v => v <= B) (ca_vals (fst st')) ->
                           Forall (fun v => v <= B) (ca_vals (fst (mv_children ch st')))).
  { unfold mv_children. induction IH as [|c ch Hc _ IHch]; intros st' Hst'; [exact Hst'|].
    cbn [fold_left]. apply IHch; [intros x Hx; apply Hch; right; exact Hx|].
    apply Hc; [apply Hch; left; reflexivity|exact Hst']. }
  apply H. exact Hp.
Qed.

Lemma t_minval_le n t : t_subb t = true -> t_minval n t <= t_total t.
Proof.
  intros Hs. unfold t_minval. destruct (Nat.leb _ n); [apply N.le_0_l|].
  pose proof (mv_visit_le (t_total t) t (ca_new n, O) (t_subb_all_le t Hs) (Forall_nil _)) as H.
  unfold ca_min. destruct (ca_vals (fst (mv_visit t (ca_new n, O)))); [apply N.le_0_l|].
  inversion H; assumption.
Qed.

Lemma root_shown_minval n t : t_subb t = true -> root_shown (t_minval n t) t = true.
Proof.
  intros Hs. unfold root_shown. apply orb_true_iff. left. apply N.leb_le, t_minval_le, Hs.
Qed.

(* ------------------------------------------------------------------------------------------ *)
(* E. which frames get a bar                                                                   *)

Definition frame := (nat * N * N * bytes)%type.     (* level, total, self, name *)
Definition vproj (v : vbar) : frame := (vb_lvl v, vb_total v, vb_self v, vb_name v).

Definition folded (th : N) (l : list tnode) : N :=
  sumN (map t_total (filter (fun c => negb (N.leb th (t_total c))) l)).

(* the frames expected below (and including) a shown node t drawn at level lvl *)
Inductive fbars (th : N) : nat -> tnode -> frame -> Prop :=
| fbars_self lvl t : fbars th lvl t (lvl, t_total t, t_self t, t_name t)
| fbars_other lvl t : folded th (t_ch t) <> 0 ->
    fbars th lvl t (S lvl, folded th (t_ch t), folded th (t_ch t), other_name)
| fbars_child lvl t c f : In c (t_ch t) -> th <= t_total c -> fbars th (S lvl) c f -> fbars th lvl t f.

Lemma folded_cons th c l :
  folded th (c :: l) = if N.leb th (t_total c) then folded th l else t_total c + folded th l.
Proof. unfold folded. cbn [filter]. destruct (N.leb th (t_total c)); reflexivity. Qed.

Lemma fb_visit_frames th : forall t, root_shown th t = true -> forall x lvl f,
  In f (map vproj (fb_visit th t x lvl)) <-> fbars th lvl t f.
Proof.
  induction t as [nm s tot ch IH] using tnode_ind'. intros Hshown x lvl f. rewrite fb_visit_eq, Hshown.
  cbn [t_ch t_self].
  assert (Hc : forall l, Forall (fun c => root_shown th c = true -> forall x lvl f,
                                   In f (map vproj (fb_visit th c x lvl)) <-> fbars th lvl c f) l ->
            forall xo ot, In f (map vproj (fb_children th lvl l xo ot)) <->
              (exists c, In c l /\ th <= t_total c /\ fbars th (S lvl) c f) \/
              (ot + folded th l <> 0 /\ f = (S lvl, ot + folded th l, ot + folded th l, other_name))).
  { clear. induction 1 as [|c l Hc _ IHl]; intros xo ot.
    - rewrite fb_children_nil. change (folded th []) with 0. replace (ot + 0) with ot by lia.
      destruct (N.eqb_spec ot 0) as [->|Hne]; cbn [map In vproj other_bar vb_lvl vb_total vb_self vb_name]; split.
      + intros [].
      + intros [(c & [] & _)|[H _]]. congruence.
      + intros [<-|[]]. right. split; [exact Hne|reflexivity].
      + intros [(c & [] & _)|[_ ->]]. left. reflexivity.
    - rewrite fb_children_cons, folded_cons. destruct (N.leb th (t_total c)) eqn:Hs.
      + rewrite map_app, in_app_iff, IHl, Hc by (unfold root_shown; rewrite Hs; reflexivity).
        apply N.leb_le in Hs. split.
        * intros [[(c' & Hin & Hle & Hf)|Hother]|Hf].
          -- left. exists c'. split; [right; exact Hin|auto].
          -- right. exact Hother.
          -- left. exists c. split; [left; reflexivity|auto].
        * intros [(c' & [<-|Hin] & Hle & Hf)|Hother].
          -- right. exact Hf.
          -- left. left. exists c'. auto.
          -- left. right. exact Hother.
      + rewrite IHl. replace (ot + t_total c + folded th l) with (ot + (t_total c + folded th l)) by lia.
        apply N.leb_gt in Hs. split.
        * intros [(c' & Hin & Hle & Hf)|Hother]; [left; exists c'; split; [right; exact Hin|auto]|right; exact Hother].
        * intros [(c' & [<-|Hin] & Hle & Hf)|Hother]; [lia|left; exists c'; auto|right; exact Hother]. }
  cbn [map In]. rewrite (Hc ch IH). replace (0 + folded th ch) with (folded th ch) by lia. split.
  - intros [<-|[(c & Hin & Hle & Hf)|[Hne ->]]].
    + apply fbars_self.
    + eapply fbars_child; eauto.
    + apply (fbars_other th lvl (TNode nm s tot ch)). exact Hne.
  - intros H. inversion H; subst; cbn [t_ch] in *.
    + left. reflexivity.
    + right. right. split; [assumption|reflexivity].
    + right. left. eauto.
Qed.

(* for trees with total >= self + children "every frame on the way down reaches th" is the same as
   "the frame itself reaches th": the frames with a bar are exactly the descendants with total >= th *)
Inductive desc_at : nat -> tnode -> tnode -> Prop :=
| desc_here t : desc_at 0 t t
| desc_down d t c n : In c (t_ch t) -> desc_at d c n -> desc_at (S d) t n.

Lemma desc_total_le : forall d t n, desc_at d t n -> t_subb t = true -> t_total n <= t_total t /\ t_subb n = true.
Proof.
  induction 1 as [t|d t c n Hin _ IH]; intros Hs; [split; [lia|exact Hs]|].
  apply t_subb_iff in Hs. destruct Hs as [Hle Hch]. rewrite Forall_forall in Hch.
  destruct (IH (Hch c Hin)) as [H1 H2]. split; [|exact H2]. pose proof (ch_total_in _ _ Hin). lia.
Qed.

Lemma fbars_desc th : forall d t n, desc_at d t n -> t_subb t = true -> th <= t_total n -> forall lvl,
  fbars th lvl t ((lvl + d)%nat, t_total n, t_self n, t_name n).
Proof.
  induction 1 as [t|d t c n Hin Hd IH]; intros Hs Hth lvl.
  - rewrite Nat.add_0_r. apply fbars_self.
  - assert (Hsc : t_subb c = true).
    { apply t_subb_iff in Hs. destruct Hs as [_ Hch]. rewrite Forall_forall in Hch. auto. }
    apply (fbars_child th lvl t c); [exact Hin| |].
    + destruct (desc_total_le _ _ _ Hd Hsc). lia.
    + replace (lvl + S d)%nat with (S lvl + d)%nat by lia. apply IH; assumption.
Qed.

(* ------------------------------------------------------------------------------------------ *)
(* F. the flamebearer: decoded levels and their properties                                     *)

Definition fb_V (n : nat) (t : tnode) : list vbar := fb_visit (t_minval n t) t 0 O.
Definition fb_final (n : nat) (t : tnode) : fb_state := fold_left fb_step (fb_V n t) fb_init.
(* the bars with absolute offsets, level by level, before delta encoding *)
Definition fb_bars (n : nat) (t : tnode) : list (list bar) := fs_levels (fb_final n t).
Definition fb_keys (n : nat) (t : tnode) : list bytes := fs_keys (fb_final n t).

(* undoing the delta encoding of what FlamebearerStruct returns yields exactly fb_bars *)
Lemma fb_decode n t :
  decode_levels (fb_levels (flamebearer n t)) = Some (map (map zbar_of) (fb_bars n t)).
Proof. unfold flamebearer, flame_with. cbn [fb_levels]. apply decode_levels_enc. Qed.

Lemma fb_bars_nth n t l :
  nth l (fb_bars n t) [] = rev (map (bar_of (fb_keys n t)) (at_lvl l (fb_V n t))).
Proof.
  destruct (fold_levels (fb_V n t) fb_init) as [H _].
  - cbn. apply fb_visit_staged. lia.
  - cbn zeta in H. unfold fb_bars, fb_keys, fb_final. rewrite H. cbn [fb_init fs_levels].
    destruct l; cbn [nth]; apply app_nil_r.
Qed.

Definition bar_x (b : bar) : N := match b with (x, _, _, _) => x end.
Definition bar_total (b : bar) : N := match b with (_, t, _, _) => t end.
Definition bar_self (b : bar) : N := match b with (_, _, s, _) => s end.
Definition bar_idx (b : bar) : nat := match b with (_, _, _, i) => i end.

(* root *)
Lemma fb_V_root n t : t_subb t = true ->
  fb_V n t = node_bar t 0 O :: fb_children (t_minval n t) O (t_ch t) (0 + t_self t) 0.
Proof. intros Hs. unfold fb_V. rewrite fb_visit_eq, root_shown_minval by exact Hs. reflexivity. Qed.

Lemma fb_keys_root n t : t_subb t = true -> exists more, fb_keys n t = t_name t :: more.
Proof.
  intros Hs. unfold fb_keys, fb_final. rewrite fb_V_root by exact Hs. cbn [fold_left].
  destruct (fold_keys_ext (fb_children (t_minval n t) O (t_ch t) (0 + t_self t) 0) (fb_step fb_init (node_bar t 0 O))) as [more H].
  rewrite H. exists more. reflexivity.
Qed.

Lemma fb_root n t : (1 <= n)%nat -> t_subb t = true ->
  nth 0 (fb_bars n t) [] = [(0, t_total t, t_self t, O)] /\ fb_bars n t <> [].
Proof.
  intros _ Hs. assert (H0 : nth 0 (fb_bars n t) [] = [(0, t_total t, t_self t, O)]).
  { rewrite fb_bars_nth, fb_V_root by exact Hs. unfold at_lvl. cbn [filter node_bar vb_lvl Nat.eqb].
    fold (at_lvl 0 (fb_children (t_minval n t) O (t_ch t) (0 + t_self t) 0)).
    rewrite at_lvl_none; [|eapply Forall_impl; [|apply fb_children_lvl]; cbn; intros; lia].
    destruct (fb_keys_root n t Hs) as [more Hk]. rewrite Hk.
    cbn [map rev app]. unfold bar_of, idx_in. cbn [vb_x vb_total vb_self vb_name index_of].
    rewrite beqb_refl. reflexivity. }
  split; [exact H0|]. intros E. rewrite E in H0. discriminate.
Qed.

(* siblings / bars of one level: ascending, pairwise disjoint, inside [0, total) *)
Fixpoint asc_in (lo hi : N) (bs : list bar) : Prop :=
  match bs with
  | [] => lo <= hi
  | b :: r => lo <= bar_x b /\ asc_in (bar_x b + bar_total b) hi r
  end.

Lemma asc_in_snoc bs : forall lo mid hi b, asc_in lo mid bs -> mid <= bar_x b -> bar_x b + bar_total b <= hi ->
  asc_in lo hi (bs ++ [b]).
Proof.
  induction bs as [|a bs IH]; intros lo mid hi b; cbn [app asc_in].
  - intros; lia.
  - intros [H1 H2] H3 H4. split; [exact H1|]. eapply IH; eauto.
Qed.

Lemma desc_asc keys V : forall lo hi, desc_in lo hi V -> asc_in lo hi (rev (map (bar_of keys) V)).
Proof.
  induction V as [|v V IH]; intros lo hi; cbn [desc_in map rev asc_in]; [auto|].
  intros [H1 H2]. eapply asc_in_snoc; [apply IH, H2| |]; cbn; lia.
Qed.

Lemma fb_disjoint n t l : (1 <= n)%nat -> t_subb t = true -> asc_in 0 (t_total t) (nth l (fb_bars n t) []).
Proof.
  intros _ Hs. rewrite fb_bars_nth. apply desc_asc. apply (fb_visit_desc _ t Hs 0 O l).
Qed.

(* nesting *)
Definition binside (p b : bar) : Prop :=
  bar_x p + bar_self p <= bar_x b /\ bar_x b + bar_total b <= bar_x p + bar_total p.

Lemma fb_nesting n t l b : (1 <= n)%nat -> t_subb t = true -> In b (nth (S l) (fb_bars n t) []) ->
  exists p, In p (nth l (fb_bars n t) []) /\ binside p b.
Proof.
  intros _ Hs. rewrite !fb_bars_nth. intros Hb. apply in_rev, in_map_iff in Hb. destruct Hb as (vb & <- & Hvb).
  apply filter_In in Hvb. destruct Hvb as [Hin Hl]. apply Nat.eqb_eq in Hl.
  destruct (fb_visit_nested _ t Hs 0 O vb Hin) as (p & Hp & Hpl & Hpi); [lia|].
  exists (bar_of (fb_keys n t) p). split.
  - apply in_rev. rewrite rev_involutive. apply in_map. apply filter_In. split; [exact Hp|]. apply Nat.eqb_eq. lia.
  - exact Hpi.
Qed.

(* names *)
Lemma fb_names_ok n t :
  idx_ok (length (fb_names (flamebearer n t))) (fb_bars n t) /\
  (fb_bars n t <> [] -> nth 0 (fb_names (flamebearer n t)) [] = total_name) /\
  (* every index resolves to the frame's own name in the name cache; names = cache with entry 0 shown as "total" *)
  (forall v, In v (fb_V n t) -> nth (idx_in (fb_keys n t) (vb_name v)) (fb_keys n t) [] = vb_name v) /\
  fb_names (flamebearer n t) = fb_out_names (fb_keys n t).
Proof.
  assert (Hlen : length (fb_names (flamebearer n t)) = length (fb_keys n t)).
  { unfold flamebearer, flame_with, fb_keys, fb_final, fb_V. cbn [fb_names]. destruct (fs_keys _); reflexivity. }
  repeat split.
  - rewrite Hlen. unfold fb_bars, fb_keys, fb_final. apply fold_idx. constructor.
  - intros Hne. unfold flamebearer, flame_with. cbn [fb_names]. fold (fb_V n t). fold (fb_final n t).
    destruct (fs_keys (fb_final n t)) eqn:E; [|reflexivity]. exfalso. apply Hne.
    unfold fb_bars. destruct (fb_V n t) as [|v V] eqn:EV; [unfold fb_final; rewrite EV; reflexivity|].
    unfold fb_final in E. rewrite EV in E. cbn [fold_left] in E.
    destruct (fold_keys_ext V (fb_step fb_init v)) as [more H]. rewrite H in E.
    destruct (fb_step_keys fb_init v) as [m2 [H2 _]]. cbn [fb_init fs_keys app] in H2.
    unfold fb_step in H2. cbn [fb_init fs_keys index_of length app] in H2. subst m2.
    unfold fb_step in E. cbn [fb_init fs_keys index_of length app] in E. discriminate.
  - intros v Hv. unfold idx_in.
    assert (Hsome : index_of (vb_name v) (fb_keys n t) <> None).
    { unfold fb_keys, fb_final. apply in_split in Hv. destruct Hv as (V1 & V2 & ->).
      rewrite fold_left_app. cbn [fold_left].
      destruct (fold_keys_ext V2 (fb_step (fold_left fb_step V1 fb_init) v)) as [more H]. rewrite H.
      destruct (fb_step_keys (fold_left fb_step V1 fb_init) v) as [_ [_ Hidx]].
      destruct (index_of (vb_name v) (fs_keys (fb_step (fold_left fb_step V1 fb_init) v))) as [i|] eqn:E; [|congruence].
      rewrite (index_of_app _ _ more _ E). discriminate. }
    destruct (index_of (vb_name v) (fb_keys n t)) as [i|] eqn:E; [|congruence].
    apply index_of_nth, E.
Qed.

(* conservation *)
Lemma fb_sum n t : sum_selfs (concat (fb_bars n t)) = vsum_self (fb_V n t).
Proof.
  unfold fb_bars, fb_final. rewrite fold_sum; [cbn [fb_init fs_levels concat]; change (sum_selfs []) with 0; lia|].
  cbn. apply fb_visit_staged. lia.
Qed.

Lemma fb_conservation n t : (1 <= n)%nat -> t_exactb t = true -> sum_selfs (concat (fb_bars n t)) = t_total t.
Proof.
  intros _ He. rewrite fb_sum. apply fb_visit_sum_exact; [exact He|]. apply root_shown_minval, t_exact_sub, He.
Qed.

Lemma fb_conservation_sub n t : (1 <= n)%nat -> t_subb t = true -> sum_selfs (concat (fb_bars n t)) <= t_total t.
Proof. intros _ Hs. rewrite fb_sum. apply fb_visit_sum_sub, Hs. Qed.

(* shown iff: a bar (level l, total, self, name) exists iff the frame set [fbars] contains it *)
Lemma fb_shown_iff n t : (1 <= n)%nat -> t_subb t = true -> forall l tot s name,
  (exists x, In (x, tot, s, idx_in (fb_keys n t) name) (nth l (fb_bars n t) []) /\
             nth (idx_in (fb_keys n t) name) (fb_keys n t) [] = name)
  <-> fbars (t_minval n t) O t (l, tot, s, name).
Proof.
  intros _ Hs l tot s name. rewrite <- (fb_visit_frames _ t (root_shown_minval n t Hs) 0 O). fold (fb_V n t).
  rewrite fb_bars_nth. split.
  - intros (x & Hin & Hnm). apply in_rev, in_map_iff in Hin. destruct Hin as (v & Hv & Hin).
    apply filter_In in Hin. destruct Hin as [Hin Hl]. apply Nat.eqb_eq in Hl.
    apply in_map_iff. exists v. split; [|exact Hin].
    unfold bar_of in Hv. injection Hv as Hx Ht Hself Hidx. unfold vproj. rewrite Hl, Ht, Hself. f_equal.
    destruct (fb_names_ok n t) as (_ & _ & Hres & _). rewrite <- (Hres v Hin), Hidx. exact Hnm.
  - intros Hin. apply in_map_iff in Hin. destruct Hin as (v & Hv & Hin). unfold vproj in Hv. injection Hv as Hl Ht Hself Hn.
    exists (vb_x v). split.
    + apply in_rev. rewrite rev_involutive. apply in_map_iff. exists v. split.
      * unfold bar_of. rewrite Ht, Hself, Hn. reflexivity.
      * apply filter_In. split; [exact Hin|]. apply Nat.eqb_eq, Hl.
    + destruct (fb_names_ok n t) as (_ & _ & Hres & _). rewrite <- Hn. apply Hres, Hin.
Qed.

(* ------------------------------------------------------------------------------------------ *)
(* G. a tree that fits the budget is drawn completely                                          *)

Lemma mv_visit_count : forall t st, (snd (mv_visit t st) <= snd st + t_size t)%nat.
Proof.
  induction t as [n s tot ch IH] using tnode_ind'. intros st. rewrite mv_visit_eq. cbn [t_total t_ch t_size].
  destruct (ca_push tot (fst st)) as [ok c']. destruct ok; [|cbn [snd]; lia].
  assert (H : forall st', (snd (mv_children ch st') <= snd st' + fold_right (fun c n => (t_size c + n)%nat) O ch)%nat).
  { unfold mv_children. induction IH as [|c ch Hc _ IHch]; intros st'; cbn [fold_left fold_right]; [lia|].
    specialize (IHch (mv_visit c st')). specialize (Hc st'). lia. }
  specialize (H (c', S (snd st))). cbn [snd] in H. lia.
Qed.

Lemma t_minval_small n t : (t_size t <= n)%nat -> t_minval n t = 0.
Proof.
  intros H. unfold t_minval. pose proof (mv_visit_count t (ca_new n, O)) as Hc. cbn [snd] in Hc.
  replace (Nat.leb (snd (mv_visit t (ca_new n, O))) n) with true; [reflexivity|].
  symmetry. apply Nat.leb_le. lia.
Qed.

Lemma folded_zero l : folded 0 l = 0.
Proof. induction l as [|c l IH]; [reflexivity|]. rewrite folded_cons. replace (N.leb 0 (t_total c)) with true by (symmetry; apply N.leb_le, N.le_0_l). exact IH. Qed.

Lemma fbars_zero_iff : forall t lvl f,
  fbars 0 lvl t f <-> exists d n, desc_at d t n /\ f = ((lvl + d)%nat, t_total n, t_self n, t_name n).
Proof.
  intros t lvl f. split.
  - induction 1 as [lvl t|lvl t Hne|lvl t c f Hin Hle _ IH].
    + exists O, t. split; [constructor|]. rewrite Nat.add_0_r. reflexivity.
    + rewrite folded_zero in Hne. congruence.
    + destruct IH as (d & n & Hd & ->). exists (S d), n. split; [econstructor; eauto|].
      replace (lvl + S d)%nat with (S lvl + d)%nat by lia. reflexivity.
  - intros (d & n & Hd & ->). revert lvl. induction Hd as [t|d t c n Hin Hd IH]; intros lvl.
    + rewrite Nat.add_0_r. constructor.
    + apply (fbars_child 0 lvl t c); [exact Hin|apply N.le_0_l|].
      replace (lvl + S d)%nat with (S lvl + d)%nat by lia. apply IH.
Qed.
