(* SegCodecProofs.v — round trip of the segment codec (C14). *)
From Pyro Require Import Model.Base Model.Varint Model.Float53 Model.Segment Model.SegCodec
  Proofs.VarintProofs Proofs.SegmentProofs Proofs.SegStruct.
From Coq Require Import ZifyBool ZifyNat ZifyN.
Local Open Scope Z_scope.

Lemma time_roundtrip t : - 2 ^ 63 <= slot_to_unix t < 2 ^ 63 ->
  time_dec (time_enc t) = Some t /\ (time_enc t < 2 ^ 64)%N.
Proof.
  intros H. unfold time_dec, time_enc. set (u := slot_to_unix t) in *.
  assert (Hu : (u + unix_offset) = t * 10) by (unfold u, slot_to_unix; lia).
  destruct (u <? 0) eqn:E.
  - rewrite Z2N.id by lia. replace (2 ^ 64 + u <? 2 ^ 63) with false by lia.
    replace (2 ^ 64 + u - 2 ^ 64) with u by lia. rewrite Hu.
    rewrite Z.mod_mul by lia. cbn [Z.eqb]. split; [|lia].
    f_equal. unfold unix_to_slot. rewrite Hu. apply Z.div_mul. lia.
  - rewrite Z2N.id by lia. replace (u <? 2 ^ 63) with true by lia. rewrite Hu.
    rewrite Z.mod_mul by lia. cbn [Z.eqb]. split; [|lia].
    f_equal. unfold unix_to_slot. rewrite Hu. apply Z.div_mul. lia.
Qed.

(* ---------- helpers ---------- *)
Fixpoint height (lvl : nat) (n : snode) {struct lvl} : nat :=
  match lvl with
  | O => 1
  | S l => S (fold_right Nat.max 0%nat (map (height l) (somes (sn_ch n))))
  end.

Fixpoint bounded (lvl : nat) (n : snode) {struct lvl} : Prop :=
  match n with
  | SNode t _ s w ch =>
      (s < 2 ^ 64)%N /\ (w < 2 ^ 64)%N /\ - 2 ^ 63 <= slot_to_unix t < 2 ^ 63 /\
      match lvl with
      | O => True
      | S l => oall (bounded l) ch
      end
  end.

Lemma count_some_somes {A} (l : list (option A)) : count_some l = length (somes l).
Proof.
  induction l as [|o l IH]; [reflexivity|]. rewrite count_some_cons. unfold somes in *. cbn [flat_map].
  rewrite app_length, <- IH. destruct o; reflexivity.
Qed.

Lemma somes_cons {A} (o : option A) l : somes (o :: l) = match o with Some x => x :: somes l | None => somes l end.
Proof. destruct o; reflexivity. Qed.

Lemma uvarint_enc_nonempty n : (1 <= length (uvarint_enc n))%nat.
Proof.
  unfold uvarint_enc. destruct (N.to_nat (N.log2 n)); cbn; [lia|]. destruct (n <? 128)%N; cbn; lia.
Qed.

Lemma ser_node_nonempty lvl n : (1 <= length (ser_node lvl n))%nat.
Proof.
  destruct lvl as [|l], n; cbn [ser_node ser_header]; rewrite !app_length;
    [pose proof (uvarint_enc_nonempty (N.of_nat 0))|pose proof (uvarint_enc_nonempty (N.of_nat (S l)))]; lia.
Qed.

Lemma concat_ser_length l cs : (length cs <= length (concat (map (ser_node l) cs)))%nat.
Proof.
  induction cs as [|c cs IH]; cbn; [lia|]. rewrite app_length. pose proof (ser_node_nonempty l c). lia.
Qed.

Lemma list_set_app {A} (x y : A) pre post : list_set (length pre) x (pre ++ y :: post) = Some (pre ++ x :: post).
Proof. induction pre as [|z pre IH]; cbn; [reflexivity|]. rewrite IH. reflexivity. Qed.

(* ---------- header ---------- *)
Lemma dec_header_ser lvl t p s w ch rest :
  (N.of_nat lvl < 2 ^ 64)%N -> (s < 2 ^ 64)%N -> (w < 2 ^ 64)%N -> - 2 ^ 63 <= slot_to_unix t < 2 ^ 63 ->
  (count_some ch <= 10)%nat ->
  dec_header 2 (ser_header lvl (SNode t p s w ch) ++ rest) =
  Some (lvl, SNode t p s w (match lvl with O => [] | S _ => repeat None 10 end),
        N.of_nat (match lvl with O => O | S _ => count_some ch end), rest).
Proof.
  intros Hl Hs Hw Ht Hc. unfold dec_header, ser_header.
  destruct (time_roundtrip t Ht) as [Htd Hte].
  repeat rewrite <- app_assoc.
  rewrite uvarint_roundtrip by exact Hl.
  rewrite uvarint_roundtrip by exact Hte.
  rewrite uvarint_roundtrip by exact Hs.
  change (2 <=? 2)%N with true. cbv iota.
  rewrite uvarint_roundtrip by exact Hw.
  rewrite uvarint_roundtrip by (destruct p; reflexivity).
  rewrite uvarint_roundtrip by (destruct lvl; lia).
  rewrite Htd. rewrite Nat2N.id.
  destruct p; reflexivity.
Qed.

(* ---------- children ---------- *)
Lemma dec_children_ser (dec : bytes -> option (nat * snode * bytes)) l t p s w :
  forall suf pre rest,
    slots (fun c => forall r, dec (ser_node l c ++ r) = Some (l, c, r)) (pow10 l)
          (t + Z.of_nat (length pre) * pow10 l) suf ->
    dec_children dec (S l) (length (somes suf))
                 (SNode t p s w (pre ++ repeat None (length suf)))
                 (concat (map (ser_node l) (somes suf)) ++ rest) =
    Some (S l, SNode t p s w (pre ++ suf), rest).
Proof.
  induction suf as [|o suf IH]; intros pre rest Hs.
  - cbn. reflexivity.
  - cbn [slots] in Hs. destruct Hs as [Ho Hrest].
    assert (Hpre : forall x : option snode,
              t + Z.of_nat (length pre) * pow10 l + pow10 l = t + Z.of_nat (length (pre ++ [x])) * pow10 l).
    { intros x. rewrite app_length. cbn [length]. lia. }
    destruct o as [c|].
    + destruct Ho as [Hct Hdec]. rewrite somes_cons. cbn [length map concat dec_children].
      rewrite <- app_assoc. rewrite Hdec. rewrite Nat.eqb_refl. cbn [negb].
      unfold sn_replace. unfold replace_idx. rewrite Hct.
      replace (t + Z.of_nat (length pre) * pow10 l - t) with (Z.of_nat (length pre) * pow10 l) by lia.
      pose proof (pow10_pos l) as Hp. rewrite Z.quot_mul by lia.
      replace (Z.of_nat (length pre) <? 0) with false by lia. rewrite Nat2Z.id.
      cbn [repeat]. rewrite list_set_app.
      replace (pre ++ Some c :: repeat None (length suf)) with ((pre ++ [Some c]) ++ repeat None (length suf))
        by (rewrite <- app_assoc; reflexivity).
      rewrite IH.
      * rewrite <- app_assoc. reflexivity.
      * rewrite <- Hpre. exact Hrest.
    + rewrite somes_cons. cbn [length repeat].
      replace (pre ++ None :: repeat None (length suf)) with ((pre ++ [None]) ++ repeat None (length suf))
        by (rewrite <- app_assoc; reflexivity).
      rewrite IH.
      * rewrite <- app_assoc. reflexivity.
      * rewrite <- Hpre. exact Hrest.
Qed.

Lemma height_child l c ch : In (Some c) ch ->
  (height l c <= fold_right Nat.max 0 (map (height l) (somes ch)))%nat.
Proof.
  induction ch as [|o ch IH]; intros H; [destruct H|].
  rewrite somes_cons. destruct H as [H|H].
  - subst o. cbn. lia.
  - specialize (IH H). destruct o; cbn; lia.
Qed.

(* ---------- one node ---------- *)
Theorem dec_node_ser : forall lvl n fuel rest,
  wf lvl n -> bounded lvl n -> (lvl <= 8)%nat -> (height lvl n <= fuel)%nat ->
  dec_node fuel 2 (ser_node lvl n ++ rest) = Some (lvl, n, rest).
Proof.
  induction lvl as [|l IH]; intros [t p s w ch] fuel rest Hwf Hb Hl Hf.
  - destruct fuel as [|f]; [cbn in Hf; lia|].
    destruct Hwf as [_ Hch]. subst ch. destruct Hb as (Hs & Hw & Ht & _).
    cbn [dec_node ser_node]. rewrite app_nil_r.
    rewrite dec_header_ser by (cbn; lia). cbn [N.of_nat].
    replace (Nlen rest <? 0)%N with false by lia. reflexivity.
  - destruct fuel as [|f]; [cbn in Hf; lia|].
    destruct Hwf as [Hm [Hlen Hsl]]. destruct Hb as (Hs & Hw & Ht & Hbc).
    cbn [dec_node ser_node sn_ch]. rewrite <- app_assoc.
    assert (Hcnt : (count_some ch <= 10)%nat).
    { rewrite count_some_somes. unfold somes. clear -Hlen.
      assert (forall l : list (option snode), length (flat_map (fun o => match o with Some x => [x] | None => [] end) l) <= length l)%nat.
      { induction l as [|o l IHl]; cbn; [lia|]. rewrite app_length. destruct o; cbn; lia. }
      specialize (H ch). lia. }
    rewrite dec_header_ser by (auto; lia).
    rewrite Nat2N.id.
    assert (Hg : (Nlen (concat (map (ser_node l) (somes ch)) ++ rest) <? N.of_nat (count_some ch))%N = false).
    { unfold Nlen. rewrite app_length. pose proof (concat_ser_length l (somes ch)).
      rewrite count_some_somes. lia. }
    rewrite Hg. rewrite count_some_somes.
    replace (repeat None 10) with ([] ++ repeat (@None snode) (length ch)) by (rewrite Hlen; reflexivity).
    rewrite dec_children_ser; [reflexivity|].
    cbn [length]. replace (t + Z.of_nat 0 * pow10 l) with t by lia.
    eapply slots_strengthen; [exact Hsl|].
    intros c Hin Hwc r. apply IH.
    + exact Hwc.
    + unfold oall in Hbc. rewrite Forall_forall in Hbc. exact (Hbc _ Hin).
    + lia.
    + cbn [height sn_ch] in Hf. pose proof (height_child l c ch Hin). lia.
Qed.

(* the fuel handed to the decoder (length of the input) is enough *)
Lemma max_le_sum (f g : snode -> nat) cs : (forall c, In c cs -> f c <= g c)%nat ->
  (fold_right Nat.max 0 (map f cs) <= fold_right Nat.add 0 (map g cs))%nat.
Proof.
  induction cs as [|c cs IH]; intros H; cbn; [lia|].
  pose proof (H c (or_introl eq_refl)). assert (forall c0, In c0 cs -> (f c0 <= g c0)%nat) by (intros; apply H; right; auto).
  specialize (IH H1). lia.
Qed.

Lemma length_concat_map {A} (f : A -> bytes) cs :
  length (concat (map f cs)) = fold_right Nat.add 0%nat (map (fun c => length (f c)) cs).
Proof. induction cs; cbn; [reflexivity|]. rewrite app_length. lia. Qed.

Lemma height_le_length : forall lvl n, (height lvl n <= length (ser_node lvl n))%nat.
Proof.
  induction lvl as [|l IH]; intros n.
  - cbn [height]. apply ser_node_nonempty.
  - cbn [height ser_node]. rewrite app_length, length_concat_map.
    assert (1 <= length (ser_header (S l) n))%nat.
    { destruct n. cbn [ser_header]. rewrite !app_length. pose proof (uvarint_enc_nonempty (N.of_nat (S l))). lia. }
    pose proof (max_le_sum (height l) (fun c => length (ser_node l c)) (somes (sn_ch n)) (fun c _ => IH c)).
    lia.
Qed.

(* ---------- deleteDataBefore keeps the structural invariants ---------- *)
Definition del_child (l : nat) (thr : Z) (o : option snode) : option snode * list (nat * Z) :=
  match o with
  | Some c => let '(c', cbs, del) := s_del_node l thr c in ((if del then None else Some c'), cbs)
  | None => (None, [])
  end.

Lemma del_node_unfold_S l thr t p s w ch :
  s_del_node (S l) thr (SNode t p s w ch) =
  if thr <? t then (SNode t p s w ch, [], false)
  else let isb := t + pow10 (S l) <=? thr in
       let own := if isb then [(S l, t)] else [] in
       let rs := map (del_child l thr) ch in
       (SNode t p s w (map fst rs), own ++ concat (map snd rs), isb).
Proof. reflexivity. Qed.

Lemma del_node_time : forall lvl thr n, sn_time (fst (fst (s_del_node lvl thr n))) = sn_time n.
Proof.
  destruct lvl; intros thr [t p s w ch]; cbn [s_del_node]; destruct (thr <? t); reflexivity.
Qed.

Lemma del_node_wf : forall lvl thr n, wf lvl n -> wf lvl (fst (fst (s_del_node lvl thr n))).
Proof.
  induction lvl as [|l IH]; intros thr [t p s w ch] H.
  - cbn [s_del_node]. destruct (thr <? t); exact H.
  - rewrite del_node_unfold_S. destruct (thr <? t); [exact H|]. cbv zeta. cbn [fst].
    destruct H as [Hm [Hlen Hs]]. cbn [wf]. split; [exact Hm|]. rewrite !map_length. split; [exact Hlen|].
    clear Hlen Hm. revert t Hs. induction ch as [|o ch IHc]; intros t0 Hs; cbn in *; [exact I|].
    destruct Hs as [Ho Hr]. split; [|apply IHc; exact Hr].
    destruct o as [c|]; cbn; [|exact I]. destruct Ho as [Ht Hw].
    pose proof (IH thr c Hw) as Hw'. pose proof (del_node_time l thr c) as Ht'.
    destruct (s_del_node l thr c) as [[c' cbs] del]. cbn in *. destruct del; cbn; [exact I|].
    split; [lia|exact Hw'].
Qed.

Lemma count_some_del l thr ch : (count_some (map fst (map (del_child l thr) ch)) <= count_some ch)%nat.
Proof.
  induction ch as [|o ch IH]; [cbn; lia|]. cbn [map]. rewrite !count_some_cons.
  destruct o as [c|]; cbn; [|lia]. destruct (s_del_node l thr c) as [[c' cbs] del]. destruct del; cbn; lia.
Qed.

Lemma del_node_two : forall lvl thr n, two lvl n -> two lvl (fst (fst (s_del_node lvl thr n))).
Proof.
  induction lvl as [|l IH]; intros thr [t p s w ch] H.
  - cbn [s_del_node]. destruct (thr <? t); exact H.
  - rewrite del_node_unfold_S. destruct (thr <? t); [exact H|]. cbv zeta. cbn [fst].
    destruct H as [Hp Hc]. cbn [two]. split.
    + intros H2. apply Hp. pose proof (count_some_del l thr ch). lia.
    + clear Hp. unfold oall in *. induction ch as [|o ch IHc]; cbn; [constructor|].
      inversion Hc; subst. constructor; [|apply IHc; assumption].
      destruct o as [c|]; cbn; [|exact I].
      pose proof (IH thr c H1) as Hc'. destruct (s_del_node l thr c) as [[c' cbs] del]. destruct del; cbn; [exact I|exact Hc'].
Qed.

Lemma s_delete_before_ok K thr s : seg_ok K s -> seg_ok K (fst (fst (s_delete_before thr s))).
Proof.
  unfold s_delete_before, seg_ok. destruct (s_root s) as [[lvl n]|] eqn:E; cbn [fst]; [|rewrite E; auto].
  intros (Hl & Hwf & Htwo & Hb1 & Hb2).
  pose proof (del_node_wf lvl thr n Hwf). pose proof (del_node_two lvl thr n Htwo).
  pose proof (del_node_time lvl thr n).
  destruct (s_del_node lvl thr n) as [[n' cbs] del]. cbn [fst] in *.
  destruct del; cbn [fst s_root]; [exact I|].
  split; [exact Hl|]. split; [assumption|]. split; [assumption|]. unfold in_blk. lia.
Qed.

(* segments reachable by writes, retention cuts and SetMetadata, inside one epoch block *)
Inductive reachable (K : Z) : segment -> Prop :=
| reach_empty : reachable K s_empty
| reach_put a b smp s : reachable K s -> valid_range K a b -> reachable K (fst (s_put a b smp s))
| reach_del thr s : reachable K s -> reachable K (fst (fst (s_delete_before thr s)))
| reach_meta m s : reachable K s -> reachable K (s_set_meta m s).

Lemma reachable_ok K s : reachable K s -> seg_ok K s.
Proof.
  induction 1.
  - exact I.
  - apply s_put_ok; assumption.
  - apply s_delete_before_ok; assumption.
  - exact IHreachable.
Qed.

(* ---------- the segment codec ---------- *)
Definition seg_bounded (s : segment) : Prop :=
  match s_root s with Some (lvl, n) => bounded lvl n | None => True end.

Section Roundtrip.
  Variable enc_meta : meta -> bytes.
  Variable dec_meta : bytes -> option meta.
  Hypothesis meta_roundtrip : forall m, dec_meta (enc_meta m) = Some m.
  Hypothesis meta_short : forall m, (Nlen (enc_meta m) < 2 ^ 64)%N.

  Theorem codec_roundtrip K s : seg_ok K s -> seg_bounded s -> s_root s <> None ->
    s_deserialize dec_meta (s_serialize enc_meta s) = Some s.
  Proof.
    intros Hok Hb Hne. unfold s_deserialize, s_serialize, seg_ok, seg_bounded in *.
    destruct s as [[[lvl n]|] m]; cbn [s_root s_meta] in *; [|congruence].
    destruct Hok as (Hl & Hwf & _).
    rewrite uvarint_roundtrip by reflexivity.
    rewrite uvarint_roundtrip by apply meta_short.
    replace (Nlen (enc_meta m ++ ser_node lvl n) <? Nlen (enc_meta m))%N with false
      by (unfold Nlen; rewrite app_length; lia).
    unfold Nlen at 1. rewrite Nat2N.id. rewrite take_bytes_app. rewrite meta_roundtrip.
    rewrite <- (app_nil_r (ser_node lvl n)) at 2.
    rewrite dec_node_ser; auto.
    pose proof (height_le_length lvl n). lia.
  Qed.

  (* hence every later operation gives equal results, and re-saving gives the same bytes *)
  Corollary reload_put K s a b smp : seg_ok K s -> seg_bounded s -> s_root s <> None ->
    option_map (s_put a b smp) (s_deserialize dec_meta (s_serialize enc_meta s)) = Some (s_put a b smp s).
  Proof. intros. erewrite codec_roundtrip; eauto. Qed.
  Corollary reload_get K s a b : seg_ok K s -> seg_bounded s -> s_root s <> None ->
    option_map (s_get a b) (s_deserialize dec_meta (s_serialize enc_meta s)) = Some (s_get a b s).
  Proof. intros. erewrite codec_roundtrip; eauto. Qed.
  Corollary reload_delete K s thr : seg_ok K s -> seg_bounded s -> s_root s <> None ->
    option_map (s_delete_before thr) (s_deserialize dec_meta (s_serialize enc_meta s)) = Some (s_delete_before thr s).
  Proof. intros. erewrite codec_roundtrip; eauto. Qed.
  Corollary reload_bytes K s : seg_ok K s -> seg_bounded s -> s_root s <> None ->
    option_map (s_serialize enc_meta) (s_deserialize dec_meta (s_serialize enc_meta s)) = Some (s_serialize enc_meta s).
  Proof. intros. erewrite codec_roundtrip; eauto. Qed.
  (* any function of the state (timeline, StartTime, metadata getters, ...) *)
  Corollary reload_any {A} (f : segment -> A) K s : seg_ok K s -> seg_bounded s -> s_root s <> None ->
    option_map f (s_deserialize dec_meta (s_serialize enc_meta s)) = Some (f s).
  Proof. intros. erewrite codec_roundtrip; eauto. Qed.
End Roundtrip.

(* reflection of the bounds *)
Lemma boundedb_bounded : forall lvl n, sn_boundedb lvl n = true -> bounded lvl n.
Proof.
  induction lvl as [|l IH]; intros [t p s w ch] H; cbn [sn_boundedb bounded] in *.
  - repeat (apply andb_prop in H; destruct H as [H ?]). repeat split; try lia.
  - apply andb_prop in H. destruct H as [H Hc].
    repeat (apply andb_prop in H; destruct H as [H ?]). repeat split; try lia.
    unfold oall. apply Forall_forall. intros o Ho. rewrite forallb_forall in Hc. specialize (Hc o Ho).
    destruct o; [apply IH; exact Hc|exact I].
Qed.
Definition seg_boundedb (s : segment) : bool :=
  match s_root s with Some (lvl, n) => sn_boundedb lvl n | None => true end.
Lemma seg_boundedb_bounded s : seg_boundedb s = true -> seg_bounded s.
Proof. unfold seg_boundedb, seg_bounded. destruct (s_root s) as [[l n]|]; [apply boundedb_bounded|auto]. Qed.

(* the same round trip with the metadata hypotheses only at the segment's own metadata *)
Theorem codec_roundtrip_at (enc_meta : meta -> bytes) (dec_meta : bytes -> option meta) K s :
  dec_meta (enc_meta (s_meta s)) = Some (s_meta s) -> (Nlen (enc_meta (s_meta s)) < 2 ^ 64)%N ->
  seg_ok K s -> seg_bounded s -> s_root s <> None ->
  s_deserialize dec_meta (s_serialize enc_meta s) = Some s.
Proof.
  intros Hrt Hshort Hok Hb Hne. unfold s_deserialize, s_serialize, seg_ok, seg_bounded in *.
  destruct s as [[[lvl n]|] m]; cbn [s_root s_meta] in *; [|congruence].
  destruct Hok as (Hl & Hwf & _).
  rewrite uvarint_roundtrip by reflexivity.
  rewrite uvarint_roundtrip by exact Hshort.
  replace (Nlen (enc_meta m ++ ser_node lvl n) <? Nlen (enc_meta m))%N with false
    by (unfold Nlen; rewrite app_length; lia).
  unfold Nlen at 1. rewrite Nat2N.id. rewrite take_bytes_app. rewrite Hrt.
  rewrite <- (app_nil_r (ser_node lvl n)) at 2.
  rewrite dec_node_ser; auto.
  pose proof (height_le_length lvl n). lia.
Qed.

(* arbitrary metadata: the reloaded segment is the original with its metadata passed through the pair *)
Theorem codec_roundtrip_meta (enc_meta : meta -> bytes) (dec_meta : bytes -> option meta) K s m' :
  dec_meta (enc_meta (s_meta s)) = Some m' -> (Nlen (enc_meta (s_meta s)) < 2 ^ 64)%N ->
  seg_ok K s -> seg_bounded s -> s_root s <> None ->
  s_deserialize dec_meta (s_serialize enc_meta s) = Some {| s_root := s_root s; s_meta := m' |}.
Proof.
  intros Hrt Hshort Hok Hb Hne. unfold s_deserialize, s_serialize, seg_ok, seg_bounded in *.
  destruct s as [[[lvl n]|] m]; cbn [s_root s_meta] in *; [|congruence].
  destruct Hok as (Hl & Hwf & _).
  rewrite uvarint_roundtrip by reflexivity.
  rewrite uvarint_roundtrip by exact Hshort.
  replace (Nlen (enc_meta m ++ ser_node lvl n) <? Nlen (enc_meta m))%N with false
    by (unfold Nlen; rewrite app_length; lia).
  unfold Nlen at 1. rewrite Nat2N.id. rewrite take_bytes_app. rewrite Hrt.
  rewrite <- (app_nil_r (ser_node lvl n)) at 2.
  rewrite dec_node_ser; auto.
  pose proof (height_le_length lvl n). lia.
Qed.
