(* SegCodecProofs.v — round trip of the segment codec (C14). *)
From Pyro Require Import Model.Base Model.Varint Model.Float53 Model.Segment Model.SegCodec
  Proofs.VarintProofs Proofs.SegmentProofs Proofs.SegStruct.
From Coq Require Import ZifyBool ZifyNat ZifyN.
Local Open Scope Z_scope.

Lemma time_roundtrip t : - 2 ^ 63 <= slot_to_unix t < 2 ^ 63 ->
  time_dec (time_enc t) = Some t /\ (time_enc t < 2 ^ 64)%N.
Proof.
  intros H. unfold time_dec, time_enc. set (u := slot_to_unix t) in *.
  assert (Hu : (u + unix_offset) = t * 10) by (unfold u, slot_to_unix; lia).
  destruct (u <? 0) eqn:E.
  - rewrite Z2N.id by lia. replace (2 ^ 64 + u <? 2 ^ 63) with false by lia.
    replace (2 ^ 64 + u - 2 ^ 64) with u by lia. rewrite Hu.
    rewrite Z.mod_mul by lia. cbn [Z.eqb]. split; [|lia].
    f_equal. unfold unix_to_slot. rewrite Hu. apply Z.div_mul. lia.
  - rewrite Z2N.id by lia. replace (u <? 2 ^ 63) with true by lia. rewrite Hu.
    rewrite Z.mod_mul by lia. cbn [Z.eqb]. split; [|lia].
    f_equal. unfold unix_to_slot. rewrite Hu. apply Z.div_mul. lia.
Qed.
