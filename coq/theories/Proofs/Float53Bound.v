(* Float53Bound.v — the binary64 share of ANY upload is within the obvious rounding distance of the exact
   rational share: for 1 <= m <= n (any span n) and a count c < 2^52,
        c*m/n - 2  <  uint64(float64(c) * RN(m/n))  <  c*m/n + 1,
   i.e. the counter increment differs from floor(c*m/n) by at most 1 (two roundings to nearest, then
   truncation).  Exactness (Float53Share.share_exact_small_span) needs n <= 9 and n | c; this bound does not. *)
From Pyro Require Import Model.Base Model.Float53 Proofs.Float53Proofs Proofs.Float53Share.
From Coq Require Import ZifyBool ZifyN.
Local Open Scope Z_scope.

(* RN(m/n) for a proper fraction: normalised mantissa, exponent <= -52, error at most half a unit *)
Lemma rne53_frac m n : 1 <= m <= n ->
  2 ^ 52 <= fm (rne53 m n) < 2 ^ 53 /\ fe (rne53 m n) <= -52 /\
  2 * Z.abs (fm (rne53 m n) * n - m * 2 ^ (- fe (rne53 m n))) <= n.
Proof.
  intros Hmn. unfold rne53. replace (m <=? 0) with false by lia.
  set (lp := Z.log2 m). set (lq := Z.log2 n).
  pose proof (Z.log2_spec m ltac:(lia)) as Hm. pose proof (Z.log2_spec n ltac:(lia)) as Hn. fold lp in Hm. fold lq in Hn.
  assert (Hlp0 : 0 <= lp) by apply Z.log2_nonneg.
  assert (Hle : lp <= lq) by (apply Z.log2_le_mono; lia).
  set (d := lq - lp). assert (Hd : 0 <= d) by (unfold d; lia).
  set (X := 2 ^ lp) in *. assert (HX : 0 < X) by (unfold X; apply Z.pow_pos_nonneg; lia).
  set (W := 2 ^ d). assert (HW : 1 <= W) by (unfold W; assert (0 < 2 ^ d) by (apply Z.pow_pos_nonneg; lia); lia).
  assert (HY : 2 ^ lq = X * W) by (unfold X, W, d; rewrite <- Z.pow_add_r by lia; f_equal; lia).
  replace (Z.succ lp) with (lp + 1) in Hm by lia. replace (Z.succ lq) with (lq + 1) in Hn by lia.
  rewrite Z.pow_add_r in Hm, Hn by lia. change (2 ^ 1) with 2 in Hm, Hn. fold X in Hm. rewrite HY in Hn |- *.
  (* the test p/q >= 2^(lp-lq) *)
  assert (Hge : (n * X <=? m * (X * W)) = (n <=? m * W)).
  { destruct (n <=? m * W) eqn:E; [apply Z.leb_le; nia|apply Z.leb_gt; nia]. }
  rewrite Hge.
  assert (Hlow : n < 2 * (m * W)) by nia.
  assert (Hup : m * W < 2 * n) by nia.
  destruct (n <=? m * W) eqn:Ege.
  - (* e = lp - lq - 52 *)
    replace (lp - lq - 52) with (- (52 + d)) by (unfold d; lia).
    unfold rne_scaled. replace (0 <=? - (52 + d)) with false by lia. rewrite Z.opp_involutive.
    rewrite Z.pow_add_r by lia. fold W.
    set (S := m * (2 ^ 52 * W)). pose proof (rne_div_spec S n ltac:(unfold S; nia) ltac:(lia)) as Hs.
    set (k := rne_div S n) in *.
    assert (HS : 2 ^ 52 * n <= S < 2 ^ 53 * n) by (unfold S; nia).
    assert (Hk : 2 ^ 52 <= k <= 2 ^ 53) by nia.
    destruct (k =? 2 ^ 53) eqn:Ek; cbn [fm fe].
    + assert (k = 2 ^ 53) by lia. subst k. rewrite H in Hs.
      assert (HW2 : 2 <= W) by (unfold S in Hs; nia).
      assert (Hd1 : 1 <= d).
      { destruct (Z.eq_dec d 0) as [Hd0|]; [|lia]. unfold W in HW2. rewrite Hd0 in HW2. cbn in HW2. lia. }
      split; [lia|]. split; [lia|].
      replace (- (- (52 + d) + 1)) with (51 + d) by lia.
      assert (E2 : 2 * 2 ^ (51 + d) = 2 ^ 52 * W).
      { unfold W. replace (51 + d) with (51 + d)%Z by lia. rewrite Z.pow_add_r by lia.
        change (2 ^ 52) with (2 * 2 ^ 51). ring. }
      unfold S in Hs. nia.
    + split; [lia|]. split; [lia|]. rewrite Z.opp_involutive. rewrite Z.pow_add_r by lia. fold W.
      unfold S in Hs. nia.
  - (* e = lp - lq - 53 *)
    replace (lp - lq - 53) with (- (53 + d)) by (unfold d; lia).
    unfold rne_scaled. replace (0 <=? - (53 + d)) with false by lia. rewrite Z.opp_involutive.
    rewrite Z.pow_add_r by lia. fold W.
    set (S := m * (2 ^ 53 * W)). pose proof (rne_div_spec S n ltac:(unfold S; nia) ltac:(lia)) as Hs.
    set (k := rne_div S n) in *.
    assert (HS : 2 ^ 52 * n <= S < 2 ^ 53 * n) by (unfold S; nia).
    assert (Hk : 2 ^ 52 <= k <= 2 ^ 53) by nia.
    destruct (k =? 2 ^ 53) eqn:Ek; cbn [fm fe].
    + assert (k = 2 ^ 53) by lia. subst k. rewrite H in Hs.
      split; [lia|]. split; [lia|].
      replace (- (- (53 + d) + 1)) with (52 + d) by lia. rewrite Z.pow_add_r by lia. fold W.
      unfold S in Hs. nia.
    + split; [lia|]. split; [lia|]. rewrite Z.opp_involutive. rewrite Z.pow_add_r by lia. fold W.
      unfold S in Hs. nia.
Qed.

Lemma share_bound_core m n c : 1 <= m <= n -> 0 < c < 2 ^ 52 ->
  let x := Z.of_N (f53_trunc (f53_mul (rne53 c 1) (rne53 m n))) in
  c * m - 2 * n < n * x /\ n * x < c * m + n.
Proof.
  intros Hmn Hc. cbv zeta.
  destruct (rne53_frac m n Hmn) as (HF & HE & Hrho).
  set (F := fm (rne53 m n)) in *. set (E := fe (rne53 m n)) in *. set (T := - E) in *.
  assert (Hf : rne53 m n = {| fm := F; fe := E |}) by (unfold F, E; destruct (rne53 m n); reflexivity).
  rewrite Hf.
  assert (Hc53 : 0 < c < 2 ^ 53) by lia.
  rewrite (rne53_exact _ Hc53). pose proof (rne53_exact_mant _ Hc53) as Hmant.
  set (lN := Z.log2 c) in *. set (s := 52 - lN) in *.
  assert (HlN : 0 <= lN) by apply Z.log2_nonneg.
  assert (Hs : 1 <= s) by (assert (lN < 52); [apply Z.log2_lt_pow2; lia|unfold s; lia]).
  set (C := c * 2 ^ s) in *.
  unfold f53_mul. cbn [fm fe]. set (Q := C * F).
  assert (HQ : 2 ^ 104 <= Q < 2 ^ 106).
  { unfold Q. split.
    - change (2 ^ 104) with (2 ^ 52 * 2 ^ 52). apply Z.mul_le_mono_nonneg; lia.
    - change (2 ^ 106) with (2 ^ 53 * 2 ^ 53). apply Z.mul_lt_mono_nonneg; lia. }
  assert (Hlp : exists lp, (lp = 104 \/ lp = 105) /\ 2 ^ lp <= Q < 2 ^ (lp + 1)).
  { destruct (Z_lt_le_dec Q (2 ^ 105)); [exists 104|exists 105]; split; auto; cbn; lia. }
  destruct Hlp as [lp [Hlp HQlp]].
  destruct (rne53_big Q lp Hlp HQlp) as (HV & Hfe & Hfm). cbv zeta in HV, Hfe, Hfm.
  set (r := rne53 Q 1) in *. replace (fm r =? 0) with false by lia. cbn [fm fe].
  replace (fe r + (lN - 52) + E) with (fe r - (s + T)) by (unfold s, T; lia).
  rewrite f53_trunc_div by lia. rewrite HV.
  set (D := 2 ^ (lp - 52)) in *. set (k := rne_div Q D) in *.
  assert (HD : 0 < D <= 2 ^ 53) by (unfold D; destruct Hlp; subst lp; cbn; lia).
  pose proof (rne_div_spec Q D ltac:(lia) ltac:(lia)) as Hspec. fold k in Hspec.
  set (V := k * D) in *. set (G := 2 ^ (s + T)).
  assert (HG : G = 2 ^ s * 2 ^ T) by (unfold G; apply Z.pow_add_r; unfold T; lia).
  assert (H2s : 2 <= 2 ^ s).
  { change 2 with (2 ^ 1) at 1. apply Z.pow_le_mono_r; lia. }
  assert (H2T : 2 ^ 52 <= 2 ^ T) by (apply Z.pow_le_mono_r; unfold T; lia).
  assert (HG53 : 2 ^ 53 <= G).
  { rewrite HG. change (2 ^ 53) with (2 * 2 ^ 52). apply Z.mul_le_mono_nonneg; lia. }
  (* n*Q = c*m*G + C*rho *)
  set (rho := F * n - m * 2 ^ T) in *.
  assert (HnQ : n * Q = c * m * G + C * rho) by (unfold Q, rho, C; rewrite HG; ring).
  assert (HCrho : 2 * Z.abs (C * rho) < 2 ^ 53 * n).
  { rewrite Z.abs_mul. rewrite (Z.abs_eq C) by lia.
    assert (C * (2 * Z.abs rho) <= C * n) by (apply Z.mul_le_mono_nonneg_l; lia).
    assert (C * n < 2 ^ 53 * n) by (apply Z.mul_lt_mono_pos_r; lia). lia. }
  assert (HnV : c * m * G - n * G < n * V /\ n * V < c * m * G + n * G).
  { assert (A1 : n * (2 * V) <= n * (2 * Q + D)) by (apply Z.mul_le_mono_nonneg_l; unfold V; lia).
    assert (A2 : n * (2 * Q - D) <= n * (2 * V)) by (apply Z.mul_le_mono_nonneg_l; unfold V; lia).
    assert (A3 : n * D <= n * 2 ^ 53) by (apply Z.mul_le_mono_nonneg_l; lia).
    assert (A4 : n * 2 ^ 53 <= n * G) by (apply Z.mul_le_mono_nonneg_l; lia).
    lia. }
  assert (HG0 : 0 < G) by lia.
  pose proof (Z.div_mod V G ltac:(lia)) as Hdm. pose proof (Z.mod_pos_bound V G HG0) as Hmod.
  set (x := V / G) in *.
  assert (B1 : n * (G * x) <= n * V) by (apply Z.mul_le_mono_nonneg_l; lia).
  assert (B2 : n * V < n * (G * x) + n * G).
  { assert (n * V < n * (G * x + G)) by (apply Z.mul_lt_mono_pos_l; lia). lia. }
  split.
  - apply (Z.mul_lt_mono_pos_l G); [lia|]. lia.
  - apply (Z.mul_lt_mono_pos_l G); [lia|]. lia.
Qed.

(* the same in terms of samples_incr and the floor of the exact share: off by at most one *)
Theorem share_bound : forall (n m : Z) (c : N), 1 <= m <= n -> (c < 2 ^ 52)%N ->
  let x := Z.of_N (samples_incr c m n) in
  Z.of_N c * m - 2 * n < n * x < Z.of_N c * m + n /\
  Z.of_N c * m / n - 1 <= x <= Z.of_N c * m / n + 1.
Proof.
  intros n m c Hmn Hc. cbv zeta.
  destruct (N.eq_dec c 0) as [->|Hc0].
  { rewrite samples_incr_zero. change (Z.of_N 0) with 0. rewrite Z.mul_0_l, Z.div_0_l by lia. lia. }
  pose proof (share_bound_core m n (Z.of_N c) Hmn ltac:(lia)) as [H1 H2]. cbv zeta in H1, H2.
  unfold samples_incr, f53_of_N, f53_of_rat.
  set (x := Z.of_N (f53_trunc (f53_mul (rne53 (Z.of_N c) 1) (rne53 m n)))) in *.
  split; [lia|].
  pose proof (Z.div_mod (Z.of_N c * m) n ltac:(lia)) as Hd. pose proof (Z.mod_pos_bound (Z.of_N c * m) n ltac:(lia)) as Hr.
  set (q := Z.of_N c * m / n) in *. split; nia.
Qed.

(* the bound is attained from below: 10 slots, 90 samples, 7 slots inside: 62 = floor(63) - 1 *)
Example share_bound_tight_below : samples_incr 90 7 10 = 62%N /\ 90 * 7 / 10 = 63.
Proof. split; vm_compute; reflexivity. Qed.
