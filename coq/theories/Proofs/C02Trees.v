(* C02Trees.v — the lifting lemma instantiated for the trees cache.
   Objects are profile trees; valid = well-formed (children sorted by name) and total >= self + children (true of every
   tree built by insert / merge / decode / floor-scaling, C09).  The serialized form is abstracted by what it decodes
   to: by tree-b's tree_reload_below_cap (Proofs/TreeCodecProofs.v) the bytes Serialize writes for a tree below the
   node cap decode — against the dictionary at that time or any later, grown one — to t_reload t = retotal (prune 0 t).
   Equivalence: seq = "same self value on every stack".  (With teq = "same self and total" the round trip holds for
   exact trees only; floor-scaled per-bucket trees are not exact: known finding scaled-totals-reloaded.)
   Mutations are what storage.Put does to a cached tree: merge another valid tree into it. *)
From Coq Require Import List NArith Bool RelationClasses.
From Pyro Require Import Model.Base Model.Tree Model.TreeCodec Proofs.TreeProofs Proofs.TreeCodecProofs Proofs.TreeReloadProofs.
From Pyro Require Import Model.Lfu Model.Cache Proofs.CacheProofs Proofs.C02Lift.
Import ListNotations.

Definition tvalid (t : tnode) : Prop := t_wfb t = true /\ t_subb t = true.

Global Instance seq_equiv : Equivalence seq.
Proof. split; [exact seq_refl | exact seq_sym | exact seq_trans]. Qed.

Lemma tvalid_reload : forall t, tvalid t -> tvalid (t_reload t).
Proof.
  intros t [W S]. split; [apply reload_wf; exact W|].
  unfold t_reload. apply t_exact_sub. apply t_retotal_exact.
Qed.

Lemma tvalid_empty : tvalid t_empty.
Proof. split; reflexivity. Qed.

Lemma tvalid_merge : forall a c, tvalid a -> tvalid c -> tvalid (t_merge a c).
Proof. intros a c [W1 S1] [W2 S2]. split; [apply t_merge_wfb; assumption | apply t_merge_sub; assumption]. Qed.

Section Trees.
Context {K : Type} (keq : forall a b : K, {a = b} + {a <> b}).

Definition tr_dflt (k : K) : tnode := t_empty.
Definition tr_enc (k : K) (t : tnode) : tnode := t_reload t.
Definition tr_dec (k : K) (d : tnode) : tnode := d.

Definition tree_op (o : op (K:=K) (V:=tnode)) : Prop :=
  match o with
  | OPut _ t => tvalid t
  | OMutate _ f => exists c, tvalid c /\ forall v, f v = t_merge v c
  | _ => True
  end.

Lemma tree_op_valid : forall ops, Forall tree_op ops -> Forall (valid_op tvalid seq) ops.
Proof.
  intros ops H. eapply Forall_impl; [|exact H]. intros o Ho. destruct o; cbn in *; auto.
  destruct Ho as (c & Hc & Hf). split.
  - intros a Ha. rewrite Hf. apply tvalid_merge; assumption.
  - intros a b [Wa _] [Wb _] E. rewrite !Hf. destruct Hc as [Wc _].
    apply merge_seq; auto. apply seq_refl.
Qed.

Theorem trees_transparent_self : forall cops,
  forallb (is_sync (K:=K) (V:=tnode)) cops = true ->
  Forall tree_op (lower cops) ->
  Forall2 seq (rets (fst (run keq tr_dflt tr_enc tr_dec c_empty (lower cops))))
              (rets (fst (run keq tr_dflt tr_enc tr_dec c_empty (lower (filter (fun o => negb (is_maint o)) cops))))).
Proof.
  intros cops S H.
  apply (cache_transparent_valid keq tr_dflt tr_enc tr_dec (Pv := tvalid) (Req := seq)); auto.
  - intros k. apply tvalid_empty.
  - intros k v Hv. apply tvalid_reload. exact Hv.
  - intros k v [_ Hs]. unfold tr_dec, tr_enc. apply reload_seq. exact Hs.
  - apply tree_op_valid. exact H.
Qed.

End Trees.

(* the hypotheses are satisfiable: a floor-scaled (inexact) tree is put, another is merged into it, everything is
   evicted and the store restarted; the reads agree on every self value although the totals differ *)
Definition wt_a : tnode := TNode [] 0 3 [TNode [97] 1 1 []; TNode [109] 0 1 [TNode [109] 1 1 []]].
Definition wt_b : tnode := TNode [] 0 2 [TNode [97] 2 2 []].
Definition wt_hist : list (cop (K:=N) (V:=tnode)) :=
  [CPut 0%N wt_a; CEvict 1 1 [0%N]; CMutate 0%N (fun v => t_merge v wt_b); CFlushReopen; CRead 0%N].

Lemma trees_transparent_nonvacuous :
  forallb (is_sync (K:=N) (V:=tnode)) wt_hist = true /\ Forall tree_op (lower wt_hist) /\
  t_exactb wt_a = false /\
  map t_total (rets (fst (run N.eq_dec tr_dflt tr_enc tr_dec c_empty (lower wt_hist)))) = [2; 4]%N /\
  map t_total (rets (fst (run N.eq_dec tr_dflt tr_enc tr_dec c_empty (lower (filter (fun o => negb (is_maint o)) wt_hist))))) = [3; 5]%N.
Proof.
  split; [reflexivity|]. split; [|split; [reflexivity|split; vm_compute; reflexivity]].
  unfold wt_hist. cbn [lower flat_map lower1 app repeat length].
  repeat constructor; cbn; auto; try (split; reflexivity).
  exists wt_b. split; [split; reflexivity | reflexivity].
Qed.
