(* IndexSumProofs.v — what a query returns is the sum of the live uploads of the matching series, each once
   (Index.ix_get = Index.spec_get on every history). *)
From Pyro Require Import Model.Base Model.Key Model.Dimension Model.Labels Model.Index.
From Pyro Require Import Proofs.BcmpProofs Proofs.KeyProofs Proofs.DimensionProofs Proofs.IndexProofs Proofs.ProfileProofs.
From Coq Require Import Permutation.

Definition upload := (labels * bytes * N)%type.
Definition series_of (x : upload) : labels := fst (fst x).
Definition add_of (x : upload) : bytes * N := (snd (fst x), snd x).
Definition of_series (K : labels) (x : upload) : bool := labels_eqb (series_of x) K.
Definition adds_of (K : labels) (LP : list upload) : adds := map add_of (filter (of_series K) LP).

(* ---------- the segment cache ---------- *)
Lemma seg_get_set : forall k k' p m, seg_get k (seg_set k' p m) = if beqb k k' then p else seg_get k m.
Proof.
  induction m as [|[k0 p0] m IH]; cbn.
  - destruct (beqb k k'); reflexivity.
  - destruct (beqb k' k0) eqn:E; cbn.
    + apply beqb_true in E. subst. destruct (beqb k k0); reflexivity.
    + rewrite IH. destruct (beqb k k0) eqn:E1; auto. destruct (beqb k k') eqn:E2; auto.
      apply beqb_true in E1. apply beqb_true in E2. subst. rewrite beqb_refl in E. discriminate.
Qed.

Lemma seg_get_del : forall k k' m, seg_get k (seg_del k' m) = if beqb k k' then [] else seg_get k m.
Proof.
  induction m as [|[k0 p0] m IH]; cbn.
  - destruct (beqb k k'); reflexivity.
  - destruct (beqb k' k0) eqn:E; cbn.
    + rewrite IH. apply beqb_true in E. subst. destruct (beqb k k0); reflexivity.
    + rewrite IH. destruct (beqb k k0) eqn:E1; auto. destruct (beqb k k') eqn:E2; auto.
      apply beqb_true in E1. apply beqb_true in E2. subst. rewrite beqb_refl in E. discriminate.
Qed.

Lemma seg_get_notmem : forall k m, seg_mem k m = false -> seg_get k m = [].
Proof.
  unfold seg_mem. induction m as [|[k0 p0] m IH]; cbn; auto. intros H.
  apply orb_false_iff in H. destruct H as [H1 H2]. rewrite H1. auto.
Qed.

Lemma fold_delete_segs : forall r st,
  ix_segs (fold_left (fun st sk => delete_series (parse sk) st) r st)
  = fold_left (fun m sk => seg_del (normalized (parse sk)) m) r (ix_segs st).
Proof. induction r as [|x r IH]; intros st; cbn; auto. rewrite IH. reflexivity. Qed.

Lemma seg_get_fold_del : forall r k m, (forall x, In x r -> normalized (parse x) = x) ->
  seg_get k (fold_left (fun m sk => seg_del (normalized (parse sk)) m) r m)
  = if existsb (beqb k) r then [] else seg_get k m.
Proof.
  induction r as [|x r IH]; intros k m Hn; cbn; auto.
  rewrite IH by (intros y Hy; apply Hn; right; exact Hy).
  rewrite (Hn x (or_introl eq_refl)). rewrite seg_get_del.
  destruct (beqb k x); cbn; destruct (existsb (beqb k) r); reflexivity.
Qed.

(* ---------- uploads of one series ---------- *)
Lemma adds_of_app : forall K A B, adds_of K (A ++ B) = adds_of K A ++ adds_of K B.
Proof. intros. unfold adds_of. rewrite filter_app, map_app. reflexivity. Qed.

Lemma filter_filter_same : forall A (p q : A -> bool) l, (forall x, In x l -> p x = true -> q x = true) ->
  filter p (filter q l) = filter p l.
Proof.
  induction l as [|x l IH]; intros H; cbn; auto.
  assert (H' : forall y, In y l -> p y = true -> q y = true) by (intros y Hy; apply H; right; exact Hy).
  destruct (q x) eqn:Eq; cbn.
  - destruct (p x); rewrite IH; auto.
  - destruct (p x) eqn:Ep; [rewrite (H x (or_introl eq_refl) Ep) in Eq; discriminate|auto].
Qed.

Lemma filter_none : forall A (p : A -> bool) l, (forall x, In x l -> p x = false) -> filter p l = [].
Proof.
  induction l as [|x l IH]; intros H; cbn; auto. rewrite (H x (or_introl eq_refl)). apply IH.
  intros y Hy. apply H. right. exact Hy.
Qed.

(* ---------- the invariant over histories ---------- *)
Record Inv2 (st : index) (L : list labels) (LP : list upload) : Prop := {
  inv2_inv : Inv st L;
  inv2_lp : forall x, In x LP -> In (series_of x) L;
  inv2_seg : forall K, key_ok K -> R (seg_get (normalized K) (ix_segs st)) (adds_of K LP)
}.

Lemma Inv2_empty : Inv2 ix_empty [] [].
Proof. constructor; [apply Inv_empty|intros x []|intros K _; cbn; apply R_nil]. Qed.

Lemma live_put_In : forall L K s c K', In K' (live_step L (IPut K s c)) <-> In K' L \/ K' = K.
Proof.
  intros. cbn. destruct (existsb (labels_eqb K) L) eqn:E.
  - apply existsb_exists in E. destruct E as [K0 [H0 E0]]. apply labels_eqb_true in E0. subst K0.
    split; [auto|]. intros [H | ->]; auto.
  - rewrite in_app_iff. cbn. intuition.
Qed.

Lemma put_inv2 : forall st L LP K s c, Inv2 st L LP -> key_ok K ->
  Inv2 (ix_put K s c st) (live_step L (IPut K s c)) (lp_step LP (IPut K s c)).
Proof.
  intros st L LP K s c [HI HLP HS] HK. constructor.
  - apply put_inv; auto.
  - intros x Hx. cbn [lp_step] in Hx. apply in_app_iff in Hx. apply live_put_In.
    destruct Hx as [Hx|[<-|[]]]; [left; auto|right; reflexivity].
  - intros K' HK'. cbn [lp_step ix_put ix_segs]. rewrite adds_of_app, seg_get_set.
    destruct (beqb (normalized K') (normalized K)) eqn:E.
    + apply beqb_true in E. apply norm_inj in E; auto. subst K'.
      unfold adds_of at 2. cbn [filter]. unfold of_series at 1. cbn [series_of fst].
      rewrite (proj2 (labels_eqb_true K K) eq_refl). cbn [map add_of fst snd].
      apply R_add. apply HS. exact HK.
    + unfold adds_of at 2. cbn [filter]. unfold of_series at 1. cbn [series_of fst].
      destruct (labels_eqb K K') eqn:E2.
      * apply labels_eqb_true in E2. subst K'. rewrite beqb_refl in E. discriminate.
      * cbn [map]. rewrite app_nil_r. apply HS. exact HK'.
Qed.

Lemma delete_inv2 : forall st L LP Q, Inv2 st L LP -> key_ok Q ->
  Inv2 (ix_delete Q st) (live_step L (IDelete Q)) (lp_step LP (IDelete Q)).
Proof.
  intros st L LP Q [HI HLP HS] HQ. constructor.
  - apply delete_inv; auto.
  - intros x Hx. cbn [lp_step] in Hx. apply filter_In in Hx. destruct Hx as [Hx Hn].
    cbn [live_step]. apply filter_In. split; auto.
  - intros K HK. unfold ix_delete.
    destruct (select_spec st L Q HI HQ) as [r [E [S M]]]. rewrite E.
    pose proof (inv_ok _ _ HI) as A. rewrite Forall_forall in A.
    assert (Hnp : forall x, In x r -> normalized (parse x) = x).
    { intros x Hx. apply M in Hx. destruct Hx as [K0 [H0 [-> _]]]. rewrite key_ok_fix; auto. }
    rewrite fold_delete_segs, seg_get_fold_del by exact Hnp.
    cbn [lp_step].
    destruct (sub_labels Q K) eqn:Es.
    + (* every upload of K is gone *)
      assert (Hnil : adds_of K (filter (fun x => negb (sub_labels Q (fst (fst x)))) LP) = []).
      { unfold adds_of. rewrite filter_none; [reflexivity|]. intros x Hx. apply filter_In in Hx.
        destruct Hx as [_ Hn]. unfold of_series. destruct (labels_eqb (series_of x) K) eqn:El; auto.
        apply labels_eqb_true in El. unfold series_of in El. rewrite El, Es in Hn. discriminate. }
      rewrite Hnil. destruct (existsb (beqb (normalized K)) r) eqn:Er; [apply R_nil|].
      rewrite seg_get_notmem; [apply R_nil|].
      destruct (seg_mem (normalized K) (ix_segs st)) eqn:Em; auto.
      apply (inv_segs _ _ HI) in Em. destruct Em as [K0 [H0 En]].
      apply norm_inj in En; auto. subst K0.
      assert (Hin : In (normalized K) r) by (apply M; exists K; auto).
      assert (existsb (beqb (normalized K)) r = true) by (apply existsb_exists; exists (normalized K); split; auto; apply beqb_refl).
      congruence.
    + (* K is not matched: untouched *)
      assert (Hnr : existsb (beqb (normalized K)) r = false).
      { apply Bool.not_true_iff_false. intros Hex. apply existsb_exists in Hex. destruct Hex as [x [Hx Ex]].
        apply beqb_true in Ex. subst x. apply M in Hx. destruct Hx as [K0 [H0 [En Hs0]]].
        apply norm_inj in En; auto. subst K0. congruence. }
      rewrite Hnr. unfold adds_of. rewrite filter_filter_same; [apply HS; exact HK|].
      intros x _ Hp. unfold of_series in Hp. apply labels_eqb_true in Hp. unfold series_of in Hp.
      rewrite Hp, Es. reflexivity.
Qed.

Lemma drop_inv2 : forall st L LP K, Inv2 st L LP -> key_ok K ->
  Inv2 (delete_series K st) (live_step L (IDrop K)) (lp_step LP (IDrop K)).
Proof.
  intros st L LP K [HI HLP HS] HK. constructor.
  - apply delete_series_inv; auto.
  - intros x Hx. cbn [lp_step] in Hx. apply filter_In in Hx. destruct Hx as [Hx Hn].
    cbn [live_step]. apply filter_In. split; auto.
  - intros K' HK'. cbn [delete_series ix_segs lp_step]. rewrite seg_get_del.
    destruct (beqb (normalized K') (normalized K)) eqn:E.
    + apply beqb_true in E. apply norm_inj in E; auto. subst K'.
      unfold adds_of. rewrite filter_none; [apply R_nil|]. intros x Hx. apply filter_In in Hx.
      destruct Hx as [_ Hn]. unfold of_series, series_of. apply negb_true_iff in Hn. exact Hn.
    + unfold adds_of. rewrite filter_filter_same; [apply HS; exact HK'|].
      intros x _ Hp. unfold of_series in Hp. apply labels_eqb_true in Hp. unfold series_of in Hp.
      rewrite Hp. apply negb_true_iff. destruct (labels_eqb K' K) eqn:E2; auto.
      apply labels_eqb_true in E2. rewrite E2 in E. rewrite beqb_refl in E. discriminate.
Qed.

Lemma run_inv2 : forall ops st L LP, Inv2 st L LP -> Forall op_ok ops ->
  Inv2 (fold_left ix_step ops st) (fold_left live_step ops L) (fold_left lp_step ops LP).
Proof.
  induction ops as [|o ops IH]; intros st L LP HI Hok; cbn; auto.
  inversion Hok as [|x y Ho Hok']; subst. apply IH; auto.
  destruct o as [K s c|Q|K]; cbn [ix_step]; [apply put_inv2|apply delete_inv2|apply drop_inv2]; auto.
Qed.

(* ---------- regrouping the live uploads by series ---------- *)
Lemma group_perm : forall (ks : list labels) (LP : list upload), NoDup ks ->
  Permutation (flat_map (fun K => filter (of_series K) LP) ks)
              (filter (fun x => existsb (labels_eqb (series_of x)) ks) LP).
Proof.
  induction ks as [|K ks IH]; intros LP Hnd; cbn [flat_map existsb].
  - rewrite filter_none; auto.
  - inversion Hnd; subst.
    eapply Permutation_trans; [apply Permutation_app_head; apply IH; auto|].
    apply (filter_disjoint_perm _ LP (of_series K) (fun x => existsb (labels_eqb (series_of x)) ks)).
    intros x _ Hp Hq. unfold of_series in Hp. apply labels_eqb_true in Hp.
    apply existsb_exists in Hq. destruct Hq as [K' [HK' E']]. apply labels_eqb_true in E'. congruence.
Qed.

Lemma NoDup_map_inj_on : forall A B (f : A -> B) l,
  (forall x y, In x l -> In y l -> f x = f y -> x = y) -> NoDup l -> NoDup (map f l).
Proof.
  induction l as [|a l IH]; intros Hinj Hnd; cbn; [constructor|]. inversion Hnd; subst. constructor.
  - intros Hin. apply in_map_iff in Hin. destruct Hin as [y [Ey Hy]].
    assert (y = a) by (apply Hinj; cbn; auto). subst. contradiction.
  - apply IH; auto. intros x y Hx Hy. apply Hinj; cbn; auto.
Qed.

Lemma spec_fold : forall Q (l : list upload) p,
  fold_left (fun p x => match x with (K, s, c) => if sub_labels Q K then pr_add s c p else p end) l p
  = fold_left (fun p sc => pr_add (fst sc) (snd sc) p)
              (map add_of (filter (fun x => sub_labels Q (series_of x)) l)) p.
Proof.
  induction l as [|[[K s] c] l IH]; intros p; cbn [fold_left filter]; auto.
  unfold series_of at 1. cbn [fst].
  destruct (sub_labels Q K); cbn [map fold_left add_of fst snd]; apply IH.
Qed.

Lemma merge_fold_R : forall (g : bytes -> adds) segs r acc A,
  (forall k, In k r -> R (seg_get k segs) (g k)) -> R acc A ->
  R (fold_left (fun acc k => pr_merge acc (seg_get k segs)) r acc) (A ++ flat_map g r).
Proof.
  induction r as [|k r IH]; intros acc A Hk Ha; cbn [fold_left flat_map].
  - rewrite app_nil_r. exact Ha.
  - rewrite app_assoc. apply IH; [intros k' Hk'; apply Hk; right; exact Hk'|].
    apply R_merge; auto. apply Hk. left. reflexivity.
Qed.

(* C07 at the level of uploads: a query returns the sum of the live uploads of the matching series, each once *)
Theorem get_exact : forall ops Q, Forall op_ok ops -> key_ok Q ->
  ix_get Q (ix_run ops) = Some (spec_get Q ops).
Proof.
  intros ops Q Hops HQ.
  pose proof (run_inv2 ops ix_empty [] [] Inv2_empty Hops) as [HI HLP HS].
  fold (ix_run ops) in *. fold (live ops) in *. fold (live_puts ops) in *.
  destruct (selector_exact ops Q Hops HQ) as [r [E [Hnd M]]].
  unfold ix_get. rewrite E. f_equal.
  pose proof (inv_ok _ _ HI) as A. rewrite Forall_forall in A.
  set (LP := live_puts ops) in *. set (st := ix_run ops) in *.
  assert (Hr : forall k, In k r -> exists K, In K (live ops) /\ sub_labels Q K = true /\ k = normalized K /\ parse k = K).
  { intros k Hk. apply M in Hk. destruct Hk as [K [H1 [H2 ->]]]. exists K. repeat split; auto. apply key_ok_fix; auto. }
  (* left: the merged segments are the profile of the uploads grouped by series *)
  assert (HL : R (fold_left (fun acc k => pr_merge acc (seg_get k (ix_segs st))) r [])
                 ([] ++ flat_map (fun k => adds_of (parse k) LP) r)).
  { apply merge_fold_R; [|apply R_nil]. intros k Hk. destruct (Hr k Hk) as [K [H1 [H2 [-> H4]]]].
    rewrite H4. apply HS. auto. }
  cbn [app] in HL.
  (* right: the specification is the profile of the matching live uploads *)
  unfold spec_get. rewrite spec_fold. fold LP.
  set (X := map add_of (filter (fun x => sub_labels Q (series_of x)) LP)).
  change (fold_left (fun p sc => pr_add (fst sc) (snd sc) p) X []) with (pr_of X).
  apply (R_unique _ _ X); [|apply R_pr_of].
  eapply R_perm; [|exact HL].
  (* the grouping is a permutation *)
  assert (Hfm : flat_map (fun k => adds_of (parse k) LP) r
                = map add_of (flat_map (fun K => filter (of_series K) LP) (map parse r))).
  { clear. induction r as [|k r IH]; cbn; auto. rewrite map_app, IH. reflexivity. }
  rewrite Hfm. unfold X. apply Permutation_map.
  eapply Permutation_trans; [apply group_perm|].
  - apply NoDup_map_inj_on; auto. intros x y Hx Hy Exy.
    destruct (Hr x Hx) as [K1 [_ [_ [-> P1]]]]. destruct (Hr y Hy) as [K2 [_ [_ [-> P2]]]]. congruence.
  - assert (Hext : forall x, In x LP ->
        existsb (labels_eqb (series_of x)) (map parse r) = sub_labels Q (series_of x)).
    { intros x Hx. pose proof (HLP x Hx) as HxL.
      destruct (sub_labels Q (series_of x)) eqn:Es.
      - apply existsb_exists. exists (series_of x). split; [|apply labels_eqb_true; reflexivity].
        apply in_map_iff. exists (normalized (series_of x)). split; [apply key_ok_fix; auto|].
        apply M. exists (series_of x). auto.
      - apply Bool.not_true_iff_false. intros Hex. apply existsb_exists in Hex.
        destruct Hex as [K [HK EK]]. apply labels_eqb_true in EK. subst K.
        apply in_map_iff in HK. destruct HK as [k [Pk Hk]]. destruct (Hr k Hk) as [K1 [_ [Hs1 [_ P1]]]].
        rewrite P1 in Pk. subst K1. congruence. }
    match goal with |- Permutation ?a ?b => replace a with b; [apply Permutation_refl|symmetry; apply filter_ext_in; exact Hext] end.
Qed.
