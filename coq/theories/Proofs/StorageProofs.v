(* StorageProofs.v — lemmas about Model/Storage.v (plain-map storage): the tree store mirrors the exact
   bucket store of Model/Segment.v stack by stack (C01), metadata, delete/retention (C11). *)
From Pyro Require Import Model.Base Model.Tree Model.Segment Model.Timeline Model.Storage
  Proofs.TreeProofs Proofs.SegmentProofs Proofs.SegStruct Proofs.SegGet Proofs.SegStore Proofs.SegInv Proofs.SegRead.
From Coq Require Import ZifyN ZifyNat ZifyBool Lia.
Local Open Scope Z_scope.

Lemma st_get_readonly : forall rt sel f u st, fst (st_step rt st (OpGet sel f u)) = st.
Proof. reflexivity. Qed.

(* ------------------------------------------------------------------------------------------ *)
(* keys of the tree store                                                                      *)

Lemma tkey_eqb_true x y : tkey_eqb x y = true <-> x = y.
Proof.
  destruct x as [[k1 l1] t1], y as [[k2 l2] t2]. unfold tkey_eqb.
  rewrite !andb_true_iff, beqb_true, Nat.eqb_eq, Z.eqb_eq. split.
  - intros [[-> ->] ->]. reflexivity.
  - intros [= -> -> ->]. auto.
Qed.

Lemma tkey_eqb_refl x : tkey_eqb x x = true.
Proof. apply tkey_eqb_true. reflexivity. Qed.

Lemma tkey_eqb_false x y : x <> y -> tkey_eqb x y = false.
Proof. intros H. destruct (tkey_eqb x y) eqn:E; [|reflexivity]. apply tkey_eqb_true in E. contradiction. Qed.

Lemma tree_lookup_store k v l k' :
  tree_lookup k' (tree_store k v l) = if tkey_eqb k' k then Some v else tree_lookup k' l.
Proof.
  induction l as [|[k0 t0] l IH]; cbn [tree_store tree_lookup].
  - destruct (tkey_eqb k' k); reflexivity.
  - destruct (tkey_eqb k k0) eqn:E.
    + apply tkey_eqb_true in E. subst k0. cbn [tree_lookup]. destruct (tkey_eqb k' k); reflexivity.
    + cbn [tree_lookup]. rewrite IH. destruct (tkey_eqb k' k0) eqn:E0; [|reflexivity].
      apply tkey_eqb_true in E0. subst k0. destruct (tkey_eqb k' k) eqn:E1; [|reflexivity].
      apply tkey_eqb_true in E1. subst k'. rewrite tkey_eqb_refl in E. discriminate.
Qed.

Lemma tree_get_store k v l k' :
  tree_get k' (tree_store k v l) = if tkey_eqb k' k then v else tree_get k' l.
Proof. unfold tree_get. rewrite tree_lookup_store. destruct (tkey_eqb k' k); reflexivity. Qed.

Lemma tree_lookup_remove k l k' :
  tree_lookup k' (tree_remove k l) = if tkey_eqb k k' then None else tree_lookup k' l.
Proof.
  unfold tree_remove. induction l as [|[k0 t0] l IH]; cbn [filter tree_lookup fst].
  - destruct (tkey_eqb k k'); reflexivity.
  - destruct (tkey_eqb k k0) eqn:E; cbn [negb].
    + rewrite IH. apply tkey_eqb_true in E. subst k0.
      destruct (tkey_eqb k k') eqn:E1; [reflexivity|].
      destruct (tkey_eqb k' k) eqn:E2; [|reflexivity]. apply tkey_eqb_true in E2. subst k'.
      rewrite tkey_eqb_refl in E1. discriminate.
    + cbn [tree_lookup]. rewrite IH. destruct (tkey_eqb k' k0) eqn:E0; [|reflexivity].
      apply tkey_eqb_true in E0. subst k0. rewrite E. reflexivity.
Qed.

(* every stored tree is well formed and has the root name of tree.New() *)
Definition TW (trees : list (tkey * tnode)) : Prop :=
  forall key tr, tree_lookup key trees = Some tr -> inW [] tr.

Lemma TW_get trees key : TW trees -> inW [] (tree_get key trees).
Proof.
  intros H. unfold tree_get. destruct (tree_lookup key trees) as [tr|] eqn:E; [eapply H; eauto|].
  split; reflexivity.
Qed.

Lemma TW_store trees k v : TW trees -> inW [] v -> TW (tree_store k v trees).
Proof.
  intros H Hv key tr. rewrite tree_lookup_store. destruct (tkey_eqb key k); [intros [= <-]; exact Hv|apply H].
Qed.

Lemma TW_remove trees k : TW trees -> TW (tree_remove k trees).
Proof. intros H key tr. rewrite tree_lookup_remove. destruct (tkey_eqb k key); [discriminate|apply H]. Qed.

Lemma inW_clone m d t : inW [] t -> inW [] (t_clone m d t).
Proof. intros [H1 H2]. split; [rewrite t_clone_wfb; exact H1|rewrite t_clone_name; exact H2]. Qed.

(* ------------------------------------------------------------------------------------------ *)
(* shape of the put callbacks: ratio m / (b - a) with m >= 0                                    *)

Definition cb_shape (a b : Z) (c : put_cb) : Prop := pc_d c = b - a /\ 0 <= pc_m c.

Lemma put_children_Forall (P : put_cb -> Prop) l a b smp ch :
  (forall c, Forall P (snd (s_put_node l a b smp c))) ->
  Forall P (concat (map snd (map (put_child l a b smp) ch))).
Proof.
  intros H. induction ch as [|o ch IH]; cbn [map concat]; [constructor|].
  apply Forall_app. split; [|exact IH]. destruct o as [c|]; cbn [put_child]; [|constructor].
  specialize (H c). destruct (s_put_node l a b smp c). exact H.
Qed.

Lemma put_node_shape : forall lvl a b smp n, Forall (cb_shape a b) (snd (s_put_node lvl a b smp n)).
Proof.
  induction lvl as [|l IH]; intros a b smp [t p s w ch].
  - rewrite put_node_unfold_0. cbv zeta. destruct (is_outside _); [constructor|]. cbn [snd].
    destruct (covers _ || _ || p); repeat constructor. apply ov_nonneg.
  - rewrite put_node_unfold_S. cbv zeta. destruct (is_outside _); [constructor|]. cbn [snd].
    apply Forall_app. split.
    + destruct (covers _ || _ || p); repeat constructor. apply ov_nonneg.
    + apply put_children_Forall. intros c. apply IH.
Qed.

Lemma s_put_shape a b smp s : Forall (cb_shape a b) (snd (s_put a b smp s)).
Proof.
  unfold s_put. destruct (s_root (s_grow a b s)) as [[lvl n]|]; [|constructor].
  pose proof (put_node_shape lvl a b smp n) as H. destruct (s_put_node lvl a b smp n). exact H.
Qed.

(* s_put only looks at the root of the segment; the metadata is carried along *)
Lemma s_grow_root a b s1 s2 : s_root s1 = s_root s2 -> s_root (s_grow a b s1) = s_root (s_grow a b s2).
Proof. intros H. unfold s_grow. rewrite H. destruct (s_root s2) as [[lvl n]|]; reflexivity. Qed.

Lemma s_grow_meta a b s : s_meta (s_grow a b s) = s_meta s.
Proof. unfold s_grow. destruct (s_root s) as [[lvl n]|]; reflexivity. Qed.

Lemma s_put_root a b smp s1 s2 : s_root s1 = s_root s2 ->
  s_root (fst (s_put a b smp s1)) = s_root (fst (s_put a b smp s2)) /\
  snd (s_put a b smp s1) = snd (s_put a b smp s2).
Proof.
  intros H. unfold s_put. rewrite (s_grow_root a b s1 s2 H).
  destruct (s_root (s_grow a b s2)) as [[lvl n]|] eqn:E.
  - destruct (s_put_node lvl a b smp n). split; reflexivity.
  - cbn [fst snd]. split; [|reflexivity]. rewrite E. apply (s_grow_root a b s1 s2) in H. rewrite H, E. reflexivity.
Qed.

Lemma s_put_meta a b smp s : s_meta (fst (s_put a b smp s)) = s_meta s.
Proof.
  unfold s_put. destruct (s_root (s_grow a b s)) as [[lvl n]|].
  - destruct (s_put_node lvl a b smp n). cbn [fst s_meta]. apply s_grow_meta.
  - cbn [fst]. apply s_grow_meta.
Qed.

(* ------------------------------------------------------------------------------------------ *)
(* S1. one series: the trees stored under the keys of series [k] mirror the exact store          *)

Lemma t_self_at_clone m d p t : t_self_at p (t_clone m d t) = (t_self_at p t * m / d)%N.
Proof.
  unfold t_self_at. rewrite t_clone_at. destruct (t_at p t) as [[s tot]|]; cbn [option_map scale2 fst]; [reflexivity|].
  rewrite N.mul_0_l. destruct d; reflexivity.
Qed.

Lemma t_self_at_empty p : t_self_at p t_empty = 0%N.
Proof. destruct p; reflexivity. Qed.

Section Mirror.
  Variable k : bytes.
  Variable p : list bytes.

  (* the tree store agrees with the bucket store E on the keys of series k *)
  Definition mirrors (trees : list (tkey * tnode)) (E : store) : Prop :=
    forall lvl t, Z.of_N (t_self_at p (tree_get (k, lvl, t) trees)) = E (lvl, t).

  Lemma addons_fold trees (addons : list (nat * Z)) : TW trees -> forall cl, inW [] cl ->
    let cl' := fold_left (fun cl a => t_merge cl (tree_get (k, fst a, snd a) trees)) addons cl in
    inW [] cl' /\
    Z.of_N (t_self_at p cl') =
      Z.of_N (t_self_at p cl) + sumZ (map (fun a => Z.of_N (t_self_at p (tree_get (k, fst a, snd a) trees))) addons).
  Proof.
    intros HT. induction addons as [|a addons IH]; intros cl Hcl; cbn zeta.
    - cbn [fold_left map sumZ fold_right]. split; [exact Hcl|lia].
    - cbn [fold_left map]. pose proof (TW_get trees (k, fst a, snd a) HT) as Ha.
      destruct (IH (t_merge cl (tree_get (k, fst a, snd a) trees)) (inW_merge _ _ _ Hcl Ha)) as [H1 H2].
      cbn zeta in H1, H2. split; [exact H1|]. rewrite H2.
      rewrite t_merge_self_at by (apply Hcl || apply Ha).
      change (sumZ (?x :: ?l)) with (x + sumZ l). lia.
  Qed.

  Variable prof : tnode.
  Variable a b beta : Z.
  Hypothesis Hab : a < b.
  Hypothesis Hprof : inW [] prof.
  Hypothesis Hbeta : Z.of_N (t_self_at p prof) = (b - a) * beta.

  Lemma clone_beta m : 0 <= m -> Z.of_N (t_self_at p (t_clone (Z.to_N m) (Z.to_N (b - a)) prof)) = m * beta.
  Proof.
    intros Hm. rewrite t_self_at_clone, N2Z.inj_div, N2Z.inj_mul, !Z2N.id, Hbeta by lia.
    replace ((b - a) * beta * m) with (beta * m * (b - a)) by lia. rewrite Z.div_mul by lia. lia.
  Qed.

  Lemma put_cb_apply_mirror trees E c : mirrors trees E -> TW trees -> cb_shape a b c ->
    mirrors (put_cb_apply k prof trees c) (apply_cb beta E c) /\ TW (put_cb_apply k prof trees c).
  Proof.
    intros HM HT [Hd Hm]. unfold put_cb_apply.
    set (clone := t_clone (Z.to_N (pc_m c)) (Z.to_N (pc_d c)) prof).
    assert (Hclone : inW [] clone) by (apply inW_clone, Hprof).
    destruct (addons_fold trees (pc_addons c) HT clone Hclone) as [Hw Hs]. cbn zeta in Hw, Hs.
    set (clone' := fold_left _ (pc_addons c) clone) in *.
    pose proof (TW_get trees (k, pc_lvl c, pc_t c) HT) as Hold.
    split.
    - intros lvl t. rewrite tree_get_store. unfold apply_cb, st_add, skey_eqb. cbn [fst snd].
      destruct (tkey_eqb (k, lvl, t) (k, pc_lvl c, pc_t c)) eqn:E1.
      + apply tkey_eqb_true in E1. injection E1 as -> ->. rewrite Nat.eqb_refl, Z.eqb_refl. cbn [andb].
        rewrite t_merge_self_at by (apply Hold || apply Hw). rewrite N2Z.inj_add, Hs, HM.
        unfold clone. rewrite Hd, clone_beta by exact Hm.
        replace (map E (pc_addons c)) with
          (map (fun a0 => Z.of_N (t_self_at p (tree_get (k, fst a0, snd a0) trees))) (pc_addons c)); [lia|].
        apply map_ext. intros [l0 t0]. cbn [fst snd]. apply HM.
      + replace (Nat.eqb (pc_lvl c) lvl && (pc_t c =? t)) with false; [apply HM|].
        symmetry. apply andb_false_iff. destruct (Nat.eqb_spec (pc_lvl c) lvl) as [Hl|Hl]; [|left; reflexivity].
        right. apply Z.eqb_neq. intros Ht. rewrite <- Hl, <- Ht, tkey_eqb_refl in E1. discriminate.
    - apply TW_store; [exact HT|]. apply inW_merge; assumption.
  Qed.

  Lemma put_cbs_mirror cbs : forall trees E, mirrors trees E -> TW trees -> Forall (cb_shape a b) cbs ->
    mirrors (fold_left (put_cb_apply k prof) cbs trees) (apply_cbs beta E cbs) /\
    TW (fold_left (put_cb_apply k prof) cbs trees).
  Proof.
    induction cbs as [|c cbs IH]; intros trees E HM HT Hs; [split; assumption|].
    inversion Hs as [|? ? Hc Hs']; subst. cbn [fold_left]. unfold apply_cbs. cbn [fold_left].
    destruct (put_cb_apply_mirror trees E c HM HT Hc) as [HM' HT']. apply IH; assumption.
  Qed.
End Mirror.

(* callbacks applied under another series key leave the trees of series k alone *)
Lemma put_cb_apply_other k k' prof trees c lvl t : k <> k' ->
  tree_get (k', lvl, t) (put_cb_apply k prof trees c) = tree_get (k', lvl, t) trees.
Proof.
  intros Hk. unfold put_cb_apply. rewrite tree_get_store, tkey_eqb_false; [reflexivity|]. congruence.
Qed.

Lemma put_cbs_other k k' prof cbs lvl t : k <> k' -> forall trees,
  tree_get (k', lvl, t) (fold_left (put_cb_apply k prof) cbs trees) = tree_get (k', lvl, t) trees.
Proof.
  intros Hk. induction cbs as [|c cbs IH]; intros trees; [reflexivity|]. cbn [fold_left].
  rewrite IH. apply put_cb_apply_other, Hk.
Qed.

(* ------------------------------------------------------------------------------------------ *)
(* the segment table                                                                            *)

Lemma seg_lookup_store k k0 s l :
  seg_lookup k (seg_store k0 s l) = if beqb (sid_key k) (sid_key k0) then Some s else seg_lookup k l.
Proof.
  induction l as [|[k1 s1] l IH]; cbn [seg_store seg_lookup]; unfold sid_eqb.
  - destruct (beqb (sid_key k) (sid_key k0)); reflexivity.
  - destruct (bcmp (sid_key k0) (sid_key k1)) eqn:E; cbn [seg_lookup]; unfold sid_eqb.
    + apply bcmp_eq in E. rewrite <- E. destruct (beqb (sid_key k) (sid_key k0)); reflexivity.
    + destruct (beqb (sid_key k) (sid_key k0)); reflexivity.
    + fold (sid_eqb k k1). unfold sid_eqb. rewrite IH.
      destruct (beqb (sid_key k) (sid_key k1)) eqn:E1; [|reflexivity].
      apply beqb_true in E1. rewrite E1. rewrite beqb_sym, (beqb_false_gt _ _ E). reflexivity.
Qed.

Definition root_of (k : sid) (st : st_state) : option (nat * snode) :=
  match seg_lookup k (st_segs st) with Some s => s_root s | None => None end.
Definition meta_of (k : sid) (st : st_state) : option meta :=
  match seg_lookup k (st_segs st) with Some s => Some (s_meta s) | None => None end.

(* the normalised write range of an upload, and st_put without its pattern-matching lets *)
Definition pi_ab (pi : put_input) : Z * Z := s_normalize_unix (pi_from pi, pi_until pi).
Definition pi_seg0 (pi : put_input) (st : st_state) : segment :=
  s_set_meta (pi_meta pi) (match seg_lookup (pi_sid pi) (st_segs st) with Some s => s | None => s_empty end).
Definition pi_res (pi : put_input) (st : st_state) : segment * list put_cb :=
  s_put (fst (pi_ab pi)) (snd (pi_ab pi)) (t_total (pi_tree pi)) (pi_seg0 pi st).

Lemma st_put_none pi st :
  st_put None pi st =
    ({| st_segs := seg_store (pi_sid pi) (fst (pi_res pi st)) (st_segs st);
        st_trees := fold_left (put_cb_apply (sid_key (pi_sid pi)) (pi_tree pi)) (snd (pi_res pi st)) (st_trees st) |}, true).
Proof.
  unfold st_put, pi_res, pi_seg0, pi_ab, s_put_unix.
  destruct (s_normalize_unix (pi_from pi, pi_until pi)) as [a b]. cbn [fst snd].
  destruct (s_put a b _ _) as [seg' cbs]. reflexivity.
Qed.

Definition st_after (pis : list put_input) : st_state :=
  fold_left (fun st pi => fst (st_put None pi st)) pis st_init.

Definition series_puts (kb : bytes) (pis : list put_input) : list put_input :=
  filter (fun pi => beqb (sid_key (pi_sid pi)) kb) pis.

(* the write of series history seen by the exact store for stack p: per-slot amount count/span *)
Definition pi_w (p : list bytes) (pi : put_input) : write :=
  {| w_a := fst (pi_ab pi); w_b := snd (pi_ab pi); w_smp := t_total (pi_tree pi);
     w_beta := Z.of_N (t_self_at p (pi_tree pi)) / (snd (pi_ab pi) - fst (pi_ab pi)) |}.
Definition ws (kb : bytes) (p : list bytes) (pis : list put_input) : list write := map (pi_w p) (series_puts kb pis).

(* an upload the exactness theorem speaks about: non-empty range, a tree as built by Insert, every
   count a multiple of the span *)
Definition good_put (pi : put_input) : Prop :=
  fst (pi_ab pi) < snd (pi_ab pi) /\ inW [] (pi_tree pi) /\
  forall p, Z.of_N (t_self_at p (pi_tree pi)) mod (snd (pi_ab pi) - fst (pi_ab pi)) = 0.

Lemma ws_snoc kb p pis pi :
  ws kb p (pis ++ [pi]) = if beqb (sid_key (pi_sid pi)) kb then ws kb p pis ++ [pi_w p pi] else ws kb p pis.
Proof.
  unfold ws, series_puts. rewrite filter_app, map_app. cbn [filter].
  destruct (beqb (sid_key (pi_sid pi)) kb); [reflexivity|apply app_nil_r].
Qed.

Lemma run_writes_snoc l w : run_writes (l ++ [w]) = put_step (run_writes l) w.
Proof. unfold run_writes. rewrite fold_left_app. reflexivity. Qed.

Lemma put_step_eq sE w :
  put_step sE w = (fst (s_put (w_a w) (w_b w) (w_smp w) (fst sE)),
                   apply_cbs (w_beta w) (snd sE) (snd (s_put (w_a w) (w_b w) (w_smp w) (fst sE)))).
Proof. unfold put_step. destruct (s_put _ _ _ _). reflexivity. Qed.

Section Inv.
  Variable p : list bytes.

  Definition Inv (pis : list put_input) (st : st_state) : Prop :=
    (forall k : sid, root_of k st = s_root (fst (run_writes (ws (sid_key k) p pis)))) /\
    (forall kb, mirrors kb p (st_trees st) (snd (run_writes (ws kb p pis)))) /\
    TW (st_trees st).

  Lemma Inv_init : Inv [] st_init.
  Proof.
    split; [|split].
    - intros k. reflexivity.
    - intros kb lvl t. cbn. unfold tree_get. cbn. rewrite t_self_at_empty. reflexivity.
    - intros key tr. discriminate.
  Qed.

  Lemma Inv_step pis st pi : Inv pis st -> good_put pi -> Inv (pis ++ [pi]) (fst (st_put None pi st)).
  Proof.
    intros (HR & HM & HT) (Hab & Hprof & Hdiv). rewrite st_put_none. cbn [fst].
    set (kb0 := sid_key (pi_sid pi)).
    (* the segment st_put works on has the root of the per-series history *)
    assert (Hroot0 : s_root (pi_seg0 pi st) = s_root (fst (run_writes (ws kb0 p pis)))).
    { unfold kb0. rewrite <- (HR (pi_sid pi)). unfold pi_seg0, root_of. destruct (seg_lookup (pi_sid pi) (st_segs st)); reflexivity. }
    destruct (s_put_root (fst (pi_ab pi)) (snd (pi_ab pi)) (t_total (pi_tree pi)) _ _ Hroot0) as [Hr1 Hr2].
    fold (pi_res pi st) in Hr1, Hr2.
    assert (Hstep : run_writes (ws kb0 p pis ++ [pi_w p pi]) =
              (fst (s_put (fst (pi_ab pi)) (snd (pi_ab pi)) (t_total (pi_tree pi)) (fst (run_writes (ws kb0 p pis)))),
               apply_cbs (w_beta (pi_w p pi)) (snd (run_writes (ws kb0 p pis))) (snd (pi_res pi st)))).
    { rewrite run_writes_snoc, put_step_eq. cbn [pi_w w_a w_b w_smp w_beta]. rewrite Hr2. reflexivity. }
    split; [|split].
    - intros k. unfold root_of. cbn [st_segs]. rewrite seg_lookup_store, ws_snoc. fold kb0.
      rewrite (beqb_sym (sid_key k) kb0).
      destruct (beqb kb0 (sid_key k)) eqn:E.
      + apply beqb_true in E. rewrite <- E, Hstep. cbn [fst]. exact Hr1.
      + apply HR.
    - intros kb. cbn [st_trees]. rewrite ws_snoc. fold kb0. destruct (beqb kb0 kb) eqn:E.
      + apply beqb_true in E. subst kb. rewrite Hstep. cbn [snd].
        apply (put_cbs_mirror kb0 p (pi_tree pi) (fst (pi_ab pi)) (snd (pi_ab pi))); try assumption.
        * cbn [pi_w w_beta]. specialize (Hdiv p).
          set (d := snd (pi_ab pi) - fst (pi_ab pi)) in *. pose proof (Z.div_mod (Z.of_N (t_self_at p (pi_tree pi))) d). lia.
        * apply HM.
        * apply s_put_shape.
      + intros lvl t. rewrite put_cbs_other; [apply HM|]. intros Hk. subst kb. rewrite beqb_refl in E. discriminate.
    - cbn [st_trees].
      destruct (put_cbs_mirror kb0 p (pi_tree pi) (fst (pi_ab pi)) (snd (pi_ab pi))
                  (Z.of_N (t_self_at p (pi_tree pi)) / (snd (pi_ab pi) - fst (pi_ab pi))) Hab Hprof
                  ltac:(specialize (Hdiv p); set (d := snd (pi_ab pi) - fst (pi_ab pi)) in *;
                        pose proof (Z.div_mod (Z.of_N (t_self_at p (pi_tree pi))) d); lia)
                  (snd (pi_res pi st)) (st_trees st) _ (HM kb0) HT (s_put_shape _ _ _ _)) as [_ H]. exact H.
  Qed.

  Lemma Inv_after pis : Forall good_put pis -> Inv pis (st_after pis).
  Proof.
    unfold st_after. induction pis as [|pi pis IH] using rev_ind; intros H; [apply Inv_init|].
    apply Forall_app in H. destruct H as [H1 H2]. inversion H2; subst.
    rewrite fold_left_app. cbn [fold_left]. apply Inv_step; auto.
  Qed.
End Inv.

(* ------------------------------------------------------------------------------------------ *)
(* the table stays sorted by key; stored metadata and series identifier are those of the latest
   upload of the series                                                                         *)

Fixpoint segs_sorted (l : list (sid * segment)) : Prop :=
  match l with
  | [] => True
  | ks :: l' => Forall (fun ks' => bcmp (sid_key (fst ks)) (sid_key (fst ks')) = Lt) l' /\ segs_sorted l'
  end.

Lemma seg_store_sorted k s l : segs_sorted l -> segs_sorted (seg_store k s l).
Proof.
  induction l as [|[k1 s1] l IH]; intros H; cbn [seg_store]; [cbn; auto|].
  cbn [segs_sorted fst] in H. destruct H as [H1 H2].
  destruct (bcmp (sid_key k) (sid_key k1)) eqn:E; cbn [segs_sorted fst].
  - apply bcmp_eq in E. rewrite E. split; assumption.
  - split; [|split; assumption]. constructor; [exact E|].
    eapply Forall_impl; [|exact H1]. cbn. intros ks' H. eapply bcmp_lt_trans; eauto.
  - split; [|apply IH, H2]. clear IH H2. apply bcmp_lt_gt in E.
    induction H1 as [|[k2 s2] l Hx Hl IHl]; cbn [seg_store]; [repeat constructor; exact E|].
    destruct (bcmp (sid_key k) (sid_key k2)); constructor; auto; constructor; auto.
Qed.

Lemma sorted_lookup l : segs_sorted l -> forall ks, In ks l -> seg_lookup (fst ks) l = Some (snd ks).
Proof.
  induction l as [|[k1 s1] l IH]; intros H ks Hin; [destruct Hin|].
  cbn [segs_sorted fst] in H. destruct H as [H1 H2]. cbn [seg_lookup]. unfold sid_eqb.
  destruct Hin as [<-|Hin]; cbn [fst snd]; [rewrite beqb_refl; reflexivity|].
  rewrite Forall_forall in H1. specialize (H1 ks Hin).
  rewrite beqb_sym, (beqb_false_lt _ _ H1). apply IH; assumption.
Qed.

Definition last_put (kb : bytes) (pis : list put_input) : option put_input :=
  match rev (series_puts kb pis) with pi :: _ => Some pi | [] => None end.

Lemma last_put_snoc kb pis pi :
  last_put kb (pis ++ [pi]) = if beqb (sid_key (pi_sid pi)) kb then Some pi else last_put kb pis.
Proof.
  unfold last_put, series_puts. rewrite filter_app. cbn [filter].
  destruct (beqb (sid_key (pi_sid pi)) kb); [rewrite rev_app_distr; reflexivity|rewrite app_nil_r; reflexivity].
Qed.

Definition Inv2 (pis : list put_input) (st : st_state) : Prop :=
  segs_sorted (st_segs st) /\
  forall k : sid, match seg_lookup k (st_segs st), last_put (sid_key k) pis with
                  | Some s, Some pi => s_meta s = pi_meta pi
                  | None, None => True
                  | _, _ => False
                  end.

Lemma Inv2_init : Inv2 [] st_init.
Proof. split; [exact I|]. intros k. exact I. Qed.

Lemma Inv2_step pis st pi : Inv2 pis st -> Inv2 (pis ++ [pi]) (fst (st_put None pi st)).
Proof.
  intros [HS HL]. rewrite st_put_none. cbn [fst]. split; cbn [st_segs].
  - apply seg_store_sorted, HS.
  - intros k. rewrite seg_lookup_store, last_put_snoc. rewrite (beqb_sym (sid_key k)).
    destruct (beqb (sid_key (pi_sid pi)) (sid_key k)); [|apply HL].
    unfold pi_res. rewrite s_put_meta. reflexivity.
Qed.

Lemma Inv2_after pis : Inv2 pis (st_after pis).
Proof.
  unfold st_after. induction pis as [|pi pis IH] using rev_ind; [apply Inv2_init|].
  rewrite fold_left_app. cbn [fold_left]. apply Inv2_step, IH.
Qed.

(* the series identifier stored in the table is the one of the latest upload with that key *)
Lemma seg_store_in k s l ks : In ks (seg_store k s l) -> ks = (k, s) \/ In ks l.
Proof.
  induction l as [|[k1 s1] l IH]; cbn [seg_store]; [intros [<-|[]]; auto|].
  destruct (bcmp (sid_key k) (sid_key k1)).
  - intros [<-|H]; [auto|right; right; exact H].
  - intros [<-|H]; auto.
  - intros [<-|H]; [right; left; reflexivity|]. destruct (IH H); auto. right. right. assumption.
Qed.

Lemma st_after_sids pis : forall ks, In ks (st_segs (st_after pis)) -> exists pi, In pi pis /\ fst ks = pi_sid pi.
Proof.
  unfold st_after. induction pis as [|pi pis IH] using rev_ind; intros ks; [intros []|].
  rewrite fold_left_app. cbn [fold_left]. rewrite st_put_none. cbn [fst st_segs]. intros H.
  apply seg_store_in in H. destruct H as [->|H].
  - exists pi. split; [apply in_or_app; right; left; reflexivity|reflexivity].
  - destruct (IH ks H) as (pi' & Hin & E). exists pi'. split; [apply in_or_app; left; exact Hin|exact E].
Qed.

(* ------------------------------------------------------------------------------------------ *)
(* S2. Get: per stack, the merged answer is the sum of what the read assembles from the buckets   *)

Definition gcb_shape (c : get_cb) : Prop := 0 <= gc_m c /\ 0 <= gc_d c.

Lemma get_node_shape : forall lvl a b n, Forall gcb_shape (s_get_node lvl a b n).
Proof.
  induction lvl as [|l IH]; intros a b [t p s w ch]; rewrite get_node_unfold; cbv zeta.
  - destruct (p && covers _); [repeat constructor; cbn; lia|]. destruct (is_outside _); [constructor|].
    destruct (p && _); [|constructor]. repeat constructor; cbn; [apply ov_nonneg|pose proof (pow10_pos 0); lia].
  - destruct (p && covers _); [repeat constructor; cbn; lia|]. destruct (is_outside _); [constructor|].
    destruct (p && _); [repeat constructor; cbn; [apply ov_nonneg|pose proof (pow10_pos (S l)); lia]|].
    induction ch as [|o ch IHch]; cbn [flat_map]; [constructor|]. apply Forall_app. split; [|exact IHch].
    destruct o as [c|]; cbn [get_child]; [apply IH|constructor].
Qed.

Lemma s_get_shape a b s : Forall gcb_shape (s_get a b s).
Proof. unfold s_get. destruct (s_root s) as [[lvl n]|]; [apply get_node_shape|constructor]. Qed.

Lemma s_get_root a b s1 s2 : s_root s1 = s_root s2 -> s_get a b s1 = s_get a b s2.
Proof. unfold s_get. intros ->. reflexivity. Qed.

Lemma fold_merge_self_at p rest : forall t, inW [] t -> Forall (inW []) rest ->
  t_self_at p (fold_left t_merge rest t) = (t_self_at p t + sumN (map (t_self_at p) rest))%N.
Proof.
  induction rest as [|r rest IH]; intros t Ht Hr; cbn [fold_left map].
  - change (sumN []) with 0%N. lia.
  - inversion Hr as [|? ? Hr1 Hr2]; subst. rewrite IH by (try apply inW_merge; assumption).
    rewrite t_merge_self_at by (apply Ht || apply Hr1). change (sumN (?x :: ?l)) with (x + sumN l)%N. lia.
Qed.

Lemma merge_serial_self_at p l t : Forall (inW []) l -> merge_serial l = Some t ->
  t_self_at p t = sumN (map (t_self_at p) l).
Proof.
  destruct l as [|t0 rest]; [discriminate|]. intros H [= <-]. inversion H; subst.
  rewrite fold_merge_self_at by assumption. reflexivity.
Qed.

Lemma Z_of_sumN l : Z.of_N (sumN l) = sumZ (map Z.of_N l).
Proof. induction l as [|x l IH]; [reflexivity|]. change (sumN (x :: l)) with (x + sumN l)%N. cbn [map sumZ fold_right]. fold (sumZ (map Z.of_N l)). lia. Qed.

Lemma sumZ_app' l1 l2 : sumZ (l1 ++ l2) = sumZ l1 + sumZ l2.
Proof. induction l1 as [|x l1 IH]; cbn [app sumZ fold_right]; [reflexivity|]. fold (sumZ (l1 ++ l2)). fold (sumZ l1). lia. Qed.

Lemma sumZ_flat_map {A B} (f : B -> Z) (g : A -> list B) l :
  sumZ (map f (flat_map g l)) = sumZ (map (fun x => sumZ (map f (g x))) l).
Proof.
  induction l as [|x l IH]; [reflexivity|]. cbn [flat_map map]. rewrite map_app, sumZ_app', IH. reflexivity.
Qed.

(* the list of (clone, writes) pairs st_get merges *)
Definition get_parts (a b : Z) (matching : list (sid * segment)) (trees : list (tkey * tnode)) : list (tnode * N) :=
  flat_map (fun ks =>
     map (fun c => (t_clone (Z.to_N (gc_m c)) (Z.to_N (gc_d c)) (tree_get (sid_key (fst ks), gc_lvl c, gc_t c) trees),
                    gc_writes c))
         (s_get a b (snd ks))) matching.

Definition st_matching (sel : sid) (st : st_state) : list (sid * segment) :=
  filter (fun ks => sel_matches sel (fst ks)) (st_segs st).

Definition has_average (matching : list (sid * segment)) : bool :=
  existsb (fun ks => beqb (m_agg (s_meta (snd ks))) average_bytes) matching.

Lemma st_get_eq sel from until st :
  st_get sel from until st =
    let ab := s_normalize_unix (from, until) in
    let matching := st_matching sel st in
    let parts := get_parts (fst ab) (snd ab) matching (st_trees st) in
    match merge_serial (map fst parts) with
    | None => None
    | Some t =>
        let writes := sumN (map snd parts) in
        Some {| go_tree := if (0 <? writes)%N && has_average matching then t_clone 1 writes t else t;
                go_timeline := fold_left (fun tl ks => tl_populate (snd ks) tl) matching (tl_generate (fst ab) (snd ab));
                go_meta := match rev matching with ks :: _ => s_meta (snd ks) | [] => meta0 end |}
    end.
Proof. unfold st_get. destruct (s_normalize_unix (from, until)) as [a b]. reflexivity. Qed.

Lemma clone_read p kb trees E c : mirrors kb p trees E -> gcb_shape c ->
  Z.of_N (t_self_at p (t_clone (Z.to_N (gc_m c)) (Z.to_N (gc_d c)) (tree_get (kb, gc_lvl c, gc_t c) trees)))
  = E (gc_lvl c, gc_t c) * gc_m c / gc_d c.
Proof.
  intros HM [Hm Hd]. rewrite t_self_at_clone, N2Z.inj_div, N2Z.inj_mul, !Z2N.id, HM by lia. reflexivity.
Qed.

Lemma parts_sum p (E : bytes -> store) trees a b matching :
  (forall kb, mirrors kb p trees (E kb)) ->
  Z.of_N (sumN (map (t_self_at p) (map fst (get_parts a b matching trees)))) =
  sumZ (map (fun ks => read_sum (E (sid_key (fst ks))) (s_get a b (snd ks))) matching).
Proof.
  intros HM. rewrite Z_of_sumN, !map_map. unfold get_parts. rewrite sumZ_flat_map. f_equal.
  apply map_ext. intros ks. rewrite map_map. unfold read_sum. f_equal.
  apply map_ext_in. intros c Hc. cbn [fst].
  apply clone_read; [apply HM|]. pose proof (s_get_shape a b (snd ks)) as H. rewrite Forall_forall in H. auto.
Qed.

Lemma parts_inW a b matching trees : TW trees -> Forall (inW []) (map fst (get_parts a b matching trees)).
Proof.
  intros HT. apply Forall_forall. intros t Ht. apply in_map_iff in Ht. destruct Ht as ([t' w] & <- & Hin).
  unfold get_parts in Hin. apply in_flat_map in Hin. destruct Hin as (ks & _ & Hin).
  apply in_map_iff in Hin. destruct Hin as (c & [= <- _] & _). cbn [fst]. apply inW_clone, TW_get, HT.
Qed.

Lemma flat_map_nil {A B} (g : A -> list B) l : flat_map g l = [] -> forall x, In x l -> g x = [].
Proof.
  induction l as [|y l IH]; cbn [flat_map]; intros H x []; apply app_eq_nil in H; destruct H; subst; auto.
Qed.

(* what one series contributes to stack p of a read of [a,b): the buckets named by s_get, read from the
   exact store of the series' own write history *)
Definition series_read (p : list bytes) (pis : list put_input) (a b : Z) (kb : bytes) : Z :=
  let r := run_writes (ws kb p pis) in read_sum (snd r) (s_get a b (fst r)).

Lemma get_sum p pis sel from until : Forall good_put pis ->
  let st := st_after pis in
  let ab := s_normalize_unix (from, until) in
  let matching := st_matching sel st in
  has_average matching = false ->
  let S := sumZ (map (fun ks => series_read p pis (fst ab) (snd ab) (sid_key (fst ks))) matching) in
  match st_get sel from until st with
  | Some out => Z.of_N (t_self_at p (go_tree out)) = S
  | None => S = 0
  end.
Proof.
  intros Hgood st ab matching Havg S.
  destruct (Inv_after p pis Hgood) as (HR & HM & HT). destruct (Inv2_after pis) as [HS _]. fold st in HR, HM, HT, HS.
  assert (HSum : Z.of_N (sumN (map (t_self_at p) (map fst (get_parts (fst ab) (snd ab) matching (st_trees st))))) = S).
  { rewrite (parts_sum p (fun kb => snd (run_writes (ws kb p pis)))) by exact HM.
    unfold S. f_equal. apply map_ext_in. intros ks Hks. unfold series_read. cbv zeta. f_equal.
    apply s_get_root. apply filter_In in Hks. destruct Hks as [Hks _].
    rewrite <- HR. unfold root_of. rewrite (sorted_lookup _ HS ks Hks). reflexivity. }
  rewrite st_get_eq. cbv zeta. fold st ab matching.
  destruct (merge_serial (map fst (get_parts (fst ab) (snd ab) matching (st_trees st)))) as [t|] eqn:E.
  - cbn [go_tree]. rewrite Havg, andb_false_r.
    rewrite (merge_serial_self_at p _ t (parts_inW _ _ _ _ HT) E). exact HSum.
  - rewrite <- HSum. destruct (map fst (get_parts _ _ _ _)); [reflexivity|discriminate].
Qed.

(* ------------------------------------------------------------------------------------------ *)
(* S4. regrouping: sum over the table's matching series of the series' uploads = sum over the
   uploads into matching series                                                                 *)

Lemma sumZ_cons' x l : sumZ (x :: l) = x + sumZ l.
Proof. reflexivity. Qed.

Lemma sumZ_map_add {A} (f g : A -> Z) l : sumZ (map (fun x => f x + g x) l) = sumZ (map f l) + sumZ (map g l).
Proof. induction l as [|x l IH]; [reflexivity|]. cbn [map]. rewrite !sumZ_cons', IH. lia. Qed.

Lemma sumZ_map_zero {A} (f : A -> Z) l : (forall x, In x l -> f x = 0) -> sumZ (map f l) = 0.
Proof.
  induction l as [|x l IH]; intros H; [reflexivity|]. cbn [map]. rewrite sumZ_cons', IH, H; [reflexivity|left; reflexivity|].
  intros y Hy. apply H. right. exact Hy.
Qed.

Lemma sumZ_indicator (keys : list bytes) kb v : NoDup keys -> In kb keys ->
  sumZ (map (fun k => if beqb kb k then v else 0) keys) = v.
Proof.
  induction keys as [|k keys IH]; intros Hnd Hin; [destruct Hin|]. inversion Hnd as [|? ? Hk Hnd']; subst.
  cbn [map]. rewrite sumZ_cons'. destruct Hin as [->|Hin].
  - rewrite beqb_refl, sumZ_map_zero; [lia|]. intros k' Hk'. destruct (beqb kb k') eqn:E; [|reflexivity].
    apply beqb_true in E. subst k'. contradiction.
  - rewrite IH by assumption. destruct (beqb kb k) eqn:E; [|lia]. apply beqb_true in E. subst k. contradiction.
Qed.

Lemma regroup {X} (key : X -> bytes) (g : X -> Z) (keys : list bytes) (items : list X) :
  NoDup keys -> (forall x, In x items -> In (key x) keys) ->
  sumZ (map (fun kb => sumZ (map g (filter (fun x => beqb (key x) kb) items))) keys) = sumZ (map g items).
Proof.
  intros Hnd. induction items as [|x items IH]; intros Hin.
  - cbn [filter map]. apply sumZ_map_zero. reflexivity.
  - cbn [map]. rewrite sumZ_cons'.
    transitivity (sumZ (map (fun kb => (if beqb (key x) kb then g x else 0) +
                                       sumZ (map g (filter (fun x0 => beqb (key x0) kb) items))) keys)).
    + f_equal. apply map_ext. intros kb. cbn [filter].
      destruct (beqb (key x) kb); [cbn [map]; rewrite sumZ_cons'|]; lia.
    + rewrite sumZ_map_add, sumZ_indicator, IH; [reflexivity| |exact Hnd|].
      * intros y Hy. apply Hin. right. exact Hy.
      * apply Hin. left. reflexivity.
Qed.

Lemma sorted_NoDup l : segs_sorted l -> NoDup (map (fun ks => sid_key (fst ks)) l).
Proof.
  induction l as [|ks l IH]; intros H; [constructor|]. cbn [segs_sorted] in H. destruct H as [H1 H2].
  cbn [map]. constructor; [|apply IH, H2]. intros Hin. apply in_map_iff in Hin. destruct Hin as (ks' & E & Hin).
  rewrite Forall_forall in H1. specialize (H1 ks' Hin). rewrite E, bcmp_refl in H1. discriminate.
Qed.

Lemma NoDup_filter_map {A B} (f : A -> B) (q : A -> bool) l : NoDup (map f l) -> NoDup (map f (filter q l)).
Proof.
  induction l as [|x l IH]; intros H; [constructor|]. cbn [map] in H. inversion H as [|? ? Hx Hl]; subst.
  cbn [filter]. destruct (q x); [|apply IH, Hl]. cbn [map]. constructor; [|apply IH, Hl].
  intros Hin. apply Hx. apply in_map_iff in Hin. destruct Hin as (y & E & Hy). apply filter_In in Hy.
  apply in_map_iff. exists y. tauto.
Qed.

Lemma seg_lookup_in k l s : seg_lookup k l = Some s -> exists ks, In ks l /\ sid_key (fst ks) = sid_key k /\ snd ks = s.
Proof.
  induction l as [|[k1 s1] l IH]; cbn [seg_lookup]; [discriminate|]. unfold sid_eqb.
  destruct (beqb (sid_key k) (sid_key k1)) eqn:E.
  - intros [= <-]. exists (k1, s1). split; [left; reflexivity|]. apply beqb_true in E. auto.
  - intros H. destruct (IH H) as (ks & Hin & H1 & H2). exists ks. split; [right; exact Hin|auto].
Qed.

(* two uploads with the same canonical key text belong to the same series (key = Normalized()) *)
Definition key_consistent (pis : list put_input) : Prop :=
  forall pi pi', In pi pis -> In pi' pis -> sid_key (pi_sid pi) = sid_key (pi_sid pi') -> pi_sid pi = pi_sid pi'.

Lemma regroup_puts (g : put_input -> Z) pis sel : key_consistent pis ->
  sumZ (map (fun ks => sumZ (map g (series_puts (sid_key (fst ks)) pis))) (st_matching sel (st_after pis))) =
  sumZ (map g (filter (fun pi => sel_matches sel (pi_sid pi)) pis)).
Proof.
  intros Hc. destruct (Inv2_after pis) as [HS HL].
  set (segs := st_segs (st_after pis)) in *.
  (* a table entry and an upload with the same key carry the same series identifier *)
  assert (Hsid : forall ks pi, In ks segs -> In pi pis -> sid_key (pi_sid pi) = sid_key (fst ks) -> pi_sid pi = fst ks).
  { intros ks pi Hks Hpi E. destruct (st_after_sids pis ks Hks) as (pi' & Hpi' & E'). rewrite E' in *. apply Hc; assumption. }
  rewrite <- (regroup (fun pi => sid_key (pi_sid pi)) g
                 (map (fun ks => sid_key (fst ks)) (st_matching sel (st_after pis)))).
  - rewrite map_map. f_equal. apply map_ext_in. intros ks Hks. f_equal.
    unfold series_puts. apply filter_In in Hks. destruct Hks as [Hks Hm].
    (* among the uploads with this key, all match *)
    assert (H : forall l, (forall y, In y l -> In y pis) ->
               filter (fun pi0 => beqb (sid_key (pi_sid pi0)) (sid_key (fst ks))) l =
               filter (fun x => beqb (sid_key (pi_sid x)) (sid_key (fst ks))) (filter (fun pi0 => sel_matches sel (pi_sid pi0)) l)).
    { induction l as [|x l IHl]; intros Hl; [reflexivity|]. cbn [filter].
      destruct (beqb (sid_key (pi_sid x)) (sid_key (fst ks))) eqn:E.
      - apply beqb_true in E. rewrite (Hsid ks x Hks (Hl x (or_introl eq_refl)) E), Hm. cbn [filter].
        rewrite (Hsid ks x Hks (Hl x (or_introl eq_refl)) E) in E |- *. rewrite beqb_refl. f_equal.
        apply IHl. intros y Hy. apply Hl. right. exact Hy.
      - destruct (sel_matches sel (pi_sid x)); cbn [filter]; [rewrite E|]; apply IHl; intros y Hy; apply Hl; right; exact Hy. }
    f_equal. apply H. auto.
  - apply NoDup_filter_map, sorted_NoDup, HS.
  - intros pi Hpi. apply filter_In in Hpi. destruct Hpi as [Hpi Hm].
    specialize (HL (pi_sid pi)). fold segs in HL.
    destruct (seg_lookup (pi_sid pi) segs) as [s|] eqn:E.
    + destruct (seg_lookup_in _ _ _ E) as (ks & Hks & Hk & _). apply in_map_iff. exists ks. split; [exact Hk|].
      apply filter_In. split; [exact Hks|]. rewrite <- (Hsid ks pi Hks Hpi (eq_sym Hk)). exact Hm.
    + unfold last_put in HL. destruct (rev (series_puts (sid_key (pi_sid pi)) pis)) eqn:Er; [|destruct HL].
      assert (Hin : In pi (series_puts (sid_key (pi_sid pi)) pis)).
      { apply filter_In. split; [exact Hpi|apply beqb_refl]. }
      apply in_rev in Hin. rewrite Er in Hin. destruct Hin.
Qed.

(* ------------------------------------------------------------------------------------------ *)
(* S3. closed form, from the segment-level exactness statement                                  *)

(* the statement builder "seg" proves in Proofs/Seg*.v: on the exact store of a history of writes
   spanning at most 9 slots inside one epoch block, a read of [a,b) returns, per write, its per-slot
   amount times the number of its slots inside [a,b) — whatever cover s_get assembled *)
Definition seg_read_exact_stmt : Prop :=
  forall K (wsl : list write) a b,
    Forall (valid_write K) wsl -> Forall (fun w => w_b w - w_a w <= 9) wsl -> valid_range K a b ->
    read_sum (snd (run_writes wsl)) (s_get a b (fst (run_writes wsl))) =
    sumZ (map (fun w => w_beta w * ov (w_a w) (w_b w) a b) wsl).

(* ... and it holds: Proofs/SegRead.v (builder "seg"), which needs only a < b of the read range *)
Lemma seg_read_exact_holds : seg_read_exact_stmt.
Proof.
  intros K wsl a b Hv H9 (Hab & _). apply (seg_read_exact K wsl a b Hv Hab).
  eapply Forall_impl; [|exact H9]. cbn. intros; lia.
Qed.

(* per-stack contribution of one upload to a read of [a,b): (count / span) * slots of the upload in [a,b) *)
Definition contrib (p : list bytes) (a b : Z) (pi : put_input) : Z :=
  Z.of_N (t_self_at p (pi_tree pi)) / (snd (pi_ab pi) - fst (pi_ab pi)) * ov (fst (pi_ab pi)) (snd (pi_ab pi)) a b.

Definition exact_put (K : Z) (pi : put_input) : Prop :=
  good_put pi /\ valid_range K (fst (pi_ab pi)) (snd (pi_ab pi)) /\ snd (pi_ab pi) - fst (pi_ab pi) <= 9.

Definition no_average (pis : list put_input) : Prop :=
  forall pi, In pi pis -> m_agg (pi_meta pi) <> average_bytes.

Lemma no_average_matching pis sel : no_average pis -> has_average (st_matching sel (st_after pis)) = false.
Proof.
  intros Hna. unfold has_average. destruct (existsb _ _) eqn:E; [|reflexivity]. exfalso.
  apply existsb_exists in E. destruct E as (ks & Hks & Hb). apply beqb_true in Hb.
  apply filter_In in Hks. destruct Hks as [Hks _].
  destruct (Inv2_after pis) as [HS HL]. specialize (HL (fst ks)). rewrite (sorted_lookup _ HS ks Hks) in HL.
  unfold last_put in HL. destruct (rev (series_puts (sid_key (fst ks)) pis)) as [|pi r] eqn:Er; [destruct HL|].
  apply (Hna pi); [|rewrite <- HL; exact Hb].
  assert (Hin : In pi (rev (series_puts (sid_key (fst ks)) pis))) by (rewrite Er; left; reflexivity).
  apply in_rev, filter_In in Hin. tauto.
Qed.

Lemma series_read_closed : seg_read_exact_stmt -> forall K p pis a b kb,
  Forall (exact_put K) pis -> valid_range K a b ->
  series_read p pis a b kb = sumZ (map (contrib p a b) (series_puts kb pis)).
Proof.
  intros Hseg K p pis a b kb Hp Hab. unfold series_read. cbv zeta. rewrite (Hseg K).
  - unfold ws. rewrite map_map. reflexivity.
  - unfold ws. apply Forall_forall. intros w Hw. apply in_map_iff in Hw. destruct Hw as (pi & <- & Hpi).
    apply filter_In in Hpi. destruct Hpi as [Hpi _]. rewrite Forall_forall in Hp. destruct (Hp pi Hpi) as ((Hlt & _) & Hv & _).
    split; [exact Hv|]. cbn [pi_w w_beta]. apply Z.div_pos; lia.
  - unfold ws. apply Forall_forall. intros w Hw. apply in_map_iff in Hw. destruct Hw as (pi & <- & Hpi).
    apply filter_In in Hpi. destruct Hpi as [Hpi _]. rewrite Forall_forall in Hp. destruct (Hp pi Hpi) as (_ & _ & H9). exact H9.
  - exact Hab.
Qed.

(* C01_exact *)
Lemma get_exact : seg_read_exact_stmt -> forall K pis sel from until p,
  Forall (exact_put K) pis -> key_consistent pis -> no_average pis ->
  let ab := s_normalize_unix (from, until) in
  valid_range K (fst ab) (snd ab) ->
  let S := sumZ (map (contrib p (fst ab) (snd ab)) (filter (fun pi => sel_matches sel (pi_sid pi)) pis)) in
  match st_get sel from until (st_after pis) with
  | Some out => Z.of_N (t_self_at p (go_tree out)) = S
  | None => S = 0
  end.
Proof.
  intros Hseg K pis sel from until p Hp Hc Hna ab Hab S.
  assert (Hgood : Forall good_put pis) by (eapply Forall_impl; [|exact Hp]; intros pi H; apply H).
  pose proof (get_sum p pis sel from until Hgood (no_average_matching pis sel Hna)) as H. cbv zeta in H. fold ab in H.
  replace (sumZ (map (fun ks => series_read p pis (fst ab) (snd ab) (sid_key (fst ks))) (st_matching sel (st_after pis))))
    with S in H; [exact H|].
  unfold S. rewrite <- (regroup_puts (contrib p (fst ab) (snd ab)) pis sel Hc). f_equal.
  apply map_ext. intros ks. symmetry. apply (series_read_closed Hseg K); assumption.
Qed.

(* the read range only has to be non-empty: the segment-level theorem does not need it inside the block *)
Lemma series_read_closed' K p pis a b kb : Forall (exact_put K) pis -> a < b ->
  series_read p pis a b kb = sumZ (map (contrib p a b) (series_puts kb pis)).
Proof.
  intros Hp Hab. unfold series_read. cbv zeta.
  destruct (seg_read_exact K (ws kb p pis) a b) as [H _]; [| exact Hab | | rewrite H; unfold ws; rewrite map_map; reflexivity].
  - unfold ws. apply Forall_forall. intros w Hw. apply in_map_iff in Hw. destruct Hw as (pi & <- & Hpi).
    apply filter_In in Hpi. destruct Hpi as [Hpi _]. rewrite Forall_forall in Hp. destruct (Hp pi Hpi) as ((Hlt & _) & Hv & _).
    split; [exact Hv|]. cbn [pi_w w_beta]. apply Z.div_pos; lia.
  - unfold ws. apply Forall_forall. intros w Hw. apply in_map_iff in Hw. destruct Hw as (pi & <- & Hpi).
    apply filter_In in Hpi. destruct Hpi as [Hpi _]. rewrite Forall_forall in Hp. destruct (Hp pi Hpi) as (_ & _ & H9).
    cbn [pi_w w_a w_b]. lia.
Qed.

Lemma get_exact_closed K pis sel from until p :
  Forall (exact_put K) pis -> key_consistent pis -> no_average pis ->
  let ab := s_normalize_unix (from, until) in
  fst ab < snd ab ->
  let S := sumZ (map (contrib p (fst ab) (snd ab)) (filter (fun pi => sel_matches sel (pi_sid pi)) pis)) in
  match st_get sel from until (st_after pis) with
  | Some out => Z.of_N (t_self_at p (go_tree out)) = S
  | None => S = 0
  end.
Proof.
  intros Hp Hc Hna ab Hab S.
  assert (Hgood : Forall good_put pis) by (eapply Forall_impl; [|exact Hp]; intros pi H; apply H).
  pose proof (get_sum p pis sel from until Hgood (no_average_matching pis sel Hna)) as H. cbv zeta in H. fold ab in H.
  replace (sumZ (map (fun ks => series_read p pis (fst ab) (snd ab) (sid_key (fst ks))) (st_matching sel (st_after pis))))
    with S in H; [exact H|].
  unfold S. rewrite <- (regroup_puts (contrib p (fst ab) (snd ab)) pis sel Hc). f_equal.
  apply map_ext. intros ks. symmetry. apply (series_read_closed' K); assumption.
Qed.

(* metadata: when one series matches, spy name / sample rate / units are those of its latest upload *)
Lemma get_meta pis sel from until ks out :
  st_matching sel (st_after pis) = [ks] -> st_get sel from until (st_after pis) = Some out ->
  exists pi, last_put (sid_key (fst ks)) pis = Some pi /\ go_meta out = pi_meta pi.
Proof.
  intros Hm. rewrite st_get_eq. cbv zeta. rewrite Hm. destruct (merge_serial _); [|discriminate].
  intros [= <-]. cbn [go_meta rev app].
  destruct (Inv2_after pis) as [HS HL]. specialize (HL (fst ks)).
  assert (Hin : In ks (st_segs (st_after pis))).
  { assert (H : In ks (st_matching sel (st_after pis))) by (rewrite Hm; left; reflexivity). apply filter_In in H. tauto. }
  rewrite (sorted_lookup _ HS ks Hin) in HL. destruct (last_put (sid_key (fst ks)) pis) as [pi|]; [|destruct HL].
  exists pi. split; [reflexivity|exact HL].
Qed.

(* histories of ingests and queries run through st_run: queries do not change the state *)
Definition puts_of (ops : list st_op) : list put_input :=
  flat_map (fun o => match o with OpPut pi => [pi] | _ => [] end) ops.
Definition put_or_get (o : st_op) : Prop := match o with OpPut _ | OpGet _ _ _ => True | _ => False end.

Lemma st_run_state ops : Forall put_or_get ops -> forall st,
  fst (st_run None ops st) = fold_left (fun st pi => fst (st_put None pi st)) (puts_of ops) st.
Proof.
  induction 1 as [|o ops Ho _ IH]; intros st; [reflexivity|]. cbn [st_run].
  destruct (st_step None st o) as [st1 out] eqn:E1. destruct (st_run None ops st1) as [st2 outs] eqn:E2.
  cbn [fst]. specialize (IH st1). rewrite E2 in IH. cbn [fst] in IH. rewrite IH.
  destruct o as [pi|sel f u|sel|thr]; try destruct Ho; cbn [st_step] in E1.
  - destruct (st_put None pi st) as [st' ok] eqn:E3. injection E1 as <- _. cbn [puts_of flat_map app fold_left]. rewrite E3. reflexivity.
  - injection E1 as <- _. reflexivity.
Qed.

Lemma st_run_app rt ops1 ops2 st :
  st_run rt (ops1 ++ ops2) st =
    (fst (st_run rt ops2 (fst (st_run rt ops1 st))), snd (st_run rt ops1 st) ++ snd (st_run rt ops2 (fst (st_run rt ops1 st)))).
Proof.
  revert st. induction ops1 as [|o ops1 IH]; intros st; cbn [app st_run].
  - cbn [fst snd app]. destruct (st_run rt ops2 st); reflexivity.
  - destruct (st_step rt st o) as [st1 out]. rewrite IH. destruct (st_run rt ops1 st1) as [st2 outs]. cbn [fst snd].
    destruct (st_run rt ops2 st2); reflexivity.
Qed.

Lemma st_run_get ops sel from until : Forall put_or_get ops ->
  snd (st_run None (ops ++ [OpGet sel from until]) st_init) =
  snd (st_run None ops st_init) ++ [OutGet (st_get sel from until (st_after (puts_of ops)))].
Proof.
  intros H. rewrite st_run_app. cbn [snd]. f_equal. rewrite (st_run_state ops H st_init). reflexivity.
Qed.

(* ------------------------------------------------------------------------------------------ *)
(* 'average' series: the divisor is the sum of the write counters of the cover buckets            *)

Definition cover_writes (a b : Z) (matching : list (sid * segment)) : N :=
  sumN (flat_map (fun ks => map gc_writes (s_get a b (snd ks))) matching).

Lemma parts_writes a b matching trees : sumN (map snd (get_parts a b matching trees)) = cover_writes a b matching.
Proof.
  unfold cover_writes, get_parts. f_equal. induction matching as [|ks l IH]; [reflexivity|].
  cbn [flat_map]. rewrite map_app, IH, map_map. reflexivity.
Qed.

Lemma get_sum_avg p pis sel from until : Forall good_put pis ->
  let st := st_after pis in
  let ab := s_normalize_unix (from, until) in
  let matching := st_matching sel st in
  let S := sumZ (map (fun ks => series_read p pis (fst ab) (snd ab) (sid_key (fst ks))) matching) in
  let W := cover_writes (fst ab) (snd ab) matching in
  match st_get sel from until st with
  | Some out => Z.of_N (t_self_at p (go_tree out)) =
                if (0 <? W)%N && has_average matching then S / Z.of_N W else S
  | None => S = 0
  end.
Proof.
  intros Hgood st ab matching S W.
  destruct (Inv_after p pis Hgood) as (HR & HM & HT). destruct (Inv2_after pis) as [HS _]. fold st in HR, HM, HT, HS.
  assert (HSum : Z.of_N (sumN (map (t_self_at p) (map fst (get_parts (fst ab) (snd ab) matching (st_trees st))))) = S).
  { rewrite (parts_sum p (fun kb => snd (run_writes (ws kb p pis)))) by exact HM.
    unfold S. f_equal. apply map_ext_in. intros ks Hks. unfold series_read. cbv zeta. f_equal.
    apply s_get_root. apply filter_In in Hks. destruct Hks as [Hks _].
    rewrite <- HR. unfold root_of. rewrite (sorted_lookup _ HS ks Hks). reflexivity. }
  rewrite st_get_eq. cbv zeta. fold st ab matching. rewrite parts_writes. fold W.
  destruct (merge_serial (map fst (get_parts (fst ab) (snd ab) matching (st_trees st)))) as [t|] eqn:E.
  - cbn [go_tree]. pose proof (merge_serial_self_at p _ t (parts_inW _ _ _ _ HT) E) as Ht.
    destruct ((0 <? W)%N && has_average matching).
    + rewrite t_self_at_clone, Ht, N.mul_1_r, N2Z.inj_div, HSum. reflexivity.
    + rewrite Ht. exact HSum.
  - rewrite <- HSum. destruct (map fst (get_parts _ _ _ _)); [reflexivity|discriminate].
Qed.

(* D12: one upload of a;b 8 over two slots into an 'average' series.  The read of exactly those two slots
   is assembled from two 10 s buckets with one write each: the answer is 8 / 2 = 4, although one upload
   contributed (the read of the enclosing 100 s bucket answers 8). *)
Definition d12_sid : sid := {| sid_key := [100;49;50;123;125]%N; sid_app := [100;49;50]%N; sid_tags := [] |}.
Definition d12_put : put_input :=
  {| pi_sid := d12_sid; pi_from := 1600000000; pi_until := 1600000020;
     pi_tree := t_insert [97;59;98]%N 8%N t_empty;
     pi_meta := {| m_spy := []; m_rate := 100%N; m_units := []; m_agg := average_bytes |} |}.

(* "divided by the number of contributing uploads" *)
Definition uploads_in (sel : sid) (a b : Z) (pis : list put_input) : Z :=
  Z.of_nat (length (filter (fun pi => sel_matches sel (pi_sid pi) && (0 <? ov (fst (pi_ab pi)) (snd (pi_ab pi)) a b)) pis)).

Lemma average_refuted :
  exists pis sel from until p out,
    st_get sel from until (st_after pis) = Some out /\
    let ab := s_normalize_unix (from, until) in
    Z.of_N (t_self_at p (go_tree out)) <>
    sumZ (map (contrib p (fst ab) (snd ab)) (filter (fun pi => sel_matches sel (pi_sid pi)) pis)) / uploads_in sel (fst ab) (snd ab) pis.
Proof.
  exists [d12_put], d12_sid, 1600000000, 1600000020, [[97]%N; [98]%N].
  eexists. split; [vm_compute; reflexivity|]. vm_compute. discriminate.
Qed.

(* ------------------------------------------------------------------------------------------ *)
(* a decidable sufficient condition for the hypotheses (used by the non-vacuity examples)        *)

Fixpoint t_forall_self (q : N -> bool) (t : tnode) : bool :=
  match t with TNode _ s _ ch => q s && forallb (t_forall_self q) ch end.

Lemma t_forall_self_at q : q 0%N = true -> forall p t, t_forall_self q t = true -> q (t_self_at p t) = true.
Proof.
  intros H0. induction p as [|l p IH]; intros [n s tot ch] H; cbn [t_forall_self] in H;
    apply andb_true_iff in H; destruct H as [H1 H2].
  - exact H1.
  - unfold t_self_at. cbn [t_at t_ch]. destruct (t_find l ch) as [c|] eqn:E; [|exact H0].
    rewrite forallb_forall in H2. apply (IH c). apply H2. eapply t_find_in; eauto.
Qed.

Definition good_putb (pi : put_input) : bool :=
  (fst (pi_ab pi) <? snd (pi_ab pi)) && t_wfb (pi_tree pi) && beqb (t_name (pi_tree pi)) [] &&
  t_forall_self (fun s => Z.of_N s mod (snd (pi_ab pi) - fst (pi_ab pi)) =? 0) (pi_tree pi).

Lemma good_putb_ok pi : good_putb pi = true -> good_put pi.
Proof.
  unfold good_putb. rewrite !andb_true_iff. intros [[[H1 H2] H3] H4]. split; [lia|]. split.
  - split; [exact H2|apply beqb_true, H3].
  - intros p. apply Z.eqb_eq.
    apply (t_forall_self_at (fun s => Z.of_N s mod (snd (pi_ab pi) - fst (pi_ab pi)) =? 0)); [|exact H4].
    change (Z.of_N 0) with 0. rewrite Zmod_0_l. reflexivity.
Qed.

Definition valid_rangeb (K a b : Z) : bool := (a <? b) && (K * pow10 8 <=? a) && (b <=? (K + 1) * pow10 8).
Lemma valid_rangeb_ok K a b : valid_rangeb K a b = true -> valid_range K a b.
Proof. unfold valid_rangeb, valid_range. rewrite !andb_true_iff. lia. Qed.

Definition exact_putb (K : Z) (pi : put_input) : bool :=
  good_putb pi && valid_rangeb K (fst (pi_ab pi)) (snd (pi_ab pi)) && (snd (pi_ab pi) - fst (pi_ab pi) <=? 9).
Lemma exact_putb_ok K pi : exact_putb K pi = true -> exact_put K pi.
Proof.
  unfold exact_putb. rewrite !andb_true_iff. intros [[H1 H2] H3].
  split; [apply good_putb_ok, H1|]. split; [apply valid_rangeb_ok, H2|lia].
Qed.

(* ========================================================================================== *)
(* C11 — delete and retention                                                                  *)

(* an ingest older than the retention threshold is refused and leaves the state untouched *)
Lemma retention_reject thr pi st : pi_from pi < thr -> st_put (Some thr) pi st = (st, false).
Proof. intros H. unfold st_put. replace (pi_from pi <? thr) with true by lia. reflexivity. Qed.

Lemma retention_accept thr pi st : thr <= pi_from pi -> st_put (Some thr) pi st = st_put None pi st.
Proof. intros H. unfold st_put. replace (pi_from pi <? thr) with false by lia. reflexivity. Qed.

(* ---- observational equivalence of states: same table, same tree under every key ---- *)
Definition st_equiv (st1 st2 : st_state) : Prop :=
  st_segs st1 = st_segs st2 /\ forall key, tree_lookup key (st_trees st1) = tree_lookup key (st_trees st2).

Definition trees_equiv (t1 t2 : list (tkey * tnode)) : Prop := forall key, tree_lookup key t1 = tree_lookup key t2.

Lemma tree_get_equiv t1 t2 key : trees_equiv t1 t2 -> tree_get key t1 = tree_get key t2.
Proof. intros H. unfold tree_get. rewrite H. reflexivity. Qed.

Lemma addons_fold_equiv k t1 t2 (addons : list (nat * Z)) : trees_equiv t1 t2 -> forall cl,
  fold_left (fun cl a => t_merge cl (tree_get (k, fst a, snd a) t1)) addons cl =
  fold_left (fun cl a => t_merge cl (tree_get (k, fst a, snd a) t2)) addons cl.
Proof.
  intros H. induction addons as [|a l IH]; intros cl; cbn [fold_left]; [reflexivity|].
  rewrite (tree_get_equiv t1 t2 _ H). apply IH.
Qed.

Lemma put_cb_apply_equiv k prof t1 t2 c : trees_equiv t1 t2 -> trees_equiv (put_cb_apply k prof t1 c) (put_cb_apply k prof t2 c).
Proof.
  intros H key. unfold put_cb_apply. rewrite !tree_lookup_store, (tree_get_equiv t1 t2 _ H), (addons_fold_equiv k t1 t2 _ H).
  destruct (tkey_eqb key _); [reflexivity|apply H].
Qed.

Lemma put_cbs_equiv k prof cbs : forall t1 t2, trees_equiv t1 t2 ->
  trees_equiv (fold_left (put_cb_apply k prof) cbs t1) (fold_left (put_cb_apply k prof) cbs t2).
Proof. induction cbs as [|c cbs IH]; intros t1 t2 H; [exact H|]. cbn [fold_left]. apply IH, put_cb_apply_equiv, H. Qed.

Lemma st_put_equiv rt pi st1 st2 : st_equiv st1 st2 ->
  st_equiv (fst (st_put rt pi st1)) (fst (st_put rt pi st2)) /\ snd (st_put rt pi st1) = snd (st_put rt pi st2).
Proof.
  intros [Hs Ht]. destruct rt as [thr|].
  - destruct (Z.ltb_spec (pi_from pi) thr) as [H|H].
    + rewrite !retention_reject by exact H. split; [split; assumption|reflexivity].
    + rewrite !retention_accept by exact H. rewrite !st_put_none. cbn [fst snd]. split; [|reflexivity].
      unfold pi_res, pi_seg0. rewrite Hs. split; cbn [st_segs st_trees]; [reflexivity|]. exact (put_cbs_equiv _ _ _ _ _ Ht).
  - rewrite !st_put_none. cbn [fst snd]. split; [|reflexivity].
    unfold pi_res, pi_seg0. rewrite Hs. split; cbn [st_segs st_trees]; [reflexivity|]. exact (put_cbs_equiv _ _ _ _ _ Ht).
Qed.

Lemma get_parts_equiv a b matching t1 t2 : trees_equiv t1 t2 -> get_parts a b matching t1 = get_parts a b matching t2.
Proof.
  intros H. unfold get_parts. induction matching as [|ks l IH]; [reflexivity|]. cbn [flat_map]. rewrite IH. f_equal.
  apply map_ext. intros c. rewrite (tree_get_equiv t1 t2 _ H). reflexivity.
Qed.

Lemma st_get_equiv sel from until st1 st2 : st_equiv st1 st2 -> st_get sel from until st1 = st_get sel from until st2.
Proof.
  intros [Hs Ht]. rewrite !st_get_eq. cbv zeta. unfold st_matching. rewrite Hs.
  rewrite (get_parts_equiv _ _ _ _ _ Ht). reflexivity.
Qed.

Lemma tree_remove_equiv k t1 t2 : trees_equiv t1 t2 -> trees_equiv (tree_remove k t1) (tree_remove k t2).
Proof. intros H key. rewrite !tree_lookup_remove. destruct (tkey_eqb k key); [reflexivity|apply H]. Qed.

Lemma tree_removes_equiv {A} (f : A -> tkey) cbs : forall t1 t2, trees_equiv t1 t2 ->
  trees_equiv (fold_left (fun tr c => tree_remove (f c) tr) cbs t1) (fold_left (fun tr c => tree_remove (f c) tr) cbs t2).
Proof. induction cbs as [|c cbs IH]; intros t1 t2 H; [exact H|]. cbn [fold_left]. apply IH, tree_remove_equiv, H. Qed.

Lemma st_delete_series_equiv st1 st2 ks : st_equiv st1 st2 -> st_equiv (st_delete_series st1 ks) (st_delete_series st2 ks).
Proof.
  intros [Hs Ht]. unfold st_delete_series. destruct (s_delete_before_unix max_time_unix (snd ks)) as [[s' cbs] del].
  split; cbn [st_segs st_trees]; [rewrite Hs; reflexivity|].
  exact (tree_removes_equiv (fun c => (sid_key (fst ks), fst c, snd c)) _ _ _ Ht).
Qed.


(* ---- what st_delete does to the lookups ---- *)
Definition del_cbs (s : segment) : list (nat * Z) := snd (fst (s_delete_before_unix max_time_unix s)).
Definition cb_hits (l : nat) (t : Z) (cbs : list (nat * Z)) : bool := existsb (fun c => Nat.eqb (fst c) l && (snd c =? t)) cbs.

Lemma seg_lookup_remove k k0 l :
  seg_lookup k (seg_remove k0 l) = if beqb (sid_key k0) (sid_key k) then None else seg_lookup k l.
Proof.
  unfold seg_remove. induction l as [|[k1 s1] l IH]; cbn [filter seg_lookup fst].
  - destruct (beqb (sid_key k0) (sid_key k)); reflexivity.
  - unfold sid_eqb at 1. destruct (beqb (sid_key k0) (sid_key k1)) eqn:E; cbn [negb].
    + rewrite IH. apply beqb_true in E. unfold sid_eqb. rewrite <- E. rewrite (beqb_sym (sid_key k) (sid_key k0)).
      destruct (beqb (sid_key k0) (sid_key k)); reflexivity.
    + cbn [seg_lookup]. rewrite IH. unfold sid_eqb. destruct (beqb (sid_key k) (sid_key k1)) eqn:E1; [|reflexivity].
      apply beqb_true in E1. rewrite E1, E. reflexivity.
Qed.

Lemma tree_lookup_removes kb cbs : forall tr kb' l t,
  tree_lookup (kb', l, t) (fold_left (fun tr c => tree_remove (kb, fst c, snd c) tr) cbs tr) =
  if beqb kb kb' && cb_hits l t cbs then None else tree_lookup (kb', l, t) tr.
Proof.
  induction cbs as [|c cbs IH]; intros tr kb' l t; cbn [fold_left].
  - unfold cb_hits. cbn [existsb]. rewrite andb_false_r. reflexivity.
  - rewrite IH, tree_lookup_remove. unfold cb_hits. cbn [existsb]. unfold tkey_eqb.
    destruct (beqb kb kb'); cbn [andb]; [|reflexivity].
    destruct (Nat.eqb (fst c) l && (snd c =? t)); cbn [orb]; [|reflexivity].
    destruct (existsb _ cbs); reflexivity.
Qed.

Lemma st_delete_series_eq st ks :
  st_delete_series st ks =
    {| st_segs := seg_remove (fst ks) (st_segs st);
       st_trees := fold_left (fun tr c => tree_remove (sid_key (fst ks), fst c, snd c) tr) (del_cbs (snd ks)) (st_trees st) |}.
Proof. unfold st_delete_series, del_cbs. destruct (s_delete_before_unix max_time_unix (snd ks)) as [[s' cbs] d]. reflexivity. Qed.

Definition ms_has (ms : list (sid * segment)) (kb : bytes) : bool := existsb (fun ks => beqb (sid_key (fst ks)) kb) ms.
Definition ms_hits (ms : list (sid * segment)) (kb : bytes) (l : nat) (t : Z) : bool :=
  existsb (fun ks => beqb (sid_key (fst ks)) kb && cb_hits l t (del_cbs (snd ks))) ms.

Lemma delete_fold ms : forall st,
  let st' := fold_left st_delete_series ms st in
  (forall k, seg_lookup k (st_segs st') = if ms_has ms (sid_key k) then None else seg_lookup k (st_segs st)) /\
  (forall kb l t, tree_lookup (kb, l, t) (st_trees st') = if ms_hits ms kb l t then None else tree_lookup (kb, l, t) (st_trees st)) /\
  st_segs st' = filter (fun e => negb (ms_has ms (sid_key (fst e)))) (st_segs st).
Proof.
  induction ms as [|ks ms IH]; intros st; cbn zeta.
  - cbn [fold_left ms_has ms_hits existsb]. repeat split. induction (st_segs st) as [|e l IHl]; [reflexivity|]. cbn [filter negb]. f_equal. exact IHl.
  - cbn [fold_left]. destruct (IH (st_delete_series st ks)) as (H1 & H2 & H3). cbn zeta in H1, H2, H3.
    set (stf := fold_left st_delete_series ms (st_delete_series st ks)) in *.
    rewrite st_delete_series_eq in H1, H2, H3. cbn [st_segs st_trees] in H1, H2, H3. split; [|split].
    + intros k. rewrite H1, seg_lookup_remove. unfold ms_has. cbn [existsb].
      destruct (beqb (sid_key (fst ks)) (sid_key k)); cbn [orb]; [destruct (existsb _ ms); reflexivity|reflexivity].
    + intros kb l t. rewrite H2, tree_lookup_removes. unfold ms_hits. cbn [existsb].
      destruct (beqb (sid_key (fst ks)) kb && cb_hits l t (del_cbs (snd ks))); cbn [orb]; [destruct (existsb _ ms); reflexivity|reflexivity].
    + rewrite H3. unfold seg_remove. clear. induction (st_segs st) as [|e l IHl]; [reflexivity|]. cbn [filter].
      unfold ms_has at 2. cbn [existsb]. unfold sid_eqb.
      destruct (beqb (sid_key (fst ks)) (sid_key (fst e))); cbn [negb orb]; [exact IHl|].
      cbn [filter]. fold (ms_has ms (sid_key (fst e))). destruct (ms_has ms (sid_key (fst e))); cbn [negb]; [exact IHl|]. f_equal. exact IHl.
Qed.

(* ---- two states agree on everything that concerns the series with key kb ---- *)
Definition trees_agree (kb : bytes) (t1 t2 : list (tkey * tnode)) : Prop :=
  forall l t, tree_lookup (kb, l, t) t1 = tree_lookup (kb, l, t) t2.
Definition agree_on (kb : bytes) (st1 st2 : st_state) : Prop :=
  (forall k, sid_key k = kb -> seg_lookup k (st_segs st1) = seg_lookup k (st_segs st2)) /\
  trees_agree kb (st_trees st1) (st_trees st2).

Lemma agree_refl kb st : agree_on kb st st.
Proof. split; [intros; reflexivity|intros l t; reflexivity]. Qed.
Lemma agree_sym kb s1 s2 : agree_on kb s1 s2 -> agree_on kb s2 s1.
Proof. intros [H1 H2]. split; [intros k E; symmetry; apply H1, E|intros l t; symmetry; apply H2]. Qed.
Lemma agree_trans kb s1 s2 s3 : agree_on kb s1 s2 -> agree_on kb s2 s3 -> agree_on kb s1 s3.
Proof. intros [H1 H2] [G1 G2]. split; [intros k E; rewrite H1, G1 by exact E; reflexivity|intros l t; rewrite H2, G2; reflexivity]. Qed.

Lemma tree_get_agree kb t1 t2 l t : trees_agree kb t1 t2 -> tree_get (kb, l, t) t1 = tree_get (kb, l, t) t2.
Proof. intros H. unfold tree_get. rewrite H. reflexivity. Qed.

Lemma addons_fold_agree kb t1 t2 (addons : list (nat * Z)) : trees_agree kb t1 t2 -> forall cl,
  fold_left (fun cl a => t_merge cl (tree_get (kb, fst a, snd a) t1)) addons cl =
  fold_left (fun cl a => t_merge cl (tree_get (kb, fst a, snd a) t2)) addons cl.
Proof.
  intros H. induction addons as [|a l IH]; intros cl; cbn [fold_left]; [reflexivity|].
  rewrite (tree_get_agree kb t1 t2 _ _ H). apply IH.
Qed.

Lemma put_cbs_agree kb prof cbs : forall t1 t2, trees_agree kb t1 t2 ->
  trees_agree kb (fold_left (put_cb_apply kb prof) cbs t1) (fold_left (put_cb_apply kb prof) cbs t2).
Proof.
  induction cbs as [|c cbs IH]; intros t1 t2 H; [exact H|]. cbn [fold_left]. apply IH.
  intros l t. unfold put_cb_apply. rewrite !tree_lookup_store, (tree_get_agree kb t1 t2 _ _ H), (addons_fold_agree kb t1 t2 _ H).
  destruct (tkey_eqb _ _); [reflexivity|apply H].
Qed.

Lemma put_cbs_lookup_other k kb prof cbs l t : k <> kb -> forall trees,
  tree_lookup (kb, l, t) (fold_left (put_cb_apply k prof) cbs trees) = tree_lookup (kb, l, t) trees.
Proof.
  intros Hk. induction cbs as [|c cbs IH]; intros trees; [reflexivity|]. cbn [fold_left]. rewrite IH.
  unfold put_cb_apply. rewrite tree_lookup_store, tkey_eqb_false; [reflexivity|congruence].
Qed.

Lemma put_agree_same pi st1 st2 : agree_on (sid_key (pi_sid pi)) st1 st2 ->
  agree_on (sid_key (pi_sid pi)) (fst (st_put None pi st1)) (fst (st_put None pi st2)).
Proof.
  intros [Hs Ht]. rewrite !st_put_none. cbn [fst].
  assert (Hres : pi_res pi st1 = pi_res pi st2) by (unfold pi_res, pi_seg0; rewrite (Hs (pi_sid pi) eq_refl); reflexivity).
  split; cbn [st_segs st_trees].
  - intros k Ek. rewrite !seg_lookup_store, Hres, (Hs k Ek). reflexivity.
  - rewrite Hres. apply put_cbs_agree, Ht.
Qed.

Lemma put_agree_other pi st kb : sid_key (pi_sid pi) <> kb -> agree_on kb (fst (st_put None pi st)) st.
Proof.
  intros Hk. rewrite st_put_none. cbn [fst]. split; cbn [st_segs st_trees].
  - intros k Ek. rewrite seg_lookup_store. rewrite Ek.
    destruct (beqb kb (sid_key (pi_sid pi))) eqn:E; [apply beqb_true in E; congruence|reflexivity].
  - intros l t. apply put_cbs_lookup_other, Hk.
Qed.

Lemma st_after_snoc pis pi : st_after (pis ++ [pi]) = fst (st_put None pi (st_after pis)).
Proof. unfold st_after. rewrite fold_left_app. reflexivity. Qed.

(* the lookups concerning series kb only depend on the uploads into kb *)
Lemma agree_after kb pis : agree_on kb (st_after pis) (st_after (series_puts kb pis)).
Proof.
  induction pis as [|pi pis IH] using rev_ind; [apply agree_refl|].
  unfold series_puts. rewrite filter_app. cbn [filter]. fold (series_puts kb pis). rewrite st_after_snoc.
  destruct (beqb (sid_key (pi_sid pi)) kb) eqn:E.
  - apply beqb_true in E. subst kb. rewrite st_after_snoc. apply put_agree_same, IH.
  - rewrite app_nil_r. eapply agree_trans; [apply put_agree_other|exact IH].
    intros Hk. rewrite Hk, beqb_refl in E. discriminate.
Qed.

(* ---- consistency: the uploads with one key all match a selector or none does ---- *)
Lemma filter_comm {A} (f g : A -> bool) l : filter f (filter g l) = filter g (filter f l).
Proof.
  induction l as [|x l IH]; [reflexivity|]. cbn [filter].
  destruct (g x) eqn:Eg, (f x) eqn:Ef; cbn [filter]; rewrite ?Eg, ?Ef, IH; reflexivity.
Qed.

Lemma filter_all {A} (f : A -> bool) l : (forall x, In x l -> f x = true) -> filter f l = l.
Proof.
  induction l as [|x l IH]; intros H; [reflexivity|]. cbn [filter]. rewrite (H x (or_introl eq_refl)). f_equal.
  apply IH. intros y Hy. apply H. right. exact Hy.
Qed.

Lemma filter_none {A} (f : A -> bool) l : (forall x, In x l -> f x = false) -> filter f l = [].
Proof.
  induction l as [|x l IH]; intros H; [reflexivity|]. cbn [filter]. rewrite (H x (or_introl eq_refl)).
  apply IH. intros y Hy. apply H. right. exact Hy.
Qed.

Definition keep (sel : sid) (pi : put_input) : bool := negb (sel_matches sel (pi_sid pi)).

Lemma series_same_sid pis kb pi pi' : key_consistent pis ->
  In pi (series_puts kb pis) -> In pi' (series_puts kb pis) -> pi_sid pi = pi_sid pi'.
Proof.
  intros Hc H1 H2. apply filter_In in H1, H2. destruct H1 as [H1 E1], H2 as [H2 E2].
  apply beqb_true in E1, E2. apply Hc; congruence.
Qed.

Lemma series_puts_filter kb f pis : series_puts kb (filter f pis) = filter f (series_puts kb pis).
Proof. unfold series_puts. apply filter_comm. Qed.

Lemma series_filter_cases sel pis kb : key_consistent pis ->
  (series_puts kb (filter (keep sel) pis) = series_puts kb pis /\ forall pi, In pi (series_puts kb pis) -> keep sel pi = true) \/
  (series_puts kb (filter (keep sel) pis) = [] /\ forall pi, In pi (series_puts kb pis) -> keep sel pi = false).
Proof.
  intros Hc. rewrite !series_puts_filter.
  destruct (series_puts kb pis) as [|pi0 L] eqn:EL; [left; split; [reflexivity|intros ? []]|].
  assert (Hsame : forall pi, In pi (pi0 :: L) -> keep sel pi = keep sel pi0).
  { intros pi Hpi. unfold keep. rewrite (series_same_sid pis kb pi pi0 Hc); [reflexivity| |]; rewrite EL; [exact Hpi|left; reflexivity]. }
  destruct (keep sel pi0) eqn:E0.
  - left. split; [apply filter_all|]; intros pi Hpi; rewrite (Hsame pi Hpi); reflexivity.
  - right. split; [apply filter_none|]; intros pi Hpi; rewrite (Hsame pi Hpi); reflexivity.
Qed.

(* ---- the invariant that makes Delete complete: every tree stored under a key of a live series belongs
   to a node the delete walk of that series' segment reports ---- *)
Definition keys_are_nodes (st : st_state) : Prop :=
  forall ks l t tr, In ks (st_segs st) -> tree_lookup (sid_key (fst ks), l, t) (st_trees st) = Some tr ->
                    cb_hits l t (del_cbs (snd ks)) = true.

Lemma st_init_lookups kb : (forall k, seg_lookup k (st_segs st_init) = None) /\ forall l t, tree_lookup (kb, l, t) (st_trees st_init) = None.
Proof. split; reflexivity. Qed.

Lemma ms_has_in ms kb : ms_has ms kb = true <-> exists ks, In ks ms /\ sid_key (fst ks) = kb.
Proof.
  unfold ms_has. rewrite existsb_exists. split; intros (ks & H1 & H2); exists ks; split; auto; apply beqb_true; auto.
Qed.

Lemma delete_agree sel pis kb : key_consistent pis -> keys_are_nodes (st_after pis) ->
  agree_on kb (st_delete sel (st_after pis)) (st_after (filter (keep sel) pis)).
Proof.
  intros Hc HK. set (A := st_after pis). set (ms := st_matching sel A).
  destruct (delete_fold ms A) as (D1 & D2 & _). cbn zeta in D1, D2. fold (st_delete sel A) in D1, D2.
  change (fold_left st_delete_series ms A) with (st_delete sel A) in D1, D2.
  destruct (Inv2_after pis) as [HS HL]. fold A in HS, HL.
  (* the right-hand side only sees the kept uploads into kb *)
  eapply agree_trans; [|apply agree_sym, agree_after].
  destruct (ms_has ms kb) eqn:Ehas.
  - (* the series is deleted *)
    apply ms_has_in in Ehas. destruct Ehas as (ks & Hks & Ekb). unfold ms, st_matching in Hks.
    apply filter_In in Hks. destruct Hks as [Hks Hmatch].
    assert (Hnone : series_puts kb (filter (keep sel) pis) = []).
    { destruct (series_filter_cases sel pis kb Hc) as [[_ Hall]|[H _]]; [|exact H]. exfalso.
      destruct (st_after_sids pis ks Hks) as (pi & Hpi & Esid).
      assert (Hin : In pi (series_puts kb pis)) by (apply filter_In; split; [exact Hpi|rewrite <- Esid, Ekb; apply beqb_refl]).
      specialize (Hall pi Hin). unfold keep in Hall. rewrite <- Esid, Hmatch in Hall. discriminate. }
    rewrite Hnone. split.
    + intros k Ek. rewrite D1. replace (ms_has ms (sid_key k)) with true; [reflexivity|].
      symmetry. apply ms_has_in. exists ks. split; [apply filter_In; split; assumption|congruence].
    + intros l t. rewrite D2. cbn [st_after fold_left st_init st_trees tree_lookup].
      destruct (ms_hits ms kb l t) eqn:Eh; [reflexivity|].
      destruct (tree_lookup (kb, l, t) (st_trees A)) as [tr|] eqn:El; [|reflexivity]. exfalso.
      rewrite <- Ekb in El. pose proof (HK ks l t tr Hks El) as Hhit.
      unfold ms_hits in Eh. assert (existsb (fun ks0 => beqb (sid_key (fst ks0)) kb && cb_hits l t (del_cbs (snd ks0))) ms = true); [|congruence].
      apply existsb_exists. exists ks. split; [apply filter_In; split; assumption|]. rewrite Ekb, beqb_refl, Hhit. reflexivity.
  - (* the series is not touched by the delete *)
    assert (Hnh : forall l t, ms_hits ms kb l t = false).
    { intros l t. unfold ms_hits. destruct (existsb _ ms) eqn:E; [|reflexivity]. apply existsb_exists in E.
      destruct E as (ks & Hks & Hb). apply andb_true_iff in Hb. destruct Hb as [Hb _].
      assert (ms_has ms kb = true) by (apply ms_has_in; exists ks; split; [exact Hks|apply beqb_true, Hb]). congruence. }
    assert (Hleft : agree_on kb (st_delete sel A) A).
    { split; [intros k Ek; rewrite D1, Ek, Ehas; reflexivity|intros l t; rewrite D2, Hnh; reflexivity]. }
    eapply agree_trans; [exact Hleft|]. eapply agree_trans; [apply agree_after|].
    destruct (series_filter_cases sel pis kb Hc) as [[H _]|[H Hall]]; [rewrite H; apply agree_refl|].
    (* all uploads into kb match the selector: then the table entry of kb would have been deleted *)
    destruct (series_puts kb pis) as [|pi0 L] eqn:EL; [rewrite H; apply agree_refl|]. exfalso.
    assert (Hpi0 : In pi0 pis /\ sid_key (pi_sid pi0) = kb).
    { assert (Hin : In pi0 (series_puts kb pis)) by (rewrite EL; left; reflexivity).
      apply filter_In in Hin. destruct Hin as [Hin Hb]. apply beqb_true in Hb. auto. }
    destruct Hpi0 as [Hpi0 Ek0].
    specialize (HL (pi_sid pi0)). rewrite Ek0 in HL. unfold last_put in HL. rewrite EL in HL.
    destruct (seg_lookup (pi_sid pi0) (st_segs A)) as [s|] eqn:Es.
    + destruct (seg_lookup_in _ _ _ Es) as (ks & Hks & Hk & _).
      destruct (st_after_sids pis ks Hks) as (pi & Hpi & Esid).
      assert (Hm : sel_matches sel (fst ks) = true).
      { assert (Hin : In pi (pi0 :: L)) by (rewrite <- EL; apply filter_In; split; [exact Hpi|rewrite <- Esid, Hk, Ek0; apply beqb_refl]).
        specialize (Hall pi Hin). unfold keep in Hall. rewrite Esid. destruct (sel_matches sel (pi_sid pi)); [reflexivity|discriminate]. }
      assert (ms_has ms kb = true); [|congruence].
      apply ms_has_in. exists ks. split; [apply filter_In; split; assumption|congruence].
    + destruct (rev (pi0 :: L)) eqn:Er; [|destruct HL].
      assert (Hin : In pi0 (rev (pi0 :: L))) by (apply in_rev; rewrite rev_involutive; left; reflexivity). rewrite Er in Hin. destruct Hin.
Qed.

(* ---- from agreement on every series to equivalence of the states ---- *)
Lemma lookup_none_gt k l : Forall (fun ks' => bcmp (sid_key k) (sid_key (fst ks')) = Lt) l -> seg_lookup k l = None.
Proof.
  induction 1 as [|ks l H _ IH]; [reflexivity|]. destruct ks as [k1 s1]. cbn [seg_lookup]. unfold sid_eqb.
  cbn [fst] in H. rewrite (beqb_false_lt _ _ H). exact IH.
Qed.

Lemma segs_ext l1 : forall l2, segs_sorted l1 -> segs_sorted l2 ->
  (forall k, seg_lookup k l1 = seg_lookup k l2) ->
  (forall e1 e2, In e1 l1 -> In e2 l2 -> sid_key (fst e1) = sid_key (fst e2) -> fst e1 = fst e2) -> l1 = l2.
Proof.
  induction l1 as [|[k1 s1] l1 IH]; intros [|[k2 s2] l2] S1 S2 HL HS.
  - reflexivity.
  - specialize (HL k2). cbn [seg_lookup] in HL. unfold sid_eqb in HL. rewrite beqb_refl in HL. discriminate.
  - specialize (HL k1). cbn [seg_lookup] in HL. unfold sid_eqb in HL. rewrite beqb_refl in HL. discriminate.
  - cbn [segs_sorted fst] in S1, S2. destruct S1 as [G1 S1], S2 as [G2 S2].
    destruct (bcmp (sid_key k1) (sid_key k2)) eqn:E.
    + apply bcmp_eq in E.
      assert (Ek : k1 = k2) by (apply (HS (k1, s1) (k2, s2)); [left; reflexivity|left; reflexivity|exact E]). subst k2.
      assert (Es : s1 = s2).
      { specialize (HL k1). cbn [seg_lookup] in HL. unfold sid_eqb in HL. rewrite beqb_refl in HL. congruence. }
      subst s2. f_equal. apply IH; try assumption.
      * intros k. specialize (HL k). cbn [seg_lookup] in HL. unfold sid_eqb in HL.
        destruct (beqb (sid_key k) (sid_key k1)) eqn:Ek; [|exact HL].
        apply beqb_true in Ek. rewrite !lookup_none_gt; [reflexivity| |]; rewrite Ek; assumption.
      * intros e1 e2 H1 H2. apply HS; right; assumption.
    + exfalso. specialize (HL k1). cbn [seg_lookup] in HL. unfold sid_eqb in HL. rewrite beqb_refl in HL.
      rewrite (beqb_false_lt _ _ E), lookup_none_gt in HL; [discriminate|].
      eapply Forall_impl; [|exact G2]. cbn. intros ks' H. eapply bcmp_lt_trans; eauto.
    + exfalso. apply bcmp_lt_gt in E. specialize (HL k2). cbn [seg_lookup] in HL. unfold sid_eqb in HL. rewrite beqb_refl in HL.
      rewrite (beqb_false_lt _ _ E), lookup_none_gt in HL; [discriminate|].
      eapply Forall_impl; [|exact G1]. cbn. intros ks' H. eapply bcmp_lt_trans; eauto.
Qed.

Lemma filter_sorted f l : segs_sorted l -> segs_sorted (filter f l).
Proof.
  induction l as [|ks l IH]; intros H; [exact I|]. cbn [segs_sorted] in H. destruct H as [H1 H2]. cbn [filter].
  destruct (f ks); [|apply IH, H2]. cbn [segs_sorted]. split; [|apply IH, H2].
  apply Forall_forall. intros x Hx. apply filter_In in Hx. rewrite Forall_forall in H1. apply H1, Hx.
Qed.

(* C11_delete, state form: deleting by selector leaves exactly the state in which the matching series
   were never ingested (same table; the same tree, or none, under every key) *)
Lemma delete_equiv sel pis : key_consistent pis -> keys_are_nodes (st_after pis) ->
  st_equiv (st_delete sel (st_after pis)) (st_after (filter (keep sel) pis)).
Proof.
  intros Hc HK. split.
  - destruct (delete_fold (st_matching sel (st_after pis)) (st_after pis)) as (_ & _ & D3). cbn zeta in D3.
    change (fold_left st_delete_series (st_matching sel (st_after pis)) (st_after pis)) with (st_delete sel (st_after pis)) in D3.
    destruct (Inv2_after pis) as [HS _]. destruct (Inv2_after (filter (keep sel) pis)) as [HS' _].
    apply segs_ext.
    + rewrite D3. apply filter_sorted, HS.
    + exact HS'.
    + intros k. destruct (delete_agree sel pis (sid_key k) Hc HK) as [H _]. apply H. reflexivity.
    + intros e1 e2 H1 H2 Ek. rewrite D3 in H1. apply filter_In in H1. destruct H1 as [H1 _].
      destruct (st_after_sids pis e1 H1) as (p1 & Hp1 & E1). destruct (st_after_sids _ e2 H2) as (p2 & Hp2 & E2).
      apply filter_In in Hp2. destruct Hp2 as [Hp2 _]. rewrite E1, E2. apply Hc; congruence.
  - intros [[kb l] t]. destruct (delete_agree sel pis kb Hc HK) as [_ H]. apply H.
Qed.

(* every later operation sees equivalent states alike *)
Lemma st_retention_series_equiv thr st1 st2 ks : st_equiv st1 st2 ->
  st_equiv (st_retention_series thr st1 ks) (st_retention_series thr st2 ks).
Proof.
  intros [Hs Ht]. unfold st_retention_series. destruct (s_delete_before_unix thr (snd ks)) as [[s' cbs] del].
  pose proof (tree_removes_equiv (fun c => (sid_key (fst ks), fst c, snd c)) cbs _ _ Ht) as H.
  destruct del; (split; cbn [st_segs st_trees]; [rewrite Hs; reflexivity|exact H]).
Qed.

Lemma fold_equiv {A} (f : st_state -> A -> st_state) (l : list A) :
  (forall st1 st2 x, st_equiv st1 st2 -> st_equiv (f st1 x) (f st2 x)) ->
  forall st1 st2, st_equiv st1 st2 -> st_equiv (fold_left f l st1) (fold_left f l st2).
Proof. intros Hf. induction l as [|x l IH]; intros st1 st2 H; [exact H|]. cbn [fold_left]. apply IH, Hf, H. Qed.

Lemma st_step_equiv rt st1 st2 o : st_equiv st1 st2 ->
  st_equiv (fst (st_step rt st1 o)) (fst (st_step rt st2 o)) /\ snd (st_step rt st1 o) = snd (st_step rt st2 o).
Proof.
  intros H. destruct o as [pi|sel f u|sel|thr]; cbn [st_step].
  - destruct (st_put_equiv rt pi st1 st2 H) as [H1 H2].
    destruct (st_put rt pi st1) as [a1 b1], (st_put rt pi st2) as [a2 b2]. cbn [fst snd] in *. split; [exact H1|congruence].
  - cbn [fst snd]. split; [exact H|]. rewrite (st_get_equiv sel f u st1 st2 H). reflexivity.
  - cbn [fst snd]. split; [|reflexivity]. unfold st_delete. destruct H as [Hs Ht]. rewrite Hs.
    apply fold_equiv; [intros; apply st_delete_series_equiv; assumption|split; assumption].
  - cbn [fst snd]. split; [|reflexivity]. unfold st_retention. destruct H as [Hs Ht]. rewrite Hs.
    apply fold_equiv; [intros; apply st_retention_series_equiv; assumption|split; assumption].
Qed.

Lemma st_run_equiv rt ops : forall st1 st2, st_equiv st1 st2 ->
  st_equiv (fst (st_run rt ops st1)) (fst (st_run rt ops st2)) /\ snd (st_run rt ops st1) = snd (st_run rt ops st2).
Proof.
  induction ops as [|o ops IH]; intros st1 st2 H; [split; [exact H|reflexivity]|]. cbn [st_run].
  destruct (st_step_equiv rt st1 st2 o H) as [H1 H2].
  destruct (st_step rt st1 o) as [a1 o1], (st_step rt st2 o) as [a2 o2]. cbn [fst snd] in H1, H2. subst o2.
  destruct (IH a1 a2 H1) as [G1 G2].
  destruct (st_run rt ops a1) as [b1 r1], (st_run rt ops a2) as [b2 r2]. cbn [fst snd] in *. split; [exact G1|congruence].
Qed.

(* ------------------------------------------------------------------------------------------ *)
(* keys_are_nodes: every stored tree key of a live series is a node of its segment tree, and the
   delete walk with threshold maxTime reports every node                                        *)

Fixpoint nkeys (lvl : nat) (n : snode) {struct lvl} : list skey :=
  (lvl, sn_time n) ::
  match lvl with
  | O => []
  | S l => flat_map (fun o => match o with Some c => nkeys l c | None => [] end) (sn_ch n)
  end.
Definition okeysN (l : nat) (ch : list (option snode)) : list skey :=
  flat_map (fun o => match o with Some c => nkeys l c | None => [] end) ch.
Definition s_nkeys (s : segment) : list skey := match s_root s with Some (lvl, n) => nkeys lvl n | None => [] end.

Lemma nkeys_S l t p s w ch : nkeys (S l) (SNode t p s w ch) = (S l, t) :: okeysN l ch.
Proof. reflexivity. Qed.
Lemma nkeys_head lvl n : In (lvl, sn_time n) (nkeys lvl n).
Proof. destruct lvl; left; reflexivity. Qed.

Lemma okeysN_in l ch k : In k (okeysN l ch) <-> exists c, In (Some c) ch /\ In k (nkeys l c).
Proof.
  unfold okeysN. rewrite in_flat_map. split.
  - intros ([c|] & H1 & H2); [exists c; auto|destruct H2].
  - intros (c & H1 & H2). exists (Some c). auto.
Qed.

Lemma fill_children_keeps l base a b c : forall ch i, In (Some c) ch -> In (Some c) (fill_children l base a b i ch).
Proof.
  induction ch as [|o ch IH]; intros i H; [destruct H|]. cbn [fill_children]. destruct H as [->|H]; [left; reflexivity|].
  right. apply IH, H.
Qed.

Lemma put_children_in l a b smp c ch : In (Some c) ch ->
  In (Some (fst (s_put_node l a b smp c))) (map fst (map (put_child l a b smp) ch)).
Proof.
  intros H. rewrite map_map. apply in_map_iff. exists (Some c). split; [|exact H].
  cbn [put_child]. destruct (s_put_node l a b smp c). reflexivity.
Qed.

Lemma put_node_nkeys : forall lvl a b smp n,
  (forall k, In k (nkeys lvl n) -> In k (nkeys lvl (fst (s_put_node lvl a b smp n)))) /\
  Forall (fun cb => In (pc_key cb) (nkeys lvl (fst (s_put_node lvl a b smp n)))) (snd (s_put_node lvl a b smp n)).
Proof.
  induction lvl as [|l IH]; intros a b smp [t p s w ch].
  - rewrite put_node_unfold_0. cbv zeta. destruct (is_outside _); [split; [auto|constructor]|]. cbn [fst snd]. split.
    + intros k H. exact H.
    + destruct (covers _ || _ || p); [|constructor]. constructor; [|constructor]. left. reflexivity.
  - rewrite put_node_unfold_S. cbv zeta. destruct (is_outside _); [split; [auto|constructor]|]. cbn [fst snd].
    set (ch1 := if creates _ then fill_children l (trunc_to (S l) t) a b 0 ch else ch).
    assert (Hch1 : forall c, In (Some c) ch -> In (Some c) ch1).
    { intros c H. unfold ch1. destruct (creates _); [apply fill_children_keeps, H|exact H]. }
    split.
    + intros k. rewrite !nkeys_S. intros [<-|H]; [left; reflexivity|right].
      apply okeysN_in in H. destruct H as (c & Hc & Hk). apply okeysN_in.
      exists (fst (s_put_node l a b smp c)). split; [apply put_children_in, Hch1, Hc|]. apply (IH a b smp c), Hk.
    + apply Forall_app. split.
      * destruct (covers _ || _ || p); [|constructor]. constructor; [|constructor]. rewrite nkeys_S. left. reflexivity.
      * rewrite nkeys_S. apply Forall_forall. intros cb Hcb. right.
        apply in_concat in Hcb. destruct Hcb as (cbs & Hcbs & Hin). rewrite map_map in Hcbs.
        apply in_map_iff in Hcbs. destruct Hcbs as ([c|] & <- & Ho); [|destruct Hin].
        apply okeysN_in. exists (fst (s_put_node l a b smp c)). split; [apply put_children_in, Ho|].
        destruct (IH a b smp c) as [_ H]. rewrite Forall_forall in H. apply H.
        cbn [put_child] in Hin. destruct (s_put_node l a b smp c). exact Hin.
Qed.

Lemma list_set_in {A} (x : A) : forall l i l', list_set i x l = Some l' -> In x l'.
Proof.
  induction l as [|y l IH]; intros i l' H; [discriminate|]. cbn [list_set] in H. destruct i as [|i].
  - injection H as <-. left. reflexivity.
  - destruct (list_set i x l) as [r|] eqn:E; [|discriminate]. injection H as <-. right. eapply IH, E.
Qed.

Lemma grow_loop_nkeys a b : forall fuel lvl n k, In k (nkeys lvl n) ->
  In k (nkeys (fst (s_grow_loop fuel a b lvl n)) (snd (s_grow_loop fuel a b lvl n))).
Proof.
  induction fuel as [|f IH]; intros lvl n k H; cbn [s_grow_loop].
  - destruct (relationship _ _ a b); exact H.
  - destruct (relationship _ _ a b); try exact H;
      (destruct (sn_replace lvl _ n) as [root1|] eqn:E; [|exact H]; apply IH;
       unfold sn_replace in E; destruct (replace_idx _ _ _ <? 0); [discriminate|];
       destruct (list_set _ (Some n) (repeat None 10)) as [ch'|] eqn:El; [|discriminate]; injection E as <-;
       rewrite nkeys_S; right; apply okeysN_in; exists n; split; [eapply list_set_in, El|exact H]).
Qed.

Lemma s_put_nkeys a b smp s :
  (forall k, In k (s_nkeys s) -> In k (s_nkeys (fst (s_put a b smp s)))) /\
  Forall (fun cb => In (pc_key cb) (s_nkeys (fst (s_put a b smp s)))) (snd (s_put a b smp s)).
Proof.
  unfold s_put.
  assert (Hg : forall k, In k (s_nkeys s) -> In k (s_nkeys (s_grow a b s))).
  { intros k. unfold s_nkeys, s_grow. destruct (s_root s) as [[lvl n]|]; [|intros []]. cbn [s_root].
    intros H. pose proof (grow_loop_nkeys (Z.min a (sn_time n)) (Z.max b (sn_time n + pow10 lvl)) (max_level - lvl) lvl n k H) as G.
    destruct (s_grow_loop _ _ _ lvl n). exact G. }
  unfold s_nkeys at 2 3. unfold s_nkeys in Hg. destruct (s_root (s_grow a b s)) as [[lvl n]|] eqn:E.
  - destruct (put_node_nkeys lvl a b smp n) as [H1 H2]. destruct (s_put_node lvl a b smp n) as [n' cbs]. cbn [fst snd s_root] in *.
    split; [intros k Hk; apply H1, Hg, Hk|exact H2].
  - cbn [fst snd]. rewrite E. split; [exact Hg|constructor].
Qed.

Lemma s_nkeys_root s1 s2 : s_root s1 = s_root s2 -> s_nkeys s1 = s_nkeys s2.
Proof. unfold s_nkeys. intros ->. reflexivity. Qed.

Lemma del_node_all : forall lvl thr n, wf lvl n -> sn_time n + pow10 lvl <= thr ->
  forall k, In k (nkeys lvl n) -> In k (snd (fst (s_del_node lvl thr n))).
Proof.
  induction lvl as [|l IH]; intros thr [t p s w ch] Hwf Hthr k Hk; cbn [sn_time] in Hthr.
  - cbn [s_del_node]. pose proof (pow10_pos 0). replace (thr <? t) with false by lia.
    replace (t + pow10 0 <=? thr) with true by lia. cbn [fst snd]. exact Hk.
  - cbn [s_del_node]. pose proof (pow10_pos (S l)). replace (thr <? t) with false by lia.
    replace (t + pow10 (S l) <=? thr) with true by lia. cbn [fst snd].
    rewrite nkeys_S in Hk. destruct Hk as [<-|Hk]; [left; reflexivity|]. right.
    apply okeysN_in in Hk. destruct Hk as (c & Hc & Hk).
    cbn [wf] in Hwf. destruct Hwf as (_ & Hlen & Hslots).
    apply in_concat. eexists. split.
    + rewrite map_map. apply in_map_iff. exists (Some c). split; [reflexivity|exact Hc].
    + cbn beta iota. pose proof (IH thr c) as G.
      destruct (s_del_node l thr c) as [[c' cbs] del]. cbn [fst snd] in *. apply G; [|  |exact Hk].
      * eapply slots_In; eauto.
      * destruct (slots_bounds _ (pow10 l) (pow10_pos l) ch t c Hslots Hc) as [B1 B2]. rewrite Hlen in B2.
        rewrite pow10_S in Hthr. lia.
Qed.

Lemma cb_hits_in l t cbs : In (l, t) cbs -> cb_hits l t cbs = true.
Proof.
  intros H. unfold cb_hits. apply existsb_exists. exists (l, t). split; [exact H|]. cbn [fst snd].
  rewrite Nat.eqb_refl, Z.eqb_refl. reflexivity.
Qed.

Definition block_deletable (K : Z) : Prop := (K + 1) * pow10 8 <= unix_to_slot max_time_unix.

Lemma del_cbs_all K s : block_deletable K -> seg_ok K s -> forall k, In k (s_nkeys s) -> In k (del_cbs s).
Proof.
  intros HK Hok k. unfold s_nkeys, del_cbs, s_delete_before_unix, s_delete_before, seg_ok in *.
  destruct (s_root s) as [[lvl n]|]; [|intros []]. destruct Hok as (_ & Hwf & _ & [_ Hblk]). intros Hk.
  pose proof (del_node_all lvl (unix_to_slot max_time_unix) n Hwf ltac:(unfold block_deletable in HK; lia) k Hk) as G.
  destruct (s_del_node lvl (unix_to_slot max_time_unix) n) as [[n' cbs] del]. cbn [fst snd] in G.
  destruct del; exact G.
Qed.

Lemma put_cbs_lookup_some k prof cbs : forall trees key tr,
  tree_lookup key (fold_left (put_cb_apply k prof) cbs trees) = Some tr ->
  (exists c, In c cbs /\ key = (k, pc_lvl c, pc_t c)) \/ exists tr', tree_lookup key trees = Some tr'.
Proof.
  induction cbs as [|c cbs IH]; intros trees key tr H; [right; exists tr; exact H|]. cbn [fold_left] in H.
  destruct (IH _ _ _ H) as [(c' & Hc' & E)|(tr' & H')]; [left; exists c'; split; [right; exact Hc'|exact E]|].
  unfold put_cb_apply in H'. rewrite tree_lookup_store in H'.
  destruct (tkey_eqb key (k, pc_lvl c, pc_t c)) eqn:E; [|right; exists tr'; exact H'].
  apply tkey_eqb_true in E. left. exists c. split; [left; reflexivity|exact E].
Qed.

Lemma seg_store_has k s l : In (k, s) (seg_store k s l).
Proof.
  induction l as [|[k1 s1] l IH]; cbn [seg_store]; [left; reflexivity|].
  destruct (bcmp (sid_key k) (sid_key k1)); [left; reflexivity|left; reflexivity|right; exact IH].
Qed.

Lemma seg_store_keeps k s l ks : In ks l -> sid_key (fst ks) <> sid_key k -> In ks (seg_store k s l).
Proof.
  induction l as [|[k1 s1] l IH]; intros H Hk; [destruct H|]. cbn [seg_store].
  destruct (bcmp (sid_key k) (sid_key k1)) eqn:E.
  - destruct H as [<-|H]; [apply bcmp_eq in E; cbn [fst] in Hk; congruence|right; exact H].
  - right. exact H.
  - destruct H as [<-|H]; [left; reflexivity|right; apply IH; assumption].
Qed.

Definition valid_put (K : Z) (pi : put_input) : Prop := valid_range K (fst (pi_ab pi)) (snd (pi_ab pi)).

Lemma segs_ok_after K pis : Forall (valid_put K) pis -> forall ks, In ks (st_segs (st_after pis)) -> seg_ok K (snd ks).
Proof.
  induction pis as [|pi pis IH] using rev_ind; intros H ks Hks; [destruct Hks|].
  apply Forall_app in H. destruct H as [H1 H2]. inversion H2 as [|? ? Hv _]; subst.
  rewrite st_after_snoc, st_put_none in Hks. cbn [fst st_segs] in Hks. apply seg_store_in in Hks.
  destruct Hks as [->|Hks]; [|apply IH; assumption]. cbn [snd]. unfold pi_res. apply s_put_ok; [exact Hv|].
  unfold pi_seg0. destruct (seg_lookup (pi_sid pi) (st_segs (st_after pis))) as [s|] eqn:E; [|exact I].
  destruct (seg_lookup_in _ _ _ E) as (ks & Hks & _ & <-). exact (IH H1 ks Hks).
Qed.

Lemma keys_nodes_after pis : forall kb l t tr,
  tree_lookup (kb, l, t) (st_trees (st_after pis)) = Some tr ->
  exists ks, In ks (st_segs (st_after pis)) /\ sid_key (fst ks) = kb /\ In (l, t) (s_nkeys (snd ks)).
Proof.
  induction pis as [|pi pis IH] using rev_ind; intros kb l t tr H; [discriminate|].
  rewrite st_after_snoc, st_put_none in H |- *. cbn [fst st_segs st_trees] in H |- *.
  set (A := st_after pis) in *. destruct (Inv2_after pis) as [HS _]. fold A in HS.
  destruct (s_put_nkeys (fst (pi_ab pi)) (snd (pi_ab pi)) (t_total (pi_tree pi)) (pi_seg0 pi A)) as [P1 P2].
  fold (pi_res pi A) in P1, P2.
  destruct (beqb (sid_key (pi_sid pi)) kb) eqn:Eb;
    [apply beqb_true in Eb; rename Eb into Ek
    |assert (Ek : sid_key (pi_sid pi) <> kb) by (intros E; rewrite E, beqb_refl in Eb; discriminate)].
  - subst kb. exists (pi_sid pi, fst (pi_res pi A)). split; [apply seg_store_has|]. split; [reflexivity|]. cbn [snd].
    destruct (put_cbs_lookup_some _ _ _ _ _ _ H) as [(c & Hc & E)|(tr' & H')].
    + injection E as -> ->. rewrite Forall_forall in P2. apply (P2 c Hc).
    + destruct (IH _ _ _ _ H') as (ks & Hks & Hk & Hn). apply P1.
      rewrite (s_nkeys_root (pi_seg0 pi A) (snd ks)); [exact Hn|].
      unfold pi_seg0. replace (seg_lookup (pi_sid pi) (st_segs A)) with (Some (snd ks)); [reflexivity|].
      rewrite <- (sorted_lookup _ HS ks Hks). clear -Hk. induction (st_segs A) as [|[k1 s1] l' IHl]; [reflexivity|].
      cbn [seg_lookup]. unfold sid_eqb. rewrite Hk, IHl. reflexivity.
  - rewrite put_cbs_lookup_other in H by exact Ek. destruct (IH _ _ _ _ H) as (ks & Hks & Hk & Hn).
    exists ks. split; [apply seg_store_keeps; [exact Hks|congruence]|auto].
Qed.

Lemma keys_are_nodes_after K pis : block_deletable K -> Forall (valid_put K) pis -> keys_are_nodes (st_after pis).
Proof.
  intros HK Hv ks l t tr Hks H. apply cb_hits_in.
  destruct (keys_nodes_after pis _ _ _ _ H) as (ks' & Hks' & Hk & Hn).
  destruct (Inv2_after pis) as [HS _].
  assert (E : snd ks' = snd ks).
  { pose proof (sorted_lookup _ HS ks Hks) as L1. pose proof (sorted_lookup _ HS ks' Hks') as L2.
    assert (L : seg_lookup (fst ks') (st_segs (st_after pis)) = seg_lookup (fst ks) (st_segs (st_after pis))).
    { clear -Hk. induction (st_segs (st_after pis)) as [|[k1 s1] l' IHl]; [reflexivity|].
      cbn [seg_lookup]. unfold sid_eqb. rewrite Hk, IHl. reflexivity. }
    congruence. }
  rewrite <- E. apply (del_cbs_all K); [exact HK|apply (segs_ok_after K pis Hv ks' Hks')|exact Hn].
Qed.

(* C11_delete *)
Lemma delete_complete K sel pis : block_deletable K -> Forall (valid_put K) pis -> key_consistent pis ->
  st_equiv (st_delete sel (st_after pis)) (st_after (filter (keep sel) pis)).
Proof. intros HK Hv Hc. apply delete_equiv; [exact Hc|apply (keys_are_nodes_after K); assumption]. Qed.

Lemma delete_then_run K sel pis rt ops : block_deletable K -> Forall (valid_put K) pis -> key_consistent pis ->
  snd (st_run rt ops (st_delete sel (st_after pis))) = snd (st_run rt ops (st_after (filter (keep sel) pis))).
Proof. intros HK Hv Hc. apply st_run_equiv, (delete_complete K); assumption. Qed.

(* consequences spelled out: a deleted series answers nothing, its keys hold no tree, others are unchanged *)
Lemma delete_no_trees K sel pis : block_deletable K -> Forall (valid_put K) pis -> key_consistent pis ->
  forall pi l t, In pi pis -> sel_matches sel (pi_sid pi) = true ->
  tree_lookup (sid_key (pi_sid pi), l, t) (st_trees (st_delete sel (st_after pis))) = None /\
  seg_lookup (pi_sid pi) (st_segs (st_delete sel (st_after pis))) = None.
Proof.
  intros HK Hv Hc pi l t Hpi Hm. destruct (delete_complete K sel pis HK Hv Hc) as [Hs Ht].
  rewrite Hs, Ht.
  assert (Hnone : series_puts (sid_key (pi_sid pi)) (filter (keep sel) pis) = []).
  { destruct (series_filter_cases sel pis (sid_key (pi_sid pi)) Hc) as [[_ Hall]|[H _]]; [|exact H]. exfalso.
    assert (Hin : In pi (series_puts (sid_key (pi_sid pi)) pis)) by (apply filter_In; split; [exact Hpi|apply beqb_refl]).
    specialize (Hall pi Hin). unfold keep in Hall. rewrite Hm in Hall. discriminate. }
  destruct (agree_after (sid_key (pi_sid pi)) (filter (keep sel) pis)) as [G1 G2]. rewrite Hnone in G1, G2.
  split; [apply G2|apply G1; reflexivity].
Qed.

Lemma delete_other_unchanged K sel pis : block_deletable K -> Forall (valid_put K) pis -> key_consistent pis ->
  forall pi, In pi pis -> sel_matches sel (pi_sid pi) = false ->
  agree_on (sid_key (pi_sid pi)) (st_delete sel (st_after pis)) (st_after pis).
Proof.
  intros HK Hv Hc pi Hpi Hm. eapply agree_trans; [apply delete_agree; [exact Hc|apply (keys_are_nodes_after K); assumption]|].
  eapply agree_trans; [apply agree_after|]. apply agree_sym. eapply agree_trans; [apply agree_after|].
  destruct (series_filter_cases sel pis (sid_key (pi_sid pi)) Hc) as [[H _]|[_ Hall]]; [rewrite H; apply agree_refl|]. exfalso.
  assert (Hin : In pi (series_puts (sid_key (pi_sid pi)) pis)) by (apply filter_In; split; [exact Hpi|apply beqb_refl]).
  specialize (Hall pi Hin). unfold keep in Hall. rewrite Hm in Hall. discriminate.
Qed.
