(* StorageProofs.v — lemmas about Model/Storage.v *)
From Pyro Require Import Model.Base Model.Tree Model.Segment Model.Timeline Model.Storage.

Lemma st_get_readonly : forall rt sel f u st, fst (st_step rt st (OpGet sel f u)) = st.
Proof. reflexivity. Qed.
