(* SegMax.v — maximality of the cover: get never names a bucket that lies strictly below a present
   bucket which itself fits in the range. *)
From Pyro Require Import Model.Base Model.Float53 Model.Segment
  Proofs.SegmentProofs Proofs.SegStruct Proofs.SegGet Proofs.SegStore.
From Coq Require Import ZifyBool ZifyNat.
Local Open Scope Z_scope.

Definition fits (qa qb : Z) (k : skey) : Prop := qa <= snd k /\ snd k + pow10 (fst k) <= qb.
Definition sbelow (k anc : skey) : Prop :=
  (fst k < fst anc)%nat /\ snd anc <= snd k /\ snd k + pow10 (fst k) <= snd anc + pow10 (fst anc).

Lemma pkeys_region : forall lvl n k, wf lvl n -> In k (pkeys lvl n) ->
  (fst k <= lvl)%nat /\ sn_time n <= snd k /\ snd k + pow10 (fst k) <= sn_time n + pow10 lvl.
Proof.
  induction lvl as [|l IH]; intros [t p s w ch] k Hwf Hin; cbn [pkeys sn_time] in *.
  - rewrite app_nil_r in Hin. destruct p; [|destruct Hin]. destruct Hin as [<-|[]]. cbn. lia.
  - apply in_app_or in Hin. destruct Hin as [Hin|Hin].
    + destruct p; [|destruct Hin]. destruct Hin as [<-|[]]. cbn. lia.
    + apply in_flat_map in Hin. destruct Hin as [o [Ho Hin]]. destruct o as [c|]; [|destruct Hin].
      destruct Hwf as [_ [Hlen Hs]].
      pose proof (slots_In _ _ _ _ _ Hs Ho) as Hwc.
      pose proof (slots_bounds _ _ (pow10_pos l) _ _ _ Hs Ho) as [Hb1 Hb2]. rewrite Hlen in Hb2.
      destruct (IH c k Hwc Hin) as (I1 & I2 & I3). rewrite pow10_S. lia.
Qed.

Lemma get_region lvl a b n c : a < b -> wf lvl n -> In c (s_get_node lvl a b n) ->
  sn_time n <= gc_t c /\ gc_end c <= sn_time n + pow10 lvl /\ (gc_lvl c <= lvl)%nat.
Proof.
  intros Hab Hwf Hin. destruct (get_node_sound lvl a b n Hab Hwf) as [G1 G2].
  apply chain_lower in G1. rewrite Forall_forall in G1, G2. specialize (G1 c Hin). specialize (G2 c Hin).
  destruct G2 as (_ & _ & _ & _ & Hk). apply (pkeys_region lvl n _ Hwf) in Hk. cbn in Hk. lia.
Qed.

Lemma get_maximal : forall lvl n a b, a < b -> wf lvl n ->
  forall c k, In c (s_get_node lvl a b n) -> In k (pkeys lvl n) -> fits a b k -> ~ sbelow (gc_key c) k.
Proof.
  induction lvl as [|l IH]; intros [t p s w ch] a b Hab Hwf c k Hc Hk Hfit [S1 [S2 S3]].
  - pose proof (pkeys_region 0 _ k Hwf Hk) as (K1 & _). lia.
  - pose proof (pkeys_region (S l) _ k Hwf Hk) as (K1 & K2 & K3). cbn [sn_time] in *.
    pose proof (get_region (S l) a b _ c Hab Hwf Hc) as (C1 & C2 & C3). cbn [sn_time] in *.
    pose proof (pow10_pos (S l)) as HpS. pose proof (pow10_pos l) as Hp.
    pose proof (rel_spec t (t + pow10 (S l)) a b ltac:(lia) Hab) as Hr.
    rewrite get_node_unfold in Hc. cbv zeta in Hc.
    destruct Hwf as [Hm [Hlen Hs]].
    assert (Hlen0 : (length ch =? 0)%nat = false) by (rewrite Hlen; reflexivity).
    rewrite Hlen0, andb_false_r in Hc.
    destruct (p && covers _) eqn:E1.
    { destruct Hc as [<-|[]]. cbn in S1. lia. }
    destruct (is_outside _) eqn:E2; [destruct Hc|].
    cbn [pkeys] in Hk. apply in_app_or in Hk. destruct Hk as [Hk|Hk].
    { (* k is the node itself: it fits, so get would have stopped here *)
      destruct p; [|destruct Hk]. destruct Hk as [<-|[]]. destruct Hfit as [F1 F2]. cbn [fst snd] in F1, F2.
      cbn [andb] in E1.
      destruct (relationship t (t + pow10 (S l)) a b); cbn in E1, E2; try discriminate; lia. }
    (* c and k come from the children *)
    clear E1 E2 Hr K1 K2 K3 C1 C2 C3 Hlen Hlen0 Hm. revert t Hs Hc Hk.
    induction ch as [|o ch IHc]; intros t0 Hs Hc Hk; [destruct Hc|].
    cbn [flat_map slots] in *. destruct Hs as [Ho Hr].
    apply in_app_or in Hc. apply in_app_or in Hk.
    assert (Htail_c : forall c', In c' (flat_map (get_child l a b) ch) -> t0 + pow10 l <= gc_t c').
    { intros c' Hc'. apply in_flat_map in Hc'. destruct Hc' as [o' [Ho' Hc']]. destruct o' as [x|]; [|destruct Hc'].
      pose proof (slots_In _ _ _ _ _ Hr Ho') as Hwx.
      pose proof (slots_bounds _ _ Hp _ _ _ Hr Ho') as [B1 _].
      pose proof (get_region l a b x c' Hab Hwx Hc'). lia. }
    assert (Htail_k : forall k', In k' (flat_map (fun o => match o with Some c => pkeys l c | None => [] end) ch) ->
                                  t0 + pow10 l <= snd k').
    { intros k' Hk'. apply in_flat_map in Hk'. destruct Hk' as [o' [Ho' Hk']]. destruct o' as [x|]; [|destruct Hk'].
      pose proof (slots_In _ _ _ _ _ Hr Ho') as Hwx.
      pose proof (slots_bounds _ _ Hp _ _ _ Hr Ho') as [B1 _].
      pose proof (pkeys_region l x k' Hwx Hk'). lia. }
    destruct Hc as [Hc|Hc], Hk as [Hk|Hk].
    + destruct o as [x|]; [|destruct Hc]. destruct Ho as [Ht Hwx]. cbn [get_child] in Hc.
      exact (IH x a b Hab Hwx c k Hc Hk Hfit (conj S1 (conj S2 S3))).
    + destruct o as [x|]; [|destruct Hc]. destruct Ho as [Ht Hwx]. cbn [get_child] in Hc.
      pose proof (get_region l a b x c Hab Hwx Hc) as (G1 & G2 & _). specialize (Htail_k k Hk).
      unfold gc_end, gc_key in *. cbn [fst snd] in *. pose proof (pow10_pos (gc_lvl c)). lia.
    + destruct o as [x|]; [|destruct Hk]. destruct Ho as [Ht Hwx].
      pose proof (pkeys_region l x k Hwx Hk) as (_ & P2 & P3). specialize (Htail_c c Hc).
      unfold gc_end, gc_key in *. cbn [fst snd] in *. pose proof (pow10_pos (gc_lvl c)). lia.
    + exact (IHc _ Hr Hc Hk).
Qed.

Theorem maximal K ws a b : Forall (valid_write K) ws -> a < b ->
  let s := fst (run_writes ws) in
  forall c k, In c (s_get a b s) -> In k (s_pkeys s) -> fits a b k -> ~ sbelow (gc_key c) k.
Proof.
  intros Hv Hab. cbv zeta. pose proof (run_writes_ok K ws Hv) as Hok.
  unfold s_get, s_pkeys, seg_ok in *. destruct (s_root (fst (run_writes ws))) as [[lvl n]|]; [|intros c k []].
  destruct Hok as (_ & Hwf & _). intros c k. apply get_maximal; assumption.
Qed.
