(* TimelineProofs.v — lemmas about Model/Timeline.v (GenerateTimeline / PopulateTimeline). *)
From Pyro Require Import Model.Base Model.Segment Model.Timeline Proofs.SegmentProofs Proofs.SegStruct.
From Coq Require Import ZifyN ZifyNat ZifyBool Lia Sorted.
Local Open Scope Z_scope.

Lemma tl_generate_start a b : tl_st (tl_generate a b) = a.
Proof. reflexivity. Qed.

Lemma tl_generate_end a b : tl_et (tl_generate a b) = b.
Proof. reflexivity. Qed.

Lemma tl_generate_length a b :
  length (tl_samples (tl_generate a b)) = Z.to_nat (Z.quot (b - a) (pow10 (tl_lvl (tl_generate a b)))).
Proof. unfold tl_generate. cbn [tl_samples tl_lvl]. apply repeat_length. Qed.

(* ---- the level picked: nanosecond arithmetic vs. the integer statement ---- *)

(* durations[l] < totalDuration/1024 (int64 nanoseconds)  <=>  1024 * 10^l slots < b - a *)
Lemma level_test a b l : a <= b ->
  (pow10 l * ns_per_slot <? Z.quot ((b - a) * ns_per_slot) 1024) = (1024 * pow10 l <? b - a).
Proof.
  intros Hab. pose proof (pow10_pos l) as Hp. unfold ns_per_slot.
  rewrite Z.quot_div_nonneg by lia.
  destruct (Z.ltb_spec (1024 * pow10 l) (b - a)) as [H|H].
  - apply Z.ltb_lt.
    assert (pow10 l * 10000000000 + 1 <= (b - a) * 10000000000 / 1024); [|lia].
    apply Z.div_le_lower_bound; lia.
  - apply Z.ltb_ge. apply Z.div_le_upper_bound; lia.
Qed.

Section Pick.
  Variable P : nat -> bool.
  Variable m : Z.
  Hypothesis HP : forall l, (pow10 l * ns_per_slot <? m) = P l.

  Lemma pick_level_in : forall cands best, pick_level cands m best = best \/
    (In (pick_level cands m best) cands /\ P (pick_level cands m best) = true).
  Proof.
    induction cands as [|l cands IH]; intros best; cbn [pick_level]; [left; reflexivity|].
    rewrite HP. destruct (P l) eqn:E.
    - destruct (IH l) as [->|[H1 H2]]; [right; split; [left; reflexivity|exact E]|right; split; [right; exact H1|exact H2]].
    - destruct (IH best) as [->|[H1 H2]]; [left; reflexivity|right; split; [right; exact H1|exact H2]].
  Qed.

  Lemma pick_level_ge : forall cands best, Forall (fun x => (best <= x)%nat) cands -> (best <= pick_level cands m best)%nat.
  Proof.
    intros cands best H. destruct (pick_level_in cands best) as [->|[Hin _]]; [lia|].
    rewrite Forall_forall in H. apply H, Hin.
  Qed.

  Lemma pick_level_max : forall cands best, StronglySorted lt cands -> Forall (fun x => (best <= x)%nat) cands ->
    forall l, In l cands -> P l = true -> (l <= pick_level cands m best)%nat.
  Proof.
    induction cands as [|l0 cands IH]; intros best Hs Hb l Hin Hl; [destruct Hin|].
    inversion Hs as [|? ? Hs' Hlt]; subst. inversion Hb as [|? ? Hb0 Hb']; subst.
    cbn [pick_level]. rewrite HP. destruct Hin as [<-|Hin].
    - rewrite Hl. apply pick_level_ge. eapply Forall_impl; [|exact Hlt]. cbn. intros; lia.
    - destruct (P l0).
      + apply IH; try assumption. eapply Forall_impl; [|exact Hlt]. cbn. intros; lia.
      + apply IH; assumption.
  Qed.
End Pick.

Definition tl_cands : list nat := [0; 1; 2; 3; 4; 5; 6; 7; 8]%nat.

Lemma tl_cands_sorted : StronglySorted lt tl_cands.
Proof. unfold tl_cands. repeat (constructor; [|repeat constructor; lia]). constructor. Qed.

(* the bucket size is the largest 10^l * 10 s (l <= 8) with 1024 * 10^l * 10 s < range; 10 s if there is none *)
Lemma tl_generate_level a b : a <= b ->
  let lvl := tl_lvl (tl_generate a b) in
  (lvl <= 8)%nat /\
  (forall l, (l <= 8)%nat -> 1024 * pow10 l < b - a -> (l <= lvl)%nat) /\
  (lvl = O \/ 1024 * pow10 lvl < b - a).
Proof.
  intros Hab. cbn zeta. unfold tl_generate. cbn [tl_lvl].
  set (m := Z.quot ((b - a) * ns_per_slot) 1024).
  set (P := fun l => 1024 * pow10 l <? b - a).
  assert (HP : forall l, (pow10 l * ns_per_slot <? m) = P l) by (intros l; apply level_test, Hab).
  fold tl_cands. split; [|split].
  - destruct (pick_level_in P m HP tl_cands O) as [->|[Hin _]]; [lia|].
    unfold tl_cands in Hin at 2. cbn [In] in Hin. lia.
  - intros l Hl H. apply (pick_level_max P m HP tl_cands O tl_cands_sorted).
    + unfold tl_cands. repeat constructor; lia.
    + unfold tl_cands. cbn [In]. lia.
    + unfold P. apply Z.ltb_lt, H.
  - destruct (pick_level_in P m HP tl_cands O) as [->|[_ H]]; [left; reflexivity|right].
    unfold P in H. apply Z.ltb_lt, H.
Qed.

(* ---- populate keeps the number of buckets ---- *)
Lemma bump_range_length i0 i1 smp : forall buf idx, length (bump_range i0 i1 smp idx buf) = length buf.
Proof. induction buf as [|x buf IH]; intros idx; cbn [bump_range length]; [reflexivity|]. rewrite IH. reflexivity. Qed.

Lemma tl_populate_node_length : forall lvl a b dl n buf, length (tl_populate_node lvl a b dl n buf) = length buf.
Proof.
  induction lvl as [|l IH]; intros a b dl [t p s w ch] buf; cbn [tl_populate_node].
  - destruct (is_outside _); [reflexivity|]. apply bump_range_length.
  - destruct (is_outside _); [reflexivity|]. destruct (negb _ && _); [|apply bump_range_length].
    revert buf. induction ch as [|o ch IHch]; intros buf; cbn [fold_left]; [reflexivity|].
    rewrite IHch. destruct o as [c|]; [apply IH|reflexivity].
Qed.

Lemma tl_populate_length s tl : length (tl_samples (tl_populate s tl)) = length (tl_samples tl).
Proof. unfold tl_populate. destruct (s_root s) as [[lvl n]|]; [apply tl_populate_node_length|reflexivity]. Qed.

Lemma tl_populate_shape s tl :
  tl_st (tl_populate s tl) = tl_st tl /\ tl_et (tl_populate s tl) = tl_et tl /\ tl_lvl (tl_populate s tl) = tl_lvl tl.
Proof. unfold tl_populate. destruct (s_root s) as [[lvl n]|]; repeat split. Qed.

Lemma tl_populate_all_shape (segs : list segment) : forall tl,
  let tl' := fold_left (fun tl s => tl_populate s tl) segs tl in
  tl_st tl' = tl_st tl /\ tl_et tl' = tl_et tl /\ tl_lvl tl' = tl_lvl tl /\ length (tl_samples tl') = length (tl_samples tl).
Proof.
  induction segs as [|s segs IH]; intros tl; cbn zeta; [repeat split|]. cbn [fold_left].
  destruct (IH (tl_populate s tl)) as (H1 & H2 & H3 & H4). cbn zeta in *.
  destruct (tl_populate_shape s tl) as (G1 & G2 & G3). rewrite H1, H2, H3, H4, G1, G2, G3, tl_populate_length. repeat split.
Qed.

(* ------------------------------------------------------------------------------------------ *)
(* 10 s buckets (tl_lvl = 0): the timeline is assembled from the 10 s nodes of the segment tree      *)

(* the level-0 nodes (slot, sample counter), left to right *)
Fixpoint leaves (lvl : nat) (n : snode) {struct lvl} : list (Z * N) :=
  match lvl with
  | O => [(sn_time n, sn_samples n)]
  | S l => flat_map (fun o => match o with Some c => leaves l c | None => [] end) (sn_ch n)
  end.

Definition bump_leaf (a b : Z) (bf : list N) (ts : Z * N) : list N :=
  if (a <=? fst ts) && (fst ts <? b) then bump_range (fst ts - a) (fst ts - a + 1) (snd ts) 0 bf else bf.

Lemma is_outside_spec t w a b : 0 < w -> a < b ->
  is_outside (relationship t (t + w) a b) = true <-> (t + w <= a \/ b <= t).
Proof.
  intros Hw Hab. pose proof (rel_spec t (t + w) a b ltac:(lia) Hab) as H.
  destruct (relationship t (t + w) a b); cbn [is_outside]; split; try discriminate; try tauto; intros; lia.
Qed.

Lemma leaves_bounds : forall lvl n, wf lvl n -> Forall (fun ts => sn_time n <= fst ts < sn_time n + pow10 lvl) (leaves lvl n).
Proof.
  induction lvl as [|l IH]; intros [t p s w ch] Hwf; cbn [leaves sn_time sn_samples sn_ch].
  - constructor; [|constructor]. cbn [fst]. rewrite pow10_0. lia.
  - cbn [wf] in Hwf. destruct Hwf as (_ & Hlen & Hslots). apply Forall_forall. intros ts Hts.
    apply in_flat_map in Hts. destruct Hts as ([c|] & Hc & Hin); [|destruct Hin].
    pose proof (IH c (slots_In _ _ _ _ _ Hslots Hc)) as G. rewrite Forall_forall in G. specialize (G ts Hin).
    assert (B : t <= sn_time c /\ sn_time c + pow10 l <= t + 10 * pow10 l).
    { clear -Hslots Hc Hlen. pose proof (pow10_pos l) as Hp.
      assert (forall ch t0, slots (wf l) (pow10 l) t0 ch -> In (Some c) ch ->
                t0 <= sn_time c /\ sn_time c + pow10 l <= t0 + Z.of_nat (length ch) * pow10 l) as X.
      { induction ch0 as [|o ch0 IHc]; intros t0 Hs Hin; [destruct Hin|]. cbn [slots] in Hs. destruct Hs as [Ho Hr].
        cbn [length]. destruct Hin as [->|Hin]; [destruct Ho; nia|]. specialize (IHc _ Hr Hin). nia. }
      specialize (X ch t Hslots Hc). rewrite Hlen in X. lia. }
    rewrite pow10_S. lia.
Qed.

Lemma fold_bump_outside a b l : forall bf, Forall (fun ts => ~ (a <= fst ts < b)) l -> fold_left (bump_leaf a b) l bf = bf.
Proof.
  induction l as [|ts l IH]; intros bf H; [reflexivity|]. inversion H as [|? ? H1 H2]; subst. cbn [fold_left].
  unfold bump_leaf at 2. replace ((a <=? fst ts) && (fst ts <? b)) with false by lia. apply IH, H2.
Qed.

(* C13_entries, structural half: with 10 s buckets, populating from a well-formed segment tree is bumping,
   for every 10 s node inside the range, the entry of its slot by the node's sample counter *)
Lemma populate_leaves : forall lvl a b n buf, a < b -> wf lvl n ->
  tl_populate_node lvl a b 0 n buf = fold_left (bump_leaf a b) (leaves lvl n) buf.
Proof.
  induction lvl as [|l IH]; intros a b [t p s w ch] buf Hab Hwf.
  - cbn [tl_populate_node leaves sn_time sn_samples fold_left]. unfold bump_leaf. cbn [fst snd].
    pose proof (is_outside_spec t (pow10 0) a b (pow10_pos 0) Hab) as Ho. rewrite pow10_0 in *.
    destruct (is_outside (relationship t (t + 1) a b)) eqn:E.
    + replace ((a <=? t) && (t <? b)) with false; [reflexivity|]. destruct Ho as [Ho _]. specialize (Ho eq_refl). lia.
    + replace ((a <=? t) && (t <? b)) with true.
      * cbn [Nat.ltb Nat.leb]. rewrite !Z.quot_1_r. reflexivity.
      * symmetry. apply andb_true_iff. destruct ((a <=? t) && (t <? b)) eqn:E2; [apply andb_true_iff in E2; exact E2|].
        exfalso. assert (t + 1 <= a \/ b <= t) as X by lia. apply Ho in X. discriminate.
  - cbn [tl_populate_node]. pose proof (leaves_bounds (S l) _ Hwf) as HB. cbn [sn_time] in HB.
    pose proof (is_outside_spec t (pow10 (S l)) a b (pow10_pos (S l)) Hab) as Ho.
    destruct (is_outside (relationship t (t + pow10 (S l)) a b)) eqn:E.
    + symmetry. apply fold_bump_outside. destruct Ho as [Ho _]. specialize (Ho eq_refl).
      eapply Forall_impl; [|exact HB]. intros ts H. cbn beta in *. lia.
    + cbn [wf] in Hwf. destruct Hwf as (_ & Hlen & Hslots). rewrite Hlen. cbn [Nat.eqb negb Nat.leb andb].
      cbn [leaves sn_ch]. clear HB Ho E Hlen. revert buf t Hslots. induction ch as [|o ch IHch]; intros buf t0 Hslots; [reflexivity|].
      cbn [fold_left flat_map]. rewrite fold_left_app. cbn [slots] in Hslots. destruct Hslots as [Ho Hr].
      destruct o as [c|].
      * destruct Ho as [_ Hc]. rewrite (IH a b c buf Hab Hc). apply (IHch _ _ Hr).
      * cbn [fold_left]. apply (IHch _ _ Hr).
Qed.

Lemma bump_range_nth i smp : forall buf idx k, (k < length buf)%nat ->
  nth k (bump_range i (i + 1) smp idx buf) 0%N =
  if idx + Z.of_nat k =? i then ((if (nth k buf 0 =? 0)%N then 1 else nth k buf 0) + smp)%N else nth k buf 0%N.
Proof.
  induction buf as [|x buf IH]; intros idx k Hk; cbn [length] in Hk; [lia|]. cbn [bump_range]. destruct k as [|k].
  - cbn [nth]. replace (idx + Z.of_nat 0) with idx by lia.
    destruct (Z.eqb_spec idx i) as [->|Hne].
    + replace ((i <=? i) && (i <? i + 1)) with true by lia. reflexivity.
    + replace ((i <=? idx) && (idx <? i + 1)) with false by lia. reflexivity.
  - cbn [nth]. rewrite IH by lia. replace (idx + 1 + Z.of_nat k) with (idx + Z.of_nat (S k)) by lia. reflexivity.
Qed.
