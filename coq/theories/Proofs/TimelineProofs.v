(* TimelineProofs.v — lemmas about Model/Timeline.v *)
From Pyro Require Import Model.Base Model.Segment Model.Timeline.
Local Open Scope Z_scope.

Lemma tl_generate_start a b : tl_st (tl_generate a b) = a.
Proof. reflexivity. Qed.
