(* VarintProofs.v — round trip of the uvarint codec. *)
From Pyro Require Import Model.Base Model.Varint.
From Coq Require Import ZifyN ZifyNat ZifyBool.
Ltac Zify.zify_post_hook ::= Z.div_mod_to_equations.

Lemma log2_div128 n : 128 <= n -> (N.to_nat (N.log2 (n / 128)) < N.to_nat (N.log2 n))%nat.
Proof.
  intros H.
  assert (Hl : N.log2 (n / 128) = N.log2 n - 7).
  { change 128 with (2 ^ 7). rewrite <- N.shiftr_div_pow2. apply N.log2_shiftr. }
  assert (7 <= N.log2 n).
  { change 7 with (N.log2 128). apply N.log2_le_mono; assumption. }
  rewrite Hl. lia.
Qed.

(* generic decoder step lemma: decoding an encoded number from position i with weight w *)
Lemma dec_enc_aux : forall fuel n dfuel i w acc rest,
  (N.to_nat (N.log2 n) <= fuel)%nat ->
  (N.to_nat (N.log2 n) / 7 < dfuel)%nat ->
  (i + N.to_nat (N.log2 n) / 7 < 9)%nat \/ ((i + N.to_nat (N.log2 n) / 7 = 9)%nat /\ n / 2 ^ (7 * N.of_nat (N.to_nat (N.log2 n) / 7)) <= 1) ->
  uvarint_dec_aux dfuel i w acc (uvarint_enc_fuel fuel n ++ rest) = Some (acc + n * w, rest).
Proof.
  induction fuel as [|fuel IH]; intros n dfuel i w acc rest Hf Hd Hi.
  - assert (N.log2 n = 0) by lia.
    assert (n < 2).
    { destruct (N.eq_dec n 0) as [->|Hn]; [lia|].
      assert (n < 2 ^ N.succ (N.log2 n)) by (apply N.log2_spec; lia).
      rewrite H in H0. simpl in H0. lia. }
    cbn [uvarint_enc_fuel app]. destruct dfuel as [|dfuel]; [lia|].
    cbn [uvarint_dec_aux].
    replace (n mod 128) with n by (symmetry; apply N.mod_small; lia).
    replace (n <? 128) with true by lia.
    replace (Nat.eqb i 9 && (1 <? n)) with false by lia.
    reflexivity.
  - cbn [uvarint_enc_fuel].
    destruct (N.ltb_spec n 128) as [Hs|Hb].
    + cbn [app]. destruct dfuel as [|dfuel]; [lia|].
      cbn [uvarint_dec_aux].
      replace (n <? 128) with true by lia.
      assert (Hl7 : N.log2 n < 7).
      { destruct (N.eq_dec n 0) as [->|Hn]; [cbn; lia|]. apply N.log2_lt_pow2; [lia|]. cbn. lia. }
      assert (Hq : (N.to_nat (N.log2 n) / 7 = 0)%nat) by (apply Nat.div_small; lia).
      rewrite Hq in Hi. cbn in Hi.
      destruct (Nat.eqb_spec i 9) as [E|E].
      * assert (n <= 1). { destruct Hi as [Hi|[_ Hi]]; [lia|]. rewrite N.div_1_r in Hi. exact Hi. }
        replace (1 <? n) with false by lia. reflexivity.
      * reflexivity.
    + cbn [app]. destruct dfuel as [|dfuel]; [lia|].
      cbn [uvarint_dec_aux].
      replace (n mod 128 + 128 <? 128) with false by lia.
      pose proof (log2_div128 n Hb) as Hlt.
      assert (Hl : N.log2 (n / 128) = N.log2 n - 7).
      { change 128 with (2 ^ 7). rewrite <- N.shiftr_div_pow2. apply N.log2_shiftr. }
      assert (H7 : 7 <= N.log2 n).
      { change 7 with (N.log2 128). apply N.log2_le_mono; assumption. }
      assert (Hq : (N.to_nat (N.log2 (n / 128)) / 7 = N.to_nat (N.log2 n) / 7 - 1)%nat).
      { rewrite Hl. replace (N.to_nat (N.log2 n - 7)) with (N.to_nat (N.log2 n) - 1 * 7)%nat by lia.
        assert (7 <= N.to_nat (N.log2 n))%nat by lia.
        replace (N.to_nat (N.log2 n)) with ((N.to_nat (N.log2 n) - 1 * 7) + 1 * 7)%nat at 2 by lia.
        rewrite Nat.div_add by lia. lia. }
      assert (Hq1 : (1 <= N.to_nat (N.log2 n) / 7)%nat).
      { assert (7 <= N.to_nat (N.log2 n))%nat by lia.
        apply Nat.div_le_lower_bound; lia. }
      rewrite IH.
      * f_equal. f_equal.
        replace (n mod 128 + 128 - 128) with (n mod 128) by lia.
        pose proof (N.div_mod n 128). nia.
      * lia.
      * lia.
      * rewrite Hq. destruct Hi as [Hi|[Hi Hv]]; [left; lia|right].
        split; [lia|].
        replace (N.of_nat (N.to_nat (N.log2 n) / 7 - 1)) with (N.of_nat (N.to_nat (N.log2 n) / 7) - 1) by lia.
        set (k := N.of_nat (N.to_nat (N.log2 n) / 7)) in *.
        assert (1 <= k) by lia.
        rewrite N.div_div by (try lia; apply N.pow_nonzero; lia).
        replace (128 * 2 ^ (7 * (k - 1))) with (2 ^ (7 * k)); [exact Hv|].
        change 128 with (2 ^ 7). rewrite <- N.pow_add_r. f_equal. lia.
Qed.

Theorem uvarint_roundtrip : forall n rest, n < 2 ^ 64 ->
  uvarint_dec (uvarint_enc n ++ rest) = Some (n, rest).
Proof.
  intros n rest Hn. unfold uvarint_dec, uvarint_enc.
  assert (Hlog : N.log2 n < 64).
  { destruct (N.eq_dec n 0) as [->|Hz]; [cbn; lia|]. apply N.log2_lt_pow2; lia. }
  rewrite dec_enc_aux.
  - f_equal. f_equal. lia.
  - lia.
  - assert (N.to_nat (N.log2 n) / 7 <= 9)%nat.
    { apply Nat.div_le_upper_bound; lia. }
    lia.
  - cbn [plus].
    assert (Hq : (N.to_nat (N.log2 n) / 7 <= 9)%nat) by (apply Nat.div_le_upper_bound; lia).
    destruct (Nat.eq_dec (N.to_nat (N.log2 n) / 7) 9) as [E|E]; [right|left; lia].
    split; [exact E|]. rewrite E. change (7 * N.of_nat 9) with 63.
    assert (n / 2 ^ 63 < 2); [|lia].
    apply N.div_lt_upper_bound; [apply N.pow_nonzero; lia|].
    change (2 ^ 63 * 2) with (2 ^ 64). exact Hn.
Qed.

Lemma take_bytes_app : forall a rest, take_bytes (length a) (a ++ rest) = Some (a, rest).
Proof. induction a as [|x a IH]; intros rest; cbn; [reflexivity|]. rewrite IH. reflexivity. Qed.
