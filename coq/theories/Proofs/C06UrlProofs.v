(* C06UrlProofs.v — the URL query coding loses nothing: QueryUnescape (QueryEscape s) = s for every byte string,
   ParseQuery (Values.Encode q) = q with its keys sorted, the encoded form is injective; the uploader's query
   read back through the URL model gives the job's own parameters. *)
From Coq Require Import Ascii.
From Pyro Require Import Model.Base Model.Varint Model.TextFormats Model.Ingest Model.UrlCoding.
From Pyro Require Import Proofs.TextFormatsProofs.
From Coq Require Import ZifyN ZifyNat ZifyBool.
Ltac Zify.zify_post_hook ::= Z.div_mod_to_equations.

Local Open Scope N_scope.

Definition bytes_okP (s : bytes) : Prop := Forall (fun c => c < 256) s.

Lemma unhex_upper n : n < 16 -> unhex (upper_hex n) = Some n.
Proof.
  intros H. unfold upper_hex, unhex. destruct (N.ltb_spec n 10).
  - replace ((48 <=? 48 + n) && (48 + n <=? 57)) with true by lia. f_equal. lia.
  - replace ((48 <=? 55 + n) && (55 + n <=? 57)) with false by lia.
    replace ((97 <=? 55 + n) && (55 + n <=? 102)) with false by lia.
    replace ((65 <=? 55 + n) && (55 + n <=? 70)) with true by lia. f_equal. lia.
Qed.

Lemma unreserved_facts c : url_unreserved c = true -> c <> 37 /\ c <> 43 /\ c <> 38 /\ c <> 61 /\ c <> 59.
Proof. unfold url_unreserved, is_alnum. intros H. lia. Qed.

(* QueryUnescape after QueryEscape is the identity on every byte string *)
Theorem url_unescape_escape : forall s, bytes_okP s -> url_unescape (url_escape s) = Some s.
Proof.
  induction 1 as [|c s Hc _ IH]; [reflexivity|]. cbn [url_escape].
  destruct (N.eqb_spec c 32) as [->|H32].
  - cbn [url_unescape]. rewrite IH. reflexivity.
  - destruct (url_unreserved c) eqn:U.
    + apply unreserved_facts in U. cbn [url_unescape].
      destruct (N.eqb_spec c 37); [lia|]. rewrite IH. destruct (N.eqb_spec c 43); [lia|reflexivity].
    + cbn [url_unescape]. rewrite N.eqb_refl, !unhex_upper, IH by lia. f_equal. f_equal. lia.
Qed.

Theorem url_escape_injective : forall a b, bytes_okP a -> bytes_okP b -> url_escape a = url_escape b -> a = b.
Proof.
  intros a b Ha Hb E. pose proof (url_unescape_escape a Ha) as A. rewrite E, (url_unescape_escape b Hb) in A. now inversion A.
Qed.

(* an escaped string contains none of the separators '&' '=' ';' *)
Definition sep_free (s : bytes) : Prop := Forall (fun c => c <> 38 /\ c <> 61 /\ c <> 59) s.

Lemma upper_hex_sep n : upper_hex n <> 38 /\ upper_hex n <> 61 /\ upper_hex n <> 59.
Proof. unfold upper_hex. destruct (N.ltb_spec n 10); lia. Qed.

Lemma url_escape_sep_free s : sep_free (url_escape s).
Proof.
  induction s as [|c s IH]; [constructor|]. cbn [url_escape].
  destruct (N.eqb_spec c 32); [constructor; [lia|exact IH]|].
  destruct (url_unreserved c) eqn:U.
  - apply unreserved_facts in U. constructor; [lia|exact IH].
  - constructor; [lia|]. constructor; [apply upper_hex_sep|]. constructor; [apply upper_hex_sep|exact IH].
Qed.

Lemma cut_at_none sep a : Forall (fun c => c <> sep) a -> cut_at sep a = (a, None).
Proof.
  induction 1 as [|c a Hc _ IH]; [reflexivity|]. cbn [cut_at]. destruct (N.eqb_spec c sep); [contradiction|].
  now rewrite IH.
Qed.

Lemma cut_at_app sep a b : Forall (fun c => c <> sep) a -> cut_at sep (a ++ sep :: b) = (a, Some b).
Proof.
  induction 1 as [|c a Hc _ IH]; cbn [app cut_at].
  - now rewrite N.eqb_refl.
  - destruct (N.eqb_spec c sep); [contradiction|]. now rewrite IH.
Qed.

Lemma sep_free_no (s : bytes) b : sep_free s -> (b = 38 \/ b = 61 \/ b = 59) -> Forall (fun c => c <> b) s.
Proof. intros H Hb. eapply Forall_impl; [|exact H]. cbn. intros c (A & B & C). destruct Hb as [->|[->| ->]]; assumption. Qed.

Lemma has_byte_false b s : Forall (fun c => c <> b) s -> has_byte b s = false.
Proof.
  induction 1 as [|c s Hc _ IH]; [reflexivity|]. cbn. destruct (N.eqb_spec b c); [congruence|exact IH].
Qed.

Definition pair_ok (kv : qpair) : Prop := bytes_okP (fst kv) /\ bytes_okP (snd kv).

Lemma encode_pair_sep kv : Forall (fun c => c <> 38) (encode_pair kv) /\ Forall (fun c => c <> 59) (encode_pair kv) /\ encode_pair kv <> [].
Proof.
  unfold encode_pair. repeat split.
  - apply Forall_app. split; [apply sep_free_no; [apply url_escape_sep_free|tauto]|].
    constructor; [lia|apply sep_free_no; [apply url_escape_sep_free|tauto]].
  - apply Forall_app. split; [apply sep_free_no; [apply url_escape_sep_free|tauto]|].
    constructor; [lia|apply sep_free_no; [apply url_escape_sep_free|tauto]].
  - destruct (url_escape (fst kv)); discriminate.
Qed.

Lemma parse_piece_nonempty p : p <> [] -> has_byte 59 p = false ->
  parse_piece p = let (k, ov) := cut_at 61 p in
                  let v := match ov with Some v => v | None => [] end in
                  match url_unescape k, url_unescape v with
                  | Some k', Some v' => Some (k', v')
                  | _, _ => None
                  end.
Proof. intros Hne H59. unfold parse_piece. rewrite H59. destruct p; [congruence|reflexivity]. Qed.

Lemma parse_piece_encode kv : pair_ok kv -> parse_piece (encode_pair kv) = Some kv.
Proof.
  intros [Hk Hv]. destruct (encode_pair_sep kv) as (_ & H59 & Hne).
  rewrite parse_piece_nonempty by (try assumption; now apply has_byte_false).
  unfold encode_pair. rewrite cut_at_app by (apply sep_free_no; [apply url_escape_sep_free|tauto]).
  rewrite (url_unescape_escape _ Hk), (url_unescape_escape _ Hv). now destruct kv.
Qed.

Lemma join_amp_cons x y l : join_amp (x :: y :: l) = x ++ 38 :: join_amp (y :: l).
Proof. reflexivity. Qed.

Lemma split_amp_aux_S f s : s <> [] ->
  split_amp_aux (S f) s = let (p, r) := cut_at 38 s in p :: match r with Some r' => split_amp_aux f r' | None => [] end.
Proof. intros H. destruct s; [congruence|reflexivity]. Qed.

Lemma split_amp_join (ps : list bytes) : Forall (fun p => Forall (fun c => c <> 38) p /\ p <> []) ps ->
  forall fuel, (length (join_amp ps) < fuel)%nat -> split_amp_aux fuel (join_amp ps) = ps.
Proof.
  induction 1 as [|x ps [Hx Hne] Hps IH]; intros fuel Hf.
  - destruct fuel; reflexivity.
  - destruct fuel as [|f]; [lia|]. destruct ps as [|y ps].
    + cbn [join_amp] in *. rewrite split_amp_aux_S by exact Hne. rewrite (cut_at_none 38 x Hx). reflexivity.
    + rewrite join_amp_cons in *. rewrite split_amp_aux_S by (destruct x; discriminate).
      rewrite (cut_at_app 38 x _ Hx). f_equal. apply IH.
      rewrite app_length in Hf. cbn [length] in Hf. unfold bytes, byte in *. lia.
Qed.

(* ParseQuery after Values.Encode gives the pairs back, in the sorted key order Encode wrote them *)
Lemma Forall_sort_query (P : qpair -> Prop) q : Forall P q -> Forall P (sort_query q).
Proof.
  induction 1 as [|kv q Hkv _ IH]; [constructor|]. cbn [sort_query fold_right]. fold (sort_query q).
  induction IH as [|x l Hx Hl IHl]; cbn [kv_insert_sorted]; [constructor; [exact Hkv|constructor]|].
  destruct (bcmp (fst kv) (fst x)); constructor; try assumption; constructor; assumption.
Qed.

Theorem url_parse_encode : forall q, Forall pair_ok q -> url_parse_query (url_encode_query q) = sort_query q.
Proof.
  intros q Hq. unfold url_parse_query, url_encode_query, split_amp.
  pose proof (Forall_sort_query _ _ Hq) as Hs. set (sq := sort_query q) in *. clearbody sq.
  rewrite split_amp_join; [|apply Forall_map; apply Forall_forall; intros kv _; destruct (encode_pair_sep kv) as (A & _ & C); now split|lia].
  induction Hs as [|kv l Hkv _ IH]; [reflexivity|]. cbn [map flat_map]. rewrite parse_piece_encode by exact Hkv.
  cbn [app]. now rewrite IH.
Qed.

(* keys already in strictly increasing order stay where they are *)
Fixpoint keys_sortedb (q : list qpair) : bool :=
  match q with
  | [] => true
  | x :: q' => match q' with [] => true | y :: _ => bltb (fst x) (fst y) end && keys_sortedb q'
  end.

Lemma sort_query_sorted q : keys_sortedb q = true -> sort_query q = q.
Proof.
  induction q as [|x q IH]; [reflexivity|]. cbn [keys_sortedb]. intros H. apply andb_true_iff in H. destruct H as [H1 H2].
  cbn [sort_query fold_right]. fold (sort_query q). rewrite (IH H2). destruct q as [|y q']; [reflexivity|].
  cbn [kv_insert_sorted]. unfold bltb in H1. destruct (bcmp (fst x) (fst y)); try discriminate. reflexivity.
Qed.

Theorem url_roundtrip : forall q, Forall pair_ok q -> keys_sortedb q = true ->
  url_parse_query (url_encode_query q) = q.
Proof. intros q H1 H2. rewrite url_parse_encode by exact H1. now apply sort_query_sorted. Qed.

Theorem url_encode_injective : forall q1 q2, Forall pair_ok q1 -> Forall pair_ok q2 ->
  url_encode_query q1 = url_encode_query q2 -> sort_query q1 = sort_query q2.
Proof. intros q1 q2 H1 H2 E. rewrite <- (url_parse_encode q1 H1), <- (url_parse_encode q2 H2), E. reflexivity. Qed.

(* ---- the uploader's query through the URL coding ---- *)
Definition ingest_keys : list bytes :=
  [ascii "format"; ascii "name"; ascii "from"; ascii "until"; ascii "spyName"; ascii "sampleRate"; ascii "units"; ascii "aggregationType"].

Lemma ingest_params_ext q1 q2 ct : (forall k, In k ingest_keys -> q_get k q1 = q_get k q2) ->
  ingest_params_of q1 ct = ingest_params_of q2 ct.
Proof.
  intros H. unfold ingest_params_of.
  rewrite (H (ascii "format")), (H (ascii "name")), (H (ascii "from")), (H (ascii "until")), (H (ascii "spyName")),
          (H (ascii "sampleRate")), (H (ascii "units")), (H (ascii "aggregationType")); [reflexivity|..];
    unfold ingest_keys; cbn [In]; tauto.
Qed.

Lemma sort_upload_query j :
  sort_query (upload_query j) =
  [ (ascii "aggregationType", j_aggregation j); (ascii "from", itoa (j_start j)); (ascii "name", j_name j);
    (ascii "sampleRate", itoa (j_rate j)); (ascii "spyName", j_spy j); (ascii "units", j_units j);
    (ascii "until", itoa (j_end j)) ].
Proof. reflexivity. Qed.

Lemma itoa_bytes_ok n : bytes_okP (itoa n).
Proof.
  pose proof (itoa_all_digits n) as H. rewrite forallb_forall in H. apply Forall_forall. intros c Hc.
  specialize (H c Hc). unfold is_digit in H. lia.
Qed.

Lemma ascii_bytes_ok s : bytes_okP (ascii s).
Proof.
  unfold ascii. apply Forall_forall. intros c Hc. apply in_map_iff in Hc. destruct Hc as (a & <- & _).
  pose proof (N_ascii_bounded a). lia.
Qed.

Definition job_bytes_ok (j : upload_job) : Prop :=
  bytes_okP (j_name j) /\ bytes_okP (j_spy j) /\ bytes_okP (j_units j) /\ bytes_okP (j_aggregation j).

(* what the handler reads out of the request line the uploader wrote *)
Theorem job_roundtrip_url : forall j, job_ok j -> job_bytes_ok j ->
  ingest_params_of (url_parse_query (url_encode_query (upload_query j))) upload_content_type =
  {| ip_format := FTrie; ip_name := j_name j;
     ip_from := TUnix (Z.of_N (j_start j)); ip_until := TUnix (Z.of_N (j_end j));
     ip_spy := j_spy j; ip_rate := j_rate j; ip_units := j_units j; ip_aggregation := j_aggregation j |}.
Proof.
  intros j Hj (B1 & B2 & B3 & B4). rewrite url_parse_encode.
  - rewrite <- (job_roundtrip j Hj). apply ingest_params_ext. rewrite sort_upload_query.
    unfold ingest_keys. intros k [<-|[<-|[<-|[<-|[<-|[<-|[<-|[<-|[]]]]]]]]]; reflexivity.
  - unfold upload_query, pair_ok. repeat constructor; cbn [fst snd]; try apply ascii_bytes_ok; try apply itoa_bytes_ok; assumption.
Qed.
