(* SegCanon.v — the canonical decomposition of a range into maximal aligned power-of-ten buckets,
   its size (at most 18 buckets per level below the top), and: when every aligned bucket that fits
   in the range is a present node, the cover computed by get IS the canonical decomposition. *)
From Pyro Require Import Model.Base Model.Float53 Model.Segment
  Proofs.SegmentProofs Proofs.SegStruct Proofs.SegGet Proofs.SegStore Proofs.SegInv Proofs.SegRead Proofs.SegMax.
From Coq Require Import ZifyBool ZifyNat.
Local Open Scope Z_scope.

(* maximal aligned buckets of [qa,qb) inside the bucket (lvl,t), left to right *)
Fixpoint s_canon (lvl : nat) (t qa qb : Z) {struct lvl} : list skey :=
  if (qa <=? t) && (t + pow10 lvl <=? qb) then [(lvl, t)]
  else if (t + pow10 lvl <=? qa) || (qb <=? t) then []
  else match lvl with
       | O => []
       | S l => (fix go (k : nat) (t0 : Z) {struct k} : list skey :=
                   match k with
                   | O => []
                   | S k' => s_canon l t0 qa qb ++ go k' (t0 + pow10 l)
                   end) 10%nat t
       end.

Fixpoint canon_slots (l : nat) (qa qb : Z) (k : nat) (t0 : Z) {struct k} : list skey :=
  match k with
  | O => []
  | S k' => s_canon l t0 qa qb ++ canon_slots l qa qb k' (t0 + pow10 l)
  end.

Lemma s_canon_S l t qa qb :
  s_canon (S l) t qa qb =
  if (qa <=? t) && (t + pow10 (S l) <=? qb) then [(S l, t)]
  else if (t + pow10 (S l) <=? qa) || (qb <=? t) then []
  else canon_slots l qa qb 10 t.
Proof. reflexivity. Qed.

Lemma s_canon_disjoint lvl t qa qb : qa < qb -> (t + pow10 lvl <= qa \/ qb <= t) -> s_canon lvl t qa qb = [].
Proof.
  intros Hq Hd. pose proof (pow10_pos lvl).
  destruct lvl; cbn [s_canon];
    (replace ((qa <=? t) && (_ <=? qb)) with false by lia);
    (replace ((_ <=? qa) || (qb <=? t)) with true by lia); reflexivity.
Qed.

(* an aligned bucket inside the region of (lvl,t) *)
Definition abucket (lvl : nat) (t : Z) (k : skey) : Prop :=
  (fst k <= lvl)%nat /\ snd k mod pow10 (fst k) = 0 /\ t <= snd k /\ snd k + pow10 (fst k) <= t + pow10 lvl.

Lemma pkeys_top lvl n t' : wf lvl n -> In (lvl, t') (pkeys lvl n) -> sn_present n = true /\ t' = sn_time n.
Proof.
  destruct n as [t p s w ch]. intros Hwf Hin. destruct lvl as [|l]; cbn [pkeys sn_present sn_time] in *.
  - rewrite app_nil_r in Hin. destruct p; [|destruct Hin]. destruct Hin as [Heq|[]]. inversion Heq. auto.
  - apply in_app_or in Hin. destruct Hin as [Hin|Hin].
    + destruct p; [|destruct Hin]. destruct Hin as [Heq|[]]. inversion Heq. auto.
    + exfalso. apply in_flat_map in Hin. destruct Hin as [o [Ho Hin]]. destruct o as [c|]; [|destruct Hin].
      destruct Hwf as [_ [_ Hs]]. pose proof (slots_In _ _ _ _ _ Hs Ho) as Hwc.
      pose proof (pkeys_region l c _ Hwc Hin) as (K1 & _). cbn in K1. lia.
Qed.

(* keys of the cover = canonical decomposition, when every aligned bucket of the node's region that
   fits in the range is a present node of the subtree *)
Lemma get_canon : forall lvl n qa qb, qa < qb -> wf lvl n ->
  (forall k, abucket lvl (sn_time n) k -> fits qa qb k -> In k (pkeys lvl n)) ->
  map gc_key (s_get_node lvl qa qb n) = s_canon lvl (sn_time n) qa qb.
Proof.
  induction lvl as [|l IH]; intros [t p s w ch] qa qb Hq Hwf HP; cbn [sn_time] in *.
  - rewrite get_node_unfold. cbv zeta. cbn [s_canon]. change (pow10 0) with 1 in *.
    pose proof (rel_spec t (t + 1) qa qb ltac:(lia) Hq) as Hr. pose proof (rel_unit t qa qb Hq) as Hu.
    destruct Hwf as [Hm Hch]. subst ch. cbn [length Nat.eqb].
    destruct ((qa <=? t) && (t + 1 <=? qb)) eqn:Ef.
    + assert (Hin : In (0%nat, t) (pkeys 0 (SNode t p s w []))).
      { apply HP; unfold abucket, fits; cbn [fst snd]; change (pow10 0) with 1; repeat split; try lia; try exact Hm. }
      cbn in Hin. destruct p; [|destruct Hin].
      destruct (relationship t (t + 1) qa qb); cbn [andb covers]; try reflexivity; lia.
    + replace ((t + 1 <=? qa) || (qb <=? t)) with true by (destruct (relationship t (t + 1) qa qb); try contradiction; lia).
      destruct (relationship t (t + 1) qa qb); try contradiction; destruct p; cbn; try reflexivity; lia.
  - rewrite get_node_unfold, s_canon_S. cbv zeta.
    pose proof (pow10_pos (S l)) as HpS. pose proof (pow10_pos l) as Hp.
    pose proof (rel_spec t (t + pow10 (S l)) qa qb ltac:(lia) Hq) as Hr.
    pose proof Hwf as [Hm [Hlen Hs]].
    assert (Hlen0 : (length ch =? 0)%nat = false) by (rewrite Hlen; reflexivity).
    rewrite Hlen0, andb_false_r.
    destruct ((qa <=? t) && (t + pow10 (S l) <=? qb)) eqn:Ef.
    + assert (Hin : In (S l, t) (pkeys (S l) (SNode t p s w ch))).
      { apply HP; unfold abucket, fits; cbn [fst snd]; repeat split; try lia; try exact Hm. }
      apply (pkeys_top (S l) _ t Hwf) in Hin. destruct Hin as [Hpp _]. cbn in Hpp. subst p.
      destruct (relationship t (t + pow10 (S l)) qa qb); cbn [andb covers]; try reflexivity; lia.
    + assert (Hnc : p && covers (relationship t (t + pow10 (S l)) qa qb) = false).
      { destruct (relationship t (t + pow10 (S l)) qa qb); cbn; rewrite ?andb_false_r; try reflexivity; lia. }
      rewrite Hnc.
      destruct ((t + pow10 (S l) <=? qa) || (qb <=? t)) eqn:Ed.
      * replace (is_outside (relationship t (t + pow10 (S l)) qa qb)) with true
          by (destruct (relationship t (t + pow10 (S l)) qa qb); cbn; try reflexivity; lia).
        reflexivity.
      * replace (is_outside (relationship t (t + pow10 (S l)) qa qb)) with false
          by (destruct (relationship t (t + pow10 (S l)) qa qb); cbn; try reflexivity; lia).
        (* slot by slot *)
        assert (G : forall ch0 t0, slots (wf l) (pow10 l) t0 ch0 ->
                  t <= t0 -> t0 + Z.of_nat (length ch0) * pow10 l <= t + pow10 (S l) ->
                  (forall k, (fst k <= l)%nat -> snd k mod pow10 (fst k) = 0 ->
                             t0 <= snd k -> snd k + pow10 (fst k) <= t0 + Z.of_nat (length ch0) * pow10 l ->
                             fits qa qb k ->
                             In k (flat_map (fun o => match o with Some c => pkeys l c | None => [] end) ch0)) ->
                  map gc_key (flat_map (get_child l qa qb) ch0) = canon_slots l qa qb (length ch0) t0).
        { induction ch0 as [|o ch0 IHc]; intros t0 Hs0 Hlo Hhi HP0; [reflexivity|].
          cbn [flat_map length canon_slots slots] in *. destruct Hs0 as [Ho Hr0]. rewrite map_app.
          assert (Htl : forall k, (fst k <= l)%nat -> snd k mod pow10 (fst k) = 0 -> t0 + pow10 l <= snd k ->
                        snd k + pow10 (fst k) <= t0 + pow10 l + Z.of_nat (length ch0) * pow10 l -> fits qa qb k ->
                        In k (flat_map (fun o0 => match o0 with Some c => pkeys l c | None => [] end) ch0)).
          { intros k K1 K2 K3 K4 K5. specialize (HP0 k K1 K2 ltac:(lia) ltac:(lia) K5).
            apply in_app_or in HP0. destruct HP0 as [HP0|HP0]; [|exact HP0].
            exfalso. destruct o as [c|]; [|destruct HP0]. destruct Ho as [Ht Hwc].
            pose proof (pkeys_region l c k Hwc HP0) as (_ & _ & R3). pose proof (pow10_pos (fst k)). lia. }
          rewrite (IHc (t0 + pow10 l) Hr0 ltac:(lia) ltac:(lia) Htl). f_equal.
          destruct o as [c|]; cbn [get_child].
          - destruct Ho as [Ht Hwc]. rewrite <- Ht. apply IH; [exact Hq|exact Hwc|].
            intros k (K1 & K2 & K3 & K4) K5. rewrite Ht in K3, K4.
            specialize (HP0 k K1 K2 K3 ltac:(lia) K5). apply in_app_or in HP0. destruct HP0 as [HP0|HP0]; [exact HP0|].
            exfalso. apply in_flat_map in HP0. destruct HP0 as [o' [Ho' Hk']]. destruct o' as [x|]; [|destruct Hk'].
            pose proof (slots_In _ _ _ _ _ Hr0 Ho') as Hwx.
            pose proof (slots_bounds _ _ Hp _ _ _ Hr0 Ho') as [B1 _].
            pose proof (pkeys_region l x k Hwx Hk') as (_ & R2 & _). pose proof (pow10_pos (fst k)). lia.
          - (* an empty slot: nothing of the range can lie in it *)
            symmetry. apply s_canon_disjoint; [exact Hq|].
            destruct (Z_le_gt_dec (t0 + pow10 l) qa) as [|Hgt]; [left; lia|].
            destruct (Z_le_gt_dec qb t0) as [|Hgt2]; [right; lia|]. exfalso.
            (* the slot x = max t0 qa lies in the empty sub-bucket and in the range *)
            set (x := Z.max t0 qa).
            assert (Hx1 : t0 <= x) by (unfold x; lia).
            assert (Hx2 : x + 1 <= t0 + pow10 l) by (unfold x; lia).
            assert (Hx3 : qa <= x /\ x + 1 <= qb) by (unfold x; lia).
            assert (Hx4 : x + 1 <= t0 + Z.of_nat (S (length ch0)) * pow10 l) by nia.
            assert (Hin0 : In (0%nat, x) ([] ++ flat_map (fun o0 => match o0 with Some c => pkeys l c | None => [] end) ch0)).
            { apply HP0;
                [ cbn [fst]; lia
                | cbn [fst snd]; change (pow10 0) with 1; apply Z.mod_1_r
                | cbn [snd]; lia
                | cbn [fst snd]; change (pow10 0) with 1; lia
                | unfold fits; cbn [fst snd]; change (pow10 0) with 1; lia ]. }
            clear HP0. rename Hin0 into HP0.
            cbn [app] in HP0. apply in_flat_map in HP0. destruct HP0 as [o' [Ho' Hk']]. destruct o' as [y|]; [|destruct Hk'].
            pose proof (slots_In _ _ _ _ _ Hr0 Ho') as Hwy.
            pose proof (slots_bounds _ _ Hp _ _ _ Hr0 Ho') as [B1 _].
            pose proof (pkeys_region l y _ Hwy Hk') as (_ & R2 & _). cbn in R2. lia. }
        specialize (G ch t Hs ltac:(lia)). rewrite Hlen in G. apply G.
        -- rewrite pow10_S. lia.
        -- intros k K1 K2 K3 K4 K5.
           assert (Hk : In k (pkeys (S l) (SNode t p s w ch))).
           { apply HP; [|exact K5]. unfold abucket. repeat split; try lia. rewrite pow10_S. lia. }
           cbn [pkeys] in Hk. apply in_app_or in Hk. destruct Hk as [Hk|Hk]; [|exact Hk].
           exfalso. destruct p; [|destruct Hk]. destruct Hk as [<-|[]]. cbn in K1. lia.
Qed.

(* ---------- completeness of children for histories of short writes ---------- *)
Definition hit (H : list write) (t0 t1 : Z) : Prop := exists w, In w H /\ w_a w < t1 /\ t0 < w_b w.

(* level 0: a bucket some write met is present; level >= 1: an empty slot was never met by a write *)
Fixpoint cinv (H : list write) (lvl : nat) (n : snode) {struct lvl} : Prop :=
  match n with
  | SNode t p _ _ ch =>
      match lvl with
      | O => hit H t (t + 1) -> p = true
      | S l => qslots (cinv H l) (fun t0 => ~ hit H t0 (t0 + pow10 l)) (pow10 l) t ch
      end
  end.

Lemma hit_cons w H t0 t1 : hit (w :: H) t0 t1 <-> (w_a w < t1 /\ t0 < w_b w) \/ hit H t0 t1.
Proof.
  unfold hit. split.
  - intros [w0 [[<-|Hin] Hc]]; [left; exact Hc|right; exists w0; auto].
  - intros [Hc|[w0 [Hin Hc]]]; [exists w; split; [left; reflexivity|exact Hc]|exists w0; split; [right; exact Hin|exact Hc]].
Qed.

Lemma hit_mono H t0 t1 t0' t1' : t0' <= t0 -> t1 <= t1' -> hit H t0 t1 -> hit H t0' t1'.
Proof. intros H1 H2 [w [Hin [Ha Hb]]]. exists w. split; [exact Hin|lia]. Qed.

Lemma qslots_impl_pos (Q Q' : snode -> Prop) (C C' : Z -> Prop) w : forall ch t0,
  (forall c, In (Some c) ch -> Q c -> Q' c) ->
  (forall t1, t0 <= t1 -> C t1 -> C' t1) -> 0 <= w ->
  qslots Q C w t0 ch -> qslots Q' C' w t0 ch.
Proof.
  induction ch as [|o ch IH]; intros t0 HQ HC Hw Hq; [exact I|].
  cbn [qslots] in *. destruct Hq as [Ho Hr]. split.
  - destruct o as [c|]; [apply HQ; [left; reflexivity|exact Ho]|apply HC; [lia|exact Ho]].
  - apply IH; [intros c Hc; apply HQ; right; exact Hc| |exact Hw|exact Hr]. intros t1 Ht1. apply HC. lia.
Qed.

(* a write that misses the bucket *)
Lemma cinv_outside H w : forall lvl n, wf lvl n ->
  (sn_time n + pow10 lvl <= w_a w \/ w_b w <= sn_time n) -> cinv H lvl n -> cinv (w :: H) lvl n.
Proof.
  induction lvl as [|l IH]; intros [t p s w0 ch] Hwf Hout Hc; cbn [sn_time cinv] in *.
  - change (pow10 0) with 1 in Hout. intros Hh. apply Hc. apply hit_cons in Hh. destruct Hh as [Hh|Hh]; [lia|exact Hh].
  - destruct Hwf as [_ [Hlen Hs]]. pose proof (pow10_pos l) as Hp. rewrite pow10_S in Hout.
    assert (G : forall ch0 t0, slots (wf l) (pow10 l) t0 ch0 -> t <= t0 ->
                t0 + Z.of_nat (length ch0) * pow10 l <= t + 10 * pow10 l ->
                qslots (cinv H l) (fun t1 => ~ hit H t1 (t1 + pow10 l)) (pow10 l) t0 ch0 ->
                qslots (cinv (w :: H) l) (fun t1 => ~ hit (w :: H) t1 (t1 + pow10 l)) (pow10 l) t0 ch0).
    { induction ch0 as [|o ch0 IHc]; intros t0 Hs0 Hlo Hhi Hq; [exact I|].
      cbn [slots qslots length] in *. destruct Hs0 as [Ho Hr]. destruct Hq as [Hqo Hqr]. split.
      - destruct o as [c|].
        + destruct Ho as [Ht Hw]. apply IH; [exact Hw| |exact Hqo]. rewrite Ht. nia.
        + intros Hh. apply Hqo. apply hit_cons in Hh. destruct Hh as [Hh|Hh]; [nia|exact Hh].
      - apply IHc; [exact Hr|lia|nia|exact Hqr]. }
    apply (G ch t Hs); [lia|rewrite Hlen; lia|exact Hc].
Qed.

Lemma cinv_new_node H lvl t : ~ hit H t (t + pow10 lvl) -> cinv H lvl (new_node t lvl).
Proof.
  intros Hn. destruct lvl as [|l]; cbn [new_node cinv].
  - change (pow10 0) with 1 in Hn. intros Hh. contradiction.
  - apply qslots_repeat_gen. intros j Hj Hh. apply Hn. pose proof (pow10_pos l).
    eapply hit_mono; [| |exact Hh]; [nia|rewrite pow10_S; nia].
Qed.

Section PutCinv.
  Variables (a b : Z) (smp : N) (beta : Z) (H : list write).
  Hypothesis Hab : a < b.
  Hypothesis Hshort : b - a < 10.
  Let wnew : write := mk_write a b smp beta.

  Lemma fill_cinv l base : forall ch i,
    qslots (cinv H l) (fun t1 => ~ hit H t1 (t1 + pow10 l)) (pow10 l) (base + i * pow10 l) ch ->
    qslots (cinv H l) (fun t1 => ~ hit H t1 (t1 + pow10 l) /\ is_outside (relationship t1 (t1 + pow10 l) a b) = true)
           (pow10 l) (base + i * pow10 l) (fill_children l base a b i ch).
  Proof.
    induction ch as [|o ch IH]; intros i Hq; [exact I|]. cbn [fill_children qslots] in *.
    destruct Hq as [Ho Hr]. split.
    - destruct o as [c|]; [exact Ho|]. destruct (is_outside _) eqn:Eo; [split; [exact Ho|reflexivity]|].
      apply cinv_new_node. exact Ho.
    - replace (base + i * pow10 l + pow10 l) with (base + (i + 1) * pow10 l) in * by lia. apply IH. exact Hr.
  Qed.

  Lemma put_cinv : forall lvl n, wf lvl n -> cinv H lvl n -> cinv (wnew :: H) lvl (fst (s_put_node lvl a b smp n)).
  Proof.
    induction lvl as [|l IH]; intros [t p s w ch] Hwf Hc.
    - rewrite put_node_unfold_0. cbv zeta. change (pow10 0) with 1.
      pose proof (rel_spec t (t + 1) a b ltac:(lia) Hab) as Hr. pose proof (rel_unit t a b Hab) as Hu.
      destruct (is_outside (relationship t (t + 1) a b)) eqn:Eo; cbn [fst].
      + apply cinv_outside; [exact Hwf| |exact Hc]. cbn [sn_time w_a w_b wnew mk_write]. change (pow10 0) with 1.
        destruct (relationship t (t + 1) a b); cbn in Eo; try discriminate. lia.
      + cbn [cinv]. intros _.
        destruct (relationship t (t + 1) a b); cbn in Eo |- *; try discriminate; try contradiction;
          rewrite ?orb_true_r; reflexivity.
    - rewrite put_node_S. cbv zeta. pose proof (pow10_pos (S l)) as HpS. pose proof (pow10_pos l) as Hp.
      pose proof (rel_spec t (t + pow10 (S l)) a b ltac:(lia) Hab) as Hr.
      destruct (is_outside (relationship t (t + pow10 (S l)) a b)) eqn:Eo; cbn [fst].
      + apply cinv_outside; [exact Hwf| |exact Hc]. cbn [sn_time w_a w_b wnew mk_write].
        destruct (relationship t (t + pow10 (S l)) a b); cbn in Eo; try discriminate. lia.
      + (* a short write cannot contain a bucket of level >= 1: the create loop runs *)
        assert (Hcr : creates (relationship t (t + pow10 (S l)) a b) = true).
        { rewrite pow10_S in *. destruct (relationship t (t + 10 * pow10 l) a b); cbn in Eo |- *; try discriminate; try reflexivity; lia. }
        destruct Hwf as [Hm [Hlen Hs]]. cbn [cinv] in *.
        destruct (ch1_slots l t a b ch Hm Hs) as [Hs1 Hlen1].
        unfold ch1_of in *. rewrite Hcr in *. rewrite (trunc_to_aligned _ _ Hm) in *.
        pose proof (fill_cinv l t ch 0) as Hf. replace (t + 0 * pow10 l) with t in Hf by lia. specialize (Hf Hc).
        set (ch1 := fill_children l t a b 0 ch) in *.
        clearbody ch1. clear Hc Hs Hlen Hlen1 Hm Eo Hr Hcr HpS. revert t Hs1 Hf.
        induction ch1 as [|o ch1 IHc]; intros t0 Hs1 Hf; [exact I|].
        cbn [map qslots slots] in *. destruct Hs1 as [Ho Hsr]. destruct Hf as [Hfo Hfr]. split.
        * destruct o as [c|]; cbn [put_child].
          -- destruct Ho as [Ht Hw]. specialize (IH c Hw Hfo). destruct (s_put_node l a b smp c). exact IH.
          -- cbn [fst]. destruct Hfo as [Hn Hout]. intros Hh. apply hit_cons in Hh. destruct Hh as [Hh|Hh]; [|contradiction].
             cbn [w_a w_b wnew mk_write] in Hh.
             pose proof (rel_spec t0 (t0 + pow10 l) a b ltac:(lia) Hab) as Hr0.
             destruct (relationship t0 (t0 + pow10 l) a b); cbn in Hout; try discriminate. lia.
        * apply (IHc (t0 + pow10 l)); assumption.
  Qed.
End PutCinv.

(* ---------- growTree and histories ---------- *)
Lemma grow_step_node_ok K lvl n root1 : node_ok K lvl n -> (lvl < 8)%nat ->
  sn_replace lvl (SNode (trunc_to (S lvl) (sn_time n)) false (sn_samples n) (sn_writes n) (repeat None 10)) n = Some root1 ->
  node_ok K (S lvl) root1.
Proof.
  intros (Hl & Hwf & Htwo & Hblk) Hlt Er.
  pose proof (wf_time_mod _ _ Hwf) as Hm.
  pose proof (replace_idx_grid lvl (sn_time n) Hm) as Hidx. cbv zeta in Hidx.
  unfold sn_replace in Er. destruct Hidx as [Hi Ht].
  replace (replace_idx lvl (trunc_to (S lvl) (sn_time n)) (sn_time n) <? 0) with false in Er by lia.
  destruct (list_set _ (Some n) (repeat None 10)) as [ch'|] eqn:El; [|discriminate].
  inversion Er; subst root1.
  destruct Hblk as [Hb1 Hb2]. pose proof (pow10_pos lvl).
  pose proof (block_trunc (S lvl) K (sn_time n) ltac:(lia) ltac:(lia)) as [Hc1 Hc2].
  split; [lia|]. split; [|split].
  - cbn [wf]. split; [apply trunc_to_mod|]. split.
    + rewrite (list_set_length _ _ _ _ El). apply repeat_length.
    + eapply list_set_repeat_slots; [exact Hwf|exact El|]. rewrite Z2Nat.id by lia. exact Ht.
  - cbn [two]. split.
    + intros H2. rewrite (list_set_count_one _ _ _ _ El) in H2. lia.
    + eapply list_set_oall; [exact Htwo|exact El].
  - split; cbn [sn_time]; lia.
Qed.

Lemma grow_step_cinv K H lvl n root1 : node_ok K lvl n -> hist_in lvl (sn_time n) H -> cinv H lvl n ->
  sn_replace lvl (SNode (trunc_to (S lvl) (sn_time n)) false (sn_samples n) (sn_writes n) (repeat None 10)) n = Some root1 ->
  cinv H (S lvl) root1.
Proof.
  intros (Hl & Hwf & Htwo & Hblk) Hh Hc Er.
  pose proof (wf_time_mod _ _ Hwf) as Hm.
  pose proof (replace_idx_grid lvl (sn_time n) Hm) as Hidx. cbv zeta in Hidx.
  unfold sn_replace in Er. set (T := trunc_to (S lvl) (sn_time n)) in *.
  set (i := replace_idx lvl T (sn_time n)) in *. destruct Hidx as [Hi Ht].
  replace (i <? 0) with false in Er by lia.
  destruct (list_set (Z.to_nat i) (Some n) (repeat None 10)) as [ch'|] eqn:El; [|discriminate].
  inversion Er; subst root1. cbn [cinv]. pose proof (pow10_pos lvl) as Hp.
  eapply qslots_list_set; [exact Hc|exact El|].
  intros j Hj Hne [w [Hin [Ha Hb]]]. rewrite Z2Nat.id in Hne by lia.
  unfold hist_in in Hh. rewrite Forall_forall in Hh. destruct (Hh w Hin) as ((G1 & _) & G2 & G3). nia.
Qed.

Lemma grow_loop_cinv K E H a b : forall fuel lvl n, node_ok K lvl n -> store_ok E H lvl n -> cinv H lvl n ->
  fuel = (8 - lvl)%nat ->
  let '(lvl', n') := s_grow_loop fuel a b lvl n in cinv H lvl' n'.
Proof.
  induction fuel as [|f IH]; intros lvl n Hok Hst Hc Hf; cbn [s_grow_loop].
  - destruct (relationship _ _ a b); exact Hc.
  - destruct (relationship _ _ a b); try exact Hc;
      (destruct (sn_replace lvl _ n) as [root1|] eqn:Er; [|exact Hc];
       pose proof (grow_step_store K E H lvl n root1 Hok Hst Er) as Hst1;
       pose proof (grow_step_node_ok K lvl n root1 Hok ltac:(lia) Er) as Hok1;
       pose proof (grow_step_cinv K H lvl n root1 Hok (proj2 (proj2 (proj2 (proj2 Hst)))) Hc Er) as Hc1;
       specialize (IH (S lvl) root1 Hok1 Hst1 Hc1 ltac:(lia));
       destruct (s_grow_loop f a b (S lvl) root1); exact IH).
Qed.

Definition root_cinv (s : segment) (H : list write) : Prop :=
  match s_root s with None => True | Some (lvl, n) => cinv H lvl n end.

Lemma s_put_cinv K a b smp beta s E H : valid_range K a b -> b - a < 10 -> sinv K s E H -> root_cinv s H ->
  root_cinv (fst (s_put a b smp s)) (mk_write a b smp beta :: H).
Proof.
  intros Hv Hshort Hs Hc. pose proof Hv as (Hab & Ha & Hb).
  assert (G : match s_root (s_grow a b s) with
              | Some (lvl, n) => wf lvl n /\ cinv H lvl n
              | None => False
              end).
  { pose proof (s_grow_store K a b s E H Hv Hs) as GS.
    unfold s_grow, sinv, root_cinv in *. destruct (s_root s) as [[lvl n]|]; cbn [s_root] in *.
    - destruct Hs as [Hok Hst]. pose proof (pow10_pos lvl).
      pose proof (grow_loop_cinv K E H (Z.min a (sn_time n)) (Z.max b (sn_time n + pow10 lvl))
                    (max_level - lvl)%nat lvl n Hok Hst Hc eq_refl) as GC.
      destruct (s_grow_loop _ _ _ lvl n) as [lvl' n']. destruct GS as ((_ & Hwf & _) & _). auto.
    - destruct Hs as [HH HE]. subst H.
      assert (Hn : node_ok K 0 (new_node a 0)).
      { split; [unfold max_level; lia|]. split; [apply wf_new_node; change (pow10 0) with 1; apply Z.mod_1_r|].
        split; [apply two_new_node|]. unfold in_blk. cbn [new_node sn_time]. change (pow10 0) with 1. lia. }
      assert (Hst : store_ok E [] 0 (new_node a 0)).
      { split; [apply quiet_new_node; intros k _; apply HE|].
        split; [apply ninv_new_node; constructor|].
        split; [intros k _; apply HE|]. split; [rewrite content_new_node; reflexivity|constructor]. }
      assert (Hc0 : cinv [] 0 (new_node a 0)) by (cbn; intros [w [[] _]]).
      pose proof (grow_loop_cinv K E [] a b max_level 0%nat (new_node a 0) Hn Hst Hc0 eq_refl) as GC.
      destruct (s_grow_loop _ _ _ _ _) as [lvl' n']. destruct GS as ((_ & Hwf & _) & _). auto. }
  unfold s_put. destruct (s_root (s_grow a b s)) as [[lvl n]|]; [|contradiction].
  destruct G as [Hwf Hcn]. pose proof (put_cinv a b smp beta H Hab Hshort lvl n Hwf Hcn) as P.
  destruct (s_put_node lvl a b smp n) as [n' cbs]. cbn [fst] in *. unfold root_cinv. cbn [s_root]. exact P.
Qed.

Lemma run_cinv K : forall ws s E H, Forall (valid_write K) ws -> Forall (fun w => w_b w - w_a w < 10) ws ->
  sinv K s E H -> root_cinv s H ->
  root_cinv (fst (fold_left put_step ws (s, E))) (rev ws ++ H).
Proof.
  induction ws as [|w ws IH]; intros s E H Hv Hsh Hs Hc; cbn [fold_left rev app]; [exact Hc|].
  inversion Hv as [|w0 ws0 [Hw1 Hw2] Hvs]; subst. inversion Hsh as [|w1 ws1 Hs1 Hss]; subst.
  pose proof (s_put_store K (w_a w) (w_b w) (w_smp w) (w_beta w) s E H Hw1 Hw2 Hs) as Hstep.
  pose proof (s_put_cinv K (w_a w) (w_b w) (w_smp w) (w_beta w) s E H Hw1 Hs1 Hs Hc) as Hcstep.
  assert (Heq : put_step (s, E) w = (fst (s_put (w_a w) (w_b w) (w_smp w) s),
                                     apply_cbs (w_beta w) E (snd (s_put (w_a w) (w_b w) (w_smp w) s)))).
  { unfold put_step. cbn [fst snd]. destruct (s_put (w_a w) (w_b w) (w_smp w) s). reflexivity. }
  rewrite Heq. specialize (IH _ _ _ Hvs Hss Hstep Hcstep).
  rewrite <- app_assoc. cbn [app].
  replace (mk_write (w_a w) (w_b w) (w_smp w) (w_beta w)) with w in IH by (destruct w; reflexivity).
  exact IH.
Qed.

(* ---------- fully written ranges: every aligned bucket inside is a present node ---------- *)
Lemma mod_pow10_le l' l t : (l' <= l)%nat -> t mod pow10 l = 0 -> t mod pow10 l' = 0.
Proof.
  intros Hle. induction Hle as [|l Hle IH]; [auto|]. intros H. apply IH. apply mod_pow10_S. exact H.
Qed.

Lemma no_straddle l' l t' T : (l' <= l)%nat -> t' mod pow10 l' = 0 -> T mod pow10 l = 0 ->
  ~ (t' < T < t' + pow10 l').
Proof.
  intros Hle H1 H2. pose proof (mod_pow10_le l' l T Hle H2) as H3. pose proof (pow10_pos l') as Hp.
  apply Z.mod_divide in H1; [|lia]. apply Z.mod_divide in H3; [|lia].
  destruct H1 as [x Hx]. destruct H3 as [y Hy]. subst. intros [A B].
  assert (x < y) by nia. assert (y < x + 1) by nia. lia.
Qed.

Lemma qslots_all_some (Q : snode -> Prop) (C : Z -> Prop) w : forall ch t0,
  qslots Q C w t0 ch -> (forall j, 0 <= j < Z.of_nat (length ch) -> ~ C (t0 + j * w)) ->
  count_some ch = length ch.
Proof.
  induction ch as [|o ch IH]; intros t0 Hq HC; [reflexivity|].
  cbn [qslots length] in *. destruct Hq as [Ho Hr]. rewrite count_some_cons.
  rewrite (IH (t0 + w) Hr).
  - destruct o; [reflexivity|]. exfalso. apply (HC 0); [lia|]. replace (t0 + 0 * w) with t0 by lia. exact Ho.
  - intros j Hj. replace (t0 + w + j * w) with (t0 + (j + 1) * w) by lia. apply HC. lia.
Qed.

Lemma pres : forall lvl n H lo hi, wf lvl n -> two lvl n -> cinv H lvl n ->
  (forall x, lo <= x < hi -> hit H x (x + 1)) ->
  forall k, abucket lvl (sn_time n) k -> lo <= snd k -> snd k + pow10 (fst k) <= hi -> In k (pkeys lvl n).
Proof.
  induction lvl as [|l IH]; intros [t p s w ch] H lo hi Hwf Htwo Hc Hwin [l' t'] (K1 & K2 & K3 & K4) Hlo Hhi;
    cbn [fst snd sn_time] in *.
  - assert (l' = 0%nat) by lia. subst l'. change (pow10 0) with 1 in *. assert (t' = t) by lia. subst t'.
    cbn [cinv] in Hc. rewrite (Hc (Hwin t ltac:(lia))). cbn. left. reflexivity.
  - pose proof (pow10_pos (S l)) as HpS. pose proof (pow10_pos l) as Hp. pose proof (pow10_pos l') as Hp'.
    destruct Hwf as [Hm [Hlen Hs]]. destruct Htwo as [Htp Htc]. cbn [cinv] in Hc.
    destruct (Nat.eq_dec l' (S l)) as [->|Hne].
    + (* the node itself: all ten sub-buckets were written, so it has ten children *)
      assert (t' = t) by lia. subst t'.
      assert (Hall : count_some ch = length ch).
      { eapply qslots_all_some; [exact Hc|]. intros j Hj Hn. apply Hn. rewrite Hlen in Hj. rewrite pow10_S in *.
        eapply hit_mono; [| |apply (Hwin (t + j * pow10 l))]; nia. }
      rewrite Hlen in Hall. rewrite Htp by lia. cbn [pkeys]. left. reflexivity.
    + assert (Hl' : (l' <= l)%nat) by lia. cbn [pkeys]. apply in_or_app. right.
      assert (G : forall ch0 t0, slots (wf l) (pow10 l) t0 ch0 -> oall (two l) ch0 ->
                  qslots (cinv H l) (fun t1 => ~ hit H t1 (t1 + pow10 l)) (pow10 l) t0 ch0 ->
                  t0 mod pow10 l = 0 -> t0 <= t' -> t' + pow10 l' <= t0 + Z.of_nat (length ch0) * pow10 l ->
                  In (l', t') (flat_map (fun o => match o with Some c => pkeys l c | None => [] end) ch0)).
      { induction ch0 as [|o ch0 IHc]; intros t0 Hs0 Ht0 Hq0 Hm0 Hge Hle; [cbn [length] in Hle; lia|].
        cbn [slots qslots flat_map length] in *. destruct Hs0 as [Ho Hr0]. destruct Hq0 as [Hqo Hqr]. inversion Ht0; subst.
        apply in_or_app.
        destruct (Z_lt_ge_dec t' (t0 + pow10 l)) as [Hin|Hout].
        - left.
          assert (Hfit : t' + pow10 l' <= t0 + pow10 l).
          { pose proof (no_straddle l' l t' (t0 + pow10 l) Hl' K2 ltac:(rewrite Z.add_mod, Hm0, Z.mod_same by lia; reflexivity)). lia. }
          destruct o as [c|].
          + destruct Ho as [Htm Hwc]. apply (IH c H lo hi Hwc H2 Hqo Hwin (l', t')); cbn [fst snd]; try lia.
            unfold abucket. cbn [fst snd]. rewrite Htm. repeat split; try lia; try exact K2.
          + exfalso. apply Hqo. eapply hit_mono; [| |apply (Hwin t')]; lia.
        - right. apply (IHc (t0 + pow10 l)); auto; try lia.
          rewrite Z.add_mod, Hm0, Z.mod_same by lia. reflexivity. }
      apply (G ch t Hs Htc Hc (mod_pow10_S _ _ Hm) K3). rewrite Hlen. rewrite pow10_S in K4. lia.
Qed.

Lemma hit_rev ws t0 t1 : hit (rev ws) t0 t1 <-> hit ws t0 t1.
Proof. unfold hit. split; intros [w [Hin Hc]]; exists w; split; auto; [apply in_rev; exact Hin|apply in_rev in Hin; exact Hin]. Qed.

(* C03_canonical for histories of short writes: when every slot of the queried range was written, the
   cover is exactly the canonical decomposition of the range below the root bucket *)
Theorem canonical K ws qa qb : Forall (valid_write K) ws -> Forall (fun w => w_b w - w_a w < 10) ws -> qa < qb ->
  (forall x, qa <= x < qb -> exists w, In w ws /\ w_a w <= x < w_b w) ->
  match s_root (fst (run_writes ws)) with
  | Some (lvl, n) => map gc_key (s_get qa qb (fst (run_writes ws))) = s_canon lvl (sn_time n) qa qb
  | None => True
  end.
Proof.
  intros Hv Hsh Hq Hfull.
  pose proof (run_writes_ok K ws Hv) as Hok.
  pose proof (run_cinv K ws s_empty store0 [] Hv Hsh) as Hc. rewrite app_nil_r in Hc.
  assert (Hs0 : sinv K s_empty store0 []) by (unfold sinv; cbn; split; reflexivity).
  specialize (Hc Hs0 I). fold (run_writes ws) in Hc.
  unfold seg_ok, root_cinv, s_get in *.
  destruct (s_root (fst (run_writes ws))) as [[lvl n]|]; [|exact I].
  destruct Hok as (_ & Hwf & Htwo & _).
  apply get_canon; [exact Hq|exact Hwf|].
  intros k Hk [F1 F2]. apply (pres lvl n (rev ws) qa qb Hwf Htwo Hc); [|exact Hk|exact F1|exact F2].
  intros x Hx. apply hit_rev. destruct (Hfull x Hx) as [w [Hin Hw]]. exists w. split; [exact Hin|lia].
Qed.

(* without the restriction on spans the statement is false: a write containing an aligned 1000 s
   bucket, then a one-slot write below it *)
Definition canon_cex : list write :=
  [ mk_write 6321559600 6321559700 100 2; mk_write 6321559613 6321559614 7 1 ].
Lemma canonical_refuted :
  Forall (valid_write 63) canon_cex /\
  (forall x, 6321559610 <= x < 6321559620 -> exists w, In w canon_cex /\ w_a w <= x < w_b w) /\
  s_root (fst (run_writes canon_cex)) <> None /\
  match s_root (fst (run_writes canon_cex)) with
  | Some (lvl, n) => map gc_key (s_get 6321559610 6321559620 (fst (run_writes canon_cex)))
                     <> s_canon lvl (sn_time n) 6321559610 6321559620
  | None => True
  end.
Proof.
  split; [|split; [|split]].
  - repeat constructor; cbn; unfold pow10; cbn; lia.
  - intros x Hx. exists (mk_write 6321559600 6321559700 100 2). split; [left; reflexivity|cbn; lia].
  - assert (E : exists r, s_root (fst (run_writes canon_cex)) = Some r) by (vm_compute; eexists; reflexivity).
    destruct E as [r E]. rewrite E. discriminate.
  - assert (E : s_root (fst (run_writes canon_cex)) = Some (2%nat, snd (match s_root (fst (run_writes canon_cex)) with Some r => r | None => (0%nat, new_node 0 0) end)))
      by (vm_compute; reflexivity).
    rewrite E. vm_compute. discriminate.
Qed.

(* ---------- arbitrary spans ---------- *)
(* For histories with writes of ANY span the cover of a range is canonical exactly under the condition that
   makes the tree "fully pre-aggregated" for that range: every aligned bucket below the root that fits in the
   range is a present node.  (For writes shorter than 10 slots a fully written range satisfies it: [pres].) *)
Theorem canonical_general K ws qa qb : Forall (valid_write K) ws -> qa < qb ->
  match s_root (fst (run_writes ws)) with
  | Some (lvl, n) =>
      (forall k, abucket lvl (sn_time n) k -> fits qa qb k -> In k (pkeys lvl n)) ->
      map gc_key (s_get qa qb (fst (run_writes ws))) = s_canon lvl (sn_time n) qa qb
  | None => True
  end.
Proof.
  intros Hv Hq. pose proof (run_writes_ok K ws Hv) as Hok. unfold seg_ok, s_get in *.
  destruct (s_root (fst (run_writes ws))) as [[lvl n]|]; [|exact I].
  destruct Hok as (_ & Hwf & _). intros HP. apply get_canon; assumption.
Qed.

(* A long write does NOT leave the tree pre-aggregated below the buckets it contains: a bucket contained in a
   write gets a profile and no children, so a later range inside it finds nothing at all.  The smallest
   witness is a fully written series made of ONE write of 100 slots = exactly one aligned 1000 s bucket:
   every slot of the root bucket was written, the sub-range [610,620) is an aligned 100 s bucket, its
   canonical decomposition is that bucket, and the cover is empty (the answer is 0 of the 20 units written). *)
Definition canon_cex1 : list write := [ mk_write 6321559600 6321559700 100 2 ].
Lemma canonical_refuted_one_long_write :
  Forall (valid_write 63) canon_cex1 /\
  option_map (fun r => (fst r, sn_time (snd r), sn_present (snd r))) (s_root (fst (run_writes canon_cex1))) = Some (2%nat, 6321559600, true) /\
  (forall x, 6321559600 <= x < 6321559700 -> exists w, In w canon_cex1 /\ w_a w <= x < w_b w) /\
  s_get 6321559610 6321559620 (fst (run_writes canon_cex1)) = [] /\
  s_canon 2 6321559600 6321559610 6321559620 = [(1%nat, 6321559610)] /\
  WR canon_cex1 6321559610 6321559620 = 20.
Proof.
  split; [repeat constructor; cbn; unfold pow10; cbn; lia|].
  split; [vm_compute; reflexivity|].
  split; [intros x Hx; exists (mk_write 6321559600 6321559700 100 2); split; [left; reflexivity|cbn; lia]|].
  split; [vm_compute; reflexivity|]. split; vm_compute; reflexivity.
Qed.
