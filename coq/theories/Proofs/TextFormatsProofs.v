(* TextFormatsProofs.v — lemmas about Model/TextFormats.v and Model/Ingest.v *)
From Coq Require Import Ascii.
From Pyro Require Import Model.Base Model.TextFormats Model.Ingest.

Local Open Scope N_scope.

(* parameters a client omits take the defaults, whatever else the request carries *)
Lemma ingest_defaults : forall q ct,
  q_get (ascii "spyName") q = [] -> q_get (ascii "sampleRate") q = [] ->
  q_get (ascii "units") q = [] -> q_get (ascii "aggregationType") q = [] ->
  let ip := ingest_params_of q ct in
  ip_spy ip = ascii "unknown" /\ ip_rate ip = 100 /\ ip_units ip = ascii "samples" /\ ip_aggregation ip = ascii "sum".
Proof.
  intros q ct H1 H2 H3 H4. unfold ingest_params_of. cbn [ip_spy ip_rate ip_units ip_aggregation].
  rewrite H1, H2, H3, H4. repeat split.
Qed.
