(* TextFormatsProofs.v — lemmas about Model/TextFormats.v and Model/Ingest.v *)
From Coq Require Import Ascii.
From Pyro Require Import Model.Base Model.TextFormats Model.Ingest.

Local Open Scope N_scope.

(* parameters a client omits take the defaults, whatever else the request carries *)
Lemma ingest_defaults : forall q ct,
  q_get (ascii "spyName") q = [] -> q_get (ascii "sampleRate") q = [] ->
  q_get (ascii "units") q = [] -> q_get (ascii "aggregationType") q = [] ->
  let ip := ingest_params_of q ct in
  ip_spy ip = ascii "unknown" /\ ip_rate ip = 100 /\ ip_units ip = ascii "samples" /\ ip_aggregation ip = ascii "sum".
Proof.
  intros q ct H1 H2 H3 H4. unfold ingest_params_of. cbn [ip_spy ip_rate ip_units ip_aggregation].
  rewrite H1, H2, H3, H4. repeat split.
Qed.

(* ---------------------------------------------------------------------------------------------- *)
(* strconv.Itoa / strconv.Atoi *)
From Coq Require Import ZifyN ZifyNat ZifyBool.
Ltac Zify.zify_post_hook ::= Z.div_mod_to_equations.

Lemma log2_div10 n : 10 <= n -> N.log2 (n / 10) < N.log2 n.
Proof.
  intros H.
  assert (H2 : N.log2 (n / 2) = N.log2 n - 1).
  { change 2 with (2 ^ 1). rewrite <- N.shiftr_div_pow2. apply N.log2_shiftr. }
  assert (3 <= N.log2 n). { change 3 with (N.log2 8). apply N.log2_le_mono. lia. }
  assert (N.log2 (n / 10) <= N.log2 (n / 2)). { apply N.log2_le_mono. lia. }
  lia.
Qed.

Lemma is_digit_48 x : x < 10 -> is_digit (48 + x) = true.
Proof. intros H. unfold is_digit. lia. Qed.

Lemma itoa_fuel_val : forall f n acc, (N.to_nat (N.log2 n) < f)%nat ->
  exists k, forall a, digits_val a (itoa_fuel f n acc) = digits_val (a * 10 ^ k + n) acc.
Proof.
  induction f as [|f IH]; intros n acc Hf; [lia|]. cbn [itoa_fuel].
  destruct (N.ltb_spec n 10) as [Hs|Hb].
  - exists 1. intros a. cbn [digits_val]. rewrite is_digit_48 by lia. f_equal. lia.
  - pose proof (log2_div10 n Hb).
    destruct (IH (n / 10) ((48 + n mod 10) :: acc)) as (k & Hk); [lia|].
    exists (k + 1). intros a. rewrite Hk. cbn [digits_val]. rewrite is_digit_48 by lia. f_equal.
    rewrite N.pow_add_r. lia.
Qed.

Lemma itoa_val n : digits_val 0 (itoa n) = Some n.
Proof.
  unfold itoa. destruct (itoa_fuel_val (S (N.to_nat (N.log2 n))) n []) as (k & Hk); [lia|].
  rewrite Hk. cbn. f_equal.
Qed.

Lemma itoa_fuel_head : forall f n d0 acc, is_digit d0 = true ->
  exists d r, itoa_fuel f n (d0 :: acc) = d :: r /\ is_digit d = true.
Proof.
  induction f as [|f IH]; intros n d0 acc Hd; [exists d0, acc; now split|]. cbn [itoa_fuel].
  destruct (n <? 10).
  - eexists _, _. split; [reflexivity|]. apply is_digit_48. lia.
  - apply IH. apply is_digit_48. lia.
Qed.

Lemma itoa_head n : exists d r, itoa n = d :: r /\ is_digit d = true.
Proof.
  unfold itoa. cbn [itoa_fuel]. destruct (n <? 10).
  - eexists _, _. split; [reflexivity|]. apply is_digit_48. lia.
  - apply itoa_fuel_head. apply is_digit_48. lia.
Qed.

Lemma atoi_digit_head d r : is_digit d = true ->
  atoi (d :: r) = match digits_val 0 (d :: r) with
                  | None => None
                  | Some n => if n <? 2 ^ 63 then Some (Z.of_N n) else None
                  end.
Proof.
  intros H. unfold is_digit in H.
  assert (E : d = 48 \/ d = 49 \/ d = 50 \/ d = 51 \/ d = 52 \/ d = 53 \/ d = 54 \/ d = 55 \/ d = 56 \/ d = 57) by lia.
  destruct E as [->|[->|[->|[->|[->|[->|[->|[->|[->| ->]]]]]]]]]; reflexivity.
Qed.

Theorem atoi_itoa n : n < 2 ^ 63 -> atoi (itoa n) = Some (Z.of_N n).
Proof.
  intros Hn. destruct (itoa_head n) as (d & r & E & Hd).
  pose proof (itoa_val n) as Hv. rewrite E in *. rewrite atoi_digit_head by exact Hd. rewrite Hv.
  destruct (N.ltb_spec n (2 ^ 63)); [reflexivity|lia].
Qed.

Lemma digits_val_all : forall s a v, digits_val a s = Some v -> forallb is_digit s = true.
Proof.
  induction s as [|c s IH]; intros a v H; [reflexivity|]. cbn in *.
  destruct (is_digit c); [|discriminate]. cbn. eapply IH; eauto.
Qed.

Lemma itoa_all_digits n : forallb is_digit (itoa n) = true.
Proof. eapply digits_val_all. apply itoa_val. Qed.

(* ---------------------------------------------------------------------------------------------- *)
(* the uploader's query is read back by the handler as the job's own parameters *)

Definition job_ok (j : upload_job) : Prop :=
  j_start j < 2 ^ 63 /\ j_end j < 2 ^ 63 /\ j_rate j < 2 ^ 32 /\
  j_spy j <> [] /\ j_units j <> [] /\ j_aggregation j <> [] /\
  (* attime.Parse reads an 8-digit string as a calendar date *)
  length (itoa (j_start j)) <> 8%nat /\ length (itoa (j_end j)) <> 8%nat.

Lemma parse_time_arg_itoa n : n < 2 ^ 63 -> length (itoa n) <> 8%nat ->
  parse_time_arg (itoa n) = TUnix (Z.of_N n).
Proof.
  intros Hn Hl. unfold parse_time_arg. destruct (itoa_head n) as (d & r & E & Hd).
  pose proof (itoa_all_digits n) as Ha. pose proof (atoi_itoa n Hn) as Hat. rewrite E in *.
  unfold all_digits. rewrite Ha. cbn [negb andb].
  destruct (Nat.eqb_spec (length (d :: r)) 8); [contradiction|]. cbn [negb]. now rewrite Hat.
Qed.

Lemma job_roundtrip : forall j, job_ok j ->
  ingest_params_of (upload_query j) upload_content_type =
  {| ip_format := FTrie; ip_name := j_name j;
     ip_from := TUnix (Z.of_N (j_start j)); ip_until := TUnix (Z.of_N (j_end j));
     ip_spy := j_spy j; ip_rate := j_rate j; ip_units := j_units j; ip_aggregation := j_aggregation j |}.
Proof.
  intros j (H1 & H2 & H3 & H4 & H5 & H6 & H7 & H8). unfold ingest_params_of.
  change (q_get (ascii "format") (upload_query j)) with (@nil byte).
  change (q_get (ascii "name") (upload_query j)) with (j_name j).
  change (q_get (ascii "from") (upload_query j)) with (itoa (j_start j)).
  change (q_get (ascii "until") (upload_query j)) with (itoa (j_end j)).
  change (q_get (ascii "spyName") (upload_query j)) with (j_spy j).
  change (q_get (ascii "sampleRate") (upload_query j)) with (itoa (j_rate j)).
  change (q_get (ascii "units") (upload_query j)) with (j_units j).
  change (q_get (ascii "aggregationType") (upload_query j)) with (j_aggregation j).
  change (select_format [] upload_content_type) with FTrie.
  rewrite !parse_time_arg_itoa by assumption.
  assert (Hr : match itoa (j_rate j) with
               | [] => default_sample_rate
               | _ :: _ => match atoi (itoa (j_rate j)) with
                           | Some v => Z.to_N (v mod 2 ^ 32)%Z
                           | None => default_sample_rate
                           end
               end = j_rate j).
  { destruct (itoa_head (j_rate j)) as (d & r & E & _). rewrite atoi_itoa by lia. rewrite E.
    rewrite Z.mod_small by lia. lia. }
  f_equal.
  - destruct (j_spy j); [congruence|reflexivity].
  - destruct (itoa (j_rate j)) eqn:E; exact Hr.
  - destruct (j_units j); [congruence|reflexivity].
  - destruct (j_aggregation j); [congruence|reflexivity].
Qed.

(* ---------------------------------------------------------------------------------------------- *)
(* bufio.ScanLines on a body made of '\n'-terminated lines *)

Definition no_byte (b : byte) (s : bytes) : Prop := Forall (fun c => c <> b) s.

Lemma frev_rev {A} (l : list A) : frev l = rev l.
Proof. unfold frev. symmetry. apply rev_alt. Qed.

Lemma raw_lines_aux_line : forall l cur rest, no_byte 10 l ->
  raw_lines_aux cur (l ++ 10 :: rest) = (rev cur ++ l) :: raw_lines_aux [] rest.
Proof.
  induction l as [|c l IH]; intros cur rest H; cbn [app raw_lines_aux].
  - rewrite N.eqb_refl, app_nil_r, frev_rev. reflexivity.
  - inversion H as [|? ? Hc Hl]; subst. destruct (N.eqb_spec c 10); [contradiction|].
    rewrite IH by exact Hl. cbn [rev]. now rewrite <- app_assoc.
Qed.

Lemma raw_lines_lines (ls : list bytes) : Forall (no_byte 10) ls ->
  raw_lines (flat_map (fun l => l ++ [10]) ls) = ls.
Proof.
  unfold raw_lines. induction 1 as [|l ls Hl _ IH]; [reflexivity|].
  cbn [flat_map]. rewrite <- app_assoc. cbn [app]. rewrite raw_lines_aux_line by exact Hl.
  cbn [rev app]. now rewrite IH.
Qed.

Definition line_fits (l : bytes) : Prop := N.of_nat (length l) < max_token.

Lemma drop_cr_keep l : (forall s c, l = s ++ [c] -> c <> 13) -> drop_cr l = l.
Proof.
  intros H. unfold drop_cr. rewrite frev_rev.
  match goal with |- context [match ?x with [] => _ | _ :: _ => _ end] => remember x as rl eqn:E end.
  destruct rl as [|c r]; [reflexivity|].
  destruct (N.eqb_spec c 13) as [->|]; [|reflexivity].
  exfalso. apply (H (rev r) 13); [|reflexivity].
  apply (f_equal (@rev _)) in E. rewrite rev_involutive in E. cbn [rev] in E. symmetry. exact E.
Qed.

Lemma scan_tokens_keep (ls : list bytes) :
  Forall line_fits ls -> Forall (fun l => drop_cr l = l) ls -> scan_tokens ls = (ls, true).
Proof.
  induction 1 as [|l ls Hl _ IH]; intros Hd; [reflexivity|]. inversion Hd as [|? ? D1 D2]; subst.
  cbn [scan_tokens]. unfold line_fits in Hl. destruct (N.leb_spec max_token (N.of_nat (length l))); [lia|].
  rewrite (IH D2), D1. reflexivity.
Qed.

(* bytes.LastIndexByte(line, ' ') *)
Lemma split_last_space_none s : no_byte 32 s -> split_last_space s = None.
Proof.
  induction 1 as [|c s Hc _ IH]; [reflexivity|]. cbn. rewrite IH. destruct (N.eqb_spec c 32); [contradiction|reflexivity].
Qed.

Lemma split_last_space_app k ds : no_byte 32 ds -> split_last_space (k ++ 32 :: ds) = Some (k, ds).
Proof.
  intros H. induction k as [|c k IH]; cbn [app split_last_space].
  - rewrite (split_last_space_none ds H). reflexivity.
  - rewrite IH. reflexivity.
Qed.

Lemma digits_no_byte b s : forallb is_digit s = true -> is_digit b = false -> no_byte b s.
Proof.
  intros H Hb. apply Forall_forall. intros c Hc E. subst c.
  rewrite forallb_forall in H. rewrite (H b Hc) in Hb. discriminate.
Qed.

(* ---------------------------------------------------------------------------------------------- *)
(* collapsed text: "stack count\n" per entry *)

Definition group_line (kv : bytes * N) : bytes := fst kv ++ 32 :: itoa (snd kv).

Definition group_ok (kv : bytes * N) : Prop :=
  no_byte 10 (fst kv) /\ snd kv < 2 ^ 63 /\ line_fits (group_line kv).

Lemma render_groups_eq ms : render_groups ms = flat_map (fun l => l ++ [10]) (map group_line ms).
Proof.
  unfold render_groups. induction ms as [|kv ms IH]; [reflexivity|]. cbn [flat_map map]. rewrite IH.
  f_equal. unfold group_line. rewrite <- app_assoc. reflexivity.
Qed.

Lemma group_line_no_nl kv : no_byte 10 (fst kv) -> no_byte 10 (group_line kv).
Proof.
  intros H. unfold group_line, no_byte. apply Forall_app. split; [exact H|].
  constructor; [discriminate|]. apply (digits_no_byte 10); [apply itoa_all_digits|reflexivity].
Qed.

Lemma group_line_drop_cr kv : drop_cr (group_line kv) = group_line kv.
Proof.
  apply drop_cr_keep. intros s c E Hc. subst c.
  assert (Hin : In 13 (itoa (snd kv))).
  { unfold group_line in E. destruct (itoa_head (snd kv)) as (d & r & Ei & _).
    destruct (exists_last (l := itoa (snd kv))) as (s' & c' & Es); [rewrite Ei; discriminate|].
    rewrite Es in E. change (fst kv ++ 32 :: s' ++ [c']) with (fst kv ++ (32 :: s') ++ [c']) in E.
    rewrite app_assoc in E. apply app_inj_tail in E. destruct E as [_ ->].
    rewrite Es. apply in_or_app. right. now left. }
  pose proof (itoa_all_digits (snd kv)) as Hd. rewrite forallb_forall in Hd.
  specialize (Hd 13 Hin). discriminate.
Qed.

Lemma groups_of_group_lines ms : Forall group_ok ms ->
  groups_of_tokens (map group_line ms) = (map (fun kv => (fst kv, Z.of_N (snd kv))) ms, true).
Proof.
  induction 1 as [|kv ms (H1 & H2 & H3) _ IH]; [reflexivity|]. cbn [map groups_of_tokens].
  unfold group_line at 1. rewrite split_last_space_app
    by (apply (digits_no_byte 32); [apply itoa_all_digits|reflexivity]).
  rewrite atoi_itoa by exact H2. rewrite IH. reflexivity.
Qed.

Lemma parse_groups_render ms : Forall group_ok ms ->
  parse_groups (render_groups ms) = (map (fun kv => (fst kv, Z.of_N (snd kv))) ms, true).
Proof.
  intros H. unfold parse_groups, scan_lines. rewrite render_groups_eq, raw_lines_lines.
  - rewrite scan_tokens_keep.
    + rewrite groups_of_group_lines by exact H. reflexivity.
    + apply Forall_map. eapply Forall_impl; [|exact H]. intros kv (_ & _ & H3). exact H3.
    + apply Forall_map. apply Forall_forall. intros kv _. apply group_line_drop_cr.
  - apply Forall_map. eapply Forall_impl; [|exact H]. intros kv (H1 & _). now apply group_line_no_nl.
Qed.

Lemma to_uint64_of_N v : v < 2 ^ 64 -> to_uint64 (Z.of_N v) = v.
Proof. intros H. unfold to_uint64. rewrite Z.mod_small by lia. lia. Qed.

Theorem groups_path_agrees ms : Forall group_ok ms ->
  tree_via_groups (render_groups ms) = Some (profile_of ms).
Proof.
  intros H. unfold tree_via_groups. rewrite parse_groups_render by exact H. f_equal.
  unfold profile_of. generalize t_empty. induction H as [|kv ms (H1 & H2 & H3) _ IH]; intros t; [reflexivity|].
  cbn [map fold_left fst snd]. rewrite to_uint64_of_N by lia. apply IH.
Qed.
