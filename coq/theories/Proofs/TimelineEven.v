(* TimelineEven.v — C13_entries for uploads of 1..9 slots whose sample count is a multiple of the span
   ("even uploads": SegCountShare.even_upload, from Float53Share.share_exact_small_span), for every bucket size
   (tl_lvl = 0: 10 s; tl_lvl >= 1: coarse buckets with the range start on the bucket grid): entry j is 0 when no
   upload overlaps bucket j and otherwise 1 + the samples ingested in it, each upload contributing its per-slot
   amount times the number of its slots inside the bucket. *)
From Pyro Require Import Model.Base Model.Tree Model.Float53 Model.Segment Model.Timeline Model.Storage
  Proofs.TreeProofs Proofs.SegmentProofs Proofs.SegStruct Proofs.SegGet Proofs.SegStore Proofs.SegInv Proofs.SegRead Proofs.SegCanon
  Proofs.SegCount Proofs.SegCountShare Proofs.StorageProofs Proofs.TimelineProofs Proofs.StorageCounters Proofs.TimelineCoarse.
From Coq Require Import ZifyN ZifyNat ZifyBool Lia.
Local Open Scope Z_scope.

(* slots of the write inside [lo, hi), weighted *)
Definition ovw (lo hi : Z) (w : write) : Z := ov lo hi (w_a w) (w_b w).
Definition osum (g : write -> Z) (H : list write) (lo hi : Z) : Z := sumZ (map (fun w => ovw lo hi w * g w) H).
Definition Oj := osum (fun _ => 1).
Definition Sj := osum (fun w => Z.of_N (per_slot w)).

Lemma osum_cons g w H lo hi : osum g (w :: H) lo hi = ovw lo hi w * g w + osum g H lo hi.
Proof. reflexivity. Qed.

Lemma ovw_nonneg lo hi w : 0 <= ovw lo hi w.
Proof. apply ov_nonneg. Qed.

Lemma osum_nonneg g H lo hi : (forall w, 0 <= g w) -> 0 <= osum g H lo hi.
Proof. intros Hg. induction H as [|w H IH]; [cbn; lia|]. rewrite osum_cons. pose proof (ovw_nonneg lo hi w). specialize (Hg w). nia. Qed.

Lemma osum_join g H t0 m T L U : t0 <= m -> m <= T ->
  osum g H (Z.max t0 L) (Z.min m U) + osum g H (Z.max m L) (Z.min T U) = osum g H (Z.max t0 L) (Z.min T U).
Proof.
  intros H1 H2. induction H as [|w H IH]; [reflexivity|]. rewrite !osum_cons, <- IH.
  assert (E : ovw (Z.max t0 L) (Z.min m U) w + ovw (Z.max m L) (Z.min T U) w = ovw (Z.max t0 L) (Z.min T U) w) by (unfold ovw, ov; lia).
  rewrite <- E. lia.
Qed.

Lemma osum_empty g H lo hi : hi <= lo -> osum g H lo hi = 0.
Proof.
  intros Hle. induction H as [|w H IH]; [reflexivity|]. rewrite osum_cons, IH.
  replace (ovw lo hi w) with 0 by (unfold ovw, ov; lia). lia.
Qed.

Lemma Oj_zero_osum g H lo hi : Oj H lo hi = 0 -> osum g H lo hi = 0.
Proof.
  unfold Oj. induction H as [|w H IH]; [reflexivity|]. rewrite !osum_cons. intros Hz.
  pose proof (ovw_nonneg lo hi w). pose proof (osum_nonneg (fun _ => 1) H lo hi ltac:(intros; lia)).
  assert (ovw lo hi w = 0) by lia. rewrite IH by lia. nia.
Qed.

Definition good_writes (H : list write) : Prop := Forall (fun w => w_a w < w_b w) H.

Lemma nohit_Oj H t0 t1 L U : ~ hit H t0 t1 -> Oj H (Z.max t0 L) (Z.min t1 U) = 0.
Proof.
  intros Hn. unfold Oj, osum. apply sumZ_map_zero. intros w Hw.
  assert (~ (w_a w < t1 /\ t0 < w_b w)) by (intros Hc; apply Hn; exists w; split; assumption).
  unfold ovw, ov. lia.
Qed.

Lemma nmeet_Oj H lvl t : good_writes H -> (1 <= nmeet H lvl t)%N -> 1 <= Oj H t (t + pow10 lvl).
Proof.
  intros Hg Hn. unfold nmeet in Hn. destruct (filter (meets lvl t) H) as [|w0 l] eqn:Ef; [cbn in Hn; lia|].
  assert (Hin : In w0 H /\ meets lvl t w0 = true) by (apply filter_In; rewrite Ef; left; reflexivity). destruct Hin as [Hin Hm].
  unfold good_writes in Hg. rewrite Forall_forall in Hg. pose proof (Hg w0 Hin) as Hw. pose proof (pow10_pos lvl).
  unfold Oj. clear Ef Hn. induction H as [|w H IH]; [destruct Hin|]. rewrite osum_cons.
  pose proof (osum_nonneg (fun _ => 1) H t (t + pow10 lvl) ltac:(intros; lia)). pose proof (ovw_nonneg t (t + pow10 lvl) w).
  destruct Hin as [->|Hin].
  - assert (1 <= ovw t (t + pow10 lvl) w0) by (unfold ovw, ov, meets in *; lia). lia.
  - assert (1 <= osum (fun _ => 1) H t (t + pow10 lvl)); [|lia]. apply IH; [intros x Hx; apply Hg; right; exact Hx|exact Hin].
Qed.

Lemma ssum_Sj H lvl t : Forall even_upload H -> Z.of_N (ssum H lvl t) = Sj H t (t + pow10 lvl).
Proof.
  intros He. rewrite (ssum_even H lvl t He). unfold Sj, osum. clear He. induction H as [|w H IH]; [reflexivity|]. cbn [filter map].
  change (sumZ (?x :: ?r)) with (x + sumZ r). rewrite <- IH. pose proof (pow10_pos lvl).
  destruct (meets lvl t w) eqn:Em.
  - cbn [map]. change (sumN' (?x :: ?r)) with (x + sumN' r)%N. rewrite N2Z.inj_add, N2Z.inj_mul, Z2N.id by apply ov_nonneg. reflexivity.
  - replace (ovw t (t + pow10 lvl) w) with 0; [lia|]. unfold ovw, ov, meets in *. lia.
Qed.

Section Even.
  Variables (H : list write) (a b : Z) (dl : nat).
  Hypothesis Hab : a < b.
  Hypothesis Hgrid : a mod pow10 dl = 0.
  Hypothesis Hgood : good_writes H.
  Hypothesis Heven : Forall even_upload H.


  (* the bump of a node that is not wider than a bucket *)
  Lemma bump_case lvl t p s w ch buf j T :
    winv H lvl (SNode t p s w ch) -> posw lvl (SNode t p s w ch) ->
    is_outside (relationship t (t + pow10 lvl) a b) = false ->
    T <= t -> t + pow10 lvl <= T + pow10 dl -> T mod pow10 dl = 0 ->
    (j < length buf)%nat ->
    nth j (bump_range (Z.quot (T - a) (pow10 dl)) (Z.quot (T - a) (pow10 dl) + 1) s 0 buf) 0%N =
    accN (nth j buf 0%N) (Oj H (Z.max t (Lj a dl j)) (Z.min (t + pow10 lvl) (Uj a dl j))) (Sj H (Z.max t (Lj a dl j)) (Z.min (t + pow10 lvl) (Uj a dl j))).
  Proof.
    intros Hw Hp E T1 T2 T3 Hj. pose proof (pow10_pos dl) as HD. pose proof (pow10_pos lvl) as HP.
    pose proof (is_outside_spec t (pow10 lvl) a b HP Hab) as Ho.
    assert (Hin : a < t + pow10 lvl /\ t < b).
    { destruct (Z.le_gt_cases (t + pow10 lvl) a); [exfalso; assert (X : t + pow10 lvl <= a \/ b <= t) by lia; apply Ho in X; congruence|].
      destruct (Z.le_gt_cases b t); [exfalso; assert (X : t + pow10 lvl <= a \/ b <= t) by lia; apply Ho in X; congruence|lia]. }
    assert (HTa : a <= T).
    { pose proof T3 as T3'. pose proof Hgrid as Hg'. apply Z.mod_divide in T3'; [|lia]. apply Z.mod_divide in Hg'; [|lia].
      destruct T3' as [k1 E1], Hg' as [k2 E2]. assert (k2 < k1 + 1) by nia. nia. }
    rewrite Z.quot_div_nonneg by lia.
    assert (HTi : T = a + (T - a) / pow10 dl * pow10 dl).
    { pose proof T3 as T3'. pose proof Hgrid as Hg'. apply Z.mod_divide in T3'; [|lia]. apply Z.mod_divide in Hg'; [|lia].
      destruct T3' as [k1 E1], Hg' as [k2 E2]. replace (T - a) with ((k1 - k2) * pow10 dl) by lia. rewrite Z.div_mul by lia. lia. }
    set (i := (T - a) / pow10 dl) in *. rewrite bump_range_nth by exact Hj.
    destruct (winv_fields _ _ _ _ _ _ _ Hw) as [Ew Es].
    assert (Hp1 : (1 <= w)%N) by (destruct lvl; cbn [posw] in Hp; apply Hp).
    pose proof (nmeet_Oj H lvl t Hgood ltac:(rewrite <- Ew; exact Hp1)) as Hn. pose proof (ssum_Sj H lvl t Heven) as Hss.
    unfold Uj, Lj. destruct (Z.eqb_spec (0 + Z.of_nat j) i) as [Ei|Ei].
    - replace (Z.max t (a + Z.of_nat j * pow10 dl)) with t by lia.
      replace (Z.min (t + pow10 lvl) (a + Z.of_nat j * pow10 dl + pow10 dl)) with (t + pow10 lvl) by lia.
      unfold accN. replace (Oj H t (t + pow10 lvl) =? 0) with false by lia. rewrite <- Hss, <- Es, N2Z.id. reflexivity.
    - unfold accN, Oj. rewrite osum_empty; [reflexivity|]. destruct (Z.lt_ge_cases (Z.of_nat j) i); nia.
  Qed.

  Lemma even_node : forall lvl n buf j, wf lvl n -> cinv H lvl n -> winv H lvl n -> posw lvl n ->
    (j < length buf)%nat -> a + Z.of_nat (length buf) * pow10 dl <= b ->
    nth j (tl_populate_node lvl a b dl n buf) 0%N =
    accN (nth j buf 0%N) (Oj H (Z.max (sn_time n) (Lj a dl j)) (Z.min (sn_time n + pow10 lvl) (Uj a dl j)))
                         (Sj H (Z.max (sn_time n) (Lj a dl j)) (Z.min (sn_time n + pow10 lvl) (Uj a dl j))).
  Proof.
    induction lvl as [|l IH]; intros [t p s w ch] buf j Hwf Hc Hw Hp Hj Hlen; cbn [sn_time];
      pose proof (pow10_pos dl) as HD;
      assert (HLU : a <= Lj a dl j /\ Uj a dl j <= b) by (unfold Uj, Lj; nia).
    - cbn [tl_populate_node]. pose proof (is_outside_spec t (pow10 0) a b (pow10_pos 0) Hab) as Ho.
      destruct (is_outside (relationship t (t + pow10 0) a b)) eqn:E.
      + destruct Ho as [Ho _]. specialize (Ho eq_refl). unfold accN, Oj. rewrite osum_empty by lia. reflexivity.
      + destruct (Nat.eq_dec dl 0) as [Edl|Edl].
        * (* 10 s buckets *)
          assert (HD1 : pow10 dl = 1) by (rewrite Edl; apply pow10_0).
          replace (0 <? dl)%nat with false by (rewrite Edl; reflexivity).
          replace (Z.quot (pow10 0) (pow10 dl)) with 1 by (rewrite HD1, pow10_0; reflexivity).
          apply (bump_case 0 t p s w ch buf j t Hw Hp E); [lia|rewrite pow10_0; lia|rewrite HD1; apply Z.mod_1_r|exact Hj].
        * replace (0 <? dl)%nat with true by (symmetry; apply Nat.ltb_lt; lia).
          destruct (node_in_bucket a dl ltac:(lia) Hgrid 0 t ltac:(lia) ltac:(rewrite pow10_0; apply Z.mod_1_r)) as (T1 & T2 & T3).
          rewrite Z.quot_same by lia. apply (bump_case 0 t p s w ch buf j (trunc_to dl t) Hw Hp E T1 T2 T3 Hj).
    - cbn [tl_populate_node]. pose proof (pow10_pos (S l)) as HpS.
      pose proof (is_outside_spec t (pow10 (S l)) a b HpS Hab) as Ho.
      destruct (is_outside (relationship t (t + pow10 (S l)) a b)) eqn:E.
      + destruct Ho as [Ho _]. specialize (Ho eq_refl). unfold accN, Oj. rewrite osum_empty by lia. reflexivity.
      + pose proof Hwf as Hwf0. cbn [wf] in Hwf. destruct Hwf as (Hm & Hlen10 & Hslots). rewrite Hlen10. cbn [Nat.eqb negb andb].
        destruct (Nat.leb_spec dl (S l)) as [Hge|Hlt].
        * cbn [cinv] in Hc. pose proof Hw as Hw0. cbn [winv] in Hw. destruct Hw as (_ & _ & Hwch). pose proof Hp as Hp0. cbn [posw] in Hp. destruct Hp as [_ Hpch].
          rewrite pow10_S. replace (10 * pow10 l) with (Z.of_nat (length ch) * pow10 l) by (rewrite Hlen10; lia).
          clear Hlen10 Hm E Ho Hwf0 Hw0 Hp0. pose proof (pow10_pos l) as Hpl.
          revert t buf Hj Hlen Hslots Hc. induction ch as [|o ch IHch]; intros t0 buf Hj Hlen Hsl Hq.
          { cbn [fold_left length]. unfold accN, Oj. rewrite osum_empty by lia. reflexivity. }
          cbn [fold_left length]. cbn [slots qslots] in Hsl, Hq. destruct Hsl as [Ho Hsr]. destruct Hq as [Hqo Hqr].
          inversion Hwch as [|? ? Hwo Hwr]; subst. inversion Hpch as [|? ? Hpo Hpr]; subst.
          set (buf1 := match o with Some c => tl_populate_node l a b dl c buf | None => buf end).
          assert (Hlen1 : length buf1 = length buf) by (unfold buf1; destruct o; [apply tl_populate_node_length|reflexivity]).
          rewrite (IHch Hwr Hpr (t0 + pow10 l) buf1) by (rewrite ?Hlen1; assumption).
          replace (t0 + pow10 l + Z.of_nat (length ch) * pow10 l) with (t0 + Z.of_nat (S (length ch)) * pow10 l) by lia.
          assert (Hfirst : nth j buf1 0%N = accN (nth j buf 0%N) (Oj H (Z.max t0 (Lj a dl j)) (Z.min (t0 + pow10 l) (Uj a dl j)))
                                                 (Sj H (Z.max t0 (Lj a dl j)) (Z.min (t0 + pow10 l) (Uj a dl j)))).
          { unfold buf1. destruct o as [c|].
            - destruct Ho as [Ht Hwc]. rewrite (IH c buf j Hwc Hqo Hwo Hpo Hj Hlen), Ht. reflexivity.
            - unfold accN. rewrite (nohit_Oj H _ _ (Lj a dl j) (Uj a dl j) Hqo). reflexivity. }
          rewrite Hfirst, accN_comp.
          -- unfold Oj, Sj. rewrite !(osum_join _ H t0 (t0 + pow10 l) (t0 + Z.of_nat (S (length ch)) * pow10 l) (Lj a dl j) (Uj a dl j)) by lia. reflexivity.
          -- apply osum_nonneg. intros; lia.
          -- apply osum_nonneg. intros; lia.
          -- apply osum_nonneg. intros; lia.
          -- apply osum_nonneg. intros; lia.
          -- apply Oj_zero_osum.
          -- apply Oj_zero_osum.
        * replace (S l <? dl)%nat with true by lia.
          destruct (node_in_bucket a dl ltac:(lia) Hgrid (S l) t ltac:(lia) Hm) as (T1 & T2 & T3).
          rewrite Z.quot_same by lia. apply (bump_case (S l) t p s w ch buf j (trunc_to dl t) Hw Hp E T1 T2 T3 Hj).
  Qed.
End Even.

Lemma even_short ws : Forall even_upload ws -> Forall (fun w => w_b w - w_a w < 10) ws.
Proof. intros H. eapply Forall_impl; [|exact H]. intros w (E & _). lia. Qed.

Lemma even_good ws : Forall even_upload ws -> good_writes ws.
Proof. intros H. eapply Forall_impl; [|exact H]. intros w (E & _). lia. Qed.

Lemma run_invs_even K ws : Forall (valid_write K) ws -> Forall even_upload ws ->
  match s_root (fst (run_writes ws)) with
  | None => ws = []
  | Some (lvl, n) => wf lvl n /\ cinv ws lvl n /\ winv ws lvl n /\ posw lvl n /\ hist_in lvl (sn_time n) (rev ws)
  end.
Proof.
  intros Hv He. pose proof (even_short ws He) as Hsh. pose proof (run_root K ws Hv) as HR.
  assert (Hs0 : sinv K s_empty store0 []) by (unfold sinv; cbn; split; reflexivity).
  pose proof (run_cinv K ws s_empty store0 [] Hv Hsh Hs0 I) as HC. rewrite app_nil_r in HC. fold (run_writes ws) in HC.
  destruct (seg_counters_exact K ws Hv Hsh) as [HW _]. pose proof (run_posw_gen ws (even_good ws He)) as HP.
  unfold root_cinv, root_winv, root_posw in *. destruct (s_root (fst (run_writes ws))) as [[lvl n]|]; [|exact HR].
  destruct HR as (Hwf & _ & _ & Hh). split; [exact Hwf|]. split; [apply cinv_rev', HC|]. split; [exact HW|]. split; [exact HP|exact Hh].
Qed.

(* one series, any bucket size *)
Lemma even_series_gen K ws tl : Forall (valid_write K) ws -> Forall even_upload ws ->
  tl_st tl < tl_et tl -> tl_st tl mod pow10 (tl_lvl tl) = 0 ->
  tl_st tl + Z.of_nat (length (tl_samples tl)) * pow10 (tl_lvl tl) <= tl_et tl ->
  forall j, (j < length (tl_samples tl))%nat ->
  nth j (tl_samples (tl_populate (fst (run_writes ws)) tl)) 0%N =
  accN (nth j (tl_samples tl) 0%N) (Oj ws (Lj (tl_st tl) (tl_lvl tl) j) (Uj (tl_st tl) (tl_lvl tl) j))
                                   (Sj ws (Lj (tl_st tl) (tl_lvl tl) j) (Uj (tl_st tl) (tl_lvl tl) j)).
Proof.
  intros Hv He Hab Hgrid Hlen j Hj. set (a := tl_st tl) in *. set (b := tl_et tl) in *. set (dl := tl_lvl tl) in *.
  pose proof (run_invs_even K ws Hv He) as HI. unfold tl_populate.
  destruct (s_root (fst (run_writes ws))) as [[lvl n]|].
  - destruct HI as (Hwf & Hc & HW & HP & Hh). cbn [tl_samples]. fold a b dl.
    rewrite (even_node ws a b dl Hab Hgrid (even_good ws He) He lvl n _ j Hwf Hc HW HP Hj Hlen).
    assert (E : forall g, osum g ws (Z.max (sn_time n) (Lj a dl j)) (Z.min (sn_time n + pow10 lvl) (Uj a dl j)) = osum g ws (Lj a dl j) (Uj a dl j)).
    { intros g. unfold osum. f_equal. apply map_ext_in. intros w Hin. unfold hist_in in Hh. rewrite Forall_forall in Hh.
      destruct (Hh w (proj1 (in_rev ws w) Hin)) as (_ & G2 & G3). f_equal. unfold ovw, ov. lia. }
    unfold Oj, Sj. rewrite !E. reflexivity.
  - subst ws. unfold accN. cbn. reflexivity.
Qed.

(* C13_entries, one series, uploads of 1..9 slots with counts divisible by the span, every bucket size *)
Lemma even_single_series K ws a b : Forall (valid_write K) ws -> Forall even_upload ws -> a < b ->
  let dl := tl_lvl (tl_generate a b) in
  a mod pow10 dl = 0 ->
  forall j, (j < length (tl_samples (tl_generate a b)))%nat ->
  nth j (tl_samples (tl_populate (fst (run_writes ws)) (tl_generate a b))) 0%N =
  if Oj ws (Lj a dl j) (Uj a dl j) =? 0 then 0%N else (1 + Z.to_N (Sj ws (Lj a dl j) (Uj a dl j)))%N.
Proof.
  intros Hv He Hab dl Hgrid j Hj.
  assert (Hz : forall i, nth i (tl_samples (tl_generate a b)) 0%N = 0%N).
  { intros i. unfold tl_generate. cbn [tl_samples]. generalize (Z.to_nat (Z.quot (b - a) (pow10 (pick_level [0; 1; 2; 3; 4; 5; 6; 7; 8]%nat (Z.quot ((b - a) * ns_per_slot) 1024) 0)))).
    intros m. revert i. induction m as [|m IHm]; intros [|i]; cbn [repeat nth]; auto. }
  rewrite (even_series_gen K ws (tl_generate a b) Hv He); try assumption.
  - rewrite Hz. unfold accN, bump1. cbn [tl_generate tl_st]. fold dl. destruct (_ =? 0); reflexivity.
  - change (tl_st (tl_generate a b)) with a. change (tl_et (tl_generate a b)) with b. fold dl.
    rewrite tl_generate_length. fold dl. pose proof (pow10_pos dl). rewrite Z2Nat.id by (apply Z.quot_pos; lia).
    rewrite Z.quot_div_nonneg by lia. pose proof (Z.mul_div_le (b - a) (pow10 dl) ltac:(lia)). lia.
Qed.

(* ---- storage level ---- *)
Lemma even_fold K (W : sid * segment -> list write) m : forall tl,
  (forall ks, In ks m -> s_root (snd ks) = s_root (fst (run_writes (W ks))) /\ Forall (valid_write K) (W ks) /\ Forall even_upload (W ks)) ->
  tl_st tl < tl_et tl -> tl_st tl mod pow10 (tl_lvl tl) = 0 ->
  tl_st tl + Z.of_nat (length (tl_samples tl)) * pow10 (tl_lvl tl) <= tl_et tl ->
  forall j, (j < length (tl_samples tl))%nat ->
  nth j (tl_samples (fold_left (fun tl ks => tl_populate (snd ks) tl) m tl)) 0%N =
  fold_left (fun v ks => accN v (Oj (W ks) (Lj (tl_st tl) (tl_lvl tl) j) (Uj (tl_st tl) (tl_lvl tl) j))
                                (Sj (W ks) (Lj (tl_st tl) (tl_lvl tl) j) (Uj (tl_st tl) (tl_lvl tl) j)))
            m (nth j (tl_samples tl) 0%N).
Proof.
  induction m as [|ks m IH]; intros tl HW Hab Hgrid Hlen j Hj; [reflexivity|]. cbn [fold_left].
  destruct (HW ks (or_introl eq_refl)) as (Hr & Hv & He).
  rewrite (tl_populate_root _ _ tl Hr).
  destruct (tl_populate_shape (fst (run_writes (W ks))) tl) as (G1 & G2 & G3).
  pose proof (tl_populate_length (fst (run_writes (W ks))) tl) as G4.
  rewrite IH; rewrite ?G1, ?G2, ?G3, ?G4; try assumption.
  - rewrite (even_series_gen K (W ks) tl Hv He Hab Hgrid Hlen j Hj). reflexivity.
  - intros x Hx. apply HW. right. exact Hx.
Qed.

Lemma sumZ_ext {A} (f g : A -> Z) l : (forall x, f x = g x) -> sumZ (map f l) = sumZ (map g l).
Proof. intros Hfg. f_equal. apply map_ext, Hfg. Qed.

Definition pi_span (pi : put_input) : Z := snd (pi_ab pi) - fst (pi_ab pi).
Definition even_put (K : Z) (pi : put_input) : Prop :=
  exact_put K pi /\ (t_total (pi_tree pi) mod Z.to_N (pi_span pi) = 0)%N /\ (t_total (pi_tree pi) < 2 ^ 53)%N.

(* slots of the upload inside [lo,hi), and the samples they carry *)
Definition up_ov (lo hi : Z) (pi : put_input) : Z := ov lo hi (fst (pi_ab pi)) (snd (pi_ab pi)).
Definition up_smp (lo hi : Z) (pi : put_input) : Z := up_ov lo hi pi * Z.of_N (t_total (pi_tree pi) / Z.to_N (pi_span pi)).

Lemma ws_even K kb p pis : Forall (even_put K) pis -> Forall even_upload (ws kb p pis).
Proof.
  intros Hp. unfold ws. apply Forall_forall. intros w Hw. apply in_map_iff in Hw. destruct Hw as (pi & <- & Hpi).
  apply filter_In in Hpi. destruct Hpi as [Hpi _]. rewrite Forall_forall in Hp.
  destruct (Hp pi Hpi) as (((Hlt & _) & _ & H9) & Hmod & Hb). unfold even_upload, pi_span in *. cbn [pi_w w_a w_b w_smp].
  split; [lia|]. split; assumption.
Qed.

(* C13_entries at storage level, every bucket size, uploads of 1..9 slots with totals divisible by the span *)
Lemma timeline_entries_even K pis sel from until out :
  Forall (even_put K) pis -> key_consistent pis ->
  let ab := s_normalize_unix (from, until) in
  let dl := tl_lvl (tl_generate (fst ab) (snd ab)) in
  fst ab < snd ab -> fst ab mod pow10 dl = 0 ->
  st_get sel from until (st_after pis) = Some out ->
  forall j, (j < length (tl_samples (go_timeline out)))%nat ->
    let lo := Lj (fst ab) dl j in let hi := Uj (fst ab) dl j in
    let ups := filter (fun pi => sel_matches sel (pi_sid pi)) pis in
    nth j (tl_samples (go_timeline out)) 0%N =
    if sumZ (map (up_ov lo hi) ups) =? 0 then 0%N else (1 + Z.to_N (sumZ (map (up_smp lo hi) ups)))%N.
Proof.
  intros Hp Hc ab dl Hab Hgrid Hget j Hj lo hi ups.
  assert (Hex : Forall (exact_put K) pis) by (eapply Forall_impl; [|exact Hp]; intros pi H; apply H).
  assert (Hgood : Forall good_put pis) by (eapply Forall_impl; [|exact Hex]; intros pi H; apply H).
  destruct (Inv_after [] pis Hgood) as (HR & _ & _). destruct (Inv2_after pis) as [HS _].
  rewrite st_get_eq in Hget. cbv zeta in Hget. fold ab in Hget. destruct (merge_serial _); [|discriminate].
  injection Hget as <-. cbn [go_timeline] in *.
  set (m := st_matching sel (st_after pis)) in *. set (tl0 := tl_generate (fst ab) (snd ab)) in *.
  destruct (tl_populate_all_shape (map snd m) tl0) as (_ & _ & _ & S4). cbn zeta in S4.
  assert (Efold : forall tl, fold_left (fun tl s => tl_populate s tl) (map snd m) tl = fold_left (fun tl ks => tl_populate (snd ks) tl) m tl).
  { clear. induction m as [|ks m IH]; intros tl; [reflexivity|]. cbn [map fold_left]. apply IH. }
  rewrite Efold in S4. rewrite S4 in Hj.
  pose proof (pow10_pos dl) as HD.
  assert (Hlen : fst ab + Z.of_nat (length (tl_samples tl0)) * pow10 dl <= snd ab).
  { unfold tl0. rewrite tl_generate_length. change (tl_lvl (tl_generate (fst ab) (snd ab))) with dl. rewrite Z2Nat.id by (apply Z.quot_pos; lia).
    rewrite Z.quot_div_nonneg by lia. pose proof (Z.mul_div_le (snd ab - fst ab) (pow10 dl) ltac:(lia)). lia. }
  rewrite (even_fold K (fun ks => ws (sid_key (fst ks)) [] pis) m tl0); try assumption.
  2:{ intros ks Hks. unfold m, st_matching in Hks. apply filter_In in Hks. destruct Hks as [Hks _]. split; [|split].
      - rewrite <- HR. unfold root_of. rewrite (sorted_lookup _ HS ks Hks). reflexivity.
      - apply ws_valid, Hex.
      - apply (ws_even K), Hp. }
  change (tl_st tl0) with (fst ab). change (tl_lvl tl0) with dl. fold lo hi.
  assert (Hz : nth j (tl_samples tl0) 0%N = accN 0%N 0 0).
  { unfold tl0, tl_generate, accN. cbn [tl_samples Z.eqb]. generalize (Z.to_nat (Z.quot (snd ab - fst ab) (pow10 (pick_level [0; 1; 2; 3; 4; 5; 6; 7; 8]%nat (Z.quot ((snd ab - fst ab) * ns_per_slot) 1024) 0)))).
    intros n. clear. revert j. induction n as [|n IHn]; intros [|i]; cbn [repeat nth]; auto. }
  rewrite Hz, (accN_fold (fun ks => Oj (ws (sid_key (fst ks)) [] pis) lo hi) (fun ks => Sj (ws (sid_key (fst ks)) [] pis) lo hi)); try lia.
  2:{ intros ks. split; [apply osum_nonneg; intros; lia|]. split; [apply osum_nonneg; intros; lia|apply Oj_zero_osum]. }
  assert (EO : sumZ (map (fun ks => Oj (ws (sid_key (fst ks)) [] pis) lo hi) m) = sumZ (map (up_ov lo hi) ups)).
  { unfold ups. rewrite <- (regroup_puts (up_ov lo hi) pis sel Hc). apply sumZ_ext. intros ks.
    unfold Oj, osum, ws. rewrite map_map. apply sumZ_ext. intros pi. unfold ovw, up_ov. cbn [pi_w w_a w_b]. lia. }
  assert (ES : sumZ (map (fun ks => Sj (ws (sid_key (fst ks)) [] pis) lo hi) m) = sumZ (map (up_smp lo hi) ups)).
  { unfold ups. rewrite <- (regroup_puts (up_smp lo hi) pis sel Hc). apply sumZ_ext. intros ks.
    unfold Sj, osum, ws. rewrite map_map. apply sumZ_ext. intros pi. unfold ovw, up_smp, up_ov, per_slot, pi_span. cbn [pi_w w_a w_b w_smp]. reflexivity. }
  rewrite !Z.add_0_l, EO, ES. unfold accN, bump1. destruct (_ =? 0); reflexivity.
Qed.
