(* CacheProofs.v — the LFU+Badger cache (Model/Cache.v) refines a plain map.
   Everything is proved for an arbitrary equivalence Req on values with dec (enc v) ~ v, so that the same
   development gives C05 (Req = eq) and the lifting lemma of C02 (Req = "same profile up to zero frames" etc.). *)
From Coq Require Import List Arith NArith Bool Lia Morphisms RelationClasses.
From Pyro Require Import Model.Lfu Model.Cache.
Import ListNotations.
Set Implicit Arguments.

Section LfuFacts.
Context {K V : Type}.
Context (keq : forall a b : K, {a = b} + {a <> b}).
Notation lfu := (lfu (K:=K) (V:=V)).
Notation entry := (entry (V:=V)).

Lemma l_find_In : forall k (l : lfu) e, l_find keq k l = Some e -> In (k, e) l.
Proof.
  induction l as [|[k' e'] l IH]; cbn; intros e H; [discriminate|].
  destruct (keq k k'); [inversion H; subst; auto | auto].
Qed.

Lemma l_find_none : forall k (l : lfu), l_find keq k l = None <-> ~ In k (map fst l).
Proof.
  induction l as [|[k' e'] l IH]; cbn; [tauto|].
  destruct (keq k k'); [split; [discriminate | intros H; exfalso; apply H; auto] |].
  rewrite IH. split; [intros H [E|E]; [congruence | tauto] | tauto].
Qed.

Lemma In_find_some : forall k e (l : lfu), In (k, e) l -> exists e1, l_find keq k l = Some e1.
Proof.
  intros k e l H. destruct (l_find keq k l) eqn:E; [eauto|].
  apply l_find_none in E. exfalso. apply E. apply in_map_iff. exists (k, e); auto.
Qed.

Lemma In_upd : forall k e k0 e0 (l : lfu),
  In (k0, e0) (l_upd keq k e l) -> (k0 = k /\ e0 = e) \/ (k0 <> k /\ In (k0, e0) l).
Proof.
  intros k e k0 e0 l H. unfold l_upd in H. apply in_map_iff in H. destruct H as [[k1 e1] [H1 H2]].
  cbn in H1. destruct (keq k k1).
  - inversion H1; subst. auto.
  - inversion H1; subst. right; split; [congruence | auto].
Qed.

Lemma upd_keys : forall k e (l : lfu), map fst (l_upd keq k e l) = map fst l.
Proof.
  intros. unfold l_upd. rewrite map_map. apply map_ext. intros [k1 e1]; cbn. destruct (keq k k1); reflexivity.
Qed.

Lemma l_find_upd_none : forall k e k0 (l : lfu), l_find keq k0 (l_upd keq k e l) = None -> l_find keq k0 l = None.
Proof. intros k e k0 l H. apply l_find_none. apply l_find_none in H. rewrite upd_keys in H. exact H. Qed.

Lemma In_remove : forall k k0 e0 (l : lfu), In (k0, e0) (l_remove keq k l) -> k0 <> k /\ In (k0, e0) l.
Proof.
  induction l as [|[k1 e1] l IH]; cbn; [tauto|].
  destruct (keq k k1).
  - intros H. destruct (IH H); auto.
  - intros [H|H]; [inversion H; subst; split; [congruence | auto] | destruct (IH H); auto].
Qed.

Lemma In_remove_other : forall k k0 e0 (l : lfu), k0 <> k -> In (k0, e0) l -> In (k0, e0) (l_remove keq k l).
Proof.
  induction l as [|[k1 e1] l IH]; cbn; [tauto|].
  intros N [H|H].
  - inversion H; subst. destruct (keq k k0); [congruence | left; reflexivity].
  - destruct (keq k k1); [auto | right; auto].
Qed.

Lemma l_find_remove_none : forall k k0 (l : lfu),
  l_find keq k0 (l_remove keq k l) = None -> k0 = k \/ l_find keq k0 l = None.
Proof.
  intros k k0 l H. destruct (keq k0 k); [auto|]. right.
  destruct (l_find keq k0 l) eqn:E; [|reflexivity].
  apply l_find_In in E. apply In_remove_other with (k:=k) in E; [|exact n].
  apply l_find_none in H. exfalso. apply H. apply in_map_iff. exists (k0, e); auto.
Qed.

Lemma In_set : forall k v k0 e0 (l : lfu),
  In (k0, e0) (l_set keq k v l) -> (k0 = k /\ e_val e0 = v /\ e_pers e0 = false) \/ (k0 <> k /\ In (k0, e0) l).
Proof.
  intros k v k0 e0 l H. unfold l_set in H. destruct (l_find keq k l) eqn:E.
  - apply In_upd in H. destruct H as [[-> ->]|H]; auto.
  - apply in_app_or in H. destruct H as [H|[H|[]]].
    + right. split; [|auto]. intros ->. apply l_find_none in E. apply E. apply in_map_iff. exists (k, e0); auto.
    + inversion H; subst. auto.
Qed.

Lemma l_find_set_none : forall k v k0 (l : lfu), l_find keq k0 (l_set keq k v l) = None -> k0 <> k /\ l_find keq k0 l = None.
Proof.
  intros k v k0 l H. unfold l_set in H. destruct (l_find keq k l) eqn:E.
  - pose proof (l_find_upd_none _ _ _ _ H) as H1. split; [intros ->; congruence | auto].
  - apply l_find_none in H. rewrite map_app in H. cbn in H. split.
    + intros ->. apply H. apply in_or_app. right. left. reflexivity.
    + apply l_find_none. intros N. apply H. apply in_or_app. auto.
Qed.

Lemma In_poke : forall k f k0 e0 (l : lfu),
  In (k0, e0) (l_poke keq k f l) ->
  (k0 = k /\ exists e, l_find keq k l = Some e /\ e_val e0 = f (e_val e) /\ e_pers e0 = e_pers e) \/ (k0 <> k /\ In (k0, e0) l).
Proof.
  intros k f k0 e0 l H. unfold l_poke in H. destruct (l_find keq k l) eqn:E.
  - apply In_upd in H. destruct H as [[-> ->]|H]; [left; split; [reflexivity | exists e; auto] | auto].
  - right. split; [|auto]. intros ->. apply l_find_none in E. apply E. apply in_map_iff. exists (k, e0); auto.
Qed.

Lemma l_find_poke_none : forall k f k0 (l : lfu), l_find keq k0 (l_poke keq k f l) = None -> l_find keq k0 l = None.
Proof.
  intros k f k0 l H. unfold l_poke in H. destruct (l_find keq k l); [eapply l_find_upd_none; eauto | auto].
Qed.

(* eviction: what is left is unchanged; what was removed was either handed off or marked persisted *)
Lemma evict_spec : forall order count (l l' : lfu) sends,
  l_evict keq order count l = Some (l', sends) ->
  (forall k e, In (k, e) l' -> In (k, e) l) /\
  (forall k v, In (k, v) sends -> exists e, In (k, e) l /\ e_val e = v) /\
  (forall k e, In (k, e) l -> In k (map fst l') \/ exists e1, In (k, e1) l /\ (e_pers e1 = true \/ In (k, e_val e1) sends)).
Proof.
  induction order as [|k0 order IH]; intros count l l' sends H.
  - destruct count; cbn in H; [|discriminate]. inversion H; subst. repeat split; [auto | intros k v [] |].
    intros k e Hi. left. apply in_map_iff. exists (k, e); auto.
  - destruct count; cbn in H.
    + inversion H; subst. repeat split; [auto | intros k v [] |].
      intros k e Hi. left. apply in_map_iff. exists (k, e); auto.
    + destruct (l_find keq k0 l) as [e0|] eqn:E0; [|discriminate].
      destruct (Nat.eqb (e_freq e0) (l_minfreq l)); [|discriminate].
      destruct (l_evict keq order count (l_remove keq k0 l)) as [[l1 s1]|] eqn:E1; [|discriminate].
      inversion H; subst; clear H.
      destruct (IH _ _ _ _ E1) as (A & B & C).
      apply l_find_In in E0.
      repeat split.
      * intros k e Hi. apply A in Hi. apply In_remove in Hi. tauto.
      * intros k v Hi. destruct (e_pers e0) eqn:P.
        -- apply B in Hi. destruct Hi as (e & Hi & Hv). apply In_remove in Hi. exists e; tauto.
        -- destruct Hi as [Hi|Hi].
           ++ inversion Hi; subst. exists e0; auto.
           ++ apply B in Hi. destruct Hi as (e & Hi & Hv). apply In_remove in Hi. exists e; tauto.
      * intros k e Hi. destruct (keq k k0) as [->|N].
        -- right. exists e0. split; [auto|]. destruct (e_pers e0); [auto | right; left; reflexivity].
        -- apply In_remove_other with (k:=k0) in Hi; [|exact N]. apply C in Hi. destruct Hi as [Hi|(e1 & Hi & Hp)]; [auto|].
           right. exists e1. apply In_remove in Hi. split; [tauto|].
           destruct Hp as [Hp|Hp]; [auto|]. right. destruct (e_pers e0); [auto | right; auto].
Qed.

(* write-back: values unchanged; an entry newly marked persisted was in the front bucket; accepted sends are in the queue *)
Lemma persist_spec : forall acc (l l' : lfu) sends,
  l_persist keq acc l = Some (l', sends) ->
  (forall k e', In (k, e') l' -> exists e, In (k, e) l /\ e_val e' = e_val e /\
                                  (e_pers e' = true -> e_pers e = true \/ In k (l_front l))) /\
  map fst l' = map fst l /\
  (forall k v, In (k, v) sends -> exists e, In (k, e) l /\ e_val e = v) /\
  (forall k, In k acc -> In k (map fst l) -> In k (map fst sends)).
Proof.
  intros acc l l' sends H. unfold l_persist in H.
  assert (G : forall k v, In (k, v) (flat_map (fun k => match l_find keq k l with Some e => [(k, e_val e)] | None => [] end) acc) ->
              exists e, In (k, e) l /\ e_val e = v).
  { intros k v Hi. apply in_flat_map in Hi. destruct Hi as (k1 & _ & Hi).
    destruct (l_find keq k1 l) eqn:E; [|destruct Hi]. destruct Hi as [Hi|[]]. inversion Hi; subst.
    exists e. split; [apply l_find_In; auto | reflexivity]. }
  assert (G2 : forall k, In k acc -> In k (map fst l) ->
               In k (map fst (flat_map (fun k => match l_find keq k l with Some e => [(k, e_val e)] | None => [] end) acc))).
  { intros k Ha Hl. apply in_map_iff. destruct (l_find keq k l) eqn:E.
    - exists (k, e_val e). split; [reflexivity|]. apply in_flat_map. exists k. split; [auto|]. rewrite E. left; reflexivity.
    - apply l_find_none in E. tauto. }
  destruct l as [|ke l0].
  - destruct acc; [|discriminate]. inversion H; subst. repeat split; auto; intros; cbn in *; tauto.
  - remember (ke :: l0) as l eqn:EL.
    match type of H with (if ?b then _ else _) = _ => destruct b; [|discriminate] end.
    inversion H; subst l' sends; clear H. split; [|split; [|split]]; auto.
    + intros k e' Hi. apply in_map_iff in Hi. destruct Hi as [[k1 e1] [H1 H2]]. cbn [fst snd] in H1.
      destruct (Nat.eqb (e_freq e1) (l_minfreq l)) eqn:F.
      * inversion H1; subst k1 e'. exists e1. cbn [e_val e_pers]. repeat split; auto. intros _. right.
        unfold l_front. apply in_map_iff. exists (k, e1). split; [reflexivity|].
        apply (proj2 (filter_In _ _ _)). cbn [snd]. auto.
      * inversion H1; subst k1 e1. exists e'. auto.
    + rewrite map_map. apply map_ext. intros [k1 e1]. cbn [fst snd]. destruct (Nat.eqb (e_freq e1) (l_minfreq l)); reflexivity.
Qed.

End LfuFacts.

Section Refine.
Context {K V D : Type}.
Context (keq : forall a b : K, {a = b} + {a <> b}).
Context (dflt : K -> V) (enc : K -> V -> D) (dec : K -> D -> V).
(* Req is a PARTIAL equivalence: "v and v' are valid objects denoting the same thing".  Reflexivity is only needed of
   default objects and of the values a client puts; a reloaded object must denote what the saved one denoted. *)
Context (Req : V -> V -> Prop) {Req_per : PER Req}.
Context (R_dflt : forall k, Req (dflt k) (dflt k)).
Context (R_codec : forall k v v', Req v v' -> Req (dec k (enc k v)) v').

Notation cache := (cache (K:=K) (V:=V) (D:=D)).
Notation op := (op (K:=K) (V:=V)).
Notation out := (out (V:=V)).
Notation smap := (smap (K:=K) (V:=V)).
Notation step := (step keq dflt enc dec).
Notation spec_step := (spec_step keq dflt).
Notation run := (run keq dflt enc dec).
Notation spec_run := (spec_run keq dflt).
Notation tf := (touched_first keq).

Definition out_rel (x y : out) : Prop :=
  match x, y with
  | Ret v, Ret v' => Req v v'
  | Ret _, _ | _, Ret _ => False
  | _, _ => True
  end.

(* the functions applied to objects respect the equivalence *)
Definition congr_op (o : op) : Prop :=
  match o with
  | OMutate _ f => forall a b, Req a b -> Req (f a) (f b)
  | OPut _ v => Req v v
  | _ => True
  end.

Definition uptodate (k : K) (v' : V) (c : cache) : Prop :=
  inflight k c \/ exists d, c_disk c k = Some d /\ Req (dec k d) v'.

Record Inv (c : cache) (m : smap) (rest : list op) : Prop := mkInv {
  inv_q : forall k v, In (k, v) (c_evq c ++ c_wbq c) -> exists v', m k = Some v' /\ Req v v';
  inv_l : forall k e, In (k, e) (c_lfu c) ->
            exists v', m k = Some v' /\ Req (e_val e) v' /\
                       (e_pers e = true -> uptodate k v' c \/ tf k rest);
  inv_n : forall k, l_find keq k (c_lfu c) = None ->
            match m k with Some v' => uptodate k v' c | None => c_disk c k = None end
}.

Lemma inv_init : forall rest, Inv c_empty (s_empty (K:=K) (V:=V)) rest.
Proof. intros. constructor; cbn; intros; try tauto; try reflexivity. Qed.

Lemma uptodate_transfer : forall k v (c c' : cache),
  c_disk c' k = c_disk c k -> (inflight k c -> inflight k c') -> uptodate k v c -> uptodate k v c'.
Proof. intros k v c c' Hd Hi [U|U]; [left; auto | right; rewrite Hd; exact U]. Qed.

Lemma inflight_of_In : forall k v (c : cache), In (k, v) (c_evq c ++ c_wbq c) -> inflight k c.
Proof. intros k v c H. unfold inflight. apply in_map_iff. exists (k, v); auto. Qed.

Lemma inv_shift : forall c m o rest,
  (forall k, tf k (o :: rest) -> tf k rest) -> Inv c m (o :: rest) -> Inv c m rest.
Proof.
  intros c m o rest Ht [Hq Hl Hn]. constructor; auto.
  intros k e Hi. destruct (Hl _ _ Hi) as (v' & A & B & C). exists v'. repeat split; auto.
  intros P. destruct (C P); auto.
Qed.

(* an entry of k is (re)written with a value equivalent to the new specification value *)
Lemma inv_set : forall c m m' o k v v' rest,
  Inv c m (o :: rest) -> quiet k c ->
  (forall k0, k0 <> k -> tf k0 (o :: rest) -> tf k0 rest) ->
  m' k = Some v' -> (forall k0, k0 <> k -> m' k0 = m k0) -> Req v v' ->
  Inv (mkC (l_set keq k v (c_lfu c)) (c_disk c) (c_evq c) (c_wbq c)) m' rest.
Proof.
  intros c m m' o k v v' rest [Hq Hl Hn] Q Ht Hk Ho R. constructor; cbn [c_lfu c_disk c_evq c_wbq].
  - intros k0 v0 Hi. destruct (keq k0 k) as [->|N].
    + exfalso. apply Q. eapply inflight_of_In; eauto.
    + rewrite Ho by exact N. eauto.
  - intros k0 e0 Hi. apply In_set in Hi. destruct Hi as [(-> & Hv & Hp)|(N & Hi)].
    + exists v'. rewrite Hv. repeat split; auto. intros P; congruence.
    + destruct (Hl _ _ Hi) as (v0 & A & B & C). exists v0. rewrite Ho by exact N. repeat split; auto.
      intros P. destruct (C P) as [U|T]; [left; exact U | right; auto].
  - intros k0 H0. apply l_find_set_none in H0. destruct H0 as [N H0]. rewrite Ho by exact N.
    specialize (Hn _ H0). destruct (m k0); exact Hn.
Qed.

Lemma inv_upd : forall c m m' o k e e1 v' rest,
  Inv c m (o :: rest) -> quiet k c -> l_find keq k (c_lfu c) = Some e ->
  (forall k0, k0 <> k -> tf k0 (o :: rest) -> tf k0 rest) ->
  m' k = Some v' -> (forall k0, k0 <> k -> m' k0 = m k0) -> Req (e_val e1) v' -> e_pers e1 = false ->
  Inv (mkC (l_upd keq k e1 (c_lfu c)) (c_disk c) (c_evq c) (c_wbq c)) m' rest.
Proof.
  intros c m m' o k e e1 v' rest [Hq Hl Hn] Q E Ht Hk Ho R P1. constructor; cbn [c_lfu c_disk c_evq c_wbq].
  - intros k0 v0 Hi. destruct (keq k0 k) as [->|N].
    + exfalso. apply Q. eapply inflight_of_In; eauto.
    + rewrite Ho by exact N. eauto.
  - intros k0 e0 Hi. apply In_upd in Hi. destruct Hi as [(-> & ->)|(N & Hi)].
    + exists v'. repeat split; auto. intros P; congruence.
    + destruct (Hl _ _ Hi) as (v0 & A & B & C). exists v0. rewrite Ho by exact N. repeat split; auto.
      intros P. destruct (C P) as [U|T]; [left; exact U | right; auto].
  - intros k0 H0. apply l_find_upd_none in H0.
    assert (N : k0 <> k) by (intros ->; congruence).
    rewrite Ho by exact N. specialize (Hn _ H0). destruct (m k0); exact Hn.
Qed.

Lemma tf_put_other : forall k k0 (v : V) (rest : list op), k0 <> k -> tf k0 (OPut k v :: rest) -> tf k0 rest.
Proof. intros k k0 v rest N. cbn. destruct (keq k0 k); [congruence | auto]. Qed.
Lemma tf_read_other : forall k k0 (rest : list op), k0 <> k -> tf k0 (ORead k :: rest) -> tf k0 rest.
Proof. intros k k0 rest N. cbn. destruct (keq k0 k); [congruence | auto]. Qed.
Lemma tf_delete_other : forall k k0 (rest : list op), k0 <> k -> tf k0 (ODelete k :: rest) -> tf k0 rest.
Proof. intros k k0 rest N. cbn. destruct (keq k0 k); [congruence | auto]. Qed.

Lemma s_set_same : forall k x (m : smap), s_set keq k x m k = x.
Proof. intros. unfold s_set. destruct (keq k k); congruence. Qed.
Lemma s_set_other : forall k k0 x (m : smap), k0 <> k -> s_set keq k x m k0 = m k0.
Proof. intros. unfold s_set. destruct (keq k0 k); congruence. Qed.

(* ---------- one step ---------- *)
Lemma step_sim : forall c m o rest,
  Inv c m (o :: rest) -> op_ok keq c o rest -> congr_op o ->
  out_rel (snd (step c o)) (snd (spec_step m o)) /\ Inv (fst (step c o)) (fst (spec_step m o)) rest.
Proof.
  intros c m o rest HI OK CG. destruct o as [k v|k|k f|k|num den order|acc| |wb].
  - (* Put *)
    cbn. split; [exact I|].
    eapply inv_set with (o := OPut k v) (v' := v);
      [exact HI | exact OK | intros k0 N; apply tf_put_other; auto | apply s_set_same
      | intros; apply s_set_other; auto | exact CG].
  - (* Read *)
    cbn in OK. cbn [step]. unfold l_get. destruct (l_find keq k (c_lfu c)) as [e|] eqn:E.
    + destruct (inv_l HI _ _ (l_find_In _ _ _ E)) as (v' & A & B & _).
      cbn [spec_step]. rewrite A. cbn [fst snd]. split; [exact B|].
      eapply inv_upd with (e1 := mkE (e_val e) (S (e_freq e)) false); eauto.
      intros k0 N. apply tf_read_other; auto.
    + pose proof (inv_n HI _ E) as Hn. cbn [spec_step]. destruct (m k) as [v'|] eqn:A.
      * destruct Hn as [U|(d & Hd & R)]; [exfalso; exact (OK U)|].
        rewrite Hd. cbn [fst snd]. split; [exact R|].
        eapply inv_set with (o := ORead k) (v' := v');
          [exact HI | exact OK | intros k0 N; apply tf_read_other; auto | exact A | intros; reflexivity | exact R].
      * rewrite Hn. cbn [fst snd]. split; [cbn; apply R_dflt|].
        eapply inv_set with (o := ORead k) (v' := dflt k);
          [exact HI | exact OK | intros k0 N; apply tf_read_other; auto | apply s_set_same
          | intros; apply s_set_other; auto | apply R_dflt].
  - (* Mutate *)
    cbn in OK. destruct OK as (Q & e & E & P). cbn in CG.
    destruct (inv_l HI _ _ (l_find_In _ _ _ E)) as (v' & A & B & _).
    cbn [step spec_step]. unfold l_poke. rewrite E, A. cbn [fst snd]. split; [exact I|].
    eapply inv_upd with (o := OMutate k f) (e := e) (e1 := mkE (f (e_val e)) (e_freq e) (e_pers e)) (v' := f v');
      [exact HI | exact Q | exact E | intros k0 N T; exact T | apply s_set_same | intros; apply s_set_other; auto
      | cbn; auto | exact P].
  - (* Delete *)
    cbn in OK. cbn. split; [exact I|]. destruct HI as [Hq Hl Hn].
    constructor; cbn [c_lfu c_disk c_evq c_wbq].
    + intros k0 v0 Hi. destruct (keq k0 k) as [->|N].
      * exfalso. apply OK. eapply inflight_of_In; eauto.
      * rewrite s_set_other by exact N. eauto.
    + intros k0 e0 Hi. apply In_remove in Hi. destruct Hi as [N Hi].
      destruct (Hl _ _ Hi) as (v0 & A & B & C). exists v0. rewrite s_set_other by exact N. repeat split; auto.
      intros P. destruct (C P) as [U|T].
      * left. eapply uptodate_transfer; [| |exact U]; cbn; [unfold d_set; destruct (keq k0 k); congruence | auto].
      * right. eapply tf_delete_other; eauto.
    + intros k0 H0. destruct (keq k0 k) as [->|N].
      * rewrite s_set_same. unfold d_set. destruct (keq k k); congruence.
      * rewrite s_set_other by exact N. apply l_find_remove_none in H0. destruct H0 as [H0|H0]; [congruence|].
        specialize (Hn _ H0). destruct (m k0).
        -- eapply uptodate_transfer; [| |exact Hn]; cbn; [unfold d_set; destruct (keq k0 k); congruence | auto].
        -- unfold d_set. destruct (keq k0 k); congruence.
  - (* Evict *)
    cbn [spec_step fst snd].
    assert (Same : Inv c m rest).
    { destruct HI as [Hq Hl Hn]. constructor; auto. intros k e Hi.
      destruct (Hl _ _ Hi) as (v0 & A & B & C). exists v0. repeat split; auto.
      intros P. destruct (C P) as [U|T]; [auto | destruct T]. }
    cbn [step]. destruct den as [|den']; [cbn; auto|].
    destruct (l_evict keq order (l_len (c_lfu c) * num / S den') (c_lfu c)) as [[l' sends]|] eqn:E; [|cbn; auto].
    cbn [fst snd]. split; [exact I|].
    destruct (evict_spec _ _ _ _ E) as (EA & EB & EC). destruct Same as [Hq Hl Hn].
    assert (Mono : forall k, inflight k c -> inflight k (mkC l' (c_disk c) (c_evq c ++ sends) (c_wbq c))).
    { intros k. unfold inflight. cbn. rewrite !map_app, !in_app_iff. tauto. }
    constructor; cbn [c_lfu c_disk c_evq c_wbq].
    + intros k v Hi. rewrite <- app_assoc in Hi. apply in_app_or in Hi. destruct Hi as [Hi|Hi].
      * apply Hq. apply in_or_app; auto.
      * apply in_app_or in Hi. destruct Hi as [Hi|Hi].
        -- destruct (EB _ _ Hi) as (e & He & Hv). destruct (Hl _ _ He) as (v0 & A & B & _). exists v0. subst v. auto.
        -- apply Hq. apply in_or_app; auto.
    + intros k e Hi. apply EA in Hi. destruct (Hl _ _ Hi) as (v0 & A & B & C). exists v0. repeat split; auto.
      intros P. destruct (C P) as [U|T]; [left | right; exact T].
      eapply uptodate_transfer; [| |exact U]; [reflexivity | apply Mono].
    + intros k H0. destruct (l_find keq k (c_lfu c)) as [e|] eqn:F.
      * apply l_find_In in F. destruct (EC _ _ F) as [Hin|(e1 & He1 & Hp)].
        -- apply l_find_none in H0. tauto.
        -- destruct (inv_l HI _ _ He1) as (v0 & A & B & C). rewrite A. destruct Hp as [Hp|Hp].
           ++ destruct (C Hp) as [U|T]; [|destruct T].
              eapply uptodate_transfer; [| |exact U]; [reflexivity | apply Mono].
           ++ left. unfold inflight. cbn. apply in_map_iff. exists (k, e_val e1). split; [reflexivity|].
              apply in_or_app. left. apply in_or_app. right. exact Hp.
      * specialize (Hn _ F). destruct (m k); [|exact Hn].
        eapply uptodate_transfer; [| |exact Hn]; [reflexivity | apply Mono].
  - (* WriteBack *)
    cbn [spec_step fst snd].
    assert (Same : Inv c m rest) by (eapply inv_shift; [|exact HI]; intros k T; exact T).
    cbn [step]. destruct (l_persist keq acc (c_lfu c)) as [[l' sends]|] eqn:E; [|cbn; auto].
    cbn [fst snd]. split; [exact I|].
    destruct (persist_spec _ _ _ E) as (PA & PK & PB & PC). cbn in OK. destruct Same as [Hq Hl Hn].
    assert (Mono : forall k, inflight k c -> inflight k (mkC l' (c_disk c) (c_evq c) (c_wbq c ++ sends))).
    { intros k. unfold inflight. cbn. rewrite !map_app, !in_app_iff. tauto. }
    constructor; cbn [c_lfu c_disk c_evq c_wbq].
    + intros k v Hi. rewrite app_assoc in Hi. apply in_app_or in Hi. destruct Hi as [Hi|Hi].
      * apply Hq. exact Hi.
      * destruct (PB _ _ Hi) as (e & He & Hv). destruct (Hl _ _ He) as (v0 & A & B & _). exists v0. subst v. auto.
    + intros k e' Hi. destruct (PA _ _ Hi) as (e & He & Hv & Hp).
      destruct (Hl _ _ He) as (v0 & A & B & C). exists v0. rewrite Hv. repeat split; auto.
      intros P. destruct (Hp P) as [P0|Fr].
      * destruct (C P0) as [U|T]; [left | right; exact T].
        eapply uptodate_transfer; [| |exact U]; [reflexivity | apply Mono].
      * destruct (OK _ Fr) as [Ha|T]; [left | right; exact T].
        left. unfold inflight. cbn. rewrite !map_app, !in_app_iff. right. right.
        apply PC; [exact Ha|]. apply in_map_iff. exists (k, e); auto.
    + intros k H0. assert (F : l_find keq k (c_lfu c) = None).
      { apply l_find_none. apply l_find_none in H0. rewrite PK in H0. exact H0. }
      specialize (Hn _ F). destruct (m k); [|exact Hn].
      eapply uptodate_transfer; [| |exact Hn]; [reflexivity | apply Mono].
  - (* FlushReopen *)
    cbn [spec_step step fst snd]. split; [exact I|].
    destruct HI as [Hq Hl Hn].
    set (allq := c_wbq c ++ c_evq c ++ flush_sends (c_lfu c)).
    assert (Dk : complete keq enc (flush_sends (c_lfu c)) (complete keq enc (c_evq c) (complete keq enc (c_wbq c) (c_disk c)))
                 = complete keq enc allq (c_disk c)).
    { unfold allq, complete. rewrite !fold_left_app. reflexivity. }
    rewrite Dk.
    assert (All : forall k v, In (k, v) allq -> exists v', m k = Some v' /\ Req v v').
    { intros k v Hi. unfold allq in Hi. apply in_app_or in Hi. destruct Hi as [Hi|Hi].
      - apply Hq. apply in_or_app; auto.
      - apply in_app_or in Hi. destruct Hi as [Hi|Hi].
        + apply Hq. apply in_or_app; auto.
        + unfold flush_sends in Hi. apply in_map_iff in Hi. destruct Hi as [[k1 e1] [H1 H2]]. cbn in H1.
          inversion H1; subst. apply filter_In in H2. destruct H2 as [H2 _].
          destruct (Hl _ _ H2) as (v0 & A & B & _). eauto. }
    assert (Cmp : forall q (d : disk (K:=K) (D:=D)) k,
              (In k (map fst q) -> exists v, In (k, v) q /\ complete keq enc q d k = Some (enc k v)) /\
              (~ In k (map fst q) -> complete keq enc q d k = d k)).
    { induction q as [|[k1 v1] q IH] using rev_ind; intros d k.
      - cbn. split; [tauto | auto].
      - assert (EQ : complete keq enc (q ++ [(k1, v1)]) d k = if keq k k1 then Some (enc k1 v1) else complete keq enc q d k).
        { unfold complete. rewrite fold_left_app. cbn [fold_left]. unfold save at 1. cbn [fst snd]. unfold d_set. reflexivity. }
        rewrite EQ. rewrite map_app, in_app_iff. cbn [map fst In].
        destruct (keq k k1) as [->|N].
        + split; [|tauto]. intros _. exists v1. split; [apply in_or_app; right; left; reflexivity | reflexivity].
        + destruct (IH d k) as [I1 I2]. split.
          * intros [Hi|[Hi|[]]]; [|congruence]. destruct (I1 Hi) as (v & A & B). exists v. split; [apply in_or_app; auto | exact B].
          * intros Hi. apply I2. tauto. }
    constructor; cbn [c_lfu c_disk c_evq c_wbq].
    + intros k v [].
    + intros k e [].
    + intros k _. destruct (Cmp allq (c_disk c) k) as [C1 C2].
      destruct (in_dec keq k (map fst allq)) as [Hi|Hi].
      * destruct (C1 Hi) as (v & A & B). destruct (All _ _ A) as (v' & Hm & R). rewrite Hm.
        right. exists (enc k v). split; [exact B|]. apply R_codec. exact R.
      * assert (NQ : ~ inflight k c).
        { unfold inflight. intros Hf. apply Hi. unfold allq. rewrite !map_app, !in_app_iff in *. tauto. }
        destruct (l_find keq k (c_lfu c)) as [e|] eqn:F.
        -- apply l_find_In in F. destruct (Hl _ _ F) as (v0 & A & B & C). rewrite A.
           destruct (e_pers e) eqn:P.
           ++ destruct (C eq_refl) as [[U|U]|[]]; [tauto | right; cbn [c_disk]; rewrite (C2 Hi); exact U].
           ++ exfalso. apply Hi. unfold allq. rewrite !map_app, !in_app_iff. right. right.
              unfold flush_sends. rewrite map_map. cbn [fst]. apply in_map_iff. exists (k, e). split; [reflexivity|].
              apply filter_In. cbn. rewrite P. auto.
        -- specialize (Hn _ F). destruct (m k).
           ++ destruct Hn as [U|U]; [tauto | right; cbn [c_disk]; rewrite (C2 Hi); exact U].
           ++ rewrite (C2 Hi). exact Hn.
  - (* SaveCompletes *)
    cbn [spec_step fst snd].
    assert (Same : Inv c m rest) by (eapply inv_shift; [|exact HI]; intros k T; exact T).
    assert (Gen : forall kv q c',
              c_lfu c' = c_lfu c -> c_disk c' = save keq enc kv (c_disk c) ->
              In kv (c_evq c ++ c_wbq c) ->
              (forall x, In x (c_evq c' ++ c_wbq c') -> In x (c_evq c ++ c_wbq c)) ->
              (forall k, k <> fst kv -> inflight k c -> inflight k c') ->
              q = tt -> Inv c' m rest).
    { intros [k1 v1] q c' EL ED Hin Sub Keep _. destruct Same as [Hq Hl Hn].
      destruct (Hq _ _ Hin) as (v1' & A1 & R1).
      assert (UT : forall k v', m k = Some v' -> uptodate k v' c -> uptodate k v' c').
      { intros k v' A U. destruct (keq k k1) as [->|N].
        - right. rewrite ED. unfold save, d_set. cbn [fst snd]. destruct (keq k1 k1); [|congruence].
          exists (enc k1 v1). split; [reflexivity|]. rewrite A1 in A. inversion A; subst.
          apply R_codec. exact R1.
        - destruct U as [U|U]; [left; apply Keep; auto|]. right. rewrite ED. unfold save, d_set. cbn [fst snd].
          destruct (keq k k1); [congruence | exact U]. }
      constructor.
      - intros k v Hi. apply Hq. apply Sub. exact Hi.
      - rewrite EL. intros k e Hi. destruct (Hl _ _ Hi) as (v0 & A & B & C). exists v0. repeat split; auto.
        intros P. destruct (C P) as [U|T]; [left; apply UT; auto | right; exact T].
      - rewrite EL. intros k F. specialize (Hn _ F). destruct (m k) as [v'|] eqn:A.
        + apply UT; auto.
        + rewrite ED. unfold save, d_set. cbn [fst snd]. destruct (keq k k1) as [->|N]; [congruence | exact Hn]. }
    destruct wb; cbn [step].
    + destruct (c_wbq c) as [|kv q] eqn:EQ; cbn [fst snd]; [auto|]. split; [exact I|].
      apply (Gen kv tt); cbn [c_lfu c_disk c_evq c_wbq]; auto.
      * apply in_or_app. right. left. reflexivity.
      * intros x Hi. rewrite in_app_iff in *. cbn. tauto.
      * intros k N. unfold inflight. cbn [c_evq c_wbq]. rewrite EQ, !map_app, !in_app_iff. cbn [map In]. intros [H|[H|H]]; auto. congruence.
    + destruct (c_evq c) as [|kv q] eqn:EQ; cbn [fst snd]; [auto|]. split; [exact I|].
      apply (Gen kv tt); cbn [c_lfu c_disk c_evq c_wbq]; auto.
      * left. reflexivity.
      * intros x Hi. cbn. right. exact Hi.
      * intros k N. unfold inflight. cbn [c_evq c_wbq]. rewrite EQ. cbn [app map In]. intros [H|H]; auto. congruence.
Qed.


(* ---------- histories ---------- *)
Theorem refines_general : forall ops c m,
  Inv c m ops -> admissible keq dflt enc dec c ops -> Forall congr_op ops ->
  Forall2 out_rel (fst (run c ops)) (fst (spec_run m ops)) /\ Inv (snd (run c ops)) (snd (spec_run m ops)) [].
Proof.
  induction ops as [|o r IH]; intros c m HI AD CG.
  - cbn. split; [constructor | exact HI].
  - cbn in AD. destruct AD as [OK AD]. inversion CG as [|? ? C1 C2]; subst.
    destruct (step_sim HI OK C1) as [R HI'].
    cbn [Cache.run Cache.spec_run]. destruct (step c o) as [c' x] eqn:ES. destruct (spec_step m o) as [m' y] eqn:ESS.
    cbn [fst snd] in *. specialize (IH c' m' HI' AD C2).
    destruct (run c' r) as [xs c'']. destruct (spec_run m' r) as [ys m'']. cbn [fst snd] in *.
    destruct IH. split; [constructor; auto | auto].
Qed.

Lemma run_app : forall a b c, snd (run c (a ++ b)) = snd (run (snd (run c a)) b).
Proof.
  induction a as [|o a IH]; intros b c; [reflexivity|].
  cbn [app Cache.run]. destruct (step c o) as [c' x]. specialize (IH b c').
  destruct (run c' (a ++ b)) as [xs c2]. destruct (run c' a) as [ys c3]. cbn [snd] in *. exact IH.
Qed.

Lemma spec_run_app : forall a b m, snd (spec_run m (a ++ b)) = snd (spec_run (snd (spec_run m a)) b).
Proof.
  induction a as [|o a IH]; intros b m; [reflexivity|].
  cbn [app Cache.spec_run]. destruct (spec_step m o) as [m' x]. specialize (IH b m').
  destruct (spec_run m' (a ++ b)) as [xs c2]. destruct (spec_run m' a) as [ys c3]. cbn [snd] in *. exact IH.
Qed.

Lemma Forall_app_l : forall A (P : A -> Prop) a b, Forall P (a ++ b) -> Forall P a.
Proof. intros A P a b H. apply Forall_forall. intros x Hx. rewrite Forall_forall in H. apply H. apply in_or_app; auto. Qed.

(* after Flush + reopen: nothing in memory, nothing in flight, every live key on disk, deleted keys absent *)
Theorem flush_durable : forall ops,
  admissible keq dflt enc dec c_empty (ops ++ [OFlushReopen]) -> Forall congr_op ops ->
  let c' := snd (run c_empty (ops ++ [OFlushReopen])) in
  let m' := snd (spec_run (s_empty (K:=K) (V:=V)) ops) in
  c_lfu c' = [] /\ c_evq c' = [] /\ c_wbq c' = [] /\
  forall k, match m' k with
            | Some v' => exists d, c_disk c' k = Some d /\ Req (dec k d) v'
            | None => c_disk c' k = None
            end.
Proof.
  intros ops AD CG c' m'.
  assert (CG' : Forall congr_op (ops ++ [OFlushReopen])).
  { apply Forall_app. split; [exact CG | constructor; [exact I | constructor]]. }
  destruct (@refines_general (ops ++ [OFlushReopen]) _ _ (inv_init _) AD CG') as [_ HI].
  fold c' in HI. rewrite spec_run_app in HI. cbn [Cache.spec_run Cache.spec_step snd] in HI. fold m' in HI.
  assert (E : c' = fst (step (snd (run c_empty ops)) OFlushReopen)).
  { unfold c'. rewrite run_app. cbn [Cache.run]. destruct (step (snd (run c_empty ops)) OFlushReopen). reflexivity. }
  cbn [Cache.step fst] in E.
  assert (L : c_lfu c' = []) by (rewrite E; reflexivity).
  assert (Q1 : c_evq c' = []) by (rewrite E; reflexivity).
  assert (Q2 : c_wbq c' = []) by (rewrite E; reflexivity).
  repeat split; auto.
  intros k. pose proof (inv_n HI k) as Hn. rewrite L in Hn. specialize (Hn eq_refl).
  destruct (m' k); [|exact Hn].
  destruct Hn as [U|U]; [|exact U]. unfold inflight in U. rewrite Q1, Q2 in U. destruct U.
Qed.

(* ---------- without write-back no entry is ever marked persisted ---------- *)
Definition nopers (c : cache) : Prop := forall k e, In (k, e) (c_lfu c) -> e_pers e = false.

Lemma nopers_step : forall c o, nopers c -> is_writeback o = false -> nopers (fst (step c o)).
Proof.
  intros c o NP NW. destruct o as [k v|k|k f|k|num den order|acc| |wb]; cbn [Cache.step]; try discriminate.
  - intros k0 e0 Hi. cbn in Hi. apply In_set in Hi. destruct Hi as [(_ & _ & P)|(_ & Hi)]; [auto | eapply NP; eauto].
  - unfold l_get. destruct (l_find keq k (c_lfu c)) eqn:E; cbn [fst]; intros k0 e0 Hi; cbn in Hi.
    + apply In_upd in Hi. destruct Hi as [(_ & ->)|(_ & Hi)]; [reflexivity | eapply NP; eauto].
    + apply In_set in Hi. destruct Hi as [(_ & _ & P)|(_ & Hi)]; [auto | eapply NP; eauto].
  - destruct (l_find keq k (c_lfu c)) eqn:E0; cbn [fst c_lfu]; [|exact NP].
    intros k0 e0 Hi. apply In_poke in Hi. destruct Hi as [(_ & e1 & E & _ & P)|(_ & Hi)]; [|eapply NP; eauto].
    rewrite P. eapply NP. eapply l_find_In; eauto.
  - intros k0 e0 Hi. cbn in Hi. apply In_remove in Hi. destruct Hi. eapply NP; eauto.
  - destruct den; [exact NP|]. destruct (l_evict keq order (l_len (c_lfu c) * num / S den) (c_lfu c)) as [[l' sends]|] eqn:E; [|exact NP].
    cbn [fst]. intros k0 e0 Hi. cbn in Hi. destruct (evict_spec _ _ _ _ E) as (EA & _). eapply NP; eauto.
  - cbn [fst]. intros k0 e0 [].
  - destruct wb; [destruct (c_wbq c) | destruct (c_evq c)]; exact NP.
Qed.

Lemma admissible0_admissible : forall ops c,
  nopers c -> no_writeback ops -> admissible0 keq dflt enc dec c ops -> admissible keq dflt enc dec c ops.
Proof.
  induction ops as [|o r IH]; intros c NP NW AD; [exact I|].
  unfold no_writeback in NW. cbn in NW. apply andb_prop in NW. destruct NW as [NW1 NW].
  cbn in AD. destruct AD as [OK AD]. cbn. split.
  - destruct o; cbn in *; auto; try discriminate.
    destruct OK as [Q F]. split; [exact Q|]. destruct (l_find keq k (c_lfu c)) as [e|] eqn:E; [|congruence].
    exists e. split; [reflexivity|]. eapply NP. eapply l_find_In; eauto.
  - apply IH; auto. apply nopers_step; auto. destruct (is_writeback o); [discriminate | reflexivity].
Qed.

Theorem refines_nowb : forall ops,
  no_writeback ops -> admissible0 keq dflt enc dec c_empty ops -> Forall congr_op ops ->
  Forall2 out_rel (fst (run c_empty ops)) (fst (spec_run (s_empty (K:=K) (V:=V)) ops)).
Proof.
  intros ops NW AD CG. eapply refines_general; [apply inv_init | | exact CG].
  apply admissible0_admissible; auto. intros k e [].
Qed.


(* ---------- client-level histories: the synchronous discipline is admissible ---------- *)
Notation lower := (lower (K:=K) (V:=V)).
Notation lower1 := (lower1 (K:=K) (V:=V)).
Notation admissible0 := (admissible0 keq dflt enc dec).

Definition cclean (c : cache) : Prop := c_evq c = [] /\ c_wbq c = [] /\ nopers c.

Lemma run_cons_snd : forall c o r, snd (run c (o :: r)) = snd (run (fst (step c o)) r).
Proof. intros. cbn [Cache.run]. destruct (step c o) as [c' x]. cbn [fst]. destruct (run c' r). reflexivity. Qed.

Lemma admissible0_app : forall a b c, admissible0 c a -> admissible0 (snd (run c a)) b -> admissible0 c (a ++ b).
Proof.
  induction a as [|o a IH]; intros b c A B; [exact B|].
  cbn in A. destruct A as [A1 A2]. cbn [app Cache.admissible0]. split; [exact A1|].
  apply IH; [exact A2|]. rewrite run_cons_snd in B. exact B.
Qed.

Lemma no_writeback_app : forall a b : list op, no_writeback a -> no_writeback b -> no_writeback (a ++ b).
Proof. intros a b A B. unfold no_writeback in *. rewrite forallb_app, A, B. reflexivity. Qed.

Lemma quiet_clean : forall (c : cache) (k : K), c_evq c = [] -> c_wbq c = [] -> quiet k c.
Proof. intros c k E W. unfold quiet, inflight. rewrite E, W. cbn. tauto. Qed.

Lemma l_find_upd_same : forall k e e1 (l : lfu (K:=K) (V:=V)), l_find keq k l = Some e -> l_find keq k (l_upd keq k e1 l) = Some e1.
Proof.
  induction l as [|[k1 e2] l IH]; cbn; [discriminate|].
  destruct (keq k k1) as [->|N]; cbn.
  - destruct (keq k1 k1); [reflexivity | congruence].
  - destruct (keq k k1); [congruence | exact IH].
Qed.

Lemma l_find_app_new : forall k e (l : lfu (K:=K) (V:=V)), l_find keq k l = None -> l_find keq k (l ++ [(k, e)]) = Some e.
Proof.
  induction l as [|[k1 e2] l IH]; cbn.
  - destruct (keq k k); [reflexivity | congruence].
  - destruct (keq k k1); [discriminate | exact IH].
Qed.

Lemma read_present : forall c k, l_find keq k (c_lfu (fst (step c (ORead k)))) <> None.
Proof.
  intros c k. cbn [Cache.step]. unfold l_get. destruct (l_find keq k (c_lfu c)) as [e|] eqn:E; cbn [fst c_lfu].
  - erewrite l_find_upd_same by eauto. discriminate.
  - unfold l_set. rewrite E. rewrite l_find_app_new by exact E. discriminate.
Qed.

Lemma evict_len : forall order count (l l' : lfu (K:=K) (V:=V)) sends,
  l_evict keq order count l = Some (l', sends) -> length sends <= length order.
Proof.
  induction order as [|k0 order IH]; intros count l l' sends H.
  - destruct count; cbn in H; [inversion H; subst; cbn; lia | discriminate].
  - destruct count; cbn in H; [inversion H; subst; cbn; lia|].
    destruct (l_find keq k0 l) as [e0|]; [|discriminate].
    destruct (Nat.eqb (e_freq e0) (l_minfreq l)); [|discriminate].
    destruct (l_evict keq order count (l_remove keq k0 l)) as [[l1 s1]|] eqn:E1; [|discriminate].
    inversion H; subst. apply IH in E1. destruct (e_pers e0); cbn; lia.
Qed.

Lemma run_sc : forall n c,
  let c' := snd (run c (repeat (OSaveCompletes false) n)) in
  c_lfu c' = c_lfu c /\ c_wbq c' = c_wbq c /\ c_evq c' = skipn n (c_evq c).
Proof.
  induction n as [|n IH]; intros c; [cbn; auto|].
  cbn [repeat]. cbv zeta. rewrite run_cons_snd. destruct (IH (fst (step c (OSaveCompletes false)))) as (A & B & C).
  rewrite A, B, C. cbn [Cache.step]. destruct (c_evq c) as [|kv q] eqn:E; cbn [fst c_lfu c_wbq c_evq].
  - rewrite E. rewrite skipn_nil. auto.
  - auto.
Qed.

Lemma admissible0_sc : forall n c, admissible0 c (repeat (OSaveCompletes false) n).
Proof. induction n; intros c; cbn; auto. Qed.

Lemma sync1 : forall c o, cclean c -> is_sync o = true ->
  admissible0 c (lower1 o) /\ no_writeback (lower1 o) /\ cclean (snd (run c (lower1 o))).
Proof.
  intros c o (E & W & NP) HS.
  assert (CL : forall o1, is_writeback o1 = false ->
               c_evq (fst (step c o1)) = [] -> c_wbq (fst (step c o1)) = [] -> cclean (fst (step c o1))).
  { intros o1 NW A B. repeat split; auto. apply nopers_step; auto. }
  destruct o as [k v|k|k f|k|num den order|num den order| |acc| ]; try discriminate; cbn [Cache.lower1].
  - split; [cbn; split; [apply quiet_clean; auto | exact I]|]. split; [reflexivity|].
    rewrite run_cons_snd. cbn [Cache.run snd]. apply CL; auto.
  - split; [cbn; split; [apply quiet_clean; auto | exact I]|]. split; [reflexivity|].
    rewrite run_cons_snd. cbn [Cache.run snd]. apply CL; auto.
    + cbn [Cache.step]. destruct (l_get keq k (c_lfu c)) as [[v|] l']; exact E.
    + cbn [Cache.step]. destruct (l_get keq k (c_lfu c)) as [[v|] l']; exact W.
  - assert (C1 : cclean (fst (step c (ORead k)))).
    { apply CL; auto; cbn [Cache.step]; destruct (l_get keq k (c_lfu c)) as [[v|] l']; assumption. }
    destruct C1 as (E1 & W1 & NP1).
    split; [|split; [reflexivity|]].
    + cbn [Cache.admissible0]. split; [apply quiet_clean; auto|]. split; [|exact I].
      split; [apply quiet_clean; auto | apply read_present].
    + rewrite !run_cons_snd. cbn [Cache.run snd].
      assert (QE : c_evq (fst (step (fst (step c (ORead k))) (OMutate k f))) = [] /\
                   c_wbq (fst (step (fst (step c (ORead k))) (OMutate k f))) = []).
      { cbn [Cache.step] in E1, W1 |- *. revert E1 W1.
        destruct (l_get keq k (c_lfu c)) as [[v0|] l0]; cbn [fst c_evq c_wbq c_lfu]; intros E1 W1;
          match goal with |- context [l_find keq k ?l] => destruct (l_find keq k l) end;
          cbn [fst c_evq c_wbq]; rewrite ?E1, ?W1; auto. }
      destruct QE as [QE1 QE2]. split; [exact QE1|]. split; [exact QE2|].
      apply nopers_step; auto.
  - split; [cbn; split; [apply quiet_clean; auto | exact I]|]. split; [reflexivity|].
    rewrite run_cons_snd. cbn [Cache.run snd]. apply CL; auto.
  - split; [|split].
    + cbn [Cache.admissible0 Cache.op_ok0]. split; [exact I | apply admissible0_sc].
    + unfold no_writeback. cbn [forallb is_writeback negb andb]. induction (length order); cbn; auto.
    + rewrite run_cons_snd. destruct (run_sc (length order) (fst (step c (OEvict num den order)))) as (A & B & C).
      unfold cclean, nopers. rewrite A, B, C.
      assert (NP1 : nopers (fst (step c (OEvict num den order)))) by (apply nopers_step; auto).
      cbn [Cache.step] in *. destruct den as [|den']; cbn [fst c_evq c_wbq c_lfu] in *.
      * rewrite E. rewrite skipn_nil. auto.
      * destruct (l_evict keq order (l_len (c_lfu c) * num / S den') (c_lfu c)) as [[l' sends]|] eqn:EV; cbn [fst c_evq c_wbq c_lfu] in *.
        -- rewrite E. cbn [app]. rewrite skipn_all2 by (eapply evict_len; eauto). auto.
        -- rewrite E. rewrite skipn_nil. auto.
  - split; [cbn; auto|]. split; [reflexivity|].
    rewrite run_cons_snd. cbn [Cache.run snd Cache.step fst]. repeat split; auto. intros k e [].
Qed.

Lemma sync_admissible : forall cops c, cclean c -> forallb (is_sync (K:=K) (V:=V)) cops = true ->
  admissible0 c (lower cops) /\ no_writeback (lower cops).
Proof.
  induction cops as [|o r IH]; intros c CC S; [cbn; auto|].
  cbn in S. apply andb_prop in S. destruct S as [S1 S2].
  destruct (@sync1 c o CC S1) as (A & B & C). destruct (IH _ C S2) as (A2 & B2).
  unfold Cache.lower. cbn [flat_map]. split; [apply admissible0_app; auto | apply no_writeback_app; auto].
Qed.

Lemma cclean_empty : cclean c_empty.
Proof. repeat split; auto. intros k e []. Qed.

Theorem refines_sync : forall cops,
  forallb (is_sync (K:=K) (V:=V)) cops = true -> Forall congr_op (lower cops) ->
  Forall2 out_rel (fst (run c_empty (lower cops))) (fst (spec_run (s_empty (K:=K) (V:=V)) (lower cops))).
Proof.
  intros cops S CG. destruct (@sync_admissible cops _ cclean_empty S) as [A B].
  apply refines_nowb; auto.
Qed.

(* ---------- reads ---------- *)
Lemma rets_rel : forall xs ys, Forall2 out_rel xs ys -> Forall2 Req (rets xs) (rets ys).
Proof.
  induction 1 as [|x y xs ys R F IH]; [constructor|].
  unfold rets in *. cbn [flat_map]. destruct x, y; cbn in R; try contradiction; cbn [app]; auto.
Qed.

(* evictions and flush+reopen cycles are invisible to the specification *)
Definition is_maint (o : cop (K:=K) (V:=V)) : bool := match o with CEvict _ _ _ | CFlushReopen => true | _ => false end.

Lemma spec_run_app_fst : forall a b m,
  fst (spec_run m (a ++ b)) = fst (spec_run m a) ++ fst (spec_run (snd (spec_run m a)) b).
Proof.
  induction a as [|o a IH]; intros b m; [reflexivity|].
  cbn [app Cache.spec_run]. destruct (spec_step m o) as [m' x]. specialize (IH b m').
  destruct (spec_run m' (a ++ b)) as [xs c2]. destruct (spec_run m' a) as [ys c3]. cbn [fst snd] in *. rewrite IH. reflexivity.
Qed.

Lemma rets_app : forall a b : list out, rets (a ++ b) = rets a ++ rets b.
Proof. intros. unfold rets. apply flat_map_app. Qed.

Lemma spec_maint : forall o m, is_maint o = true ->
  rets (fst (spec_run m (lower1 o))) = [] /\ snd (spec_run m (lower1 o)) = m.
Proof.
  intros o m H. destruct o; try discriminate; cbn [Cache.lower1].
  - cbn [Cache.spec_run Cache.spec_step]. induction (length order) as [|n IH]; cbn; auto.
    cbn in IH. destruct (spec_run m (repeat (OSaveCompletes false) n)) as [xs m']. cbn in *. auto.
  - cbn. auto.
Qed.

Lemma spec_ignores_maint : forall cops m,
  rets (fst (spec_run m (lower cops))) = rets (fst (spec_run m (lower (filter (fun o => negb (is_maint o)) cops)))).
Proof.
  induction cops as [|o r IH]; intros m; [reflexivity|].
  unfold Cache.lower in *. cbn [flat_map filter]. destruct (is_maint o) eqn:M; cbn [negb].
  - rewrite spec_run_app_fst, rets_app. destruct (spec_maint o m M) as [A B]. rewrite A, B. cbn [app]. apply IH.
  - cbn [flat_map]. rewrite !spec_run_app_fst, !rets_app. rewrite IH. reflexivity.
Qed.

Lemma filter_sync : forall cops, forallb (is_sync (K:=K) (V:=V)) cops = true ->
  forallb (is_sync (K:=K) (V:=V)) (filter (fun o => negb (is_maint o)) cops) = true.
Proof.
  induction cops as [|o r IH]; cbn; [auto|]. intros H. apply andb_prop in H. destruct H as [H1 H2].
  destruct (negb (is_maint o)); cbn; [rewrite H1; auto | auto].
Qed.

Lemma filter_congr : forall cops, Forall congr_op (lower cops) ->
  Forall congr_op (lower (filter (fun o => negb (is_maint o)) cops)).
Proof.
  induction cops as [|o r IH]; cbn; [auto|]. unfold Cache.lower in *. cbn [flat_map]. intros H.
  apply Forall_app in H. destruct H as [H1 H2].
  destruct (negb (is_maint o)); cbn [flat_map]; [apply Forall_app; split; auto | auto].
Qed.

(* cache transparency: the reads of a history with evictions (any fraction, any order the LFU allows) and
   flush+reopen cycles inserted anywhere are equivalent to the reads of the history without them *)
Theorem cache_transparent : forall cops,
  forallb (is_sync (K:=K) (V:=V)) cops = true -> Forall congr_op (lower cops) ->
  Forall2 Req (rets (fst (run c_empty (lower cops))))
              (rets (fst (run c_empty (lower (filter (fun o => negb (is_maint o)) cops))))).
Proof.
  intros cops S CG.
  pose proof (rets_rel (refines_sync cops S CG)) as A.
  pose proof (rets_rel (refines_sync _ (filter_sync _ S) (filter_congr _ CG))) as B.
  rewrite (spec_ignores_maint cops) in A.
  revert A B. generalize (rets (fst (run c_empty (lower cops)))).
  generalize (rets (fst (run c_empty (lower (filter (fun o => negb (is_maint o)) cops))))).
  generalize (rets (fst (spec_run (s_empty (K:=K) (V:=V)) (lower (filter (fun o => negb (is_maint o)) cops))))).
  intros ys zs xs A. revert zs. induction A as [|x y xs ys R F IH]; intros zs B; inversion B; subst; constructor.
  - etransitivity; [exact R | symmetry; assumption].
  - apply IH. assumption.
Qed.

End Refine.

(* ---------- C05: the instance Req = eq ---------- *)
Section C05.
Context {K V D : Type}.
Context (keq : forall a b : K, {a = b} + {a <> b}).
Context (dflt : K -> V) (enc : K -> V -> D) (dec : K -> D -> V).
Context (codec : forall k v, dec k (enc k v) = v).

Notation run := (run keq dflt enc dec).
Notation spec_run := (spec_run keq dflt).

Lemma eq_codec : forall k v v', v = v' -> dec k (enc k v) = v'.
Proof. intros; subst; apply codec. Qed.

Lemma congr_eq : forall ops : list (op (K:=K) (V:=V)), Forall (congr_op eq) ops.
Proof. intros. apply Forall_forall. intros o _. destruct o; cbn; auto. intros; congruence. Qed.

Lemma Forall2_eq : forall (xs ys : list V), Forall2 eq xs ys -> xs = ys.
Proof. induction 1; congruence. Qed.

Ltac inst_eq := try typeclasses eauto; try (intros; reflexivity); try (exact eq_codec); try assumption; try apply congr_eq.

Lemma c05_refines : forall ops,
  no_writeback ops -> admissible0 keq dflt enc dec c_empty ops ->
  rets (fst (run c_empty ops)) = rets (fst (spec_run s_empty ops)).
Proof.
  intros ops NW AD. apply Forall2_eq. apply (rets_rel (Req:=eq)).
  eapply refines_nowb with (Req := eq); inst_eq.
Qed.

Lemma c05_refines_sync : forall cops,
  forallb (is_sync (K:=K) (V:=V)) cops = true ->
  rets (fst (run c_empty (lower cops))) = rets (fst (spec_run s_empty (lower cops))).
Proof.
  intros cops S. apply Forall2_eq. apply (rets_rel (Req:=eq)).
  eapply refines_sync with (Req := eq); inst_eq.
Qed.

Lemma c05_writeback_partial : forall ops,
  admissible keq dflt enc dec c_empty ops ->
  rets (fst (run c_empty ops)) = rets (fst (spec_run s_empty ops)).
Proof.
  intros ops AD. apply Forall2_eq. apply (rets_rel (Req:=eq)).
  eapply proj1. eapply refines_general with (Req := eq); inst_eq.
  apply inv_init.
Qed.

Lemma c05_flush_durable : forall ops,
  admissible keq dflt enc dec c_empty (ops ++ [OFlushReopen]) ->
  let c' := snd (run c_empty (ops ++ [OFlushReopen])) in
  let m' := snd (spec_run s_empty ops) in
  c_lfu c' = [] /\ c_evq c' = [] /\ c_wbq c' = [] /\
  forall k, match m' k with
            | Some v => exists d, c_disk c' k = Some d /\ dec k d = v
            | None => c_disk c' k = None
            end.
Proof. intros ops AD. eapply flush_durable with (Req := eq); inst_eq. Qed.

Lemma c05_delete_removes : forall (c : cache (K:=K) (V:=V) (D:=D)) k,
  let c' := fst (step keq dflt enc dec c (ODelete k)) in
  l_find keq k (c_lfu c') = None /\ c_disk c' k = None.
Proof.
  intros c k. cbn. split.
  - apply l_find_none. intros H. apply in_map_iff in H. destruct H as [[k1 e1] [H1 H2]]. cbn in H1. subst.
    apply In_remove in H2. tauto.
  - unfold d_set. destruct (keq k k); congruence.
Qed.

End C05.

(* ---------- witnesses on a concrete instance: keys, values and disk content are numbers, identity codec ---------- *)
Section Witnesses.
Open Scope N_scope.
Definition w_dflt (k : N) : N := 1000 + k.
Definition w_id (k v : N) : N := v.
Notation runW := (run N.eq_dec w_dflt w_id w_id).
Notation specW := (spec_run N.eq_dec w_dflt).
Notation adm0W := (admissible0 N.eq_dec w_dflt w_id w_id).
Notation emptyW := (c_empty (K:=N) (V:=N) (D:=N)).
Notation sW := (s_empty (K:=N) (V:=N)).

Ltac quiet_tac := repeat split; try exact I; unfold quiet, inflight; cbn; intuition discriminate.

(* D10: with write-back (one send accepted, one dropped) a key is lost although every other hypothesis holds *)
Definition w_d10 : list (op (K:=N) (V:=N)) :=
  [OPut 0 11; OPut 1 12; OWriteBack [0]; OSaveCompletes true; OFlushReopen; ORead 0; ORead 1].

Lemma c05_writeback_refuted :
  exists ops, adm0W emptyW ops /\ ~ In Bad (fst (runW emptyW ops)) /\
              rets (fst (runW emptyW ops)) <> rets (fst (specW sW ops)).
Proof.
  exists w_d10. split; [|split].
  - unfold w_d10. cbn. quiet_tac.
  - vm_compute. intuition discriminate.
  - intros H. vm_compute in H. discriminate H.
Qed.

(* D11: without write-back, a Get that overlaps the in-flight save of its key returns a fresh default,
   and that default later reaches the disk *)
Definition w_d11 : list (op (K:=N) (V:=N)) :=
  [OPut 0 7; OEvict 1 1 [0]; ORead 0; OSaveCompletes false; ORead 0; OEvict 1 1 [0]; OSaveCompletes false].

Lemma c05_inflight_refuted :
  exists ops, no_writeback ops /\ ~ In Bad (fst (runW emptyW ops)) /\
              rets (fst (runW emptyW ops)) <> rets (fst (specW sW ops)) /\
              c_disk (snd (runW emptyW ops)) 0 = Some (w_dflt 0).
Proof.
  exists w_d11. split; [reflexivity|]. split; [vm_compute; intuition discriminate|]. split.
  - intros H. vm_compute in H. discriminate H.
  - vm_compute. reflexivity.
Qed.

(* same root cause: a Delete that overlaps the in-flight save is undone when the save lands *)
Definition w_d11_delete : list (op (K:=N) (V:=N)) :=
  [OPut 0 7; OEvict 1 1 [0]; ODelete 0; OSaveCompletes false; ORead 0].

Lemma c05_inflight_delete_refuted :
  exists ops, no_writeback ops /\ ~ In Bad (fst (runW emptyW ops)) /\
              rets (fst (runW emptyW ops)) <> rets (fst (specW sW ops)).
Proof.
  exists w_d11_delete. split; [reflexivity|]. split; [vm_compute; intuition discriminate|].
  intros H. vm_compute in H. discriminate H.
Qed.

(* a mutation through a pointer obtained before the entry was evicted is lost, although all saves had completed *)
Definition w_stale : list (op (K:=N) (V:=N)) :=
  [OPut 0 1; ORead 0; OEvict 1 1 [0]; OSaveCompletes false; OMutate 0 (fun _ => 2); ORead 0].

Lemma c05_stale_handle_refuted :
  exists ops, no_writeback ops /\ ~ In Bad (fst (runW emptyW ops)) /\
              rets (fst (runW emptyW ops)) <> rets (fst (specW sW ops)).
Proof.
  exists w_stale. split; [reflexivity|]. split; [vm_compute; intuition discriminate|].
  intros H. vm_compute in H. discriminate H.
Qed.

(* every write-back send accepted is still not enough when the object is then mutated through a pointer obtained
   before the write-back: the mutation does not clear `persisted`, the later flush drops the entry, the mutation is lost *)
Definition w_wb_mut : list (op (K:=N) (V:=N)) :=
  [OPut 0 11; OWriteBack [0]; OSaveCompletes true; OMutate 0 (fun _ => 12); OFlushReopen; ORead 0].

Lemma c05_writeback_mutation_refuted :
  exists ops, adm0W emptyW ops /\ ~ In Bad (fst (runW emptyW ops)) /\
              rets (fst (runW emptyW ops)) <> rets (fst (specW sW ops)).
Proof.
  exists w_wb_mut. split; [|split].
  - unfold w_wb_mut. cbn. quiet_tac.
  - vm_compute. intuition discriminate.
  - intros H. vm_compute in H. discriminate H.
Qed.

(* the hypotheses of c05_refines are satisfiable by a history that evicts, reloads, deletes and reopens *)
Definition w_good : list (cop (K:=N) (V:=N)) :=
  [CPut 0 5; CPut 1 6; CMutate 0 (fun v => v + 3); CEvict 1 2 [1]; CRead 1; CEvict 1 1 [1; 0]; CRead 0;
   CDelete 1; CFlushReopen; CRead 0; CRead 1].

Lemma c05_refines_nonvacuous :
  forallb (is_sync (K:=N) (V:=N)) w_good = true /\
  no_writeback (lower w_good) /\ adm0W emptyW (lower w_good) /\
  ~ In Bad (fst (runW emptyW (lower w_good))) /\
  rets (fst (runW emptyW (lower w_good))) = [5; 6; 8; 8; 1001].
Proof.
  assert (S : forallb (is_sync (K:=N) (V:=N)) w_good = true) by reflexivity.
  destruct (@sync_admissible N N N N.eq_dec w_dflt w_id w_id w_good emptyW cclean_empty S) as [A B].
  split; [exact S|]. split; [exact B|]. split; [exact A|]. split.
  - vm_compute. intuition discriminate.
  - vm_compute. reflexivity.
Qed.

(* the hypotheses of c05_writeback_partial are satisfiable with a write-back whose sends are all accepted *)
Definition w_wb_ok : list (op (K:=N) (V:=N)) :=
  [OPut 0 11; OPut 1 12; OWriteBack [0; 1]; OSaveCompletes true; OSaveCompletes true; OFlushReopen; ORead 0; ORead 1].

Lemma c05_writeback_partial_nonvacuous :
  admissible N.eq_dec w_dflt w_id w_id emptyW w_wb_ok /\ ~ In Bad (fst (runW emptyW w_wb_ok)) /\
  rets (fst (runW emptyW w_wb_ok)) = [11; 12].
Proof.
  split; [|split].
  - unfold w_wb_ok. cbn. repeat split; try exact I; unfold quiet, inflight; cbn; try (intuition discriminate).
  - vm_compute. intuition discriminate.
  - vm_compute. reflexivity.
Qed.

(* C02 at the level of the object store: with a write-back whose send for key 1 is dropped, a flush+reopen changes
   what a later read returns, although the history is otherwise synchronous *)
Definition w_c02_wb : list (cop (K:=N) (V:=N)) :=
  [CPut 0 11; CPut 1 12; CWriteBack [0]; CFlushReopen; CRead 0; CRead 1].
Definition w_c02_plain : list (cop (K:=N) (V:=N)) := [CPut 0 11; CPut 1 12; CRead 0; CRead 1].

Lemma c02_writeback_refuted :
  ~ In Bad (fst (runW emptyW (lower w_c02_wb))) /\
  rets (fst (runW emptyW (lower w_c02_wb))) = [11; 1001] /\
  rets (fst (runW emptyW (lower w_c02_plain))) = [11; 12].
Proof. split; [vm_compute; intuition discriminate|]. split; vm_compute; reflexivity. Qed.

(* the hypotheses of the lifting lemma are satisfiable with a non-trivial equivalence: values are compared modulo 100
   (think "same profile up to frames that do not matter"), the codec loses the hundreds, operations add constants *)
Definition w_req (a b : N) : Prop := a mod 100 = b mod 100.
Definition w_enc100 (k v : N) : N := v mod 100.
Definition w_transparent : list (cop (K:=N) (V:=N)) :=
  [CPut 0 205; CMutate 0 (fun v => v + 3); CEvict 1 1 [0]; CRead 0; CFlushReopen; CMutate 0 (fun v => v + 100); CRead 0].

Lemma w_req_equiv : RelationClasses.Equivalence w_req.
Proof. unfold w_req. split; [intros x; reflexivity | intros x y H; symmetry; exact H | intros x y z H1 H2; congruence]. Qed.

Lemma c02_transparent_nonvacuous :
  (forall k v, w_req (w_id k (w_enc100 k v)) v) /\
  forallb (is_sync (K:=N) (V:=N)) w_transparent = true /\
  Forall (congr_op w_req) (lower w_transparent) /\
  rets (fst (run N.eq_dec w_dflt w_enc100 w_id emptyW (lower w_transparent))) = [205; 8; 8; 108] /\
  rets (fst (run N.eq_dec w_dflt w_enc100 w_id emptyW (lower (filter (fun o => negb (is_maint o)) w_transparent)))) = [205; 208; 208; 308].
Proof.
  split; [|split; [reflexivity|split; [|split; vm_compute; reflexivity]]].
  - intros k v. unfold w_req, w_id, w_enc100. apply N.mod_mod. discriminate.
  - unfold w_transparent. cbn [lower flat_map lower1 app repeat length].
    repeat constructor; cbn; auto; intros a b H; unfold w_req in *;
      rewrite (N.add_mod a), (N.add_mod b), H by discriminate; reflexivity.
Qed.

End Witnesses.
