(* CacheProofs.v — the LFU+Badger cache (Model/Cache.v) refines a plain map.
   Everything is proved for an arbitrary equivalence Req on values with dec (enc v) ~ v, so that the same
   development gives C05 (Req = eq) and the lifting lemma of C02 (Req = "same profile up to zero frames" etc.). *)
From Coq Require Import List Arith Bool Lia Morphisms RelationClasses.
From Pyro Require Import Model.Lfu Model.Cache.
Import ListNotations.
Set Implicit Arguments.

Section LfuFacts.
Context {K V : Type}.
Context (keq : forall a b : K, {a = b} + {a <> b}).
Notation lfu := (lfu (K:=K) (V:=V)).
Notation entry := (entry (V:=V)).

Lemma l_find_In : forall k (l : lfu) e, l_find keq k l = Some e -> In (k, e) l.
Proof.
  induction l as [|[k' e'] l IH]; cbn; intros e H; [discriminate|].
  destruct (keq k k'); [inversion H; subst; auto | auto].
Qed.

Lemma l_find_none : forall k (l : lfu), l_find keq k l = None <-> ~ In k (map fst l).
Proof.
  induction l as [|[k' e'] l IH]; cbn; [tauto|].
  destruct (keq k k'); [split; [discriminate | intros H; exfalso; apply H; auto] |].
  rewrite IH. split; [intros H [E|E]; [congruence | tauto] | tauto].
Qed.

Lemma In_find_some : forall k e (l : lfu), In (k, e) l -> exists e1, l_find keq k l = Some e1.
Proof.
  intros k e l H. destruct (l_find keq k l) eqn:E; [eauto|].
  apply l_find_none in E. exfalso. apply E. apply in_map_iff. exists (k, e); auto.
Qed.

Lemma In_upd : forall k e k0 e0 (l : lfu),
  In (k0, e0) (l_upd keq k e l) -> (k0 = k /\ e0 = e) \/ (k0 <> k /\ In (k0, e0) l).
Proof.
  intros k e k0 e0 l H. unfold l_upd in H. apply in_map_iff in H. destruct H as [[k1 e1] [H1 H2]].
  cbn in H1. destruct (keq k k1).
  - inversion H1; subst. auto.
  - inversion H1; subst. right; split; [congruence | auto].
Qed.

Lemma upd_keys : forall k e (l : lfu), map fst (l_upd keq k e l) = map fst l.
Proof.
  intros. unfold l_upd. rewrite map_map. apply map_ext. intros [k1 e1]; cbn. destruct (keq k k1); reflexivity.
Qed.

Lemma l_find_upd_none : forall k e k0 (l : lfu), l_find keq k0 (l_upd keq k e l) = None -> l_find keq k0 l = None.
Proof. intros k e k0 l H. apply l_find_none. apply l_find_none in H. rewrite upd_keys in H. exact H. Qed.

Lemma In_remove : forall k k0 e0 (l : lfu), In (k0, e0) (l_remove keq k l) -> k0 <> k /\ In (k0, e0) l.
Proof.
  induction l as [|[k1 e1] l IH]; cbn; [tauto|].
  destruct (keq k k1).
  - intros H. destruct (IH H); auto.
  - intros [H|H]; [inversion H; subst; split; [congruence | auto] | destruct (IH H); auto].
Qed.

Lemma In_remove_other : forall k k0 e0 (l : lfu), k0 <> k -> In (k0, e0) l -> In (k0, e0) (l_remove keq k l).
Proof.
  induction l as [|[k1 e1] l IH]; cbn; [tauto|].
  intros N [H|H].
  - inversion H; subst. destruct (keq k k0); [congruence | left; reflexivity].
  - destruct (keq k k1); [auto | right; auto].
Qed.

Lemma l_find_remove_none : forall k k0 (l : lfu),
  l_find keq k0 (l_remove keq k l) = None -> k0 = k \/ l_find keq k0 l = None.
Proof.
  intros k k0 l H. destruct (keq k0 k); [auto|]. right.
  destruct (l_find keq k0 l) eqn:E; [|reflexivity].
  apply l_find_In in E. apply In_remove_other with (k:=k) in E; [|exact n].
  apply l_find_none in H. exfalso. apply H. apply in_map_iff. exists (k0, e); auto.
Qed.

Lemma In_set : forall k v k0 e0 (l : lfu),
  In (k0, e0) (l_set keq k v l) -> (k0 = k /\ e_val e0 = v /\ e_pers e0 = false) \/ (k0 <> k /\ In (k0, e0) l).
Proof.
  intros k v k0 e0 l H. unfold l_set in H. destruct (l_find keq k l) eqn:E.
  - apply In_upd in H. destruct H as [[-> ->]|H]; auto.
  - apply in_app_or in H. destruct H as [H|[H|[]]].
    + right. split; [|auto]. intros ->. apply l_find_none in E. apply E. apply in_map_iff. exists (k, e0); auto.
    + inversion H; subst. auto.
Qed.

Lemma l_find_set_none : forall k v k0 (l : lfu), l_find keq k0 (l_set keq k v l) = None -> k0 <> k /\ l_find keq k0 l = None.
Proof.
  intros k v k0 l H. unfold l_set in H. destruct (l_find keq k l) eqn:E.
  - pose proof (l_find_upd_none _ _ _ _ H) as H1. split; [intros ->; congruence | auto].
  - apply l_find_none in H. rewrite map_app in H. cbn in H. split.
    + intros ->. apply H. apply in_or_app. right. left. reflexivity.
    + apply l_find_none. intros N. apply H. apply in_or_app. auto.
Qed.

Lemma In_poke : forall k f k0 e0 (l : lfu),
  In (k0, e0) (l_poke keq k f l) ->
  (k0 = k /\ exists e, l_find keq k l = Some e /\ e_val e0 = f (e_val e) /\ e_pers e0 = e_pers e) \/ (k0 <> k /\ In (k0, e0) l).
Proof.
  intros k f k0 e0 l H. unfold l_poke in H. destruct (l_find keq k l) eqn:E.
  - apply In_upd in H. destruct H as [[-> ->]|H]; [left; split; [reflexivity | exists e; auto] | auto].
  - right. split; [|auto]. intros ->. apply l_find_none in E. apply E. apply in_map_iff. exists (k, e0); auto.
Qed.

Lemma l_find_poke_none : forall k f k0 (l : lfu), l_find keq k0 (l_poke keq k f l) = None -> l_find keq k0 l = None.
Proof.
  intros k f k0 l H. unfold l_poke in H. destruct (l_find keq k l); [eapply l_find_upd_none; eauto | auto].
Qed.

(* eviction: what is left is unchanged; what was removed was either handed off or marked persisted *)
Lemma evict_spec : forall order count (l l' : lfu) sends,
  l_evict keq order count l = Some (l', sends) ->
  (forall k e, In (k, e) l' -> In (k, e) l) /\
  (forall k v, In (k, v) sends -> exists e, In (k, e) l /\ e_val e = v) /\
  (forall k e, In (k, e) l -> In k (map fst l') \/ exists e1, In (k, e1) l /\ (e_pers e1 = true \/ In (k, e_val e1) sends)).
Proof.
  induction order as [|k0 order IH]; intros count l l' sends H.
  - destruct count; cbn in H; [|discriminate]. inversion H; subst. repeat split; [auto | intros k v [] |].
    intros k e Hi. left. apply in_map_iff. exists (k, e); auto.
  - destruct count; cbn in H.
    + inversion H; subst. repeat split; [auto | intros k v [] |].
      intros k e Hi. left. apply in_map_iff. exists (k, e); auto.
    + destruct (l_find keq k0 l) as [e0|] eqn:E0; [|discriminate].
      destruct (Nat.eqb (e_freq e0) (l_minfreq l)); [|discriminate].
      destruct (l_evict keq order count (l_remove keq k0 l)) as [[l1 s1]|] eqn:E1; [|discriminate].
      inversion H; subst; clear H.
      destruct (IH _ _ _ _ E1) as (A & B & C).
      apply l_find_In in E0.
      repeat split.
      * intros k e Hi. apply A in Hi. apply In_remove in Hi. tauto.
      * intros k v Hi. destruct (e_pers e0) eqn:P.
        -- apply B in Hi. destruct Hi as (e & Hi & Hv). apply In_remove in Hi. exists e; tauto.
        -- destruct Hi as [Hi|Hi].
           ++ inversion Hi; subst. exists e0; auto.
           ++ apply B in Hi. destruct Hi as (e & Hi & Hv). apply In_remove in Hi. exists e; tauto.
      * intros k e Hi. destruct (keq k k0) as [->|N].
        -- right. exists e0. split; [auto|]. destruct (e_pers e0); [auto | right; left; reflexivity].
        -- apply In_remove_other with (k:=k0) in Hi; [|exact N]. apply C in Hi. destruct Hi as [Hi|(e1 & Hi & Hp)]; [auto|].
           right. exists e1. apply In_remove in Hi. split; [tauto|].
           destruct Hp as [Hp|Hp]; [auto|]. right. destruct (e_pers e0); [auto | right; auto].
Qed.

(* write-back: values unchanged; an entry newly marked persisted was in the front bucket; accepted sends are in the queue *)
Lemma persist_spec : forall acc (l l' : lfu) sends,
  l_persist keq acc l = Some (l', sends) ->
  (forall k e', In (k, e') l' -> exists e, In (k, e) l /\ e_val e' = e_val e /\
                                  (e_pers e' = true -> e_pers e = true \/ In k (l_front l))) /\
  map fst l' = map fst l /\
  (forall k v, In (k, v) sends -> exists e, In (k, e) l /\ e_val e = v) /\
  (forall k, In k acc -> In k (map fst l) -> In k (map fst sends)).
Proof.
  intros acc l l' sends H. unfold l_persist in H.
  assert (G : forall k v, In (k, v) (flat_map (fun k => match l_find keq k l with Some e => [(k, e_val e)] | None => [] end) acc) ->
              exists e, In (k, e) l /\ e_val e = v).
  { intros k v Hi. apply in_flat_map in Hi. destruct Hi as (k1 & _ & Hi).
    destruct (l_find keq k1 l) eqn:E; [|destruct Hi]. destruct Hi as [Hi|[]]. inversion Hi; subst.
    exists e. split; [apply l_find_In; auto | reflexivity]. }
  assert (G2 : forall k, In k acc -> In k (map fst l) ->
               In k (map fst (flat_map (fun k => match l_find keq k l with Some e => [(k, e_val e)] | None => [] end) acc))).
  { intros k Ha Hl. apply in_map_iff. destruct (l_find keq k l) eqn:E.
    - exists (k, e_val e). split; [reflexivity|]. apply in_flat_map. exists k. split; [auto|]. rewrite E. left; reflexivity.
    - apply l_find_none in E. tauto. }
  destruct l as [|ke l0].
  - destruct acc; [|discriminate]. inversion H; subst. repeat split; auto; intros; cbn in *; tauto.
  - remember (ke :: l0) as l eqn:EL.
    match type of H with (if ?b then _ else _) = _ => destruct b; [|discriminate] end.
    inversion H; subst l' sends; clear H. split; [|split; [|split]]; auto.
    + intros k e' Hi. apply in_map_iff in Hi. destruct Hi as [[k1 e1] [H1 H2]]. cbn [fst snd] in H1.
      destruct (Nat.eqb (e_freq e1) (l_minfreq l)) eqn:F.
      * inversion H1; subst k1 e'. exists e1. cbn [e_val e_pers]. repeat split; auto. intros _. right.
        unfold l_front. apply in_map_iff. exists (k, e1). split; [reflexivity|].
        apply (proj2 (filter_In _ _ _)). cbn [snd]. auto.
      * inversion H1; subst k1 e1. exists e'. auto.
    + rewrite map_map. apply map_ext. intros [k1 e1]. cbn [fst snd]. destruct (Nat.eqb (e_freq e1) (l_minfreq l)); reflexivity.
Qed.

End LfuFacts.
