(* TimeParseProofs.v — lemmas about Model/TimeParse.v (attime, durations, sizes). *)
From Pyro Require Import Model.Base Model.TimeParse.
From Coq Require Import ZifyBool ZifyNat ZifyN.
Local Open Scope Z_scope.

(* ------------------------------------------------------------------------------------------------ *)
(* int64 wrap *)

Lemma wrap64_id : forall x, - two63 <= x < two63 -> wrap64 x = x.
Proof.
  intros x H. unfold wrap64. rewrite Z.mod_small; unfold two63, two64 in *; lia.
Qed.

Lemma wrap64_range : forall x, - two63 <= wrap64 x < two63.
Proof.
  intros x. unfold wrap64. pose proof (Z.mod_pos_bound (x + two63) two64 eq_refl). unfold two63, two64 in *. lia.
Qed.

Lemma wrap64_shift : forall a k, wrap64 (a + k * two64) = wrap64 a.
Proof.
  intros. unfold wrap64. replace (a + k * two64 + two63) with (a + two63 + k * two64) by ring.
  rewrite Z_mod_plus_full. reflexivity.
Qed.

Lemma wrap64_decomp : forall a, exists k, wrap64 a = a + k * two64.
Proof.
  intros a. unfold wrap64. exists (- ((a + two63) / two64)).
  pose proof (Z_div_mod_eq_full (a + two63) two64). lia.
Qed.

Lemma wrap64_add_l : forall a b, wrap64 (wrap64 a + b) = wrap64 (a + b).
Proof.
  intros a b. destruct (wrap64_decomp a) as [k ->].
  replace (a + k * two64 + b) with (a + b + k * two64) by ring. apply wrap64_shift.
Qed.

Lemma wrap64_add_r : forall a b, wrap64 (a + wrap64 b) = wrap64 (a + b).
Proof. intros. rewrite Z.add_comm, wrap64_add_l. f_equal. ring. Qed.

Lemma wrap64_mul_l : forall a b, wrap64 (wrap64 a * b) = wrap64 (a * b).
Proof.
  intros a b. destruct (wrap64_decomp a) as [k ->].
  replace ((a + k * two64) * b) with (a * b + (k * b) * two64) by ring. apply wrap64_shift.
Qed.

Lemma wrap64_mul_r : forall a b, wrap64 (a * wrap64 b) = wrap64 (a * b).
Proof. intros. rewrite Z.mul_comm, wrap64_mul_l. f_equal. ring. Qed.

Lemma wrap64_idem : forall a, wrap64 (wrap64 a) = wrap64 a.
Proof. intros. apply wrap64_id, wrap64_range. Qed.

Lemma offset_term_eq : forall sign num u,
  offset_term sign num u = wrap64 (1000000000 * (num * sign * get_unit_multiplier u)).
Proof.
  intros. unfold offset_term. rewrite !wrap64_mul_r.
  replace (1000000000 * (wrap64 (num * sign) * get_unit_multiplier u))
    with (wrap64 (num * sign) * (get_unit_multiplier u * 1000000000)) by ring.
  rewrite wrap64_mul_l. f_equal. ring.
Qed.

(* ------------------------------------------------------------------------------------------------ *)
(* span *)

Definition starts_with (p : N -> bool) (s : bytes) : Prop := match s with [] => True | c :: _ => p c = true end.

Lemma span_app : forall (p : N -> bool) a b,
  forallb p a = true -> starts_with (fun c => negb (p c)) b -> span p (a ++ b) = (a, b).
Proof.
  induction a as [|x a IH]; intros b Ha Hb; simpl in *.
  - destruct b as [|c b']; simpl in *; [reflexivity|]. destruct (p c); simpl in *; [discriminate|reflexivity].
  - apply andb_true_iff in Ha as [Hx Ha]. rewrite Hx, (IH b Ha Hb). reflexivity.
Qed.

Lemma span_spec : forall (p : N -> bool) s a b,
  span p s = (a, b) -> s = a ++ b /\ forallb p a = true /\ starts_with (fun c => negb (p c)) b.
Proof.
  induction s as [|c s IH]; intros a b H; simpl in H.
  - inversion H; subst. simpl. auto.
  - destruct (p c) eqn:Hc.
    + destruct (span p s) as [a' b'] eqn:E. inversion H; subst.
      destruct (IH a' b eq_refl) as (-> & Hf & Hs). simpl. rewrite Hc. auto.
    + inversion H; subst. simpl. rewrite Hc. auto.
Qed.

(* ------------------------------------------------------------------------------------------------ *)
(* the index loops of parseTimeOffset *)

Definition nondigit (c : N) : bool := negb (is_digit c).

Lemma forallb_firstn : forall {A} (p : A -> bool) n l, forallb p l = true -> forallb p (firstn n l) = true.
Proof.
  induction n as [|n IH]; intros l H; [reflexivity|]. destruct l as [|x l]; [reflexivity|].
  simpl in *. apply andb_true_iff in H as [Hx Hl]. rewrite Hx, (IH l Hl). reflexivity.
Qed.

Lemma forallb_skipn : forall {A} (p : A -> bool) n l, forallb p l = true -> forallb p (skipn n l) = true.
Proof.
  induction n as [|n IH]; intros l H; [exact H|]. destruct l as [|x l]; [reflexivity|].
  simpl in *. apply andb_true_iff in H as [Hx Hl]. apply IH, Hl.
Qed.

Lemma digits_only_firstn : forall ds rest i,
  forallb is_digit ds = true -> (1 <= i <= length ds)%nat -> digits_only (firstn i (ds ++ rest)) = true.
Proof.
  intros ds rest i Hd Hi. rewrite firstn_app. replace (i - length ds)%nat with O by lia. simpl. rewrite app_nil_r.
  pose proof (forallb_firstn is_digit i ds Hd) as H.
  destruct ds as [|c ds]; [simpl in Hi; lia|]. destruct i as [|i]; [lia|]. simpl in *. exact H.
Qed.

(* scan_num on ds ++ tl where ds are digits and tl is empty or starts with a non-digit *)
Lemma scan_num_spec : forall ds tl, forallb is_digit ds = true -> starts_with nondigit tl ->
  forall fuel i, (1 <= i <= S (length ds))%nat -> (S (length ds) - i < fuel)%nat ->
  scan_num fuel (ds ++ tl) i = S (length ds).
Proof.
  intros ds tl Hd Ht. induction fuel as [|f IH]; intros i Hi Hf; [lia|]. cbn [scan_num]. unfold bytes, byte in *.
  destruct (Nat.eq_dec i (S (length ds))) as [->|Hne].
  - destruct tl as [|c tl'].
    + rewrite app_nil_r. assert (E : (S (length ds) <=? length ds)%nat = false) by (apply Nat.leb_gt; lia).
      rewrite E. reflexivity.
    + replace (firstn (S (length ds)) (ds ++ c :: tl')) with (ds ++ [c]).
      * assert (Hx : digits_only (ds ++ [c]) = false).
        { unfold digits_only. destruct (ds ++ [c]) eqn:E; [reflexivity|]. rewrite <- E, forallb_app. simpl.
          simpl in Ht. unfold nondigit in Ht. apply negb_true_iff in Ht. rewrite Ht. rewrite andb_false_r. reflexivity. }
        rewrite Hx, andb_false_r. reflexivity.
      * rewrite firstn_app, firstn_all2 by lia. replace (S (length ds) - length ds)%nat with 1%nat by lia. reflexivity.
  - rewrite (digits_only_firstn ds tl i Hd) by lia. rewrite app_length.
    replace (i <=? length ds + length tl)%nat with true by (symmetry; apply Nat.leb_le; lia). simpl.
    apply IH; lia.
Qed.

Lemma scan_unit_spec : forall u tl, forallb nondigit u = true -> starts_with is_digit tl ->
  forall fuel i, (1 <= i <= S (length u))%nat -> (S (length u) - i < fuel)%nat ->
  scan_unit fuel (u ++ tl) i = S (length u).
Proof.
  intros u tl Hu Ht. induction fuel as [|f IH]; intros i Hi Hf; [lia|]. cbn [scan_unit]. unfold bytes, byte in *.
  destruct (Nat.eq_dec i (S (length u))) as [->|Hne].
  - replace (S (length u) - 1)%nat with (length u) by lia.
    destruct tl as [|c tl'].
    + rewrite app_nil_r. assert (E : (S (length u) <=? length u)%nat = false) by (apply Nat.leb_gt; lia).
      rewrite E. reflexivity.
    + rewrite skipn_app, skipn_all, Nat.sub_diag. cbn [skipn app firstn]. simpl in Ht.
      unfold digits_only. cbn [forallb]. rewrite Ht. cbn [andb negb]. rewrite andb_false_r. reflexivity.
  - rewrite app_length. replace (i <=? length u + length tl)%nat with true by (symmetry; apply Nat.leb_le; lia).
    rewrite skipn_app. replace (i - 1 - length u)%nat with O by lia. simpl skipn at 2.
    pose proof (forallb_skipn nondigit (i - 1) u Hu) as Hs.
    assert (Hlen : (length (skipn (i - 1) u) = length u - (i - 1))%nat) by apply skipn_length.
    destruct (skipn (i - 1) u) as [|c r] eqn:E; [simpl in Hlen; lia|].
    simpl in Hs. apply andb_true_iff in Hs as [Hc _]. unfold nondigit in Hc. apply negb_true_iff in Hc.
    simpl. rewrite Hc. simpl. apply IH; lia.
Qed.

Lemma go_sub_prefix : forall a b, go_sub (a ++ b) 0 (length a) = Some a.
Proof.
  intros. unfold go_sub. rewrite app_length. simpl.
  replace (length a <=? length a + length b)%nat with true by (symmetry; apply Nat.leb_le; lia).
  rewrite Nat.sub_0_r, firstn_app, firstn_all, Nat.sub_diag. simpl. rewrite app_nil_r. reflexivity.
Qed.

Lemma go_sub_suffix : forall a b, go_sub (a ++ b) (length a) (length (a ++ b)) = Some b.
Proof.
  intros. unfold go_sub. rewrite app_length.
  replace (length a <=? length a + length b)%nat with true by (symmetry; apply Nat.leb_le; lia).
  rewrite Nat.leb_refl. simpl. rewrite skipn_app, skipn_all, Nat.sub_diag. simpl.
  replace (length a + length b - length a)%nat with (length b) by lia. rewrite firstn_all. reflexivity.
Qed.

(* one iteration of the loop on  ds ++ u ++ rest *)
Lemma offset_loop_step : forall ds u rest fuel sign d,
  forallb is_digit ds = true -> forallb nondigit u = true ->
  (u = [] -> rest = []) -> starts_with is_digit rest -> ds ++ u <> [] ->
  offset_loop (S fuel) sign (ds ++ u ++ rest) d =
  offset_loop fuel sign rest (wrap64 (d + offset_term sign (go_atoi ds) u)).
Proof.
  intros ds u rest fuel sign d Hd Hu Hur Hr Hne.
  assert (Htl : starts_with nondigit (u ++ rest)).
  { destruct u as [|c u']; [rewrite (Hur eq_refl); exact I|]. simpl in *. apply andb_true_iff in Hu as [Hc _]. exact Hc. }
  remember (ds ++ u ++ rest) as off eqn:Eoff.
  assert (Hnil : off <> []).
  { subst off. intro E. apply Hne. destruct ds; [|discriminate]. destruct u; [reflexivity|discriminate]. }
  destruct off as [|c0 off0]; [congruence|]. rewrite Eoff. cbn [offset_loop].
  rewrite <- Eoff at 1. 
  rewrite (scan_num_spec ds (u ++ rest) Hd Htl) by (rewrite ?app_length; simpl; lia).
  replace (S (length ds) - 1)%nat with (length ds) by lia.
  rewrite go_sub_prefix, go_sub_suffix.
  rewrite (scan_unit_spec u rest Hu Hr) by (rewrite ?app_length; simpl; lia).
  replace (S (length u) - 1)%nat with (length u) by lia.
  rewrite go_sub_prefix, go_sub_suffix. reflexivity.
Qed.

(* every non-empty offset string decomposes as digits ++ unit ++ rest *)
Lemma offset_decompose : forall off, off <> [] ->
  exists ds u rest, off = ds ++ u ++ rest /\ forallb is_digit ds = true /\ forallb nondigit u = true /\
    (u = [] -> rest = []) /\ starts_with is_digit rest /\ ds ++ u <> [].
Proof.
  intros off Hne.
  destruct (span is_digit off) as [ds r1] eqn:E1. destruct (span nondigit r1) as [u rest] eqn:E2.
  destruct (span_spec _ _ _ _ E1) as (-> & Hd & Hs1). destruct (span_spec _ _ _ _ E2) as (-> & Hu & Hs2).
  exists ds, u, rest. repeat split; auto.
  - intros ->. simpl in *. destruct rest as [|c r]; [reflexivity|]. simpl in *.
    unfold nondigit in *. destruct (is_digit c); simpl in *; discriminate.
  - destruct rest as [|c r]; [exact I|]. simpl in *. unfold nondigit in Hs2. apply negb_true_iff in Hs2.
    apply negb_false_iff in Hs2. exact Hs2.
  - intro E. apply app_eq_nil in E as [-> ->]. simpl in *.
    destruct rest as [|c r]; [congruence|]. simpl in *. unfold nondigit in *. destruct (is_digit c); simpl in *; discriminate.
Qed.

Lemma offset_loop_total : forall fuel sign off d, (length off <= fuel)%nat ->
  exists r, offset_loop fuel sign off d = Some r.
Proof.
  induction fuel as [|f IH]; intros sign off d Hlen.
  - destruct off; [eexists; reflexivity|simpl in Hlen; lia].
  - destruct off as [|c off'] eqn:Eo; [eexists; reflexivity|]. rewrite <- Eo in *.
    destruct (offset_decompose off) as (ds & u & rest & E & Hd & Hu & Hur & Hr & Hne); [congruence|].
    rewrite E. rewrite offset_loop_step by assumption. apply IH.
    assert (length (ds ++ u) <> 0)%nat by (destruct (ds ++ u); [congruence|simpl; lia]).
    rewrite E in Hlen. unfold bytes, byte in *. rewrite app_assoc, app_length in Hlen. lia.
Qed.

Lemma parse_time_offset_total : forall off, exists d, parse_time_offset off = Some d.
Proof.
  intros [|c off]; [eexists; reflexivity|]. unfold parse_time_offset.
  destruct (N.eqb c 45); [apply offset_loop_total; lia|].
  destruct (N.eqb c 43); apply offset_loop_total; lia.
Qed.

Lemma attime_total_lemma : forall now s, exists t, attime_parse now s = Some t.
Proof.
  intros now s. unfold attime_parse. destruct (digits_only (attime_clean s)).
  - destruct (yyyymmdd (attime_clean s)); eexists; reflexivity.
  - match goal with |- context [parse_time_offset ?o] => destruct (parse_time_offset_total o) as [d ->] end.
    eexists; reflexivity.
Qed.

(* ------------------------------------------------------------------------------------------------ *)
(* relative expressions of any number of terms *)

Definition term_ok (t : bytes * bytes) : Prop :=
  fst t <> [] /\ forallb is_digit (fst t) = true /\ snd t <> [] /\ forallb nondigit (snd t) = true.

Definition render_terms (ts : list (bytes * bytes)) : bytes := concat (map (fun t => fst t ++ snd t) ts).

Fixpoint terms_seconds (ts : list (bytes * bytes)) : Z :=
  match ts with
  | [] => 0
  | (ds, u) :: ts' => go_atoi ds * get_unit_multiplier u + terms_seconds ts'
  end.

Lemma render_terms_starts : forall ts, Forall term_ok ts -> starts_with is_digit (render_terms ts).
Proof.
  intros [|[ds u] ts] H; [exact I|]. inversion H as [|? ? (Hne & Hd & _) _]; subst. simpl in *.
  unfold render_terms. simpl. destruct ds as [|c ds']; [congruence|]. simpl in *.
  apply andb_true_iff in Hd as [Hc _]. exact Hc.
Qed.

Lemma offset_loop_terms : forall ts fuel sign d, Forall term_ok ts -> (length (render_terms ts) <= fuel)%nat ->
  wrap64 d = d ->
  offset_loop fuel sign (render_terms ts) d = Some (wrap64 (d + 1000000000 * (sign * terms_seconds ts))).
Proof.
  induction ts as [|[ds u] ts IH]; intros fuel sign d Hok Hlen Hd.
  - cbn [render_terms map concat terms_seconds]. replace (d + 1000000000 * (sign * 0)) with d by ring. rewrite Hd.
    destruct fuel; reflexivity.
  - inversion Hok as [|? ? (Hne & Hdg & Hune & Hu) Hok']; subst. simpl in Hne, Hdg, Hune, Hu.
    change (render_terms ((ds, u) :: ts)) with ((ds ++ u) ++ render_terms ts) in *.
    rewrite <- app_assoc in *.
    destruct fuel as [|f].
    { destruct ds; [congruence|]. simpl in Hlen. lia. }
    assert (H1 : u = [] -> render_terms ts = []) by (intros ->; congruence).
    assert (H2 : starts_with is_digit (render_terms ts)) by (apply render_terms_starts; assumption).
    assert (H3 : ds ++ u <> []) by (destruct ds; [congruence|discriminate]).
    etransitivity; [exact (offset_loop_step ds u (render_terms ts) f sign d Hdg Hu H1 H2 H3)|].
    rewrite IH; auto.
    + f_equal. rewrite offset_term_eq. rewrite wrap64_add_l.
      replace (d + wrap64 (1000000000 * (go_atoi ds * sign * get_unit_multiplier u)) + 1000000000 * (sign * terms_seconds ts))
        with (wrap64 (1000000000 * (go_atoi ds * sign * get_unit_multiplier u)) + (d + 1000000000 * (sign * terms_seconds ts))) by ring.
      rewrite wrap64_add_l. f_equal. cbn [terms_seconds]. ring.
    + unfold bytes, byte in *. rewrite !app_length in Hlen. destruct ds; [congruence|]. simpl in Hlen. lia.
    + apply wrap64_idem.
Qed.

Definition no_byte (c : N) (s : bytes) : Prop := forallb (fun x => negb (N.eqb x c)) s = true.

Lemma index_byte_none : forall c s, no_byte c s -> index_byte c s = None.
Proof.
  induction s as [|x s IH]; intros H; [reflexivity|]. unfold no_byte in *. simpl in *.
  apply andb_true_iff in H as [Hx Hs]. apply negb_true_iff in Hx. rewrite Hx, (IH Hs). reflexivity.
Qed.

Lemma index_byte_app : forall c a b, no_byte c a -> index_byte c (a ++ c :: b) = Some (length a).
Proof.
  induction a as [|x a IH]; intros b H; simpl.
  - rewrite N.eqb_refl. reflexivity.
  - unfold no_byte in *. simpl in H. apply andb_true_iff in H as [Hx Hs]. apply negb_true_iff in Hx.
    rewrite Hx, (IH b Hs). reflexivity.
Qed.

Lemma no_byte_app : forall c a b, no_byte c a -> no_byte c b -> no_byte c (a ++ b).
Proof. intros. unfold no_byte in *. rewrite forallb_app. apply andb_true_iff; split; assumption. Qed.

Lemma digits_no_byte : forall c ds, is_digit c = false -> forallb is_digit ds = true -> no_byte c ds.
Proof.
  intros c ds Hc. induction ds as [|x ds IH]; intros H; [reflexivity|]. unfold no_byte in *. simpl in *.
  apply andb_true_iff in H as [Hx Hs]. rewrite (IH Hs), andb_true_r. apply negb_true_iff.
  destruct (N.eqb_spec x c); [subst; congruence|reflexivity].
Qed.

Lemma render_terms_no_byte : forall c ts, is_digit c = false -> Forall term_ok ts ->
  Forall (fun t => no_byte c (snd t)) ts -> no_byte c (render_terms ts).
Proof.
  intros c ts Hc. induction ts as [|[ds u] ts IH]; intros Hok Hnb; [reflexivity|].
  inversion Hok as [|? ? (_ & Hd & _ & _) Hok']; subst. inversion Hnb; subst. simpl in *.
  change (render_terms ((ds, u) :: ts)) with ((ds ++ u) ++ render_terms ts).
  apply no_byte_app; [apply no_byte_app; [apply digits_no_byte; assumption|assumption]|apply IH; assumption].
Qed.

Lemma digits_only_false_with : forall a c b, is_digit c = false -> digits_only (a ++ c :: b) = false.
Proof.
  intros. unfold digits_only. destruct (a ++ c :: b) eqn:E; [reflexivity|]. rewrite <- E, forallb_app. simpl.
  rewrite H. simpl. apply andb_false_r.
Qed.

Definition sign_val (sg : N) : Z := if N.eqb sg 45 then -1 else 1.

(* the main lemma: the cleaned argument is  ref sign n1 u1 ... nk uk *)
Lemma attime_relative_lemma : forall now s ref sg ts,
  attime_clean s = ref ++ sg :: render_terms ts ->
  (sg = 43%N \/ sg = 45%N) ->
  no_byte 43 ref -> no_byte 45 ref ->
  Forall term_ok ts -> Forall (fun t => no_byte 43 (snd t)) ts ->
  attime_parse now s = Some (now + wrap64 (1000000000 * (sign_val sg * terms_seconds ts))).
Proof.
  intros now s ref sg ts Hc Hsg Hp Hm Hok Hnp. unfold attime_parse. rewrite Hc.
  rewrite digits_only_false_with by (destruct Hsg; subst; reflexivity).
  assert (Hoff : parse_time_offset (sg :: render_terms ts) = Some (wrap64 (1000000000 * (sign_val sg * terms_seconds ts)))).
  { unfold parse_time_offset, sign_val. destruct Hsg; subst; simpl N.eqb; cbv iota;
      rewrite offset_loop_terms by (auto; reflexivity); f_equal. }
  destruct Hsg; subst.
  - rewrite index_byte_app by assumption. rewrite skipn_app, skipn_all, Nat.sub_diag. simpl skipn. simpl app.
    rewrite Hoff. reflexivity.
  - rewrite index_byte_none.
    + rewrite index_byte_app by assumption. rewrite skipn_app, skipn_all, Nat.sub_diag. simpl skipn. simpl app.
      rewrite Hoff. reflexivity.
    + apply no_byte_app; [assumption|]. unfold no_byte. simpl. apply render_terms_no_byte; auto.
Qed.

(* ------------------------------------------------------------------------------------------------ *)
(* durations: leadingInt of both parsers *)

Definition dv_from (x : Z) (ds : bytes) : Z := fold_left (fun a c => a * 10 + digit_val c) ds x.

Lemma is_digit_val : forall c, is_digit c = true -> 0 <= digit_val c <= 9.
Proof. intros c H. unfold is_digit, digit_val in *. lia. Qed.

Lemma dv_from_ge : forall ds x, forallb is_digit ds = true -> 0 <= x -> x <= dv_from x ds.
Proof.
  induction ds as [|c ds IH]; intros x Hd Hx; simpl; [lia|].
  simpl in Hd. apply andb_true_iff in Hd as [Hc Hd]. pose proof (is_digit_val c Hc).
  specialize (IH (x * 10 + digit_val c) Hd). unfold dv_from in *. lia.
Qed.

Definition not_digit_head (s : bytes) : Prop := starts_with nondigit s.

Lemma pyro_leading_int_spec : forall ds tl x, forallb is_digit ds = true -> not_digit_head tl -> 0 <= x <= max_int64 ->
  pyro_leading_int (ds ++ tl) x = if dv_from x ds <=? max_int64 then Some (dv_from x ds, tl) else None.
Proof.
  induction ds as [|c ds IH]; intros tl x Hd Ht Hx.
  - simpl. replace (x <=? max_int64) with true by lia.
    destruct tl as [|c tl']; [reflexivity|]. simpl in *. unfold nondigit in Ht. apply negb_true_iff in Ht. rewrite Ht. reflexivity.
  - simpl in Hd. apply andb_true_iff in Hd as [Hc Hd]. pose proof (is_digit_val c Hc) as Hv.
    cbn [app pyro_leading_int]. rewrite Hc.
    change (dv_from x (c :: ds)) with (dv_from (x * 10 + digit_val c) ds).
    pose proof (dv_from_ge ds (x * 10 + digit_val c) Hd ltac:(lia)) as Hge.
    unfold max_int64 in *. change (9223372036854775807 / 10) with 922337203685477580.
    destruct (922337203685477580 <? x) eqn:E1.
    + replace (dv_from (x * 10 + digit_val c) ds <=? 9223372036854775807) with false by lia. reflexivity.
    + replace (x * 10 + Z.of_N c - 48) with (x * 10 + digit_val c) by (unfold digit_val; ring).
      destruct (Z_le_gt_dec (x * 10 + digit_val c) 9223372036854775807) as [Hle|Hgt].
      * rewrite wrap64_id by (unfold two63; lia). replace (x * 10 + digit_val c <? 0) with false by lia.
        apply IH; auto. lia.
      * assert (Hneg : wrap64 (x * 10 + digit_val c) <? 0 = true).
        { unfold wrap64, two63, two64.
          replace (x * 10 + digit_val c + 9223372036854775808) with ((x * 10 + digit_val c - 9223372036854775808) + 1 * 18446744073709551616) by ring.
          rewrite Z_mod_plus_full, Z.mod_small by lia. lia. }
        rewrite Hneg. replace (dv_from (x * 10 + digit_val c) ds <=? 9223372036854775807) with false by lia. reflexivity.
Qed.

Lemma std_leading_int_spec : forall ds tl x, forallb is_digit ds = true -> not_digit_head tl -> 0 <= x <= two63 ->
  std_leading_int (ds ++ tl) x = if dv_from x ds <=? two63 then Some (dv_from x ds, tl) else None.
Proof.
  induction ds as [|c ds IH]; intros tl x Hd Ht Hx.
  - simpl. replace (x <=? two63) with true by lia.
    destruct tl as [|c tl']; [reflexivity|]. simpl in *. unfold nondigit in Ht. apply negb_true_iff in Ht. rewrite Ht. reflexivity.
  - simpl in Hd. apply andb_true_iff in Hd as [Hc Hd]. pose proof (is_digit_val c Hc) as Hv.
    cbn [app std_leading_int]. rewrite Hc.
    change (dv_from x (c :: ds)) with (dv_from (x * 10 + digit_val c) ds).
    pose proof (dv_from_ge ds (x * 10 + digit_val c) Hd ltac:(lia)) as Hge.
    unfold two63 in *. change (9223372036854775808 / 10) with 922337203685477580.
    destruct (922337203685477580 <? x) eqn:E1.
    + replace (dv_from (x * 10 + digit_val c) ds <=? 9223372036854775808) with false by lia. reflexivity.
    + replace (x * 10 + Z.of_N c - 48) with (x * 10 + digit_val c) by (unfold digit_val; ring).
      unfold wrapu64, two64. rewrite Z.mod_small by lia.
      destruct (9223372036854775808 <? x * 10 + digit_val c) eqn:E2.
      * replace (dv_from (x * 10 + digit_val c) ds <=? 9223372036854775808) with false by lia. reflexivity.
      * apply IH; auto. lia.
Qed.
