(* TimeParseProofs.v — lemmas about Model/TimeParse.v (attime, durations, sizes). *)
From Pyro Require Import Model.Base Model.TimeParse.
From Coq Require Import ZifyBool ZifyNat ZifyN.
Local Open Scope Z_scope.

(* ------------------------------------------------------------------------------------------------ *)
(* int64 wrap *)

Lemma wrap64_id : forall x, - two63 <= x < two63 -> wrap64 x = x.
Proof.
  intros x H. unfold wrap64. rewrite Z.mod_small; unfold two63, two64 in *; lia.
Qed.

Lemma wrap64_range : forall x, - two63 <= wrap64 x < two63.
Proof.
  intros x. unfold wrap64. pose proof (Z.mod_pos_bound (x + two63) two64 eq_refl). unfold two63, two64 in *. lia.
Qed.

Lemma wrap64_shift : forall a k, wrap64 (a + k * two64) = wrap64 a.
Proof.
  intros. unfold wrap64. replace (a + k * two64 + two63) with (a + two63 + k * two64) by ring.
  rewrite Z_mod_plus_full. reflexivity.
Qed.

Lemma wrap64_decomp : forall a, exists k, wrap64 a = a + k * two64.
Proof.
  intros a. unfold wrap64. exists (- ((a + two63) / two64)).
  pose proof (Z_div_mod_eq_full (a + two63) two64). lia.
Qed.

Lemma wrap64_add_l : forall a b, wrap64 (wrap64 a + b) = wrap64 (a + b).
Proof.
  intros a b. destruct (wrap64_decomp a) as [k ->].
  replace (a + k * two64 + b) with (a + b + k * two64) by ring. apply wrap64_shift.
Qed.

Lemma wrap64_add_r : forall a b, wrap64 (a + wrap64 b) = wrap64 (a + b).
Proof. intros. rewrite Z.add_comm, wrap64_add_l. f_equal. ring. Qed.

Lemma wrap64_mul_l : forall a b, wrap64 (wrap64 a * b) = wrap64 (a * b).
Proof.
  intros a b. destruct (wrap64_decomp a) as [k ->].
  replace ((a + k * two64) * b) with (a * b + (k * b) * two64) by ring. apply wrap64_shift.
Qed.

Lemma wrap64_mul_r : forall a b, wrap64 (a * wrap64 b) = wrap64 (a * b).
Proof. intros. rewrite Z.mul_comm, wrap64_mul_l. f_equal. ring. Qed.

Lemma wrap64_idem : forall a, wrap64 (wrap64 a) = wrap64 a.
Proof. intros. apply wrap64_id, wrap64_range. Qed.

Lemma offset_term_eq : forall sign num u,
  offset_term sign num u = wrap64 (1000000000 * (num * sign * get_unit_multiplier u)).
Proof.
  intros. unfold offset_term. rewrite !wrap64_mul_r.
  replace (1000000000 * (wrap64 (num * sign) * get_unit_multiplier u))
    with (wrap64 (num * sign) * (get_unit_multiplier u * 1000000000)) by ring.
  rewrite wrap64_mul_l. f_equal. ring.
Qed.

(* ------------------------------------------------------------------------------------------------ *)
(* span *)

Definition starts_with (p : N -> bool) (s : bytes) : Prop := match s with [] => True | c :: _ => p c = true end.

Lemma span_app : forall (p : N -> bool) a b,
  forallb p a = true -> starts_with (fun c => negb (p c)) b -> span p (a ++ b) = (a, b).
Proof.
  induction a as [|x a IH]; intros b Ha Hb; simpl in *.
  - destruct b as [|c b']; simpl in *; [reflexivity|]. destruct (p c); simpl in *; [discriminate|reflexivity].
  - apply andb_true_iff in Ha as [Hx Ha]. rewrite Hx, (IH b Ha Hb). reflexivity.
Qed.

Lemma span_spec : forall (p : N -> bool) s a b,
  span p s = (a, b) -> s = a ++ b /\ forallb p a = true /\ starts_with (fun c => negb (p c)) b.
Proof.
  induction s as [|c s IH]; intros a b H; simpl in H.
  - inversion H; subst. simpl. auto.
  - destruct (p c) eqn:Hc.
    + destruct (span p s) as [a' b'] eqn:E. inversion H; subst.
      destruct (IH a' b eq_refl) as (-> & Hf & Hs). simpl. rewrite Hc. auto.
    + inversion H; subst. simpl. rewrite Hc. auto.
Qed.

(* ------------------------------------------------------------------------------------------------ *)
(* the index loops of parseTimeOffset *)

Definition nondigit (c : N) : bool := negb (is_digit c).

Lemma forallb_firstn : forall {A} (p : A -> bool) n l, forallb p l = true -> forallb p (firstn n l) = true.
Proof.
  induction n as [|n IH]; intros l H; [reflexivity|]. destruct l as [|x l]; [reflexivity|].
  simpl in *. apply andb_true_iff in H as [Hx Hl]. rewrite Hx, (IH l Hl). reflexivity.
Qed.

Lemma forallb_skipn : forall {A} (p : A -> bool) n l, forallb p l = true -> forallb p (skipn n l) = true.
Proof.
  induction n as [|n IH]; intros l H; [exact H|]. destruct l as [|x l]; [reflexivity|].
  simpl in *. apply andb_true_iff in H as [Hx Hl]. apply IH, Hl.
Qed.

Lemma digits_only_firstn : forall ds rest i,
  forallb is_digit ds = true -> (1 <= i <= length ds)%nat -> digits_only (firstn i (ds ++ rest)) = true.
Proof.
  intros ds rest i Hd Hi. rewrite firstn_app. replace (i - length ds)%nat with O by lia. simpl. rewrite app_nil_r.
  pose proof (forallb_firstn is_digit i ds Hd) as H.
  destruct ds as [|c ds]; [simpl in Hi; lia|]. destruct i as [|i]; [lia|]. simpl in *. exact H.
Qed.

(* scan_num on ds ++ tl where ds are digits and tl is empty or starts with a non-digit *)
Lemma scan_num_spec : forall ds tl, forallb is_digit ds = true -> starts_with nondigit tl ->
  forall fuel i, (1 <= i <= S (length ds))%nat -> (S (length ds) - i < fuel)%nat ->
  scan_num fuel (ds ++ tl) i = S (length ds).
Proof.
  intros ds tl Hd Ht. induction fuel as [|f IH]; intros i Hi Hf; [lia|]. cbn [scan_num]. unfold bytes, byte in *.
  destruct (Nat.eq_dec i (S (length ds))) as [->|Hne].
  - destruct tl as [|c tl'].
    + rewrite app_nil_r. assert (E : (S (length ds) <=? length ds)%nat = false) by (apply Nat.leb_gt; lia).
      rewrite E. reflexivity.
    + replace (firstn (S (length ds)) (ds ++ c :: tl')) with (ds ++ [c]).
      * assert (Hx : digits_only (ds ++ [c]) = false).
        { unfold digits_only. destruct (ds ++ [c]) eqn:E; [reflexivity|]. rewrite <- E, forallb_app. simpl.
          simpl in Ht. unfold nondigit in Ht. apply negb_true_iff in Ht. rewrite Ht. rewrite andb_false_r. reflexivity. }
        rewrite Hx, andb_false_r. reflexivity.
      * rewrite firstn_app, firstn_all2 by lia. replace (S (length ds) - length ds)%nat with 1%nat by lia. reflexivity.
  - rewrite (digits_only_firstn ds tl i Hd) by lia. rewrite app_length.
    replace (i <=? length ds + length tl)%nat with true by (symmetry; apply Nat.leb_le; lia). simpl.
    apply IH; lia.
Qed.

Lemma scan_unit_spec : forall u tl, forallb nondigit u = true -> starts_with is_digit tl ->
  forall fuel i, (1 <= i <= S (length u))%nat -> (S (length u) - i < fuel)%nat ->
  scan_unit fuel (u ++ tl) i = S (length u).
Proof.
  intros u tl Hu Ht. induction fuel as [|f IH]; intros i Hi Hf; [lia|]. cbn [scan_unit]. unfold bytes, byte in *.
  destruct (Nat.eq_dec i (S (length u))) as [->|Hne].
  - replace (S (length u) - 1)%nat with (length u) by lia.
    destruct tl as [|c tl'].
    + rewrite app_nil_r. assert (E : (S (length u) <=? length u)%nat = false) by (apply Nat.leb_gt; lia).
      rewrite E. reflexivity.
    + rewrite skipn_app, skipn_all, Nat.sub_diag. cbn [skipn app firstn]. simpl in Ht.
      unfold digits_only. cbn [forallb]. rewrite Ht. cbn [andb negb]. rewrite andb_false_r. reflexivity.
  - rewrite app_length. replace (i <=? length u + length tl)%nat with true by (symmetry; apply Nat.leb_le; lia).
    rewrite skipn_app. replace (i - 1 - length u)%nat with O by lia. simpl skipn at 2.
    pose proof (forallb_skipn nondigit (i - 1) u Hu) as Hs.
    assert (Hlen : (length (skipn (i - 1) u) = length u - (i - 1))%nat) by apply skipn_length.
    destruct (skipn (i - 1) u) as [|c r] eqn:E; [simpl in Hlen; lia|].
    simpl in Hs. apply andb_true_iff in Hs as [Hc _]. unfold nondigit in Hc. apply negb_true_iff in Hc.
    simpl. rewrite Hc. simpl. apply IH; lia.
Qed.

Lemma go_sub_prefix : forall a b, go_sub (a ++ b) 0 (length a) = Some a.
Proof.
  intros. unfold go_sub. rewrite app_length. simpl.
  replace (length a <=? length a + length b)%nat with true by (symmetry; apply Nat.leb_le; lia).
  rewrite Nat.sub_0_r, firstn_app, firstn_all, Nat.sub_diag. simpl. rewrite app_nil_r. reflexivity.
Qed.

Lemma go_sub_suffix : forall a b, go_sub (a ++ b) (length a) (length (a ++ b)) = Some b.
Proof.
  intros. unfold go_sub. rewrite app_length.
  replace (length a <=? length a + length b)%nat with true by (symmetry; apply Nat.leb_le; lia).
  rewrite Nat.leb_refl. simpl. rewrite skipn_app, skipn_all, Nat.sub_diag. simpl.
  replace (length a + length b - length a)%nat with (length b) by lia. rewrite firstn_all. reflexivity.
Qed.

(* one iteration of the loop on  ds ++ u ++ rest *)
Lemma offset_loop_step : forall ds u rest fuel sign d,
  forallb is_digit ds = true -> forallb nondigit u = true ->
  (u = [] -> rest = []) -> starts_with is_digit rest -> ds ++ u <> [] ->
  offset_loop (S fuel) sign (ds ++ u ++ rest) d =
  offset_loop fuel sign rest (wrap64 (d + offset_term sign (go_atoi ds) u)).
Proof.
  intros ds u rest fuel sign d Hd Hu Hur Hr Hne.
  assert (Htl : starts_with nondigit (u ++ rest)).
  { destruct u as [|c u']; [rewrite (Hur eq_refl); exact I|]. simpl in *. apply andb_true_iff in Hu as [Hc _]. exact Hc. }
  remember (ds ++ u ++ rest) as off eqn:Eoff.
  assert (Hnil : off <> []).
  { subst off. intro E. apply Hne. destruct ds; [|discriminate]. destruct u; [reflexivity|discriminate]. }
  destruct off as [|c0 off0]; [congruence|]. rewrite Eoff. cbn [offset_loop].
  rewrite <- Eoff at 1. 
  rewrite (scan_num_spec ds (u ++ rest) Hd Htl) by (rewrite ?app_length; simpl; lia).
  replace (S (length ds) - 1)%nat with (length ds) by lia.
  rewrite go_sub_prefix, go_sub_suffix.
  rewrite (scan_unit_spec u rest Hu Hr) by (rewrite ?app_length; simpl; lia).
  replace (S (length u) - 1)%nat with (length u) by lia.
  rewrite go_sub_prefix, go_sub_suffix. reflexivity.
Qed.

(* every non-empty offset string decomposes as digits ++ unit ++ rest *)
Lemma offset_decompose : forall off, off <> [] ->
  exists ds u rest, off = ds ++ u ++ rest /\ forallb is_digit ds = true /\ forallb nondigit u = true /\
    (u = [] -> rest = []) /\ starts_with is_digit rest /\ ds ++ u <> [].
Proof.
  intros off Hne.
  destruct (span is_digit off) as [ds r1] eqn:E1. destruct (span nondigit r1) as [u rest] eqn:E2.
  destruct (span_spec _ _ _ _ E1) as (-> & Hd & Hs1). destruct (span_spec _ _ _ _ E2) as (-> & Hu & Hs2).
  exists ds, u, rest. repeat split; auto.
  - intros ->. simpl in *. destruct rest as [|c r]; [reflexivity|]. simpl in *.
    unfold nondigit in *. destruct (is_digit c); simpl in *; discriminate.
  - destruct rest as [|c r]; [exact I|]. simpl in *. unfold nondigit in Hs2. apply negb_true_iff in Hs2.
    apply negb_false_iff in Hs2. exact Hs2.
  - intro E. apply app_eq_nil in E as [-> ->]. simpl in *.
    destruct rest as [|c r]; [congruence|]. simpl in *. unfold nondigit in *. destruct (is_digit c); simpl in *; discriminate.
Qed.

Lemma offset_loop_total : forall fuel sign off d, (length off <= fuel)%nat ->
  exists r, offset_loop fuel sign off d = Some r.
Proof.
  induction fuel as [|f IH]; intros sign off d Hlen.
  - destruct off; [eexists; reflexivity|simpl in Hlen; lia].
  - destruct off as [|c off'] eqn:Eo; [eexists; reflexivity|]. rewrite <- Eo in *.
    destruct (offset_decompose off) as (ds & u & rest & E & Hd & Hu & Hur & Hr & Hne); [congruence|].
    rewrite E. rewrite offset_loop_step by assumption. apply IH.
    assert (length (ds ++ u) <> 0)%nat by (destruct (ds ++ u); [congruence|simpl; lia]).
    rewrite E in Hlen. unfold bytes, byte in *. rewrite app_assoc, app_length in Hlen. lia.
Qed.

Lemma parse_time_offset_total : forall off, exists d, parse_time_offset off = Some d.
Proof.
  intros [|c off]; [eexists; reflexivity|]. unfold parse_time_offset.
  destruct (N.eqb c 45); [apply offset_loop_total; lia|].
  destruct (N.eqb c 43); apply offset_loop_total; lia.
Qed.

Lemma attime_total_lemma : forall now s, exists t, attime_parse now s = Some t.
Proof.
  intros now s. unfold attime_parse. destruct (digits_only (attime_clean s)).
  - destruct (yyyymmdd (attime_clean s)); eexists; reflexivity.
  - match goal with |- context [parse_time_offset ?o] => destruct (parse_time_offset_total o) as [d ->] end.
    eexists; reflexivity.
Qed.

(* ------------------------------------------------------------------------------------------------ *)
(* relative expressions of any number of terms *)

Definition term_ok (t : bytes * bytes) : Prop :=
  fst t <> [] /\ forallb is_digit (fst t) = true /\ snd t <> [] /\ forallb nondigit (snd t) = true.

Definition render_terms (ts : list (bytes * bytes)) : bytes := concat (map (fun t => fst t ++ snd t) ts).

Fixpoint terms_seconds (ts : list (bytes * bytes)) : Z :=
  match ts with
  | [] => 0
  | (ds, u) :: ts' => go_atoi ds * get_unit_multiplier u + terms_seconds ts'
  end.

Lemma render_terms_starts : forall ts, Forall term_ok ts -> starts_with is_digit (render_terms ts).
Proof.
  intros [|[ds u] ts] H; [exact I|]. inversion H as [|? ? (Hne & Hd & _) _]; subst. simpl in *.
  unfold render_terms. simpl. destruct ds as [|c ds']; [congruence|]. simpl in *.
  apply andb_true_iff in Hd as [Hc _]. exact Hc.
Qed.

Lemma offset_loop_terms : forall ts fuel sign d, Forall term_ok ts -> (length (render_terms ts) <= fuel)%nat ->
  wrap64 d = d ->
  offset_loop fuel sign (render_terms ts) d = Some (wrap64 (d + 1000000000 * (sign * terms_seconds ts))).
Proof.
  induction ts as [|[ds u] ts IH]; intros fuel sign d Hok Hlen Hd.
  - cbn [render_terms map concat terms_seconds]. replace (d + 1000000000 * (sign * 0)) with d by ring. rewrite Hd.
    destruct fuel; reflexivity.
  - inversion Hok as [|? ? (Hne & Hdg & Hune & Hu) Hok']; subst. simpl in Hne, Hdg, Hune, Hu.
    change (render_terms ((ds, u) :: ts)) with ((ds ++ u) ++ render_terms ts) in *.
    rewrite <- app_assoc in *.
    destruct fuel as [|f].
    { destruct ds; [congruence|]. simpl in Hlen. lia. }
    assert (H1 : u = [] -> render_terms ts = []) by (intros ->; congruence).
    assert (H2 : starts_with is_digit (render_terms ts)) by (apply render_terms_starts; assumption).
    assert (H3 : ds ++ u <> []) by (destruct ds; [congruence|discriminate]).
    etransitivity; [exact (offset_loop_step ds u (render_terms ts) f sign d Hdg Hu H1 H2 H3)|].
    rewrite IH; auto.
    + f_equal. rewrite offset_term_eq. rewrite wrap64_add_l.
      replace (d + wrap64 (1000000000 * (go_atoi ds * sign * get_unit_multiplier u)) + 1000000000 * (sign * terms_seconds ts))
        with (wrap64 (1000000000 * (go_atoi ds * sign * get_unit_multiplier u)) + (d + 1000000000 * (sign * terms_seconds ts))) by ring.
      rewrite wrap64_add_l. f_equal. cbn [terms_seconds]. ring.
    + unfold bytes, byte in *. rewrite !app_length in Hlen. destruct ds; [congruence|]. simpl in Hlen. lia.
    + apply wrap64_idem.
Qed.

Definition no_byte (c : N) (s : bytes) : Prop := forallb (fun x => negb (N.eqb x c)) s = true.

Lemma index_byte_none : forall c s, no_byte c s -> index_byte c s = None.
Proof.
  induction s as [|x s IH]; intros H; [reflexivity|]. unfold no_byte in *. simpl in *.
  apply andb_true_iff in H as [Hx Hs]. apply negb_true_iff in Hx. rewrite Hx, (IH Hs). reflexivity.
Qed.

Lemma index_byte_app : forall c a b, no_byte c a -> index_byte c (a ++ c :: b) = Some (length a).
Proof.
  induction a as [|x a IH]; intros b H; simpl.
  - rewrite N.eqb_refl. reflexivity.
  - unfold no_byte in *. simpl in H. apply andb_true_iff in H as [Hx Hs]. apply negb_true_iff in Hx.
    rewrite Hx, (IH b Hs). reflexivity.
Qed.

Lemma no_byte_app : forall c a b, no_byte c a -> no_byte c b -> no_byte c (a ++ b).
Proof. intros. unfold no_byte in *. rewrite forallb_app. apply andb_true_iff; split; assumption. Qed.

Lemma digits_no_byte : forall c ds, is_digit c = false -> forallb is_digit ds = true -> no_byte c ds.
Proof.
  intros c ds Hc. induction ds as [|x ds IH]; intros H; [reflexivity|]. unfold no_byte in *. simpl in *.
  apply andb_true_iff in H as [Hx Hs]. rewrite (IH Hs), andb_true_r. apply negb_true_iff.
  destruct (N.eqb_spec x c); [subst; congruence|reflexivity].
Qed.

Lemma render_terms_no_byte : forall c ts, is_digit c = false -> Forall term_ok ts ->
  Forall (fun t => no_byte c (snd t)) ts -> no_byte c (render_terms ts).
Proof.
  intros c ts Hc. induction ts as [|[ds u] ts IH]; intros Hok Hnb; [reflexivity|].
  inversion Hok as [|? ? (_ & Hd & _ & _) Hok']; subst. inversion Hnb; subst. simpl in *.
  change (render_terms ((ds, u) :: ts)) with ((ds ++ u) ++ render_terms ts).
  apply no_byte_app; [apply no_byte_app; [apply digits_no_byte; assumption|assumption]|apply IH; assumption].
Qed.

Lemma digits_only_false_with : forall a c b, is_digit c = false -> digits_only (a ++ c :: b) = false.
Proof.
  intros. unfold digits_only. destruct (a ++ c :: b) eqn:E; [reflexivity|]. rewrite <- E, forallb_app. simpl.
  rewrite H. simpl. apply andb_false_r.
Qed.

Definition sign_val (sg : N) : Z := if N.eqb sg 45 then -1 else 1.

(* the main lemma: the cleaned argument is  ref sign n1 u1 ... nk uk *)
Lemma attime_relative_lemma : forall now s ref sg ts,
  attime_clean s = ref ++ sg :: render_terms ts ->
  (sg = 43%N \/ sg = 45%N) ->
  no_byte 43 ref -> no_byte 45 ref ->
  Forall term_ok ts -> Forall (fun t => no_byte 43 (snd t)) ts ->
  attime_parse now s = Some (now + wrap64 (1000000000 * (sign_val sg * terms_seconds ts))).
Proof.
  intros now s ref sg ts Hc Hsg Hp Hm Hok Hnp. unfold attime_parse. rewrite Hc.
  rewrite digits_only_false_with by (destruct Hsg; subst; reflexivity).
  assert (Hoff : parse_time_offset (sg :: render_terms ts) = Some (wrap64 (1000000000 * (sign_val sg * terms_seconds ts)))).
  { unfold parse_time_offset, sign_val. destruct Hsg; subst; simpl N.eqb; cbv iota;
      rewrite offset_loop_terms by (auto; reflexivity); f_equal. }
  destruct Hsg; subst.
  - rewrite index_byte_app by assumption. rewrite skipn_app, skipn_all, Nat.sub_diag. simpl skipn. simpl app.
    rewrite Hoff. reflexivity.
  - rewrite index_byte_none.
    + rewrite index_byte_app by assumption. rewrite skipn_app, skipn_all, Nat.sub_diag. simpl skipn. simpl app.
      rewrite Hoff. reflexivity.
    + apply no_byte_app; [assumption|]. unfold no_byte. simpl. apply render_terms_no_byte; auto.
Qed.

(* ------------------------------------------------------------------------------------------------ *)
(* durations: leadingInt of both parsers *)

Definition dv_from (x : Z) (ds : bytes) : Z := fold_left (fun a c => a * 10 + digit_val c) ds x.

Lemma is_digit_val : forall c, is_digit c = true -> 0 <= digit_val c <= 9.
Proof. intros c H. unfold is_digit, digit_val in *. lia. Qed.

Lemma dv_from_ge : forall ds x, forallb is_digit ds = true -> 0 <= x -> x <= dv_from x ds.
Proof.
  induction ds as [|c ds IH]; intros x Hd Hx; simpl; [lia|].
  simpl in Hd. apply andb_true_iff in Hd as [Hc Hd]. pose proof (is_digit_val c Hc).
  specialize (IH (x * 10 + digit_val c) Hd). unfold dv_from in *. lia.
Qed.

Definition not_digit_head (s : bytes) : Prop := starts_with nondigit s.

Lemma pyro_leading_int_spec : forall ds tl x, forallb is_digit ds = true -> not_digit_head tl -> 0 <= x <= max_int64 ->
  pyro_leading_int (ds ++ tl) x = if dv_from x ds <=? max_int64 then Some (dv_from x ds, tl) else None.
Proof.
  induction ds as [|c ds IH]; intros tl x Hd Ht Hx.
  - simpl. replace (x <=? max_int64) with true by lia.
    destruct tl as [|c tl']; [reflexivity|]. simpl in *. unfold nondigit in Ht. apply negb_true_iff in Ht. rewrite Ht. reflexivity.
  - simpl in Hd. apply andb_true_iff in Hd as [Hc Hd]. pose proof (is_digit_val c Hc) as Hv.
    cbn [app pyro_leading_int]. rewrite Hc.
    change (dv_from x (c :: ds)) with (dv_from (x * 10 + digit_val c) ds).
    pose proof (dv_from_ge ds (x * 10 + digit_val c) Hd ltac:(lia)) as Hge.
    unfold max_int64 in *. change (9223372036854775807 / 10) with 922337203685477580.
    destruct (922337203685477580 <? x) eqn:E1.
    + replace (dv_from (x * 10 + digit_val c) ds <=? 9223372036854775807) with false by lia. reflexivity.
    + replace (x * 10 + Z.of_N c - 48) with (x * 10 + digit_val c) by (unfold digit_val; ring).
      destruct (Z_le_gt_dec (x * 10 + digit_val c) 9223372036854775807) as [Hle|Hgt].
      * rewrite wrap64_id by (unfold two63; lia). replace (x * 10 + digit_val c <? 0) with false by lia.
        apply IH; auto. lia.
      * assert (Hneg : wrap64 (x * 10 + digit_val c) <? 0 = true).
        { unfold wrap64, two63, two64.
          replace (x * 10 + digit_val c + 9223372036854775808) with ((x * 10 + digit_val c - 9223372036854775808) + 1 * 18446744073709551616) by ring.
          rewrite Z_mod_plus_full, Z.mod_small by lia. lia. }
        rewrite Hneg. replace (dv_from (x * 10 + digit_val c) ds <=? 9223372036854775807) with false by lia. reflexivity.
Qed.

Lemma std_leading_int_spec : forall B ds tl x, 0 <= B <= two63 ->
  forallb is_digit ds = true -> not_digit_head tl -> 0 <= x <= B ->
  std_leading_int_b B (ds ++ tl) x = if dv_from x ds <=? B then Some (dv_from x ds, tl) else None.
Proof.
  intros B. induction ds as [|c ds IH]; intros tl x HB Hd Ht Hx.
  - simpl. replace (x <=? B) with true by lia.
    destruct tl as [|c tl']; [reflexivity|]. simpl in *. unfold nondigit in Ht. apply negb_true_iff in Ht. rewrite Ht. reflexivity.
  - simpl in Hd. apply andb_true_iff in Hd as [Hc Hd]. pose proof (is_digit_val c Hc) as Hv.
    cbn [app std_leading_int_b]. rewrite Hc.
    change (dv_from x (c :: ds)) with (dv_from (x * 10 + digit_val c) ds).
    pose proof (dv_from_ge ds (x * 10 + digit_val c) Hd ltac:(lia)) as Hge.
    unfold two63 in *.
    destruct (B / 10 <? x) eqn:E1.
    + assert (B < x * 10) by (apply Z.ltb_lt in E1; pose proof (Z.mul_succ_div_gt B 10 ltac:(lia)); lia).
      replace (dv_from (x * 10 + digit_val c) ds <=? B) with false by lia. reflexivity.
    + replace (x * 10 + Z.of_N c - 48) with (x * 10 + digit_val c) by (unfold digit_val; ring).
      assert (x * 10 <= B) by (apply Z.ltb_ge in E1; pose proof (Z.mul_div_le B 10 ltac:(lia)); lia).
      unfold wrapu64, two64. rewrite Z.mod_small by lia.
      destruct (B <? x * 10 + digit_val c) eqn:E2.
      * replace (dv_from (x * 10 + digit_val c) ds <=? B) with false by lia. reflexivity.
      * apply IH; auto. lia.
Qed.

(* ------------------------------------------------------------------------------------------------ *)
(* durations without a fraction: both loops are instances of one loop with a bound and a unit table *)

Definition unit_char (c : N) : bool := negb (is_dot_or_digit c).

Fixpoint gen_loop (B : Z) (uf : bytes -> option Z) (fuel : nat) (s : bytes) (d : Z) : pres Z :=
  match s with
  | [] => POk d
  | c0 :: _ =>
    match fuel with
    | O => PErr
    | S fu =>
      if negb (is_digit c0) then PErr else
      let (ds, tl) := span is_digit s in
      let v := digits_val ds in
      if B <? v then PErr else
      let (u, rest) := span unit_char tl in
      match u with
      | [] => PErr
      | _ :: _ =>
        match uf u with
        | None => PErr
        | Some unit =>
          if B <? v * unit then PErr
          else if B <? d + v * unit then PErr
          else gen_loop B uf fu rest (d + v * unit)
        end
      end
    end
  end.

Definition no_dot (s : bytes) : Prop := no_byte 46 s.

Lemma no_byte_app_inv : forall c a b, no_byte c (a ++ b) -> no_byte c a /\ no_byte c b.
Proof. intros c a b H. unfold no_byte in *. rewrite forallb_app in H. apply andb_true_iff in H. exact H. Qed.

Lemma div_ltb_mul : forall B unit v, 0 <= B -> 1 <= unit -> 0 <= v -> (B / unit <? v) = (B <? v * unit).
Proof.
  intros B unit v HB Hu Hv. destruct (B <? v * unit) eqn:E.
  - apply Z.ltb_lt. apply Z.div_lt_upper_bound; lia.
  - apply Z.ltb_ge. apply Z.div_le_lower_bound; lia.
Qed.

Lemma std_unit_pos : forall u x, std_unit u = Some x -> 1 <= x.
Proof.
  intros u x H. unfold std_unit in H.
  repeat match type of H with (if ?b then _ else _) = _ => destruct b end; inversion H; subst; vm_compute; discriminate.
Qed.

Lemma pyro_unit_pos : forall u x, pyro_unit u = Some x -> 1 <= x.
Proof.
  intros u x H. unfold pyro_unit in H. destruct (std_unit u) eqn:E.
  - inversion H; subst. eapply std_unit_pos; eauto.
  - repeat match type of H with (if ?b then _ else _) = _ => destruct b end; inversion H; subst; vm_compute; discriminate.
Qed.

Lemma span_digits_cons : forall c s, is_digit c = true -> exists ds tl, span is_digit (c :: s) = (c :: ds, tl) /\
  c :: s = (c :: ds) ++ tl /\ forallb is_digit (c :: ds) = true /\ not_digit_head tl.
Proof.
  intros c s Hc. destruct (span is_digit s) as [ds tl] eqn:E.
  destruct (span_spec _ _ _ _ E) as (Hs & Hd & Ht). exists ds, tl. repeat split.
  - simpl. rewrite Hc, E. reflexivity.
  - rewrite Hs. reflexivity.
  - simpl. rewrite Hc, Hd. reflexivity.
  - exact Ht.
Qed.

Lemma wrap64_big_neg : forall x, max_int64 < x < two64 -> wrap64 x <? 0 = true.
Proof.
  intros x H. unfold wrap64, two63, two64, max_int64 in *.
  replace (x + 9223372036854775808) with ((x - 9223372036854775808) + 1 * 18446744073709551616) by ring.
  rewrite Z_mod_plus_full, Z.mod_small by lia. lia.
Qed.

Lemma no_dot_head : forall c s, no_dot (c :: s) -> N.eqb c 46 = false.
Proof. intros c s H. unfold no_dot, no_byte in H. simpl in H. apply andb_true_iff in H as [H _]. apply negb_true_iff in H. exact H. Qed.

Lemma pyro_loop_gen : forall fuel s d, no_dot s -> 0 <= d <= max_int64 ->
  pyro_loop fuel s d = gen_loop max_int64 pyro_unit fuel s d.
Proof.
  induction fuel as [|fu IH]; intros s d Hnd Hd.
  - destruct s; reflexivity.
  - destruct s as [|c0 s']; [reflexivity|].
    cbn [pyro_loop gen_loop]. unfold bytes, byte in *.
    assert (Hc0 : is_dot_or_digit c0 = is_digit c0).
    { unfold is_dot_or_digit. rewrite (no_dot_head _ _ Hnd). reflexivity. }
    rewrite Hc0. destruct (is_digit c0) eqn:Hdig; [|reflexivity]. cbn [negb].
    destruct (span_digits_cons c0 s' Hdig) as (ds & tl & Hspan & Hs & Hds & Htl).
    rewrite Hspan, Hs.
    rewrite (pyro_leading_int_spec (c0 :: ds) tl 0 Hds Htl) by (unfold max_int64; lia).
    change (dv_from 0 (c0 :: ds)) with (digits_val (c0 :: ds)).
    set (v := digits_val (c0 :: ds)).
    assert (Hv0 : 0 <= v) by (apply (dv_from_ge (c0 :: ds) 0 Hds); lia).
    rewrite Hs in Hnd. apply no_byte_app_inv in Hnd as [_ Hndtl].
    destruct (Z.leb_spec v max_int64) as [Hvle|Hvgt].
    2:{ replace (max_int64 <? v) with true by lia. reflexivity. }
    replace (max_int64 <? v) with false by lia.
    assert (Hpre : (length ((c0 :: ds) ++ tl) =? length tl)%nat = false).
    { apply Nat.eqb_neq. rewrite app_length. simpl. lia. }
    rewrite Hpre. cbn [negb andb].
    destruct tl as [|c1 tl']; [reflexivity|]. rewrite (no_dot_head _ _ Hndtl).
    set (tl := c1 :: tl') in *.
    change (fun c : N => negb (is_dot_or_digit c)) with unit_char.
    destruct (span unit_char tl) as [u rest] eqn:Eu.
    destruct (span_spec _ _ _ _ Eu) as (Htl' & _ & _).
    destruct u as [|cu u']; [reflexivity|].
    destruct (pyro_unit (cu :: u')) as [unit|] eqn:Eunit; [|reflexivity].
    pose proof (pyro_unit_pos _ _ Eunit) as Hup.
    rewrite (div_ltb_mul max_int64 unit v) by (unfold max_int64; lia).
    destruct (Z.ltb_spec max_int64 (v * unit)) as [Hov|Hok]; [reflexivity|].
    assert (Hvu : 0 <= v * unit) by nia.
    rewrite (wrap64_id (v * unit)) by (unfold two63, max_int64 in *; lia).
    change (0 <? 0) with false. cbv iota.
    destruct (Z.ltb_spec max_int64 (d + v * unit)) as [Hov2|Hok2].
    + rewrite wrap64_big_neg by (unfold two64, max_int64 in *; lia). reflexivity.
    + rewrite (wrap64_id (d + v * unit)) by (unfold two63, max_int64 in *; lia).
      replace (d + v * unit <? 0) with false by lia.
      apply IH; [|lia]. rewrite Htl' in Hndtl. apply no_byte_app_inv in Hndtl as [_ H]. exact H.
Qed.

Lemma std_loop_gen : forall fuel s d, no_dot s -> 0 <= d <= max_int64 ->
  std_loop_b max_int64 fuel s d = gen_loop max_int64 std_unit fuel s d.
Proof.
  induction fuel as [|fu IH]; intros s d Hnd Hd.
  - destruct s; reflexivity.
  - destruct s as [|c0 s']; [reflexivity|].
    cbn [std_loop_b gen_loop]. unfold bytes, byte in *.
    assert (Hc0 : is_dot_or_digit c0 = is_digit c0).
    { unfold is_dot_or_digit. rewrite (no_dot_head _ _ Hnd). reflexivity. }
    rewrite Hc0. destruct (is_digit c0) eqn:Hdig; [|reflexivity]. cbn [negb].
    destruct (span_digits_cons c0 s' Hdig) as (ds & tl & Hspan & Hs & Hds & Htl).
    rewrite Hspan, Hs.
    rewrite (std_leading_int_spec max_int64 (c0 :: ds) tl 0) by (auto; unfold max_int64, two63; lia).
    change (dv_from 0 (c0 :: ds)) with (digits_val (c0 :: ds)).
    set (v := digits_val (c0 :: ds)).
    assert (Hv0 : 0 <= v) by (apply (dv_from_ge (c0 :: ds) 0 Hds); lia).
    rewrite Hs in Hnd. apply no_byte_app_inv in Hnd as [_ Hndtl].
    destruct (Z.leb_spec v max_int64) as [Hvle|Hvgt].
    2:{ replace (max_int64 <? v) with true by lia. reflexivity. }
    replace (max_int64 <? v) with false by lia.
    assert (Hpre : (length ((c0 :: ds) ++ tl) =? length tl)%nat = false).
    { apply Nat.eqb_neq. rewrite app_length. simpl. lia. }
    rewrite Hpre. cbn [negb andb].
    destruct tl as [|c1 tl']; [reflexivity|]. rewrite (no_dot_head _ _ Hndtl).
    set (tl := c1 :: tl') in *.
    change (fun c : N => negb (is_dot_or_digit c)) with unit_char.
    destruct (span unit_char tl) as [u rest] eqn:Eu.
    destruct (span_spec _ _ _ _ Eu) as (Htl' & _ & _).
    destruct u as [|cu u']; [reflexivity|].
    destruct (std_unit (cu :: u')) as [unit|] eqn:Eunit; [|reflexivity].
    pose proof (std_unit_pos _ _ Eunit) as Hup.
    rewrite (div_ltb_mul max_int64 unit v) by (unfold max_int64; lia).
    destruct (Z.ltb_spec max_int64 (v * unit)) as [Hov|Hok]; [reflexivity|].
    assert (Hvu : 0 <= v * unit) by nia.
    unfold wrapu64. rewrite (Z.mod_small (v * unit)) by (unfold two64, max_int64 in *; lia).
    change (0 <? 0) with false. cbv iota.
    rewrite (Z.mod_small (d + v * unit)) by (unfold two64, max_int64 in *; lia).
    destruct (Z.ltb_spec max_int64 (d + v * unit)) as [Hov2|Hok2]; [reflexivity|].
    apply IH; [|lia]. rewrite Htl' in Hndtl. apply no_byte_app_inv in Hndtl as [_ H]. exact H.
Qed.

(* without the bytes d, M, y the two unit tables agree *)
Definition no_dMy (s : bytes) : Prop := no_byte 100 s /\ no_byte 77 s /\ no_byte 121 s.

Lemma no_byte_head : forall c x s, no_byte c (x :: s) -> N.eqb x c = false.
Proof. intros c x s H. unfold no_byte in H. simpl in H. apply andb_true_iff in H as [H _]. apply negb_true_iff in H. exact H. Qed.

Lemma pyro_unit_std : forall u, no_dMy u -> pyro_unit u = std_unit u.
Proof.
  intros u (Hd & HM & Hy). unfold pyro_unit. destruct (std_unit u); [reflexivity|].
  destruct u as [|c u']; [reflexivity|].
  pose proof (no_byte_head _ _ _ Hd) as H1. pose proof (no_byte_head _ _ _ HM) as H2. pose proof (no_byte_head _ _ _ Hy) as H3.
  unfold beqb. simpl bcmp.
  destruct (N.compare_spec c 100) as [->|?|?]; [discriminate| |];
  destruct (N.compare_spec c 77) as [->|?|?]; try discriminate;
  destruct (N.compare_spec c 121) as [->|?|?]; try discriminate; try reflexivity;
  destruct u'; reflexivity.
Qed.

Lemma no_dMy_app_inv : forall a b, no_dMy (a ++ b) -> no_dMy a /\ no_dMy b.
Proof.
  intros a b (H1 & H2 & H3). apply no_byte_app_inv in H1 as [? ?]. apply no_byte_app_inv in H2 as [? ?].
  apply no_byte_app_inv in H3 as [? ?]. unfold no_dMy. auto.
Qed.

Lemma gen_loop_units : forall B fuel s d, no_dMy s -> gen_loop B pyro_unit fuel s d = gen_loop B std_unit fuel s d.
Proof.
  intros B. induction fuel as [|fu IH]; intros s d Hn; [destruct s; reflexivity|].
  destruct s as [|c0 s']; [reflexivity|]. cbn [gen_loop].
  destruct (negb (is_digit c0)); [reflexivity|].
  destruct (span is_digit (c0 :: s')) as [ds tl] eqn:E1. destruct (span_spec _ _ _ _ E1) as (Hs & _ & _).
  destruct (B <? digits_val ds); [reflexivity|].
  destruct (span unit_char tl) as [u rest] eqn:E2. destruct (span_spec _ _ _ _ E2) as (Ht & _ & _).
  rewrite Hs in Hn. apply no_dMy_app_inv in Hn as [_ Hn]. rewrite Ht in Hn. apply no_dMy_app_inv in Hn as [Hu Hr].
  destruct u as [|cu u']; [reflexivity|]. rewrite (pyro_unit_std _ Hu).
  destruct (std_unit (cu :: u')); [|reflexivity].
  destruct (B <? digits_val ds * z); [reflexivity|]. destruct (B <? d + digits_val ds * z); [reflexivity|].
  apply IH, Hr.
Qed.

Lemma strip_sign_sub : forall s0 neg s, strip_sign s0 = (neg, s) -> s0 = s \/ exists c, s0 = c :: s.
Proof.
  intros [|c s'] neg s H; simpl in H; [inversion H; auto|].
  destruct (N.eqb c 45); [inversion H; subst; right; eexists; reflexivity|].
  destruct (N.eqb c 43); inversion H; subst; [right; eexists; reflexivity|left; reflexivity].
Qed.

Lemma no_byte_tail : forall c x s, no_byte c (x :: s) -> no_byte c s.
Proof. intros c x s H. unfold no_byte in *. simpl in H. apply andb_true_iff in H as [_ H]. exact H. Qed.

Lemma duration_equiv_lemma : forall s, no_dMy s -> no_dot s ->
  std_parse_duration_b max_int64 s = std_parse_duration s ->
  pyro_parse_duration s = std_parse_duration s.
Proof.
  intros s0 HdMy Hdot Hb. rewrite <- Hb. unfold pyro_parse_duration, std_parse_duration_b.
  destruct (strip_sign s0) as [neg s] eqn:Es.
  assert (Hs : no_dMy s /\ no_dot s).
  { destruct (strip_sign_sub _ _ _ Es) as [->|[c ->]]; [auto|]. destruct HdMy as (H1 & H2 & H3). unfold no_dMy, no_dot in *.
    repeat split; eapply no_byte_tail; eauto. }
  destruct Hs as [Hs1 Hs2].
  destruct (beqb s [48%N]); [reflexivity|]. destruct s as [|c s']; [reflexivity|].
  rewrite pyro_loop_gen, std_loop_gen, gen_loop_units by (auto; unfold max_int64; lia).
  destruct (gen_loop max_int64 std_unit (length (c :: s')) (c :: s') 0) as [d| |] eqn:E; try reflexivity.
  destruct neg; [reflexivity|].
  (* non-negative: d <= MaxInt64 holds for every result of the bounded loop *)
  assert (Hd : d <= max_int64).
  { assert (G : forall fuel sx d0 dx, d0 <= max_int64 -> gen_loop max_int64 std_unit fuel sx d0 = POk dx -> dx <= max_int64).
    { induction fuel as [|fu IH]; intros sx d0 dx H0 H; [destruct sx; inversion H; subst; exact H0|].
      destruct sx as [|cq sq]; [inversion H; subst; exact H0|]. cbn [gen_loop] in H.
      destruct (negb (is_digit cq)); [discriminate|].
      destruct (span is_digit (cq :: sq)) as [ds tl]. destruct (max_int64 <? digits_val ds); [discriminate|].
      destruct (span unit_char tl) as [u rest]. destruct u; [discriminate|]. destruct (std_unit (n :: u)); [|discriminate].
      destruct (max_int64 <? digits_val ds * z); [discriminate|].
      destruct (Z.ltb_spec max_int64 (d0 + digits_val ds * z)); [discriminate|]. eapply IH; [|exact H]. lia. }
    eapply G; [|exact E]. unfold max_int64. lia. }
  replace (max_int64 <? d) with false by lia. reflexivity.
Qed.

(* ------------------------------------------------------------------------------------------------ *)
(* durations: integer terms over the pyroscope unit table add up *)

Definition dterm_ok (t : bytes * bytes) : Prop :=
  fst t <> [] /\ forallb is_digit (fst t) = true /\ snd t <> [] /\ forallb unit_char (snd t) = true /\
  exists unit, pyro_unit (snd t) = Some unit.

Fixpoint dterms_total (ts : list (bytes * bytes)) : Z :=
  match ts with
  | [] => 0
  | (ds, u) :: ts' => digits_val ds * (match pyro_unit u with Some x => x | None => 0 end) + dterms_total ts'
  end.

Lemma unit_char_nondigit : forall c, unit_char c = true -> nondigit c = true.
Proof.
  intros c H. unfold unit_char, is_dot_or_digit, nondigit in *. apply negb_true_iff in H. apply orb_false_iff in H as [_ H].
  rewrite H. reflexivity.
Qed.

Lemma digit_not_unit_char : forall c, is_digit c = true -> negb (unit_char c) = true.
Proof. intros c H. unfold unit_char, is_dot_or_digit. rewrite H, orb_true_r. reflexivity. Qed.

Lemma dterms_total_nonneg : forall ts, Forall dterm_ok ts -> 0 <= dterms_total ts.
Proof.
  induction ts as [|[ds u] ts IH]; intros H; simpl; [lia|]. inversion H as [|? ? (_ & Hd & _ & _ & unit & Hu) H']; subst.
  simpl in *. rewrite Hu. pose proof (pyro_unit_pos _ _ Hu). pose proof (dv_from_ge ds 0 Hd ltac:(lia)).
  unfold dv_from in *. unfold digits_val. specialize (IH H'). nia.
Qed.

Lemma gen_loop_terms : forall ts fuel d, Forall dterm_ok ts -> (length (render_terms ts) <= fuel)%nat ->
  0 <= d -> d + dterms_total ts <= max_int64 ->
  gen_loop max_int64 pyro_unit fuel (render_terms ts) d = POk (d + dterms_total ts).
Proof.
  induction ts as [|[ds u] ts IH]; intros fuel d Hok Hlen Hd Hmax.
  - cbn [render_terms map concat dterms_total]. rewrite Z.add_0_r. destruct fuel; reflexivity.
  - inversion Hok as [|? ? (Hne & Hdg & Hune & Hu & unit & Hunit) Hok']; subst. simpl in Hne, Hdg, Hune, Hu, Hunit.
    pose proof (dterms_total_nonneg ts Hok') as Hrest.
    pose proof (pyro_unit_pos _ _ Hunit) as Hup.
    pose proof (dv_from_ge ds 0 Hdg ltac:(lia)) as Hv. change (dv_from 0 ds) with (digits_val ds) in Hv.
    cbn [dterms_total] in *. rewrite Hunit in *.
    change (render_terms ((ds, u) :: ts)) with ((ds ++ u) ++ render_terms ts) in *. rewrite <- app_assoc in *.
    destruct ds as [|c0 ds']; [congruence|].
    destruct fuel as [|f]; [simpl in Hlen; lia|].
    cbn [app gen_loop]. unfold bytes, byte in *. simpl in Hdg. apply andb_true_iff in Hdg as [Hc0 Hdg']. rewrite Hc0. cbn [negb].
    change (c0 :: ds' ++ u ++ render_terms ts) with ((c0 :: ds') ++ u ++ render_terms ts).
    assert (Hhead : starts_with nondigit (u ++ render_terms ts)).
    { destruct u as [|cu u']; [congruence|]. simpl in *. apply andb_true_iff in Hu as [Hcu _]. apply unit_char_nondigit, Hcu. }
    rewrite (span_app is_digit (c0 :: ds') (u ++ render_terms ts)) by (simpl; try rewrite Hc0, Hdg'; auto).
    assert (Hrs : starts_with (fun c => negb (unit_char c)) (render_terms ts)).
    { pose proof (render_terms_starts ts) as R.
      assert (Forall term_ok ts) as Ht.
      { clear - Hok'. induction Hok' as [|[a b] l (A & B & C & D & _) _ IHl]; constructor; auto.
        unfold term_ok. simpl in *. repeat split; auto.
        apply forallb_forall. intros x Hx. apply unit_char_nondigit. eapply forallb_forall in D; eauto. }
      specialize (R Ht). destruct (render_terms ts) as [|c r]; [exact I|]. simpl in *. apply digit_not_unit_char, R. }
    rewrite (span_app unit_char u (render_terms ts) Hu Hrs).
    set (v := digits_val (c0 :: ds')) in *.
    assert (v * unit <= max_int64) by nia. assert (v <= v * unit) by nia.
    replace (max_int64 <? v) with false by lia.
    destruct u as [|cu u']; [congruence|]. rewrite Hunit.
    replace (max_int64 <? v * unit) with false by lia. replace (max_int64 <? d + v * unit) with false by lia.
    rewrite IH; auto; try lia.
    + f_equal. ring.
    + unfold bytes, byte in *. repeat (progress (simpl in Hlen; rewrite ?app_length in Hlen)). lia.
Qed.

Lemma beqb_two : forall a b r x, beqb (a :: b :: r) [x] = false.
Proof. intros. unfold beqb. simpl. destruct (a ?= x)%N; reflexivity. Qed.

Lemma duration_terms_lemma : forall ts, ts <> [] -> Forall dterm_ok ts -> dterms_total ts <= max_int64 ->
  pyro_parse_duration (render_terms ts) = POk (dterms_total ts).
Proof.
  intros ts Hne Hok Hmax. destruct ts as [|[ds u] ts]; [congruence|].
  inversion Hok as [|? ? (Hdne & Hdg & Hune & Hu & unit & Hunit) Hok']; subst. simpl in Hdne, Hdg, Hune, Hu, Hunit.
  assert (Hnd : forall tl, no_dot tl -> True) by auto.
  unfold pyro_parse_duration.
  remember (render_terms ((ds, u) :: ts)) as s eqn:Es.
  assert (Hshape : exists c0 c1 r, s = c0 :: c1 :: r /\ is_digit c0 = true).
  { subst s. change (render_terms ((ds, u) :: ts)) with ((ds ++ u) ++ render_terms ts).
    destruct ds as [|c0 ds']; [congruence|]. simpl in Hdg. apply andb_true_iff in Hdg as [Hc0 _].
    destruct ds' as [|c1 ds'']; simpl.
    - destruct u as [|cu u']; [congruence|]. simpl. eauto.
    - eauto. }
  destruct Hshape as (c0 & c1 & r & Hs & Hc0).
  assert (Hsign : strip_sign s = (false, s)).
  { rewrite Hs. simpl. unfold is_digit in Hc0.
    destruct (N.eqb_spec c0 45); [subst; discriminate|]. destruct (N.eqb_spec c0 43); [subst; discriminate|]. reflexivity. }
  assert (Hdot : no_dot s).
  { subst s. clear - Hok. unfold no_dot. apply render_terms_no_byte; [reflexivity| |].
    - clear - Hok. induction Hok as [|[a b] l (A & B & C & D & _) _ IHl]; constructor; auto.
      unfold term_ok. simpl in *. repeat split; auto.
      apply forallb_forall. intros x Hx. apply unit_char_nondigit. eapply forallb_forall in D; eauto.
    - clear - Hok. induction Hok as [|[a b] l (A & B & C & D & _) _ IHl]; constructor; auto. simpl in *.
      unfold no_byte. apply forallb_forall. intros x Hx. eapply forallb_forall in D; eauto.
      unfold unit_char, is_dot_or_digit in D. apply negb_true_iff in D. apply orb_false_iff in D as [D _]. rewrite D. reflexivity. }
  assert (Hloop : pyro_loop (length s) s 0 = POk (dterms_total ((ds, u) :: ts))).
  { rewrite pyro_loop_gen by (auto; unfold max_int64; lia).
    rewrite Es. rewrite gen_loop_terms; auto; try lia. }
  rewrite Hsign. assert (Hb : beqb s [48%N] = false) by (rewrite Hs; apply beqb_two). rewrite Hb.
  rewrite Hloop. rewrite Hs. reflexivity.
Qed.

(* ------------------------------------------------------------------------------------------------ *)
(* sizes: integer number, optional white space, unit *)

Definition num_char (c : N) : bool := is_digit c || N.eqb c 46.

Lemma bs_multiplier_pos : forall u m, bs_multiplier u = Some m -> 1 <= m.
Proof.
  intros u m H. unfold bs_multiplier in H.
  repeat match type of H with (if ?b then _ else _) = _ => destruct b end; inversion H; subst; vm_compute; discriminate.
Qed.

Lemma existsb_false_forallb : forall {A} (p : A -> bool) l, forallb (fun x => negb (p x)) l = true -> existsb p l = false.
Proof.
  induction l as [|x l IH]; intros H; [reflexivity|]. simpl in *. apply andb_true_iff in H as [Hx Hl].
  apply negb_true_iff in Hx. rewrite Hx, (IH Hl). reflexivity.
Qed.

Lemma bytesize_int_lemma : forall ds ws u m,
  ds <> [] -> forallb is_digit ds = true -> forallb re_space ws = true ->
  forallb (fun c => negb (is_digit c)) u = true ->
  starts_with (fun c => negb (num_char c) && negb (re_space c)) u ->
  trim_space (ds ++ ws ++ u) = ds ++ ws ++ u ->
  bs_multiplier (lower_for_lookup (length u) u) = Some m ->
  bytesize_parse (ds ++ ws ++ u) =
    if digits_val ds * m <=? max_int64 then Some (digits_val ds * m) else None.
Proof.
  intros ds ws u m Hne Hd Hws Hu Hhead Htrim Hm. unfold bytesize_parse. rewrite Htrim.
  assert (Hd' : forallb num_char ds = true).
  { apply forallb_forall. intros x Hx. eapply forallb_forall in Hd; eauto. unfold num_char. rewrite Hd. reflexivity. }
  assert (Hh1 : starts_with (fun c => negb (num_char c)) (ws ++ u)).
  { destruct ws as [|w ws'].
    - destruct u as [|c u']; [exact I|]. simpl in *. apply andb_true_iff in Hhead as [H _]. exact H.
    - simpl in *. apply andb_true_iff in Hws as [Hw _]. unfold num_char, is_digit. unfold re_space in Hw. lia. }
  change (fun c : N => is_digit c || N.eqb c 46) with num_char.
  rewrite (span_app num_char ds (ws ++ u) Hd' Hh1).
  destruct ds as [|c0 ds']; [congruence|].
  assert (Hh2 : starts_with (fun c => negb (re_space c)) u).
  { destruct u as [|c u']; [exact I|]. simpl in *. apply andb_true_iff in Hhead as [_ H]. exact H. }
  rewrite (span_app re_space ws u Hws Hh2).
  rewrite (existsb_false_forallb is_digit u Hu). rewrite Hm.
  assert (Hnodot : existsb (N.eqb 46) (c0 :: ds') = false).
  { apply existsb_false_forallb. apply forallb_forall. intros x Hx. eapply forallb_forall in Hd; eauto.
    unfold is_digit in Hd. apply negb_true_iff. apply N.eqb_neq. lia. }
  rewrite Hnodot.
  pose proof (bs_multiplier_pos _ _ Hm) as Hmp.
  pose proof (dv_from_ge (c0 :: ds') 0 Hd ltac:(lia)) as Hv. change (dv_from 0 (c0 :: ds')) with (digits_val (c0 :: ds')) in Hv.
  set (v := digits_val (c0 :: ds')) in *.
  destruct (Z.leb_spec two64 v) as [Hbig|Hsmall].
  - replace (v * m <=? max_int64) with false; [reflexivity|]. symmetry. apply Z.leb_gt. unfold two64, max_int64 in *. nia.
  - rewrite (div_ltb_mul max_int64 m v) by (unfold max_int64; lia).
    destruct (Z.leb_spec (v * m) max_int64); [replace (max_int64 <? v * m) with false by lia|replace (max_int64 <? v * m) with true by lia]; reflexivity.
Qed.

(* ------------------------------------------------------------------------------------------------ *)
(* attime: all-digit arguments *)

Definition plausible_date (ds : bytes) : bool :=
  let y := digits_val (firstn 4 ds) in
  let m := digits_val (firstn 2 (skipn 4 ds)) in
  let d := digits_val (skipn 6 ds) in
  (length ds =? 8)%nat && (1900 <? y) && (1 <=? m) && (m <=? 12) && (1 <=? d) && (d <=? days_in m y).

Definition date_seconds (ds : bytes) : Z :=
  days_from_civil (digits_val (firstn 4 ds)) (digits_val (firstn 2 (skipn 4 ds))) (digits_val (skipn 6 ds)) * 86400.

Lemma attime_digits_lemma : forall now s ds,
  attime_clean s = ds -> ds <> [] -> forallb is_digit ds = true ->
  attime_parse now s =
    Some (1000000000 * (if plausible_date ds then date_seconds ds else Z.min (digits_val ds) max_int64)).
Proof.
  intros now s ds Hc Hne Hd. unfold attime_parse. rewrite Hc.
  assert (Hdo : digits_only ds = true) by (unfold digits_only; destruct ds; [congruence|exact Hd]).
  rewrite Hdo. unfold yyyymmdd, plausible_date, date_seconds, go_atoi. rewrite Hdo, Hd. cbv zeta.
  set (y := digits_val (firstn 4 ds)). set (m := digits_val (firstn 2 (skipn 4 ds))). set (d := digits_val (skipn 6 ds)).
  destruct (length ds =? 8)%nat; cbn [andb]; [|apply f_equal; ring].
  destruct (1900 <? y); destruct (1 <=? m); destruct (m <=? 12); destruct (1 <=? d); destruct (d <=? days_in m y);
    cbn [andb]; apply f_equal; ring.
Qed.

(* ------------------------------------------------------------------------------------------------ *)
(* documented unit spellings; exact form of the relative theorem *)

From Coq Require Import Ascii.
Definition bs (s : string) : bytes := map (fun a => N_of_ascii a) (list_ascii_of_string s).

Definition doc_unit_table : list (bytes * Z) :=
  map (fun p => (bs (fst p), snd p))
  [("s", 1); ("sec", 1); ("secs", 1); ("second", 1); ("seconds", 1);
   ("min", 60); ("mins", 60); ("minute", 60); ("minutes", 60);
   ("h", 3600); ("hour", 3600); ("hours", 3600);
   ("d", 86400); ("day", 86400); ("days", 86400);
   ("w", 604800); ("week", 604800); ("weeks", 604800);
   ("mon", 2592000); ("month", 2592000); ("months", 2592000);
   ("y", 31536000); ("year", 31536000); ("years", 31536000)]%string.

Lemma doc_unit_table_sound : Forall (fun p => get_unit_multiplier (fst p) = snd p) doc_unit_table.
Proof. unfold doc_unit_table. repeat constructor. Qed.

(* prefix rules, for every continuation of the spelling *)
Lemma unit_prefix_s : forall r, get_unit_multiplier (115 :: r)%N = 1.
Proof. reflexivity. Qed.
Lemma unit_prefix_h : forall r, get_unit_multiplier (104 :: r)%N = 3600.
Proof. reflexivity. Qed.
Lemma unit_prefix_d : forall r, get_unit_multiplier (100 :: r)%N = 86400.
Proof. reflexivity. Qed.
Lemma unit_prefix_w : forall r, get_unit_multiplier (119 :: r)%N = 604800.
Proof. reflexivity. Qed.
Lemma unit_prefix_y : forall r, get_unit_multiplier (121 :: r)%N = 31536000.
Proof. reflexivity. Qed.
Lemma unit_prefix_mon : forall r, get_unit_multiplier (109 :: 111 :: 110 :: r)%N = 2592000.
Proof. reflexivity. Qed.
Lemma unit_prefix_min : forall r, get_unit_multiplier (109 :: 105 :: 110 :: r)%N = 60.
Proof. reflexivity. Qed.
Lemma unit_prefix_M : forall r, get_unit_multiplier (77 :: r)%N = 2592000.
Proof. reflexivity. Qed.

Lemma go_atoi_small : forall ds, ds <> [] -> forallb is_digit ds = true -> digits_val ds < two63 -> go_atoi ds = digits_val ds.
Proof.
  intros ds Hne Hd Hv. unfold go_atoi, digits_only. destruct ds; [congruence|]. rewrite Hd. unfold max_int64, two63 in *. lia.
Qed.

Lemma attime_relative_exact_lemma : forall now s ref sg ts,
  attime_clean s = ref ++ sg :: render_terms ts ->
  (sg = 43%N \/ sg = 45%N) ->
  no_byte 43 ref -> no_byte 45 ref ->
  Forall term_ok ts -> Forall (fun t => no_byte 43 (snd t)) ts ->
  - two63 <= 1000000000 * terms_seconds ts < two63 ->
  attime_parse now s = Some (now + sign_val sg * (1000000000 * terms_seconds ts)).
Proof.
  intros now s ref sg ts Hc Hsg Hp Hm Hok Hnp Hr.
  rewrite (attime_relative_lemma now s ref sg ts Hc Hsg Hp Hm Hok Hnp). f_equal. f_equal.
  rewrite wrap64_id; [ring|]. unfold sign_val. destruct (N.eqb sg 45); unfold two63 in *; lia.
Qed.

(* ------------------------------------------------------------------------------------------------ *)
(* durations with fractions: the copy and the standard parser with the admitted magnitude lowered to MaxInt64 are the
   same function (as long as the copy's float -> int64 conversion is in range) *)

Definition is_suffix (t s : bytes) : Prop := exists pre, s = pre ++ t.

Lemma is_suffix_refl : forall s, is_suffix s s.
Proof. intros s. exists []. reflexivity. Qed.

Lemma is_suffix_cons : forall c t s, is_suffix t s -> is_suffix t (c :: s).
Proof. intros c t s [pre ->]. exists (c :: pre). reflexivity. Qed.

Lemma is_suffix_trans : forall a b c, is_suffix a b -> is_suffix b c -> is_suffix a c.
Proof. intros a b c [p ->] [q ->]. exists (q ++ p). rewrite app_assoc. reflexivity. Qed.

Lemma no_dMy_suffix : forall t s, is_suffix t s -> no_dMy s -> no_dMy t.
Proof. intros t s [pre ->] H. apply no_dMy_app_inv in H as [_ H]. exact H. Qed.

Lemma wrap_check_eq : forall x c, 0 <= x <= 922337203685477580 -> is_digit c = true ->
  let y := x * 10 + Z.of_N c - 48 in
  (wrap64 y <? 0) = (max_int64 <? wrapu64 y) /\ (wrap64 y <? 0 = false -> wrap64 y = y /\ wrapu64 y = y /\ 0 <= y <= max_int64).
Proof.
  intros x c Hx Hc y. pose proof (is_digit_val c Hc) as Hv. unfold digit_val in Hv.
  assert (Hy : 0 <= y < two64) by (unfold y, two64; lia).
  assert (Hu : wrapu64 y = y) by (unfold wrapu64; apply Z.mod_small; exact Hy).
  rewrite Hu. destruct (Z.ltb_spec max_int64 y) as [Hgt|Hle].
  - rewrite wrap64_big_neg by lia. split; [reflexivity|discriminate].
  - rewrite wrap64_id by (unfold two63, max_int64 in *; lia). split; [lia|]. intros _. unfold max_int64 in *. lia.
Qed.

Lemma leading_int_same : forall s x, 0 <= x <= max_int64 -> pyro_leading_int s x = std_leading_int_b max_int64 s x.
Proof.
  induction s as [|c s IH]; intros x Hx; [reflexivity|]. cbn [pyro_leading_int std_leading_int_b].
  destruct (is_digit c) eqn:Hc; [|reflexivity].
  change (max_int64 / 10) with 922337203685477580.
  destruct (Z.ltb_spec 922337203685477580 x) as [Hbig|Hsmall]; [reflexivity|].
  destruct (wrap_check_eq x c ltac:(lia) Hc) as [Heq Hok]. cbv zeta in Heq, Hok. rewrite <- Heq.
  destruct (wrap64 (x * 10 + Z.of_N c - 48) <? 0) eqn:E; [reflexivity|].
  destruct (Hok eq_refl) as (H1 & H2 & H3). rewrite H1, H2. apply IH. exact H3.
Qed.

Lemma leading_int_suffix : forall s x v s1, 0 <= x <= max_int64 -> pyro_leading_int s x = Some (v, s1) ->
  is_suffix s1 s /\ 0 <= v <= max_int64.
Proof.
  induction s as [|c s IH]; intros x v s1 Hx H; cbn [pyro_leading_int] in H.
  - inversion H; subst. split; [apply is_suffix_refl|exact Hx].
  - destruct (is_digit c) eqn:Hc.
    + change (max_int64 / 10) with 922337203685477580 in H.
      destruct (Z.ltb_spec 922337203685477580 x) as [Hbig|Hsmall]; [discriminate|].
      destruct (wrap_check_eq x c ltac:(lia) Hc) as [_ Hok]. cbv zeta in Hok.
      destruct (wrap64 (x * 10 + Z.of_N c - 48) <? 0) eqn:E; [discriminate|].
      destruct (Hok eq_refl) as (H1 & _ & H3). rewrite H1 in H.
      destruct (IH _ _ _ H3 H) as [Hs Hv]. split; [apply is_suffix_cons, Hs|exact Hv].
    + inversion H; subst. split; [apply is_suffix_refl|exact Hx].
Qed.

Lemma leading_fraction_same : forall s x sc ov, 0 <= x <= max_int64 ->
  pyro_leading_fraction s x sc ov = std_leading_fraction_b max_int64 s x sc ov.
Proof.
  induction s as [|c s IH]; intros x sc ov Hx; [reflexivity|]. cbn [pyro_leading_fraction std_leading_fraction_b].
  destruct (is_digit c) eqn:Hc; [|reflexivity].
  destruct ov; [apply IH, Hx|].
  change (max_int64 / 10) with 922337203685477580.
  destruct (Z.ltb_spec 922337203685477580 x) as [Hbig|Hsmall]; [apply IH, Hx|].
  destruct (wrap_check_eq x c ltac:(lia) Hc) as [Heq Hok]. cbv zeta in Heq, Hok. rewrite <- Heq.
  destruct (wrap64 (x * 10 + Z.of_N c - 48) <? 0) eqn:E; [apply IH, Hx|].
  destruct (Hok eq_refl) as (H1 & H2 & H3). rewrite H1, H2. apply IH. exact H3.
Qed.

Lemma leading_fraction_suffix : forall s x sc ov f sc' s2, 0 <= x <= max_int64 ->
  pyro_leading_fraction s x sc ov = (f, sc', s2) -> is_suffix s2 s /\ 0 <= f <= max_int64.
Proof.
  induction s as [|c s IH]; intros x sc ov f sc' s2 Hx H; cbn [pyro_leading_fraction] in H.
  - inversion H; subst. split; [apply is_suffix_refl|exact Hx].
  - destruct (is_digit c) eqn:Hc.
    + assert (G : forall x' sc'' ov', 0 <= x' <= max_int64 -> pyro_leading_fraction s x' sc'' ov' = (f, sc', s2) ->
                  is_suffix s2 (c :: s) /\ 0 <= f <= max_int64).
      { intros x' sc'' ov' Hx' H'. destruct (IH _ _ _ _ _ _ Hx' H') as [A B]. split; [apply is_suffix_cons, A|exact B]. }
      destruct ov; [eapply G; eauto|].
      change (max_int64 / 10) with 922337203685477580 in H.
      destruct (Z.ltb_spec 922337203685477580 x) as [Hbig|Hsmall]; [eapply G; eauto|].
      destruct (wrap_check_eq x c ltac:(lia) Hc) as [_ Hok]. cbv zeta in Hok.
      destruct (wrap64 (x * 10 + Z.of_N c - 48) <? 0) eqn:E; [eapply G; eauto|].
      destruct (Hok eq_refl) as (H1 & _ & H3). rewrite H1 in H. eapply G; eauto.
    + inversion H; subst. split; [apply is_suffix_refl|exact Hx].
Qed.

Lemma span_suffix : forall (p : N -> bool) s a b, span p s = (a, b) -> is_suffix b s /\ s = a ++ b.
Proof. intros p s a b H. destruct (span_spec _ _ _ _ H) as (-> & _ & _). split; [exists a; reflexivity|reflexivity]. Qed.

Lemma add_check : forall a b, 0 <= a <= max_int64 -> 0 <= b <= max_int64 ->
  (wrap64 (a + b) <? 0) = (max_int64 <? wrapu64 (a + b)) /\
  (wrap64 (a + b) <? 0 = false -> wrap64 (a + b) = a + b /\ wrapu64 (a + b) = a + b /\ 0 <= a + b <= max_int64).
Proof.
  intros a b Ha Hb.
  assert (Hu : wrapu64 (a + b) = a + b) by (unfold wrapu64; apply Z.mod_small; unfold two64, max_int64 in *; lia).
  rewrite Hu. destruct (Z.ltb_spec max_int64 (a + b)) as [Hgt|Hle].
  - rewrite wrap64_big_neg by (unfold two64, max_int64 in *; lia). split; [reflexivity|discriminate].
  - rewrite wrap64_id by (unfold two63, max_int64 in *; lia). split; [lia|]. intros _. lia.
Qed.

(* either the copy reaches an out-of-range float conversion, or both loops return the same *)
Lemma loops_same : forall fuel s d, no_dMy s -> 0 <= d <= max_int64 ->
  pyro_loop fuel s d = PImplDefined \/ pyro_loop fuel s d = std_loop_b max_int64 fuel s d.
Proof.
  induction fuel as [|fu IH]; intros s d Hn Hd; [right; destruct s; reflexivity|].
  destruct s as [|c0 s']; [right; reflexivity|]. cbn [pyro_loop std_loop_b].
  destruct (negb (is_dot_or_digit c0)); [right; reflexivity|].
  rewrite <- leading_int_same by (unfold max_int64; lia).
  destruct (pyro_leading_int (c0 :: s') 0) as [[v s1]|] eqn:Eli; [|right; reflexivity].
  assert (H0r : 0 <= 0 <= max_int64) by (unfold max_int64; lia).
  destruct (leading_int_suffix _ _ _ _ H0r Eli) as [Hs1 Hv].
  set (tupP := match s1 with
               | c1 :: s1' => if N.eqb c1 46 then
                   let '(f, scale, s2) := pyro_leading_fraction s1' 0 f_one false in (f, scale, s2, negb (length s1' =? length s2)%nat)
                   else (0, f_one, s1, false)
               | [] => (0, f_one, s1, false) end).
  set (tupS := match s1 with
               | c1 :: s1' => if N.eqb c1 46 then
                   let '(f, scale, s2) := std_leading_fraction_b max_int64 s1' 0 f_one false in (f, scale, s2, negb (length s1' =? length s2)%nat)
                   else (0, f_one, s1, false)
               | [] => (0, f_one, s1, false) end).
  assert (Htup : tupP = tupS).
  { unfold tupP, tupS. destruct s1 as [|c1 s1']; [reflexivity|]. destruct (N.eqb c1 46); [|reflexivity].
    rewrite <- leading_fraction_same by (unfold max_int64; lia). reflexivity. }
  assert (Hinfo : forall f sc s2 post, tupP = (f, sc, s2, post) -> is_suffix s2 s1 /\ 0 <= f <= max_int64).
  { unfold tupP. intros f sc s2 post H. destruct s1 as [|c1 s1'].
    - inversion H; subst. split; [apply is_suffix_refl|unfold max_int64; lia].
    - destruct (N.eqb c1 46).
      + destruct (pyro_leading_fraction s1' 0 f_one false) as [[f' sc'] s2'] eqn:Elf. inversion H; subst.
        destruct (leading_fraction_suffix _ _ _ _ _ _ _ H0r Elf) as [A B].
        split; [apply is_suffix_cons, A|exact B].
      + inversion H; subst. split; [apply is_suffix_refl|unfold max_int64; lia]. }
  rewrite <- Htup. clearbody tupP. clear tupS Htup.
  destruct tupP as [[[f sc] s2] post]. destruct (Hinfo f sc s2 post eq_refl) as [Hs2 Hf]. clear Hinfo.
  destruct (negb (negb (length (c0 :: s') =? length s1)%nat) && negb post); [right; reflexivity|].
  destruct (span (fun c : N => negb (is_dot_or_digit c)) s2) as [u s3] eqn:Esp.
  destruct (span_suffix _ _ _ _ Esp) as [Hs3 Hs2eq].
  assert (Hn2 : no_dMy s2) by (eapply no_dMy_suffix; [|exact Hn]; eapply is_suffix_trans; eauto).
  assert (Hnu : no_dMy u /\ no_dMy s3) by (rewrite Hs2eq in Hn2; apply no_dMy_app_inv; exact Hn2).
  destruct Hnu as [Hnu Hn3].
  destruct u as [|cu u']; [right; reflexivity|]. rewrite (pyro_unit_std _ Hnu).
  destruct (std_unit (cu :: u')) as [unit|] eqn:Eunit; [|right; reflexivity].
  pose proof (std_unit_pos _ _ Eunit) as Hup.
  destruct (max_int64 / unit <? v) eqn:Ediv; [right; reflexivity|].
  assert (Hvu : 0 <= v * unit <= max_int64).
  { rewrite (div_ltb_mul max_int64 unit v) in Ediv by (unfold max_int64 in *; lia). apply Z.ltb_ge in Ediv. nia. }
  rewrite (wrap64_id (v * unit)) by (unfold two63, max_int64 in *; lia).
  assert (Hwu : wrapu64 (v * unit) = v * unit) by (unfold wrapu64; apply Z.mod_small; unfold two64, max_int64 in *; lia).
  rewrite !Hwu.
  destruct (0 <? f) eqn:Ef.
  - set (t := frac_part f unit sc).
    destruct ((t <? 0) || (two63 <=? t)) eqn:Et; [left; reflexivity|].
    apply orb_false_iff in Et as [Et1 Et2]. apply Z.ltb_ge in Et1. apply Z.leb_gt in Et2.
    assert (Et' : (t <? 0) || (two64 <=? t) = false).
    { apply orb_false_iff; split; [apply Z.ltb_ge; lia|apply Z.leb_gt; unfold two63, two64 in *; lia]. }
    rewrite Et'.
    destruct (add_check (v * unit) t Hvu ltac:(unfold two63, max_int64 in *; lia)) as [Heq Hok]. rewrite <- Heq.
    destruct (wrap64 (v * unit + t) <? 0) eqn:E1; [right; reflexivity|].
    destruct (Hok eq_refl) as (A & B & C). rewrite A, B.
    destruct (add_check d (v * unit + t) Hd C) as [Heq2 Hok2]. rewrite <- Heq2.
    destruct (wrap64 (d + (v * unit + t)) <? 0) eqn:E2; [right; reflexivity|].
    destruct (Hok2 eq_refl) as (A2 & B2 & C2). rewrite A2, B2. apply IH; auto.
  - destruct (add_check d (v * unit) Hd Hvu) as [Heq2 Hok2]. rewrite <- Heq2.
    destruct (wrap64 (d + v * unit) <? 0) eqn:E2; [right; reflexivity|].
    destruct (Hok2 eq_refl) as (A2 & B2 & C2). rewrite A2, B2. apply IH; auto.
Qed.

(* the general form of the equivalence: fractions included *)
Lemma duration_equiv_frac_lemma : forall s, no_dMy s ->
  std_parse_duration_b max_int64 s = std_parse_duration s ->
  pyro_parse_duration s <> PImplDefined ->
  pyro_parse_duration s = std_parse_duration s.
Proof.
  intros s0 HdMy Hb Hni. rewrite <- Hb. revert Hni. unfold pyro_parse_duration, std_parse_duration_b.
  destruct (strip_sign s0) as [neg s] eqn:Es.
  assert (Hs : no_dMy s).
  { destruct (strip_sign_sub _ _ _ Es) as [->|[c ->]]; [auto|]. destruct HdMy as (H1 & H2 & H3). unfold no_dMy in *.
    repeat split; eapply no_byte_tail; eauto. }
  destruct (beqb s [48%N]); [reflexivity|]. destruct s as [|c s']; [reflexivity|].
  destruct (loops_same (length (c :: s')) (c :: s') 0 Hs ltac:(unfold max_int64; lia)) as [Himpl|Hsame].
  - rewrite Himpl. intros H. exfalso. apply H. reflexivity.
  - rewrite Hsame. intros _.
    destruct (std_loop_b max_int64 (length (c :: s')) (c :: s') 0) as [d| |] eqn:E; try reflexivity.
    destruct neg; [reflexivity|].
    assert (Hd : d <= max_int64).
    { assert (G : forall fuel sx d0 dx, d0 <= max_int64 -> pyro_loop fuel sx d0 = POk dx -> dx <= max_int64).
      { induction fuel as [|fu IH]; intros sx d0 dx H0 H; [destruct sx; inversion H; subst; exact H0|].
        destruct sx as [|cq sq]; [inversion H; subst; exact H0|]. cbn [pyro_loop] in H.
        destruct (negb (is_dot_or_digit cq)); [discriminate|].
        destruct (pyro_leading_int (cq :: sq) 0) as [[v s1]|]; [|discriminate].
        destruct (match s1 with
                  | c1 :: s1' => if N.eqb c1 46 then
                      let '(f, scale, s2) := pyro_leading_fraction s1' 0 f_one false in (f, scale, s2, negb (length s1' =? length s2)%nat)
                      else (0, f_one, s1, false)
                  | [] => (0, f_one, s1, false) end) as [[[f sc] s2] post].
        destruct (negb (negb (length (cq :: sq) =? length s1)%nat) && negb post); [discriminate|].
        destruct (span (fun c : N => negb (is_dot_or_digit c)) s2) as [u s3].
        destruct u; [discriminate|]. destruct (pyro_unit (n :: u)); [|discriminate].
        destruct (max_int64 / z <? v); [discriminate|].
        destruct (0 <? f).
        - destruct ((frac_part f z sc <? 0) || (two63 <=? frac_part f z sc)); [discriminate|].
          destruct (wrap64 (wrap64 (v * z) + frac_part f z sc) <? 0); [discriminate|].
          destruct (wrap64 (d0 + wrap64 (wrap64 (v * z) + frac_part f z sc)) <? 0) eqn:E2; [discriminate|].
          eapply IH; [|exact H]. pose proof (wrap64_range (d0 + wrap64 (wrap64 (v * z) + frac_part f z sc))).
          unfold two63, max_int64 in *. lia.
        - destruct (wrap64 (d0 + wrap64 (v * z)) <? 0) eqn:E2; [discriminate|].
          eapply IH; [|exact H]. pose proof (wrap64_range (d0 + wrap64 (v * z))). unfold two63, max_int64 in *. lia. }
      eapply G; [|exact Hsame]. unfold max_int64. lia. }
    replace (max_int64 <? d) with false by lia. reflexivity.
Qed.

(* ------------------------------------------------------------------------------------------------ *)
(* separators are ignored; sizes that do not start with a digit or '.' are rejected *)

Lemma attime_depends_on_clean : forall now s s', attime_clean s = attime_clean s' -> attime_parse now s = attime_parse now s'.
Proof. intros now s s' H. unfold attime_parse. rewrite H. reflexivity. Qed.

Lemma remove_seps_insert : forall a sep b, is_sep sep = true -> remove_seps (a ++ sep :: b) = remove_seps (a ++ b).
Proof.
  intros a sep b H. unfold remove_seps. rewrite !filter_app. simpl. rewrite H. reflexivity.
Qed.

Lemma attime_separator_insert : forall now a sep b, is_sep sep = true ->
  trim_space (a ++ sep :: b) = a ++ sep :: b -> trim_space (a ++ b) = a ++ b ->
  attime_parse now (a ++ sep :: b) = attime_parse now (a ++ b).
Proof.
  intros now a sep b Hsep H1 H2. apply attime_depends_on_clean. unfold attime_clean. rewrite H1, H2.
  apply remove_seps_insert, Hsep.
Qed.

Lemma bytesize_rejects_lemma : forall s c r, trim_space s = c :: r -> num_char c = false -> bytesize_parse s = None.
Proof.
  intros s c r Ht Hc. unfold bytesize_parse. rewrite Ht. simpl span. unfold num_char in Hc. rewrite Hc. reflexivity.
Qed.

Lemma bytesize_rejects_empty : forall s, trim_space s = [] -> bytesize_parse s = None.
Proof. intros s Ht. unfold bytesize_parse. rewrite Ht. reflexivity. Qed.
