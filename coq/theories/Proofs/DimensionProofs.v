(* DimensionProofs.v — Insert/Delete keep a dimension a sorted set; Intersection/Union compute set
   intersection/union for any number of dimensions, whatever permutation the sort returns. *)
From Pyro Require Import Model.Base Model.Dimension Proofs.BcmpProofs.
From Coq Require Import Permutation.

(* ================= Insert / Delete ================= *)

Lemma d_insert_In : forall k d x, In x (d_insert k d) <-> x = k \/ In x d.
Proof.
  induction d as [|c d IH]; intros x; cbn.
  - intuition.
  - destruct (bcmp c k) eqn:E; cbn.
    + apply bcmp_eq in E. subst. intuition.
    + rewrite IH. intuition.
    + intuition.
Qed.

Lemma d_insert_sorted : forall k d, ssorted d -> ssorted (d_insert k d).
Proof.
  induction d as [|c d IH]; intros H; cbn.
  - constructor.
  - destruct (bcmp c k) eqn:E.
    + exact H.
    + apply ssorted_cons_intro.
      * apply IH. eapply ssorted_tail; eauto.
      * intros x Hx. apply d_insert_In in Hx. destruct Hx as [->|Hx]; auto.
        eapply ssorted_head_lt; eauto.
    + constructor; auto. apply bcmp_lt_gt. exact E.
Qed.

Lemma d_delete_In : forall k d x, ssorted d -> (In x (d_delete k d) <-> In x d /\ x <> k).
Proof.
  induction d as [|c d IH]; intros x H; cbn.
  - intuition.
  - pose proof (ssorted_tail _ _ H) as Ht.
    pose proof (ssorted_head_lt _ _ H) as Hh.
    destruct (bcmp c k) eqn:E; cbn.
    + apply bcmp_eq in E. subst c. split.
      * intros Hx. split; auto. intros ->. apply Hh in Hx. rewrite bcmp_refl in Hx. discriminate.
      * intros [[->|Hx] Hn]; [congruence|auto].
    + rewrite IH by auto. split.
      * intros [->|[Hx Hn]]; [split; auto; intros ->; rewrite bcmp_refl in E; discriminate|auto].
      * intros [[->|Hx] Hn]; auto.
    + split.
      * intros Hx. split; auto. intros ->. destruct Hx as [->|Hx].
        -- rewrite bcmp_refl in E. discriminate.
        -- apply Hh in Hx. congruence.
      * tauto.
Qed.

Lemma d_delete_sorted : forall k d, ssorted d -> ssorted (d_delete k d).
Proof.
  induction d as [|c d IH]; intros H; cbn; auto.
  pose proof (ssorted_tail _ _ H) as Ht.
  destruct (bcmp c k) eqn:E; auto.
  apply ssorted_cons_intro; auto.
  intros x Hx. apply d_delete_In in Hx; auto. destruct Hx as [Hx _].
  eapply ssorted_head_lt; eauto.
Qed.

(* ================= Intersection ================= *)

Definition cursor_ok (d : list dkey) : Prop := d <> [] /\ ssorted d.

Lemma bcmp_ge_trans_lt : forall a b c, bcmp a b = Lt -> bcmp c b <> Lt -> bcmp a c = Lt.
Proof.
  intros a b c H1 H2. destruct (bcmp c b) eqn:E; try congruence.
  - apply bcmp_eq in E. subst. exact H1.
  - apply bcmp_lt_gt in E. eapply bcmp_trans; eauto.
Qed.

Lemma advance_spec : forall d v r d', ssorted d -> advance d v = (r, d') ->
  (r = AEnd -> forall x, In x d -> bcmp x v = Lt) /\
  (r <> AEnd ->
     d' <> [] /\ ssorted d' /\ (length d' <= length d)%nat /\
     (forall x, In x d' -> bcmp x v <> Lt) /\
     (forall k, bcmp k v <> Lt -> (In k d <-> In k d')) /\
     (r = AMatch <-> In v d)).
Proof.
  induction d as [|c d IH]; intros v r d' Hs E; cbn in E.
  - inversion E; subst. split; [intros _ x []|congruence].
  - pose proof (ssorted_tail _ _ Hs) as Ht.
    pose proof (ssorted_head_lt _ _ Hs) as Hh.
    destruct (bcmp c v) eqn:Ec.
    + inversion E; subst. apply bcmp_eq in Ec. subst c. split; [congruence|]. intros _.
      repeat split; auto; try discriminate.
      * intros x [->|Hx]; [rewrite bcmp_refl; discriminate|].
        apply Hh in Hx. apply bcmp_lt_gt in Hx. congruence.
      * intros _. left. reflexivity.
    + destruct (IH v r d' Ht E) as [A B]. split.
      * intros Hr x [->|Hx]; auto.
      * intros Hr. destruct (B Hr) as [B1 [B2 [B3 [B4 [B5 B6]]]]].
        repeat split; auto.
        -- cbn. lia.
        -- intros [->|Hx]; [congruence|]. apply B5; auto.
        -- intros Hx. right. apply B5; auto.
        -- intros Hm. right. apply B6; auto.
        -- intros [->|Hx]; [rewrite bcmp_refl in Ec; discriminate|]. apply B6; auto.
    + inversion E; subst. split; [congruence|]. intros _.
      repeat split; auto; try discriminate.
      * intros x [->|Hx]; [congruence|].
        apply Hh in Hx. apply bcmp_lt_gt in Ec.
        assert (bcmp v x = Lt) by (eapply bcmp_trans; eauto).
        apply bcmp_lt_gt in H. congruence.
      * intros [->|Hx]; [rewrite bcmp_refl in Ec; discriminate|].
        apply Hh in Hx. congruence.
Qed.

Definition advr (v : dkey) (d : list dkey) : adv := fst (advance d v).
Definition adv1 (v : dkey) (d : list dkey) : list dkey := snd (advance d v).
Definition is_match (r : adv) : bool := match r with AMatch => true | _ => false end.

Lemma advance_all_some : forall ds v am ds', advance_all ds v = Some (am, ds') ->
  ds' = map (adv1 v) ds /\ am = forallb (fun d => is_match (advr v d)) ds /\
  Forall (fun d => advr v d <> AEnd) ds.
Proof.
  induction ds as [|d ds IH]; intros v am ds' E; cbn in E.
  - inversion E; subst. repeat split; constructor.
  - unfold advr, adv1. cbn [map forallb]. destruct (advance d v) as [r d1] eqn:Ea.
    destruct (advance_all ds v) as [[am2 ds2]|] eqn:E2.
    + destruct (IH v am2 ds2 E2) as [A [B C]].
      destruct r; inversion E; subst; cbn [fst snd is_match andb];
        (split; [reflexivity|split; [reflexivity|constructor; [cbn; rewrite Ea; cbn; discriminate|exact C]]]).
    + destruct r; discriminate.
Qed.

Lemma advance_all_none : forall ds v, advance_all ds v = None -> Exists (fun d => advr v d = AEnd) ds.
Proof.
  induction ds as [|d ds IH]; intros v E; cbn in E; [discriminate|].
  unfold advr. destruct (advance d v) as [r d1] eqn:Ea.
  destruct r.
  - destruct (advance_all ds v) as [[am2 ds2]|] eqn:E2; [discriminate|]. right. apply IH. auto.
  - destruct (advance_all ds v) as [[am2 ds2]|] eqn:E2; [discriminate|]. right. apply IH. auto.
  - left. rewrite Ea. reflexivity.
Qed.

Definition pop1 (v : dkey) (d : list dkey) : list dkey :=
  match d with
  | c :: rest => if beqb c v then rest else d
  | [] => []
  end.

Lemma pop_val_some : forall ds v ds', Forall (fun d => d <> []) ds -> pop_val true ds v = Some ds' ->
  ds' = map (pop1 v) ds /\ Forall (fun d => pop1 v d <> []) ds.
Proof.
  induction ds as [|d ds IH]; intros v ds' Hne E; cbn in E.
  - inversion E; subst. split; constructor.
  - inversion Hne as [|x y Hd Hne']; subst. destruct d as [|c rest]; [congruence|].
    cbn [map pop1]. destruct (beqb c v) eqn:Ec; cbn in E.
    + destruct rest as [|c2 rest2]; [discriminate|].
      destruct (pop_val true ds v) as [r|] eqn:E2; [|discriminate]. inversion E; subst.
      destruct (IH v r Hne' E2) as [A B]. subst. split; auto. constructor; auto. cbn [pop1]. rewrite Ec. discriminate.
    + destruct (pop_val true ds v) as [r|] eqn:E2; [|discriminate]. inversion E; subst.
      destruct (IH v r Hne' E2) as [A B]. subst. split; auto. constructor; auto. cbn [pop1]. rewrite Ec. discriminate.
Qed.

Lemma pop_val_none : forall ds v, Forall (fun d => d <> []) ds -> pop_val true ds v = None ->
  Exists (fun d => pop1 v d = []) ds.
Proof.
  induction ds as [|d ds IH]; intros v Hne E; cbn in E; [discriminate|].
  inversion Hne as [|x y Hd Hne']; subst. destruct d as [|c rest]; [congruence|].
  cbn [pop1]. destruct (beqb c v) eqn:Ec; cbn in E.
  - destruct rest as [|c2 rest2]; [left; cbn; rewrite Ec; reflexivity|].
    destruct (pop_val true ds v) as [r|] eqn:E2; [discriminate|]. right. apply IH; auto.
  - destruct (pop_val true ds v) as [r|] eqn:E2; [discriminate|]. right. apply IH; auto.
Qed.

(* a cursor all of whose keys are >= v, after moving past v *)
Lemma pop1_spec : forall v d, cursor_ok d -> (forall x, In x d -> bcmp x v <> Lt) ->
  ssorted (pop1 v d) /\ (length (pop1 v d) <= length d)%nat /\
  (forall k, bcmp k v = Gt -> (In k d <-> In k (pop1 v d))) /\
  (pop1 v d = [] -> forall x, In x d -> bcmp x v <> Gt) /\
  (forall x, In x (pop1 v d) -> bcmp x v <> Lt).
Proof.
  intros v [|c rest] [Hne Hs] Hge; [congruence|]. cbn [pop1].
  pose proof (ssorted_tail _ _ Hs) as Ht.
  destruct (beqb c v) eqn:Ec.
  - apply beqb_true in Ec. subst c. repeat split; auto.
    + cbn. lia.
    + intros [->|Hx]; auto. rewrite bcmp_refl in H. discriminate.
    + intros Hx. right. exact Hx.
    + intros -> x [->|[]]. rewrite bcmp_refl. discriminate.
    + intros x Hx. apply Hge. right. exact Hx.
  - repeat split; auto; try tauto.
Qed.

Lemma total_len_perm : forall l l', Permutation l l' -> total_len l = total_len l'.
Proof.
  induction 1; unfold total_len in *; cbn [fold_right]; lia.
Qed.

Lemma total_len_map_le : forall (f : list dkey -> list dkey) l,
  Forall (fun d => (length (f d) <= length d)%nat) l -> (total_len (map f l) <= total_len l)%nat.
Proof.
  induction 1; unfold total_len in *; cbn [fold_right map]; lia.
Qed.

Lemma Forall_perm : forall A (P : A -> Prop) l l', Permutation l l' -> Forall P l -> Forall P l'.
Proof.
  intros A P l l' Hp H. apply Forall_forall. intros x Hx. rewrite Forall_forall in H. apply H.
  eapply Permutation_in; [apply Permutation_sym; exact Hp|exact Hx].
Qed.

Section Loop.
  Variable srt : list (list dkey) -> list (list dkey).
  Hypothesis srt_perm : forall l, Permutation (srt l) l.

  Lemma inter_loop_spec : forall fuel dims acc,
    Forall cursor_ok dims -> dims <> [] -> (total_len dims < fuel)%nat ->
    exists r, inter_loop srt true fuel dims acc = Some (rev acc ++ r) /\ ssorted r /\
              (forall k, In k r <-> Forall (In k) dims).
  Proof.
    induction fuel as [|f IH]; intros dims acc Hok Hne Hfuel; [lia|].
    cbn [inter_loop].
    pose proof (srt_perm dims) as Hp.
    assert (Hok' : Forall cursor_ok (srt dims)) by (eapply Forall_perm; [apply Permutation_sym; exact Hp|exact Hok]).
    assert (Hmem : forall k, Forall (In k) dims <-> Forall (In k) (srt dims)).
    { intros k. split; intros H; [eapply Forall_perm; [apply Permutation_sym; exact Hp|exact H]|eapply Forall_perm; [exact Hp|exact H]]. }
    assert (Hlen : total_len (srt dims) = total_len dims) by (apply total_len_perm; exact Hp).
    destruct (srt dims) as [|d0 others] eqn:Es; try rewrite Es in Hp; try rewrite Es in Hok'.
    { exfalso. apply Hne. apply Permutation_nil. exact Hp. }
    inversion Hok' as [|x y [Hd0ne Hd0s] Hoth]; subst x y.
    destruct d0 as [|val r0]; [congruence|].
    pose proof (ssorted_head_lt _ _ Hd0s) as Hr0.
    assert (Hd0ge : forall x, In x (val :: r0) -> bcmp x val <> Lt).
    { intros x [->|Hx]; [rewrite bcmp_refl; discriminate|]. apply Hr0 in Hx. apply bcmp_lt_gt in Hx. congruence. }
    destruct (advance_all others val) as [[am others']|] eqn:Ea.
    2:{ (* some cursor ran off: nothing more can be common *)
      exists []. rewrite app_nil_r. split; [reflexivity|split; [constructor|]].
      intros k. split; [intros []|]. intros Hall. apply Hmem in Hall.
      inversion Hall as [|x y Hk0 Hko]; subst.
      apply advance_all_none in Ea. apply Exists_exists in Ea. destruct Ea as [d [Hd Hend]].
      rewrite Forall_forall in Hko, Hoth. pose proof (Hko _ Hd) as Hkd. destruct (Hoth _ Hd) as [_ Hds].
      unfold advr in Hend. destruct (advance d val) as [r d'] eqn:Ead. cbn in Hend. subst r.
      destruct (advance_spec _ _ _ _ Hds Ead) as [A _]. pose proof (A eq_refl _ Hkd) as Hlt.
      exfalso. apply (Hd0ge _ Hk0). exact Hlt. }
    apply advance_all_some in Ea. destruct Ea as [-> [Ham Hnoend]].
    (* pointwise facts about the advanced cursors *)
    assert (Hadv : Forall (fun d =>
        cursor_ok (adv1 val d) /\ (length (adv1 val d) <= length d)%nat /\
        (forall x, In x (adv1 val d) -> bcmp x val <> Lt) /\
        (forall k, bcmp k val <> Lt -> (In k d <-> In k (adv1 val d))) /\
        (is_match (advr val d) = true <-> In val d)) others).
    { apply Forall_forall. intros d Hd. rewrite Forall_forall in Hoth, Hnoend.
      destruct (Hoth _ Hd) as [_ Hds]. pose proof (Hnoend _ Hd) as Hne'.
      unfold advr, adv1 in *. destruct (advance d val) as [r d'] eqn:Ead. cbn [fst snd] in *.
      destruct (advance_spec _ _ _ _ Hds Ead) as [_ B]. destruct (B Hne') as [B1 [B2 [B3 [B4 [B5 B6]]]]].
      split; [split; assumption|]. split; [exact B3|]. split; [exact B4|]. split; [exact B5|].
      split.
      - intros Hm. apply B6. destruct r; cbn in Hm; congruence.
      - intros Hin. apply B6 in Hin. subst. reflexivity. }
    assert (Ham' : am = true <-> Forall (In val) ((val :: r0) :: others)).
    { subst am. rewrite forallb_forall. split.
      - intros H. constructor; [left; reflexivity|]. apply Forall_forall. intros d Hd.
        rewrite Forall_forall in Hadv. apply (Hadv _ Hd). apply H. exact Hd.
      - intros H d Hd. inversion H as [|x y _ Ho]; subst. rewrite Forall_forall in Ho, Hadv.
        apply (Hadv _ Hd). apply Ho. exact Hd. }
    set (acc' := if am then val :: acc else acc).
    set (hd_r := if am then [val] else @nil dkey).
    assert (Hacc : rev acc' = rev acc ++ hd_r).
    { unfold acc', hd_r. destruct am; cbn; [reflexivity|rewrite app_nil_r; reflexivity]. }
    set (dims1 := (val :: r0) :: map (adv1 val) others).
    assert (H1ok : Forall cursor_ok dims1).
    { constructor; [split; auto; congruence|]. apply Forall_map. eapply Forall_impl; [|exact Hadv]. intros d H. apply H. }
    assert (H1ge : Forall (fun d => forall x, In x d -> bcmp x val <> Lt) dims1).
    { constructor; auto. apply Forall_map. eapply Forall_impl; [|exact Hadv]. intros d H. apply H. }
    assert (H1mem : forall k, bcmp k val <> Lt -> (Forall (In k) ((val :: r0) :: others) <-> Forall (In k) dims1)).
    { intros k Hk. unfold dims1. split; intros H; inversion H as [|x y H0 Ho]; subst; constructor; auto.
      - apply Forall_map. rewrite Forall_forall in *. intros d Hd.
        destruct (Hadv _ Hd) as [_ [_ [_ [P4 _]]]]. apply (P4 k Hk). apply Ho. exact Hd.
      - rewrite Forall_map in Ho. rewrite Forall_forall in *. intros d Hd.
        destruct (Hadv _ Hd) as [_ [_ [_ [P4 _]]]]. apply (P4 k Hk). apply Ho. exact Hd. }
    assert (H1len : (total_len dims1 <= total_len dims)%nat).
    { rewrite <- Hlen. unfold dims1. unfold total_len. cbn [fold_right].
      assert (total_len (map (adv1 val) others) <= total_len others)%nat.
      { apply total_len_map_le. eapply Forall_impl; [|exact Hadv]. intros d H. apply H. }
      unfold total_len in H. lia. }
    (* a common key is >= val *)
    assert (Hcommon_ge : forall k, Forall (In k) ((val :: r0) :: others) -> bcmp k val <> Lt).
    { intros k H. inversion H; subst. auto. }
    assert (H1ne : Forall (fun d => d <> []) dims1) by (eapply Forall_impl; [|exact H1ok]; intros d H; apply H).
    assert (Hpop : Forall (fun d => ssorted (pop1 val d) /\ (length (pop1 val d) <= length d)%nat /\
        (forall k, bcmp k val = Gt -> (In k d <-> In k (pop1 val d))) /\
        (pop1 val d = [] -> forall x, In x d -> bcmp x val <> Gt) /\
        (forall x, In x (pop1 val d) -> bcmp x val <> Lt)) dims1).
    { apply Forall_forall. intros d Hd. rewrite Forall_forall in H1ok, H1ge. apply pop1_spec; [apply H1ok; exact Hd|apply H1ge; exact Hd]. }
    fold dims1.
    destruct (pop_val true dims1 val) as [dims2|] eqn:Epop.
    2:{ (* some cursor on val was the last key of its dimension *)
      exists hd_r. split; [rewrite Hacc; reflexivity|]. split; [unfold hd_r; destruct am; constructor|].
      intros k. rewrite Hmem. split.
      - unfold hd_r. destruct am; [|intros []]. intros [->|[]]. apply Ham'. reflexivity.
      - intros Hall. pose proof (Hcommon_ge _ Hall) as Hk.
        destruct (bcmp k val) eqn:Ek; [|congruence|].
        + apply bcmp_eq in Ek. subst k. apply Ham' in Hall. unfold hd_r. rewrite Hall. left. reflexivity.
        + exfalso. apply pop_val_none in Epop; auto. apply Exists_exists in Epop. destruct Epop as [d [Hd Hnil]].
          apply H1mem in Hall; [|congruence]. rewrite Forall_forall in Hall, Hpop.
          destruct (Hpop _ Hd) as [_ [_ [_ [P4 _]]]]. apply (P4 Hnil k); auto. }
    apply pop_val_some in Epop; auto. destruct Epop as [-> Hpne].
    assert (H2ok : Forall cursor_ok (map (pop1 val) dims1)).
    { apply Forall_map. rewrite Forall_forall in *. intros d Hd. split; [apply Hpne; auto|apply (Hpop _ Hd)]. }
    assert (H2len : (total_len (map (pop1 val) dims1) < total_len dims1)%nat).
    { unfold dims1 at 2. unfold dims1 at 1. cbn [map pop1]. rewrite beqb_refl. unfold total_len. cbn [fold_right length].
      assert (total_len (map (pop1 val) (map (adv1 val) others)) <= total_len (map (adv1 val) others))%nat.
      { apply total_len_map_le. inversion Hpop; subst. eapply Forall_impl; [|eassumption]. intros d H. apply H. }
      unfold total_len in H. lia. }
    destruct (IH (map (pop1 val) dims1) acc' H2ok ltac:(unfold dims1; cbn; discriminate) ltac:(lia)) as [r2 [E2 [S2 M2]]].
    exists (hd_r ++ r2). split; [rewrite E2, Hacc, app_assoc; reflexivity|].
    (* members of r2 are keys of r0, hence > val *)
    assert (Hr2gt : forall k, In k r2 -> bcmp val k = Lt).
    { intros k Hk. apply M2 in Hk. unfold dims1 in Hk. cbn [map pop1] in Hk. rewrite beqb_refl in Hk.
      inversion Hk; subst. apply Hr0. auto. }
    split.
    - unfold hd_r. destruct am; cbn; auto. apply ssorted_cons_intro; auto.
    - intros k. rewrite Hmem. rewrite in_app_iff. split.
      + intros [Hk|Hk].
        * unfold hd_r in Hk. destruct am; [|destruct Hk]. destruct Hk as [->|[]]. apply Ham'. reflexivity.
        * pose proof (Hr2gt _ Hk) as Hgt. apply bcmp_lt_gt in Hgt.
          apply H1mem; [congruence|]. apply M2 in Hk. rewrite Forall_map in Hk.
          rewrite Forall_forall in *. intros d Hd.
          destruct (Hpop _ Hd) as [_ [_ [P3 _]]]. apply (P3 k Hgt). apply Hk. exact Hd.
      + intros Hall. pose proof (Hcommon_ge _ Hall) as Hk.
        destruct (bcmp k val) eqn:Ek; [|congruence|].
        * apply bcmp_eq in Ek. subst k. apply Ham' in Hall. left. unfold hd_r. rewrite Hall. left. reflexivity.
        * right. apply M2. apply Forall_map. apply H1mem in Hall; [|congruence].
          rewrite Forall_forall in *. intros d Hd.
          destruct (Hpop _ Hd) as [_ [_ [P3 _]]]. apply (P3 k Ek). apply Hall. exact Hd.
  Qed.
End Loop.

Lemma existsb_is_nil : forall (l : list (list dkey)), existsb is_nil l = true <-> In [] l.
Proof.
  intros l. rewrite existsb_exists. split.
  - intros [x [Hx E]]. destruct x; [exact Hx|discriminate].
  - intros H. exists []. auto.
Qed.

(* intersection_spec: any number of sorted duplicate-free inputs, any permutation returned by the sort *)
Theorem intersection_gen_spec : forall srt, (forall l, Permutation (srt l) l) ->
  forall input, Forall ssorted input ->
  exists r, intersection_gen srt true input = Some r /\ ssorted r /\
            (input <> [] -> forall k, In k r <-> Forall (In k) input).
Proof.
  intros srt Hsrt input Hs. unfold intersection_gen.
  destruct input as [|d1 [|d2 rest]].
  - exists []. split; [reflexivity|split; [constructor|congruence]].
  - exists d1. inversion Hs; subst. split; [reflexivity|split; [assumption|]].
    intros _ k. split; [intros H; constructor; auto|intros H; inversion H; auto].
  - cbv beta iota. remember (d1 :: d2 :: rest) as input eqn:Ei.
    match goal with |- context [existsb ?f input] => destruct (existsb f input) eqn:En end.
    + exists []. split; [reflexivity|split; [constructor|]]. intros _ k. split; [intros []|].
      intros H. apply existsb_is_nil in En. rewrite Forall_forall in H. apply (H _ En).
    + assert (Hok : Forall cursor_ok input).
      { apply Forall_forall. intros d Hd. split.
        - intros ->. apply existsb_is_nil in Hd. congruence.
        - rewrite Forall_forall in Hs. auto. }
      destruct (inter_loop_spec srt Hsrt (S (total_len input + length input)) input [] Hok
                  ltac:(subst input; discriminate) ltac:(lia)) as [r [E [S M]]].
      exists r. cbn [rev app] in E. split; [exact E|split; [exact S|intros _; exact M]].
Qed.

Lemma ins_desc_perm : forall x l, Permutation (ins_desc x l) (x :: l).
Proof.
  induction l as [|y l IH]; cbn; auto.
  destruct (head_gtb y x); auto.
  eapply Permutation_trans; [apply perm_skip; exact IH|apply perm_swap].
Qed.

Lemma sort_desc_perm : forall l, Permutation (sort_desc l) l.
Proof.
  unfold sort_desc. intros l.
  assert (G : forall l acc, Permutation (fold_left (fun acc x => ins_desc x acc) l acc) (l ++ acc)).
  { induction l0 as [|x l0 IH]; intros acc; cbn; auto.
    eapply Permutation_trans; [apply IH|].
    eapply Permutation_trans; [apply Permutation_app_head; apply ins_desc_perm|].
    apply Permutation_sym. apply Permutation_middle. }
  specialize (G l []). rewrite app_nil_r in G. exact G.
Qed.

Theorem intersection_spec : forall input, Forall ssorted input ->
  exists r, intersection input = Some r /\ ssorted r /\
            (input <> [] -> forall k, In k r <-> Forall (In k) input).
Proof. intros. apply intersection_gen_spec; auto. apply sort_desc_perm. Qed.

(* the result written as a filter of the first input *)
Corollary intersection_filter : forall d ds, Forall ssorted (d :: ds) ->
  intersection (d :: ds) = Some (filter (fun k => forallb (d_mem k) ds) d).
Proof.
  intros d ds Hs. destruct (intersection_spec _ Hs) as [r [E [S M]]]. rewrite E. f_equal.
  inversion Hs as [|x y Hd Hds]; subst.
  assert (Hmem : forall k l, d_mem k l = true <-> In k l).
  { intros k l. unfold d_mem. rewrite existsb_exists. split.
    - intros [x [Hx Ex]]. apply beqb_true in Ex. subst. exact Hx.
    - intros H. exists k. split; auto. apply beqb_refl. }
  apply ssorted_ext; auto.
  - (* a filter of a sorted list is sorted *)
    clear -Hd. induction d as [|c d IH]; cbn; [constructor|].
    pose proof (ssorted_tail _ _ Hd) as Ht. destruct (forallb (d_mem c) ds); auto.
    apply ssorted_cons_intro; auto. intros x Hx. apply filter_In in Hx. destruct Hx as [Hx _].
    eapply ssorted_head_lt; eauto.
  - intros k. rewrite (M ltac:(discriminate) k). rewrite filter_In, forallb_forall. split.
    + intros H. inversion H as [|x y Hk Hks]; subst. split; auto. intros l Hl. apply Hmem.
      rewrite Forall_forall in Hks. auto.
    + intros [Hk H]. constructor; auto. apply Forall_forall. intros l Hl. apply Hmem. auto.
Qed.

(* D2: with the rule before the fix (every cursor moves on), key 3 of [1,3] and [2,3] is lost *)
Example intersection_unfixed_loses_key :
  intersection_unfixed [[[1]; [3]]; [[2]; [3]]] = Some [] /\
  intersection [[[1]; [3]]; [[2]; [3]]] = Some [[3]].
Proof. vm_compute. auto. Qed.

Theorem intersection_unfixed_refuted : exists input, Forall ssorted input /\ input <> [] /\
  exists r k, intersection_unfixed input = Some r /\ Forall (In k) input /\ ~ In k r.
Proof.
  exists [[[1]; [3]]; [[2]; [3]]]. split; [repeat constructor|split; [discriminate|]].
  exists [], [3]. split; [vm_compute; reflexivity|split; [|intros []]].
  constructor; [cbn; auto|constructor; [cbn; auto|constructor]].
Qed.

(* ================= Union ================= *)

Definition add_all (d : dim) (res : list dkey) : list dkey :=
  fold_left (fun res k => if d_mem k res then res else res ++ [k]) d res.

Lemma d_mem_In : forall k l, d_mem k l = true <-> In k l.
Proof.
  intros k l. unfold d_mem. rewrite existsb_exists. split.
  - intros [x [Hx Ex]]. apply beqb_true in Ex. subst. exact Hx.
  - intros H. exists k. split; auto. apply beqb_refl.
Qed.

Lemma NoDup_snoc : forall (k : dkey) res, NoDup res -> ~ In k res -> NoDup (res ++ [k]).
Proof.
  intros k res Hnd Hk. eapply Permutation_NoDup; [apply Permutation_cons_append|]. constructor; auto.
Qed.

Lemma add_all_spec : forall d res,
  (forall x, In x (add_all d res) <-> In x res \/ In x d) /\ (NoDup res -> NoDup (add_all d res)).
Proof.
  unfold add_all. induction d as [|k d IH]; intros res; cbn.
  - split; [intuition|auto].
  - destruct (d_mem k res) eqn:E.
    + apply d_mem_In in E. destruct (IH res) as [A B]. split; auto.
      intros x. rewrite A. intuition. subst. auto.
    + destruct (IH (res ++ [k])) as [A B]. split.
      * intros x. rewrite A, in_app_iff. cbn. intuition.
      * intros Hnd. apply B. apply NoDup_snoc; auto.
        intros Hin. apply d_mem_In in Hin. congruence.
Qed.

Lemma union_fold_spec : forall input res,
  let r := fold_left (fun res d => add_all d res) input res in
  (forall x, In x r <-> In x res \/ Exists (In x) input) /\ (NoDup res -> NoDup r).
Proof.
  induction input as [|d input IH]; intros res; cbn.
  - split; auto. intros x. split; [auto|]. intros [H|H]; auto. inversion H.
  - destruct (IH (add_all d res)) as [A B]. destruct (add_all_spec d res) as [C D]. split.
    + intros x. rewrite A, C. split.
      * intros [[H|H]|H]; auto.
      * intros [H|H]; auto. inversion H; subst; auto.
    + intros Hnd. apply B. apply D. exact Hnd.
Qed.

(* union_spec: every key of some input, each once *)
Theorem union_spec : forall input,
  (forall k, In k (union input) <-> Exists (In k) input) /\
  (Forall (@NoDup dkey) input -> NoDup (union input)).
Proof.
  intros input. unfold union. destruct input as [|d1 [|d2 rest]].
  - split; [|constructor]. intros k. split; [intros []|intros H; inversion H].
  - split.
    + intros k. split; [intros H; left; exact H|]. intros H. inversion H as [? ? H1|? ? H1]; subst; [exact H1|inversion H1].
    + intros H. inversion H; auto.
  - change (fold_left (fun res d => fold_left (fun res k => if d_mem k res then res else res ++ [k]) d res) (d1 :: d2 :: rest) [])
      with (fold_left (fun res d => add_all d res) (d1 :: d2 :: rest) []).
    destruct (union_fold_spec (d1 :: d2 :: rest) []) as [A B]. split.
    + intros k. rewrite A. split; [intros [[]|H]; exact H|auto].
    + intros _. apply B. constructor.
Qed.

(* Go ranges over the selector's label map in random order: the order of the arguments does not matter *)
Theorem intersection_perm : forall input input', Forall ssorted input -> Permutation input input' ->
  intersection input = intersection input'.
Proof.
  intros input input' Hs Hp.
  assert (Hs' : Forall ssorted input') by (eapply Forall_perm; eauto).
  destruct (intersection_spec _ Hs) as [r [E [S M]]].
  destruct (intersection_spec _ Hs') as [r' [E' [S' M']]].
  rewrite E, E'. f_equal.
  destruct input as [|d ds].
  - apply Permutation_nil in Hp. subst. cbn in E, E'. congruence.
  - assert (Hne' : input' <> []).
    { intros ->. apply Permutation_sym in Hp. apply Permutation_nil in Hp. discriminate. }
    apply ssorted_ext; auto. intros k. rewrite (M ltac:(discriminate) k), (M' Hne' k).
    split; intros H; [eapply Forall_perm; [exact Hp|exact H]|eapply Forall_perm; [apply Permutation_sym; exact Hp|exact H]].
Qed.
