(* TreeProofs.v — lemmas about Model/Tree.v *)
From Pyro Require Import Model.Base Model.Tree.

Lemma t_insert_path_total p v t : t_total (t_insert_path p v t) = t_total t + v.
Proof. destruct t, p; reflexivity. Qed.
