(* TreeProofs.v — lemmas about Model/Tree.v (profile tree: insert, merge, clone; merge pool). *)
From Pyro Require Import Model.Base Model.Tree.
From Coq Require Import Permutation ZifyN ZifyNat ZifyBool.
Local Ltac Zify.zify_post_hook ::= Z.div_mod_to_equations.

(* ------------------------------------------------------------------------------------------ *)
(* bytes.Compare is a strict total order                                                       *)

Lemma bcmp_refl a : bcmp a a = Eq.
Proof. induction a as [|x a IH]; cbn; [reflexivity|]. rewrite N.compare_refl. exact IH. Qed.

Lemma bcmp_eq a b : bcmp a b = Eq -> a = b.
Proof.
  revert b; induction a as [|x a IH]; intros [|y b]; cbn; try discriminate; [reflexivity|].
  destruct (N.compare_spec x y) as [->|H|H]; try discriminate.
  intros E. f_equal. apply IH, E.
Qed.

Lemma bcmp_antisym a b : bcmp b a = CompOpp (bcmp a b).
Proof.
  revert b; induction a as [|x a IH]; intros [|y b]; cbn; try reflexivity.
  rewrite (N.compare_antisym x y). destruct (N.compare x y); cbn; auto.
Qed.

Lemma bcmp_lt_gt a b : bcmp a b = Lt <-> bcmp b a = Gt.
Proof. rewrite (bcmp_antisym a b). destruct (bcmp a b); cbn; split; congruence. Qed.

Lemma bcmp_lt_trans a b c : bcmp a b = Lt -> bcmp b c = Lt -> bcmp a c = Lt.
Proof.
  revert b c; induction a as [|x a IH]; intros [|y b] [|z c]; cbn; try discriminate; auto.
  destruct (N.compare_spec x y) as [->|H|H]; try discriminate.
  - destruct (N.compare_spec y z) as [->|H'|H']; try discriminate; auto.
    intros; eapply IH; eauto.
  - intros _. destruct (N.compare_spec y z) as [->|H'|H']; try discriminate.
    + intros _. destruct (N.compare_spec x z); try lia; auto.
    + intros _. destruct (N.compare_spec x z); try lia; auto.
Qed.

Lemma beqb_true a b : beqb a b = true <-> a = b.
Proof.
  unfold beqb. split.
  - destruct (bcmp a b) eqn:E; try discriminate. intros _. apply bcmp_eq, E.
  - intros ->. rewrite bcmp_refl. reflexivity.
Qed.

Lemma beqb_refl a : beqb a a = true.
Proof. apply beqb_true; reflexivity. Qed.

Lemma beqb_false_lt a b : bcmp a b = Lt -> beqb a b = false.
Proof. unfold beqb. intros ->. reflexivity. Qed.
Lemma beqb_false_gt a b : bcmp a b = Gt -> beqb a b = false.
Proof. unfold beqb. intros ->. reflexivity. Qed.
Lemma beqb_sym a b : beqb a b = beqb b a.
Proof. unfold beqb. rewrite (bcmp_antisym a b). destruct (bcmp a b); reflexivity. Qed.

Lemma bltb_true a b : bltb a b = true <-> bcmp a b = Lt.
Proof. unfold bltb. destruct (bcmp a b); split; congruence. Qed.

(* ------------------------------------------------------------------------------------------ *)
(* induction principle for the nested tree type                                                *)

Section tnode_ind'.
  Variable P : tnode -> Prop.
  Hypothesis Hnode : forall n s t ch, Forall P ch -> P (TNode n s t ch).
  Fixpoint tnode_ind' (t : tnode) : P t :=
    match t with
    | TNode n s tot ch =>
        Hnode n s tot ch
          ((fix go (l : list tnode) : Forall P l :=
              match l with
              | [] => Forall_nil P
              | c :: l' => Forall_cons c (tnode_ind' c) (go l')
              end) ch)
    end.
End tnode_ind'.

(* ------------------------------------------------------------------------------------------ *)
(* sorted children lists                                                                       *)

(* every name in [ch] is greater than [n] *)
Definition all_gt (n : bytes) (ch : list tnode) : Prop := Forall (fun c => bcmp n (t_name c) = Lt) ch.

Lemma sorted_names_cons c ch :
  sorted_names (c :: ch) = true <-> all_gt (t_name c) ch /\ sorted_names ch = true.
Proof.
  revert c; induction ch as [|c' ch IH]; intros c.
  - cbn. split; [intros _; split; [constructor|reflexivity]|reflexivity].
  - change (sorted_names (c :: c' :: ch)) with (bltb (t_name c) (t_name c') && sorted_names (c' :: ch)).
    rewrite andb_true_iff, bltb_true. split.
    + intros [H1 H2]. split; [|exact H2].
      constructor; [exact H1|].
      apply IH in H2. destruct H2 as [H2 _].
      eapply Forall_impl; [|exact H2]. cbn. intros x Hx. eapply bcmp_lt_trans; eauto.
    + intros [H1 H2]. inversion H1; subst. split; assumption.
Qed.

Lemma all_gt_find n ch : all_gt n ch -> t_find n ch = None.
Proof.
  induction 1 as [|c ch H _ IH]; cbn; [reflexivity|].
  rewrite beqb_sym, (beqb_false_lt _ _ H). exact IH.
Qed.

Lemma all_gt_trans a b ch : bcmp a b = Lt -> all_gt b ch -> all_gt a ch.
Proof. intros H. apply Forall_impl. intros c. apply bcmp_lt_trans, H. Qed.

Lemma t_find_name l ch c : t_find l ch = Some c -> t_name c = l.
Proof.
  induction ch as [|x ch IH]; cbn; [discriminate|].
  destruct (beqb (t_name x) l) eqn:E; [|exact IH].
  intros [= <-]. apply beqb_true, E.
Qed.

Lemma t_find_in l ch c : t_find l ch = Some c -> In c ch.
Proof.
  induction ch as [|x ch IH]; cbn; [discriminate|].
  destruct (beqb (t_name x) l); [intros [= <-]; auto|auto].
Qed.

(* ------------------------------------------------------------------------------------------ *)
(* t_upd (treeNode.insert + update of the found child) on sorted lists                          *)

Definition keeps_name (f : tnode -> tnode) : Prop := forall c, t_name (f c) = t_name c.

Lemma t_upd_all_gt n m f ch :
  keeps_name f -> bcmp n m = Lt -> all_gt n ch -> all_gt n (t_upd m f ch).
Proof.
  intros Hf Hnm. induction 1 as [|c ch H Hall IH]; cbn.
  - constructor; [|constructor]. rewrite Hf. exact Hnm.
  - destruct (bcmp (t_name c) m) eqn:E.
    + constructor; [rewrite Hf; exact H|exact Hall].
    + constructor; [exact H|exact IH].
    + constructor; [rewrite Hf; exact Hnm|]. constructor; assumption.
Qed.

Lemma t_upd_sorted m f ch :
  keeps_name f -> sorted_names ch = true -> sorted_names (t_upd m f ch) = true.
Proof.
  intros Hf. induction ch as [|c ch IH]; intros Hs.
  - reflexivity.
  - cbn [t_upd]. apply sorted_names_cons in Hs. destruct Hs as [Hgt Hs].
    destruct (bcmp (t_name c) m) eqn:E.
    + apply sorted_names_cons. rewrite Hf. split; assumption.
    + apply sorted_names_cons. split; [|apply IH, Hs].
      apply t_upd_all_gt; assumption.
    + apply sorted_names_cons. rewrite Hf. cbn [t_new t_name]. split.
      * apply bcmp_lt_gt in E. constructor; [exact E|]. eapply all_gt_trans; eauto.
      * apply sorted_names_cons. split; assumption.
Qed.

Definition find_or_new (m : bytes) (ch : list tnode) : tnode :=
  match t_find m ch with Some c => c | None => t_new m end.

Lemma t_find_upd m f l ch :
  keeps_name f -> sorted_names ch = true ->
  t_find l (t_upd m f ch) = if beqb m l then Some (f (find_or_new m ch)) else t_find l ch.
Proof.
  intros Hf. unfold find_or_new. induction ch as [|c ch IH]; intros Hs.
  - cbn. rewrite Hf. cbn. destruct (beqb m l); reflexivity.
  - apply sorted_names_cons in Hs. destruct Hs as [Hgt Hs]. cbn [t_upd].
    destruct (bcmp (t_name c) m) eqn:E.
    + apply bcmp_eq in E. subst m. cbn [t_find]. rewrite Hf, beqb_refl.
      destruct (beqb (t_name c) l); reflexivity.
    + cbn [t_find]. rewrite (beqb_false_lt _ _ E). rewrite (IH Hs).
      destruct (beqb m l) eqn:El; [|reflexivity].
      apply beqb_true in El. subst l. rewrite (beqb_false_lt _ _ E). reflexivity.
    + cbn [t_find]. rewrite Hf. cbn [t_new t_name].
      rewrite (beqb_false_gt _ _ E).
      assert (Hn : t_find m ch = None).
      { apply all_gt_find. eapply all_gt_trans; [|exact Hgt]. apply bcmp_lt_gt, E. }
      rewrite Hn. destruct (beqb m l); reflexivity.
Qed.

Lemma t_upd_Forall (P : tnode -> Prop) m f ch :
  Forall P ch -> (forall c, P c -> P (f c)) -> P (t_new m) -> Forall P (t_upd m f ch).
Proof.
  intros H Hf Hn. induction H as [|c ch Hc Hall IH]; cbn.
  - constructor; [apply Hf, Hn|constructor].
  - destruct (bcmp (t_name c) m); constructor; auto.
Qed.

(* ------------------------------------------------------------------------------------------ *)
(* Tree.Merge                                                                                  *)

Definition merge_ch (sch dch : list tnode) : list tnode :=
  fold_left (fun dch sc => t_upd (t_name sc) (fun dc => t_merge dc sc) dch) sch dch.

Lemma t_merge_eq d s :
  t_merge d s = TNode (t_name d) (t_self d + t_self s) (t_total d + t_total s)
                      (merge_ch (t_ch s) (t_ch d)).
Proof.
  destruct d as [dn ds dt dch], s as [sn ss st sch]. cbn [t_merge t_name t_self t_total t_ch].
  reflexivity.
Qed.

Lemma t_merge_name d s : t_name (t_merge d s) = t_name d.
Proof. rewrite t_merge_eq. reflexivity. Qed.

Lemma merge_keeps_name s : keeps_name (fun d => t_merge d s).
Proof. intros d. apply t_merge_name. Qed.

Lemma t_wfb_eq t : t_wfb t = sorted_names (t_ch t) && forallb t_wfb (t_ch t).
Proof. destruct t; reflexivity. Qed.

Lemma t_wfb_iff t : t_wfb t = true <-> sorted_names (t_ch t) = true /\ Forall (fun c => t_wfb c = true) (t_ch t).
Proof. rewrite t_wfb_eq, andb_true_iff, forallb_forall, Forall_forall. reflexivity. Qed.

Lemma t_new_wfb n : t_wfb (t_new n) = true.
Proof. reflexivity. Qed.

Lemma merge_ch_wf sch dch :
  Forall (fun s => forall d, t_wfb d = true -> t_wfb s = true -> t_wfb (t_merge d s) = true) sch ->
  Forall (fun s => t_wfb s = true) sch ->
  sorted_names dch = true -> Forall (fun c => t_wfb c = true) dch ->
  sorted_names (merge_ch sch dch) = true /\ Forall (fun c => t_wfb c = true) (merge_ch sch dch).
Proof.
  intros HIH. revert dch. induction HIH as [|sc sch Hsc _ IH]; intros dch Hws Hs Hw.
  - cbn. split; assumption.
  - inversion Hws as [|? ? Hwsc Hws']; subst. unfold merge_ch. cbn [fold_left]. apply IH.
    + exact Hws'.
    + apply t_upd_sorted; [apply merge_keeps_name|exact Hs].
    + apply t_upd_Forall; [exact Hw| |].
      * intros c Hc. apply Hsc; assumption.
      * apply t_new_wfb.
Qed.

Lemma t_merge_wfb : forall s d, t_wfb d = true -> t_wfb s = true -> t_wfb (t_merge d s) = true.
Proof.
  induction s as [sn ss st sch IH] using tnode_ind'. intros d Hd Hs.
  rewrite t_merge_eq. apply t_wfb_iff. cbn [t_ch].
  apply t_wfb_iff in Hd. destruct Hd as [Hd1 Hd2].
  apply t_wfb_iff in Hs. cbn [t_ch] in Hs. destruct Hs as [Hs1 Hs2].
  apply merge_ch_wf; assumption.
Qed.

(* value of the merged children list at a name *)
Lemma merge_ch_find l sch dch :
  sorted_names sch = true -> sorted_names dch = true ->
  t_find l (merge_ch sch dch) =
    match t_find l sch with
    | None => t_find l dch
    | Some sc => Some (t_merge (find_or_new l dch) sc)
    end.
Proof.
  revert dch. induction sch as [|sc sch IH]; intros dch Hss Hsd; [reflexivity|].
  apply sorted_names_cons in Hss. destruct Hss as [Hgt Hss].
  unfold merge_ch. cbn [fold_left]. fold (merge_ch sch (t_upd (t_name sc) (fun dc => t_merge dc sc) dch)).
  rewrite IH; [|exact Hss|apply t_upd_sorted; [apply merge_keeps_name|exact Hsd]].
  cbn [t_find]. destruct (beqb (t_name sc) l) eqn:E.
  - apply beqb_true in E. subst l. rewrite (all_gt_find _ _ Hgt).
    rewrite t_find_upd; [|apply merge_keeps_name|exact Hsd]. rewrite beqb_refl. reflexivity.
  - destruct (t_find l sch) eqn:F.
    + unfold find_or_new. rewrite t_find_upd; [|apply merge_keeps_name|exact Hsd]. rewrite E. reflexivity.
    + rewrite t_find_upd; [|apply merge_keeps_name|exact Hsd]. rewrite E. reflexivity.
Qed.

(* pointwise sum of (self, total) pairs, None being "stack absent" *)
Definition oplus (a b : option (N * N)) : option (N * N) :=
  match a, b with
  | None, x => x
  | x, None => x
  | Some (s1, t1), Some (s2, t2) => Some (s1 + s2, t1 + t2)
  end.

Lemma oplus_comm a b : oplus a b = oplus b a.
Proof. destruct a as [[? ?]|], b as [[? ?]|]; cbn; try reflexivity. f_equal. f_equal; lia. Qed.
Lemma oplus_assoc a b c : oplus (oplus a b) c = oplus a (oplus b c).
Proof. destruct a as [[? ?]|], b as [[? ?]|], c as [[? ?]|]; cbn; try reflexivity. f_equal. f_equal; lia. Qed.
Lemma oplus_none_r a : oplus a None = a.
Proof. destruct a as [[? ?]|]; reflexivity. Qed.

Lemma t_at_new p n : t_at p (t_new n) = match p with [] => Some (0, 0) | _ => None end.
Proof. destruct p; reflexivity. Qed.

Lemma t_find_wfb l ch c : Forall (fun c => t_wfb c = true) ch -> t_find l ch = Some c -> t_wfb c = true.
Proof. intros H F. apply t_find_in in F. rewrite Forall_forall in H. auto. Qed.

(* (1) merge adds self and total stack by stack and changes nothing else *)
Lemma t_merge_at : forall s d p, t_wfb d = true -> t_wfb s = true ->
  t_at p (t_merge d s) = oplus (t_at p d) (t_at p s).
Proof.
  induction s as [sn ss st sch IH] using tnode_ind'. intros d p Hd Hs.
  rewrite t_merge_eq. destruct p as [|l p].
  - reflexivity.
  - cbn [t_at t_ch t_self t_total].
    apply t_wfb_iff in Hd. destruct Hd as [Hd1 Hd2].
    apply t_wfb_iff in Hs. cbn [t_ch] in Hs. destruct Hs as [Hs1 Hs2].
    rewrite merge_ch_find by assumption.
    destruct (t_find l sch) as [sc|] eqn:Fs.
    + assert (Hin := t_find_in _ _ _ Fs).
      rewrite Forall_forall in IH. rewrite (IH sc Hin).
      * unfold find_or_new. destruct (t_find l (t_ch d)) as [dc|] eqn:Fd; [reflexivity|].
        rewrite t_at_new. destruct p; [|reflexivity].
        cbn. destruct sc; cbn. reflexivity.
      * unfold find_or_new. destruct (t_find l (t_ch d)) as [dc|] eqn:Fd; [|apply t_new_wfb].
        exact (t_find_wfb _ _ _ Hd2 Fd).
      * exact (t_find_wfb _ _ _ Hs2 Fs).
    + destruct (t_find l (t_ch d)); [rewrite oplus_none_r|]; reflexivity.
Qed.

(* ------------------------------------------------------------------------------------------ *)
(* (2) extensionality: a well-formed tree is determined by its root name and its values at every
   path                                                                                         *)

Definition ch_at (l : bytes) (p : list bytes) (ch : list tnode) : option (N * N) :=
  match t_find l ch with None => None | Some c => t_at p c end.

Lemma t_at_nil t : t_at [] t = Some (t_self t, t_total t).
Proof. reflexivity. Qed.

Lemma ch_at_head c ch p : ch_at (t_name c) p (c :: ch) = t_at p c.
Proof. unfold ch_at. cbn. rewrite beqb_refl. reflexivity. Qed.

Lemma ch_at_all_gt l p ch : all_gt l ch -> ch_at l p ch = None.
Proof. intros H. unfold ch_at. rewrite (all_gt_find _ _ H). reflexivity. Qed.

Definition ext_at (a : tnode) : Prop :=
  forall b, t_wfb a = true -> t_wfb b = true -> t_name a = t_name b ->
            (forall p, t_at p a = t_at p b) -> a = b.

Lemma ch_ext ach : Forall ext_at ach -> forall bch,
  sorted_names ach = true -> sorted_names bch = true ->
  Forall (fun c => t_wfb c = true) ach -> Forall (fun c => t_wfb c = true) bch ->
  (forall l p, ch_at l p ach = ch_at l p bch) -> ach = bch.
Proof.
  induction 1 as [|c ach Hc _ IH]; intros [|c' bch] Hsa Hsb Hwa Hwb H.
  - reflexivity.
  - specialize (H (t_name c') []). rewrite ch_at_head in H. discriminate.
  - specialize (H (t_name c) []). rewrite ch_at_head in H. discriminate.
  - apply sorted_names_cons in Hsa. destruct Hsa as [Hga Hsa].
    apply sorted_names_cons in Hsb. destruct Hsb as [Hgb Hsb].
    inversion Hwa as [|? ? Hwc Hwa']; subst. inversion Hwb as [|? ? Hwc' Hwb']; subst.
    destruct (bcmp (t_name c) (t_name c')) eqn:E.
    + apply bcmp_eq in E.
      assert (c = c').
      { apply Hc; try assumption. intros p. specialize (H (t_name c) p).
        rewrite ch_at_head in H. rewrite E in H. rewrite ch_at_head in H. exact H. }
      subst c'. f_equal. apply IH; try assumption.
      intros l p. destruct (beqb (t_name c) l) eqn:El.
      * apply beqb_true in El. subst l. rewrite !ch_at_all_gt by assumption. reflexivity.
      * specialize (H l p). unfold ch_at in H. cbn [t_find] in H. rewrite El in H. exact H.
    + exfalso. specialize (H (t_name c) []). rewrite ch_at_head in H.
      rewrite ch_at_all_gt in H; [discriminate|].
      constructor; [exact E|]. eapply all_gt_trans; eauto.
    + exfalso. apply bcmp_lt_gt in E. specialize (H (t_name c') []). rewrite ch_at_head in H.
      rewrite ch_at_all_gt in H; [discriminate|].
      constructor; [exact E|]. eapply all_gt_trans; eauto.
Qed.

Lemma t_ext : forall a b, t_wfb a = true -> t_wfb b = true -> t_name a = t_name b ->
  (forall p, t_at p a = t_at p b) -> a = b.
Proof.
  induction a as [an as_ at_ ach IH] using tnode_ind'.
  intros [bn bs bt bch] Ha Hb Hn H. cbn in Hn. subst bn.
  assert (H0 := H []). cbn in H0. injection H0 as -> ->.
  f_equal.
  apply t_wfb_iff in Ha. destruct Ha as [Ha1 Ha2]. apply t_wfb_iff in Hb. destruct Hb as [Hb1 Hb2].
  cbn [t_ch] in *.
  apply ch_ext; try assumption.
  intros l p. exact (H (l :: p)).
Qed.

Lemma t_merge_comm a b : t_wfb a = true -> t_wfb b = true -> t_name a = t_name b ->
  t_merge a b = t_merge b a.
Proof.
  intros Ha Hb Hn. apply t_ext.
  - apply t_merge_wfb; assumption.
  - apply t_merge_wfb; assumption.
  - rewrite !t_merge_name. exact Hn.
  - intros p. rewrite !t_merge_at by assumption. apply oplus_comm.
Qed.

Lemma t_merge_assoc a b c : t_wfb a = true -> t_wfb b = true -> t_wfb c = true ->
  t_merge (t_merge a b) c = t_merge a (t_merge b c).
Proof.
  intros Ha Hb Hc. apply t_ext.
  - apply t_merge_wfb; [apply t_merge_wfb|]; assumption.
  - apply t_merge_wfb; [|apply t_merge_wfb]; assumption.
  - rewrite !t_merge_name. reflexivity.
  - intros p. rewrite !t_merge_at; try assumption; try (apply t_merge_wfb; assumption).
    apply oplus_assoc.
Qed.

(* ------------------------------------------------------------------------------------------ *)
(* (3) the merge pool: any worker count, any schedule = the serial fold                         *)

Definition osum (l : list (option (N * N))) : option (N * N) := fold_right oplus None l.

Lemma osum_cons x l : osum (x :: l) = oplus x (osum l).
Proof. reflexivity. Qed.

Lemma osum_app l1 l2 : osum (l1 ++ l2) = oplus (osum l1) (osum l2).
Proof.
  induction l1 as [|x l1 IH]; [reflexivity|].
  cbn [app]. rewrite !osum_cons, IH, oplus_assoc. reflexivity.
Qed.

Lemma osum_perm l l' : Permutation l l' -> osum l = osum l'.
Proof.
  induction 1 as [|x l l' _ IH|x y l|l l' l'' _ IH1 _ IH2]; rewrite ?osum_cons.
  - reflexivity.
  - rewrite IH. reflexivity.
  - rewrite <- !oplus_assoc. rewrite (oplus_comm y x). reflexivity.
  - congruence.
Qed.

Definition inW (n : bytes) (t : tnode) : Prop := t_wfb t = true /\ t_name t = n.

Lemma inW_merge n a b : inW n a -> inW n b -> inW n (t_merge a b).
Proof. intros [Ha Hna] [Hb Hnb]. split; [apply t_merge_wfb; assumption|]. rewrite t_merge_name. exact Hna. Qed.

Lemma fold_merge_inW n rest : forall t, inW n t -> Forall (inW n) rest -> inW n (fold_left t_merge rest t).
Proof.
  induction rest as [|r rest IH]; intros t Ht Hr; [exact Ht|].
  inversion Hr; subst. cbn. apply IH; [apply inW_merge|]; assumption.
Qed.

Lemma fold_merge_at n p rest : forall t, inW n t -> Forall (inW n) rest ->
  t_at p (fold_left t_merge rest t) = osum (map (t_at p) (t :: rest)).
Proof.
  induction rest as [|r rest IH]; intros t Ht Hr.
  - cbn. rewrite oplus_none_r. reflexivity.
  - inversion Hr as [|? ? Hr1 Hr2]; subst. cbn [fold_left]. rewrite IH; [|apply inW_merge; assumption|assumption].
    cbn [map osum fold_right]. rewrite t_merge_at; [|apply Ht|apply Hr1].
    rewrite oplus_assoc. reflexivity.
Qed.

Definition fly_trees (f : list (tnode * tnode)) : list tnode := flat_map (fun j => [fst j; snd j]) f.
Definition all_trees (s : pool_state) : list tnode := ps_pool s ++ fly_trees (ps_fly s).

Lemma fly_trees_app f g : fly_trees (f ++ g) = fly_trees f ++ fly_trees g.
Proof. unfold fly_trees. apply flat_map_app. Qed.

Lemma pool_queue_perm fuel conc : forall s, Permutation (all_trees (pool_queue fuel conc s)) (all_trees s).
Proof.
  induction fuel as [|fuel IH]; intros s; [reflexivity|].
  cbn [pool_queue]. destruct (ps_pool s) as [|a [|b rest]] eqn:Ep; try reflexivity.
  destruct (Nat.ltb (length (ps_fly s)) conc); [|reflexivity].
  rewrite IH. unfold all_trees. cbn [ps_pool ps_fly]. rewrite Ep, fly_trees_app. cbn [fly_trees flat_map fst snd app].
  change (a :: b :: rest ++ fly_trees (ps_fly s)) with ([a; b] ++ rest ++ fly_trees (ps_fly s)).
  rewrite (Permutation_app_comm (fly_trees (ps_fly s)) [a; b]).
  rewrite app_assoc. rewrite (Permutation_app_comm rest [a; b]). rewrite <- app_assoc. reflexivity.
Qed.

Lemma remove_nth_perm {A} (d : A) i : forall l, (i < length l)%nat -> Permutation l (nth i l d :: remove_nth i l).
Proof.
  induction i as [|i IH]; intros [|x l] Hl; cbn in *; try lia.
  - reflexivity.
  - rewrite perm_swap. constructor. apply IH. lia.
Qed.

Lemma remove_nth_length {A} i : forall l : list A, (i < length l)%nat -> (length (remove_nth i l) + 1 = length l)%nat.
Proof.
  induction i as [|i IH]; intros [|x l] Hl; cbn in *; try lia.
  specialize (IH l). lia.
Qed.

Definition pool_inv (n : bytes) (tries : list tnode) (s : pool_state) : Prop :=
  Forall (inW n) (all_trees s) /\
  forall p, osum (map (t_at p) (all_trees s)) = osum (map (t_at p) tries).

Lemma pool_inv_perm n tries s s' :
  Permutation (all_trees s') (all_trees s) -> pool_inv n tries s -> pool_inv n tries s'.
Proof.
  intros Hp [H1 H2]. split.
  - eapply Permutation_Forall; [symmetry; exact Hp|exact H1].
  - intros p. rewrite <- H2. apply osum_perm, Permutation_map, Hp.
Qed.

Lemma pool_finish_inv n tries c s : pool_inv n tries s -> pool_inv n tries (pool_finish c s).
Proof.
  intros Hinv. unfold pool_finish. destruct (ps_fly s) as [|j0 f] eqn:Ef; [exact Hinv|].
  rewrite <- Ef.
  set (i := Nat.modulo c (length (ps_fly s))).
  assert (Hi : (i < length (ps_fly s))%nat).
  { apply Nat.mod_upper_bound. rewrite Ef. cbn. lia. }
  set (j := nth i (ps_fly s) j0).
  assert (Hp : Permutation (all_trees s)
                 ([fst j; snd j] ++ ps_pool s ++ fly_trees (remove_nth i (ps_fly s)))).
  { unfold all_trees. rewrite app_assoc. rewrite (Permutation_app_comm [fst j; snd j]).
    rewrite <- app_assoc. apply Permutation_app_head.
    change ([fst j; snd j] ++ fly_trees (remove_nth i (ps_fly s))) with (fly_trees (j :: remove_nth i (ps_fly s))).
    unfold fly_trees. apply Permutation_flat_map. apply remove_nth_perm, Hi. }
  destruct Hinv as [H1 H2]. split.
  - unfold all_trees. cbn [ps_pool ps_fly].
    assert (H1' := Permutation_Forall Hp H1).
    cbn [app] in H1'. inversion H1' as [|? ? Ha H1'']; subst. inversion H1'' as [|? ? Hb H1''']; subst.
    constructor; [apply inW_merge; assumption|exact H1'''].
  - intros p. rewrite <- H2. rewrite (osum_perm _ _ (Permutation_map (t_at p) Hp)).
    unfold all_trees. cbn [ps_pool ps_fly app map osum fold_right].
    assert (H1' := Permutation_Forall Hp H1).
    cbn [app] in H1'. inversion H1' as [|? ? Ha H1'']; subst. inversion H1'' as [|? ? Hb _]; subst.
    rewrite t_merge_at; [|apply Ha|apply Hb]. rewrite oplus_assoc. reflexivity.
Qed.

Lemma pool_round_inv n tries conc c s : pool_inv n tries s -> pool_inv n tries (pool_round conc c s).
Proof.
  intros H. unfold pool_round. apply pool_finish_inv.
  eapply pool_inv_perm; [apply pool_queue_perm|exact H].
Qed.

Lemma pool_fold_inv n tries conc sched : forall s, pool_inv n tries s ->
  pool_inv n tries (fold_left (fun s c => pool_round conc c s) sched s).
Proof.
  induction sched as [|c sched IH]; intros s H; [exact H|].
  cbn. apply IH, pool_round_inv, H.
Qed.

Lemma pool_parallel conc sched n tries t :
  Forall (inW n) tries -> pool_run conc sched tries = Some t -> Some t = merge_serial tries.
Proof.
  intros Hw. unfold pool_run. destruct tries as [|t0 rest]; [discriminate|].
  set (s := fold_left _ sched _).
  assert (Hinv : pool_inv n (t0 :: rest) s).
  { apply pool_fold_inv. split; unfold all_trees; cbn [ps_pool ps_fly fly_trees flat_map]; rewrite app_nil_r; [exact Hw|reflexivity]. }
  destruct (ps_pool s) as [|t' [|? ?]] eqn:Ep; try discriminate.
  destruct (ps_fly s) eqn:Ef; try discriminate.
  intros [= <-]. cbn [merge_serial]. f_equal.
  destruct Hinv as [H1 H2]. unfold all_trees in H1, H2. rewrite Ep, Ef in H1, H2. cbn in H1, H2.
  inversion H1 as [|? ? Ht' _]; subst.
  inversion Hw as [|? ? Ht0 Hrest]; subst.
  assert (Hf := fold_merge_inW n rest t0 Ht0 Hrest).
  apply t_ext.
  - apply Ht'.
  - apply Hf.
  - destruct Ht' as [_ ->], Hf as [_ ->]. reflexivity.
  - intros p. rewrite (fold_merge_at n p rest t0 Ht0 Hrest). specialize (H2 p).
    rewrite oplus_none_r in H2. exact H2.
Qed.

(* the statement is not vacuous: a schedule with one choice per merge always ends with one tree *)
Definition pool_count (s : pool_state) : nat := (length (ps_pool s) + 2 * length (ps_fly s))%nat.

Lemma pool_queue_count fuel conc : forall s,
  pool_count (pool_queue fuel conc s) = pool_count s /\
  (length (ps_fly s) <= length (ps_fly (pool_queue fuel conc s)))%nat.
Proof.
  induction fuel as [|fuel IH]; intros s; [split; reflexivity|].
  cbn [pool_queue]. destruct (ps_pool s) as [|a [|b rest]] eqn:Ep; try (split; reflexivity).
  destruct (Nat.ltb (length (ps_fly s)) conc); [|split; reflexivity].
  destruct (IH {| ps_pool := rest; ps_fly := ps_fly s ++ [(a, b)] |}) as [IH1 IH2].
  rewrite IH1. unfold pool_count in *. cbn [ps_pool ps_fly] in *. rewrite Ep. rewrite app_length in *. cbn [length] in *.
  split; lia.
Qed.

Lemma pool_queue_S fuel conc s :
  pool_queue (S fuel) conc s =
    match ps_pool s with
    | a :: b :: rest =>
        if Nat.ltb (length (ps_fly s)) conc
        then pool_queue fuel conc {| ps_pool := rest; ps_fly := ps_fly s ++ [(a, b)] |}
        else s
    | _ => s
    end.
Proof. reflexivity. Qed.

Lemma pool_queue_fly conc s : (1 <= conc)%nat -> (2 <= pool_count s)%nat ->
  ps_fly (pool_queue (length (ps_pool s)) conc s) <> [].
Proof.
  intros Hc Hn. destruct (ps_fly s) as [|j f] eqn:Ef.
  - unfold pool_count in Hn. rewrite Ef in Hn. cbn in Hn.
    destruct (ps_pool s) as [|a [|b rest]] eqn:Ep; cbn in Hn; try lia.
    cbn [length]. rewrite pool_queue_S, Ep, Ef. cbn [length].
    replace (Nat.ltb 0 conc) with true by (symmetry; apply Nat.ltb_lt; lia).
    match goal with |- ps_fly (pool_queue ?f ?c ?s') <> [] =>
      destruct (pool_queue_count f c s') as [_ H] end.
    intros E. rewrite E in H. cbn in H. lia.
  - destruct (pool_queue_count (length (ps_pool s)) conc s) as [_ H].
    rewrite Ef in H. cbn [length] in H. intros E. rewrite E in H. cbn in H. lia.
Qed.

Lemma pool_round_count conc c s : (1 <= conc)%nat -> (2 <= pool_count s)%nat ->
  (pool_count (pool_round conc c s) + 1 = pool_count s)%nat.
Proof.
  intros Hc Hn. unfold pool_round.
  destruct (pool_queue_count (length (ps_pool s)) conc s) as [Hq _].
  assert (Hf := pool_queue_fly conc s Hc Hn).
  set (s' := pool_queue (length (ps_pool s)) conc s) in *.
  rewrite <- Hq. unfold pool_finish. destruct (ps_fly s') as [|j0 f] eqn:Ef; [congruence|].
  rewrite <- Ef. unfold pool_count. cbn [ps_pool ps_fly length].
  assert (Hi : (Nat.modulo c (length (ps_fly s')) < length (ps_fly s'))%nat).
  { apply Nat.mod_upper_bound. rewrite Ef. cbn. lia. }
  pose proof (remove_nth_length _ _ Hi). lia.
Qed.

Lemma pool_fold_count conc sched : (1 <= conc)%nat -> forall s,
  pool_count s = S (length sched) ->
  pool_count (fold_left (fun s c => pool_round conc c s) sched s) = 1%nat.
Proof.
  intros Hc. induction sched as [|c sched IH]; intros s Hs; [exact Hs|].
  cbn [fold_left]. apply IH. cbn [length] in Hs.
  pose proof (pool_round_count conc c s Hc). lia.
Qed.

Lemma pool_run_total conc sched tries : (1 <= conc)%nat -> tries <> [] ->
  length sched = (length tries - 1)%nat -> exists t, pool_run conc sched tries = Some t.
Proof.
  intros Hc Hne Hl. unfold pool_run. destruct tries as [|t0 rest]; [congruence|].
  set (s := fold_left _ sched _).
  assert (H : pool_count s = 1%nat).
  { apply pool_fold_count; [exact Hc|]. unfold pool_count. cbn [ps_pool ps_fly length] in *. lia. }
  unfold pool_count in H.
  destruct (ps_pool s) as [|t [|? ?]], (ps_fly s) as [|? ?]; cbn [length] in H; try lia.
  exists t. reflexivity.
Qed.

(* ------------------------------------------------------------------------------------------ *)
(* (4) consistency: total = self + children (insert, merge), total >= self + children (clone)   *)

Fixpoint t_relb (R : N -> N -> bool) (t : tnode) : bool :=
  match t with TNode _ s tot ch => R tot (s + ch_total ch) && forallb (t_relb R) ch end.

Lemma forallb_Forall_ext {A} (f g : A -> bool) l :
  Forall (fun x => f x = g x) l -> forallb f l = forallb g l.
Proof. induction 1 as [|x l H _ IH]; cbn; [reflexivity|]. rewrite H, IH. reflexivity. Qed.

Definition geb (tot x : N) : bool := N.leb x tot.

Lemma t_exactb_rel t : t_exactb t = t_relb N.eqb t.
Proof.
  induction t as [n s tot ch IH] using tnode_ind'. cbn [t_exactb t_relb]. f_equal.
  apply forallb_Forall_ext, IH.
Qed.

Lemma t_subb_rel t : t_subb t = t_relb geb t.
Proof.
  induction t as [n s tot ch IH] using tnode_ind'. cbn [t_subb t_relb]. f_equal.
  apply forallb_Forall_ext, IH.
Qed.

Lemma ch_total_cons c ch : ch_total (c :: ch) = t_total c + ch_total ch.
Proof. reflexivity. Qed.

Lemma ch_total_upd l f delta ch :
  (forall c, t_total (f c) = t_total c + delta) -> ch_total (t_upd l f ch) = ch_total ch + delta.
Proof.
  intros Hf. induction ch as [|c ch IH]; cbn [t_upd].
  - rewrite ch_total_cons, Hf. cbn. lia.
  - destruct (bcmp (t_name c) l); rewrite !ch_total_cons.
    + rewrite Hf. lia.
    + rewrite IH. lia.
    + rewrite Hf. cbn [t_new t_total]. lia.
Qed.

Lemma t_insert_path_name p v t : t_name (t_insert_path p v t) = t_name t.
Proof. destruct t, p; reflexivity. Qed.

Lemma t_insert_path_total p v t : t_total (t_insert_path p v t) = t_total t + v.
Proof. destruct t, p; reflexivity. Qed.

Lemma t_merge_total d s : t_total (t_merge d s) = t_total d + t_total s.
Proof. rewrite t_merge_eq. reflexivity. Qed.

Lemma ch_total_merge_ch sch : forall dch, ch_total (merge_ch sch dch) = ch_total dch + ch_total sch.
Proof.
  induction sch as [|sc sch IH]; intros dch.
  - unfold merge_ch. cbn [fold_left]. change (ch_total []) with 0. lia.
  - unfold merge_ch. cbn [fold_left]. fold (merge_ch sch (t_upd (t_name sc) (fun dc => t_merge dc sc) dch)).
    rewrite IH, (ch_total_upd _ _ (t_total sc)); [rewrite ch_total_cons; lia|].
    intros c. apply t_merge_total.
Qed.

Section Rel.
  Variable R : N -> N -> bool.
  Hypothesis R_refl : forall v, R v v = true.
  Hypothesis R_add : forall x y x' y', R x y = true -> R x' y' = true -> R (x + x') (y + y') = true.

  Lemma t_relb_iff t :
    t_relb R t = true <->
    R (t_total t) (t_self t + ch_total (t_ch t)) = true /\ Forall (fun c => t_relb R c = true) (t_ch t).
  Proof. destruct t. cbn [t_relb t_total t_self t_ch]. rewrite andb_true_iff, forallb_forall, Forall_forall. reflexivity. Qed.

  Lemma t_new_rel n : t_relb R (t_new n) = true.
  Proof. cbn. rewrite R_refl. reflexivity. Qed.

  Lemma t_insert_path_rel : forall p v t, t_relb R t = true -> t_relb R (t_insert_path p v t) = true.
  Proof.
    induction p as [|l p IH]; intros v [n s tot ch] H; apply t_relb_iff in H; cbn [t_total t_self t_ch] in H;
      destruct H as [H1 H2]; cbn [t_insert_path]; apply t_relb_iff; cbn [t_total t_self t_ch].
    - split; [|exact H2]. replace (s + v + ch_total ch) with (s + ch_total ch + v) by lia.
      apply R_add; [exact H1|apply R_refl].
    - split.
      + rewrite (ch_total_upd _ _ v); [|intros c; apply t_insert_path_total].
        replace (s + (ch_total ch + v)) with (s + ch_total ch + v) by lia.
        apply R_add; [exact H1|apply R_refl].
      + apply t_upd_Forall; [exact H2| |apply t_new_rel]. intros c Hc. apply IH, Hc.
  Qed.

  Lemma merge_ch_rel sch :
    Forall (fun s => forall d, t_relb R d = true -> t_relb R s = true -> t_relb R (t_merge d s) = true) sch ->
    Forall (fun s => t_relb R s = true) sch -> forall dch,
    Forall (fun c => t_relb R c = true) dch -> Forall (fun c => t_relb R c = true) (merge_ch sch dch).
  Proof.
    induction 1 as [|sc sch Hsc _ IH]; intros Hs dch Hd; [exact Hd|].
    inversion Hs as [|? ? Hs1 Hs2]; subst.
    unfold merge_ch. cbn [fold_left]. apply (IH Hs2).
    apply t_upd_Forall; [exact Hd| |apply t_new_rel]. intros c Hc. apply Hsc; assumption.
  Qed.

  Lemma t_merge_rel : forall s d, t_relb R d = true -> t_relb R s = true -> t_relb R (t_merge d s) = true.
  Proof.
    induction s as [sn ss st sch IH] using tnode_ind'. intros d Hd Hs.
    rewrite t_merge_eq. apply t_relb_iff. cbn [t_total t_self t_ch].
    apply t_relb_iff in Hd. destruct Hd as [Hd1 Hd2].
    apply t_relb_iff in Hs. cbn [t_total t_self t_ch] in Hs. destruct Hs as [Hs1 Hs2].
    split.
    - rewrite ch_total_merge_ch.
      replace (t_self d + ss + (ch_total (t_ch d) + ch_total sch))
        with ((t_self d + ch_total (t_ch d)) + (ss + ch_total sch)) by lia.
      apply R_add; assumption.
    - apply merge_ch_rel; assumption.
  Qed.
End Rel.

Lemma eqb_refl' v : N.eqb v v = true. Proof. apply N.eqb_refl. Qed.
Lemma eqb_add x y x' y' : N.eqb x y = true -> N.eqb x' y' = true -> N.eqb (x + x') (y + y') = true.
Proof. rewrite !N.eqb_eq. lia. Qed.
Lemma geb_refl v : geb v v = true. Proof. unfold geb. apply N.leb_refl. Qed.
Lemma geb_add x y x' y' : geb x y = true -> geb x' y' = true -> geb (x + x') (y + y') = true.
Proof. unfold geb. rewrite !N.leb_le. lia. Qed.

Lemma t_insert_path_exact p v t : t_exactb t = true -> t_exactb (t_insert_path p v t) = true.
Proof. rewrite !t_exactb_rel. apply t_insert_path_rel; [apply eqb_refl'|apply eqb_add]. Qed.
Lemma t_insert_path_sub p v t : t_subb t = true -> t_subb (t_insert_path p v t) = true.
Proof. rewrite !t_subb_rel. apply t_insert_path_rel; [apply geb_refl|apply geb_add]. Qed.
Lemma t_merge_exact d s : t_exactb d = true -> t_exactb s = true -> t_exactb (t_merge d s) = true.
Proof. rewrite !t_exactb_rel. apply t_merge_rel; [apply eqb_refl'|apply eqb_add]. Qed.
Lemma t_merge_sub d s : t_subb d = true -> t_subb s = true -> t_subb (t_merge d s) = true.
Proof. rewrite !t_subb_rel. apply t_merge_rel; [apply geb_refl|apply geb_add]. Qed.

Lemma t_insert_exact k v t : t_exactb t = true -> t_exactb (t_insert k v t) = true.
Proof. apply t_insert_path_exact. Qed.
Lemma t_insert_sub k v t : t_subb t = true -> t_subb (t_insert k v t) = true.
Proof. apply t_insert_path_sub. Qed.

Lemma t_exact_sub : forall t, t_exactb t = true -> t_subb t = true.
Proof.
  induction t as [n s tot ch IH] using tnode_ind'. cbn [t_exactb t_subb].
  rewrite !andb_true_iff, !forallb_forall, N.eqb_eq, N.leb_le. intros [H1 H2]. split; [lia|].
  rewrite Forall_forall in IH. intros c Hc. apply IH; auto.
Qed.

Lemma t_insert_path_wfb : forall p v t, t_wfb t = true -> t_wfb (t_insert_path p v t) = true.
Proof.
  induction p as [|l p IH]; intros v [n s tot ch] H; [exact H|].
  cbn [t_insert_path]. apply t_wfb_iff. apply t_wfb_iff in H. cbn [t_ch] in *. destruct H as [H1 H2]. split.
  - apply t_upd_sorted; [|exact H1]. intros c. apply t_insert_path_name.
  - apply t_upd_Forall; [exact H2| |apply t_new_wfb]. intros c Hc. apply IH, Hc.
Qed.

Lemma t_insert_wfb k v t : t_wfb t = true -> t_wfb (t_insert k v t) = true.
Proof. apply t_insert_path_wfb. Qed.

(* every tree built by insertions from the empty tree is well formed and exact *)
Lemma t_build_ok (ss : list (bytes * N)) :
  let t := fold_left (fun t kv => t_insert (fst kv) (snd kv) t) ss t_empty in
  t_wfb t = true /\ t_exactb t = true /\ t_name t = [].
Proof.
  cbn zeta. assert (H0 : t_wfb t_empty = true /\ t_exactb t_empty = true /\ t_name t_empty = []) by (repeat split).
  revert H0. generalize t_empty. induction ss as [|kv ss IH]; intros t H; [exact H|].
  cbn [fold_left]. apply IH. destruct H as (H1 & H2 & H3). repeat split.
  - apply t_insert_wfb, H1.
  - apply t_insert_exact, H2.
  - unfold t_insert. rewrite t_insert_path_name. exact H3.
Qed.

(* floor arithmetic of clone *)
Lemma floor_add a b d : d <> 0 -> a / d + b / d <= (a + b) / d.
Proof.
  intros Hd. apply N.div_le_lower_bound; [exact Hd|].
  pose proof (N.mul_div_le a d Hd). pose proof (N.mul_div_le b d Hd). lia.
Qed.

Lemma floor_sum m d l : d <> 0 -> sumN (map (fun x => x * m / d) l) <= sumN l * m / d.
Proof.
  intros Hd. induction l as [|x l IH]; cbn [map sumN fold_right].
  - cbn. apply N.le_0_l.
  - fold (sumN (map (fun x => x * m / d) l)). fold (sumN l).
    etransitivity; [apply N.add_le_mono_l, IH|].
    replace ((x + sumN l) * m) with (x * m + sumN l * m) by lia. apply floor_add, Hd.
Qed.

Lemma t_clone_eq m d t :
  t_clone m d t = TNode (t_name t) (t_self t * m / d) (t_total t * m / d) (map (t_clone m d) (t_ch t)).
Proof. destruct t; reflexivity. Qed.

Lemma t_clone_name m d t : t_name (t_clone m d t) = t_name t.
Proof. rewrite t_clone_eq. reflexivity. Qed.

Lemma ch_total_clone m d ch : ch_total (map (t_clone m d) ch) = sumN (map (fun x => x * m / d) (map t_total ch)).
Proof.
  unfold ch_total. rewrite !map_map. f_equal. apply map_ext. intros c. rewrite t_clone_eq. reflexivity.
Qed.

Lemma t_clone_sub m d : d <> 0 -> forall t, t_subb t = true -> t_subb (t_clone m d t) = true.
Proof.
  intros Hd. induction t as [n s tot ch IH] using tnode_ind'. cbn [t_subb t_clone].
  rewrite !andb_true_iff, !forallb_forall, !N.leb_le. intros [H1 H2]. split.
  - rewrite ch_total_clone. etransitivity; [apply N.add_le_mono_l, floor_sum, Hd|].
    fold (ch_total ch). etransitivity; [apply floor_add, Hd|].
    apply N.div_le_mono; [exact Hd|]. replace (s * m + ch_total ch * m) with ((s + ch_total ch) * m) by lia.
    apply N.mul_le_mono_r, H1.
  - intros c' Hc'. apply in_map_iff in Hc'. destruct Hc' as (c & <- & Hc).
    rewrite Forall_forall in IH. apply IH; auto.
Qed.

(* (5) clone keeps names and shape, each value becomes floor(v*m/d) *)
Lemma t_find_clone m d l ch : t_find l (map (t_clone m d) ch) = option_map (t_clone m d) (t_find l ch).
Proof.
  induction ch as [|c ch IH]; cbn [map t_find]; [reflexivity|].
  rewrite t_clone_name. destruct (beqb (t_name c) l); [reflexivity|exact IH].
Qed.

Definition scale2 (m d : N) (x : N * N) : N * N := (fst x * m / d, snd x * m / d).

Lemma t_clone_at m d : forall p t, t_at p (t_clone m d t) = option_map (scale2 m d) (t_at p t).
Proof.
  induction p as [|l p IH]; intros t; rewrite t_clone_eq.
  - reflexivity.
  - cbn [t_at t_ch]. rewrite t_find_clone. destruct (t_find l (t_ch t)) as [c|]; cbn [option_map]; [apply IH|reflexivity].
Qed.

Lemma sorted_names_clone m d ch : sorted_names (map (t_clone m d) ch) = sorted_names ch.
Proof.
  induction ch as [|c ch IH]; [reflexivity|].
  destruct ch as [|c' ch]; [reflexivity|].
  change (bltb (t_name (t_clone m d c)) (t_name (t_clone m d c')) && sorted_names (map (t_clone m d) (c' :: ch))
          = bltb (t_name c) (t_name c') && sorted_names (c' :: ch)).
  rewrite IH, !t_clone_name. reflexivity.
Qed.

Lemma forallb_map' {A B} (f : A -> B) g l : forallb g (map f l) = forallb (fun x => g (f x)) l.
Proof. induction l as [|x l IH]; cbn; [reflexivity|]. rewrite IH. reflexivity. Qed.

Lemma t_clone_wfb m d : forall t, t_wfb (t_clone m d t) = t_wfb t.
Proof.
  induction t as [n s tot ch IH] using tnode_ind'. cbn [t_clone t_wfb].
  rewrite sorted_names_clone. f_equal. rewrite forallb_map'. apply forallb_Forall_ext, IH.
Qed.

Lemma t_clone_size m d : forall t, t_size (t_clone m d t) = t_size t.
Proof.
  induction t as [n s tot ch IH] using tnode_ind'. cbn [t_clone t_size]. f_equal.
  induction IH as [|c ch Hc _ IH']; cbn [map fold_right]; [reflexivity|]. rewrite Hc, IH'. reflexivity.
Qed.

(* ------------------------------------------------------------------------------------------ *)
(* corollaries in terms of self / total at a stack, and order independence of the serial fold   *)

Lemma t_merge_self_at a b p : t_wfb a = true -> t_wfb b = true ->
  t_self_at p (t_merge a b) = t_self_at p a + t_self_at p b.
Proof.
  intros Ha Hb. unfold t_self_at. rewrite t_merge_at by assumption.
  destruct (t_at p a) as [[? ?]|], (t_at p b) as [[? ?]|]; cbn; lia.
Qed.

Lemma t_merge_total_at a b p : t_wfb a = true -> t_wfb b = true ->
  t_total_at p (t_merge a b) = t_total_at p a + t_total_at p b.
Proof.
  intros Ha Hb. unfold t_total_at. rewrite t_merge_at by assumption.
  destruct (t_at p a) as [[? ?]|], (t_at p b) as [[? ?]|]; cbn; lia.
Qed.

(* a stack is present in the merge iff it is present in one of the inputs: "nothing else changes" *)
Lemma t_merge_at_none a b p : t_wfb a = true -> t_wfb b = true ->
  (t_at p (t_merge a b) = None <-> t_at p a = None /\ t_at p b = None).
Proof.
  intros Ha Hb. rewrite t_merge_at by assumption.
  destruct (t_at p a) as [[? ?]|], (t_at p b) as [[? ?]|]; cbn; split; try tauto; try discriminate;
    intros [? ?]; discriminate.
Qed.

Lemma merge_serial_perm n l l' : Forall (inW n) l -> Permutation l l' -> merge_serial l = merge_serial l'.
Proof.
  intros Hl Hp. assert (Hl' : Forall (inW n) l') by (eapply Permutation_Forall; eauto).
  destruct l as [|t rest], l' as [|t' rest'].
  - reflexivity.
  - apply Permutation_nil in Hp. discriminate.
  - symmetry in Hp. apply Permutation_nil in Hp. discriminate.
  - cbn [merge_serial]. f_equal.
    inversion Hl as [|? ? Ht Hrest]; subst. inversion Hl' as [|? ? Ht' Hrest']; subst.
    assert (H1 := fold_merge_inW n rest t Ht Hrest). assert (H2 := fold_merge_inW n rest' t' Ht' Hrest').
    apply t_ext; [apply H1|apply H2| |].
    + destruct H1 as [_ ->], H2 as [_ ->]. reflexivity.
    + intros p. rewrite (fold_merge_at n p rest t Ht Hrest), (fold_merge_at n p rest' t' Ht' Hrest').
      apply osum_perm, Permutation_map, Hp.
Qed.
