(* C02StorageReload.v — cache transparency at storage level: replacing, at any points of a history, any subset
   of the stored trees by their reloaded form (decode . encode, Proofs/TreeReloadProofs.v: t_reload) never
   changes what the operations return: Put results, Get trees per stack, timelines and metadata literally.
   Segments are reloaded exactly (C14 codec_roundtrip), so a reload leaves the segment table alone. *)
From Pyro Require Import Model.Base Model.Varint Model.Tree Model.Cappedarr Model.Dict Model.TreeCodec
  Model.Segment Model.Timeline Model.Storage
  Proofs.TreeProofs Proofs.TreeCodecProofs Proofs.TreeReloadProofs Proofs.StorageProofs Proofs.RetentionProofs.
From Coq Require Import ZifyN ZifyNat ZifyBool Lia.
Local Open Scope Z_scope.

(* ---- the perturbation: the trees under the selected keys are replaced by their reloaded form ---- *)
Definition reload_entry (sel : tkey -> bool) (kt : tkey * tnode) : tkey * tnode :=
  if sel (fst kt) then (fst kt, t_reload (snd kt)) else kt.

Definition st_reload (sel : tkey -> bool) (st : st_state) : st_state :=
  {| st_segs := st_segs st; st_trees := map (reload_entry sel) (st_trees st) |}.

(* histories with reloads inserted anywhere *)
Inductive pop := PO (o : st_op) | PReload (sel : tkey -> bool).

Fixpoint p_run (rt : option Z) (pops : list pop) (st : st_state) : st_state * list st_out :=
  match pops with
  | [] => (st, [])
  | PO o :: r =>
      let '(st1, out) := st_step rt st o in
      let '(st2, outs) := p_run rt r st1 in
      (st2, out :: outs)
  | PReload sel :: r => p_run rt r (st_reload sel st)
  end.

Definition strip (pops : list pop) : list st_op :=
  flat_map (fun x => match x with PO o => [o] | PReload _ => [] end) pops.

(* ---- the relation between the perturbed and the unperturbed run ---- *)
Definition good_tree (t : tnode) : Prop := inW [] t /\ t_subb t = true.
Definition good_trees (trees : list (tkey * tnode)) : Prop :=
  forall key tr, tree_lookup key trees = Some tr -> good_tree tr.

Definition rel (st1 st2 : st_state) : Prop :=
  st_segs st1 = st_segs st2 /\
  (forall key, seq (tree_get key (st_trees st1)) (tree_get key (st_trees st2))) /\
  good_trees (st_trees st1) /\ good_trees (st_trees st2).

Definition out_equiv (o1 o2 : st_out) : Prop :=
  match o1, o2 with
  | OutPut b1, OutPut b2 => b1 = b2
  | OutGet None, OutGet None => True
  | OutGet (Some a), OutGet (Some b) =>
      seq (go_tree a) (go_tree b) /\ go_timeline a = go_timeline b /\ go_meta a = go_meta b
  | OutUnit, OutUnit => True
  | _, _ => False
  end.

Lemma good_empty : good_tree t_empty.
Proof. split; [split; reflexivity|reflexivity]. Qed.

Lemma good_get trees key : good_trees trees -> good_tree (tree_get key trees).
Proof. intros H. unfold tree_get. destruct (tree_lookup key trees) as [tr|] eqn:E; [eapply H; eauto|apply good_empty]. Qed.

Lemma good_TW trees : good_trees trees -> TW trees.
Proof. intros H key tr E. apply (H key tr E). Qed.

Lemma good_reload t : good_tree t -> good_tree (t_reload t).
Proof.
  intros [[Hw Hn] Hs]. split; [split|].
  - apply reload_wf, Hw.
  - unfold t_reload. rewrite retotal_name, prune_name. exact Hn.
  - apply t_exact_sub. unfold t_reload. apply t_retotal_exact.
Qed.

Lemma good_merge a b : good_tree a -> good_tree b -> good_tree (t_merge a b).
Proof. intros [Ha Hsa] [Hb Hsb]. split; [apply inW_merge; assumption|apply t_merge_sub; assumption]. Qed.

Lemma good_clone m d t : d <> 0%N -> good_tree t -> good_tree (t_clone m d t).
Proof. intros Hd [Hw Hs]. split; [apply inW_clone, Hw|apply t_clone_sub; assumption]. Qed.

Lemma good_clone_any m d t : inW [] t -> inW [] (t_clone m d t).
Proof. apply inW_clone. Qed.

(* ---- the reload step ---- *)
Lemma tree_lookup_reload sel trees key :
  tree_lookup key (map (reload_entry sel) trees) =
  option_map (fun t => if sel key then t_reload t else t) (tree_lookup key trees).
Proof.
  induction trees as [|[k t] trees IH]; [reflexivity|]. cbn [map]. unfold reload_entry at 1. cbn [fst snd].
  destruct (sel k) eqn:Es; cbn [tree_lookup]; destruct (tkey_eqb key k) eqn:E; try exact IH;
    apply tkey_eqb_true in E; subst k; cbn [option_map]; rewrite Es; reflexivity.
Qed.

Lemma rel_reload sel st1 st2 : rel st1 st2 -> rel (st_reload sel st1) st2.
Proof.
  intros (Hs & Ht & G1 & G2). split; [exact Hs|]. split; [|split; [|exact G2]].
  - intros key. cbn [st_reload st_trees]. unfold tree_get at 1. rewrite tree_lookup_reload.
    specialize (Ht key). unfold tree_get at 1 in Ht.
    destruct (tree_lookup key (st_trees st1)) as [t|] eqn:E; cbn [option_map]; [|exact Ht].
    destruct (sel key); [|exact Ht]. eapply seq_trans; [apply reload_seq, (G1 key t E)|exact Ht].
  - intros key tr. cbn [st_reload st_trees]. rewrite tree_lookup_reload.
    destruct (tree_lookup key (st_trees st1)) as [t|] eqn:E; cbn [option_map]; [|discriminate].
    intros [= <-]. destruct (sel key); [apply good_reload|]; exact (G1 key t E).
Qed.

(* ---- Put ---- *)
Definition ok_put (pi : put_input) : Prop := fst (pi_ab pi) < snd (pi_ab pi) /\ good_tree (pi_tree pi).

Lemma fold_addons_seq k t1 t2 (addons : list (nat * Z)) : good_trees t1 -> good_trees t2 ->
  (forall key, seq (tree_get key t1) (tree_get key t2)) -> forall c1 c2, good_tree c1 -> good_tree c2 -> seq c1 c2 ->
  let r1 := fold_left (fun cl a => t_merge cl (tree_get (k, fst a, snd a) t1)) addons c1 in
  let r2 := fold_left (fun cl a => t_merge cl (tree_get (k, fst a, snd a) t2)) addons c2 in
  good_tree r1 /\ good_tree r2 /\ seq r1 r2.
Proof.
  intros G1 G2 Ht. induction addons as [|a l IH]; intros c1 c2 H1 H2 Hc; cbn zeta; cbn [fold_left]; [auto|].
  pose proof (good_get t1 (k, fst a, snd a) G1) as A1. pose proof (good_get t2 (k, fst a, snd a) G2) as A2.
  apply IH; [apply good_merge; assumption|apply good_merge; assumption|].
  apply merge_seq; try (apply H1 || apply H2 || apply A1 || apply A2); [exact Hc|apply Ht].
Qed.

Lemma put_cb_rel k prof a b t1 t2 c : a < b -> good_tree prof -> cb_shape a b c ->
  good_trees t1 -> good_trees t2 -> (forall key, seq (tree_get key t1) (tree_get key t2)) ->
  good_trees (put_cb_apply k prof t1 c) /\ good_trees (put_cb_apply k prof t2 c) /\
  forall key, seq (tree_get key (put_cb_apply k prof t1 c)) (tree_get key (put_cb_apply k prof t2 c)).
Proof.
  intros Hab Hp [Hd _] G1 G2 Ht. unfold put_cb_apply.
  set (cl := t_clone (Z.to_N (pc_m c)) (Z.to_N (pc_d c)) prof).
  assert (Hcl : good_tree cl) by (apply good_clone; [rewrite Hd; lia|exact Hp]).
  destruct (fold_addons_seq k t1 t2 (pc_addons c) G1 G2 Ht cl cl Hcl Hcl (seq_refl cl)) as (R1 & R2 & Rs). cbn zeta in R1, R2, Rs.
  set (tk := (k, pc_lvl c, pc_t c)).
  pose proof (good_get t1 tk G1) as O1. pose proof (good_get t2 tk G2) as O2.
  split; [|split].
  - intros key tr. rewrite tree_lookup_store. destruct (tkey_eqb key tk); [intros [= <-]; exact (good_merge _ _ O1 R1)|apply G1].
  - intros key tr. rewrite tree_lookup_store. destruct (tkey_eqb key tk); [intros [= <-]; exact (good_merge _ _ O2 R2)|apply G2].
  - intros key. rewrite !tree_get_store. destruct (tkey_eqb key tk); [|apply Ht].
    apply merge_seq; try (apply O1 || apply O2 || apply R1 || apply R2); [apply Ht|exact Rs].
Qed.

Lemma put_cbs_rel k prof a b cbs : a < b -> good_tree prof -> Forall (cb_shape a b) cbs -> forall t1 t2,
  good_trees t1 -> good_trees t2 -> (forall key, seq (tree_get key t1) (tree_get key t2)) ->
  good_trees (fold_left (put_cb_apply k prof) cbs t1) /\ good_trees (fold_left (put_cb_apply k prof) cbs t2) /\
  forall key, seq (tree_get key (fold_left (put_cb_apply k prof) cbs t1)) (tree_get key (fold_left (put_cb_apply k prof) cbs t2)).
Proof.
  intros Hab Hp. induction 1 as [|c cbs Hc _ IH]; intros t1 t2 G1 G2 Ht; [auto|]. cbn [fold_left].
  destruct (put_cb_rel k prof a b t1 t2 c Hab Hp Hc G1 G2 Ht) as (A & B & C). apply IH; assumption.
Qed.

Lemma rel_put rt pi st1 st2 : ok_put pi -> rel st1 st2 ->
  rel (fst (st_put rt pi st1)) (fst (st_put rt pi st2)) /\ snd (st_put rt pi st1) = snd (st_put rt pi st2).
Proof.
  intros [Hab Hp] (Hs & Ht & G1 & G2).
  assert (Hnone : rel (fst (st_put None pi st1)) (fst (st_put None pi st2)) /\ snd (st_put None pi st1) = snd (st_put None pi st2)).
  { rewrite !st_put_none. cbn [fst snd]. split; [|reflexivity].
    assert (Hres : pi_res pi st1 = pi_res pi st2) by (unfold pi_res, pi_seg0; rewrite Hs; reflexivity).
    destruct (put_cbs_rel (sid_key (pi_sid pi)) (pi_tree pi) (fst (pi_ab pi)) (snd (pi_ab pi)) (snd (pi_res pi st1)) Hab Hp
                (s_put_shape _ _ _ _) (st_trees st1) (st_trees st2) G1 G2 Ht) as (A & B & C).
    split; cbn [st_segs st_trees]; [rewrite Hs, Hres; reflexivity|]. rewrite <- Hres. auto. }
  destruct rt as [thr|]; [|exact Hnone].
  destruct (Z.ltb_spec (pi_from pi) thr) as [H|H].
  - rewrite !retention_reject by exact H. split; [exact (conj Hs (conj Ht (conj G1 G2)))|reflexivity].
  - rewrite !retention_accept by exact H. exact Hnone.
Qed.

(* ---- Get ---- *)
Definition pair_ok (x y : tnode) : Prop := inW [] x /\ inW [] y /\ seq x y.

Lemma fold_merge_seq l1 l2 : Forall2 pair_ok l1 l2 -> forall t1 t2, pair_ok t1 t2 ->
  pair_ok (fold_left t_merge l1 t1) (fold_left t_merge l2 t2).
Proof.
  induction 1 as [|x y l1 l2 (Hx & Hy & Hxy) _ IH]; intros t1 t2 (H1 & H2 & H12); [exact (conj H1 (conj H2 H12))|].
  cbn [fold_left]. apply IH. split; [apply inW_merge; assumption|]. split; [apply inW_merge; assumption|].
  apply merge_seq; try (apply H1 || apply H2 || apply Hx || apply Hy); assumption.
Qed.

Lemma parts_rel a b m t1 t2 : good_trees t1 -> good_trees t2 -> (forall key, seq (tree_get key t1) (tree_get key t2)) ->
  Forall2 pair_ok (map fst (get_parts a b m t1)) (map fst (get_parts a b m t2)) /\
  map snd (get_parts a b m t1) = map snd (get_parts a b m t2).
Proof.
  intros G1 G2 Ht. unfold get_parts. induction m as [|ks m [IH1 IH2]]; [split; [constructor|reflexivity]|].
  cbn [flat_map]. rewrite !map_app, IH2. split.
  - apply Forall2_app; [|exact IH1]. induction (s_get a b (snd ks)) as [|c l IHl]; [constructor|]. cbn [map fst]. constructor; [|exact IHl].
    split; [apply inW_clone, (good_get t1 _ G1)|]. split; [apply inW_clone, (good_get t2 _ G2)|]. apply clone_seq, Ht.
  - f_equal. rewrite !map_map. reflexivity.
Qed.

Lemma rel_get sel from until st1 st2 : rel st1 st2 ->
  out_equiv (OutGet (st_get sel from until st1)) (OutGet (st_get sel from until st2)).
Proof.
  intros (Hs & Ht & G1 & G2). rewrite !st_get_eq. cbv zeta. unfold st_matching. rewrite Hs.
  set (ab := s_normalize_unix (from, until)). set (m := filter _ (st_segs st2)).
  destruct (parts_rel (fst ab) (snd ab) m (st_trees st1) (st_trees st2) G1 G2 Ht) as [P1 P2]. rewrite P2.
  destruct (map fst (get_parts (fst ab) (snd ab) m (st_trees st1))) as [|x l1];
    destruct (map fst (get_parts (fst ab) (snd ab) m (st_trees st2))) as [|y l2]; inversion P1; subst; cbn [merge_serial out_equiv]; [exact I|].
  cbn [go_tree go_timeline go_meta]. split; [|split; reflexivity].
  match goal with Hxy : pair_ok x y, Hl : Forall2 pair_ok l1 l2 |- _ => destruct (fold_merge_seq l1 l2 Hl x y Hxy) as (_ & _ & Hseq) end.
  destruct (_ && _); [apply clone_seq|]; exact Hseq.
Qed.

(* ---- Delete, retention ---- *)
Lemma tree_get_remove k trees key : tree_get key (tree_remove k trees) = if tkey_eqb k key then t_empty else tree_get key trees.
Proof. unfold tree_get. rewrite tree_lookup_remove. destruct (tkey_eqb k key); reflexivity. Qed.

Lemma good_remove k trees : good_trees trees -> good_trees (tree_remove k trees).
Proof. intros H key tr. rewrite tree_lookup_remove. destruct (tkey_eqb k key); [discriminate|apply H]. Qed.

Lemma removes_rel {A} (f : A -> tkey) cbs : forall t1 t2, good_trees t1 -> good_trees t2 ->
  (forall key, seq (tree_get key t1) (tree_get key t2)) ->
  let r1 := fold_left (fun tr c => tree_remove (f c) tr) cbs t1 in
  let r2 := fold_left (fun tr c => tree_remove (f c) tr) cbs t2 in
  good_trees r1 /\ good_trees r2 /\ forall key, seq (tree_get key r1) (tree_get key r2).
Proof.
  induction cbs as [|c cbs IH]; intros t1 t2 G1 G2 Ht; cbn zeta; cbn [fold_left]; [auto|].
  apply IH; [apply good_remove, G1|apply good_remove, G2|].
  intros key. rewrite !tree_get_remove. destruct (tkey_eqb (f c) key); [apply seq_refl|apply Ht].
Qed.

Lemma rel_delete_series st1 st2 ks : rel st1 st2 -> rel (st_delete_series st1 ks) (st_delete_series st2 ks).
Proof.
  intros (Hs & Ht & G1 & G2). rewrite !st_delete_series_eq.
  destruct (removes_rel (fun c => (sid_key (fst ks), fst c, snd c)) (del_cbs (snd ks)) _ _ G1 G2 Ht) as (A & B & C).
  split; cbn [st_segs st_trees]; [rewrite Hs; reflexivity|auto].
Qed.

Lemma rel_retention_series thr st1 st2 ks : rel st1 st2 -> rel (st_retention_series thr st1 ks) (st_retention_series thr st2 ks).
Proof.
  intros (Hs & Ht & G1 & G2). rewrite !st_retention_series_eq.
  destruct (removes_rel (fun c => (sid_key (fst ks), fst c, snd c)) (ret_cbs thr (snd ks)) _ _ G1 G2 Ht) as (A & B & C).
  split; cbn [st_segs st_trees]; [rewrite Hs; reflexivity|auto].
Qed.

Lemma rel_fold {A} (f : st_state -> A -> st_state) l :
  (forall s1 s2 x, rel s1 s2 -> rel (f s1 x) (f s2 x)) -> forall s1 s2, rel s1 s2 -> rel (fold_left f l s1) (fold_left f l s2).
Proof. intros Hf. induction l as [|x l IH]; intros s1 s2 H; [exact H|]. cbn [fold_left]. apply IH, Hf, H. Qed.

(* ---- one step, whole histories ---- *)
Definition ok_op (o : st_op) : Prop := match o with OpPut pi => ok_put pi | _ => True end.
Definition ok_pop (x : pop) : Prop := match x with PO o => ok_op o | PReload _ => True end.

Lemma rel_step rt st1 st2 o : ok_op o -> rel st1 st2 ->
  rel (fst (st_step rt st1 o)) (fst (st_step rt st2 o)) /\ out_equiv (snd (st_step rt st1 o)) (snd (st_step rt st2 o)).
Proof.
  intros Hok H. destruct o as [pi|sel f u|sel|thr]; cbn [st_step].
  - destruct (rel_put rt pi st1 st2 Hok H) as [H1 H2].
    destruct (st_put rt pi st1) as [a1 b1], (st_put rt pi st2) as [a2 b2]. cbn [fst snd] in *. split; [exact H1|exact H2].
  - cbn [fst snd]. split; [exact H|apply rel_get, H].
  - cbn [fst snd]. split; [|exact I]. unfold st_delete. destruct H as (Hs & Hr). rewrite Hs.
    apply rel_fold; [intros; apply rel_delete_series; assumption|exact (conj Hs Hr)].
  - cbn [fst snd]. split; [|exact I]. unfold st_retention. destruct H as (Hs & Hr). rewrite Hs.
    apply rel_fold; [intros; apply rel_retention_series; assumption|exact (conj Hs Hr)].
Qed.

Lemma rel_init : rel st_init st_init.
Proof. split; [reflexivity|]. split; [intros key; apply seq_refl|]. split; intros key tr; discriminate. Qed.

Lemma p_run_rel rt pops : Forall ok_pop pops -> forall st1 st2, rel st1 st2 ->
  rel (fst (p_run rt pops st1)) (fst (st_run rt (strip pops) st2)) /\
  Forall2 out_equiv (snd (p_run rt pops st1)) (snd (st_run rt (strip pops) st2)).
Proof.
  induction 1 as [|x pops Hx _ IH]; intros st1 st2 H; [split; [exact H|constructor]|].
  destruct x as [o|sel]; cbn [p_run strip flat_map app].
  - cbn [st_run]. destruct (rel_step rt st1 st2 o Hx H) as [R1 R2].
    destruct (st_step rt st1 o) as [a1 o1], (st_step rt st2 o) as [a2 o2]. cbn [fst snd] in R1, R2.
    destruct (IH a1 a2 R1) as [I1 I2]. fold (strip pops).
    destruct (p_run rt pops a1) as [b1 r1], (st_run rt (strip pops) a2) as [b2 r2]. cbn [fst snd] in *.
    split; [exact I1|constructor; assumption].
  - apply IH. apply rel_reload, H.
Qed.

(* C02_storage_reload_transparent *)
Theorem storage_reload_transparent rt pops : Forall ok_pop pops ->
  Forall2 out_equiv (snd (p_run rt pops st_init)) (snd (st_run rt (strip pops) st_init)).
Proof. intros H. apply (p_run_rel rt pops H st_init st_init rel_init). Qed.

(* spelled out for a query placed anywhere: per stack the same counts, literally the same timeline and metadata *)
Theorem storage_reload_get rt pops sel from until : Forall ok_pop pops ->
  out_equiv (OutGet (st_get sel from until (fst (p_run rt pops st_init))))
            (OutGet (st_get sel from until (fst (st_run rt (strip pops) st_init)))).
Proof. intros H. apply rel_get. apply (p_run_rel rt pops H st_init st_init rel_init). Qed.

(* ---- non-vacuity: an upload over two slots with odd counts leaves floor-scaled (non exact) trees in the
   store; reloading every tree changes the stored totals, yet the query answers the same per stack ---- *)
Definition ex_sid : sid := {| sid_key := [102;111;111;123;125]%N; sid_app := [102;111;111]%N; sid_tags := [] |}.
Definition ex_meta : meta := {| m_spy := []; m_rate := 100%N; m_units := []; m_agg := [115;117;109]%N |}.
Definition ex_up (f u : Z) (ss : list (bytes * N)) : put_input :=
  {| pi_sid := ex_sid; pi_from := f; pi_until := u;
     pi_tree := fold_left (fun t kv => t_insert (fst kv) (snd kv) t) ss t_empty; pi_meta := ex_meta |}.
Definition ex_pops : list pop :=
  [ PO (OpPut (ex_up 1600000000 1600000020 [([97;59;98]%N, 3%N); ([97;59;99]%N, 5%N)]));
    PReload (fun _ => true);
    PO (OpPut (ex_up 1600000010 1600000020 [([97;59;98]%N, 1%N)]));
    PReload (fun k => Nat.eqb (snd (fst k)) 0);
    PO (OpGet ex_sid 1600000000 1600000020) ].

Example storage_reload_nonvacuous :
  Forall ok_pop ex_pops /\
  (* the first reload really changes the store *)
  st_trees (st_reload (fun _ => true) (fst (p_run None [PO (OpPut (ex_up 1600000000 1600000020 [([97;59;98]%N, 3%N); ([97;59;99]%N, 5%N)]))] st_init)))
    <> st_trees (fst (p_run None [PO (OpPut (ex_up 1600000000 1600000020 [([97;59;98]%N, 3%N); ([97;59;99]%N, 5%N)]))] st_init)) /\
  match snd (p_run None ex_pops st_init), snd (st_run None (strip ex_pops) st_init) with
  | [_; _; OutGet (Some a)], [_; _; OutGet (Some b)] =>
      t_self_at [[97]%N; [98]%N] (go_tree a) = 3%N /\ t_self_at [[97]%N; [98]%N] (go_tree b) = 3%N /\
      t_self_at [[97]%N; [99]%N] (go_tree a) = 4%N /\ go_tree a <> go_tree b
  | _, _ => False
  end.
Proof.
  split; [|split].
  - assert (Hput : forall f u ss, fst (pi_ab (ex_up f u ss)) <? snd (pi_ab (ex_up f u ss)) = true ->
                     t_wfb (pi_tree (ex_up f u ss)) = true -> t_name (pi_tree (ex_up f u ss)) = [] ->
                     t_subb (pi_tree (ex_up f u ss)) = true -> ok_pop (PO (OpPut (ex_up f u ss)))).
    { intros f u ss H1 H2 H3 H4. cbn [ok_pop ok_op]. split; [lia|]. split; [split; assumption|assumption]. }
    unfold ex_pops. apply Forall_cons; [apply Hput; vm_compute; reflexivity|]. apply Forall_cons; [exact I|].
    apply Forall_cons; [apply Hput; vm_compute; reflexivity|]. apply Forall_cons; [exact I|]. apply Forall_cons; [exact I|]. apply Forall_nil.
  - vm_compute. discriminate.
  - vm_compute. repeat split; discriminate.
Qed.
