(* C01History.v — query exactness after ANY history of ingests (accepted or refused by the retention guard),
   queries and deletes: a query returns, per stack, the exact sum over the uploads that are still LIVE —
   accepted, and not removed by a later delete whose selector matches their series.  The history is first
   normalised to the state after the live uploads alone (C11_delete_state, step by step), then C01_exact applies.
   [live_rev] is the recursion of Corr/StorCorr.v [live_puts] (reversed history, accumulating the later deletes)
   transported to st_op histories; [live_uploads] lists its result in chronological order. *)
From Pyro Require Import Model.Base Model.Tree Model.Segment Model.Timeline Model.Storage
  Proofs.TreeProofs Proofs.SegStruct Proofs.StorageProofs Proofs.TimelineCoarse Corr.StorCorr.
From Coq Require Import ZifyN ZifyNat ZifyBool Lia.
Local Open Scope Z_scope.

(* the retention guard of Put *)
Definition accepted (rt : option Z) (pi : put_input) : bool :=
  match rt with Some thr => negb (pi_from pi <? thr) | None => true end.

Definition deleted_by (D : list sid) (pi : put_input) : bool := existsb (fun d => sel_matches d (pi_sid pi)) D.

(* same recursion as StorCorr.live_puts: latest operation first, [D] = selectors of the later deletes *)
Fixpoint live_rev (rt : option Z) (rev_ops : list st_op) (D : list sid) : list put_input :=
  match rev_ops with
  | [] => []
  | OpPut pi :: rest =>
      if accepted rt pi && negb (deleted_by D pi) then pi :: live_rev rt rest D else live_rev rt rest D
  | OpDelete d :: rest => live_rev rt rest (d :: D)
  | _ :: rest => live_rev rt rest D
  end.

(* the live uploads of a history, oldest first *)
Definition live_uploads (rt : option Z) (ops : list st_op) : list put_input := rev (live_rev rt (rev ops) []).

(* the same set computed forwards: what each operation does to the list of live uploads *)
Definition live_step (rt : option Z) (L : list put_input) (o : st_op) : list put_input :=
  match o with
  | OpPut pi => if accepted rt pi then L ++ [pi] else L
  | OpDelete d => filter (keep d) L
  | _ => L
  end.

Lemma live_rev_forward rt ops : forall D,
  rev (live_rev rt (rev ops) D) = filter (fun pi => negb (deleted_by D pi)) (fold_left (live_step rt) ops []).
Proof.
  induction ops as [|o ops IH] using rev_ind; intros D; [reflexivity|].
  rewrite rev_app_distr, fold_left_app. cbn [rev app fold_left live_rev].
  destruct o as [pi|sel f u|d|thr]; cbn [live_step].
  - destruct (accepted rt pi) eqn:Ea; cbn [andb]; [|apply IH].
    rewrite filter_app. cbn [filter]. destruct (deleted_by D pi); cbn [negb rev]; [rewrite app_nil_r; apply IH|rewrite IH; reflexivity].
  - apply IH.
  - rewrite IH, filter_filter_andb. apply filter_ext. intros pi. unfold deleted_by, keep. cbn [existsb]. rewrite negb_orb. reflexivity.
  - apply IH.
Qed.

Lemma live_uploads_forward rt ops : live_uploads rt ops = fold_left (live_step rt) ops [].
Proof.
  unfold live_uploads. rewrite live_rev_forward. apply filter_all. intros x _. reflexivity.
Qed.

(* ---- normalising the history ---- *)
Definition hist_op (K : Z) (o : st_op) : Prop :=
  match o with OpPut pi => exact_put K pi | OpRetention _ => False | _ => True end.

Lemma key_consistent_incl l1 l2 : incl l1 l2 -> key_consistent l2 -> key_consistent l1.
Proof. intros Hi Hc pi pi' H1 H2. apply Hc; apply Hi; assumption. Qed.

Lemma puts_of_cons o ops : puts_of (o :: ops) = match o with OpPut pi => [pi] | _ => [] end ++ puts_of ops.
Proof. reflexivity. Qed.

Lemma accepted_put rt pi st : accepted rt pi = true -> st_put rt pi st = st_put None pi st.
Proof. destruct rt as [thr|]; [|reflexivity]. cbn [accepted]. intros H. apply retention_accept. lia. Qed.

Lemma refused_put rt pi st : accepted rt pi = false -> st_put rt pi st = (st, false).
Proof. destruct rt as [thr|]; [|discriminate]. cbn [accepted]. intros H. apply retention_reject. lia. Qed.

Lemma st_equiv_refl st : st_equiv st st.
Proof. split; [reflexivity|intros key; reflexivity]. Qed.
Lemma st_equiv_trans s1 s2 s3 : st_equiv s1 s2 -> st_equiv s2 s3 -> st_equiv s1 s3.
Proof. intros [H1 H2] [G1 G2]. split; [congruence|intros key; rewrite H2; apply G2]. Qed.

Lemma history_normal K rt : block_deletable K -> forall ops L st,
  Forall (hist_op K) ops -> Forall (exact_put K) L -> key_consistent (L ++ puts_of ops) ->
  st_equiv st (st_after L) ->
  st_equiv (fst (st_run rt ops st)) (st_after (fold_left (live_step rt) ops L)) /\
  incl (fold_left (live_step rt) ops L) (L ++ puts_of ops).
Proof.
  intros HK. induction ops as [|o ops IH]; intros L st Hops HL Hc Heq.
  - cbn. split; [exact Heq|]. rewrite app_nil_r. apply incl_refl.
  - inversion Hops as [|? ? Ho Hops']; subst. cbn [st_run fold_left]. rewrite puts_of_cons in Hc |- *.
    assert (Hstep : st_equiv (fst (st_step rt st o)) (st_after (live_step rt L o)) /\ Forall (exact_put K) (live_step rt L o) /\
                    incl (live_step rt L o ++ puts_of ops) (L ++ match o with OpPut pi => [pi] | _ => [] end ++ puts_of ops)).
    { destruct o as [pi|sel f u|d|thr]; cbn [st_step live_step hist_op] in *.
      - destruct (accepted rt pi) eqn:Ea.
        + rewrite (accepted_put rt pi st Ea). destruct (st_put_equiv None pi st (st_after L) Heq) as [E1 _].
          destruct (st_put None pi st) as [st1 ok]. cbn [fst] in *. split; [rewrite st_after_snoc; exact E1|]. split.
          * apply Forall_app. split; [exact HL|constructor; [exact Ho|constructor]].
          * rewrite <- app_assoc. apply incl_refl.
        + rewrite (refused_put rt pi st Ea). cbn [fst]. split; [exact Heq|]. split; [exact HL|].
          apply incl_app; [apply incl_appl, incl_refl|apply incl_appr, incl_appr, incl_refl].
      - cbn [fst app]. split; [exact Heq|]. split; [exact HL|apply incl_refl].
      - cbn [fst app]. split; [|split].
        + eapply st_equiv_trans.
          * destruct (st_step_equiv rt st (st_after L) (OpDelete d) Heq) as [E _]. exact E.
          * cbn [st_step fst]. apply (delete_complete K); [exact HK| |].
            -- eapply Forall_impl; [|exact HL]. intros pi H. apply H.
            -- eapply key_consistent_incl; [|exact Hc]. apply incl_appl, incl_refl.
        + apply Forall_forall. intros pi Hpi. apply filter_In in Hpi. rewrite Forall_forall in HL. apply HL, Hpi.
        + apply incl_app; [|apply incl_appr, incl_refl]. apply incl_appl. intros pi Hpi. apply filter_In in Hpi. apply Hpi.
      - destruct Ho. }
    destruct Hstep as (E1 & HL1 & Hi1). destruct (st_step rt st o) as [st1 out]. cbn [fst] in E1.
    destruct (IH (live_step rt L o) st1 Hops' HL1 (key_consistent_incl _ _ Hi1 Hc) E1) as [E2 Hi2].
    destruct (st_run rt ops st1) as [st2 outs]. cbn [fst] in *. split; [exact E2|].
    eapply incl_tran; [exact Hi2|exact Hi1].
Qed.

Lemma history_live K rt ops : block_deletable K -> Forall (hist_op K) ops -> key_consistent (puts_of ops) ->
  st_equiv (fst (st_run rt ops st_init)) (st_after (live_uploads rt ops)) /\
  incl (live_uploads rt ops) (puts_of ops) /\ Forall (exact_put K) (live_uploads rt ops).
Proof.
  intros HK Hops Hc. rewrite live_uploads_forward.
  destruct (history_normal K rt HK ops [] st_init Hops (Forall_nil _) Hc (st_equiv_refl _)) as [E Hi]. cbn [app] in Hi.
  split; [exact E|]. split; [exact Hi|]. apply Forall_forall. intros pi Hpi. apply Hi in Hpi.
  clear -Hpi Hops. induction Hops as [|o ops Ho _ IH]; [destruct Hpi|]. rewrite puts_of_cons in Hpi. apply in_app_or in Hpi.
  destruct Hpi as [Hpi|Hpi]; [|apply IH, Hpi]. destruct o; try destruct Hpi as [<-|[]]; try destruct Hpi. exact Ho.
Qed.

(* C01_exact_history *)
Theorem exact_history K rt ops sel from until p :
  block_deletable K -> Forall (hist_op K) ops -> key_consistent (puts_of ops) -> no_average (puts_of ops) ->
  let ab := s_normalize_unix (from, until) in
  fst ab < snd ab ->
  let S := sumZ (map (StorageProofs.contrib p (fst ab) (snd ab)) (filter (fun pi => sel_matches sel (pi_sid pi)) (live_uploads rt ops))) in
  match st_get sel from until (fst (st_run rt ops st_init)) with
  | Some out => Z.of_N (t_self_at p (go_tree out)) = S
  | None => S = 0
  end.
Proof.
  intros HK Hops Hc Hna ab Hab S. destruct (history_live K rt ops HK Hops Hc) as (E & Hi & Hex).
  rewrite (st_get_equiv sel from until _ _ E).
  apply (get_exact_closed K (live_uploads rt ops) sel from until p Hex); [| |exact Hab].
  - eapply key_consistent_incl; [exact Hi|exact Hc].
  - intros pi Hpi. apply Hna, Hi, Hpi.
Qed.

(* ---- the checker's history-level function (Corr/StorCorr.v live_puts) is this recursion ---- *)
Definition put_of (s : sid) (f u : Z) (ss : list (bytes * N)) (m : meta) : put_input :=
  {| pi_sid := s; pi_from := f; pi_until := u; pi_tree := build_tree ss; pi_meta := m |}.

Definition op_of_hop (h : hop) : list st_op :=
  match h with
  | HPut s f u ss m _ _ => [OpPut (put_of s f u ss m)]
  | HGet sel f u _ => [OpGet sel f u]
  | HDelete d => [OpDelete d]
  | HRetention thr => [OpRetention thr]
  | HNop => []
  end.

(* the observed accept/reject flag of every Put is the retention guard's decision *)
Definition hop_guard (rt : option Z) (h : hop) : Prop :=
  match h with HPut s f u ss m _ ok => ok = accepted rt (put_of s f u ss m) | _ => True end.

Lemma live_puts_live_rev rt sel rev_hs : Forall (hop_guard rt) rev_hs -> forall D,
  map (fun x => match x with (s, f, u, ss, m) => put_of s f u ss m end) (live_puts sel rev_hs D) =
  filter (fun pi => sel_matches sel (pi_sid pi)) (live_rev rt (flat_map op_of_hop rev_hs) D).
Proof.
  induction 1 as [|h hs Hh _ IH]; intros D; [reflexivity|].
  destruct h as [s f u ss m thr ok|sel' f u obs|d|thr|]; cbn [live_puts flat_map op_of_hop app live_rev]; try apply IH.
  cbn [hop_guard] in Hh. subst ok. unfold deleted_by. cbn [put_of pi_sid].
  destruct (accepted rt (put_of s f u ss m)) eqn:Ea; cbn [andb]; [|apply IH].
  destruct (existsb (fun d => sel_matches d s) D) eqn:Ed.
  - rewrite andb_false_r. cbn [negb]. apply IH.
  - rewrite andb_true_r. cbn [negb filter pi_sid put_of]. destruct (sel_matches sel s); [cbn [map]; rewrite IH; reflexivity|apply IH].
Qed.

Example live_uploads_vs_live_puts :
  let foo := {| sid_key := [102;111;111;123;125]%N; sid_app := [102;111;111]%N; sid_tags := [] |} in
  let bar := {| sid_key := [98;97;114;123;125]%N; sid_app := [98;97;114]%N; sid_tags := [] |} in
  let m := {| m_spy := []; m_rate := 100%N; m_units := []; m_agg := [115;117;109]%N |} in
  let hs := [HPut foo 1600000000 1600000010 [([97]%N, 6%N)] m None true; HPut bar 1600000000 1600000010 [([98]%N, 3%N)] m None true;
             HDelete foo; HNop; HPut foo 1600000010 1600000020 [([97]%N, 4%N)] m None true;
             HGet foo 1600000000 1600000020 None; HPut foo 1600000020 1600000030 [([97]%N, 1%N)] m None true] in
  let ops := flat_map op_of_hop hs in
  map pi_from (live_uploads None ops) = [1600000000; 1600000010; 1600000020] /\
  map pi_sid (live_uploads None ops) = [bar; foo; foo] /\
  map (fun x => match x with (s, f, u, ss, m) => put_of s f u ss m end) (live_puts foo (rev hs) []) =
  rev (filter (fun pi => sel_matches foo (pi_sid pi)) (live_uploads None ops)).
Proof. vm_compute. repeat split. Qed.

(* metadata over histories: when exactly one live series matches, the metadata is that of its latest live upload *)
Lemma meta_history K rt ops sel from until ks out :
  block_deletable K -> Forall (hist_op K) ops -> key_consistent (puts_of ops) ->
  st_matching sel (st_after (live_uploads rt ops)) = [ks] ->
  st_get sel from until (fst (st_run rt ops st_init)) = Some out ->
  exists pi, last_put (sid_key (fst ks)) (live_uploads rt ops) = Some pi /\ go_meta out = pi_meta pi.
Proof.
  intros HK Hops Hc Hm Hg. destruct (history_live K rt ops HK Hops Hc) as (E & _ & _).
  rewrite (st_get_equiv sel from until _ _ E) in Hg. exact (get_meta _ sel from until ks out Hm Hg).
Qed.
