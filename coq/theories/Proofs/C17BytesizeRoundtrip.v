(* C17BytesizeRoundtrip.v — ByteSize.String followed by bytesize.Parse: the round trip stays within half a unit of the last
   printed digit, plus the truncation, plus an explicit binary64 slack.  Model: Model/TimeParse.v. *)
From Pyro Require Import Model.Base Model.TimeParse Proofs.TimeParseProofs.
From Coq Require Import ZifyBool ZifyNat ZifyN QArith Lqa.
Local Open Scope Z_scope.

(* ------------------------------------------------------------------------------------------------ *)
(* 1. rne: the rounded value is within a relative 2^-51 of the argument (coarse; 2^-53 holds but is not needed) *)

Definition p51 : Z := 2251799813685248.   (* 2^51 *)

Lemma pow2_split : forall x y, 0 <= x -> 0 <= y -> 2 ^ (x + y) = 2 ^ x * 2 ^ y.
Proof. intros. apply Z.pow_add_r; assumption. Qed.

Lemma rne_spec : forall num den, 0 < num -> 0 < den ->
  let x := rne num den in
  0 < snd x /\ 0 <= fst x /\
  fst x * den * p51 <= num * snd x * (p51 + 1) /\ num * snd x * (p51 - 1) <= fst x * den * p51.
Proof.
  intros num den Hn Hd. unfold rne. replace (num <=? 0) with false by lia.
  set (a := Z.log2 num). set (bb := Z.log2 den).
  destruct (Z.log2_spec num Hn) as [Ha1 Ha2]. destruct (Z.log2_spec den Hd) as [Hb1 Hb2]. fold a in Ha1, Ha2. fold bb in Hb1, Hb2.
  assert (Ha0 : 0 <= a) by apply Z.log2_nonneg. assert (Hb0 : 0 <= bb) by apply Z.log2_nonneg.
  set (e1 := a - bb - 52).
  match goal with |- context [if ?c then e1 - 1 else e1] => set (e := if c then e1 - 1 else e1) end.
  assert (He : e <= e1) by (unfold e; match goal with |- context [if ?c then _ else _] => destruct c end; lia).
  clearbody e. cbv zeta.
  set (n := if 0 <=? e then num else num * 2 ^ (- e)). set (D := if 0 <=? e then den * 2 ^ e else den).
  (* n / D >= 2^51 *)
  assert (HD : 0 < D).
  { unfold D. destruct (0 <=? e) eqn:E; [|lia]. apply Z.mul_pos_pos; [lia|]. apply Z.pow_pos_nonneg; lia. }
  assert (Hp51 : p51 = 2 ^ 51) by reflexivity.
  assert (Hbig : p51 * D <= n).
  { unfold n, D. destruct (0 <=? e) eqn:E.
    - assert (H1 : den * 2 ^ e * p51 <= 2 ^ (bb + 1) * 2 ^ (e + 51)).
      { rewrite Hp51, (pow2_split e 51) by lia. rewrite Z.mul_assoc. apply Z.mul_le_mono_nonneg_r; [lia|].
        apply Z.mul_le_mono_nonneg_r; [apply Z.pow_nonneg; lia|lia]. }
      rewrite <- pow2_split in H1 by lia.
      assert (H2 : 2 ^ (bb + 1 + (e + 51)) <= 2 ^ a) by (apply Z.pow_le_mono_r; unfold e1 in He; lia).
      replace (p51 * (den * 2 ^ e)) with (den * 2 ^ e * p51) by ring. lia.
    - assert (H1 : den * p51 <= 2 ^ (bb + 1) * 2 ^ 51) by (rewrite Hp51; apply Z.mul_le_mono_nonneg_r; lia).
      rewrite <- pow2_split in H1 by lia.
      assert (H2 : 2 ^ (bb + 1 + 51) <= 2 ^ (a + - e)) by (apply Z.pow_le_mono_r; unfold e1 in He; lia).
      rewrite (pow2_split a (- e)) in H2 by lia.
      assert (H3 : 2 ^ a * 2 ^ (- e) <= num * 2 ^ (- e)) by (apply Z.mul_le_mono_nonneg_r; [apply Z.pow_nonneg; lia|lia]).
      replace (p51 * den) with (den * p51) by ring. lia. }
  (* the rounded quotient is within one of the quotient *)
  set (q := n / D). set (r := n mod D).
  assert (Hdm : n = D * q + r /\ 0 <= r < D) by (split; [apply Z_div_mod_eq_full|apply Z.mod_pos_bound; exact HD]).
  destruct Hdm as [Hnq Hr].
  match goal with |- context [if ?c then q + 1 else q] => set (q' := if c then q + 1 else q) end.
  assert (Hq' : q' = q \/ q' = q + 1) by (unfold q'; match goal with |- context [if ?c then _ else _] => destruct c end; auto).
  assert (Hq0 : 0 <= q) by (apply Z.div_pos; unfold p51 in *; lia).
  assert (Hclose : n - D <= q' * D <= n + D) by (destruct Hq' as [-> | ->]; nia).
  clearbody q'.
  assert (Hq'0 : 0 <= q') by lia.
  assert (Hp : 0 < p51) by (unfold p51; lia).
  destruct (0 <=? e) eqn:E; cbn [fst snd].
  - subst n D. cbv iota in *.
    assert (Hpe : 0 < 2 ^ e) by (apply Z.pow_pos_nonneg; lia).
    split; [lia|]. split; [apply Z.mul_nonneg_nonneg; lia|].
    replace (q' * 2 ^ e * den) with (q' * (den * 2 ^ e)) by ring. nia.
  - subst n D. cbv iota in *.
    assert (Hpe : 0 < 2 ^ (- e)) by (apply Z.pow_pos_nonneg; lia).
    split; [exact Hpe|]. split; [exact Hq'0|]. nia.
Qed.

(* ------------------------------------------------------------------------------------------------ *)
(* 2. decimal printing *)

Lemma digit_char : forall r, 0 <= r <= 9 -> is_digit (Z.to_N (48 + r)) = true /\ digit_val (Z.to_N (48 + r)) = r.
Proof. intros r H. unfold is_digit, digit_val. split; lia. Qed.

Lemma dv_from_app : forall a b x, dv_from x (a ++ b) = dv_from (dv_from x a) b.
Proof. intros. unfold dv_from. apply fold_left_app. Qed.

Lemma dec_digits_spec : forall fuel n acc, (1 <= fuel)%nat -> 0 <= n < 10 ^ Z.of_nat fuel ->
  exists ds, dec_digits fuel n acc = ds ++ acc /\ ds <> [] /\ forallb is_digit ds = true /\
             forall x, dv_from x ds = x * 10 ^ Z.of_nat (length ds) + n.
Proof.
  induction fuel as [|f IH]; intros n acc Hf Hn; [lia|]. cbn [dec_digits].
  assert (Hm : 0 <= n mod 10 <= 9) by (pose proof (Z.mod_pos_bound n 10 eq_refl); lia).
  destruct (digit_char (n mod 10) Hm) as [Hd Hv].
  destruct (Z.ltb_spec n 10) as [Hlt|Hge].
  - exists [Z.to_N (48 + n mod 10)]. repeat split.
    + discriminate.
    + cbn [forallb]. rewrite Hd. reflexivity.
    + intros x. unfold dv_from. cbn [fold_left length]. rewrite Hv. change (10 ^ Z.of_nat 1) with 10.
      rewrite Z.mod_small by lia. lia.
  - assert (Hf1 : (1 <= f)%nat).
    { destruct f; [|lia]. cbn in Hn. lia. }
    assert (Hn' : 0 <= n / 10 < 10 ^ Z.of_nat f).
    { split; [apply Z.div_pos; lia|]. apply Z.div_lt_upper_bound; [lia|].
      replace (Z.of_nat (S f)) with (Z.of_nat f + 1) in Hn by lia. rewrite Z.pow_add_r in Hn by lia. lia. }
    destruct (IH (n / 10) (Z.to_N (48 + n mod 10) :: acc) Hf1 Hn') as (ds & E & Hne & Hdg & Hval).
    exists (ds ++ [Z.to_N (48 + n mod 10)]). repeat split.
    + rewrite E, <- app_assoc. reflexivity.
    + destruct ds; discriminate.
    + rewrite forallb_app. apply andb_true_iff. split; [exact Hdg|]. cbn [forallb]. rewrite Hd. reflexivity.
    + intros x. rewrite dv_from_app, Hval. unfold dv_from at 1. cbn [fold_left]. rewrite Hv. rewrite app_length. cbn [length].
      replace (Z.of_nat (length ds + 1)) with (Z.of_nat (length ds) + 1) by lia.
      rewrite Z.pow_add_r by lia. pose proof (Z_div_mod_eq_full n 10). lia.
Qed.

Lemma dec_nonneg_spec : forall n, 0 <= n ->
  exists ds, dec_nonneg n = ds /\ ds <> [] /\ forallb is_digit ds = true /\
             forall x, dv_from x ds = x * 10 ^ Z.of_nat (length ds) + n.
Proof.
  intros n Hn. unfold dec_nonneg.
  assert (Hb : 0 <= n < 10 ^ Z.of_nat (S (Z.to_nat (Z.log2 n)))).
  { split; [exact Hn|]. pose proof (Z.log2_nonneg n) as HL.
    replace (Z.of_nat (S (Z.to_nat (Z.log2 n)))) with (Z.log2 n + 1) by lia.
    destruct (Z.eq_dec n 0) as [->|Hnz]; [cbn; lia|].
    destruct (Z.log2_spec n ltac:(lia)) as [_ H2]. replace (Z.succ (Z.log2 n)) with (Z.log2 n + 1) in H2 by lia.
    assert (2 ^ (Z.log2 n + 1) <= 10 ^ (Z.log2 n + 1)) by (apply Z.pow_le_mono_l; lia). lia. }
  assert (Hf : (1 <= S (Z.to_nat (Z.log2 n)))%nat) by lia.
  destruct (dec_digits_spec _ n [] Hf Hb) as (ds & E & H1 & H2 & H3).
  exists ds. rewrite E, app_nil_r. auto.
Qed.

(* ------------------------------------------------------------------------------------------------ *)
(* 3. parsing a printed size  "<I>.<d1><d2> <XB>" *)

Definition sfx_table : list (bytes * Z) :=
  [([75;66]%N, 1024); ([77;66]%N, 1024 ^ 2); ([71;66]%N, 1024 ^ 3); ([84;66]%N, 1024 ^ 4); ([80;66]%N, 1024 ^ 5)].

Definition printed (I fr : Z) (sfx : bytes) : bytes :=
  dec_nonneg I ++ [46%N; Z.to_N (48 + fr / 10); Z.to_N (48 + fr mod 10)] ++ 32%N :: sfx.

Lemma digit_cases : forall c, is_digit c = true ->
  c = 48%N \/ c = 49%N \/ c = 50%N \/ c = 51%N \/ c = 52%N \/ c = 53%N \/ c = 54%N \/ c = 55%N \/ c = 56%N \/ c = 57%N.
Proof. intros c H. unfold is_digit in H. lia. Qed.

Lemma trim_left_digit : forall c s, is_digit c = true -> trim_left (c :: s) = c :: s.
Proof.
  intros c s H. unfold trim_left. cbn [length trim_left_with].
  assert (E : strip_one ws_seqs (c :: s) = None).
  { destruct (digit_cases c H) as [->|[->|[->|[->|[->|[->|[->|[->|[->| ->]]]]]]]]]; reflexivity. }
  rewrite E. reflexivity.
Qed.

Lemma trim_right_B : forall s, trim_right (s ++ [66%N]) = s ++ [66%N].
Proof.
  intros s. unfold trim_right. rewrite rev_app_distr. cbn [rev app]. unfold bytes, byte in *.
  destruct (length (s ++ [66%N])) eqn:El; [rewrite app_length in El; cbn in El; lia|].
  cbn [trim_left_with]. unfold bytes, byte in *.
  assert (E : strip_one (map (@rev N) ws_seqs) (66%N :: rev s) = None) by reflexivity.
  rewrite E. cbn [rev]. rewrite rev_involutive. reflexivity.
Qed.

Lemma trim_space_printed : forall c pre K, is_digit c = true ->
  trim_space ((c :: pre) ++ [K; 66%N]) = (c :: pre) ++ [K; 66%N].
Proof.
  intros c pre K Hc. unfold trim_space. cbn [app]. rewrite trim_left_digit by exact Hc.
  replace (c :: pre ++ [K; 66%N]) with ((c :: pre ++ [K]) ++ [66%N]) by (cbn [app]; rewrite <- app_assoc; reflexivity).
  apply trim_right_B.
Qed.

Lemma num_char_digit : forall c, is_digit c = true -> num_char c = true.
Proof. intros c H. unfold num_char. rewrite H. reflexivity. Qed.

Lemma parse_printed_gen : forall ds d1 d2 K m,
  ds <> [] -> forallb is_digit ds = true -> is_digit d1 = true -> is_digit d2 = true ->
  num_char K = false -> re_space K = false ->
  bs_multiplier (lower_for_lookup 2 [K; 66%N]) = Some m ->
  bytesize_parse (ds ++ [46%N; d1; d2] ++ 32%N :: [K; 66%N]) =
    let v := rne (digits_val (ds ++ [d1; d2])) 100 in
    if two1024 * snd v <=? fst v then None
    else let res := f_mul v (f_of_Z m) in
         if two63 * snd res <=? fst res then None else Some (f_trunc res).
Proof.
  intros ds d1 d2 K m Hne Hds Hd1 Hd2 HK Hsp Hm.
  destruct ds as [|c ds']; [congruence|]. cbn [forallb] in Hds. apply andb_true_iff in Hds as [Hc Hds'].
  assert (HKd : is_digit K = false) by (unfold num_char in HK; apply orb_false_iff in HK; apply HK).
  unfold bytesize_parse.
  replace ((c :: ds') ++ [46%N; d1; d2] ++ 32%N :: [K; 66%N])
    with ((c :: ds' ++ [46%N; d1; d2; 32%N]) ++ [K; 66%N]) by (cbn [app]; rewrite <- app_assoc; reflexivity).
  rewrite trim_space_printed by exact Hc.
  replace ((c :: ds' ++ [46%N; d1; d2; 32%N]) ++ [K; 66%N])
    with (((c :: ds') ++ [46%N; d1; d2]) ++ (32%N :: [K; 66%N])) by (cbn [app]; rewrite <- !app_assoc; reflexivity).
  change (fun c0 : N => is_digit c0 || N.eqb c0 46) with num_char.
  assert (Hnum : forallb num_char ((c :: ds') ++ [46%N; d1; d2]) = true).
  { rewrite forallb_app. apply andb_true_iff. split.
    - cbn [forallb]. rewrite (num_char_digit c Hc). cbn [andb]. apply forallb_forall. intros x Hx.
      apply num_char_digit. eapply forallb_forall in Hds'; eauto.
    - cbn [forallb]. rewrite (num_char_digit d1 Hd1), (num_char_digit d2 Hd2). reflexivity. }
  rewrite (span_app num_char _ (32%N :: [K; 66%N]) Hnum) by reflexivity.
  cbn [app].
  assert (Hsp2 : span re_space (32%N :: [K; 66%N]) = ([32%N], [K; 66%N])).
  { cbn [span]. change (re_space 32) with true. cbv iota. rewrite Hsp. reflexivity. }
  rewrite Hsp2.
  assert (Hex : existsb is_digit [K; 66%N] = false) by (cbn [existsb]; rewrite HKd; reflexivity).
  rewrite Hex. cbn [length]. rewrite Hm.
  assert (Hdot : existsb (N.eqb 46) (c :: ds' ++ [46%N; d1; d2]) = true).
  { change (c :: ds' ++ [46%N; d1; d2]) with ((c :: ds') ++ [46%N; d1; d2]). rewrite existsb_app.
    apply orb_true_iff. right. reflexivity. }
  rewrite Hdot.
  unfold parse_float_dec.
  change (c :: ds' ++ [46%N; d1; d2]) with ((c :: ds') ++ (46%N :: [d1; d2])).
  assert (Hdig : forallb is_digit (c :: ds') = true) by (cbn [forallb]; rewrite Hc, Hds'; reflexivity).
  rewrite (span_app is_digit (c :: ds') (46%N :: [d1; d2]) Hdig) by reflexivity.
  cbn [forallb length]. rewrite Hd1, Hd2. cbn [andb Nat.eqb negb].
  change (10 ^ Z.of_nat 2) with 100.
  cbv zeta. cbn [app].
  destruct (two1024 * snd (rne (digits_val (c :: ds' ++ [d1; d2])) 100) <=? fst (rne (digits_val (c :: ds' ++ [d1; d2])) 100)); reflexivity.
Qed.

(* ------------------------------------------------------------------------------------------------ *)
(* 4. the printed text *)

(* %.2f: the number of hundredths printed *)
Definition round2 (x : fl) : Z :=
  let n := fst x * 100 in
  let q := n / snd x in
  let r := n mod snd x in
  if (snd x <? 2 * r) || ((2 * r =? snd x) && Z.odd q) then q + 1 else q.

Lemma fmt_2f_eq : forall x, fmt_2f x =
  dec_nonneg (round2 x / 100) ++ [46%N; Z.to_N (48 + (round2 x mod 100) / 10); Z.to_N (48 + (round2 x mod 100) mod 10)].
Proof. reflexivity. Qed.

Lemma round2_spec : forall x, 0 <= fst x -> 0 < snd x ->
  0 <= round2 x /\ 2 * (round2 x * snd x) <= 200 * fst x + snd x /\ 200 * fst x - snd x <= 2 * (round2 x * snd x).
Proof.
  intros [F D] HF HD. cbn [fst snd] in *. unfold round2. cbn [fst snd].
  set (n := F * 100). set (q := n / D). set (r := n mod D).
  assert (Hdm : n = D * q + r) by apply Z_div_mod_eq_full.
  assert (Hr : 0 <= r < D) by (apply Z.mod_pos_bound; exact HD).
  assert (Hq : 0 <= q) by (apply Z.div_pos; lia).
  destruct ((D <? 2 * r) || ((2 * r =? D) && Z.odd q)) eqn:E.
  - assert (D <= 2 * r) by (apply orb_true_iff in E as [E|E]; [lia|apply andb_true_iff in E as [E _]; lia]). nia.
  - apply orb_false_iff in E as [E1 E2]. nia.
Qed.

Lemma print_cases : forall b, 1024 <= b ->
  let f0 := f_of_Z b in
  exists K m D, In ([K; 66%N], m) sfx_table /\ D = snd f0 * m /\
    bytesize_print b = fmt_2f (fst f0, D) ++ 32%N :: [K; 66%N] /\
    (m <= b \/ snd f0 * m <= fst f0).
Proof.
  intros b Hb f0. unfold bytesize_print. replace (b <? 1024) with false by lia. fold f0.
  unfold bs_suffixes. cbn [bs_print_loop fst snd]. unfold f_ltb. cbn [fst snd].
  destruct (fst f0 * 1 <? 1024 * (snd f0 * 1024)) eqn:E1.
  { exists 75%N, 1024, (snd f0 * 1024). repeat split; [left; reflexivity|left; lia]. }
  destruct (fst f0 * 1 <? 1024 * (snd f0 * 1024 * 1024)) eqn:E2.
  { exists 77%N, (1024 ^ 2), (snd f0 * 1024 * 1024). repeat split; [right; left; reflexivity|ring|right; lia]. }
  destruct (fst f0 * 1 <? 1024 * (snd f0 * 1024 * 1024 * 1024)) eqn:E3.
  { exists 71%N, (1024 ^ 3), (snd f0 * 1024 * 1024 * 1024). repeat split; [right; right; left; reflexivity|ring|right; lia]. }
  destruct (fst f0 * 1 <? 1024 * (snd f0 * 1024 * 1024 * 1024 * 1024)) eqn:E4.
  { exists 84%N, (1024 ^ 4), (snd f0 * 1024 * 1024 * 1024 * 1024). repeat split; [right; right; right; left; reflexivity|ring|right; lia]. }
  exists 80%N, (1024 ^ 5), (snd f0 * 1024 * 1024 * 1024 * 1024 * 1024).
  repeat split; [right; right; right; right; left; reflexivity|ring|right; lia].
Qed.

(* ------------------------------------------------------------------------------------------------ *)
(* 5. composition of the four roundings (in Q; every hypothesis is linear in the named quantities) *)

Local Open Scope Q_scope.

Definition e_up : Q := 2251799813685249 # 2251799813685248.     (* 1 + 2^-51 *)
Definition e_dn : Q := 2251799813685247 # 2251799813685248.     (* 1 - 2^-51 *)
Definition slack47 : Q := 1 # 140737488355328.                   (* 2^-47 *)

Lemma compose : forall bQ mQ f0 P W R b',
  1024 <= bQ -> 0 < mQ -> mQ <= bQ * e_up ->
  f0 <= bQ * e_up -> bQ * e_dn <= f0 ->
  P <= f0 + mQ * (1 # 200) -> f0 - mQ * (1 # 200) <= P ->
  W <= P * e_up -> P * e_dn <= W ->
  R <= W * e_up -> W * e_dn <= R ->
  R - 1 < b' -> b' <= R ->
  b' - bQ <= mQ * (1 # 200) + 1 + bQ * slack47 /\ bQ - b' <= mQ * (1 # 200) + 1 + bQ * slack47 /\
  R <= bQ + mQ * (1 # 200) + bQ * slack47.
Proof.
  intros bQ mQ f0 P W R b'. unfold e_up, e_dn, slack47. intros. repeat split; lra.
Qed.

Local Open Scope Z_scope.

Ltac q2z' := unfold Qminus; unfold Qle, Qlt, Qplus, Qopp, Qmult, e_up, e_dn, slack47; cbn [Qnum Qden];
             rewrite ?Pos2Z.inj_mul, ?Z2Pos.id by lia.

Lemma sfx_facts : forall K m, In ([K; 66%N], m) sfx_table ->
  num_char K = false /\ re_space K = false /\ bs_multiplier (lower_for_lookup 2 [K; 66%N]) = Some m /\
  0 < snd (f_of_Z m) /\ fst (f_of_Z m) = m * snd (f_of_Z m) /\ 1024 <= m <= 1024 ^ 5.
Proof.
  intros K m Hin. cbn in Hin.
  destruct Hin as [E|[E|[E|[E|[E|[]]]]]]; inversion E; subst; vm_compute; repeat split; try reflexivity; intro; discriminate.
Qed.

Lemma digits_of_printed : forall ds q', 0 <= q' ->
  (forall x, dv_from x ds = x * 10 ^ Z.of_nat (length ds) + q' / 100) ->
  digits_val (ds ++ [Z.to_N (48 + (q' mod 100) / 10); Z.to_N (48 + (q' mod 100) mod 10)]) = q'.
Proof.
  intros ds q' Hq Hval. change (digits_val ?l) with (dv_from 0 l). rewrite dv_from_app, Hval.
  assert (Hfr : 0 <= q' mod 100 < 100) by (apply Z.mod_pos_bound; lia).
  assert (H1 : 0 <= (q' mod 100) / 10 <= 9).
  { split; [apply Z.div_pos; lia|]. assert ((q' mod 100) / 10 < 10) by (apply Z.div_lt_upper_bound; lia). lia. }
  assert (H2 : 0 <= (q' mod 100) mod 10 <= 9) by (pose proof (Z.mod_pos_bound (q' mod 100) 10 eq_refl); lia).
  unfold dv_from. cbn [fold_left].
  rewrite (proj2 (digit_char _ H1)), (proj2 (digit_char _ H2)).
  pose proof (Z_div_mod_eq_full q' 100). pose proof (Z_div_mod_eq_full (q' mod 100) 10). lia.
Qed.


(* ------------------------------------------------------------------------------------------------ *)
(* 6. the round trip *)

Lemma roundtrip_lemma : forall b, 1024 <= b -> b + 1024 ^ 5 / 200 + b / 2 ^ 47 + 2 <= 2 ^ 63 ->
  exists b' K m, In ([K; 66%N], m) sfx_table /\
    (exists num, bytesize_print b = num ++ 32%N :: [K; 66%N]) /\
    bytesize_parse (bytesize_print b) = Some b' /\
    Z.abs (b' - b) * 200 <= m + 400 + 200 * (b / 2 ^ 47).
Proof.
  intros b Hb Htop.
  destruct (print_cases b Hb) as (K & m & D & Hin & HD & Hpr & Hmb). cbv zeta in *.
  destruct (sfx_facts K m Hin) as (HK1 & HK2 & HK3 & HM0 & HM1 & Hm).
  (* float64(b) *)
  destruct (rne_spec b 1 ltac:(lia) ltac:(lia)) as (HS0 & HF0 & HA1 & HA2). cbv zeta in *.
  change (rne b 1) with (f_of_Z b) in *.
  set (F := fst (f_of_Z b)) in *. set (S0 := snd (f_of_Z b)) in *.
  assert (HDpos : 0 < D) by (subst D; nia).
  (* %.2f *)
  destruct (round2_spec (F, D) HF0 HDpos) as (Hq0 & HB1 & HB2). cbn [fst snd] in HB1, HB2.
  set (q' := round2 (F, D)) in *.
  assert (H2F : D <= 2 * F).
  { destruct Hmb as [Hmb|Hmb]; [|subst D; lia]. subst D. unfold p51 in *. nia. }
  assert (Hq'pos : 0 < q') by nia.
  rewrite Hpr, fmt_2f_eq. fold q'.
  destruct (dec_nonneg_spec (q' / 100) ltac:(apply Z.div_pos; lia)) as (ds & Eds & Hne & Hdg & Hval).
  rewrite Eds.
  assert (Hfr : 0 <= q' mod 100 < 100) by (apply Z.mod_pos_bound; lia).
  assert (Hd1 : 0 <= (q' mod 100) / 10 <= 9).
  { split; [apply Z.div_pos; lia|]. assert ((q' mod 100) / 10 < 10) by (apply Z.div_lt_upper_bound; lia). lia. }
  assert (Hd2 : 0 <= (q' mod 100) mod 10 <= 9) by (pose proof (Z.mod_pos_bound (q' mod 100) 10 eq_refl); lia).
  rewrite <- app_assoc. unfold bytes, byte in *.
  rewrite (parse_printed_gen ds _ _ K m Hne Hdg (proj1 (digit_char _ Hd1)) (proj1 (digit_char _ Hd2)) HK1 HK2 HK3).
  cbv zeta. pose proof (digits_of_printed ds q' Hq0 Hval) as Hdv. unfold bytes, byte in Hdv. rewrite Hdv.
  (* ParseFloat *)
  destruct (rne_spec q' 100 Hq'pos ltac:(lia)) as (HSv & HV0 & HC1 & HC2). cbv zeta in *.
  set (V := fst (rne q' 100)) in *. set (Sv := snd (rne q' 100)) in *.
  assert (HVpos : 0 < V) by (unfold p51 in *; nia).
  assert (Hq'ub : q' <= 400 * b + 1).
  { assert (F <= 2 * b * S0) by (unfold p51 in *; nia). assert (S0 <= D) by (subst D; nia). nia. }
  assert (Hov1 : two1024 * Sv <=? V = false).
  { apply Z.leb_gt. assert (V <= q' * Sv) by (unfold p51 in *; nia).
    assert (q' < 2 ^ 80) by (assert (b < 2 ^ 63) by lia; lia).
    assert (q' * Sv < 2 ^ 80 * Sv) by (apply Z.mul_lt_mono_pos_r; lia).
    assert (2 ^ 80 * Sv <= two1024 * Sv) by (apply Z.mul_le_mono_nonneg_r; [lia|unfold two1024; apply Z.pow_le_mono_r; lia]).
    lia. }
  rewrite Hov1.
  (* the product with float64(unit), and its rounding *)
  set (M := f_of_Z m) in *.
  unfold f_mul. fold V Sv.
  destruct (rne_spec (V * fst M) (Sv * snd M) ltac:(rewrite HM1; nia) ltac:(nia)) as (HSr & HR0 & HD1 & HD2). cbv zeta in *.
  set (Rn := fst (rne (V * fst M) (Sv * snd M))) in *. set (Sr := snd (rne (V * fst M) (Sv * snd M))) in *.
  rewrite HM1 in HD1, HD2.
  assert (HD1' : Rn * Sv * p51 <= V * m * Sr * (p51 + 1)).
  { apply (Z.mul_le_mono_pos_r _ _ (snd M) HM0). nia. }
  assert (HD2' : V * m * Sr * (p51 - 1) <= Rn * Sv * p51).
  { apply (Z.mul_le_mono_pos_r _ _ (snd M) HM0). nia. }
  unfold f_trunc. fold Rn Sr.
  set (b' := Rn / Sr).
  assert (Hb' : Sr * b' <= Rn < Sr * b' + Sr).
  { unfold b'. pose proof (Z_div_mod_eq_full Rn Sr). pose proof (Z.mod_pos_bound Rn Sr HSr). lia. }
  (* the composition in Q *)
  pose proof (compose (b # 1) (m # 1) (F # Z.to_pos S0) (q' * m # 100) (V * m # Z.to_pos Sv) (Rn # Z.to_pos Sr) (b' # 1)) as HC.
  assert (HQ : ((b' # 1) - (b # 1) <= (m # 1) * (1 # 200) + 1 + (b # 1) * slack47 /\
                (b # 1) - (b' # 1) <= (m # 1) * (1 # 200) + 1 + (b # 1) * slack47 /\
                (Rn # Z.to_pos Sr) <= (b # 1) + (m # 1) * (1 # 200) + (b # 1) * slack47)%Q).
  { assert (X3 : m * p51 * S0 <= b * (p51 + 1) * S0).
    { destruct Hmb as [Hmb|Hmb]; [apply Z.mul_le_mono_nonneg_r; unfold p51; lia|]. unfold p51 in *. lia. }
    assert (X3' : m * p51 <= b * (p51 + 1)) by (apply (Z.mul_le_mono_pos_r _ _ S0 HS0); exact X3).
    assert (X8 : V * 100 * p51 * m <= q' * Sv * (p51 + 1) * m) by (apply Z.mul_le_mono_nonneg_r; lia).
    assert (X9 : q' * Sv * (p51 - 1) * m <= V * 100 * p51 * m) by (apply Z.mul_le_mono_nonneg_r; lia).
    subst D. unfold p51 in *.
    apply HC; clear HC; q2z'; lia. }
  destruct HQ as (HQ1 & HQ2 & HQ3).
  assert (Hov2 : two63 * Sr <=? Rn = false).
  { apply Z.leb_gt. revert HQ3. q2z'. intros HQ3.
    assert (Hm5 : m <= 1125899906842624) by (change (1024 ^ 5) with 1125899906842624 in Hm; lia).
    pose proof (Z_div_mod_eq_full b (2 ^ 47)). pose proof (Z.mod_pos_bound b (2 ^ 47) eq_refl).
    change (2 ^ 47) with 140737488355328 in *. change (2 ^ 63) with 9223372036854775808 in *.
    change (1024 ^ 5 / 200) with 5629499534213 in Htop. unfold two63. nia. }
  rewrite Hov2.
  exists b', K, m. split; [exact Hin|]. split; [eexists; rewrite app_assoc; reflexivity|]. split; [reflexivity|].
  revert HQ1 HQ2. q2z'. intros HQ1 HQ2.
  pose proof (Z_div_mod_eq_full b (2 ^ 47)). pose proof (Z.mod_pos_bound b (2 ^ 47) eq_refl).
  change (2 ^ 47) with 140737488355328 in *. lia.
Qed.
