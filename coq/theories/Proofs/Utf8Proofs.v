(* Utf8Proofs.v — Go compares strings bytewise; on UTF-8 encodings of code points below 0x110000 that is the
   lexicographic order of the code points (used by the model to sort tag keys and dimension keys). *)
From Pyro Require Import Model.Base Model.Key Proofs.BcmpProofs.
From Coq Require Import ZifyN ZifyBool.
Ltac Zify.zify_post_hook ::= Z.div_mod_to_equations.

Definition valid_rune (c : N) : Prop := c < 1114112.

Lemma bcmp_app_same : forall l x y, bcmp (l ++ x) (l ++ y) = bcmp x y.
Proof. induction l as [|c l IH]; intros x y; cbn; auto. rewrite N.compare_refl. apply IH. Qed.

Lemma bcmp_cons_lt : forall a b x y, a < b -> bcmp (a :: x) (b :: y) = Lt.
Proof. intros a b x y H. cbn. apply N.compare_lt_iff in H. rewrite H. reflexivity. Qed.

Lemma bcmp_cons_eq : forall a b x y, a = b -> bcmp (a :: x) (b :: y) = bcmp x y.
Proof. intros a b x y ->. cbn. rewrite N.compare_refl. reflexivity. Qed.

(* decide the comparison of the two heads; equal heads: go on; larger head: contradiction by arithmetic *)
Ltac head_step :=
  match goal with
  | |- bcmp (?p :: _) (?q :: _) = Lt =>
      let Hlt := fresh "Hlt" in let Heq := fresh "Heq" in let Hgt := fresh "Hgt" in
      destruct (N.lt_trichotomy p q) as [Hlt|[Heq|Hgt]];
      [apply bcmp_cons_lt; exact Hlt
      |rewrite (bcmp_cons_eq p q _ _ Heq)
      |exfalso; lia]
  end.

Lemma utf8_rune_lt : forall a b x y, a < b -> valid_rune b ->
  bcmp (utf8_rune a ++ x) (utf8_rune b ++ y) = Lt.
Proof.
  unfold valid_rune. intros a b x y Hab Hb. unfold utf8_rune.
  destruct (a <? 128) eqn:A1; [|destruct (a <? 2048) eqn:A2; [|destruct (a <? 65536) eqn:A3]];
  (destruct (b <? 128) eqn:B1; [|destruct (b <? 2048) eqn:B2; [|destruct (b <? 65536) eqn:B3]]);
  cbn [app]; try (exfalso; lia);
  try (apply bcmp_cons_lt; lia).
  - (* 2 bytes both *) head_step. head_step. exfalso; lia.
  - (* 3 bytes both *) head_step. head_step. head_step. exfalso; lia.
  - (* 4 bytes both *) head_step. head_step. head_step. head_step. exfalso; lia.
Qed.

Lemma utf8_rune_nonempty : forall c, utf8_rune c <> [].
Proof.
  intros c. unfold utf8_rune.
  destruct (c <? 128); [|destruct (c <? 2048); [|destruct (c <? 65536)]]; discriminate.
Qed.

Theorem utf8_order : forall s t, Forall valid_rune s -> Forall valid_rune t ->
  bcmp (utf8 s) (utf8 t) = bcmp s t.
Proof.
  unfold utf8. induction s as [|a s IH]; intros [|b t] Hs Ht; cbn [flat_map].
  - reflexivity.
  - cbn [bcmp]. destruct (utf8_rune b) eqn:E; [apply utf8_rune_nonempty in E; contradiction|reflexivity].
  - cbn [bcmp]. destruct (utf8_rune a) eqn:E; [apply utf8_rune_nonempty in E; contradiction|reflexivity].
  - inversion Hs; subst. inversion Ht; subst. cbn [bcmp].
    destruct (N.compare_spec a b) as [->|Hlt|Hgt].
    + rewrite bcmp_app_same. auto.
    + apply utf8_rune_lt; auto.
    + rewrite bcmp_antisym. rewrite utf8_rune_lt; auto.
Qed.
